#!/bin/bash
# usage: tools/seedbase.sh CXX...   runs the repo suite on /repo + seeded/CXX/patch.diff (sequentially) and records it in meta.json
export GOFLAGS=-mod=mod GOPROXY=off; unset GOSUMDB
for ID in "$@"; do
  S=$(mktemp -d /tmp/seedbase.$ID.XXXX); rsync -a --exclude .git /repo/ $S/
  (cd $S && patch -p1 -s < /verif/seeded/$ID/patch.diff) || echo "PATCH FAILED $ID"
  bl=$(/verif/tools/baseline.sh $S 2>&1 | head -6 | tr '\n' ' ')
  echo "$ID baseline: $bl"
  python3 - "$ID" "$bl" <<'PY'
import json,sys
pid,bl=sys.argv[1:3]
f='/verif/seeded/%s/meta.json'%pid; m=json.load(open(f))
m['verification_log']=[l for l in m['verification_log'] if not l.startswith('baseline:')]+['baseline: '+bl]
m['repo_suite_passes_with_change']='not passing: 0' in bl
json.dump(m,open(f,'w'),indent=1)
PY
  rm -rf $S
done
