#!/usr/bin/env python3
"""Prints the markdown catch matrix from seeded/*/meta.json (used for DESIGN.md §10)."""
import json, glob, os, re
V = os.path.dirname(os.path.dirname(os.path.abspath(__file__)))
rows = []
for f in sorted(glob.glob(os.path.join(V, "seeded", "*", "meta.json"))):
    m = json.load(open(f))
    pid = os.path.basename(os.path.dirname(f))
    notes = ""
    nf = os.path.join(os.path.dirname(f), "notes.md")
    what = m.get("summary") or json.load(open(os.path.join(V, "seeded", "summaries.json"))).get(pid, "")
    ok = all([m.get("builds"), m.get("demo_fails_with_change"), m.get("demo_passes_without_change")])
    suite = m.get("repo_suite_passes_with_change")
    caught = ", ".join(m.get("caught_by") or []) or "—"
    missed = ", ".join(m.get("missed_by") or [])
    cls = ""
    for l in m.get("verification_log", []):
        mm = re.search(r"class=(\S+)", l)
        if mm and "VIOLATION" in l:
            cls = mm.group(1)
            break
    rows.append((pid, what, "yes" if ok else "NO", {True: "yes", False: "NO", None: "pending"}[suite], caught, cls, missed))
print("| Seeded change | What it breaks / what it needs to manifest | Demo fails with, passes without | Repo suite passes with it | Caught by (quick tier) | Class reported | Missed by |")
print("|---|---|---|---|---|---|---|")
for r in rows:
    print("| seeded/%s | %s | %s | %s | %s | `%s` | %s |" % r)
