#!/bin/bash
# Runs the repository's pinned test suite (guard off) on $1 (default /repo) and compares with BASELINE.json.
R=${1:-/repo}
export GOFLAGS=-mod=mod GOPROXY=off
unset GOSUMDB
cd "$R" && go test -json -vet=off -count=1 -timeout 25m ./... > /tmp/vf-baseline.$$.json 2>/tmp/vf-baseline.$$.err
python3 - /tmp/vf-baseline.$$.json <<'PY'
import json,sys
base=set(json.load(open('/root/.vp/BASELINE.json'))['stable_pass'])
res={}
for l in open(sys.argv[1]):
    try: d=json.loads(l)
    except: continue
    if d.get('Test') and d.get('Action') in ('pass','fail','skip'):
        res[d['Package']+'::'+d['Test']]=d['Action']
missing=[t for t in base if res.get(t)!='pass']
print('baseline tests:',len(base),'passed now:',sum(1 for t in base if res.get(t)=='pass'),'not passing:',len(missing))
for t in sorted(missing)[:40]: print('  ',t,res.get(t))
newfail=[t for t,a in res.items() if a=='fail' and t not in base]
print('failing tests outside baseline:',newfail[:10])
sys.exit(1 if missing else 0)
PY
rc=$?
if [ $rc -ne 0 ]; then
  echo "--- package-level failures / panics:"
  python3 - /tmp/vf-baseline.$$.json <<'PY2'
import json,sys
out={}
for l in open(sys.argv[1]):
    try: d=json.loads(l)
    except Exception: continue
    if d.get('Action')=='output' and not d.get('Test'):
        out.setdefault(d['Package'],[]).append(d['Output'])
    if d.get('Action')=='fail' and not d.get('Test'):
        print('FAIL', d['Package']); print(''.join(out.get(d['Package'],[]))[-3000:])
PY2
  grep -h "panic:\|fatal error" -A 12 /tmp/vf-baseline.$$.json | head -5
  tail -5 /tmp/vf-baseline.$$.err
fi
rm -f /tmp/vf-baseline.$$.json /tmp/vf-baseline.$$.err
exit $rc
