#!/bin/bash
# usage: tools/seedcheck.sh CXX [check ids to run, default CXX]
# Verifies a seeded change produced in /tmp/seed/CXX (worktree) + /tmp/seed/CXX.out:
#   builds, demo fails with / passes without the change, repo suite passes with it, then runs our check(s).
# Writes /verif/seeded/CXX/{patch.diff,<demo>,meta.json}
set -u
ID=$1; shift; CHECKS="${@:-$ID}"
# SEEDROOT (default /tmp/seed) and SUFFIX (e.g. -2 for the second seeding round) select where the
# sub-agent worked and under which name the change is kept: /verif/seeded/<ID><SUFFIX>
SID=$ID${SUFFIX:-}
W=${SEEDROOT:-/tmp/seed}/$ID; O=${SEEDROOT:-/tmp/seed}/$ID.out; V=/verif
export GOFLAGS=-mod=mod GOPROXY=off VERIF_NO_EVIDENCE=1; unset GOSUMDB
if [ ! -f $O/patch.diff ] && [ -f $V/seeded/$SID/patch.diff ]; then
  # the sub-agent's worktree is gone: re-verify from what was kept under /verif/seeded
  O=$V/seeded/$SID
  DEMO_REL=$(python3 -c "import json;print(json.load(open('$V/seeded/$SID/meta.json'))['demo_file'])")
  W=/nonexistent
fi
[ -f $O/patch.diff ] || { echo "no patch.diff for $ID"; exit 2; }
if [ -z "${DEMO_REL:-}" ]; then
  DEMO_REL=$(git -C $W status --porcelain 2>/dev/null | grep '^??' | awk '{print $2}' | grep '_test.go$' | head -1)
  [ -z "$DEMO_REL" ] && DEMO_REL=$(cd $O && ls *_test.go 2>/dev/null | head -1)
fi
S=$(mktemp -d /tmp/seedchk.$SID.XXXX)
rsync -a --exclude .git /repo/ $S/
DEMO_SRC=$W/$DEMO_REL; [ -f "$DEMO_SRC" ] || DEMO_SRC=$O/$(basename $DEMO_REL)
# a demo that only lives in the output directory: put it into the package its `package` clause names
if [ "$(dirname $DEMO_REL)" = "." ]; then
  PKGNAME=$(grep -m1 '^package ' $DEMO_SRC | awk '{print $2}')
  if [ "$PKGNAME" != "webrtc" ] && [ "$PKGNAME" != "webrtc_test" ]; then
    for d in $(grep '^+++ b/' $O/patch.diff | sed 's#^+++ b/##' | xargs -n1 dirname | sort -u); do
      if grep -qs "^package ${PKGNAME%_test}\b" /repo/$d/*.go; then DEMO_REL=$d/$(basename $DEMO_REL); break; fi
    done
  fi
fi
DEMO_PKG=$(dirname $DEMO_REL)
cp $DEMO_SRC $S/$DEMO_REL 2>/dev/null || cp $DEMO_SRC $S/
DEMO_RUN=$(grep -o '^func Test[A-Za-z0-9_]*' $DEMO_SRC | sed 's/func //' | paste -sd'|')
res() { echo "$1" >> $S/result.txt; echo "$1"; }
RACE=""; [ "$ID" = "C40" ] && RACE="-race"
# demo without the change
(cd $S && go test $RACE -count=1 -vet=off -run "^($DEMO_RUN)\$" ./$DEMO_PKG > $S/demo_without.log 2>&1); rc_without=$?
(cd $S && patch -p1 -s < $O/patch.diff) || { res "PATCH-FAILED"; }
(cd $S && go build ./... > $S/build.log 2>&1); rc_build=$?
(cd $S && go test $RACE -count=1 -vet=off -run "^($DEMO_RUN)\$" ./$DEMO_PKG > $S/demo_with.log 2>&1); rc_with=$?
res "demo_without_rc=$rc_without demo_with_rc=$rc_with build_rc=$rc_build demo=$DEMO_REL run=$DEMO_RUN"
# our checks on the changed tree
CHK=""
for c in $CHECKS; do
  out=$(VERIF_REPO=$S $V/check $c 2>&1 | grep -E "^(OK|VIOLATION|INCONCLUSIVE|  class=)" | head -3 | tr '\n' ' ')
  res "check $c: $out"; CHK="$CHK | $c: $out"
done
# repo suite with the change (demo file removed so it does not count); NOBASE=1 defers it to tools/seedbase.sh
rm -f $S/$DEMO_REL
if [ -z "${NOBASE:-}" ]; then
  bl=$($V/tools/baseline.sh $S 2>&1 | head -4 | tr '\n' ' ')
  res "baseline: $bl"
fi
mkdir -p $V/seeded/$SID
[ "$O" = "$V/seeded/$SID" ] || { cp $O/patch.diff $V/seeded/$SID/patch.diff; cp $DEMO_SRC $V/seeded/$SID/; cp $O/notes.md $V/seeded/$SID/notes.md 2>/dev/null; }
python3 - "$ID" "$S/result.txt" "$DEMO_REL" "$SID" <<'PY'
import json,sys,re
pid,resf,demo,sid=sys.argv[1:5]
lines=open(resf).read().splitlines()
meta={"property":pid,"demo_file":demo,"verification_log":lines,
      "demo_fails_with_change": any('demo_with_rc=1' in l for l in lines),
      "demo_passes_without_change": any('demo_without_rc=0' in l for l in lines),
      "builds": any('build_rc=0' in l for l in lines),
      "repo_suite_passes_with_change": (any(l.startswith('baseline:') and 'not passing: 0' in l for l in lines) if any(l.startswith('baseline:') for l in lines) else None),
      "caught_by": [re.match(r'check (\S+):',l).group(1) for l in lines if l.startswith('check ') and 'VIOLATION' in l],
      "missed_by": [re.match(r'check (\S+):',l).group(1) for l in lines if l.startswith('check ') and 'VIOLATION' not in l]}
try:
    old=json.load(open('/verif/seeded/%s/meta.json'%sid))
    if meta["repo_suite_passes_with_change"] is None and old.get("repo_suite_passes_with_change") is not None:
        meta["repo_suite_passes_with_change"]=old["repo_suite_passes_with_change"]
        meta["verification_log"]+= [l for l in old.get("verification_log",[]) if l.startswith("baseline:")]
except Exception: pass
try:
    meta["summary"]=json.load(open('/verif/seeded/summaries.json')).get(sid,"")
except Exception: pass
json.dump(meta,open('/verif/seeded/%s/meta.json'%sid,'w'),indent=1)
PY
if [ -n "${KEEP:-}" ]; then echo "kept $S"; else rm -rf "/tmp/$(basename $S)"; fi
