#!/bin/bash
# usage: tools/runall.sh [-j N] [--tier T] [ids...]   (env VERIF_SEED, VERIF_REPO pass through)
J=4; TIER=quick
while [ $# -gt 0 ]; do case "$1" in -j) J=$2; shift 2;; --tier) TIER=$2; shift 2;; *) break;; esac; done
cd "$(dirname "$0")/.."
IDS="$@"; [ -z "$IDS" ] && IDS=$(ls props | grep '^C[0-9]*\.json$' | sed 's/\.json//')
mkdir -p build/runall
printf '%s\n' $IDS | xargs -P $J -I{} sh -c './check {} --tier '$TIER' > build/runall/{}.log 2>&1; echo "{} rc=$? $(grep -E "^(OK|VIOLATION|INCONCLUSIVE|KNOWN-FINDING)" build/runall/{}.log | head -4 | tr "\n" " " | cut -c1-260)"'
