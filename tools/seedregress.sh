#!/bin/bash
# usage: tools/seedregress.sh [-j N] [SID...]   (default: every seeded/<SID>)
# Re-runs, for every kept seeded change, the quick tier of the check(s) recorded in its meta.json as
# catching it, against a scratch copy of the CURRENT /repo with the patch applied.  Prints one line
# per (change, check): CAUGHT / MISSED / PATCH-FAILED / INCONCLUSIVE.  Nothing is written to /repo or
# to the evidence of the registered checks (VERIF_OUT_EVIDENCE is redirected).
J=4
if [ "$1" = "-j" ]; then J=$2; shift 2; fi
cd /verif
SIDS="$@"; [ -z "$SIDS" ] && SIDS=$(ls seeded | grep '^C[0-9]')
one() {
  sid=$1
  checks=$(python3 -c "import json;print(' '.join(json.load(open('/verif/seeded/$sid/meta.json')).get('caught_by') or [ '$sid'.split('-')[0] ]))")
  for c in $checks; do
    out=$(VERIF_NO_EVIDENCE=1 /verif/tools/mutrun.sh /verif/seeded/$sid/patch.diff -- $c --tier quick 2>&1)
    if echo "$out" | grep -q "PATCH FAILED"; then r=PATCH-FAILED
    elif echo "$out" | grep -q "^VIOLATION property=$c"; then r="CAUGHT $(echo "$out" | grep -m1 -o 'class=[^ ]*')"
    elif echo "$out" | grep -q "^OK property=$c"; then r=MISSED
    else r="INCONCLUSIVE $(echo "$out" | tail -1 | cut -c1-120)"; fi
    echo "$sid $c $r"
  done
}
export -f one
echo $SIDS | tr ' ' '\n' | xargs -P $J -I{} bash -c 'one {}'
