#!/usr/bin/env python3
"""Regenerates /verif/MANIFEST.json from props/*.json (one file per claimed property)."""
import json, os, glob, subprocess
V = os.path.dirname(os.path.dirname(os.path.abspath(__file__)))
props = {}
for fn in sorted(glob.glob(os.path.join(V, "props", "C*.json"))):
    p = json.load(open(fn))
    if not p.get("ready"):
        continue  # not reviewed / not validated on the unchanged tree yet: not claimed
    props[p["id"]] = p
allids = [json.loads(l)["id"] for l in open(os.path.join(V, "properties.jsonl"))]
na_reasons = {}
nafile = os.path.join(V, "props", "not_applicable.json")
if os.path.exists(nafile):
    na_reasons = json.load(open(nafile))
checks = []
for pid in allids:
    if pid not in props:
        continue
    p = props[pid]
    c = {
        "property_id": pid,
        "quick_cmd": "./check %s --tier quick" % pid,
        "thorough_cmd": "./check %s --tier thorough" % pid,
        "evidence_file": "/verif/evidence/%s.json" % pid,
        "replay_cmd_template": "./check %s --replay {path}" % pid,
        "engine": p.get("engine", "rapid-inpkg" if p["mode"] == "inpkg" else "rapid-ext"),
        "level_claimed": {"category": p.get("level", "exploration"), "text": p["level_text"], "design_ref": p.get("design_ref", "DESIGN.md §4 " + pid)},
        "level_note": p["level_note"],
        "technique": p["technique"],
    }
    checks.append(c)
hooks_commits = []
hf = os.path.join(V, "props", "hook_commits.json")
if os.path.exists(hf):
    hooks_commits = json.load(open(hf))
m = {
    "version": 1,
    "setup_cmd": "./setup.sh",
    "hooks": {
        "guard": "verif",
        "enable": "go test -tags verif -modfile=<build>/go.mod -overlay=<build>/overlay.json (done by ./check for every property)",
        "baseline_off_cmd": "cd /repo && GOFLAGS=-mod=mod GOPROXY=off go test -json -vet=off -count=1 -timeout 25m ./...",
        "source_commits": hooks_commits,
        "add_only": True,
    },
    "engines": [
        {"name": "rapid-inpkg", "path": "/verif/harness/inpkg", "kind_free_text": "pgregory.net/rapid v1.3.0 property tests compiled into the pion/webrtc packages through -overlay/-modfile (no repo edits); cases are JSON values, replay bypasses rapid",
         "serves_properties": [c["property_id"] for c in checks if c["engine"] == "rapid-inpkg"]},
        {"name": "rapid-ext", "path": "/verif/harness/ext", "kind_free_text": "external module (replace => /repo) with rapid property tests and native go fuzz targets for pkg/media and public-API checks",
         "serves_properties": [c["property_id"] for c in checks if c["engine"] == "rapid-ext"]},
    ],
    "checks": checks,
    "not_applicable": [{"property_id": pid, "reason": na_reasons.get(pid, "check not built yet in this session (planned: generated-input check per DESIGN.md §4 %s); not claimed until it runs clean on the unchanged tree" % pid)} for pid in allids if pid not in props],
    "notes": "Every check is `./check <ID>`; configuration per property in props/<ID>.json; known findings in known_findings.txt (known:/fixed: lines); design and catch matrix in DESIGN.md. Hooks: all yield points were added by the one hooks commit; two later fix: commits (025501a mux, f4db8f8 datachannel) rewrote the function a yield line sat in and carried that line along (guarded by the same build tag, no-op with the tag off).",
}
json.dump(m, open(os.path.join(V, "MANIFEST.json"), "w"), indent=1)
print("claimed", len(checks), "not_applicable", len(m["not_applicable"]))
