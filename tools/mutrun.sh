#!/bin/bash
# usage: tools/mutrun.sh <patchfile|-e 'sed-expr' file> -- <check args...>
# Applies a mutation to a scratch copy of /repo, runs ./check against it, removes the copy.
set -u
D=$(mktemp -d /tmp/vf-mut.XXXXXX)
rsync -a --exclude .git /repo/ "$D/"
if [ "$1" = "-e" ]; then
  sed -i -E "$2" "$D/$3" || { rm -rf "$D"; exit 3; }
  if diff -q "$D/$3" "/repo/$3" >/dev/null; then echo "MUTATION DID NOT APPLY"; rm -rf "$D"; exit 3; fi
  shift 3
else
  (cd "$D" && patch -p1 -s < "$1") || { echo "PATCH FAILED"; rm -rf "$D"; exit 3; }
  shift 1
fi
[ "$1" = "--" ] && shift
VERIF_REPO="$D" /verif/check "$@"
rc=$?
rm -rf "$D"
exit $rc
