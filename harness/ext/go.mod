module verifext

go 1.24.0
