package c34

// C34 — the Annex-B readers (h264reader, h265reader) return exactly the framed NAL units.
//
// Domain (from the statement): NAL units without emulated start codes (no 00 00 00 / 00 00 01
// inside a unit) and without a trailing zero byte, framed with 3- or 4-byte start codes,
// delivered by an io.Reader in arbitrary chunk sizes; SEI inclusion on/off.
// Oracle: the harness built the stream from the unit list, so the unit list *is* the reference:
// NextNAL must return exactly those units in order (minus SEI when inclusion is off), with the
// header fields equal to the bits of the header bytes, and then no further unit.
// Every case is first run with a plain chunked reader (final io.EOF delivered by a separate
// Read call); cases flagged DataEOF are then run a second time with a reader that returns the
// last bytes together with io.EOF (allowed by the io.Reader contract) and must give the same
// result.

import (
	"bytes"
	"fmt"
	"io"
	"testing"

	"github.com/pion/webrtc/v4/pkg/media/h264reader"
	"github.com/pion/webrtc/v4/pkg/media/h265reader"
	"pgregory.net/rapid"
)

type vfC34Nal struct {
	Hdr   []byte `json:"hdr"`   // 1 (H.264) or 2 (H.265) header bytes
	Body  []byte `json:"body"`  // explicit leading body bytes (biased to 0/1/2/3)
	Fill  int    `json:"fill"`  // number of pseudo-random bytes appended after Body
	FSeed uint32 `json:"fseed"` // seed of the fill bytes
	Four  bool   `json:"four"`  // 4-byte start code (else 3-byte)
}

type vfC34Case struct {
	Codec      string     `json:"codec"` // "h264" | "h265"
	Nals       []vfC34Nal `json:"nals"`
	Chunks     []int      `json:"chunks"` // read chunk sizes, cycled
	IncludeSEI bool       `json:"include_sei"`
	DataEOF    bool       `json:"data_eof"` // also run with a reader that returns the final bytes together with io.EOF
}

// vfC34Bytes materialises a unit: header + body + fill, then forced into the statement's domain
// (no 00 00 00 / 00 00 01 inside, last byte non-zero). Pure function of the case.
func vfC34Bytes(n vfC34Nal) []byte {
	b := make([]byte, 0, len(n.Hdr)+len(n.Body)+n.Fill)
	b = append(b, n.Hdr...)
	b = append(b, n.Body...)
	x := n.FSeed | 1
	for i := 0; i < n.Fill; i++ {
		x ^= x << 13
		x ^= x >> 17
		x ^= x << 5
		switch (x >> 8) & 7 {
		case 0, 1:
			b = append(b, 0)
		case 2:
			b = append(b, 1)
		case 3:
			b = append(b, 3)
		default:
			b = append(b, byte(x>>16))
		}
	}
	for i := 2; i < len(b); i++ {
		if b[i-2] == 0 && b[i-1] == 0 && (b[i] == 0 || b[i] == 1) {
			b[i] = 3 // what an encoder's emulation prevention does
		}
	}
	if b[len(b)-1] == 0 {
		b[len(b)-1] = 0x80 // rbsp stop bit
	}
	return b
}

type vfC34Rec struct {
	Data   []byte
	Fields string
}

// vfC34Chunked delivers data in the drawn chunk sizes. With dataEOF the last chunk is returned
// together with io.EOF.
type vfC34Chunked struct {
	data    []byte
	chunks  []int
	i       int
	dataEOF bool
	reads   int
}

func (r *vfC34Chunked) Read(p []byte) (int, error) {
	r.reads++
	if len(r.data) == 0 {
		return 0, io.EOF
	}
	n := 4096
	if len(r.chunks) > 0 {
		n = r.chunks[r.i%len(r.chunks)]
		r.i++
	}
	if n < 1 {
		n = 1
	}
	n = min(n, len(p), len(r.data))
	copy(p, r.data[:n])
	r.data = r.data[n:]
	if r.dataEOF && len(r.data) == 0 {
		return n, io.EOF
	}
	return n, nil
}

// vfC34Read runs pion's reader over the stream. It returns the units in order, and whether a
// (nil, error) answer ended the sequence (false: the call budget ran out, i.e. the reader kept
// returning units).
func vfC34Read(codec string, stream []byte, chunks []int, dataEOF, includeSEI bool, budget int) (recs []vfC34Rec, endErr error, ended bool, ctorErr error) {
	src := &vfC34Chunked{data: stream, chunks: chunks, dataEOF: dataEOF}
	switch codec {
	case "h264":
		r, err := h264reader.NewReaderWithOptions(src, h264reader.WithIncludeSEI(includeSEI))
		if err != nil {
			return nil, nil, false, err
		}
		for i := 0; i < budget; i++ {
			nal, err := r.NextNAL()
			if err != nil || nal == nil {
				return recs, err, true, nil
			}
			recs = append(recs, vfC34Rec{Data: append([]byte{}, nal.Data...),
				Fields: fmt.Sprintf("F=%v refidc=%d type=%d", nal.ForbiddenZeroBit, nal.RefIdc, uint8(nal.UnitType))})
		}
	case "h265":
		r, err := h265reader.NewReaderWithOptions(src, h265reader.WithIncludeSEI(includeSEI))
		if err != nil {
			return nil, nil, false, err
		}
		for i := 0; i < budget; i++ {
			nal, err := r.NextNAL()
			if err != nil || nal == nil {
				return recs, err, true, nil
			}
			recs = append(recs, vfC34Rec{Data: append([]byte{}, nal.Data...),
				Fields: fmt.Sprintf("F=%v type=%d layer=%d tid=%d", nal.ForbiddenZeroBit, uint8(nal.NalUnitType), nal.LayerID, nal.TemporalIDPlus1)})
		}
	}
	return recs, nil, false, nil
}

func vfC34IsSEI(codec string, b []byte) bool {
	if codec == "h264" {
		return b[0]&0x1F == 6
	}
	t := (b[0] & 0x7E) >> 1
	return t == 39 || t == 40
}

func vfC34Fields(codec string, b []byte) string {
	if codec == "h264" {
		return fmt.Sprintf("F=%v refidc=%d type=%d", b[0]&0x80 != 0, (b[0]>>5)&3, b[0]&0x1F)
	}
	return fmt.Sprintf("F=%v type=%d layer=%d tid=%d", b[0]&0x80 != 0, (b[0]>>1)&0x3F, (b[0]&1)<<5|b[1]>>3, b[1]&7)
}

func vfC34Short(b []byte) string {
	if len(b) <= 12 {
		return fmt.Sprintf("%x", b)
	}
	return fmt.Sprintf("%x..%x(len %d)", b[:6], b[len(b)-4:], len(b))
}

func vfC34Run(v *vfT, c vfC34Case) {
	if c.Codec != "h264" && c.Codec != "h265" {
		v.Skip("bad codec")
	}
	k := c.Codec
	v.Label(k)
	var stream []byte
	var all, want [][]byte
	starts := map[int]bool{} // offsets covered by start codes
	seiAny, seiLast, mixed, big := false, false, false, false
	tiny1, tiny1sei := false, false
	for i, n := range c.Nals {
		if (k == "h264" && len(n.Hdr) != 1) || (k == "h265" && len(n.Hdr) != 2 && len(n.Hdr) != 1) || n.Fill < 0 || n.Fill > 20000 {
			v.Skip("malformed case")
		}
		b := vfC34Bytes(n)
		if n.Four {
			stream = append(stream, 0)
		}
		for j := 0; j < 3; j++ {
			starts[len(stream)+j] = true
		}
		stream = append(stream, 0, 0, 1)
		stream = append(stream, b...)
		all = append(all, b)
		sei := vfC34IsSEI(k, b)
		if sei {
			seiAny = true
			seiLast = i == len(c.Nals)-1
		}
		if !sei || c.IncludeSEI {
			want = append(want, b)
		}
		if i > 0 && n.Four != c.Nals[0].Four {
			mixed = true
		}
		if len(b) > 4096 {
			big = true
		}
		if len(b) == 1 {
			tiny1 = true
			if sei && !c.IncludeSEI {
				tiny1sei = true
			}
		}
	}
	if c.IncludeSEI {
		v.Label("sei-on")
	} else {
		v.Label("sei-off")
	}
	if seiAny {
		v.Label("has-sei")
		if !c.IncludeSEI {
			v.Label("has-sei/off")
			if seiLast {
				v.Label("sei-last/off")
			} else {
				v.Label("sei-not-last/off")
			}
		}
	}
	if mixed {
		v.Label("startcodes-mixed")
	}
	if big {
		v.Label("nal>4096")
	}
	if tiny1 {
		v.Label("has-1-byte-unit")
	}
	if tiny1sei {
		v.Label("has-1-byte-SEI/off")
	}
	// does a read boundary fall inside a start code?
	{
		off, i, split := 0, 0, false
		for off < len(stream) && len(c.Chunks) > 0 {
			n := min(max(c.Chunks[i%len(c.Chunks)], 1), 4096)
			i++
			off += n
			if off < len(stream) && starts[off] && starts[off-1] {
				split = true
			}
		}
		if split {
			v.Label("read-boundary-inside-startcode")
		}
	}
	if len(c.Nals) >= 2 {
		v.NonTrivial()
	}
	v.Label(fmt.Sprintf("nals=%d", min(len(c.Nals), 5)))

	budget := len(c.Nals) + 3
	got, endErr, ended, cerr := vfC34Read(k, stream, c.Chunks, false, c.IncludeSEI, budget)
	if cerr != nil {
		v.Violation("C34/"+k+"/constructor", "NewReaderWithOptions failed: %v", cerr)
	}
	// 1. the common prefix must agree unit by unit
	for i := 0; i < len(want) && i < len(got); i++ {
		if !bytes.Equal(got[i].Data, want[i]) {
			v.Violation("C34/"+k+"/nal-bytes", "unit %d: got %s, framed %s (stream %d bytes, chunks %v)", i, vfC34Short(got[i].Data), vfC34Short(want[i]), len(stream), c.Chunks)
		}
		if k == "h265" && len(want[i]) < 2 {
			v.Label("h265-1-byte-unit(fields-not-asserted)") // there is no second header byte to compare with
			continue
		}
		if f := vfC34Fields(k, want[i]); got[i].Fields != f {
			v.Violation("C34/"+k+"/header-fields", "unit %d (%s): parsed %s, header bits say %s", i, vfC34Short(want[i]), got[i].Fields, f)
		}
	}
	if len(got) < len(want) {
		v.Violation("C34/"+k+"/nal-missing", "reader returned %d units then (nil, %v); %d were framed (first missing: %s)", len(got), endErr, len(want), vfC34Short(want[len(got)]))
	}
	if len(got) > len(want) {
		extra := got[len(want):]
		if !c.IncludeSEI && seiLast && len(extra) == 1 && bytes.Equal(extra[0].Data, all[len(all)-1]) {
			v.Violation("C34/"+k+"/sei-last-returned", "SEI inclusion is off and the last framed unit is an SEI (%s): NextNAL returned it (%d units framed, %d non-SEI)", vfC34Short(extra[0].Data), len(all), len(want))
		}
		v.Violation("C34/"+k+"/nal-extra", "reader returned %d units, %d expected; first extra: %s", len(got), len(want), vfC34Short(extra[0].Data))
	}
	if !ended {
		v.Violation("C34/"+k+"/nal-extra", "reader keeps returning units after %d calls (%d expected)", budget, len(want))
	}
	if endErr != io.EOF {
		v.Label("end-not-io.EOF") // the statement does not say how the end is signalled: counted, not asserted
	}

	// 2. the same stream through a reader that returns the final bytes together with io.EOF
	if c.DataEOF && len(stream) > 0 {
		v.Label("data+eof-reader")
		got2, endErr2, ended2, cerr2 := vfC34Read(k, stream, c.Chunks, true, c.IncludeSEI, budget)
		same := cerr2 == nil && ended2 && len(got2) == len(got)
		if same {
			for i := range got {
				if !bytes.Equal(got[i].Data, got2[i].Data) || got[i].Fields != got2[i].Fields {
					same = false
				}
			}
		}
		if !same {
			nb, nb2 := 0, 0
			for _, r := range got {
				nb += len(r.Data)
			}
			for _, r := range got2 {
				nb2 += len(r.Data)
			}
			v.Violation("C34/"+k+"/data-with-eof-lost", "a stream reader that returns its last %d bytes together with io.EOF yields %d units / %d unit bytes (end: %v); the same bytes with the EOF delivered by a separate Read yield %d units / %d unit bytes", vfC34LastChunk(len(stream), c.Chunks), len(got2), nb2, endErr2, len(got), nb)
		}
	}
}

func vfC34LastChunk(total int, chunks []int) int {
	off, i, last := 0, 0, total
	for off < total {
		n := 4096
		if len(chunks) > 0 {
			n = min(max(chunks[i%len(chunks)], 1), 4096)
			i++
		}
		n = min(n, total-off)
		last = n
		off += n
	}
	return last
}

func vfC34Gen(codec string) func(v *vfT) vfC34Case {
	return func(v *vfT) vfC34Case {
		t := v.R
		c := vfC34Case{Codec: codec}
		c.IncludeSEI = rapid.IntRange(0, 2).Draw(t, "sei") == 0 // 2/3 of the cases skip SEI (the default)
		c.DataEOF = rapid.IntRange(0, 5).Draw(t, "dataeof") == 0
		nn := rapid.OneOf(rapid.IntRange(1, 6), rapid.IntRange(0, 12)).Draw(t, "n")
		bodyByte := rapid.OneOf(rapid.SampledFrom([]byte{0, 0, 0, 1, 1, 2, 3, 0xFF}), rapid.Byte())
		for i := 0; i < nn; i++ {
			var n vfC34Nal
			f := byte(0)
			if rapid.IntRange(0, 19).Draw(t, "fbit") == 19 {
				f = 0x80
			}
			if codec == "h264" {
				// type: SEI 1/4, otherwise any of 0..31; the header byte 0x00 (unspecified type, never in a real stream) is excluded
				typ := rapid.OneOf(rapid.Just(6), rapid.IntRange(1, 23), rapid.IntRange(1, 23), rapid.IntRange(0, 31)).Draw(t, "type")
				ref := rapid.IntRange(0, 3).Draw(t, "refidc")
				h := f | byte(ref<<5) | byte(typ)
				if h == 0 {
					h = 0x20
				}
				n.Hdr = []byte{h}
			} else {
				typ := rapid.OneOf(rapid.SampledFrom([]int{39, 40}), rapid.IntRange(0, 40), rapid.IntRange(0, 40), rapid.IntRange(0, 63)).Draw(t, "type")
				layer := rapid.OneOf(rapid.Just(0), rapid.IntRange(0, 63)).Draw(t, "layer")
				tid := rapid.IntRange(1, 7).Draw(t, "tid")
				n.Hdr = []byte{f | byte(typ<<1) | byte(layer>>5), byte(layer<<3) | byte(tid)}
			}
			// size class: 1-byte unit (1/5), 2-byte unit (1/5), 3-byte unit (1/10), otherwise free
			switch rapid.IntRange(0, 9).Draw(t, "sizeclass") {
			case 0, 1:
				n.Hdr = n.Hdr[:1] // H.264: header only; H.265: first header byte only (the unit type is in it)
			case 2, 3:
				if codec == "h264" {
					n.Body = rapid.SliceOfN(bodyByte, 1, 1).Draw(t, "body1")
				}
			case 4:
				n.Body = rapid.SliceOfN(bodyByte, 3-len(n.Hdr), 3-len(n.Hdr)).Draw(t, "body3")
			default:
				n.Body = rapid.SliceOfN(bodyByte, 0, 24).Draw(t, "body")
				n.Fill = rapid.OneOf(rapid.Just(0), rapid.Just(0), rapid.IntRange(0, 300), rapid.IntRange(4000, 4200), rapid.IntRange(0, 10240)).Draw(t, "fill")
			}
			n.FSeed = rapid.Uint32().Draw(t, "fseed")
			n.Four = rapid.Bool().Draw(t, "four")
			c.Nals = append(c.Nals, n)
		}
		c.Chunks = rapid.SliceOfN(rapid.OneOf(rapid.IntRange(1, 8), rapid.SampledFrom([]int{1, 2, 3, 4, 5, 4095, 4096, 8192}), rapid.IntRange(1, 8192)), 1, 6).Draw(t, "chunks")
		return c
	}
}

var vfC34Opts = vfOpts{
	Rule: "0..12 NAL units (all unit types, SEI over-represented and allowed at every position incl. last; 1-byte units (H.265: the first header byte alone), 2- and 3-byte units and units up to 10 KiB; bodies biased towards 00/01/03 bytes and then forced free of 00 00 00 / 00 00 01 with a non-zero last byte), 3- or 4-byte start code per unit, read chunk sizes 1..8192 cycled, SEI inclusion on (1/3) or off (2/3), 1/6 additionally through a reader returning data together with io.EOF; non-trivial = at least two units",
	Assumptions: []string{
		"the unit list the stream was built from is the reference; how the end of the stream is signalled after the last unit (io.EOF or another error) is counted, not asserted",
		"the H.264 header byte 0x00 (forbidden=0, nal_ref_idc=0, type 0 'unspecified') and H.265 TemporalIdPlus1 = 0 (forbidden by the standard) are not generated; H.265 units starting with a 0x00 byte (TRAIL_N, layer 0) are",
	},
}

func TestVerif_C34_H264(t *testing.T) {
	vfProperty(t, "C34", vfC34Opts, vfC34Gen("h264"), vfC34Run)
}

func TestVerif_C34_H265(t *testing.T) {
	vfProperty(t, "C34", vfC34Opts, vfC34Gen("h265"), vfC34Run)
}
