package c37

// C37 — the container readers never crash or hang on arbitrary bytes.
//
// Readers under test: ivfreader, oggreader (checksum on and off, plus HeaderType / ParseOpusHead /
// ParseOpusTags on every page payload), h264reader, h265reader, rtpdump.Reader, and the
// OpusHead / OpusTags parsers on raw payloads.
// Oracle (no reference output is needed): (1) no panic; (2) every call returns — a call that has
// not returned after a watchdog far above normal latency is reported only together with a
// goroutine dump that shows the reader's frames and with frozen progress counters; (3) progress:
// the reader is called until it reports an error / end of stream, and the number of successful
// calls is bounded by len(input)+1 (every returned frame / page / unit / record consumes at least
// one input byte), so no sequence of calls can spin forever.
// Quick tier (deterministic): every truncation of every seed file, and rapid byte mutations of the
// seeds (bit flips, byte sets, 16/32-bit length splices 0/1/7/255/65535/2^31-1/2^32-1, deletions,
// duplications, insertions, cross-seed splices, optional Ogg CRC repair). Seeds are produced by
// the repository's own writers. Native fuzz targets (c37_fuzz_test.go) run in the thorough tier.
//
// Domain restriction: IVF frame-size fields above 16 MiB are clamped (ivfreader allocates what
// the 32-bit size field says before reading; a 4 GiB allocation per input is a resource question,
// not a crash or a hang, and makes the search useless).

import (
	"bytes"
	"encoding/binary"
	"fmt"
	"io"
	"net"
	"os"
	"path/filepath"
	"runtime"
	"sort"
	"strconv"
	"strings"
	"sync/atomic"
	"testing"
	"time"

	"github.com/pion/rtp"
	"github.com/pion/rtp/codecs"
	"github.com/pion/webrtc/v4/pkg/media/h264reader"
	"github.com/pion/webrtc/v4/pkg/media/h264writer"
	"github.com/pion/webrtc/v4/pkg/media/h265reader"
	"github.com/pion/webrtc/v4/pkg/media/h265writer"
	"github.com/pion/webrtc/v4/pkg/media/ivfreader"
	"github.com/pion/webrtc/v4/pkg/media/ivfwriter"
	"github.com/pion/webrtc/v4/pkg/media/oggreader"
	"github.com/pion/webrtc/v4/pkg/media/oggwriter"
	"github.com/pion/webrtc/v4/pkg/media/rtpdump"
	"pgregory.net/rapid"
)

const vfC37MaxIVFFrame = 16 << 20

var vfC37Readers = []string{"ivf", "ogg", "ogg-nocrc", "h264", "h265", "rtpdump", "opushead", "opustags"}

type vfC37Case struct {
	Reader string `json:"reader"`
	Data   []byte `json:"data"`
	Chunk  int    `json:"chunk"` // read chunk size of the underlying io.Reader (0 = everything at once)
	SEI    bool   `json:"sei"`   // h264/h265: WithIncludeSEI
	Note   string `json:"note,omitempty"`
}

// ---------------------------------------------------------------------------------------------
// driver: run one reader over one input, counting progress

type vfC37Counters struct {
	calls atomic.Int64 // reader calls started
	bytes atomic.Int64 // bytes handed out by the underlying io.Reader
}

type vfC37Src struct {
	data  []byte
	chunk int
	ctr   *vfC37Counters
}

func (s *vfC37Src) Read(p []byte) (int, error) {
	if len(s.data) == 0 {
		return 0, io.EOF
	}
	n := len(p)
	if s.chunk > 0 && s.chunk < n {
		n = s.chunk
	}
	n = min(n, len(s.data))
	copy(p, s.data[:n])
	s.data = s.data[n:]
	s.ctr.bytes.Add(int64(n))
	return n, nil
}

type vfC37Result struct {
	Successes int
	Problem   string // "" or a progress violation
	Panic     any
	Stack     string
}

// vfC37Drive calls the reader until it reports an error. Pure function of (c).
func vfC37Drive(c vfC37Case, ctr *vfC37Counters) (res vfC37Result) {
	defer func() {
		if r := recover(); r != nil {
			buf := make([]byte, 1<<14)
			res.Panic = r
			res.Stack = string(buf[:runtime.Stack(buf, false)])
		}
	}()
	limit := len(c.Data) + 1
	src := &vfC37Src{data: c.Data, chunk: c.Chunk, ctr: ctr}
	ok := func() bool { // one more successful call; false when the bound is exceeded
		res.Successes++
		if res.Successes > limit {
			res.Problem = fmt.Sprintf("%d successful calls on an input of %d bytes", res.Successes, len(c.Data))
			return false
		}
		return true
	}
	switch c.Reader {
	case "ivf":
		r, _, err := ivfreader.NewWith(src)
		if err != nil {
			return res
		}
		for {
			ctr.calls.Add(1)
			payload, hdr, err := r.ParseNextFrame()
			if err != nil {
				return res
			}
			if hdr == nil || int(hdr.FrameSize) != len(payload) {
				res.Problem = "ParseNextFrame returned no error with an inconsistent header"
				return res
			}
			if !ok() {
				return res
			}
		}
	case "ogg", "ogg-nocrc":
		var r *oggreader.OggReader
		var err error
		if c.Reader == "ogg" {
			r, _, err = oggreader.NewWith(src)
		} else {
			r, err = oggreader.NewWithOptions(src, oggreader.WithDoChecksum(false))
		}
		if err != nil {
			return res
		}
		for {
			ctr.calls.Add(1)
			payload, hdr, err := r.ParseNextPage()
			if err != nil {
				return res
			}
			if hdr == nil {
				res.Problem = "ParseNextPage returned neither a header nor an error"
				return res
			}
			_, _ = hdr.HeaderType(payload)
			_, _ = oggreader.ParseOpusHead(payload)
			_, _ = oggreader.ParseOpusTags(payload)
			if !ok() {
				return res
			}
		}
	case "h264":
		r, err := h264reader.NewReaderWithOptions(src, h264reader.WithIncludeSEI(c.SEI))
		if err != nil {
			return res
		}
		for {
			ctr.calls.Add(1)
			nal, err := r.NextNAL()
			if err != nil || nal == nil {
				return res
			}
			if len(nal.Data) == 0 {
				res.Problem = "NextNAL returned an empty unit"
				return res
			}
			if !ok() {
				return res
			}
		}
	case "h265":
		r, err := h265reader.NewReaderWithOptions(src, h265reader.WithIncludeSEI(c.SEI))
		if err != nil {
			return res
		}
		for {
			ctr.calls.Add(1)
			nal, err := r.NextNAL()
			if err != nil || nal == nil {
				return res
			}
			if len(nal.Data) == 0 {
				res.Problem = "NextNAL returned an empty unit"
				return res
			}
			if !ok() {
				return res
			}
		}
	case "rtpdump":
		r, _, err := rtpdump.NewReader(src)
		if err != nil {
			return res
		}
		for {
			ctr.calls.Add(1)
			_, err := r.Next()
			if err != nil {
				return res
			}
			if !ok() {
				return res
			}
		}
	case "opushead":
		ctr.calls.Add(1)
		_, _ = oggreader.ParseOpusHead(c.Data)
		var h rtpdump.Header // the other fixed-size header parser fed from untrusted bytes
		_ = h.Unmarshal(c.Data)
		var p rtpdump.Packet
		_ = p.Unmarshal(c.Data)
	case "opustags":
		ctr.calls.Add(1)
		_, _ = oggreader.ParseOpusTags(c.Data)
	default:
		res.Problem = "unknown reader " + c.Reader
	}
	return res
}

var vfC37Watchdog = 10 * time.Second

// vfC37Guard runs the drive under the watchdog. hang != "" only when the call did not return,
// the dump shows frames of the code under test and the progress counters stand still.
func vfC37Guard(c vfC37Case) (res vfC37Result, hang string, slow bool) {
	ctr := &vfC37Counters{}
	done := make(chan vfC37Result, 1)
	go func() { done <- vfC37Drive(c, ctr) }()
	timer := time.NewTimer(vfC37Watchdog)
	defer timer.Stop()
	select {
	case res = <-done:
		return res, "", false
	case <-timer.C:
	}
	// not back after the watchdog: look twice, 5 s apart
	c0, b0 := ctr.calls.Load(), ctr.bytes.Load()
	select {
	case res = <-done:
		return res, "", true
	case <-time.After(5 * time.Second):
	}
	c1, b1 := ctr.calls.Load(), ctr.bytes.Load()
	buf := make([]byte, 1<<20)
	dump := string(buf[:runtime.Stack(buf, true)])
	var mine string
	for _, g := range strings.Split(dump, "\n\n") {
		if strings.Contains(g, "vfC37Drive") && strings.Contains(g, "/pkg/media/") {
			mine = g
		}
	}
	if mine != "" && c0 == c1 && b0 == b1 {
		return res, fmt.Sprintf("call #%d has not returned after %v (bytes drawn from the input: %d of %d, unchanged for 5 s)\n%s", c1, vfC37Watchdog+5*time.Second, b1, len(c.Data), mine), true
	}
	// slow machine or unrelated stall: wait it out, never a violation by itself
	select {
	case res = <-done:
	case <-time.After(120 * time.Second):
	}
	return res, "", true
}

func vfC37Run(v *vfT, c vfC37Case) {
	known := false
	for _, r := range vfC37Readers {
		known = known || r == c.Reader
	}
	if !known || c.Chunk < 0 {
		v.Skip("malformed case")
	}
	if c.Reader == "ivf" {
		c.Data = vfC37ClampIVF(c.Data)
	}
	v.Label(c.Reader)
	res, hang, slow := vfC37Guard(c)
	if slow {
		v.Label("watchdog-expired")
	}
	if hang != "" {
		v.Violation("C37/"+c.Reader+"/hang", "%s", hang)
	}
	if res.Panic != nil {
		v.Violation("C37/"+c.Reader+"/panic", "panic: %v\n%s", res.Panic, res.Stack)
	}
	if res.Problem != "" {
		v.Violation("C37/"+c.Reader+"/no-progress", "%s", res.Problem)
	}
	switch {
	case res.Successes == 0:
		v.Label(c.Reader + "/0-successful-calls")
	case res.Successes == 1:
		v.Label(c.Reader + "/1-successful-call")
	default:
		v.Label(c.Reader + "/2+-successful-calls")
	}
	if res.Successes >= 1 || c.Reader == "opushead" || c.Reader == "opustags" {
		v.NonTrivial()
	}
}

// vfC37ClampIVF keeps every frame-size field reachable by a linear walk at or below 16 MiB.
func vfC37ClampIVF(b []byte) []byte {
	out := append([]byte{}, b...)
	off := 32
	for off+4 <= len(out) {
		sz := binary.LittleEndian.Uint32(out[off:])
		if sz > vfC37MaxIVFFrame {
			sz = sz % vfC37MaxIVFFrame
			binary.LittleEndian.PutUint32(out[off:], sz)
		}
		if off+12+int(sz) <= off { // overflow guard
			break
		}
		off += 12 + int(sz)
	}
	return out
}

// ---------------------------------------------------------------------------------------------
// seeds: valid files produced by the repository's own writers (deterministic)

func vfC37Fill(n int, seed uint32) []byte {
	b := make([]byte, n)
	x := seed | 1
	for i := range b {
		x ^= x << 13
		x ^= x >> 17
		x ^= x << 5
		b[i] = byte(x >> 9)
	}
	return b
}

func vfC37Must(err error) {
	if err != nil {
		panic("C37 seed construction: " + err.Error())
	}
}

type vfC37Seed struct {
	Name string
	Data []byte
}

func vfC37MakeSeeds() map[string][]vfC37Seed {
	seeds := map[string][]vfC37Seed{}
	add := func(reader, name string, data []byte) {
		seeds[reader] = append(seeds[reader], vfC37Seed{name, append([]byte{}, data...)})
	}
	hdr := func(i int, marker bool) rtp.Header {
		return rtp.Header{Version: 2, PayloadType: 96, SequenceNumber: uint16(i), Timestamp: uint32(3000 * i), SSRC: 1, Marker: marker}
	}
	// IVF: VP8 (fragmented frames) and AV1
	{
		var buf bytes.Buffer
		w, err := ivfwriter.NewWith(&buf, ivfwriter.WithCodec("video/VP8"))
		vfC37Must(err)
		pay := &codecs.VP8Payloader{}
		seq := 0
		for f, n := range []int{70, 9, 130} {
			frame := vfC37Fill(n, uint32(f+1))
			frame[0] &^= 1
			ps := pay.Payload(50, frame)
			for j, p := range ps {
				h := hdr(seq, j == len(ps)-1)
				h.Timestamp = uint32(3000 * f)
				vfC37Must(w.WriteRTP(&rtp.Packet{Header: h, Payload: p}))
				seq++
			}
		}
		vfC37Must(w.Close())
		add("ivf", "vp8", buf.Bytes())
	}
	{
		var buf bytes.Buffer
		w, err := ivfwriter.NewWith(&buf, ivfwriter.WithCodec("video/AV1"), ivfwriter.WithFrameRate(1, 90000), ivfwriter.WithDirectPTS())
		vfC37Must(err)
		pay := &codecs.AV1Payloader{}
		tu := append([]byte{0x12, 0x00, 0x0A, 0x05}, vfC37Fill(5, 3)...)    // TD, sequence header (5 bytes)
		tu = append(tu, append([]byte{0x32, 0x28}, vfC37Fill(40, 4)...)...) // frame OBU (40 bytes)
		ps := pay.Payload(30, tu)
		for j, p := range ps {
			vfC37Must(w.WriteRTP(&rtp.Packet{Header: hdr(j, j == len(ps)-1), Payload: p}))
		}
		vfC37Must(w.Close())
		add("ivf", "av1", buf.Bytes())
	}
	// Ogg: single track (incl. a packet spanning lacing values) and a two-track file with tags and channel mapping
	{
		var buf bytes.Buffer
		w, err := oggwriter.NewWith(&buf, 48000, 2)
		vfC37Must(err)
		for i, n := range []int{3, 50, 300, 10} {
			p := vfC37Fill(n, uint32(10+i))
			p[0] = 0x78 // CELT 20 ms, one frame
			vfC37Must(w.WriteRTP(&rtp.Packet{Header: hdr(i, true), Payload: p}))
		}
		vfC37Must(w.Close())
		add("ogg", "single", vfC37FixSerial(buf.Bytes()))
	}
	{
		var buf bytes.Buffer
		w, err := oggwriter.NewWriter(&buf, oggwriter.WithVendor("verif"), oggwriter.WithUserComments(oggwriter.UserComment{Comment: "TITLE", Value: "a=b"}, oggwriter.UserComment{Comment: "X", Value: ""}))
		vfC37Must(err)
		t1, err := w.NewTrack(11, oggwriter.WithSerial(0x01020304))
		vfC37Must(err)
		t2, err := w.NewTrack(22, oggwriter.WithSerial(0x0A0B0C0D), oggwriter.WithChannelMapping(1, 1, 1, []byte{0, 1}))
		vfC37Must(err)
		for i, n := range []int{20, 40, 30} {
			p := vfC37Fill(n, uint32(20+i))
			p[0] = 0x08 // SILK 20 ms, one frame
			h := hdr(i, true)
			h.SSRC = 11
			vfC37Must(t1.WriteRTP(&rtp.Packet{Header: h, Payload: p}))
			h.SSRC = 22
			vfC37Must(t2.WriteRTP(&rtp.Packet{Header: h, Payload: p}))
		}
		vfC37Must(w.Close())
		add("ogg", "two-tracks", buf.Bytes())
	}
	seeds["ogg-nocrc"] = seeds["ogg"]
	for _, s := range seeds["ogg"] {
		for i, pg := range vfC37OggPages(s.Data) {
			pl := pg.payload(s.Data)
			if bytes.HasPrefix(pl, []byte("OpusHead")) {
				add("opushead", fmt.Sprintf("%s-page%d", s.Name, i), pl)
			}
			if bytes.HasPrefix(pl, []byte("OpusTags")) {
				add("opustags", fmt.Sprintf("%s-page%d", s.Name, i), pl)
			}
		}
	}
	// H.264 / H.265 Annex-B through the payloaders and the writers
	{
		var buf bytes.Buffer
		w := h264writer.NewWith(&buf)
		pay := &codecs.H264Payloader{}
		au := []byte{}
		for _, n := range [][]byte{
			append([]byte{0x67}, vfC37Fill(10, 31)...), append([]byte{0x68}, vfC37Fill(4, 32)...),
			append([]byte{0x06}, vfC37Fill(6, 33)...), append([]byte{0x65}, vfC37Fill(90, 34)...),
			append([]byte{0x41}, vfC37Fill(20, 35)...), append([]byte{0x06}, vfC37Fill(5, 36)...),
		} {
			au = append(au, 0, 0, 1)
			au = append(au, vfC37NoStartCode(n)...)
		}
		for i, p := range pay.Payload(60, au) {
			vfC37Must(w.WriteRTP(&rtp.Packet{Header: hdr(i, false), Payload: p}))
		}
		vfC37Must(w.Close())
		add("h264", "writer", buf.Bytes())
		add("h264", "3-byte-start-codes", bytes.ReplaceAll(buf.Bytes(), []byte{0, 0, 0, 1}, []byte{0, 0, 1}))
	}
	{
		var buf bytes.Buffer
		w := h265writer.NewWith(&buf)
		pay := &codecs.H265Payloader{}
		au := []byte{}
		for _, n := range [][]byte{
			append([]byte{0x40, 0x01}, vfC37Fill(8, 41)...), append([]byte{0x42, 0x01}, vfC37Fill(12, 42)...),
			append([]byte{0x44, 0x01}, vfC37Fill(5, 43)...), append([]byte{0x4E, 0x01}, vfC37Fill(6, 44)...),
			append([]byte{0x26, 0x01}, vfC37Fill(90, 45)...), append([]byte{0x02, 0x01}, vfC37Fill(20, 46)...),
			append([]byte{0x50, 0x01}, vfC37Fill(5, 47)...),
		} {
			au = append(au, 0, 0, 1)
			au = append(au, vfC37NoStartCode(n)...)
		}
		for i, p := range pay.Payload(60, au) {
			vfC37Must(w.WriteRTP(&rtp.Packet{Header: hdr(i, false), Payload: p}))
		}
		vfC37Must(w.Close())
		add("h265", "writer", buf.Bytes())
		add("h265", "3-byte-start-codes", bytes.ReplaceAll(buf.Bytes(), []byte{0, 0, 0, 1}, []byte{0, 0, 1}))
	}
	// rtpdump
	{
		var buf bytes.Buffer
		w, err := rtpdump.NewWriter(&buf, rtpdump.Header{Start: time.Unix(1700000000, 123000).UTC(), Source: net.IPv4(10, 1, 2, 3), Port: 5004})
		vfC37Must(err)
		vfC37Must(w.WritePacket(rtpdump.Packet{Offset: 0, Payload: vfC37Fill(20, 51)}))
		vfC37Must(w.WritePacket(rtpdump.Packet{Offset: 20 * time.Millisecond, IsRTCP: true, Payload: vfC37Fill(8, 52)}))
		vfC37Must(w.WritePacket(rtpdump.Packet{Offset: 40 * time.Millisecond, Payload: vfC37Fill(60, 53)}))
		add("rtpdump", "writer", buf.Bytes())
	}
	return seeds
}

// vfC37NoStartCode removes accidental 00 00 0x runs from generated unit bytes.
func vfC37NoStartCode(b []byte) []byte {
	for i := 2; i < len(b); i++ {
		if b[i-2] == 0 && b[i-1] == 0 && b[i] <= 3 {
			b[i] = 0x55
		}
	}
	if b[len(b)-1] == 0 {
		b[len(b)-1] = 0x80
	}
	return b
}

type vfC37Page struct{ off, nseg, plen int }

func (p vfC37Page) payload(b []byte) []byte { return b[p.off+27+p.nseg : p.off+27+p.nseg+p.plen] }

// vfC37OggPages walks well-formed pages from the start (own parser, stops at the first malformed one).
func vfC37OggPages(b []byte) []vfC37Page {
	var out []vfC37Page
	off := 0
	for off+27 <= len(b) && string(b[off:off+4]) == "OggS" {
		nseg := int(b[off+26])
		if off+27+nseg > len(b) {
			break
		}
		plen := 0
		for _, s := range b[off+27 : off+27+nseg] {
			plen += int(s)
		}
		if off+27+nseg+plen > len(b) {
			break
		}
		out = append(out, vfC37Page{off, nseg, plen})
		off += 27 + nseg + plen
	}
	return out
}

var vfC37CRCTable = func() (t [256]uint32) {
	for i := range t {
		r := uint32(i) << 24
		for j := 0; j < 8; j++ {
			if r&0x80000000 != 0 {
				r = r<<1 ^ 0x04c11db7
			} else {
				r <<= 1
			}
		}
		t[i] = r
	}
	return t
}()

// vfC37FixCRC recomputes the checksum of every page reachable by the own walker.
func vfC37FixCRC(b []byte) []byte {
	out := append([]byte{}, b...)
	for _, p := range vfC37OggPages(out) {
		end := p.off + 27 + p.nseg + p.plen
		copy(out[p.off+22:], []byte{0, 0, 0, 0})
		var crc uint32
		for _, x := range out[p.off:end] {
			crc = crc<<8 ^ vfC37CRCTable[byte(crc>>24)^x]
		}
		binary.LittleEndian.PutUint32(out[p.off+22:], crc)
	}
	return out
}

// vfC37FixSerial makes the single-track seed deterministic (NewWith draws a random serial).
func vfC37FixSerial(b []byte) []byte {
	out := append([]byte{}, b...)
	for _, p := range vfC37OggPages(out) {
		binary.LittleEndian.PutUint32(out[p.off+14:], 0x5EED5EED)
	}
	return vfC37FixCRC(out)
}

// vfC37Offsets lists structurally interesting offsets (length / count fields) of a seed.
func vfC37Offsets(reader string, b []byte) []int {
	var offs []int
	switch reader {
	case "ivf":
		offs = append(offs, 0, 4, 6, 8, 16, 20, 24)
		for off := 32; off+12 <= len(b); {
			offs = append(offs, off, off+4)
			off += 12 + int(binary.LittleEndian.Uint32(b[off:]))
		}
	case "ogg", "ogg-nocrc":
		for _, p := range vfC37OggPages(b) {
			offs = append(offs, p.off, p.off+5, p.off+6, p.off+14, p.off+18, p.off+22, p.off+26, p.off+27, p.off+27+p.nseg, p.off+27+p.nseg+8, p.off+27+p.nseg+9, p.off+27+p.nseg+12, p.off+27+p.nseg+18)
		}
	case "h264", "h265":
		for i := 0; i+3 <= len(b); i++ {
			if b[i] == 0 && b[i+1] == 0 && b[i+2] == 1 {
				offs = append(offs, i, i+2, i+3)
			}
		}
	case "rtpdump":
		nl := bytes.IndexByte(b, '\n')
		offs = append(offs, 0, 2, 13, nl, nl+1, nl+9, nl+13)
		for off := nl + 17; off+8 <= len(b); {
			offs = append(offs, off, off+2, off+4)
			l := int(binary.BigEndian.Uint16(b[off:]))
			if l < 8 {
				break
			}
			off += l
		}
	case "opushead":
		offs = append(offs, 0, 8, 9, 18, 19, 20, 21)
	case "opustags":
		offs = append(offs, 0, 8, 12)
		if len(b) >= 12 {
			v := 12 + int(binary.LittleEndian.Uint32(b[8:]))
			offs = append(offs, v, v+4, v+8)
		}
	}
	var ok []int
	for _, o := range offs {
		if o >= 0 && o < len(b) {
			ok = append(ok, o)
		}
	}
	if len(ok) == 0 {
		ok = []int{0}
	}
	return ok
}

var vfC37SeedsOnce = vfC37MakeSeeds()

// ---------------------------------------------------------------------------------------------
// quick tier, part 1: every truncation of every seed (exhaustive, deterministic)

func TestVerif_C37_Truncations(t *testing.T) {
	var cases []vfC37Case
	for _, rd := range vfC37Readers {
		for _, s := range vfC37SeedsOnce[rd] {
			for n := 0; n <= len(s.Data); n++ {
				c := vfC37Case{Reader: rd, Data: s.Data[:n], Note: fmt.Sprintf("%s[:%d] of %d", s.Name, n, len(s.Data))}
				cases = append(cases, c)
				if rd == "h264" || rd == "h265" {
					c.SEI, c.Chunk = true, 1
					cases = append(cases, c)
				}
			}
		}
	}
	vfEnumerate(t, "C37", vfOpts{
		Rule: "every prefix (0..len bytes) of every seed file of every reader (seeds written by ivfwriter, oggwriter single- and multi-track, h264writer, h265writer, rtpdump.Writer; OpusHead/OpusTags payloads cut from the Ogg seeds); non-trivial = at least one successful reader call, or a raw header parser case",
		Assumptions: []string{
			"a returned frame/page/unit/record consumes at least one input byte, so more than len(input)+1 successful calls mean no progress",
			"IVF frame-size fields are clamped to 16 MiB (the reader allocates what the field says; memory use is outside the property)",
		},
	}, cases, true, vfC37Run)
}

// ---------------------------------------------------------------------------------------------
// quick tier, part 2: rapid byte mutations of the seeds

func vfC37Mutate(t *rapid.T, reader string, seeds []vfC37Seed) ([]byte, bool) {
	si := rapid.IntRange(0, len(seeds)-1).Draw(t, "seed")
	b := append([]byte{}, seeds[si].Data...)
	nops := rapid.IntRange(1, 4).Draw(t, "nops")
	for k := 0; k < nops && len(b) > 0; k++ {
		offs := vfC37Offsets(reader, b)
		var off int
		if rapid.Bool().Draw(t, "structural") {
			off = rapid.SampledFrom(offs).Draw(t, "soff")
		} else {
			off = rapid.IntRange(0, len(b)-1).Draw(t, "off")
		}
		switch rapid.IntRange(0, 8).Draw(t, "op") {
		case 0:
			b[off] ^= 1 << uint(rapid.IntRange(0, 7).Draw(t, "bit"))
		case 1:
			b[off] = rapid.OneOf(rapid.SampledFrom([]byte{0, 1, 2, 3, 7, 0x7F, 0x80, 0xFE, 0xFF}), rapid.Byte()).Draw(t, "val")
		case 2, 3: // splice a 32-bit / 16-bit value, either byte order
			val := rapid.OneOf(rapid.SampledFrom([]uint32{0, 1, 7, 8, 255, 256, 65535, 65536, 0x7FFFFFFF, 0x80000000, 0xFFFFFFFF, 0xFFFFFFFE}), rapid.Uint32Range(0, 600)).Draw(t, "u32")
			var enc []byte
			switch rapid.IntRange(0, 3).Draw(t, "enc") {
			case 0:
				enc = binary.LittleEndian.AppendUint32(nil, val)
			case 1:
				enc = binary.BigEndian.AppendUint32(nil, val)
			case 2:
				enc = binary.LittleEndian.AppendUint16(nil, uint16(val))
			default:
				enc = binary.BigEndian.AppendUint16(nil, uint16(val))
			}
			copy(b[off:], enc)
		case 4: // delete a range
			n := min(rapid.IntRange(1, 40).Draw(t, "dn"), len(b)-off)
			b = append(b[:off], b[off+n:]...)
		case 5: // duplicate a range in place
			n := min(rapid.IntRange(1, 300).Draw(t, "cn"), len(b)-off)
			b = append(b[:off+n], append(append([]byte{}, b[off:off+n]...), b[off+n:]...)...)
		case 6: // insert bytes
			ins := rapid.SliceOfN(rapid.OneOf(rapid.SampledFrom([]byte{0, 0, 1, 0xFF}), rapid.Byte()), 1, 12).Draw(t, "ins")
			b = append(b[:off], append(ins, b[off:]...)...)
		case 7: // truncate
			b = b[:off]
		default: // splice the tail of another seed of this reader
			o := seeds[rapid.IntRange(0, len(seeds)-1).Draw(t, "other")].Data
			from := rapid.IntRange(0, len(o)).Draw(t, "from")
			b = append(b[:off], o[from:]...)
		}
	}
	fix := (reader == "ogg" || reader == "ogg-nocrc") && rapid.Bool().Draw(t, "fixcrc")
	if fix {
		b = vfC37FixCRC(b)
	}
	return b, fix
}

func TestVerif_C37_Mutations(t *testing.T) {
	vfProperty(t, "C37", vfOpts{
		Rule: "a seed file of the drawn reader with 1..4 mutations (bit flip, byte set, 16/32-bit splice of 0/1/7/8/255/256/65535/65536/2^31-1/2^31/2^32-2/2^32-1 in either byte order, range deletion, range duplication, insertion, truncation, cross-seed splice), half of them placed on length/count/signature fields found by the harness's own walkers, Ogg inputs optionally with repaired page checksums; underlying io.Reader delivering everything at once or in 1..64-byte chunks; non-trivial = at least one successful reader call, or a raw header parser case",
	}, func(v *vfT) vfC37Case {
		t := v.R
		rd := rapid.SampledFrom(vfC37Readers).Draw(t, "reader")
		data, _ := vfC37Mutate(t, rd, vfC37SeedsOnce[rd])
		c := vfC37Case{Reader: rd, Data: data}
		if rapid.Bool().Draw(t, "chunked") {
			c.Chunk = rapid.IntRange(1, 64).Draw(t, "chunk")
		}
		c.SEI = rapid.Bool().Draw(t, "sei")
		return c
	}, vfC37Run)
}

// ---------------------------------------------------------------------------------------------
// quick tier, part 3: replay of the committed native-fuzz corpus / crashers (testdata/fuzz/<Target>/*)

var vfC37FuzzReader = map[string]string{
	"FuzzVerif_C37_IVF": "ivf", "FuzzVerif_C37_Ogg": "ogg", "FuzzVerif_C37_OggNoCRC": "ogg-nocrc", "FuzzVerif_C37_H264": "h264",
	"FuzzVerif_C37_H265": "h265", "FuzzVerif_C37_RTPDump": "rtpdump", "FuzzVerif_C37_OpusHead": "opushead", "FuzzVerif_C37_OpusTags": "opustags",
}

// vfC37ParseCorpus decodes a "go test fuzz v1" file holding ([]byte, byte).
func vfC37ParseCorpus(b []byte) (data []byte, mode byte, ok bool) {
	lines := strings.Split(strings.TrimSpace(string(b)), "\n")
	if len(lines) < 2 || !strings.HasPrefix(lines[0], "go test fuzz v1") {
		return nil, 0, false
	}
	l := strings.TrimSpace(lines[1])
	if !strings.HasPrefix(l, "[]byte(") || !strings.HasSuffix(l, ")") {
		return nil, 0, false
	}
	s, err := strconv.Unquote(l[len("[]byte(") : len(l)-1])
	if err != nil {
		return nil, 0, false
	}
	if len(lines) >= 3 {
		m := strings.TrimSpace(lines[2])
		if strings.HasPrefix(m, "byte(") && strings.HasSuffix(m, ")") {
			inner := m[len("byte(") : len(m)-1]
			if r, err := strconv.Unquote(inner); err == nil && len(r) > 0 {
				mode = r[0]
			} else if n, err := strconv.ParseUint(inner, 0, 8); err == nil {
				mode = byte(n)
			}
		}
	}
	return []byte(s), mode, true
}

func vfC37ModeCase(reader string, data []byte, mode byte) vfC37Case {
	c := vfC37Case{Reader: reader, Data: data, SEI: mode&1 != 0}
	if mode&2 != 0 {
		c.Chunk = 1 + int(mode>>2)
	}
	return c
}

func TestVerif_C37_Corpus(t *testing.T) {
	var cases []vfC37Case
	root := filepath.Join(os.Getenv("VERIF_DIR"), "harness", "ext", "c37", "testdata", "fuzz")
	if os.Getenv("VERIF_DIR") == "" {
		root = filepath.Join("testdata", "fuzz")
	}
	var targets []string
	for tg := range vfC37FuzzReader {
		targets = append(targets, tg)
	}
	sort.Strings(targets)
	for _, tg := range targets {
		files, _ := filepath.Glob(filepath.Join(root, tg, "*"))
		sort.Strings(files)
		for _, f := range files {
			b, err := os.ReadFile(f)
			if err != nil {
				continue
			}
			if data, mode, ok := vfC37ParseCorpus(b); ok {
				c := vfC37ModeCase(vfC37FuzzReader[tg], data, mode)
				c.Note = "corpus " + tg + "/" + filepath.Base(f)
				cases = append(cases, c)
			}
		}
	}
	// the seed files themselves, whole, through every read-chunk mode
	for _, rd := range vfC37Readers {
		for _, s := range vfC37SeedsOnce[rd] {
			for _, ch := range []int{0, 1, 7} {
				cases = append(cases, vfC37Case{Reader: rd, Data: s.Data, Chunk: ch, SEI: ch == 1, Note: "seed " + s.Name})
			}
		}
	}
	vfEnumerate(t, "C37", vfOpts{
		Rule: "the committed native-fuzz corpus/crasher files under harness/ext/c37/testdata/fuzz and every whole seed file with read chunks of all/1/7 bytes",
	}, cases, true, vfC37Run)
}
