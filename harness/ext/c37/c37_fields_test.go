package c37

// C37, quick tier part 4 (deterministic, structure-aware): every length / count / size field of
// every seed, found by the harness's own walkers, is overwritten with hostile constants in the
// field's own width and byte order: 0, 1, 2^31-1, 2^31, 2^32-1, 2^32-1-k for small k (values that
// wrap when a position is added in 32-bit arithmetic), and len-1, len, len+1, rest-1, rest, rest+1
// where len is the input length and rest the number of bytes after the field. Ogg inputs get
// their page checksums repaired afterwards so that the checksum-verifying reader reaches the
// parsers too. The same inputs (a subset of the constants) are added to the native fuzz corpus.

import (
	"bytes"
	"encoding/binary"
	"fmt"
	"testing"
)

type vfC37Field struct {
	Off   int
	Width int  // bytes: 1, 2, 4 or 8
	BE    bool // big endian (rtpdump); Ogg, IVF and Opus headers are little endian
	Name  string
}

// vfC37TagsFields walks an OpusTags packet (RFC 7845 section 5.2) starting at base.
func vfC37TagsFields(b []byte, base int, prefix string) []vfC37Field {
	var f []vfC37Field
	if len(b) < base+12 || string(b[base:base+8]) != "OpusTags" {
		return f
	}
	f = append(f, vfC37Field{base + 8, 4, false, prefix + "vendor-length"})
	pos := base + 12 + int(binary.LittleEndian.Uint32(b[base+8:]))
	if pos < 0 || pos+4 > len(b) {
		return f
	}
	f = append(f, vfC37Field{pos, 4, false, prefix + "comment-count"})
	n := int(binary.LittleEndian.Uint32(b[pos:]))
	pos += 4
	for i := 0; i < n && i < 64 && pos+4 <= len(b); i++ {
		f = append(f, vfC37Field{pos, 4, false, fmt.Sprintf("%scomment-%d-length", prefix, i)})
		pos += 4 + int(binary.LittleEndian.Uint32(b[pos:]))
		if pos < 0 {
			break
		}
	}
	return f
}

func vfC37HeadFields(b []byte, base int, prefix string) []vfC37Field {
	if len(b) < base+19 || string(b[base:base+8]) != "OpusHead" {
		return nil
	}
	f := []vfC37Field{
		{base + 8, 1, false, prefix + "version"}, {base + 9, 1, false, prefix + "channel-count"}, {base + 10, 2, false, prefix + "pre-skip"},
		{base + 12, 4, false, prefix + "sample-rate"}, {base + 16, 2, false, prefix + "gain"}, {base + 18, 1, false, prefix + "mapping-family"},
	}
	if len(b) >= base+21 {
		f = append(f, vfC37Field{base + 19, 1, false, prefix + "stream-count"}, vfC37Field{base + 20, 1, false, prefix + "coupled-count"})
	}
	return f
}

// vfC37Fields lists the numeric fields of a (valid) seed of the given reader.
func vfC37Fields(reader string, b []byte) []vfC37Field {
	var f []vfC37Field
	switch reader {
	case "opustags":
		f = vfC37TagsFields(b, 0, "")
	case "opushead":
		f = vfC37HeadFields(b, 0, "")
		// the same bytes are fed to rtpdump's Header.Unmarshal / Packet.Unmarshal
		f = append(f, vfC37Field{0, 2, true, "as-rtpdump-record-length"}, vfC37Field{2, 2, true, "as-rtpdump-record-plen"}, vfC37Field{4, 4, true, "as-rtpdump-record-offset"})
	case "ogg", "ogg-nocrc":
		for i, p := range vfC37OggPages(b) {
			px := fmt.Sprintf("page%d-", i)
			f = append(f, vfC37Field{p.off + 4, 1, false, px + "version"}, vfC37Field{p.off + 5, 1, false, px + "flags"},
				vfC37Field{p.off + 6, 8, false, px + "granule"}, vfC37Field{p.off + 14, 4, false, px + "serial"},
				vfC37Field{p.off + 18, 4, false, px + "sequence"}, vfC37Field{p.off + 26, 1, false, px + "segment-count"})
			for s := 0; s < p.nseg && s < 3; s++ {
				f = append(f, vfC37Field{p.off + 27 + s, 1, false, fmt.Sprintf("%slacing-%d", px, s)})
			}
			if p.nseg > 3 {
				f = append(f, vfC37Field{p.off + 27 + p.nseg - 1, 1, false, px + "lacing-last"})
			}
			body := p.off + 27 + p.nseg
			f = append(f, vfC37HeadFields(b[:body+p.plen], body, px)...)
			f = append(f, vfC37TagsFields(b[:body+p.plen], body, px)...)
		}
	case "ivf":
		f = append(f, vfC37Field{4, 2, false, "version"}, vfC37Field{6, 2, false, "header-size"}, vfC37Field{12, 2, false, "width"}, vfC37Field{14, 2, false, "height"},
			vfC37Field{16, 4, false, "timebase-denominator"}, vfC37Field{20, 4, false, "timebase-numerator"}, vfC37Field{24, 4, false, "frame-count"}, vfC37Field{28, 4, false, "unused"})
		for i, off := 0, 32; off+12 <= len(b); i++ {
			f = append(f, vfC37Field{off, 4, false, fmt.Sprintf("frame%d-size", i)}, vfC37Field{off + 4, 8, false, fmt.Sprintf("frame%d-pts", i)})
			off += 12 + int(binary.LittleEndian.Uint32(b[off:]))
		}
	case "rtpdump":
		nl := bytes.IndexByte(b, '\n')
		if nl < 0 || nl+17 > len(b) {
			return nil
		}
		h := nl + 1
		f = append(f, vfC37Field{h, 4, true, "start-sec"}, vfC37Field{h + 4, 4, true, "start-usec"}, vfC37Field{h + 8, 4, true, "source"}, vfC37Field{h + 12, 2, true, "port"}, vfC37Field{h + 14, 2, true, "padding"})
		for i, off := 0, h+16; off+8 <= len(b); i++ {
			f = append(f, vfC37Field{off, 2, true, fmt.Sprintf("record%d-length", i)}, vfC37Field{off + 2, 2, true, fmt.Sprintf("record%d-plen", i)}, vfC37Field{off + 4, 4, true, fmt.Sprintf("record%d-offset", i)})
			l := int(binary.BigEndian.Uint16(b[off:]))
			if l < 8 {
				break
			}
			off += l
		}
	}
	var ok []vfC37Field
	for _, x := range f {
		if x.Off >= 0 && x.Off+x.Width <= len(b) {
			ok = append(ok, x)
		}
	}
	return ok
}

// vfC37Hostile returns the constants for a field of the given width (deduplicated, in a fixed order).
func vfC37Hostile(width, total, rest int, full bool) []uint64 {
	maxv := uint64(1)<<(8*uint(width)) - 1
	if width == 8 {
		maxv = ^uint64(0)
	}
	vals := []uint64{0, 1, maxv >> 1, maxv>>1 + 1, maxv, maxv - 1}
	ks := []uint64{2, 3, 4, 7, 8, 11, 12, 15, 16, 19, 20, 23, 24, 27, 28, 31, 32, 40, 48, 56, 63, 64, 100, 127, 128, 255, 256, 1000}
	if !full {
		ks = []uint64{3, 16, 64}
	}
	for _, k := range ks {
		if k < maxv {
			vals = append(vals, maxv-k)
		}
	}
	for _, n := range []int{total - 1, total, total + 1, rest - 1, rest, rest + 1} {
		if n >= 0 {
			vals = append(vals, uint64(n)&maxv)
		}
	}
	if width == 8 && full {
		vals = append(vals, 0xFFFFFFFF, 0x100000000, 0x7FFFFFFF)
	}
	seen := map[uint64]bool{}
	var out []uint64
	for _, x := range vals {
		if !seen[x] {
			seen[x] = true
			out = append(out, x)
		}
	}
	return out
}

func vfC37Put(b []byte, f vfC37Field, val uint64) []byte {
	out := append([]byte{}, b...)
	for i := 0; i < f.Width; i++ {
		shift := uint(8 * i)
		if f.BE {
			shift = uint(8 * (f.Width - 1 - i))
		}
		out[f.Off+i] = byte(val >> shift)
	}
	return out
}

// vfC37HostileCases builds the structure-aware inputs for one reader (full: every constant).
func vfC37HostileCases(reader string, full bool) []vfC37Case {
	var cases []vfC37Case
	for _, s := range vfC37SeedsOnce[reader] {
		for _, f := range vfC37Fields(reader, s.Data) {
			for _, val := range vfC37Hostile(f.Width, len(s.Data), len(s.Data)-f.Off-f.Width, full) {
				data := vfC37Put(s.Data, f, val)
				if reader == "ogg" || reader == "ogg-nocrc" {
					data = vfC37FixCRC(data)
				}
				cases = append(cases, vfC37Case{Reader: reader, Data: data, Note: fmt.Sprintf("%s: %s @%d := %#x", s.Name, f.Name, f.Off, val)})
			}
		}
	}
	return cases
}

func TestVerif_C37_HostileFields(t *testing.T) {
	var cases []vfC37Case
	for _, rd := range vfC37Readers {
		cases = append(cases, vfC37HostileCases(rd, true)...)
	}
	vfEnumerate(t, "C37", vfOpts{
		Rule: "every numeric field (length, count, size, sequence, timebase, lacing value; 8/16/32/64 bit, in the field's byte order) of every seed, located by the harness's own IVF / Ogg / OpusHead / OpusTags / rtpdump walkers, overwritten with 0, 1, max/2, max/2+1, max, max-k (k = 1..1000, 34 values), len-1, len, len+1, rest-1, rest, rest+1; Ogg page checksums repaired afterwards; non-trivial = at least one successful reader call, or a raw header parser case",
	}, cases, true, vfC37Run)
}
