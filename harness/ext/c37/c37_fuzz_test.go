package c37

// Native go fuzz targets of C37 (thorough tier; listed under "thorough"."fuzz" in props/C37.json).
// Input: the byte stream, and a mode byte (bit0: include SEI, bit1: chunked io.Reader with
// chunk size 1+mode>>2). Seeds: the files produced by the repository's writers plus a few of
// their truncations. The oracle is the same as in the quick tier (vfC37Guard).

import (
	"encoding/binary"
	"testing"
)

func vfC37Fuzz(f *testing.F, reader string) {
	for _, s := range vfC37SeedsOnce[reader] {
		f.Add(s.Data, byte(0))
		f.Add(s.Data, byte(2|3<<2))
		f.Add(s.Data[:len(s.Data)/2], byte(1))
		if len(s.Data) > 3 {
			f.Add(s.Data[:len(s.Data)-3], byte(3))
		}
	}
	for _, c := range vfC37HostileCases(reader, false) { // structure-aware hostile length fields
		f.Add(c.Data, byte(0))
	}
	for _, c := range vfC37ShapeCases(reader, false) { // structure-aware shape mutations (consistent CRC / length fields)
		f.Add(c.Data, byte(0))
	}
	f.Fuzz(func(t *testing.T, data []byte, mode byte) {
		if len(data) > 1<<16 {
			t.Skip("inputs above 64 KiB add nothing")
		}
		if reader == "ivf" {
			// skip (do not clamp: the crasher file must be the literal input) anything with a frame-size
			// field above 16 MiB reachable by a linear walk: the reader allocates what the field says
			for off := 32; off+4 <= len(data); {
				sz := binary.LittleEndian.Uint32(data[off:])
				if sz > vfC37MaxIVFFrame {
					t.Skip("frame size field above 16 MiB")
				}
				off += 12 + int(sz)
			}
		}
		c := vfC37ModeCase(reader, data, mode)
		res, hang, _ := vfC37Guard(c)
		if hang != "" {
			t.Fatalf("C37/%s/hang: %s", reader, hang)
		}
		if res.Panic != nil {
			t.Fatalf("C37/%s/panic: %v\n%s", reader, res.Panic, res.Stack)
		}
		if res.Problem != "" {
			t.Fatalf("C37/%s/no-progress: %s", reader, res.Problem)
		}
	})
}

func FuzzVerif_C37_IVF(f *testing.F)      { vfC37Fuzz(f, "ivf") }
func FuzzVerif_C37_Ogg(f *testing.F)      { vfC37Fuzz(f, "ogg") }
func FuzzVerif_C37_OggNoCRC(f *testing.F) { vfC37Fuzz(f, "ogg-nocrc") }
func FuzzVerif_C37_H264(f *testing.F)     { vfC37Fuzz(f, "h264") }
func FuzzVerif_C37_H265(f *testing.F)     { vfC37Fuzz(f, "h265") }
func FuzzVerif_C37_RTPDump(f *testing.F)  { vfC37Fuzz(f, "rtpdump") }
func FuzzVerif_C37_OpusHead(f *testing.F) { vfC37Fuzz(f, "opushead") }
func FuzzVerif_C37_OpusTags(f *testing.F) { vfC37Fuzz(f, "opustags") }
