package c37

// C37, quick tier part 5 (deterministic, structure-aware SHAPE mutations): inputs that are
// rebuilt by the harness's own container writers so that they stay internally consistent
// (valid Ogg page CRC, length fields that match the shortened bodies) while the *shape* of the
// content is wrong: header / comment / audio packets cut to every prefix length, payload-less
// pages, lacing tables that claim more or less than the body, every BOS/EOS/continued flag
// combination; IVF frames and rtpdump records cut to every prefix with matching size fields.
// Blind truncation and byte mutation never reach these because a checksum or a length field
// rejects the input first.

import (
	"bytes"
	"encoding/binary"
	"fmt"
	"testing"
)

// vfC37BuildPage is the harness's own Ogg page writer. segs == nil: natural lacing for the body.
func vfC37BuildPage(flags byte, granule uint64, serial, seq uint32, segs []byte, body []byte) []byte {
	if segs == nil {
		segs = []byte{}
		n := len(body)
		for n >= 255 && len(segs) < 255 {
			segs = append(segs, 255)
			n -= 255
		}
		if len(segs) < 255 {
			segs = append(segs, byte(n))
		}
	}
	p := make([]byte, 27, 27+len(segs)+len(body))
	copy(p, "OggS")
	p[5] = flags
	binary.LittleEndian.PutUint64(p[6:], granule)
	binary.LittleEndian.PutUint32(p[14:], serial)
	binary.LittleEndian.PutUint32(p[18:], seq)
	p[26] = byte(len(segs))
	p = append(p, segs...)
	p = append(p, body...)
	var crc uint32
	for _, x := range p {
		crc = crc<<8 ^ vfC37CRCTable[byte(crc>>24)^x]
	}
	binary.LittleEndian.PutUint32(p[22:], crc)
	return p
}

var vfC37AllFlags = []byte{0x02, 0x00, 0x01, 0x04, 0x03, 0x05, 0x06, 0x07, 0x82}

func vfC37OggShapes(reader string, full bool) []vfC37Case {
	var cases []vfC37Case
	flagSet := vfC37AllFlags
	if !full {
		flagSet = []byte{0x02, 0x00}
	}
	for _, s := range vfC37SeedsOnce[reader] {
		pages := vfC37OggPages(s.Data)
		if len(pages) < 3 {
			continue
		}
		end := func(i int) int { return pages[i].off + 27 + pages[i].nseg + pages[i].plen }
		serial := binary.LittleEndian.Uint32(s.Data[pages[0].off+14:])
		// the packets to reshape: OpusHead, OpusTags and the first audio packet (first occurrence of each)
		pick := map[string]int{}
		for i, p := range pages {
			pl := p.payload(s.Data)
			kind := "audio"
			switch {
			case bytes.HasPrefix(pl, []byte("OpusHead")):
				kind = "head"
			case bytes.HasPrefix(pl, []byte("OpusTags")):
				kind = "tags"
			case len(pl) == 0:
				continue
			}
			if _, ok := pick[kind]; !ok {
				pick[kind] = i
			}
		}
		add := func(note string, first []byte, replaced int) {
			// (a) the rebuilt page alone, (b) as the first page followed by the original pages 1..,
			// (c) in the place of the page it was taken from
			cases = append(cases, vfC37Case{Reader: reader, Data: first, Note: s.Name + ": " + note + " (alone)"})
			cases = append(cases, vfC37Case{Reader: reader, Data: append(append([]byte{}, first...), s.Data[end(0):]...), Note: s.Name + ": " + note + " (as first page)"})
			if replaced > 0 {
				d := append([]byte{}, s.Data[:pages[replaced].off]...)
				d = append(d, first...)
				d = append(d, s.Data[end(replaced):]...)
				cases = append(cases, vfC37Case{Reader: reader, Data: d, Note: fmt.Sprintf("%s: %s (in place of page %d)", s.Name, note, replaced)})
			}
		}
		for _, kind := range []string{"head", "tags", "audio"} {
			pi, ok := pick[kind]
			if !ok {
				continue
			}
			pkt := pages[pi].payload(s.Data)
			seq := binary.LittleEndian.Uint32(s.Data[pages[pi].off+18:])
			for n := 0; n <= len(pkt); n++ {
				for _, fl := range flagSet {
					add(fmt.Sprintf("%s packet cut to %d of %d bytes, flags %#02x", kind, n, len(pkt), fl), vfC37BuildPage(fl, 0, serial, seq, nil, pkt[:n]), pi)
				}
			}
			if !full {
				continue
			}
			// lacing tables that disagree with the body (CRC over the bytes actually present)
			for _, d := range []int{-9, -3, -1, 1, 3, 9, 255, 600} {
				claim := len(pkt) + d
				if claim < 0 {
					continue
				}
				var segs []byte
				for c := claim; ; c -= 255 {
					if c < 255 {
						segs = append(segs, byte(c))
						break
					}
					segs = append(segs, 255)
				}
				for _, fl := range []byte{0x02, 0x00} {
					add(fmt.Sprintf("%s page whose lacing claims %d bytes for a %d-byte body, flags %#02x", kind, claim, len(pkt), fl), vfC37BuildPage(fl, 0, serial, seq, segs, pkt), pi)
				}
			}
			// unusual but legal lacing: unterminated packet (last lacing value 255), leading empty segments, split packet
			body255 := append(append([]byte{}, pkt...), make([]byte, 255)...)[:255]
			for _, fl := range []byte{0x02, 0x00, 0x01} {
				add(fmt.Sprintf("%s page with one unterminated 255-byte segment, flags %#02x", kind, fl), vfC37BuildPage(fl, ^uint64(0), serial, seq, []byte{255}, body255), pi)
				add(fmt.Sprintf("%s page with 3 empty segments before the packet, flags %#02x", kind, fl), vfC37BuildPage(fl, 0, serial, seq, append([]byte{0, 0, 0}, byte(len(pkt)%255)), pkt[:len(pkt)%255]), pi)
				if len(pkt) >= 9 {
					add(fmt.Sprintf("%s page with the packet split into 8 + rest segments, flags %#02x", kind, fl), vfC37BuildPage(fl, 0, serial, seq, []byte{8, byte(min(len(pkt)-8, 254))}, pkt[:8+min(len(pkt)-8, 254)]), pi)
				}
				add(fmt.Sprintf("%s page with 255 empty segments, flags %#02x", kind, fl), vfC37BuildPage(fl, 0, serial, seq, make([]byte, 255), nil), pi)
			}
		}
		// payload-less pages (segment count 0) with every flag combination, first and second position
		for _, fl := range flagSet {
			add(fmt.Sprintf("page with 0 segments, flags %#02x", fl), vfC37BuildPage(fl, 0, serial, 0, []byte{}, nil), 1)
		}
		if full {
			// every original page with every flag combination (checksum repaired)
			for i := range pages {
				for _, fl := range vfC37AllFlags {
					d := append([]byte{}, s.Data...)
					d[pages[i].off+5] = fl
					cases = append(cases, vfC37Case{Reader: reader, Data: vfC37FixCRC(d), Note: fmt.Sprintf("%s: page %d flags := %#02x", s.Name, i, fl)})
				}
			}
		}
	}
	return cases
}

func vfC37IVFShapes(full bool) []vfC37Case {
	var cases []vfC37Case
	for _, s := range vfC37SeedsOnce["ivf"] {
		b := s.Data
		var offs []int
		for off := 32; off+12 <= len(b); off += 12 + int(binary.LittleEndian.Uint32(b[off:])) {
			offs = append(offs, off)
		}
		for i, off := range offs {
			sz := int(binary.LittleEndian.Uint32(b[off:]))
			step := 1
			if !full {
				step = 7
			}
			for n := 0; n <= sz; n += step {
				// frame i cut to n bytes with a matching size field; with and without the following frames
				head := append([]byte{}, b[:off+12]...)
				binary.LittleEndian.PutUint32(head[off:], uint32(n))
				head = append(head, b[off+12:off+12+n]...)
				for _, tail := range [][]byte{nil, b[off+12+sz:]} {
					d := append(append([]byte{}, head...), tail...)
					binary.LittleEndian.PutUint32(d[24:], uint32(i+1)) // consistent frame count for the "no tail" shape
					cases = append(cases, vfC37Case{Reader: "ivf", Data: d, Note: fmt.Sprintf("%s: frame %d cut to %d of %d bytes, size field adjusted, tail %d bytes", s.Name, i, n, sz, len(tail))})
				}
			}
		}
		// header-only file with every frame count, and a header followed by bare 12-byte frame headers of size 0
		for _, k := range []int{0, 1, 2, 5} {
			d := append([]byte{}, b[:32]...)
			binary.LittleEndian.PutUint32(d[24:], uint32(k))
			for j := 0; j < k; j++ {
				d = append(d, make([]byte, 12)...)
			}
			cases = append(cases, vfC37Case{Reader: "ivf", Data: d, Note: fmt.Sprintf("%s: header + %d empty frames", s.Name, k)})
		}
	}
	return cases
}

func vfC37RTPDumpShapes(full bool) []vfC37Case {
	var cases []vfC37Case
	for _, s := range vfC37SeedsOnce["rtpdump"] {
		b := s.Data
		nl := bytes.IndexByte(b, '\n')
		if nl < 0 {
			continue
		}
		var offs []int
		for off := nl + 17; off+8 <= len(b); {
			offs = append(offs, off)
			l := int(binary.BigEndian.Uint16(b[off:]))
			if l < 8 {
				break
			}
			off += l
		}
		for i, off := range offs {
			l := int(binary.BigEndian.Uint16(b[off:]))
			rtcp := binary.BigEndian.Uint16(b[off+2:]) == 0
			step := 1
			if !full {
				step = 5
			}
			for n := 0; n <= l-8; n += step {
				head := append([]byte{}, b[:off+8]...)
				binary.BigEndian.PutUint16(head[off:], uint16(8+n))
				if !rtcp {
					binary.BigEndian.PutUint16(head[off+2:], uint16(n))
				}
				head = append(head, b[off+8:off+8+n]...)
				for _, tail := range [][]byte{nil, b[off+l:]} {
					cases = append(cases, vfC37Case{Reader: "rtpdump", Data: append(append([]byte{}, head...), tail...), Note: fmt.Sprintf("%s: record %d cut to %d payload bytes, length fields adjusted, tail %d bytes", s.Name, i, n, len(tail))})
				}
			}
		}
		// preamble variants with a consistent binary header: shortest / longest address and port forms
		for _, pre := range []string{"#!rtpplay1.0 0.0.0.0/0\n", "#!rtpplay1.0 255.255.255.255/65535\n", "#!rtpplay1.0 1.2.3.4/5\n#!rtpplay1.0 1.2.3.4/5\n"} {
			cases = append(cases, vfC37Case{Reader: "rtpdump", Data: append([]byte(pre), b[nl+1:]...), Note: s.Name + ": preamble " + pre[:len(pre)-1]})
			cases = append(cases, vfC37Case{Reader: "rtpdump", Data: append([]byte(pre), b[nl+1:nl+17]...), Note: s.Name + ": header only, preamble " + pre[:len(pre)-1]})
		}
	}
	return cases
}

// vfC37ShapeCases: all shape inputs of one reader (full = quick-tier enumeration, !full = fuzz seeds).
func vfC37ShapeCases(reader string, full bool) []vfC37Case {
	switch reader {
	case "ogg", "ogg-nocrc":
		return vfC37OggShapes(reader, full)
	case "ivf":
		return vfC37IVFShapes(full)
	case "rtpdump":
		return vfC37RTPDumpShapes(full)
	case "opushead", "opustags":
		// every prefix of the header packets at the parser entry points, with the magic kept intact
		// and (OpusTags) the vendor length / comment count adjusted to what is left
		var cases []vfC37Case
		for _, s := range vfC37SeedsOnce[reader] {
			for n := 0; n <= len(s.Data); n++ {
				cases = append(cases, vfC37Case{Reader: reader, Data: s.Data[:n], Note: fmt.Sprintf("%s[:%d]", s.Name, n)})
				if reader == "opustags" && n >= 12 {
					d := append([]byte{}, s.Data[:n]...)
					binary.LittleEndian.PutUint32(d[8:], uint32(n-12)) // vendor string fills the rest: no room for the count
					cases = append(cases, vfC37Case{Reader: reader, Data: d, Note: fmt.Sprintf("%s[:%d], vendor length := %d", s.Name, n, n-12)})
					if n >= 16 {
						d2 := append([]byte{}, s.Data[:n]...)
						binary.LittleEndian.PutUint32(d2[8:], uint32(n-16)) // vendor + count exactly fill the packet
						binary.LittleEndian.PutUint32(d2[n-4:], uint32(1))  // one comment announced, none present
						cases = append(cases, vfC37Case{Reader: reader, Data: d2, Note: fmt.Sprintf("%s[:%d], vendor length := %d, count 1 at the end", s.Name, n, n-16)})
					}
				}
			}
		}
		return cases
	}
	return nil
}

func TestVerif_C37_Shapes(t *testing.T) {
	var cases []vfC37Case
	for _, rd := range vfC37Readers {
		cases = append(cases, vfC37ShapeCases(rd, true)...)
	}
	vfEnumerate(t, "C37", vfOpts{
		Rule: "inputs rebuilt by the harness's own Ogg page / IVF / rtpdump writers so that checksums and length fields stay consistent: OpusHead, OpusTags and first audio packet cut to every prefix length on a page with each of 9 header-type values (alone, as first page, in place); payload-less pages; lacing tables claiming -9..+600 bytes versus the body; unterminated, empty-segment, split and 255-empty-segment lacing; every page of every seed with every flag value; IVF frames and rtpdump records cut to every prefix with adjusted size fields (with and without the following records); OpusHead/OpusTags parser entry points on every prefix with adjusted vendor length / comment count; non-trivial = at least one successful reader call, or a raw header parser case",
	}, cases, true, vfC37Run)
}
