package c32

// C32 — IVFWriter output reads back (IVFReader) as exactly the frames the writer assembled.
//
// Pipeline per case: frames -> pion/rtp VP8 / VP9 / AV1 payloader at a drawn MTU -> rtp.Packets
// (marker on the last packet of each frame, one RTP timestamp per frame) -> IVFWriter (seekable
// or plain output; WithFrameRate / WithWidthAndHeight / WithDirectPTS) -> bytes -> IVFReader.
// Reference assembly: a separate depacketizer instance of the trusted dependency over the same
// packets (VP8/VP9: payload descriptors stripped and the payloads of one frame concatenated;
// AV1: temporal delimiter + the depacketized OBUs of the temporal unit), plus the harness's own
// IVF parser over the written bytes, so writer and reader cannot cancel each other's mistakes.
// The statement's domain is a stream that starts with a keyframe; streams that start with delta
// frames are generated too (labelled "delta-first") but there only the reader/file agreement
// and the frame count are asserted.

import (
	"bytes"
	"encoding/binary"
	"errors"
	"fmt"
	"io"
	"testing"

	"github.com/pion/rtp"
	"github.com/pion/rtp/codecs"
	"github.com/pion/webrtc/v4/pkg/media/ivfreader"
	"github.com/pion/webrtc/v4/pkg/media/ivfwriter"
	"pgregory.net/rapid"
)

type vfC32OBU struct {
	Type    int    `json:"type"`
	Ext     bool   `json:"ext"`
	TID     int    `json:"tid"`
	SID     int    `json:"sid"`
	Len     int    `json:"len"`
	Seed    uint32 `json:"seed"`
	HasSize bool   `json:"has_size"` // only honoured as false for the last OBU of a temporal unit
}

type vfC32Frame struct {
	Key  bool       `json:"key"`
	Len  int        `json:"len"`  // VP8/VP9: frame length in bytes (>= header)
	Seed uint32     `json:"seed"` // content
	DTs  uint32     `json:"dts"`  // RTP timestamp increment relative to the previous frame
	OBUs []vfC32OBU `json:"obus"` // AV1: the temporal unit
	TD   bool       `json:"td"`   // AV1: temporal unit starts with a temporal delimiter OBU
}

type vfC32Case struct {
	Codec     string       `json:"codec"` // "VP8" | "VP9" | "AV1"
	MTU       int          `json:"mtu"`
	Seekable  bool         `json:"seekable"`
	DirectPTS bool         `json:"direct_pts"`
	Num       uint32       `json:"num"` // WithFrameRate(numerator, denominator); 0,0 = option not used
	Den       uint32       `json:"den"`
	W         uint16       `json:"w"` // WithWidthAndHeight; 0,0 = option not used
	H         uint16       `json:"h"`
	PictureID bool         `json:"picture_id"` // VP8Payloader.EnablePictureID
	Flexible  bool         `json:"flexible"`   // VP9Payloader.FlexibleMode
	TS0       uint32       `json:"ts0"`
	Frames    []vfC32Frame `json:"frames"`
}

func vfC32Rand(seed uint32, n int) []byte {
	b := make([]byte, n)
	x := seed | 1
	for i := range b {
		x ^= x << 13
		x ^= x >> 17
		x ^= x << 5
		b[i] = byte(x >> 11)
	}
	return b
}

func vfC32Leb(n int) []byte {
	var out []byte
	for {
		c := byte(n & 0x7F)
		n >>= 7
		if n != 0 {
			out = append(out, c|0x80)
		} else {
			return append(out, c)
		}
	}
}

// vfC32FrameBytes renders the encoded frame handed to the payloader.
func vfC32FrameBytes(codec string, flexible bool, f vfC32Frame) []byte {
	switch codec {
	case "VP8":
		b := vfC32Rand(f.Seed, max(f.Len, 1))
		if f.Key {
			b[0] &^= 1 // frame tag bit 0: 0 = key frame
		} else {
			b[0] |= 1
		}
		return b
	case "VP9":
		if flexible {
			return vfC32Rand(f.Seed, max(f.Len, 1)) // flexible mode does not look at the frame
		}
		if f.Key {
			// frame_marker=2 profile=0 show_existing=0 frame_type=0(key) show_frame=1 error_res=0, sync code,
			// color_space=2 color_range=0, width-1, height-1 (16 bits each), 4 bits padding
			hdr := []byte{0x82, 0x49, 0x83, 0x42}
			w, h := uint32(f.Seed&0x3FF), uint32((f.Seed>>10)&0x3FF)
			bits := uint64(0x4)<<36 | uint64(w)<<20 | uint64(h)<<4
			for s := 32; s >= 0; s -= 8 {
				hdr = append(hdr, byte(bits>>uint(s)))
			}
			return append(hdr, vfC32Rand(f.Seed, max(f.Len-len(hdr), 0))...)
		}
		return append([]byte{0x86}, vfC32Rand(f.Seed, max(f.Len-1, 1))...)
	default: // AV1: low-overhead OBU stream
		var b []byte
		if f.TD {
			b = append(b, 0x12, 0x00)
		}
		for i, o := range f.OBUs {
			hasSize := o.HasSize || i != len(f.OBUs)-1
			h := byte(o.Type&15) << 3
			if o.Ext {
				h |= 4
			}
			if hasSize {
				h |= 2
			}
			b = append(b, h)
			if o.Ext {
				b = append(b, byte(o.TID&7)<<5|byte(o.SID&3)<<3)
			}
			if hasSize {
				b = append(b, vfC32Leb(o.Len)...)
			}
			b = append(b, vfC32Rand(o.Seed, o.Len)...)
		}
		return b
	}
}

// vfC32Seek is an in-memory io.WriteSeeker.
type vfC32Seek struct {
	buf []byte
	pos int64
}

func (s *vfC32Seek) Write(p []byte) (int, error) {
	end := s.pos + int64(len(p))
	if end > int64(len(s.buf)) {
		s.buf = append(s.buf, make([]byte, end-int64(len(s.buf)))...)
	}
	copy(s.buf[s.pos:], p)
	s.pos = end
	return len(p), nil
}

func (s *vfC32Seek) Seek(off int64, whence int) (int64, error) {
	switch whence {
	case io.SeekStart:
		s.pos = off
	case io.SeekCurrent:
		s.pos += off
	case io.SeekEnd:
		s.pos = int64(len(s.buf)) + off
	}
	if s.pos < 0 {
		return 0, errors.New("negative position")
	}
	return s.pos, nil
}

type vfC32FileFrame struct {
	PTS  uint64
	Data []byte
}

// vfC32Parse is the harness's own IVF parser (https://wiki.multimedia.cx/index.php/IVF).
func vfC32Parse(b []byte) (fourcc string, w, h uint16, den, num, nframes uint32, frames []vfC32FileFrame, err error) {
	if len(b) < 32 || string(b[:4]) != "DKIF" || binary.LittleEndian.Uint16(b[4:]) != 0 || binary.LittleEndian.Uint16(b[6:]) != 32 {
		return "", 0, 0, 0, 0, 0, nil, fmt.Errorf("bad IVF file header")
	}
	fourcc = string(b[8:12])
	w, h = binary.LittleEndian.Uint16(b[12:]), binary.LittleEndian.Uint16(b[14:])
	den, num, nframes = binary.LittleEndian.Uint32(b[16:]), binary.LittleEndian.Uint32(b[20:]), binary.LittleEndian.Uint32(b[24:])
	b = b[32:]
	for len(b) > 0 {
		if len(b) < 12 {
			return fourcc, w, h, den, num, nframes, frames, fmt.Errorf("trailing %d bytes", len(b))
		}
		sz := int(binary.LittleEndian.Uint32(b))
		pts := binary.LittleEndian.Uint64(b[4:])
		if len(b)-12 < sz {
			return fourcc, w, h, den, num, nframes, frames, fmt.Errorf("frame of %d bytes, %d left", sz, len(b)-12)
		}
		frames = append(frames, vfC32FileFrame{PTS: pts, Data: b[12 : 12+sz]})
		b = b[12+sz:]
	}
	return fourcc, w, h, den, num, nframes, frames, nil
}

type vfC32RefFrame struct {
	Data []byte
	TS   uint32
}

func vfC32Run(v *vfT, c vfC32Case) {
	fourccWant := map[string]string{"VP8": "VP80", "VP9": "VP90", "AV1": "AV01"}[c.Codec]
	if fourccWant == "" || c.MTU < 4 || c.MTU > 65000 || (c.Num == 0) != (c.Den == 0) {
		v.Skip("malformed case")
	}
	v.Label(c.Codec)
	// 1. packetize
	var pay interface {
		Payload(mtu uint16, payload []byte) [][]byte
	}
	switch c.Codec {
	case "VP8":
		pay = &codecs.VP8Payloader{EnablePictureID: c.PictureID}
	case "VP9":
		pay = &codecs.VP9Payloader{FlexibleMode: c.Flexible, InitialPictureIDFn: func() uint16 { return uint16(c.TS0) }}
	default:
		pay = &codecs.AV1Payloader{}
	}
	var pkts []*rtp.Packet
	ts := c.TS0
	seq := uint16(c.TS0 >> 7)
	multi := false
	for i, f := range c.Frames {
		if f.Len < 0 || f.Len > 200000 || len(f.OBUs) > 16 {
			v.Skip("malformed case")
		}
		for _, o := range f.OBUs {
			if o.Len < 0 || o.Len > 200000 {
				v.Skip("malformed case")
			}
		}
		if i > 0 {
			ts += f.DTs
		}
		ps := pay.Payload(uint16(c.MTU), vfC32FrameBytes(c.Codec, c.Flexible, f))
		if len(ps) > 1 {
			multi = true
		}
		for j, p := range ps {
			pkts = append(pkts, &rtp.Packet{Header: rtp.Header{Version: 2, PayloadType: 96, SequenceNumber: seq, Timestamp: ts, SSRC: 7, Marker: j == len(ps)-1}, Payload: p})
			seq++
		}
	}
	if multi {
		v.Label("fragmented-frames")
	}
	// 2. reference assembly by a separate depacketizer instance, and keyframe bookkeeping
	var ref []vfC32RefFrame
	var cur []byte
	started := false
	firstIsKey, firstSeen := false, false
	av1 := &codecs.AV1Depacketizer{}
	for _, p := range pkts {
		var part []byte
		key := false
		switch c.Codec {
		case "VP8":
			d := &codecs.VP8Packet{}
			if _, err := d.Unmarshal(p.Payload); err != nil {
				v.Label("payloader-output-not-depacketizable")
				return
			}
			part = d.Payload
			key = d.S == 1 && len(part) > 0 && part[0]&1 == 0
		case "VP9":
			d := &codecs.VP9Packet{}
			if _, err := d.Unmarshal(p.Payload); err != nil {
				v.Label("payloader-output-not-depacketizable")
				return
			}
			part = d.Payload
			key = d.B && !d.P
		default:
			out, err := av1.Unmarshal(p.Payload)
			if err != nil {
				v.Label("payloader-output-not-depacketizable")
				return
			}
			part = out
			key = av1.N
		}
		if !firstSeen {
			firstSeen, firstIsKey = true, key
		}
		if !started {
			if !key {
				continue
			}
			started = true
		}
		cur = append(cur, part...)
		if p.Marker {
			data := cur
			if c.Codec == "AV1" {
				data = append([]byte{0x12, 0x00}, cur...)
			}
			ref = append(ref, vfC32RefFrame{Data: data, TS: p.Timestamp})
			cur = nil
		}
	}
	keyFirst := firstSeen && firstIsKey
	if keyFirst {
		v.Label("key-first")
		v.Label(c.Codec + "/key-first")
		if len(ref) >= 2 {
			v.NonTrivial()
		}
	} else if firstSeen {
		v.Label("delta-first")
	} else {
		v.Label("no-packets")
	}

	// 3. the writer under test
	opts := []ivfwriter.Option{ivfwriter.WithCodec("video/" + c.Codec)}
	num, den := uint32(1), uint32(30)
	if c.Num != 0 {
		opts = append(opts, ivfwriter.WithFrameRate(c.Num, c.Den))
		num, den = c.Num, c.Den
		v.Label("with-framerate")
	}
	wWant, hWant := uint16(640), uint16(480)
	if c.W != 0 || c.H != 0 {
		opts = append(opts, ivfwriter.WithWidthAndHeight(c.W, c.H))
		wWant, hWant = c.W, c.H
	}
	if c.DirectPTS {
		opts = append(opts, ivfwriter.WithDirectPTS())
		v.Label("direct-pts")
	}
	var plain bytes.Buffer
	var seek vfC32Seek
	var out io.Writer = &plain
	if c.Seekable {
		out = &seek
		v.Label("seekable")
	}
	w, err := ivfwriter.NewWith(out, opts...)
	if err != nil {
		v.Violation("C32/writer/new", "NewWith(%s, framerate %d/%d): %v", c.Codec, c.Num, c.Den, err)
	}
	for i, p := range pkts {
		if err := w.WriteRTP(p); err != nil {
			v.Violation("C32/writer/write-rtp", "WriteRTP(packet %d of %d): %v (the reference depacketizer accepts every packet)", i, len(pkts), err)
		}
	}
	if err := w.Close(); err != nil {
		v.Violation("C32/writer/close", "Close: %v", err)
	}
	file := plain.Bytes()
	if c.Seekable {
		file = seek.buf
	}

	// 4. the file, by the harness's own parser
	fourcc, fw, fh, fden, fnum, nframes, ff, perr := vfC32Parse(file)
	if perr != nil {
		v.Violation("C32/writer/corrupt-file", "the written file is not valid IVF: %v", perr)
	}
	if fourcc != fourccWant {
		v.Violation("C32/writer/header-fourcc", "FourCC %q, configured codec %s", fourcc, c.Codec)
	}
	if fw != wWant || fh != hWant {
		v.Violation("C32/writer/header-size", "header size %dx%d, configured %dx%d", fw, fh, wWant, hWant)
	}
	if fden != den || fnum != num {
		v.Violation("C32/writer/header-timebase", "header timebase denominator/numerator %d/%d, configured %d/%d", fden, fnum, den, num)
	}
	if c.Seekable && int(nframes) != len(ff) {
		v.Violation("C32/writer/frame-count", "seekable output: header frame count %d, %d frames in the file", nframes, len(ff))
	}

	// 5. pion's reader over the same bytes
	r, hdr, err := ivfreader.NewWith(bytes.NewReader(file))
	if err != nil {
		v.Violation("C32/reader/new", "ivfreader.NewWith on the written file: %v", err)
	}
	if hdr.FourCC != fourccWant || hdr.Width != wWant || hdr.Height != hWant || hdr.TimebaseDenominator != den || hdr.TimebaseNumerator != num {
		v.Violation("C32/reader/header", "reader header %+v, configured %s %dx%d timebase %d/%d", *hdr, fourccWant, wWant, hWant, den, num)
	}
	if c.Seekable && int(hdr.NumFrames) != len(ff) {
		v.Violation("C32/reader/frame-count", "reader NumFrames %d, %d frames in the file", hdr.NumFrames, len(ff))
	}
	type rf struct {
		data []byte
		ts   uint64
	}
	var back []rf
	for i := 0; i <= len(ff); i++ {
		data, fh, err := r.ParseNextFrame()
		if err != nil {
			if err != io.EOF {
				v.Violation("C32/reader/next", "ParseNextFrame #%d on the written file (%d frames): %v", i, len(ff), err)
			}
			break
		}
		if fh == nil {
			v.Violation("C32/reader/next", "ParseNextFrame #%d returned no header and no error", i)
		}
		if int(fh.FrameSize) != len(data) {
			v.Violation("C32/reader/frame-size", "frame %d: header FrameSize %d, payload %d bytes", i, fh.FrameSize, len(data))
		}
		back = append(back, rf{data, fh.Timestamp})
	}
	if len(back) != len(ff) {
		v.Violation("C32/reader/frame-count", "reader returned %d frames, the file holds %d", len(back), len(ff))
	}
	for i := range ff {
		if !bytes.Equal(back[i].data, ff[i].Data) {
			v.Violation("C32/reader/frame-bytes", "frame %d: reader returned %d bytes, the file holds %d (different content)", i, len(back[i].data), len(ff[i].Data))
		}
		if want := ff[i].PTS * uint64(den) / uint64(num); back[i].ts != want {
			v.Violation("C32/reader/timestamp", "frame %d: reader timestamp %d, file pts %d with timebase %d/%d gives %d", i, back[i].ts, ff[i].PTS, den, num, want)
		}
	}
	if !keyFirst {
		return // outside the statement's domain: only file/reader agreement above
	}

	// 6. key-first streams: the frames are exactly the reference assembly, with the writer's PTS rule
	if len(ff) != len(ref) {
		v.Violation("C32/writer/frames", "%d frames written, the reference assembly of the %d packets has %d frames", len(ff), len(pkts), len(ref))
	}
	for i := range ref {
		if !bytes.Equal(ff[i].Data, ref[i].Data) {
			v.Violation("C32/writer/frame-bytes", "frame %d: written %d bytes, reference assembly %d bytes (or different content)", i, len(ff[i].Data), len(ref[i].Data))
		}
		d := uint64(ref[i].TS - ref[0].TS) // uint32 arithmetic: RTP timestamps wrap
		var want uint64
		if c.DirectPTS {
			want = d
		} else {
			want = (1000 * d / 90000) * uint64(num) / uint64(den)
		}
		if ff[i].PTS != want {
			v.Violation("C32/writer/pts", "frame %d: pts %d, the writer's rule gives %d (rtp timestamp %d, first %d, direct=%v, framerate %d/%d)", i, ff[i].PTS, want, ref[i].TS, ref[0].TS, c.DirectPTS, num, den)
		}
	}
	if ref[len(ref)-1].TS < ref[0].TS {
		v.Label("rtp-timestamp-wraps")
	}
}

func vfC32Gen(codec string) func(v *vfT) vfC32Case {
	return func(v *vfT) vfC32Case {
		t := v.R
		c := vfC32Case{Codec: codec}
		c.MTU = rapid.OneOf(rapid.IntRange(100, 1400), rapid.IntRange(20, 120), rapid.SampledFrom([]int{100, 1200, 1400})).Draw(t, "mtu")
		c.Seekable = rapid.Bool().Draw(t, "seekable")
		c.DirectPTS = rapid.Bool().Draw(t, "direct")
		if rapid.Bool().Draw(t, "framerate") {
			c.Num = rapid.OneOf(rapid.Just(uint32(1)), rapid.SampledFrom([]uint32{1, 1001, 2, 1000}), rapid.Uint32Range(1, 2000)).Draw(t, "num")
			c.Den = rapid.OneOf(rapid.SampledFrom([]uint32{30, 90000, 1000, 24000, 30000, 60, 25, 1}), rapid.Uint32Range(1, 200000)).Draw(t, "den")
		}
		if rapid.Bool().Draw(t, "size") {
			c.W = rapid.Uint16Range(1, 65535).Draw(t, "w")
			c.H = rapid.Uint16Range(1, 65535).Draw(t, "h")
		}
		c.PictureID = codec == "VP8" && rapid.Bool().Draw(t, "pictureid")
		c.Flexible = codec == "VP9" && rapid.IntRange(0, 3).Draw(t, "flexible") == 3
		c.TS0 = rapid.OneOf(rapid.Uint32(), rapid.Uint32Range(0xFFFF0000, 0xFFFFFFFF), rapid.Just(uint32(0))).Draw(t, "ts0")
		n := rapid.IntRange(1, 8).Draw(t, "frames")
		deltaFirst := rapid.IntRange(0, 5).Draw(t, "deltafirst") == 5
		for i := 0; i < n; i++ {
			var f vfC32Frame
			f.Key = (i == 0 && !deltaFirst) || rapid.IntRange(0, 4).Draw(t, "key") == 4
			f.Seed = rapid.Uint32().Draw(t, "seed")
			f.DTs = rapid.OneOf(rapid.Uint32Range(0, 9000), rapid.SampledFrom([]uint32{3000, 3003, 90, 89, 91, 0}), rapid.Uint32Range(0, 0x7FFFFFFF)).Draw(t, "dts")
			if codec == "AV1" {
				f.TD = rapid.Bool().Draw(t, "td")
				sameLayer := rapid.IntRange(0, 3).Draw(t, "samelayer") != 0
				ext := rapid.Bool().Draw(t, "ext")
				tid, sid := rapid.IntRange(0, 7).Draw(t, "tid"), rapid.IntRange(0, 3).Draw(t, "sid")
				if f.Key {
					f.OBUs = append(f.OBUs, vfC32OBU{Type: 1, Len: rapid.IntRange(1, 24).Draw(t, "seqhdr"), Seed: f.Seed ^ 0x5555, HasSize: true})
				}
				k := rapid.IntRange(1, 4).Draw(t, "obus")
				for j := 0; j < k; j++ {
					o := vfC32OBU{Type: rapid.SampledFrom([]int{6, 6, 6, 3, 4, 5, 7, 15}).Draw(t, "obutype"), Ext: ext, TID: tid, SID: sid, HasSize: true}
					if !sameLayer {
						o.Ext = rapid.Bool().Draw(t, "oext")
						o.TID, o.SID = rapid.IntRange(0, 7).Draw(t, "otid"), rapid.IntRange(0, 3).Draw(t, "osid")
					}
					o.Len = rapid.OneOf(rapid.IntRange(1, 40), rapid.IntRange(1, 300), rapid.IntRange(100, 5000), rapid.SampledFrom([]int{126, 127, 128, 129})).Draw(t, "olen")
					o.Seed = rapid.Uint32().Draw(t, "oseed")
					f.OBUs = append(f.OBUs, o)
				}
				f.OBUs[len(f.OBUs)-1].HasSize = rapid.IntRange(0, 3).Draw(t, "lastsize") != 0
			} else {
				f.Len = rapid.OneOf(rapid.IntRange(10, 60), rapid.IntRange(10, 400), rapid.IntRange(400, 6000)).Draw(t, "len")
			}
			c.Frames = append(c.Frames, f)
		}
		return c
	}
}

var vfC32Opts = vfOpts{
	Rule: "1..8 frames (5/6 of the streams start with a keyframe, keyframes recur with probability 1/5; VP8/VP9 frames 10..6000 bytes with a valid frame tag / uncompressed header, AV1 temporal units of 1..5 OBUs with optional temporal delimiter, sequence header on keyframes, extension headers, last OBU with or without size field) packetized at MTU 20..1400; RTP timestamps from a random origin (also just below 2^32) with random increments; seekable or plain output; WithFrameRate(1..2000, 1..200000) or default; WithWidthAndHeight or default; WithDirectPTS on/off; non-trivial = keyframe-first stream with at least two frames",
	Assumptions: []string{
		"pion/rtp's depacketizers (separate instances) define the frame bytes a packet sequence carries; the keyframe-first domain is judged on the first packet (VP8: S=1 and frame tag bit0=0, VP9: B=1 and P=0, AV1: N=1)",
		"the writer's PTS rule is modelled as documented in ivfwriter.go: d = rtp timestamp - timestamp of the first written frame (mod 2^32); direct: pts = d; otherwise pts = (1000*d/90000) * numerator / denominator; the reader's timestamp is pts * denominator / numerator",
		"timebase numerator and denominator are non-zero; values are small enough that the 64-bit products do not overflow",
	},
}

func TestVerif_C32_VP8(t *testing.T) {
	vfProperty(t, "C32", vfC32Opts, vfC32Gen("VP8"), vfC32Run)
}

func TestVerif_C32_VP9(t *testing.T) {
	vfProperty(t, "C32", vfC32Opts, vfC32Gen("VP9"), vfC32Run)
}

func TestVerif_C32_AV1(t *testing.T) {
	vfProperty(t, "C32", vfC32Opts, vfC32Gen("AV1"), vfC32Run)
}
