package c35

// C35 — H264Writer / H265Writer emit the packetized NAL units once a keyframe arrives.
//
// Pipeline per case: NAL units (grouped into access units) -> pion/rtp H264Payloader /
// H265Payloader at a drawn MTU (single NAL, STAP-A / AP, FU-A / FU) -> H264Writer / H265Writer
// -> bytes -> Annex-B units.
// Reference (independent of the writer's gating): a *separate* depacketizer instance of the
// trusted dependency (codecs.H264Packet / codecs.H265Depacketizer) is run over the same RTP
// payloads, packet by packet; its output split by the harness's own Annex-B splitter is the list
// of units the payloader actually carried (the payloaders drop AUD/filler, hold back and
// de-duplicate parameter sets, and drop what does not fit: all of that is outside the property
// and only counted). Expected output = the carried units from the first keyframe unit on
// (H.264: first SPS or IDR; H.265: first VPS/SPS/PPS/IDR_W_RADL/IDR_N_LP), in order.
// When that first keyframe unit travels in an aggregation packet behind non-keyframe units the
// statement does not say whether the packet's leading units belong to the output; both readings
// are accepted and the case is counted under "ambiguous-ap-leading-units".

import (
	"bytes"
	"fmt"
	"io"
	"testing"

	"github.com/pion/rtp"
	"github.com/pion/rtp/codecs"
	"github.com/pion/webrtc/v4/pkg/media/h264reader"
	"github.com/pion/webrtc/v4/pkg/media/h264writer"
	"github.com/pion/webrtc/v4/pkg/media/h265reader"
	"github.com/pion/webrtc/v4/pkg/media/h265writer"
	"pgregory.net/rapid"
)

type vfC35Nal struct {
	Hdr   []byte `json:"hdr"`  // 1 (H.264) or 2 (H.265) header bytes
	Body  []byte `json:"body"` // explicit body bytes
	Fill  int    `json:"fill"` // pseudo-random bytes appended
	FSeed uint32 `json:"fseed"`
}

type vfC35AU struct {
	Nals []vfC35Nal `json:"nals"`
	Four bool       `json:"four"` // 4-byte start codes inside the access unit handed to the payloader
	Raw  bool       `json:"raw"`  // single-unit AU handed to the payloader without any start code
}

type vfC35Case struct {
	Codec string    `json:"codec"`
	MTU   int       `json:"mtu"`
	NoAgg bool      `json:"no_agg"` // H264Payloader.DisableStapA / H265Payloader.SkipAggregation
	AUs   []vfC35AU `json:"aus"`
}

func vfC35Bytes(n vfC35Nal) []byte {
	b := make([]byte, 0, len(n.Hdr)+len(n.Body)+n.Fill)
	b = append(b, n.Hdr...)
	b = append(b, n.Body...)
	x := n.FSeed | 1
	for i := 0; i < n.Fill; i++ {
		x ^= x << 13
		x ^= x >> 17
		x ^= x << 5
		switch (x >> 8) & 7 {
		case 0:
			b = append(b, 0)
		case 1:
			b = append(b, 1)
		default:
			b = append(b, byte(x>>16))
		}
	}
	for i := 2; i < len(b); i++ {
		if b[i-2] == 0 && b[i-1] == 0 && (b[i] == 0 || b[i] == 1) {
			b[i] = 3
		}
	}
	if b[len(b)-1] == 0 {
		b[len(b)-1] = 0x80
	}
	return b
}

// vfC35Split is the harness's own Annex-B splitter: units are what lies between start codes
// (00 00 01, optionally preceded by zero bytes). Units of the generated domain never end in 00.
func vfC35Split(b []byte) [][]byte {
	var out [][]byte
	i := bytes.Index(b, []byte{0, 0, 1})
	if i < 0 {
		if len(bytes.TrimRight(b, "\x00")) > 0 {
			out = append(out, b)
		}
		return out
	}
	if len(bytes.TrimRight(b[:i], "\x00")) > 0 {
		out = append(out, append([]byte{0xEE, 0xEE}, b[:i]...)) // bytes before the first start code: never expected
	}
	for i >= 0 && i < len(b) {
		start := i + 3
		j := bytes.Index(b[start:], []byte{0, 0, 1})
		end := len(b)
		next := -1
		if j >= 0 {
			end = start + j
			next = end
		}
		u := bytes.TrimRight(b[start:end], "\x00")
		if j < 0 {
			u = b[start:end]
		}
		out = append(out, u) // possibly empty: reported by the comparison
		i = next
	}
	return out
}

func vfC35Type(codec string, b []byte) int {
	if len(b) == 0 {
		return -1
	}
	if codec == "h264" {
		return int(b[0] & 0x1F)
	}
	return int(b[0]>>1) & 0x3F
}

func vfC35IsKey(codec string, b []byte) bool {
	t := vfC35Type(codec, b)
	if codec == "h264" {
		return t == 7 || t == 5
	}
	return t == 32 || t == 33 || t == 34 || t == 19 || t == 20
}

func vfC35Short(b []byte) string {
	if len(b) <= 10 {
		return fmt.Sprintf("%x", b)
	}
	return fmt.Sprintf("%x..(len %d)", b[:6], len(b))
}

func vfC35List(codec string, l [][]byte) string {
	s := "["
	for i, b := range l {
		if i > 0 {
			s += " "
		}
		if i >= 12 {
			s += fmt.Sprintf("..%d more", len(l)-i)
			break
		}
		s += fmt.Sprintf("t%d/%dB", vfC35Type(codec, b), len(b))
	}
	return s + "]"
}

func vfC35Equal(a, b [][]byte) bool {
	if len(a) != len(b) {
		return false
	}
	for i := range a {
		if !bytes.Equal(a[i], b[i]) {
			return false
		}
	}
	return true
}

type vfC35Depack interface {
	Unmarshal([]byte) ([]byte, error)
}

func vfC35Run(v *vfT, c vfC35Case) {
	k := c.Codec
	if (k != "h264" && k != "h265") || c.MTU < 8 || c.MTU > 65000 {
		v.Skip("malformed case")
	}
	v.Label(k)
	// 1. packetize
	var payloads [][]byte
	var input [][]byte
	var pay interface {
		Payload(mtu uint16, payload []byte) [][]byte
	}
	if k == "h264" {
		pay = &codecs.H264Payloader{DisableStapA: c.NoAgg}
	} else {
		pay = &codecs.H265Payloader{SkipAggregation: c.NoAgg}
	}
	for _, au := range c.AUs {
		var buf []byte
		for _, n := range au.Nals {
			if (k == "h264" && len(n.Hdr) != 1) || (k == "h265" && len(n.Hdr) != 2) || n.Fill < 0 || n.Fill > 20000 {
				v.Skip("malformed case")
			}
			b := vfC35Bytes(n)
			input = append(input, b)
			if !(au.Raw && len(au.Nals) == 1) {
				if au.Four {
					buf = append(buf, 0)
				}
				buf = append(buf, 0, 0, 1)
			}
			buf = append(buf, b...)
		}
		if len(buf) == 0 {
			continue
		}
		payloads = append(payloads, pay.Payload(uint16(c.MTU), buf)...)
	}
	// 2. reference: what the payloader carried, packet by packet, by an independent depacketizer
	var ref vfC35Depack
	if k == "h264" {
		ref = &codecs.H264Packet{}
	} else {
		ref = &codecs.H265Depacketizer{}
	}
	var carried [][]byte
	var pktOf []int // packet index at which carried[i] was completed
	kinds := map[string]bool{}
	for i, p := range payloads {
		if len(p) == 0 {
			v.Label("payloader-empty-payload")
			return
		}
		out, err := ref.Unmarshal(p)
		if err != nil {
			v.Label("payloader-output-not-depacketizable") // the dependency disagrees with itself: not this property
			return
		}
		for _, u := range vfC35Split(out) {
			carried = append(carried, u)
			pktOf = append(pktOf, i)
		}
		t := vfC35Type(k, p)
		switch {
		case k == "h264" && t == 24, k == "h265" && t == 48:
			kinds["aggregation"] = true
		case k == "h264" && t == 28, k == "h265" && t == 49:
			kinds["fragmentation"] = true
		default:
			kinds["single"] = true
		}
	}
	for kind := range kinds {
		v.Label("pkt:" + kind)
	}
	if len(carried) < len(input) {
		v.Label("payloader-dropped-or-held-units")
	}
	first := -1
	for i, u := range carried {
		if vfC35IsKey(k, u) {
			first = i
			break
		}
	}
	var strict, lenient [][]byte
	if first >= 0 {
		strict = carried[first:]
		j := first
		for j > 0 && pktOf[j-1] == pktOf[first] {
			j--
		}
		lenient = carried[j:]
		if j != first {
			v.Label("ambiguous-ap-leading-units")
		}
		if first > 0 {
			v.Label("units-before-keyframe")
		}
		v.Label(fmt.Sprintf("first-key:t%d", vfC35Type(k, carried[first])))
		hdrLen := map[string]int{"h264": 1, "h265": 2}[k]
		for _, u := range strict[1:] {
			if len(u) == hdrLen {
				v.Label("header-only-unit-after-keyframe")
				break
			}
		}
		if len(strict) >= 2 {
			v.NonTrivial()
		}
	} else {
		v.Label("no-keyframe")
	}

	// 3. the writer under test
	var file bytes.Buffer
	var w interface {
		WriteRTP(*rtp.Packet) error
		Close() error
	}
	if k == "h264" {
		w = h264writer.NewWith(&file)
	} else {
		w = h265writer.NewWith(&file)
	}
	for i, p := range payloads {
		pkt := &rtp.Packet{Header: rtp.Header{Version: 2, PayloadType: 96, SequenceNumber: uint16(1000 + i), Timestamp: uint32(90000 + 3000*i), SSRC: 0x1234}, Payload: p}
		if err := w.WriteRTP(pkt); err != nil {
			v.Violation("C35/"+k+"/write-error", "WriteRTP(packet %d of %d, payload %s) failed: %v (the reference depacketizer accepts every packet)", i, len(payloads), vfC35Short(p), err)
		}
	}
	if err := w.Close(); err != nil {
		v.Violation("C35/"+k+"/close-error", "Close: %v", err)
	}
	got := vfC35Split(file.Bytes())

	ok := vfC35Equal(got, strict) || (first >= 0 && vfC35Equal(got, lenient))
	if !ok {
		desc := fmt.Sprintf("mtu %d, %d packets; carried %s, first keyframe unit at #%d; expected output %s; writer output %s", c.MTU, len(payloads), vfC35List(k, carried), first, vfC35List(k, strict), vfC35List(k, got))
		if k == "h264" && first >= 0 && vfC35Type(k, carried[first]) == 5 {
			// IDR-led: does the output start at the first packet that *begins* with an SPS instead?
			alt := [][]byte{}
			for i := first; i < len(carried); i++ {
				if vfC35Type(k, carried[i]) == 7 && (i == 0 || pktOf[i-1] != pktOf[i]) {
					alt = carried[i:]
					break
				}
			}
			if vfC35Equal(got, alt) {
				v.Violation("C35/h264/idr-keyframe-ignored", "the first keyframe unit is an IDR slice (no SPS before it) and the writer drops it and everything up to the next SPS: %s", desc)
			}
		}
		if k == "h265" {
			// is a fragmentation unit part of the packets the keyframe decision has to look at?
			last := len(payloads) - 1
			if first >= 0 {
				last = pktOf[first]
			}
			for i := 0; i <= last; i++ {
				if vfC35Type(k, payloads[i]) == 49 {
					v.Violation("C35/h265/fu-keyframe-detection", "fragmentation units at or before the first keyframe unit (first: packet %d, FU header byte %#02x) and the writer starts at the wrong packet: %s", i, payloads[i][2], desc)
				}
			}
		}
		v.Violation("C35/"+k+"/output-mismatch", "%s", desc)
	}

	// 4. "read back by the matching reader": pion's reader over the written bytes must give the same units
	var back [][]byte
	if k == "h264" {
		r, err := h264reader.NewReaderWithOptions(bytes.NewReader(file.Bytes()), h264reader.WithIncludeSEI(true))
		if err != nil {
			v.Violation("C35/h264/reader", "NewReader: %v", err)
		}
		for i := 0; i < len(got)+2; i++ {
			n, err := r.NextNAL()
			if err != nil || n == nil {
				if err != io.EOF {
					v.Violation("C35/h264/reader", "NextNAL #%d on the writer's output: %v", i, err)
				}
				break
			}
			back = append(back, n.Data)
		}
	} else {
		r, err := h265reader.NewReaderWithOptions(bytes.NewReader(file.Bytes()), h265reader.WithIncludeSEI(true))
		if err != nil {
			v.Violation("C35/h265/reader", "NewReader: %v", err)
		}
		for i := 0; i < len(got)+2; i++ {
			n, err := r.NextNAL()
			if err != nil || n == nil {
				if err != io.EOF {
					v.Violation("C35/h265/reader", "NextNAL #%d on the writer's output: %v", i, err)
				}
				break
			}
			back = append(back, n.Data)
		}
	}
	if !vfC35Equal(back, got) {
		v.Violation("C35/"+k+"/reader", "the reader returns %s from the writer's output, the harness's Annex-B splitter %s", vfC35List(k, back), vfC35List(k, got))
	}
}

func vfC35GenNal(t *rapid.T, codec string, typ int, small bool) vfC35Nal {
	var n vfC35Nal
	if codec == "h264" {
		ref := rapid.IntRange(0, 3).Draw(t, "refidc")
		n.Hdr = []byte{byte(ref<<5) | byte(typ)}
	} else {
		layer := rapid.OneOf(rapid.Just(0), rapid.IntRange(0, 63)).Draw(t, "layer")
		tid := rapid.IntRange(1, 7).Draw(t, "tid")
		n.Hdr = []byte{byte(typ<<1) | byte(layer>>5), byte(layer<<3) | byte(tid)}
	}
	bb := rapid.OneOf(rapid.SampledFrom([]byte{0, 0, 1, 3, 0x80, 0x40, 0x60, 0xFF}), rapid.Byte())
	switch {
	case codec == "h265" && typ == 33 && rapid.Bool().Draw(t, "parsable-sps"):
		// sps_video_parameter_set_id(4) max_sub_layers_minus1(3)=0 nesting(1), 12 bytes profile_tier_level, ue(sps id)
		n.Body = append([]byte{byte(rapid.IntRange(0, 15).Draw(t, "vpsid")<<4) | 1}, rapid.SliceOfN(rapid.ByteRange(1, 255), 12, 12).Draw(t, "ptl")...)
		n.Body = append(n.Body, rapid.SampledFrom([]byte{0x80, 0x40, 0x60}).Draw(t, "spsid"))
		n.Body = append(n.Body, rapid.SliceOfN(bb, 0, 6).Draw(t, "tail")...)
	case small:
		n.Body = rapid.SliceOfN(bb, 3, 24).Draw(t, "body") // a real parameter set has at least profile/level bytes
	default:
		// size class: header-only unit (H.264 1 byte: 1/4; H.265 2 bytes: 1/100, pion/rtp's H.265 depacketizer
		// refuses those so the case is only counted), header + 1 byte (1/5), otherwise free
		sc := rapid.IntRange(0, 19).Draw(t, "sizeclass")
		switch {
		case (codec == "h264" && sc < 5) || (codec == "h265" && sc == 0 && rapid.IntRange(0, 4).Draw(t, "hdronly265") == 0):
		case sc < 9:
			n.Body = rapid.SliceOfN(bb, 1, 1).Draw(t, "body1")
		default:
			n.Body = rapid.SliceOfN(bb, 1, 12).Draw(t, "body")
			n.Fill = rapid.OneOf(rapid.IntRange(0, 60), rapid.IntRange(0, 400), rapid.IntRange(0, 4000)).Draw(t, "fill")
			n.FSeed = rapid.Uint32().Draw(t, "fseed")
		}
	}
	return n
}

func vfC35Gen(codec string) func(v *vfT) vfC35Case {
	// unit type pools
	var nonKey, params, idr, anyT []int
	if codec == "h264" {
		nonKey = []int{1, 1, 1, 1, 2, 3, 4, 6, 6, 9, 10, 12, 13, 19, 14, 23}
		params = []int{7, 8}
		idr = []int{5}
		for i := 1; i <= 23; i++ {
			anyT = append(anyT, i)
		}
		anyT = append(anyT, 1, 1, 1, 5, 5, 7, 8, 7, 8)
	} else {
		nonKey = []int{0, 1, 1, 1, 2, 8, 9, 16, 21, 21, 35, 36, 38, 39, 39, 40, 22, 41}
		params = []int{32, 33, 34}
		idr = []int{19, 20}
		for i := 0; i <= 40; i++ {
			anyT = append(anyT, i)
		}
		anyT = append(anyT, 1, 1, 1, 19, 20, 32, 33, 34, 33, 34)
	}
	isParam := func(typ int) bool {
		for _, p := range params {
			if p == typ {
				return true
			}
		}
		return false
	}
	return func(v *vfT) vfC35Case {
		t := v.R
		c := vfC35Case{Codec: codec}
		c.MTU = rapid.OneOf(rapid.IntRange(60, 1400), rapid.IntRange(60, 200), rapid.SampledFrom([]int{60, 100, 1200, 1400})).Draw(t, "mtu")
		c.NoAgg = rapid.IntRange(0, 3).Draw(t, "noagg") == 3
		var seq [][]int // access units as lists of unit types
		pre := rapid.IntRange(0, 3).Draw(t, "pre")
		for i := 0; i < pre; i++ {
			seq = append(seq, rapid.SliceOfN(rapid.SampledFrom(nonKey), 1, 3).Draw(t, "preau"))
		}
		switch rapid.IntRange(0, 9).Draw(t, "keykind") {
		case 0: // no keyframe at all
		case 1, 2: // IDR-led, no parameter sets
			au := rapid.SliceOfN(rapid.SampledFrom(nonKey), 0, 1).Draw(t, "lead")
			seq = append(seq, append(au, rapid.SampledFrom(idr).Draw(t, "idr")))
		case 3: // parameter sets only, then a non-IDR slice
			seq = append(seq, append(append([]int{}, params...), nonKey[1]))
		case 4: // one parameter set, own call, then slices
			seq = append(seq, []int{rapid.SampledFrom(params).Draw(t, "param")}, []int{nonKey[1]})
		default: // parameter sets + IDR in one access unit (what encoders send)
			au := rapid.SliceOfN(rapid.SampledFrom(nonKey), 0, 1).Draw(t, "lead")
			au = append(au, params...)
			if rapid.Bool().Draw(t, "sei") {
				au = append(au, nonKey[7])
			}
			seq = append(seq, append(au, rapid.SampledFrom(idr).Draw(t, "idr")))
		}
		post := rapid.IntRange(0, 4).Draw(t, "post")
		for i := 0; i < post; i++ {
			seq = append(seq, rapid.SliceOfN(rapid.SampledFrom(anyT), 1, 4).Draw(t, "postau"))
		}
		split := rapid.IntRange(0, 4).Draw(t, "one-per-call") == 0
		for _, au := range seq {
			four := rapid.Bool().Draw(t, "four")
			var a vfC35AU
			for _, typ := range au {
				n := vfC35GenNal(t, codec, typ, isParam(typ))
				if split {
					c.AUs = append(c.AUs, vfC35AU{Nals: []vfC35Nal{n}, Four: four, Raw: rapid.Bool().Draw(t, "raw")})
				} else {
					a.Nals = append(a.Nals, n)
				}
			}
			if !split {
				a.Four = four
				a.Raw = len(a.Nals) == 1 && rapid.Bool().Draw(t, "raw")
				c.AUs = append(c.AUs, a)
			}
		}
		return c
	}
}

var vfC35Opts = vfOpts{
	Rule: "0..3 access units of non-keyframe units, then one of {nothing, an IDR-led access unit without parameter sets, parameter sets + slice, a lone parameter set, parameter sets (+SEI) + IDR}, then 0..4 access units of arbitrary unit types (H.264 1..23, H.265 0..40); parameter sets 4..26 bytes, other units from header-only (H.264: 1 byte, 1/4 of the units; H.265: 2 bytes, 1/100) and header + 1 byte up to 4 KiB; MTU 60..1400; aggregation on (3/4) or off; access units handed to the payloader whole or one unit per call; non-trivial = at least two units from the first keyframe on",
	Assumptions: []string{
		"pion/rtp's depacketizers (a separate instance, fed every packet) define which units the payloader carried and in which order; units the payloader drops, holds back or de-duplicates are outside the property",
		"header-only H.265 units are rare because pion/rtp's H.265 depacketizer rejects them (such cases are counted under payloader-output-not-depacketizable, nothing is asserted); parameter sets carry at least 3 payload bytes (a real SPS cannot be shorter; H264Writer needs 4 payload bytes to classify a packet)",
		"parameter sets are small enough to fit one packet at every generated MTU (fragmented parameter sets are not generated); the forbidden_zero_bit is 0",
		"when the first keyframe unit sits behind other units inside one aggregation packet, output starting at that packet's first unit is accepted as well",
	},
}

func TestVerif_C35_H264(t *testing.T) {
	vfProperty(t, "C35", vfC35Opts, vfC35Gen("h264"), vfC35Run)
}

func TestVerif_C35_H265(t *testing.T) {
	vfProperty(t, "C35", vfC35Opts, vfC35Gen("h265"), vfC35Run)
}
