package c36

// C36 — rtpdump files round-trip, and malformed records are rejected.
//
// Oracles: (1) in-domain round trip writer -> reader equals the input AND an independent
// strict rtpdump parser (below) reads the same records, so writer and reader cannot cancel
// each other's mistakes; (2) out-of-domain inputs: the writer returns an error or the strict
// parser still recovers a structurally valid file holding exactly the accepted records;
// (3) raw record streams: a length field < 8 must make Reader.Next fail.

import (
	"bytes"
	"encoding/binary"
	"fmt"
	"io"
	"net"
	"regexp"
	"strconv"
	"testing"
	"time"

	"github.com/pion/webrtc/v4/pkg/media/rtpdump"
	"pgregory.net/rapid"
)

type vfPkt struct {
	OffsetMs int64 `json:"offset_ms"`
	IsRTCP   bool  `json:"rtcp"`
	Len      int   `json:"len"`
	Fill     byte  `json:"fill"`
}

type vfC36Case struct {
	StartSec  int64   `json:"start_sec"`
	StartUsec int64   `json:"start_usec"`
	IP        []byte  `json:"ip"` // 4 or 16 bytes
	Port      uint16  `json:"port"`
	Pkts      []vfPkt `json:"pkts"`
}

func (p vfPkt) payload() []byte {
	b := make([]byte, p.Len)
	for i := range b {
		b[i] = p.Fill + byte(i*7)
	}
	return b
}

type vfStrictRec struct {
	Length, PLen uint16
	Offset       uint32
	Payload      []byte
}

var vfPreamble = regexp.MustCompile(`^#!rtpplay1\.0 (\d{1,3})\.(\d{1,3})\.(\d{1,3})\.(\d{1,3})/(\d{1,5})\n`)

// vfStrictParse is an independent reader of the rtpdump format (rtptools documentation).
func vfStrictParse(b []byte) (ip net.IP, port int, sec, usec uint32, recs []vfStrictRec, err error) {
	m := vfPreamble.FindSubmatch(b)
	if m == nil {
		return nil, 0, 0, 0, nil, fmt.Errorf("bad preamble %q", b[:min(len(b), 40)])
	}
	oct := make([]byte, 4)
	for i := 0; i < 4; i++ {
		n, _ := strconv.Atoi(string(m[i+1]))
		if n > 255 {
			return nil, 0, 0, 0, nil, fmt.Errorf("bad preamble address")
		}
		oct[i] = byte(n)
	}
	pport, _ := strconv.Atoi(string(m[5]))
	b = b[len(m[0]):]
	if len(b) < 16 {
		return nil, 0, 0, 0, nil, fmt.Errorf("short header")
	}
	sec, usec = binary.BigEndian.Uint32(b[0:]), binary.BigEndian.Uint32(b[4:])
	if !bytes.Equal(b[8:12], oct) {
		return nil, 0, 0, 0, nil, fmt.Errorf("binary source %v differs from preamble %v", b[8:12], oct)
	}
	if int(binary.BigEndian.Uint16(b[12:])) != pport {
		return nil, 0, 0, 0, nil, fmt.Errorf("binary port differs from preamble")
	}
	b = b[16:]
	for len(b) > 0 {
		if len(b) < 8 {
			return nil, 0, 0, 0, nil, fmt.Errorf("trailing %d bytes", len(b))
		}
		r := vfStrictRec{Length: binary.BigEndian.Uint16(b[0:]), PLen: binary.BigEndian.Uint16(b[2:]), Offset: binary.BigEndian.Uint32(b[4:])}
		if r.Length < 8 {
			return nil, 0, 0, 0, nil, fmt.Errorf("record length %d < 8", r.Length)
		}
		if len(b) < int(r.Length) {
			return nil, 0, 0, 0, nil, fmt.Errorf("record length %d exceeds remaining %d", r.Length, len(b))
		}
		r.Payload = b[8:r.Length]
		recs = append(recs, r)
		b = b[r.Length:]
	}
	return net.IP(oct), pport, sec, usec, recs, nil
}

func vfC36Run(v *vfT, c vfC36Case) {
	ip := net.IP(c.IP)
	hdr := rtpdump.Header{Start: time.Unix(c.StartSec, c.StartUsec*1000).UTC(), Source: ip, Port: c.Port}
	inDomainHdr := len(c.IP) == 4 && c.StartSec >= 0 && c.StartSec <= 0xFFFFFFFF && c.StartUsec >= 0 && c.StartUsec < 1e6
	if !inDomainHdr {
		v.Label("hdr-out-of-domain")
	}
	var buf bytes.Buffer
	w, err := rtpdump.NewWriter(&buf, hdr)
	if err != nil {
		if inDomainHdr {
			v.Violation("C36/writer/rejects-valid-header", "NewWriter rejected an in-domain header: %v", err)
		}
		return // refused: fine
	}
	type acc struct {
		p   vfPkt
		pay []byte
	}
	var accepted []acc
	allIn := inDomainHdr
	for i, p := range c.Pkts {
		pay := p.payload()
		in := p.Len >= 1 && p.Len <= 65527 && p.OffsetMs >= 0 && p.OffsetMs <= 0xFFFFFFFF
		if !in {
			allIn = false
			v.Label("pkt-out-of-domain")
		}
		if p.Len >= 65520 && p.Len <= 65527 {
			v.Label("pkt-near-max")
		}
		err := w.WritePacket(rtpdump.Packet{Offset: time.Duration(p.OffsetMs) * time.Millisecond, IsRTCP: p.IsRTCP, Payload: pay})
		if err != nil {
			if in {
				v.Violation("C36/writer/rejects-valid-packet", "WritePacket #%d (len %d) rejected an in-domain packet: %v", i, p.Len, err)
			}
			continue
		}
		accepted = append(accepted, acc{p, pay})
	}
	file := append([]byte{}, buf.Bytes()...)

	// independent strict parse: the file must be well-formed and hold exactly the accepted records
	sip, sport, ssec, susec, recs, serr := vfStrictParse(file)
	if serr != nil {
		cls := "C36/writer/corrupt-file"
		if len(c.IP) != 4 {
			cls = "C36/writer/non-ipv4-source"
		}
		v.Violation(cls, "writer accepted the input but the file is not valid rtpdump: %v", serr)
	}
	if len(recs) != len(accepted) {
		v.Violation("C36/writer/length-wrap", "writer accepted %d packets, the file holds %d records (a length field does not describe its record)", len(accepted), len(recs))
	}
	for i, a := range accepted {
		if !bytes.Equal(recs[i].Payload, a.pay) {
			v.Violation("C36/writer/length-wrap", "record %d: payload of %d bytes stored as %d bytes (Length=%d)", i, len(a.pay), len(recs[i].Payload), recs[i].Length)
		}
		if a.p.OffsetMs >= 0 && a.p.OffsetMs <= 0xFFFFFFFF && int64(recs[i].Offset) != a.p.OffsetMs {
			v.Violation("C36/writer/offset", "record %d: offset %d ms stored as %d", i, a.p.OffsetMs, recs[i].Offset)
		}
		if a.p.IsRTCP != (recs[i].PLen == 0) && a.p.Len >= 1 && a.p.Len <= 65527 {
			v.Violation("C36/writer/plen", "record %d: rtcp=%v stored with plen=%d", i, a.p.IsRTCP, recs[i].PLen)
		}
		if !a.p.IsRTCP && a.p.Len >= 1 && a.p.Len <= 65527 && int(recs[i].PLen) != a.p.Len {
			v.Violation("C36/writer/plen", "record %d: RTP payload of %d bytes stored with plen=%d", i, a.p.Len, recs[i].PLen)
		}
	}
	if inDomainHdr {
		if !sip.Equal(ip) || sport != int(c.Port) || int64(ssec) != c.StartSec || int64(susec) != c.StartUsec {
			v.Violation("C36/writer/header", "header written as %v/%d %d.%06d, want %v/%d %d.%06d", sip, sport, ssec, susec, ip, c.Port, c.StartSec, c.StartUsec)
		}
	}

	// pion reader round trip
	r, rh, err := rtpdump.NewReader(bytes.NewReader(file))
	if err != nil {
		v.Violation("C36/reader/rejects-written-file", "NewReader failed on a file the strict parser accepts: %v", err)
	}
	if inDomainHdr {
		if !rh.Source.Equal(ip) || rh.Port != c.Port || !rh.Start.Equal(hdr.Start) {
			v.Violation("C36/reader/header", "header read back as %+v, written %+v", rh, hdr)
		}
	}
	// read everything first and keep the packets: what Next returned must stay what it was
	// (a reader that hands out views of an internal buffer passes a compare-as-you-go loop)
	var read []rtpdump.Packet
	for i := range accepted {
		p, err := r.Next()
		if err != nil {
			v.Violation("C36/reader/next", "Next #%d failed on a valid file: %v", i, err)
		}
		if !bytes.Equal(p.Payload, accepted[i].pay) {
			v.Violation("C36/reader/payload", "packet %d: payload read back with %d bytes, written %d", i, len(p.Payload), len(accepted[i].pay))
		}
		read = append(read, p)
	}
	for i, a := range accepted {
		p := read[i]
		if !bytes.Equal(p.Payload, a.pay) {
			v.Violation("C36/reader/payload-changed-after-later-reads", "packet %d was correct when Next returned it and differs after the rest of the file was read (payload aliases the reader's buffer?)", i)
		}
		in := a.p.Len >= 1 && a.p.Len <= 65527 && a.p.OffsetMs >= 0 && a.p.OffsetMs <= 0xFFFFFFFF
		if in && (p.IsRTCP != a.p.IsRTCP || p.Offset != time.Duration(a.p.OffsetMs)*time.Millisecond) {
			v.Violation("C36/reader/fields", "packet %d: read back rtcp=%v offset=%v, written rtcp=%v offset=%dms", i, p.IsRTCP, p.Offset, a.p.IsRTCP, a.p.OffsetMs)
		}
	}
	if _, err := r.Next(); err != io.EOF {
		v.Violation("C36/reader/eof", "after the last packet Next returned %v, want io.EOF", err)
	}
	if allIn && len(c.Pkts) >= 2 {
		v.NonTrivial()
	}
	if len(file) > 8192 && len(c.Pkts) >= 40 {
		v.Label("many-small-packets-file>8KiB")
	}
	if !allIn {
		v.NonTrivial()
	}
}

func vfC36Gen(v *vfT) vfC36Case {
	t := v.R
	var c vfC36Case
	switch rapid.IntRange(0, 9).Draw(t, "hdrclass") {
	case 0:
		c.IP = rapid.SliceOfN(rapid.Byte(), 16, 16).Draw(t, "ip6")
		c.IP[0] = 0x20 // a real IPv6 address, never an IPv4-mapped one
	default:
		c.IP = rapid.SliceOfN(rapid.Byte(), 4, 4).Draw(t, "ip4")
	}
	c.StartSec = rapid.OneOf(rapid.Int64Range(0, 0xFFFFFFFF), rapid.Int64Range(0, 0xFFFFFFFF), rapid.Int64Range(0, 0xFFFFFFFF),
		rapid.SampledFrom([]int64{0, 1, 0x7FFFFFFF, 0x80000000, 0xFFFFFFFF}), rapid.Int64Range(-1000000, 0x1FFFFFFFF)).Draw(t, "sec")
	c.StartUsec = rapid.Int64Range(0, 999999).Draw(t, "usec")
	c.Port = rapid.Uint16().Draw(t, "port")
	n := rapid.IntRange(0, 6).Draw(t, "npkts")
	many := rapid.IntRange(0, 3).Draw(t, "many") == 0
	if many {
		n = rapid.IntRange(40, 200).Draw(t, "npkts-many")
	}
	for i := 0; i < n; i++ {
		var p vfPkt
		if many {
			p.Len = rapid.IntRange(1, 200).Draw(t, "len-small")
			p.OffsetMs = rapid.Int64Range(0, 100000).Draw(t, "off")
			p.IsRTCP = rapid.Bool().Draw(t, "rtcp")
			p.Fill = rapid.Byte().Draw(t, "fill")
			c.Pkts = append(c.Pkts, p)
			continue
		}
		p.Len = rapid.OneOf(rapid.IntRange(1, 2000), rapid.IntRange(1, 200), rapid.IntRange(65500, 65527),
			rapid.SampledFrom([]int{1, 2, 7, 8, 9, 255, 256, 65519, 65520, 65526, 65527}),
			rapid.SampledFrom([]int{0, 65528, 65529, 65535, 65536, 65537, 70000})).Draw(t, "len")
		p.OffsetMs = rapid.OneOf(rapid.Int64Range(0, 100000), rapid.Int64Range(0, 0xFFFFFFFF), rapid.SampledFrom([]int64{0, 0xFFFFFFFF})).Draw(t, "off")
		p.IsRTCP = rapid.Bool().Draw(t, "rtcp")
		p.Fill = rapid.Byte().Draw(t, "fill")
		c.Pkts = append(c.Pkts, p)
	}
	return c
}

func TestVerif_C36_RoundTrip(t *testing.T) {
	vfProperty(t, "C36", vfOpts{
		Rule: "random headers (IPv4; 10% IPv6; start seconds inside and outside uint32) and 0..6 packets with payload sizes drawn around 1..2000, 65500..65527 and the out-of-domain sizes 0, 65528..70000; non-trivial = at least two in-domain packets, or any out-of-domain element (writer must refuse or still write a valid file)",
		Assumptions: []string{"the harness's strict parser follows the rtptools rtpdump description: text preamble, 16-byte header, records with a 16-bit length that includes the 8-byte record header"},
	}, vfC36Gen, vfC36Run)
}

// --- raw record streams with arbitrary length fields ---

type vfC36Raw struct {
	Lengths []int `json:"lengths"` // length field of each record
	Extra   int   `json:"extra"`   // bytes available after each record header (payload actually present)
}

func TestVerif_C36_ShortLength(t *testing.T) {
	vfProperty(t, "C36", vfOpts{
		Rule: "record streams: a valid preamble+header followed by records whose 16-bit length field is drawn from 0..20 (and a few large values) with plenty of trailing bytes; non-trivial = some record has a length field in 1..7",
	}, func(v *vfT) vfC36Raw {
		return vfC36Raw{
			Lengths: rapid.SliceOfN(rapid.OneOf(rapid.IntRange(0, 20), rapid.IntRange(8, 20), rapid.IntRange(8, 300)), 1, 5).Draw(v.R, "lengths"),
			Extra:   rapid.IntRange(0, 70000).Draw(v.R, "extra"),
		}
	}, func(v *vfT, c vfC36Raw) {
		var buf bytes.Buffer
		buf.WriteString("#!rtpplay1.0 127.0.0.1/5004\n")
		buf.Write(make([]byte, 8))
		buf.Write([]byte{127, 0, 0, 1, 0x13, 0x8c, 0, 0})
		for _, l := range c.Lengths {
			rec := make([]byte, 8)
			binary.BigEndian.PutUint16(rec[0:], uint16(l))
			binary.BigEndian.PutUint16(rec[2:], 1)
			buf.Write(rec)
			if l >= 8 {
				buf.Write(make([]byte, l-8))
			} else {
				break // everything after a malformed record is unspecified
			}
		}
		buf.Write(make([]byte, c.Extra))
		r, _, err := rtpdump.NewReader(bytes.NewReader(buf.Bytes()))
		if err != nil {
			v.Violation("C36/reader/rejects-valid-header", "NewReader: %v", err)
		}
		for i, l := range c.Lengths {
			p, err := r.Next()
			if l < 8 {
				if l > 0 {
					v.NonTrivial()
				}
				if err == nil {
					v.Violation("C36/reader/short-length-accepted", "record %d has length field %d (< 8) and Next returned a packet with %d payload bytes instead of an error", i, l, len(p.Payload))
				}
				return
			}
			if err != nil {
				v.Violation("C36/reader/next", "record %d (length %d) rejected: %v", i, l, err)
			}
			if len(p.Payload) != l-8 {
				v.Violation("C36/reader/payload", "record %d: %d payload bytes for length field %d", i, len(p.Payload), l)
			}
		}
	})
}
