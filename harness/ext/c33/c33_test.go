package c33

// C33 — Ogg/Opus writer output is valid Ogg that reads back as the written packets.
//
// Writers under test: OggWriter via NewWith(io.Writer) and via New(file), and the multi-track
// Writer (NewWriter / NewTrack) with a plain and with a seekable output.
// Oracle: the harness's own Ogg page parser, lacing reassembly, CRC-32 (poly 0x04c11db7) and RFC 6716
// TOC table — independent of both oggwriter and oggreader:
//   every page parses and has a valid CRC; per serial: first page BOS + "OpusHead" (and no other
//   BOS), second packet "OpusTags", page sequence numbers 0,1,2,..., the continued-packet flag is
//   set exactly when the previous page left a packet open, the data packets are exactly the
//   accepted payloads in order, the granule position of every page that completes a packet is
//   the cumulative sample count of the packets completed so far (header pages 0, never
//   decreasing), the OpusHead / OpusTags fields are the configured ones, and the last page of
//   each serial carries EOS (checked last so that everything else is still evaluated).
// Then pion's OggReader must return the same pages (payload, granule, serial) and its
// ParseOpusHead / ParseOpusTags the configured fields (tags packets spanning pages are joined
// by the harness first).

import (
	"bytes"
	"encoding/binary"
	"errors"
	"fmt"
	"io"
	"os"
	"path/filepath"
	"testing"

	"github.com/pion/rtp"
	"github.com/pion/webrtc/v4/pkg/media/oggreader"
	"github.com/pion/webrtc/v4/pkg/media/oggwriter"
	"pgregory.net/rapid"
)

type vfC33Comment struct {
	K string `json:"k"`
	V string `json:"v"`
}

type vfC33Cfg struct {
	SampleRate  *uint32          `json:"sample_rate,omitempty"`
	Channels    int              `json:"channels"`          // 0 = option not used, 1|2 = WithChannelCount
	Family      int              `json:"family"`            // with Mapping != nil: WithChannelMapping(family, 1, coupled, mapping)
	Coupled     int              `json:"coupled"`           //
	Mapping     []byte           `json:"mapping,omitempty"` //
	Vendor      *string          `json:"vendor,omitempty"`
	VendorPad   int              `json:"vendor_pad"`             // extra 'v' characters appended to the vendor string (long tags)
	CommentOpts [][]vfC33Comment `json:"comment_opts,omitempty"` // one WithUserComments option per entry (an entry may be empty)
}

type vfC33Track struct {
	SSRC     uint32   `json:"ssrc"`
	Serial   *uint32  `json:"serial,omitempty"`
	Cfg      vfC33Cfg `json:"cfg"`
	SingleCh int      `json:"single_ch"` // single-track modes: channel count argument (1|2)
	SingleSR uint32   `json:"single_sr"` // single-track modes: sample rate argument
}

type vfC33Pkt struct {
	Track int    `json:"track"`
	TOC   byte   `json:"toc"`  // config<<3 | stereo<<2 | code
	M     byte   `json:"m"`    // code 3: frame count byte (v|p|M)
	Len   int    `json:"len"`  // total payload length (0 = empty RTP payload)
	Seed  uint32 `json:"seed"` // content
}

type vfC33Case struct {
	Mode   string       `json:"mode"` // single-newwith | single-file | multi | multi-seekable
	Writer vfC33Cfg     `json:"writer"`
	Tracks []vfC33Track `json:"tracks"`
	Pkts   []vfC33Pkt   `json:"pkts"`
}

// ---- RFC 6716 section 3.1: samples (at 48 kHz) per frame for each TOC config
func vfC33FrameSamples(toc byte) int {
	cfg := int(toc >> 3)
	switch {
	case cfg < 12: // SILK-only NB/MB/WB: 10, 20, 40, 60 ms
		return []int{480, 960, 1920, 2880}[cfg%4]
	case cfg < 16: // hybrid SWB/FB: 10, 20 ms
		return []int{480, 960}[cfg%2]
	default: // CELT-only: 2.5, 5, 10, 20 ms
		return []int{120, 240, 480, 960}[cfg%4]
	}
}

// vfC33Samples returns the sample count of a packet, ok=false when the packet is not a valid
// Opus packet by the length-independent rules R1 (>= 1 byte), R5 (<= 120 ms), R6 (code 3: >= 2 bytes, M >= 1).
func vfC33Samples(p []byte) (int, bool) {
	if len(p) == 0 {
		return 0, false
	}
	frames := 1
	switch p[0] & 3 {
	case 1, 2:
		frames = 2
	case 3:
		if len(p) < 2 || p[1]&0x3F == 0 {
			return 0, false
		}
		frames = int(p[1] & 0x3F)
	}
	n := frames * vfC33FrameSamples(p[0])
	if n > 5760 {
		return 0, false
	}
	return n, true
}

func vfC33Payload(p vfC33Pkt) []byte {
	if p.Len <= 0 {
		return nil
	}
	b := make([]byte, p.Len)
	x := p.Seed | 1
	for i := range b {
		x ^= x << 13
		x ^= x >> 17
		x ^= x << 5
		b[i] = byte(x >> 7)
	}
	b[0] = p.TOC
	if p.TOC&3 == 3 && len(b) >= 2 {
		b[1] = p.M
	}
	return b
}

// ---- in-memory file: io.Writer + io.Seeker + io.WriterAt sharing one position
type vfC33Mem struct {
	buf []byte
	pos int64
}

func (m *vfC33Mem) Write(p []byte) (int, error) {
	n, err := m.WriteAt(p, m.pos)
	m.pos += int64(n)
	return n, err
}

func (m *vfC33Mem) WriteAt(p []byte, off int64) (int, error) {
	if off < 0 {
		return 0, errors.New("negative offset")
	}
	if end := off + int64(len(p)); end > int64(len(m.buf)) {
		m.buf = append(m.buf, make([]byte, end-int64(len(m.buf)))...)
	}
	copy(m.buf[off:], p)
	return len(p), nil
}

func (m *vfC33Mem) Seek(off int64, whence int) (int64, error) {
	switch whence {
	case io.SeekStart:
		m.pos = off
	case io.SeekCurrent:
		m.pos += off
	case io.SeekEnd:
		m.pos = int64(len(m.buf)) + off
	}
	return m.pos, nil
}

// ---- the harness's own Ogg page parser (RFC 3533)
type vfC33Page struct {
	Off     int
	Flags   byte
	Granule uint64
	Serial  uint32
	Seq     uint32
	Segs    []byte
	Payload []byte
	CRCOK   bool
}

var vfC33CRC = func() (t [256]uint32) {
	for i := range t {
		r := uint32(i) << 24
		for j := 0; j < 8; j++ {
			if r&0x80000000 != 0 {
				r = r<<1 ^ 0x04c11db7
			} else {
				r <<= 1
			}
		}
		t[i] = r
	}
	return t
}()

func vfC33ParsePages(b []byte) ([]vfC33Page, error) {
	var pages []vfC33Page
	off := 0
	for off < len(b) {
		if len(b)-off < 27 {
			return pages, fmt.Errorf("offset %d: %d trailing bytes, not a page header", off, len(b)-off)
		}
		if string(b[off:off+4]) != "OggS" {
			return pages, fmt.Errorf("offset %d: capture pattern %q", off, b[off:off+4])
		}
		if b[off+4] != 0 {
			return pages, fmt.Errorf("offset %d: stream structure version %d", off, b[off+4])
		}
		p := vfC33Page{Off: off, Flags: b[off+5], Granule: binary.LittleEndian.Uint64(b[off+6:]), Serial: binary.LittleEndian.Uint32(b[off+14:]), Seq: binary.LittleEndian.Uint32(b[off+18:])}
		crc := binary.LittleEndian.Uint32(b[off+22:])
		nseg := int(b[off+26])
		if len(b)-off < 27+nseg {
			return pages, fmt.Errorf("offset %d: segment table of %d entries truncated", off, nseg)
		}
		p.Segs = b[off+27 : off+27+nseg]
		plen := 0
		for _, s := range p.Segs {
			plen += int(s)
		}
		if len(b)-off < 27+nseg+plen {
			return pages, fmt.Errorf("offset %d: page body of %d bytes truncated", off, plen)
		}
		p.Payload = b[off+27+nseg : off+27+nseg+plen]
		var c uint32
		for i, x := range b[off : off+27+nseg+plen] {
			if i >= 22 && i < 26 {
				x = 0
			}
			c = c<<8 ^ vfC33CRC[byte(c>>24)^x]
		}
		p.CRCOK = c == crc
		pages = append(pages, p)
		off += 27 + nseg + plen
	}
	return pages, nil
}

type vfC33Expect struct {
	serial     uint32
	serialKnow bool
	channels   int
	family     int
	coupled    int
	mapping    []byte
	sampleRate uint32
	vendor     string
	comments   []vfC33Comment
	packets    [][]byte // accepted payloads
	samples    []int
}

func vfC33Opts(c vfC33Cfg) (w []oggwriter.WriterOption, t []oggwriter.TrackOption) {
	add := func(o oggwriter.WriterTrackOption) { w = append(w, o); t = append(t, o) }
	if c.SampleRate != nil {
		add(oggwriter.WithSampleRate(*c.SampleRate))
	}
	if len(c.Mapping) > 0 {
		add(oggwriter.WithChannelMapping(uint8(c.Family), 1, uint8(c.Coupled), c.Mapping))
	} else if c.Channels != 0 {
		add(oggwriter.WithChannelCount(uint16(c.Channels)))
	}
	if c.Vendor != nil {
		add(oggwriter.WithVendor(vfC33Vendor(c)))
	}
	for _, grp := range c.CommentOpts {
		var uc []oggwriter.UserComment
		for _, x := range grp {
			uc = append(uc, oggwriter.UserComment{Comment: x.K, Value: x.V})
		}
		add(oggwriter.WithUserComments(uc...))
	}
	return w, t
}

func vfC33Vendor(c vfC33Cfg) string {
	pad := make([]byte, max(c.VendorPad, 0))
	for i := range pad {
		pad[i] = 'a' + byte((i*131+i>>8)%26) // not periodic in 255 or 65025: a page repeated or skipped changes the bytes
	}
	return *c.Vendor + string(pad)
}

func (e *vfC33Expect) apply(c vfC33Cfg) {
	if c.SampleRate != nil {
		e.sampleRate = *c.SampleRate
	}
	if len(c.Mapping) > 0 {
		e.family, e.coupled, e.mapping, e.channels = c.Family, c.Coupled, c.Mapping, len(c.Mapping)
	} else if c.Channels != 0 {
		e.family, e.channels, e.coupled, e.mapping = 0, c.Channels, c.Channels-1, nil
	}
	if c.Vendor != nil {
		e.vendor = vfC33Vendor(c)
	}
	for _, grp := range c.CommentOpts {
		e.comments = append(e.comments[:len(e.comments):len(e.comments)], grp...) // never share a backing array between tracks
	}
}

func vfC33Run(v *vfT, c vfC33Case) {
	mode := c.Mode
	single := mode == "single-newwith" || mode == "single-file"
	if !single && mode != "multi" && mode != "multi-seekable" {
		v.Skip("bad mode")
	}
	if len(c.Tracks) == 0 || (single && len(c.Tracks) != 1) || len(c.Tracks) > 8 {
		v.Skip("bad track list")
	}
	for _, p := range c.Pkts {
		if p.Track < 0 || p.Len < 0 || p.Len > 200000 {
			v.Skip("bad packet")
		}
	}
	for _, t := range append([]vfC33Track{{Cfg: c.Writer}}, c.Tracks...) {
		if t.Cfg.VendorPad < 0 || t.Cfg.VendorPad > 200000 {
			v.Skip("bad vendor pad")
		}
	}
	v.Label(mode)
	cls := func(what string) string { return "C33/" + mode + "/" + what }

	// ---- 1. drive the writer
	exp := make([]*vfC33Expect, len(c.Tracks))
	var file []byte
	write := make([]func(*rtp.Packet) error, len(c.Tracks))
	var closeFn func() error
	var tmpdir string
	mem := &vfC33Mem{}
	var plain bytes.Buffer
	switch {
	case single:
		t := c.Tracks[0]
		exp[0] = &vfC33Expect{channels: t.SingleCh, family: 0, coupled: t.SingleCh - 1, sampleRate: t.SingleSR, vendor: "pion"}
		var w *oggwriter.OggWriter
		var err error
		if mode == "single-newwith" {
			w, err = oggwriter.NewWith(&plain, t.SingleSR, uint16(t.SingleCh))
		} else {
			tmpdir, err = os.MkdirTemp("", "vfc33")
			if err != nil {
				v.Skip("no temp dir")
			}
			defer os.RemoveAll(tmpdir)
			w, err = oggwriter.New(filepath.Join(tmpdir, "out.ogg"), t.SingleSR, uint16(t.SingleCh))
		}
		if err != nil {
			v.Violation(cls("constructor"), "constructor(sampleRate %d, channels %d) failed: %v", t.SingleSR, t.SingleCh, err)
		}
		write[0] = w.WriteRTP
		closeFn = w.Close
	default:
		wopts, _ := vfC33Opts(c.Writer)
		var out io.Writer = &plain
		if mode == "multi-seekable" {
			out = mem
			wopts = append(wopts, oggwriter.WithSeekableOutput(mem))
		}
		w, err := oggwriter.NewWriter(out, wopts...)
		if err != nil {
			v.Violation(cls("constructor"), "NewWriter(%+v) failed: %v", c.Writer, err)
		}
		for i, t := range c.Tracks {
			e := &vfC33Expect{channels: 2, family: 0, coupled: 1, sampleRate: 48000, vendor: "pion"}
			e.apply(c.Writer)
			e.apply(t.Cfg)
			_, topts := vfC33Opts(t.Cfg)
			if t.Serial != nil {
				topts = append(topts, oggwriter.WithSerial(*t.Serial))
				e.serial, e.serialKnow = *t.Serial, true
			}
			tr, err := w.NewTrack(t.SSRC, topts...)
			if err != nil {
				v.Violation(cls("constructor"), "NewTrack(ssrc %d, %+v) failed: %v", t.SSRC, t.Cfg, err)
			}
			exp[i] = e
			write[i] = tr.WriteRTP
		}
		closeFn = w.Close
	}
	hasEmpty, bigPkt, multiPage, lacingEdge, threePages := false, false, false, false, false
	for i, p := range c.Pkts {
		ti := p.Track % len(c.Tracks)
		payload := vfC33Payload(p)
		pkt := &rtp.Packet{Header: rtp.Header{Version: 2, PayloadType: 111, SequenceNumber: uint16(i), Timestamp: uint32(960 * i), SSRC: c.Tracks[ti].SSRC}, Payload: payload}
		err := write[ti](pkt)
		if len(payload) == 0 {
			hasEmpty = true
			if err != nil {
				v.Label("empty-payload-rejected")
			}
			continue
		}
		n, valid := vfC33Samples(payload)
		if err != nil {
			if valid {
				v.Violation(cls("rejected-valid-packet"), "WriteRTP rejected packet %d (toc %#02x, %d bytes, %d samples): %v", i, payload[0], len(payload), n, err)
			}
			v.Label("invalid-opus-rejected")
			continue
		}
		if !valid {
			v.Label("invalid-opus-accepted") // no defined sample count: nothing further can be asserted
			_ = closeFn()
			return
		}
		exp[ti].packets = append(exp[ti].packets, payload)
		exp[ti].samples = append(exp[ti].samples, n)
		if len(payload) > 255 {
			bigPkt = true
		}
		if len(payload) >= 255*255 {
			multiPage = true
		}
		if len(payload)%255 == 0 {
			lacingEdge = true
		}
		if len(payload) > 2*255*255 {
			threePages = true
		}
	}
	if err := closeFn(); err != nil {
		v.Violation(cls("close"), "Close: %v", err)
	}
	switch mode {
	case "single-newwith", "multi":
		file = plain.Bytes()
	case "multi-seekable":
		file = mem.buf
	default:
		b, err := os.ReadFile(filepath.Join(tmpdir, "out.ogg"))
		if err != nil {
			v.Skip("cannot read temp file")
		}
		file = b
	}
	if hasEmpty {
		v.Label("empty-rtp-payload")
	}
	if bigPkt {
		v.Label("packet>255")
	}
	if multiPage {
		v.Label("packet>=65025(multi-page)")
	}
	if lacingEdge {
		v.Label("packet-multiple-of-255")
	}
	for _, e := range exp {
		if len(vfC33Tags(e)) > 2*255*255 {
			threePages = true
		}
	}
	if threePages {
		v.Label("packet-spans-3+-pages")
	}
	total := 0
	for _, e := range exp {
		total += len(e.packets)
	}
	if total >= 2 {
		v.NonTrivial()
	}
	v.Label(fmt.Sprintf("tracks=%d", len(c.Tracks)))
	if !single {
		wc, own, big := 0, 0, false
		for _, g := range c.Writer.CommentOpts {
			wc += len(g)
			big = big || len(g) >= 17
		}
		for _, tr := range c.Tracks {
			n := 0
			for _, g := range tr.Cfg.CommentOpts {
				n += len(g)
			}
			if n > 0 {
				own++
			}
		}
		if wc > 0 && (len(c.Writer.CommentOpts) >= 2 || big) {
			v.Label("writer-comments-from-2+-options-or-17+")
			if own >= 2 {
				v.Label("writer-comments-from-2+-options-or-17+/and-2+-tracks-add-their-own")
			}
		}
		if own >= 2 {
			v.Label("2+-tracks-add-their-own-comments")
		}
	}

	// ---- 2. independent parse
	pages, perr := vfC33ParsePages(file)
	if perr != nil {
		v.Violation(cls("malformed-page"), "the output is not a sequence of Ogg pages: %v", perr)
	}
	for i, p := range pages {
		if !p.CRCOK {
			v.Violation(cls("crc"), "page %d (offset %d, seq %d, flags %#02x): checksum does not match", i, p.Off, p.Seq, p.Flags)
		}
	}
	// group by serial in order of first appearance
	var order []uint32
	bySerial := map[uint32][]int{}
	for i, p := range pages {
		if _, ok := bySerial[p.Serial]; !ok {
			order = append(order, p.Serial)
		}
		bySerial[p.Serial] = append(bySerial[p.Serial], i)
	}
	if len(order) != len(c.Tracks) {
		v.Violation(cls("streams"), "%d logical streams in the output, %d tracks configured", len(order), len(c.Tracks))
	}
	// the writers emit the BOS pages in track order, so the i-th serial seen belongs to track i
	type eosInfo struct {
		track int
		msg   string
	}
	var eosMissing []eosInfo
	joinedTags := map[uint32][]byte{}
	for ti, serial := range order {
		e := exp[ti]
		if e.serialKnow && e.serial != serial {
			v.Violation(cls("serial"), "track %d: serial %#x in the output, WithSerial(%#x) configured", ti, serial, e.serial)
		}
		idx := bySerial[serial]
		var packets [][]byte
		var cur []byte
		open := false
		cum, done := 0, 0 // cumulative samples / number of data packets completed
		lastGranule := uint64(0)
		for k, pi := range idx {
			p := pages[pi]
			if p.Seq != uint32(k) {
				v.Violation(cls("page-sequence"), "track %d: page %d of the stream has sequence number %d", ti, k, p.Seq)
			}
			if (p.Flags&2 != 0) != (k == 0) {
				v.Violation(cls("bos"), "track %d: page %d of the stream has flags %#02x (beginning-of-stream must be set on the first page only)", ti, k, p.Flags)
			}
			if (p.Flags&1 != 0) != open {
				v.Violation(cls("continued-flag"), "track %d: page %d has flags %#02x but the previous page left a packet open = %v", ti, k, p.Flags, open)
			}
			if p.Flags&4 != 0 && k != len(idx)-1 {
				v.Violation(cls("eos-not-last"), "track %d: page %d of %d carries end-of-stream", ti, k, len(idx))
			}
			completed := 0
			off := 0
			for _, s := range p.Segs {
				cur = append(cur, p.Payload[off:off+int(s)]...)
				off += int(s)
				open = true
				if s < 255 {
					packets = append(packets, cur)
					cur, open = nil, false
					completed++
				}
			}
			// granule
			before := len(packets) - completed
			for q := before; q < len(packets); q++ {
				if q >= 2 && q-2 < len(e.samples) {
					cum += e.samples[q-2]
					done++
				}
			}
			switch {
			case completed > 0 || len(p.Segs) == 0:
				if p.Granule != uint64(cum) {
					v.Violation(cls("granule"), "track %d: page %d (completes %d packets, %d data packets so far) has granule position %d, cumulative sample count is %d", ti, k, completed, done, int64(p.Granule), cum)
				}
				if p.Granule < lastGranule {
					v.Violation(cls("granule-decreases"), "track %d: page %d granule %d after %d", ti, k, p.Granule, lastGranule)
				}
				lastGranule = p.Granule
			default:
				// no packet completes on this page: RFC 3533 says -1; the statement is silent
				if p.Granule == ^uint64(0) {
					v.Label("granule=-1-on-open-page")
				} else {
					v.Label("granule-set-on-open-page")
				}
			}
		}
		if open {
			v.Violation(cls("packets"), "track %d: the last packet is not terminated (last lacing value 255)", ti)
		}
		// packets: OpusHead, OpusTags, data
		if len(packets) < 2 {
			v.Violation(cls("headers"), "track %d: %d packets in the stream, OpusHead and OpusTags expected first", ti, len(packets))
		}
		head, tags, data := packets[0], packets[1], packets[2:]
		if first := pages[idx[0]]; !bytes.Equal(first.Payload, head) || len(first.Segs) != 1 {
			v.Violation(cls("head"), "track %d: the first page does not hold exactly the OpusHead packet", ti)
		}
		wantHead := vfC33Head(e)
		if !bytes.Equal(head, wantHead) {
			v.Violation(cls("head"), "track %d: OpusHead %x, configured %x", ti, head, wantHead)
		}
		wantTags := vfC33Tags(e)
		if !bytes.Equal(tags, wantTags) {
			v.Violation(cls("tags"), "track %d: OpusTags packet of %d bytes, configured one has %d bytes (or different content): got %.80q want %.80q", ti, len(tags), len(wantTags), tags, wantTags)
		}
		joinedTags[serial] = tags
		if len(data) != len(e.packets) {
			v.Violation(cls("packets"), "track %d: %d data packets in the stream, %d accepted by WriteRTP", ti, len(data), len(e.packets))
		}
		for q := range data {
			if !bytes.Equal(data[q], e.packets[q]) {
				v.Violation(cls("packets"), "track %d: data packet %d has %d bytes, written %d bytes (or different content)", ti, q, len(data[q]), len(e.packets[q]))
			}
		}
		if last := pages[idx[len(idx)-1]]; last.Flags&4 == 0 {
			eosMissing = append(eosMissing, eosInfo{ti, fmt.Sprintf("track %d: last page (seq %d, flags %#02x, %d data packets written) does not carry end-of-stream", ti, last.Seq, last.Flags, len(e.packets))})
		}
	}

	// ---- 3. pion's reader over the same bytes
	if single {
		_, hdr, err := oggreader.NewWith(bytes.NewReader(file))
		if err != nil {
			v.Violation(cls("reader-newwith"), "oggreader.NewWith on the output: %v", err)
		}
		vfC33CheckHead(v, cls, 0, hdr, exp[0])
	}
	r, err := oggreader.NewWithOptions(bytes.NewReader(file))
	if err != nil {
		v.Violation(cls("reader-new"), "oggreader.NewWithOptions: %v", err)
	}
	trackOf := map[uint32]int{}
	for ti, s := range order {
		trackOf[s] = ti
	}
	for i, p := range pages {
		payload, ph, err := r.ParseNextPage()
		if err != nil {
			v.Violation(cls("reader-page"), "ParseNextPage #%d of %d: %v", i, len(pages), err)
		}
		if !bytes.Equal(payload, p.Payload) || ph.GranulePosition != p.Granule || ph.Serial != p.Serial {
			v.Violation(cls("reader-page"), "ParseNextPage #%d: payload %d bytes granule %d (serial equal: %v), the page holds %d bytes granule %d", i, len(payload), ph.GranulePosition, ph.Serial == p.Serial, len(p.Payload), p.Granule)
		}
		ti := trackOf[p.Serial]
		kind, _ := ph.HeaderType(payload)
		switch {
		case p.Seq == 0:
			if kind != oggreader.HeaderOpusID {
				v.Violation(cls("reader-head"), "HeaderType of the first page of track %d is %q", ti, kind)
			}
			h, err := oggreader.ParseOpusHead(payload)
			if err != nil {
				v.Violation(cls("reader-head"), "ParseOpusHead(track %d): %v", ti, err)
			}
			vfC33CheckHead(v, cls, ti, h, exp[ti])
		case p.Seq == 1:
			if kind != oggreader.HeaderOpusTags {
				v.Violation(cls("reader-tags"), "HeaderType of the second page of track %d is %q", ti, kind)
			}
		}
	}
	if _, _, err := r.ParseNextPage(); err == nil {
		v.Violation(cls("reader-page"), "ParseNextPage returned a page after the last one")
	}
	for ti, s := range order {
		tg, err := oggreader.ParseOpusTags(joinedTags[s])
		if err != nil {
			v.Violation(cls("reader-tags"), "ParseOpusTags(track %d, %d bytes): %v", ti, len(joinedTags[s]), err)
		}
		e := exp[ti]
		ok := tg.Vendor == e.vendor && len(tg.UserComments) == len(e.comments)
		for q := 0; ok && q < len(e.comments); q++ {
			ok = tg.UserComments[q].Comment == e.comments[q].K && tg.UserComments[q].Value == e.comments[q].V
		}
		if !ok {
			v.Violation(cls("reader-tags"), "track %d: ParseOpusTags gives vendor %.40q comments %.200v, configured vendor %.40q comments %.200v", ti, tg.Vendor, tg.UserComments, e.vendor, e.comments)
		}
	}

	// ---- 4. end of stream (last, so that the search continues behind a known finding)
	if len(eosMissing) > 0 {
		v.Violation(cls("eos-missing"), "%s", eosMissing[0].msg)
	}
}

func vfC33Head(e *vfC33Expect) []byte {
	b := []byte("OpusHead")
	b = append(b, 1, byte(e.channels))
	b = binary.LittleEndian.AppendUint16(b, 3840)
	b = binary.LittleEndian.AppendUint32(b, e.sampleRate)
	b = binary.LittleEndian.AppendUint16(b, 0)
	b = append(b, byte(e.family))
	if e.family != 0 {
		b = append(b, 1, byte(e.coupled))
		b = append(b, e.mapping...)
	}
	return b
}

func vfC33Tags(e *vfC33Expect) []byte {
	b := []byte("OpusTags")
	b = binary.LittleEndian.AppendUint32(b, uint32(len(e.vendor)))
	b = append(b, e.vendor...)
	b = binary.LittleEndian.AppendUint32(b, uint32(len(e.comments)))
	for _, c := range e.comments {
		s := c.K + "=" + c.V
		b = binary.LittleEndian.AppendUint32(b, uint32(len(s)))
		b = append(b, s...)
	}
	return b
}

func vfC33CheckHead(v *vfT, cls func(string) string, ti int, h *oggreader.OggHeader, e *vfC33Expect) {
	if h == nil {
		v.Violation(cls("reader-head"), "track %d: no header returned", ti)
	}
	wantStreams, wantCoupled, wantMap := 0, 0, ""
	if e.family != 0 {
		wantStreams, wantCoupled, wantMap = 1, e.coupled, string(e.mapping)
	}
	if h.Version != 1 || int(h.Channels) != e.channels || h.PreSkip != 3840 || h.SampleRate != e.sampleRate || h.OutputGain != 0 || int(h.ChannelMap) != e.family ||
		int(h.StreamCount) != wantStreams || int(h.CoupledCount) != wantCoupled || h.ChannelMapping != wantMap {
		v.Violation(cls("reader-head"), "track %d: reader header %+v, configured channels %d sampleRate %d family %d coupled %d mapping %x", ti, *h, e.channels, e.sampleRate, e.family, e.coupled, e.mapping)
	}
}

// ---------------------------------------------------------------------------------------------

func vfC33GenCfg(t *rapid.T, writerLevel bool) vfC33Cfg {
	var c vfC33Cfg
	if rapid.IntRange(0, 2).Draw(t, "sr?") == 0 {
		sr := rapid.OneOf(rapid.SampledFrom([]uint32{48000, 8000, 16000, 44100, 0}), rapid.Uint32()).Draw(t, "sr")
		c.SampleRate = &sr
	}
	switch rapid.IntRange(0, 7).Draw(t, "ch") {
	case 0:
		c.Channels = 1
	case 1:
		c.Channels = 2
	case 2:
		c.Family, c.Coupled, c.Mapping = 1, 0, []byte{0}
	case 3:
		c.Family, c.Coupled, c.Mapping = 1, 1, []byte{0, 1}
	case 4:
		c.Family, c.Coupled, c.Mapping = 2, 0, []byte{0}
	case 5:
		c.Family = 255
		c.Coupled = rapid.IntRange(0, 1).Draw(t, "coupled")
		c.Mapping = rapid.SliceOfN(rapid.SampledFrom([]byte{0, 255, byte(c.Coupled)}), 1, 8).Draw(t, "mapping")
	}
	if rapid.IntRange(0, 2).Draw(t, "vendor?") == 0 || (!writerLevel && rapid.Bool().Draw(t, "trackvendor?")) {
		vd := rapid.OneOf(rapid.SampledFrom([]string{"", "pion", "verif ✓"}), rapid.StringN(0, 20, 60)).Draw(t, "vendor")
		c.Vendor = &vd
		c.VendorPad = rapid.OneOf(rapid.Just(0), rapid.Just(0), rapid.Just(0), rapid.Just(0), rapid.IntRange(200, 300), rapid.SampledFrom([]int{237, 238, 239, 64990, 65010, 66000})).Draw(t, "vpad")
	}
	comment := func() vfC33Comment {
		k := rapid.OneOf(rapid.SampledFrom([]string{"ARTIST", "TITLE", "T"}), rapid.StringOfN(rapid.SampledFrom(vfC33KeyRunes), 1, 12, -1)).Draw(t, "key")
		val := rapid.OneOf(rapid.StringN(0, 30, 90), rapid.StringN(1, 8, 30), rapid.SampledFrom([]string{"", "=", "a=b", "x"})).Draw(t, "val")
		return vfC33Comment{k, val}
	}
	var nopts int
	if writerLevel {
		nopts = rapid.SampledFrom([]int{0, 1, 1, 2, 2, 2, 3, 3}).Draw(t, "ncommentopts")
	} else {
		nopts = rapid.SampledFrom([]int{0, 1, 1, 1, 1, 2}).Draw(t, "ncommentopts")
	}
	for o := 0; o < nopts; o++ {
		n := rapid.OneOf(rapid.IntRange(0, 3), rapid.IntRange(1, 2), rapid.IntRange(0, 20)).Draw(t, "ncomments")
		if !writerLevel {
			n = rapid.OneOf(rapid.IntRange(1, 2), rapid.IntRange(0, 4)).Draw(t, "ntrackcomments")
		}
		grp := []vfC33Comment{}
		for i := 0; i < n; i++ {
			grp = append(grp, comment())
		}
		c.CommentOpts = append(c.CommentOpts, grp)
	}
	return c
}

// printable ASCII 0x20..0x7D without '=' (RFC 7845 / Vorbis comment field names)
var vfC33KeyRunes = func() (r []rune) {
	for c := rune(0x20); c <= 0x7D; c++ {
		if c != '=' {
			r = append(r, c)
		}
	}
	return r
}()

func vfC33GenPkt(t *rapid.T, ntracks int) vfC33Pkt {
	var p vfC33Pkt
	p.Track = rapid.IntRange(0, ntracks-1).Draw(t, "track")
	cfg := rapid.IntRange(0, 31).Draw(t, "config")
	code := rapid.IntRange(0, 3).Draw(t, "code")
	p.TOC = byte(cfg<<3) | byte(rapid.IntRange(0, 1).Draw(t, "stereo")<<2) | byte(code)
	if code == 3 {
		fs := vfC33FrameSamples(p.TOC)
		maxM := 5760 / fs
		m := rapid.OneOf(rapid.IntRange(1, maxM), rapid.IntRange(1, maxM), rapid.SampledFrom([]int{maxM, maxM + 1, 0, 63, 48})).Draw(t, "m")
		p.M = byte(m&0x3F) | byte(rapid.IntRange(0, 3).Draw(t, "vp")<<6)
	}
	p.Len = rapid.OneOf(rapid.IntRange(1, 200), rapid.IntRange(1, 200), rapid.IntRange(1, 1300),
		rapid.SampledFrom([]int{1, 2, 254, 255, 256, 509, 510, 511, 765, 1275}),
		rapid.SampledFrom([]int{0, 64770, 65024, 65025, 65026, 65280, 70000})).Draw(t, "len")
	p.Seed = rapid.Uint32().Draw(t, "seed")
	return p
}

func vfC33Gen(v *vfT) vfC33Case {
	t := v.R
	var c vfC33Case
	c.Mode = rapid.SampledFrom([]string{"single-newwith", "single-file", "multi", "multi", "multi-seekable", "multi-seekable"}).Draw(t, "mode")
	nt := 1
	if c.Mode == "multi" || c.Mode == "multi-seekable" {
		nt = rapid.IntRange(1, 4).Draw(t, "ntracks")
		c.Writer = vfC33GenCfg(t, true)
	}
	for i := 0; i < nt; i++ {
		tr := vfC33Track{SSRC: uint32(1000 + i)}
		if nt == 1 && c.Mode[0] == 's' {
			tr.SingleCh = rapid.IntRange(1, 2).Draw(t, "ch")
			tr.SingleSR = rapid.OneOf(rapid.SampledFrom([]uint32{48000, 8000, 16000, 0}), rapid.Uint32()).Draw(t, "sr")
		} else {
			tr.Cfg = vfC33GenCfg(t, false)
			if rapid.Bool().Draw(t, "serial?") {
				s := uint32(0xA0000000) + uint32(i)*7 + rapid.Uint32Range(0, 3).Draw(t, "serial")
				tr.Serial = &s
			}
		}
		c.Tracks = append(c.Tracks, tr)
	}
	np := rapid.OneOf(rapid.IntRange(0, 8), rapid.IntRange(0, 30)).Draw(t, "npkts")
	for i := 0; i < np; i++ {
		c.Pkts = append(c.Pkts, vfC33GenPkt(t, nt))
	}
	// rare size class (about 1 case in 30): one packet that needs three or more pages (> 2*255*255 bytes),
	// as an audio packet or as an OpusTags packet with a very long vendor string
	switch huge := rapid.IntRange(0, 59).Draw(t, "huge"); {
	case huge == 0 || (huge == 1 && nt == 1 && c.Mode[0] == 's'):
		p := vfC33GenPkt(t, nt)
		p.TOC &^= 3 // code 0: one frame, always a valid packet
		p.Len = rapid.OneOf(rapid.IntRange(130051, 200000), rapid.SampledFrom([]int{130050, 130051, 130052, 195075, 195076})).Draw(t, "hugelen")
		at := rapid.IntRange(0, len(c.Pkts)).Draw(t, "hugeat")
		c.Pkts = append(c.Pkts[:at], append([]vfC33Pkt{p}, c.Pkts[at:]...)...)
	case huge == 1:
		ti := rapid.IntRange(0, nt-1).Draw(t, "hugetrack")
		if c.Tracks[ti].Cfg.Vendor == nil {
			vd := "long"
			c.Tracks[ti].Cfg.Vendor = &vd
		}
		c.Tracks[ti].Cfg.VendorPad = rapid.IntRange(130051, 199000).Draw(t, "hugevendor")
	}
	return c
}

func TestVerif_C33_Ogg(t *testing.T) {
	vfProperty(t, "C33", vfOpts{
		Rule: "writer mode in {OggWriter.NewWith, OggWriter.New(file), multi-track Writer plain, multi-track Writer with WithSeekableOutput}; 1..4 tracks with generated sample rate, channel count / channel mapping family 0,1,2,255, vendor (also > 255 bytes and > 65025 bytes) writer-level user comments through 0..3 separate WithUserComments options of 0..20 comments each and per-track vendor and comment options on most tracks ('=' in values, empty values), explicit or random serials; 0..30 Opus packets over all 32 TOC configs x code 0..3, code-3 frame counts around the 120 ms limit (incl. 0 and too many: must be refused or are skipped), sizes 1..1300 plus 254..256, 509..511, 765, 1275 and rarely 0, 64770, 65024..65026, 65280, 70000, and in about 1 case of 30 one audio packet or OpusTags vendor string of 130050..200000 bytes (three or more pages, content not periodic in 65025), interleaved over the tracks; non-trivial = at least two accepted data packets",
		Assumptions: []string{
			"RFC 3533 page layout and CRC, RFC 7845 header packets and RFC 6716 section 3.1 frame durations as implemented by the harness are the format definition",
			"granule positions are compared on pages that complete a packet (and on payload-less pages); on a page that only continues a packet the value is counted, not asserted",
			"the multi-track writer emits the BOS pages in NewTrack order, which is how the harness maps random serials to tracks",
			"an Opus packet is valid when it has >= 1 byte, code 3 packets have >= 2 bytes and 1..48 frames, and the total duration is <= 120 ms; invalid packets may be refused, valid ones must be written",
		},
	}, vfC33Gen, vfC33Run)
}
