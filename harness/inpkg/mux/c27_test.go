package mux

// C27 — transport demultiplexing is exclusive and order-preserving.
//
// Part 1 (exhaustive): every (first byte, second byte, length in {1,2,3,4,12}) datagram is
// classified by the three matchers pion registers (MatchDTLS, MatchSRTP, MatchSRTCP) and
// dispatched through a Mux with those three endpoints; oracle = RFC 7983 byte ranges.
// Part 2 (schedules): datagrams arrive before / after NewEndpoint while the pending-queue
// flush is held at the verif yield point and released at every possible position; oracle =
// each endpoint reads its class's datagrams in arrival order.

import (
	"bytes"
	"fmt"
	"runtime"
	"testing"
	"time"

	"github.com/pion/logging"
	"pgregory.net/rapid"
)

// vfC27Logger turns the mux's own Warnf calls (made while a datagram without endpoint is being
// queued) into a schedule point: whatever the code does around that log line - with or without
// the mux lock held - another goroutine can be scheduled there by the controller.
type vfC27Logger struct {
	logging.LeveledLogger
	gates *vfGates
	mux   *Mux
}

func (l *vfC27Logger) Warnf(format string, args ...any) {
	if l.gates != nil {
		l.gates.hook("mux.log.warn", l.mux, 0)
	}
}

func vfC27NewMux() *Mux {
	return &Mux{
		endpoints: make(map[*Endpoint]MatchFunc),
		log:       logging.NewDefaultLoggerFactory().NewLogger("mux-verif"),
	}
}

// vfC27Class is the RFC 7983 reference: 0 DTLS, 1 SRTP, 2 SRTCP, -1 none of the three,
// -2 RTP/RTCP range but too short to tell which (statement is silent: only exclusivity).
func vfC27Class(b []byte) int {
	if len(b) == 0 {
		return -1
	}
	switch {
	case b[0] >= 20 && b[0] <= 63:
		return 0
	case b[0] >= 128 && b[0] <= 191:
		if len(b) < 4 {
			return -2
		}
		if b[1] >= 192 && b[1] <= 223 {
			return 2
		}
		return 1
	}
	return -1
}

type vfC27ClassCase struct {
	First int `json:"first"` // all second bytes and lengths are enumerated inside the case
}

var vfC27Matchers = []MatchFunc{MatchDTLS, MatchSRTP, MatchSRTCP}
var vfC27Names = []string{"DTLS", "SRTP", "SRTCP"}

func TestVerif_C27_Classify(t *testing.T) {
	var cases []vfC27ClassCase
	for f := 0; f < 256; f++ {
		cases = append(cases, vfC27ClassCase{First: f})
	}
	total := 0
	vfEnumerate(t, "C27", vfOpts{
		Rule: "exhaustive: first byte 0..255 (one case each) x second byte 0..255 x length {1,2,3,4,12}; each datagram goes through the three matchers and through Mux.dispatch with DTLS/SRTP/SRTCP endpoints; a first byte is non-trivial when it lies in one of the RFC 7983 ranges handled here (20-63, 128-191) or borders one",
		Assumptions: []string{"RFC 7983 ranges as quoted by the property: DTLS 20-63, RTP/RTCP 128-191, RTCP iff second byte 192-223; for datagrams shorter than 4 bytes in the RTP/RTCP range only exclusivity and not-DTLS are asserted",
			"dispatch is called directly on one goroutine, as the read loop does"},
	}, cases, true, func(v *vfT, c vfC27ClassCase) {
		f := c.First
		if (f >= 19 && f <= 64) || (f >= 127 && f <= 192) {
			v.NonTrivial()
		}
		m := vfC27NewMux()
		eps := make([]*Endpoint, 3)
		for i, mf := range vfC27Matchers {
			eps[i] = m.NewEndpoint(mf)
		}
		time.Sleep(200 * time.Microsecond) // let the (empty) pending flushes finish
		rd := make([]byte, 64)
		for _, l := range []int{1, 2, 3, 4, 12} {
			for s := 0; s < 256; s++ {
				if l == 1 && s > 0 {
					break
				}
				b := make([]byte, l)
				b[0] = byte(f)
				if l > 1 {
					b[1] = byte(s)
				}
				for i := 2; i < l; i++ {
					b[i] = byte(i * 31)
				}
				total++
				want := vfC27Class(b)
				nm := 0
				hit := -1
				for i, mf := range vfC27Matchers {
					if mf(b) {
						nm++
						hit = i
					}
				}
				if nm > 1 {
					v.Violation("C27/classify/not-exclusive", "datagram %v (len %d) is matched by %d of the three endpoint matchers", b[:min(l, 2)], l, nm)
				}
				switch {
				case want >= 0 && hit != want:
					got := "none"
					if hit >= 0 {
						got = vfC27Names[hit]
					}
					v.Violation("C27/classify/wrong-class", "datagram first=%d second=%d len=%d: matched %s, RFC 7983 says %s", f, s, l, got, vfC27Names[want])
				case want == -1 && hit != -1:
					v.Violation("C27/classify/wrong-class", "datagram first=%d len=%d matched %s, RFC 7983 says none of DTLS/SRTP/SRTCP", f, l, vfC27Names[hit])
				case want == -2 && hit == 0:
					v.Violation("C27/classify/wrong-class", "short datagram first=%d len=%d matched DTLS", f, l)
				}
				// through the real dispatcher
				if err := m.dispatch(b); err != nil {
					v.Violation("C27/dispatch/error", "dispatch(%v): %v", b, err)
				}
				got := 0
				for i, e := range eps {
					if n := e.buffer.Count(); n > 0 {
						got++
						k, err := e.Read(rd)
						if err != nil || !bytes.Equal(rd[:k], b) || n != 1 {
							v.Violation("C27/dispatch/corrupt", "endpoint %s holds %d packets, read %v err=%v, sent %v", vfC27Names[i], n, rd[:k], err, b)
						}
						if want >= 0 && i != want {
							v.Violation("C27/dispatch/wrong-endpoint", "datagram first=%d second=%d len=%d delivered to %s, RFC 7983 says %s", f, s, l, vfC27Names[i], vfC27Names[want])
						}
						if want == -1 {
							v.Violation("C27/dispatch/wrong-endpoint", "datagram first=%d len=%d delivered to %s, RFC 7983 says none", f, l, vfC27Names[i])
						}
					}
				}
				if got > 1 {
					v.Violation("C27/dispatch/not-exclusive", "datagram first=%d second=%d len=%d reached %d endpoints", f, s, l, got)
				}
				if want >= 0 && got != 1 {
					v.Violation("C27/dispatch/lost", "datagram first=%d second=%d len=%d (class %s) reached no endpoint", f, s, l, vfC27Names[want])
				}
				m.lock.Lock()
				m.pendingPackets = nil
				m.lock.Unlock()
			}
		}
	})
	vfExtra(t, "C27", "datagrams_classified", total)
}

// ---- ordering ----

type vfC27Op struct {
	Kind  string `json:"k"`           // pkt | new | release | close (drain and close the class's endpoint; a later "new" creates another one)
	Class int    `json:"c,omitempty"` // 0 DTLS 1 SRTP 2 SRTCP
}

type vfC27OrderCase struct {
	Ops []vfC27Op `json:"ops"`
}

func vfC27Packet(class, seq int) []byte {
	b := make([]byte, 12)
	switch class {
	case 0:
		b[0] = 22
	case 1:
		b[0] = 128
		b[1] = 96
	case 2:
		b[0] = 129
		b[1] = 200
	}
	b[4] = byte(seq >> 8)
	b[5] = byte(seq)
	b[6] = byte(class)
	return b
}

func vfC27OrderRun(v *vfT, c vfC27OrderCase) {
	m := vfC27NewMux()
	gates := vfGatesInstall([]string{"mux.pending.entry", "mux.log.warn"}, m)
	defer gates.Uninstall()
	m.log = &vfC27Logger{LeveledLogger: m.log, gates: gates, mux: m}
	actors := vfNewActors()
	eps := map[int]*Endpoint{}
	var epsMu = make(chan struct{}, 1)
	epsMu <- struct{}{}
	sent := map[int][][]byte{}
	seq := 0
	pendingAtNew := false
	lateWhileParked := false
	newDuringQueueing := false
	newStarted := map[int]bool{}
	gotAll := map[int][][]byte{} // per class: everything read from its successive endpoints, in read order
	hadEndpoint := map[int]bool{}
	reopened := false
	rd := make([]byte, 64)
	drain := func(cl int, e *Endpoint) {
		for e.buffer.Count() > 0 {
			n, err := e.Read(rd)
			if err != nil {
				v.Violation("C27/order/read", "endpoint read: %v", err)
			}
			gotAll[cl] = append(gotAll[cl], append([]byte{}, rd[:n]...))
		}
	}
	dispatching := "" // name of the dispatch actor in flight (the read loop is ONE goroutine)
	finishDispatch := func() {
		if dispatching == "" {
			return
		}
		deadline := time.Now().Add(20 * time.Second)
		for !actors.Done(dispatching) {
			if !gates.ReleasePoint("mux.log.warn") {
				// blocked on the mux lock held by a parked NewEndpoint? release that one too
				gates.ReleasePoint("mux.pending.entry")
			}
			vfSettle(gates, actors)
			if time.Now().After(deadline) {
				v.Violation("C27/order/dispatch-blocked", "dispatch did not return within 20s\n%s", vfPionStacks())
			}
		}
		dispatching = ""
	}
	for _, op := range c.Ops {
		switch op.Kind {
		case "pkt":
			finishDispatch() // one datagram at a time, as in the read loop
			seq++
			b := vfC27Packet(op.Class, seq)
			m.lock.Lock()
			pend := len(m.pendingPackets)
			m.lock.Unlock()
			if pend >= maxPendingPackets {
				continue // the queue cap is outside the statement; never generate an overflow
			}
			for _, p := range gates.Parked() {
				if p == "mux.pending.entry" && newStarted[op.Class] {
					lateWhileParked = true
				}
			}
			name := fmt.Sprintf("pkt#%d", seq)
			dispatching = name
			actors.Go(name, func() {
				if err := m.dispatch(b); err != nil {
					panic(fmt.Sprintf("dispatch: %v", err))
				}
			})
			vfSettle(gates, actors)
			sent[op.Class] = append(sent[op.Class], b)
		case "new":
			if newStarted[op.Class] {
				continue
			}
			newStarted[op.Class] = true
			if hadEndpoint[op.Class] {
				reopened = true
			}
			hadEndpoint[op.Class] = true
			if dispatching != "" && !actors.Done(dispatching) {
				newDuringQueueing = true
			}
			cl := op.Class
			actors.Go(fmt.Sprintf("new#%d", cl), func() {
				e := m.NewEndpoint(vfC27Matchers[cl])
				<-epsMu
				eps[cl] = e
				epsMu <- struct{}{}
			})
			vfSettle(gates, actors)
		case "close":
			finishDispatch()
			<-epsMu
			e := eps[op.Class]
			delete(eps, op.Class)
			epsMu <- struct{}{}
			if e == nil {
				continue // no endpoint of this class, or its NewEndpoint is still parked
			}
			// nothing is in flight (one dispatch at a time, and it has returned): what the endpoint
			// holds is read first, so closing it loses nothing
			drain(op.Class, e)
			if err := e.Close(); err != nil {
				v.Violation("C27/order/close", "endpoint close: %v", err)
			}
			newStarted[op.Class] = false
		case "release":
			if len(gates.Parked()) > 0 {
				gates.Release(0)
				vfSettle(gates, actors)
			}
		}
	}
	finishDispatch()
	gates.OpenAll()
	if ok, dump := vfWaitActors(actors, 20*time.Second); !ok {
		v.Violation("C27/order/stuck", "NewEndpoint / dispatch did not return: %s", dump)
	}
	vfSettle(gates, actors)
	time.Sleep(300 * time.Microsecond)
	_ = pendingAtNew
	if lateWhileParked {
		v.Label("arrival-while-flush-parked")
	}
	if newDuringQueueing {
		v.Label("NewEndpoint-while-a-datagram-is-being-queued")
	}
	if lateWhileParked || newDuringQueueing {
		v.NonTrivial()
	}
	r := gates.Reached()
	if r["mux.pending.entry"] == 0 {
		v.Label("gate-not-reached:mux.pending.entry")
	}
	if r["mux.log.warn"] > 0 {
		v.Label("reached:mux.log.warn")
	}
	if reopened {
		v.Label("class-reopened-after-close")
		v.NonTrivial()
	}
	// a class whose endpoint was closed gets a last endpoint, so that what arrived since is collected
	for cl := range hadEndpoint {
		if eps[cl] == nil {
			eps[cl] = m.NewEndpoint(vfC27Matchers[cl])
		}
	}
	for cl, e := range eps {
		drain(cl, e)
		got := gotAll[cl]
		want := sent[cl]
		if len(got) != len(want) {
			v.Violation("C27/order/count", "endpoint %s read %d datagrams, %d of its class arrived: got %s want %s", vfC27Names[cl], len(got), len(want), vfC27Seqs(got), vfC27Seqs(want))
		}
		for i := range got {
			if !bytes.Equal(got[i], want[i]) {
				v.Violation("C27/order/reordered", "endpoint %s read its datagrams in order %s, they arrived in order %s", vfC27Names[cl], vfC27Seqs(got), vfC27Seqs(want))
			}
		}
	}
}

func vfC27Seqs(ps [][]byte) string {
	s := "["
	for i, p := range ps {
		if i > 0 {
			s += " "
		}
		s += fmt.Sprint(int(p[4])<<8 | int(p[5]))
	}
	return s + "]"
}

var vfC27OrderOpts = vfOpts{
	Rule: "op sequences over {datagram of class DTLS/SRTP/SRTCP arrives, NewEndpoint(class), release the parked pending-queue flush, drain and close the class's endpoint (a later NewEndpoint of the class must not see anything twice)}; dispatch runs on one goroutine as in the read loop; the mux's own log call inside the no-endpoint branch of dispatch is a second schedule point (mux.log.warn); non-trivial = a datagram arrived while NewEndpoint was parked before registering, or NewEndpoint was started while a datagram was in the middle of being queued, or a class got a second endpoint after its first was closed",
	Assumptions: []string{"at most maxPendingPackets (15) datagrams are pending at any time (the queue cap is outside the statement)",
		"interleaving explored at the verif yield point mux.pending.entry; if the tree no longer reaches it the schedule degrades to the natural one (label gate-not-reached)"},
}

func TestVerif_C27_OrderEnum(t *testing.T) {
	// exhaustive for one class: k datagrams before NewEndpoint, j after, flush released after r of the j
	var cases []vfC27OrderCase
	for cl := 0; cl < 3; cl++ {
		for k := 0; k <= 4; k++ {
			for j := 0; j <= 4; j++ {
				for r := 0; r <= j; r++ {
					var c vfC27OrderCase
					for i := 0; i < k; i++ {
						c.Ops = append(c.Ops, vfC27Op{"pkt", cl})
					}
					c.Ops = append(c.Ops, vfC27Op{"new", cl})
					for i := 0; i < j; i++ {
						if i == r {
							c.Ops = append(c.Ops, vfC27Op{"release", 0})
						}
						c.Ops = append(c.Ops, vfC27Op{"pkt", cl})
					}
					cases = append(cases, c)
				}
			}
		}
	}
	vfEnumerate(t, "C27", vfC27OrderOpts, cases, true, vfC27OrderRun)
}

func TestVerif_C27_OrderRandom(t *testing.T) {
	vfProperty(t, "C27", vfC27OrderOpts, func(v *vfT) vfC27OrderCase {
		var c vfC27OrderCase
		n := rapid.IntRange(2, 24).Draw(v.R, "n")
		for i := 0; i < n; i++ {
			k := rapid.SampledFrom([]string{"pkt", "pkt", "pkt", "pkt", "new", "new", "release", "close"}).Draw(v.R, "kind")
			c.Ops = append(c.Ops, vfC27Op{k, rapid.IntRange(0, 2).Draw(v.R, "class")})
		}
		return c
	}, vfC27OrderRun)
}

// ---- NewEndpoint against the read loop, natural schedules ----

type vfC27ConcCase struct {
	Class  int `json:"class"`
	K      int `json:"k"`      // datagrams of the class queued before NewEndpoint starts
	J      int `json:"j"`      // datagrams dispatched by the read-loop goroutine while NewEndpoint runs
	Size   int `json:"size"`   // datagram size in bytes
	Yields int `json:"yields"` // Gosched calls of the read-loop goroutine before its first dispatch
	Reps   int `json:"reps"`
}

// vfC27ConcRun: K early datagrams are pending; NewEndpoint and the (single) read-loop goroutine
// dispatching J more datagrams of the class then run concurrently, uncontrolled.  Whatever the
// interleaving, the endpoint must end up with all K+J datagrams, each once, in arrival order.
func vfC27ConcRun(v *vfT, c vfC27ConcCase) {
	for rep := 0; rep < c.Reps; rep++ {
		m := vfC27NewMux()
		var want [][]byte
		mk := func(seq int) []byte {
			b := make([]byte, c.Size)
			copy(b, vfC27Packet(c.Class, seq))
			for i := 12; i < len(b); i++ {
				b[i] = byte(seq*31 + i)
			}
			return b
		}
		for i := 0; i < c.K; i++ {
			b := mk(i + 1)
			if err := m.dispatch(b); err != nil {
				v.Violation("C27/conc/dispatch", "dispatch: %v", err)
			}
			want = append(want, b)
		}
		var e *Endpoint
		done := make(chan struct{})
		go func() {
			defer close(done)
			e = m.NewEndpoint(vfC27Matchers[c.Class])
		}()
		for y := 0; y < c.Yields; y++ {
			runtime.Gosched()
		}
		for i := 0; i < c.J; i++ {
			b := mk(c.K + i + 1)
			if err := m.dispatch(b); err != nil {
				v.Violation("C27/conc/dispatch", "dispatch: %v", err)
			}
			want = append(want, b)
		}
		select {
		case <-done:
		case <-time.After(20 * time.Second):
			v.Violation("C27/conc/stuck", "NewEndpoint did not return within 20s\n%s", vfPionStacks())
		}
		var got [][]byte
		rd := make([]byte, c.Size+16)
		for e.buffer.Count() > 0 {
			n, err := e.Read(rd)
			if err != nil {
				v.Violation("C27/conc/read", "endpoint read: %v", err)
			}
			got = append(got, append([]byte{}, rd[:n]...))
		}
		m.lock.Lock()
		stranded := len(m.pendingPackets)
		m.lock.Unlock()
		if len(got) != len(want) {
			v.Violation("C27/conc/count", "endpoint %s got %d datagrams, %d of its class arrived (%d queued before NewEndpoint, %d during it); %d still in the pending queue; got %s want %s",
				vfC27Names[c.Class], len(got), len(want), c.K, c.J, stranded, vfC27Seqs(got), vfC27Seqs(want))
		}
		for i := range got {
			if !bytes.Equal(got[i], want[i]) {
				v.Violation("C27/conc/reordered", "endpoint %s read %s, arrival order %s", vfC27Names[c.Class], vfC27Seqs(got), vfC27Seqs(want))
			}
		}
		_ = e.Close()
	}
	if c.K > 0 && c.J > 0 {
		v.NonTrivial()
	}
}

func TestVerif_C27_Concurrent(t *testing.T) {
	vfProperty(t, "C27", vfOpts{
		Rule:        "natural schedules: K datagrams of a class pending, then NewEndpoint runs concurrently with the single read-loop goroutine dispatching J more (K+J <= 15, sizes 12..1400 bytes, 10 repetitions per case); the endpoint must hold all K+J, once each, in arrival order; non-trivial = K>0 and J>0",
		Assumptions: []string{"the interleaving is whatever the scheduler produces: a window of a few instructions is found only by luck, windows that contain buffer writes are found readily"},
	}, func(v *vfT) vfC27ConcCase {
		k := rapid.IntRange(0, 12).Draw(v.R, "k")
		return vfC27ConcCase{
			Class:  rapid.IntRange(0, 2).Draw(v.R, "class"),
			K:      k,
			J:      rapid.IntRange(0, 15-k).Draw(v.R, "j"),
			Size:   rapid.SampledFrom([]int{12, 100, 1200, 1400}).Draw(v.R, "size"),
			Yields: rapid.SampledFrom([]int{0, 0, 1, 3, 10}).Draw(v.R, "yields"),
			Reps:   10,
		}
	}, vfC27ConcRun)
}
