package samplebuilder

// C31 — SampleBuilder emits only well-formed samples, in order, each once.
//
// A case is a well-formed sender stream (frames of 1..6 packets: first packet carries the
// partition-head flag, last the tail flag/marker; one RTP timestamp per frame, strictly
// advancing; consecutive sequence numbers) plus an explicit delivery list (indices into the
// stream: a missing index is a loss, a repeated index a duplicate) and a Pop schedule.
// Every payload is self-describing: after the depacketizer's own descriptor it carries one
// record  uid(4) len(1) data(len)  so a sample decodes back to the packets that formed it.
// Two depacketizers: a fake one (flag byte + record) and pion/rtp's real VP8 one (VP8
// payload descriptor + record).
//
// Safety (every case): each sample's Data is byte-for-byte the concatenated depacketized
// payloads of a run of packets that were pushed before, consecutive in sequence number,
// with one timestamp, starting at a partition head; runs of successive samples strictly
// advance (so no packet is in two samples).  The documented release handler ("about to
// remove the reference") is called at most once per pushed *rtp.Packet.
//
// Completeness (only when: the delivery is a permutation of the stream — no loss, no
// duplicates —, WithMaxTimeDelay is off, and no packet is overtaken by a packet
// maxLate-(maxFrameLen+1) or more ahead of it): after Flush + draining, every frame was
// emitted as exactly its packets.

import (
	"bytes"
	"encoding/binary"
	"fmt"
	"os"
	"sort"
	"testing"
	"time"

	"github.com/pion/rtp"
	"github.com/pion/rtp/codecs"
	"pgregory.net/rapid"
)

type vfC31Frame struct {
	N      int    `json:"n"`       // packets in the frame (1..6)
	TSStep uint32 `json:"ts_step"` // timestamp advance from the previous frame (>=1)
}

type vfC31Case struct {
	Start    uint16       `json:"start"`
	TS0      uint32       `json:"ts0"`
	Frames   []vfC31Frame `json:"frames"`
	MaxLate  uint16       `json:"max_late"`
	DelayMs  int          `json:"delay_ms"` // WithMaxTimeDelay (0 = option not used); sample rate 90000
	Depack   int          `json:"depack"`   // 0 fake self-describing depacketizer, 1 real VP8 (1-byte descriptor), 2 real VP8 (X + 7-bit picture id), 3 fake without tail detection
	Delivery []int        `json:"delivery"` // stream indices in push order
	Pops     []int        `json:"pops"`     // Pops[i mod len] = number of Pop calls after the i-th push
}

const (
	vfC31KnownStartClass = "C31/incomplete/frame-starts-before-first-delivered-packet"
	vfC31KnownStaleClass = "C31/old-packet-accepted-after-everything-consumed"
)

type vfC31Fake struct{ noTail bool }

func (vfC31Fake) Unmarshal(p []byte) ([]byte, error) {
	if len(p) < 1 {
		return nil, fmt.Errorf("vfC31: short payload")
	}
	return p[1:], nil
}
func (vfC31Fake) IsPartitionHead(p []byte) bool { return len(p) > 0 && p[0]&1 != 0 }
func (f vfC31Fake) IsPartitionTail(_ bool, p []byte) bool {
	return !f.noTail && len(p) > 0 && p[0]&2 != 0
}

type vfC31Pkt struct {
	idx         int // position in the stream
	frame       int
	seq         uint16
	ts          uint32
	head, tail  bool
	payload     []byte // RTP payload
	depacketize []byte // what the depacketizer returns for it (the record)
}

func vfC31Record(idx int) []byte {
	n := 1 + (idx*7)%23
	rec := make([]byte, 5+n)
	binary.BigEndian.PutUint32(rec, uint32(idx))
	rec[4] = byte(n)
	for i := 0; i < n; i++ {
		rec[5+i] = byte(idx*131 + i*17 + 3)
	}
	return rec
}

func vfC31Stream(c vfC31Case) (pkts []vfC31Pkt, frames [][2]int, maxFrameLen int) {
	ts := c.TS0
	idx := 0
	for fi, f := range c.Frames {
		n := f.N
		if n < 1 {
			n = 1
		}
		if n > 6 {
			n = 6
		}
		if n > maxFrameLen {
			maxFrameLen = n
		}
		if fi > 0 {
			step := f.TSStep
			if step == 0 {
				step = 1
			}
			ts += step
		}
		frames = append(frames, [2]int{idx, idx + n - 1})
		for j := 0; j < n; j++ {
			p := vfC31Pkt{idx: idx, frame: fi, seq: c.Start + uint16(idx), ts: ts, head: j == 0, tail: j == n-1}
			p.depacketize = vfC31Record(idx)
			switch c.Depack {
			case 0, 3:
				var fl byte
				if p.head {
					fl |= 1
				}
				if p.tail {
					fl |= 2
				}
				p.payload = append([]byte{fl}, p.depacketize...)
			case 1:
				d := byte(0)
				if p.head {
					d = 0x10
				}
				p.payload = append([]byte{d}, p.depacketize...)
			default:
				d := byte(0x80)
				if p.head {
					d |= 0x10
				}
				p.payload = append([]byte{d, 0x80, byte(fi & 0x7f)}, p.depacketize...)
			}
			pkts = append(pkts, p)
			idx++
		}
	}
	return pkts, frames, maxFrameLen
}

func vfC31Run(v *vfT, c vfC31Case) {
	pkts, frames, maxFrameLen := vfC31Stream(c)
	if len(pkts) == 0 || len(pkts) > 20000 {
		v.Skip("empty or oversized stream")
	}
	var dep rtp.Depacketizer = vfC31Fake{}
	switch c.Depack {
	case 0:
		v.Label("depack:fake")
	case 3:
		// a depacketizer that cannot tell partition tails ("should return false if the result could
		// not be determined"): frames are delimited by the timestamp change only; the end of the
		// last frame is then unknowable, so completeness is not asserted for this variant
		dep = vfC31Fake{noTail: true}
		v.Label("depack:fake-without-tail-detection")
	default:
		dep = &codecs.VP8Packet{}
		v.Label("depack:vp8")
	}
	released := map[*rtp.Packet]int{}
	pushedPtr := map[*rtp.Packet]int{}
	var releaseErr string
	opts := []Option{WithPacketReleaseHandler(func(p *rtp.Packet) {
		if _, ok := pushedPtr[p]; !ok && releaseErr == "" {
			releaseErr = "unknown"
		}
		released[p]++
		if released[p] > 1 && releaseErr == "" {
			releaseErr = fmt.Sprintf("twice:%d", pushedPtr[p])
		}
	})}
	if c.DelayMs > 0 {
		opts = append(opts, WithMaxTimeDelay(time.Duration(c.DelayMs)*time.Millisecond))
		v.Label("with-max-time-delay")
	}
	maxLate := c.MaxLate
	if maxLate < 2 {
		maxLate = 2
	}
	sb := New(maxLate, dep, 90000, opts...)

	// ---- classify the delivery (preconditions are computed here, not trusted from the generator) ----
	count := make([]int, len(pkts))
	maxSeen := -1
	maxOvertake := 0 // max over packets q of (largest index delivered before q's first delivery) - q
	lateDup, nearDup := 0, 0
	for _, raw := range c.Delivery {
		q := ((raw % len(pkts)) + len(pkts)) % len(pkts)
		if count[q] == 0 {
			if maxSeen > q && maxSeen-q > maxOvertake {
				maxOvertake = maxSeen - q
			}
		} else if maxSeen-q >= int(maxLate)-(maxFrameLen+1) {
			lateDup++
		} else {
			nearDup++
		}
		count[q]++
		if q > maxSeen {
			maxSeen = q
		}
	}
	losses := 0
	for _, n := range count {
		if n == 0 {
			losses++
		}
	}
	permutation := losses == 0 && lateDup == 0 && nearDup == 0
	withinMaxLate := maxOvertake < int(maxLate)-(maxFrameLen+1)
	firstDelivered := 0
	if len(c.Delivery) > 0 {
		firstDelivered = ((c.Delivery[0] % len(pkts)) + len(pkts)) % len(pkts)
	}
	firstIsStart := firstDelivered == 0
	// WithMaxTimeDelay does not void completeness when the limit is comfortably larger than the whole
	// stream (more than twice its wrap-aware timestamp extent): nothing in it can be "too old".
	streamTicks := uint64(pkts[len(pkts)-1].ts - c.TS0) // total advance (< 2^31 by construction of the generator)
	delayTicks := uint64(0)
	if c.DelayMs > 0 && c.DelayMs <= 40_000_000 {
		delayTicks = uint64(uint32(int64(90000) * int64(c.DelayMs) / 1000)) // as WithMaxTimeDelay computes it
	}
	generousDelay := c.DelayMs > 0 && streamTicks < 1<<31 && delayTicks > 2*streamTicks+90000
	complete := permutation && withinMaxLate && (c.DelayMs == 0 || generousDelay) && c.Depack != 3
	if generousDelay {
		v.Label("time-delay:larger-than-stream")
	}
	switch {
	case losses > 0:
		v.Label("loss")
	default:
		v.Label("loss-free")
	}
	if lateDup > 0 {
		v.Label("dup:late")
	}
	if nearDup > 0 {
		v.Label("dup:near")
	}
	switch {
	case maxOvertake == 0:
		v.Label("reorder:none")
	case withinMaxLate:
		v.Label("reorder:within-maxLate")
	default:
		v.Label("reorder:beyond-maxLate")
	}
	if int(c.Start)+len(pkts) > 65536 {
		v.Label("wrap:seqnum")
	}
	if uint64(c.TS0)+uint64(pkts[len(pkts)-1].ts-c.TS0) > 0xFFFFFFFF {
		v.Label("wrap:timestamp")
	}
	if complete {
		v.Label("completeness-asserted")
		if !firstIsStart {
			v.Label("completeness-asserted:first-delivered-is-not-stream-start")
		}
	}

	// ---- drive the builder ----
	pushed := make([]bool, len(pkts))
	stale := make([]bool, len(pkts)) // pushed while older than the newest packet and with everything consumed
	newest := -1
	type run struct{ first, last int }
	var emitted []run
	lastEnd := -1
	checkSample := func(data []byte, when string) {
		if len(data) < 5 {
			v.Violation("C31/malformed-sample", "%s: sample of %d bytes is not a concatenation of depacketized payloads", when, len(data))
		}
		first := int(binary.BigEndian.Uint32(data))
		if first < 0 || first >= len(pkts) {
			v.Violation("C31/malformed-sample", "%s: sample does not start with a pushed packet's payload (uid %d)", when, first)
		}
		// walk the records to find the run
		var want []byte
		last := first - 1
		off := 0
		for off < len(data) {
			if off+5 > len(data) {
				v.Violation("C31/malformed-sample", "%s: trailing garbage in sample starting at packet %d", when, first)
			}
			id := int(binary.BigEndian.Uint32(data[off:]))
			n := int(data[off+4])
			if off+5+n > len(data) {
				v.Violation("C31/malformed-sample", "%s: truncated record in sample starting at packet %d", when, first)
			}
			if id != last+1 || id >= len(pkts) {
				v.Violation("C31/not-contiguous", "%s: sample starting at packet %d (seq %d) continues with packet %d after %d", when, first, pkts[first].seq, id, last)
			}
			if !pushed[id] {
				v.Violation("C31/unpushed-packet", "%s: sample contains packet %d (seq %d) which was never pushed", when, id, pkts[id].seq)
			}
			if pkts[id].ts != pkts[first].ts {
				v.Violation("C31/mixed-timestamps", "%s: sample starting at packet %d (ts %d) contains packet %d with ts %d", when, first, pkts[first].ts, id, pkts[id].ts)
			}
			want = append(want, pkts[id].depacketize...)
			last = id
			off += 5 + n
		}
		if !bytes.Equal(want, data) {
			v.Violation("C31/data-mismatch", "%s: sample for packets %d..%d is not the concatenation of their depacketized payloads", when, first, last)
		}
		if !pkts[first].head {
			v.Violation("C31/not-partition-head", "%s: sample starts at packet %d (seq %d) which is not a partition head", when, first, pkts[first].seq)
		}
		if first <= lastEnd {
			if stale[first] {
				v.Violation(vfC31KnownStaleClass, "%s: sample for packets %d..%d emitted after a sample ending at packet %d (emitted so far: %v); packet %d was pushed when it was older than the newest pushed packet and the builder had consumed everything it held",
					when, first, last, lastEnd, emitted, first)
			}
			for _, r := range emitted {
				if first <= r.last && last >= r.first {
					class := "C31/packet-in-two-samples"
					if count[first] > 1 {
						class += "/duplicate-delivered"
					}
					v.Violation(class, "%s: sample for packets %d..%d overlaps the earlier sample %d..%d", when, first, last, r.first, r.last)
				}
			}
			v.Violation("C31/out-of-order", "%s: sample for packets %d..%d emitted after a sample ending at packet %d", when, first, last, lastEnd)
		}
		emitted = append(emitted, run{first, last})
		lastEnd = last
	}
	checkRelease := func(when string) {
		if releaseErr == "" {
			return
		}
		if releaseErr == "unknown" {
			v.Violation("C31/release-unknown", "%s: the release handler was given a packet that was never pushed", when)
		}
		v.Violation("C31/release-twice", "%s: the release handler was called twice for one pushed packet (stream index %s)", when, releaseErr[len("twice:"):])
	}
	popBudget := 2*len(c.Delivery) + 2*len(pkts) + 16
	for i, raw := range c.Delivery {
		q := ((raw % len(pkts)) + len(pkts)) % len(pkts)
		p := pkts[q]
		if q < newest && sb.active.empty() && sb.lastSampleTimestamp != nil {
			// In-package view: the builder has built at least one sample and holds no unconsumed
			// packet; the packet being pushed is older than the newest one pushed so far.
			if v.col.known[vfC31KnownStaleClass] && os.Getenv("VERIF_REPLAY") == "" { // (a replay must show the finding itself)
				// known finding: in that state the builder no longer knows what it consumed, takes the
				// old packet (duplicate or late original) for new data and may emit it again / out of
				// order.  The input class is excluded so that the rest of the space is still searched.
				v.Label("excluded-known:old-packet-while-everything-consumed")
				continue
			}
			stale[q] = true
		}
		if q > newest {
			newest = q
		}
		rp := &rtp.Packet{
			Header:  rtp.Header{Version: 2, Marker: p.tail, PayloadType: 96, SequenceNumber: p.seq, Timestamp: p.ts, SSRC: 0x31},
			Payload: append([]byte{}, p.payload...),
		}
		pushedPtr[rp] = q
		pushed[q] = true
		t0 := time.Now()
		sb.Push(rp)
		if d := time.Since(t0); d > 300*time.Millisecond {
			v.Label("observed:slow-push>300ms(not asserted)")
			v.Logf("SLOW PUSH %v at #%d in case %s", d, i, v.caseJSON)
		}
		checkRelease(fmt.Sprintf("push #%d (packet %d)", i, q))
		npop := 0
		if len(c.Pops) > 0 {
			npop = c.Pops[i%len(c.Pops)]
		}
		for k := 0; k < npop; k++ {
			s := sb.Pop()
			checkRelease(fmt.Sprintf("pop after push #%d", i))
			if s == nil {
				break
			}
			checkSample(s.Data, fmt.Sprintf("pop after push #%d (packet %d)", i, q))
		}
	}
	// Guard against a stall that is outside this property's statement (reported separately):
	// when purgeBuffers discards a 1- or 2-packet run that does not start at a partition head
	// and that run is the last data in the buffer, filled.head is advanced past filled.tail,
	// `filled` becomes a 65535-slot range, and a later Flush iterates 65535 times; with
	// WithMaxTimeDelay every iteration scans the whole ring (tooOld), i.e. ~4e9 steps.  With
	// the option on, Flush is therefore only called when the buffer holds nothing but complete
	// frames (every forced build succeeds, nothing is discarded); otherwise the case ends
	// with the samples emitted so far (only the safety clauses apply to these cases anyway).
	span := int(uint16(sb.filled.tail - sb.filled.head))
	if span > len(pkts)+1 {
		v.Label("observed:filled-range-overshoot(not asserted)")
	}
	flush := true
	if c.DelayMs > 0 && span > 0 {
		clean := span <= len(pkts)+1
		// packets before active.head are consumed leftovers: Flush just releases them one by one
		start := sb.filled.head
		switch {
		case !sb.active.empty():
			start = sb.active.head
			clean = clean && sb.filled.compare(start) == slCompareInside
		case sb.lastSampleTimestamp != nil:
			clean = false // everything consumed: leftovers would be re-read as a run without a head
		}
		for i := start; clean && i != sb.filled.tail; i++ {
			clean = sb.buffer[i] != nil
		}
		if clean {
			first, last := sb.buffer[start], sb.buffer[sb.filled.tail-1]
			// ... and the last frame must be a single packet: after the last frame of >=2 packets is
			// built its not-yet-released tail packet is taken for a run without a head, which is
			// the overshoot described above (this happens on perfectly clean streams too)
			clean = dep.IsPartitionHead(first.Payload) && dep.IsPartitionTail(last.Marker, last.Payload) && dep.IsPartitionHead(last.Payload)
		}
		if !clean {
			flush = false
			v.Label("time-delay:flush-skipped(stall guard)")
			if complete {
				// without Flush the tail of the stream cannot be expected: completeness not asserted
				complete = false
				v.Label("completeness-not-asserted:flush-skipped(stall guard)")
			}
		}
	}
	if flush {
		t0 := time.Now()
		sb.Flush()
		if d := time.Since(t0); d > 300*time.Millisecond {
			v.Label("observed:slow-flush>300ms(not asserted)")
			v.Logf("SLOW FLUSH %v in case %s", d, v.caseJSON)
		}
		checkRelease("flush")
	}
	for {
		s := sb.Pop()
		checkRelease("drain")
		if s == nil {
			break
		}
		checkSample(s.Data, "drain after Flush")
		if popBudget--; popBudget < 0 {
			v.Violation("C31/endless-samples", "Pop keeps returning samples after Flush (more than twice the number of pushes)")
		}
	}

	// ---- completeness ----
	if complete && generousDelay {
		v.Label("completeness-asserted:with-time-delay")
	}
	if complete {
		got := map[int]int{} // first index -> last index
		for _, r := range emitted {
			got[r.first] = r.last
		}
		for fi, f := range frames {
			last, ok := got[f[0]]
			if !ok || last != f[1] {
				class := "C31/incomplete"
				switch {
				case f[0] < firstDelivered:
					// the frame starts before the very first packet the builder ever saw
					class += "/frame-starts-before-first-delivered-packet"
				case maxOvertake == 0:
					class += "/in-order-delivery"
				default:
					class += "/reordered-within-maxLate"
				}
				v.Violation(class, "frame %d (packets %d..%d, seq %d..%d) was not emitted although the stream is loss-free, duplicate-free and reordered by at most %d (< maxLate %d - (maxFrameLen %d + 1)); emitted runs: %v",
					fi, f[0], f[1], pkts[f[0]].seq, pkts[f[1]].seq, maxOvertake, maxLate, maxFrameLen, emitted)
			}
		}
	}
	if len(frames) >= 3 && len(emitted) > 0 && (maxOvertake > 0 || losses > 0 || lateDup+nearDup > 0) {
		v.NonTrivial()
	}
	if len(emitted) == 0 {
		v.Label("no-sample-emitted")
	}
}

// vfC31GenWrapDelay draws loss-free, duplicate-free streams whose RTP timestamps cross
// 0xFFFFFFFF -> 0 somewhere inside the stream, with WithMaxTimeDelay set well above the whole
// stream's duration and with small reorderings (adjacent swaps) placed exactly at the wrap.  By
// the statement nothing is too old here, so completeness is asserted.  The last frame is a
// single packet so that the final Flush is not subject to the stall guard.
func vfC31GenWrapDelay(v *vfT) vfC31Case {
	var c vfC31Case
	v.Label("gen:timestamp-wrap+generous-time-delay")
	nf := rapid.IntRange(3, 20).Draw(v.R, "nframes")
	var cum []uint64 // cum[i] = timestamp advance of frame i relative to frame 0
	var firstIdx []int
	total := 0
	adv := uint64(0)
	for i := 0; i < nf; i++ {
		f := vfC31Frame{N: rapid.IntRange(1, 5).Draw(v.R, "n"), TSStep: rapid.SampledFrom([]uint32{1, 2, 960, 3000, 3003, 90000}).Draw(v.R, "tsstep")}
		if i == nf-1 {
			f.N = 1
		}
		if i > 0 {
			adv += uint64(f.TSStep)
		}
		cum = append(cum, adv)
		firstIdx = append(firstIdx, total)
		total += f.N
		c.Frames = append(c.Frames, f)
	}
	// the wrap falls between frame w-1 and frame w
	w := rapid.IntRange(1, nf-1).Draw(v.R, "wrapFrame")
	r := uint64(rapid.IntRange(0, int(c.Frames[w].TSStep)-1).Draw(v.R, "postWrapTS")) // timestamp of frame w (just after the wrap)
	c.TS0 = uint32(r - cum[w])                                                        // mod 2^32
	c.Start = rapid.SampledFrom([]uint16{0, 1000, 65530, 32760}).Draw(v.R, "start")
	if rapid.Bool().Draw(v.R, "startWrapToo") {
		c.Start = uint16(65536 - firstIdx[w]) // sequence numbers wrap at the same place
	}
	c.Depack = rapid.SampledFrom([]int{0, 1, 2}).Draw(v.R, "depack")
	c.MaxLate = uint16(rapid.SampledFrom([]int{16, 32, 50, 100}).Draw(v.R, "maxLate"))
	c.DelayMs = int((2*adv+90000)*1000/90000) + 1000 + rapid.IntRange(0, 5000).Draw(v.R, "delaySlack")
	// delivery: identity plus adjacent swaps at the wrap (and a few elsewhere)
	for i := 0; i < total; i++ {
		c.Delivery = append(c.Delivery, i)
	}
	b := firstIdx[w] // first post-wrap packet
	swap := func(i int) {
		if i >= 1 && i+1 < total { // never move the stream's first packet (that is a recorded known class)
			c.Delivery[i], c.Delivery[i+1] = c.Delivery[i+1], c.Delivery[i]
		}
	}
	switch rapid.IntRange(0, 4).Draw(v.R, "swapAt") {
	case 0, 1:
		swap(b - 1) // last pre-wrap packet <-> first post-wrap packet
	case 2:
		swap(b - 1)
		swap(b) // the first post-wrap packet overtakes two
	case 3:
		swap(b - 2)
		swap(b - 1)
	default: // no reordering at the wrap
	}
	for k := rapid.IntRange(0, 2).Draw(v.R, "extraSwaps"); k > 0; k-- {
		i := rapid.IntRange(1, total).Draw(v.R, "extraSwapAt")
		if i < b-3 || i > b+3 {
			swap(i)
		}
	}
	switch rapid.IntRange(0, 3).Draw(v.R, "popMode") {
	case 0:
		c.Pops = []int{0}
		v.Label("pop:only-at-end")
	case 1:
		c.Pops = []int{1}
		v.Label("pop:after-every-push")
	case 2:
		c.Pops = []int{3}
		v.Label("pop:until-empty-after-every-push")
	default:
		c.Pops = []int{0, 2, 1}
		v.Label("pop:irregular")
	}
	return c
}

func vfC31Gen(v *vfT) vfC31Case {
	if rapid.IntRange(0, 3).Draw(v.R, "genMode") == 0 {
		return vfC31GenWrapDelay(v)
	}
	var c vfC31Case
	nf := rapid.SampledFrom([]int{1, 2, 3, 5, 8, 12, 20, 40}).Draw(v.R, "nframes")
	if rapid.Bool().Draw(v.R, "nfRand") {
		nf = rapid.IntRange(1, 60).Draw(v.R, "nframes2")
	}
	frameMode := rapid.IntRange(0, 3).Draw(v.R, "frameMode") // 0: all single-packet, 1: fixed n, else mixed
	fixedN := rapid.IntRange(1, 6).Draw(v.R, "fixedN")
	total := 0
	for i := 0; i < nf; i++ {
		f := vfC31Frame{N: 1, TSStep: rapid.SampledFrom([]uint32{1, 3000, 3000, 3003, 90000, 960}).Draw(v.R, "tsstep")}
		switch frameMode {
		case 0:
		case 1:
			f.N = fixedN
		default:
			f.N = rapid.IntRange(1, 6).Draw(v.R, "n")
		}
		total += f.N
		c.Frames = append(c.Frames, f)
	}
	if rapid.Bool().Draw(v.R, "lastFrameSingle") {
		// (with WithMaxTimeDelay, Flush is only exercised when the buffer ends with a single-packet frame)
		total -= c.Frames[len(c.Frames)-1].N - 1
		c.Frames[len(c.Frames)-1].N = 1
	}
	switch rapid.IntRange(0, 5).Draw(v.R, "startKind") {
	case 0:
		c.Start = 0
	case 1:
		c.Start = uint16(65536 - rapid.IntRange(1, 6).Draw(v.R, "startNearWrap"))
	case 2:
		c.Start = uint16(65536 - rapid.IntRange(1, total).Draw(v.R, "startWrapInside"))
	case 3:
		c.Start = uint16(32768 - rapid.IntRange(0, total).Draw(v.R, "startHalf"))
	default:
		c.Start = rapid.Uint16().Draw(v.R, "start")
	}
	switch rapid.IntRange(0, 3).Draw(v.R, "tsKind") {
	case 0:
		c.TS0 = 0
	case 1:
		c.TS0 = 0xFFFFFFFF - uint32(rapid.IntRange(0, 200000).Draw(v.R, "tsNearWrap"))
	case 2:
		c.TS0 = 0x80000000 - uint32(rapid.IntRange(0, 200000).Draw(v.R, "tsHalf"))
	default:
		c.TS0 = rapid.Uint32().Draw(v.R, "ts0")
	}
	c.Depack = rapid.SampledFrom([]int{0, 0, 1, 2, 3}).Draw(v.R, "depack")
	c.MaxLate = uint16(rapid.SampledFrom([]int{5, 8, 10, 16, 32, 50, 100, 200}).Draw(v.R, "maxLate"))
	if rapid.IntRange(0, 3).Draw(v.R, "delay?") == 0 {
		c.DelayMs = rapid.SampledFrom([]int{1, 20, 34, 100, 1000}).Draw(v.R, "delayMs")
	}
	// delivery: windowed shuffle (key = index + jitter), loss, duplicates
	window := 0
	switch rapid.IntRange(0, 4).Draw(v.R, "windowKind") {
	case 0: // in order
	case 1, 2: // safely inside maxLate
		if lim := int(c.MaxLate) - 8; lim > 0 {
			window = rapid.IntRange(0, lim).Draw(v.R, "windowIn")
		}
	case 3: // around the limit
		window = rapid.IntRange(int(c.MaxLate)-8, int(c.MaxLate)+8).Draw(v.R, "windowEdge")
		if window < 0 {
			window = 0
		}
	default:
		window = rapid.IntRange(0, 3*int(c.MaxLate)).Draw(v.R, "windowWide")
	}
	lossPct := 0
	if rapid.IntRange(0, 2).Draw(v.R, "loss?") == 0 {
		lossPct = rapid.SampledFrom([]int{2, 5, 10, 30}).Draw(v.R, "lossPct")
	}
	dupPct, lateDupPct := 0, 0
	if rapid.IntRange(0, 2).Draw(v.R, "dup?") == 0 {
		dupPct = rapid.SampledFrom([]int{2, 5, 20}).Draw(v.R, "dupPct")
		if rapid.Bool().Draw(v.R, "lateDup?") {
			lateDupPct = 50
		}
	}
	type ent struct{ key, idx, ord int }
	var ents []ent
	ord := 0
	for i := 0; i < total; i++ {
		if lossPct > 0 && rapid.IntRange(0, 99).Draw(v.R, "lost") < lossPct {
			continue
		}
		j := 0
		if window > 0 {
			j = rapid.IntRange(0, window).Draw(v.R, "jitter")
		}
		ents = append(ents, ent{i + j, i, ord})
		ord++
		if dupPct > 0 && rapid.IntRange(0, 99).Draw(v.R, "dup") < dupPct {
			dj := rapid.IntRange(0, window+2).Draw(v.R, "dupJitter")
			if lateDupPct > 0 && rapid.IntRange(0, 99).Draw(v.R, "late") < lateDupPct {
				dj = int(c.MaxLate) + rapid.IntRange(0, 2*int(c.MaxLate)).Draw(v.R, "lateBy")
			}
			ents = append(ents, ent{i + dj, i, ord})
			ord++
		}
	}
	sort.SliceStable(ents, func(a, b int) bool {
		if ents[a].key != ents[b].key {
			return ents[a].key < ents[b].key
		}
		return ents[a].ord < ents[b].ord
	})
	for _, e := range ents {
		c.Delivery = append(c.Delivery, e.idx)
	}
	if len(c.Delivery) == 0 {
		c.Delivery = []int{0}
	}
	if v.col.known[vfC31KnownStartClass] && c.Delivery[0] != 0 {
		// known finding: packets older than the first one the builder saw are discarded once Pop
		// has run.  Excluded by construction: deliver the stream's first packet first.
		for i, q := range c.Delivery {
			if q == 0 {
				copy(c.Delivery[1:i+1], c.Delivery[:i])
				c.Delivery[0] = 0
				v.Label("excluded-known:first-delivered-moved-to-stream-start")
				break
			}
		}
	}
	switch rapid.IntRange(0, 3).Draw(v.R, "popMode") {
	case 0:
		c.Pops = []int{0}
		v.Label("pop:only-at-end")
	case 1:
		c.Pops = []int{1}
		v.Label("pop:after-every-push")
	case 2:
		c.Pops = []int{3}
		v.Label("pop:until-empty-after-every-push")
	default:
		n := rapid.IntRange(2, 7).Draw(v.R, "npops")
		for i := 0; i < n; i++ {
			c.Pops = append(c.Pops, rapid.IntRange(0, 2).Draw(v.R, "pop"))
		}
		v.Label("pop:irregular")
	}
	return c
}

func TestVerif_C31_Histories(t *testing.T) {
	vfProperty(t, "C31", vfOpts{
		Rule: "non-trivial = a stream of >=3 frames delivered with reordering, loss or duplication from which at least one sample was emitted",
		Assumptions: []string{
			"sender streams are well formed: consecutive sequence numbers, one strictly advancing timestamp per frame, head flag on the first and tail flag/marker on the last packet of each frame, fewer than 2^15 packets",
			"Flush is called once, after the last push; Pop is then called until it returns nil",
			"completeness is asserted only for permutations of the stream (no loss, no duplicates) without WithMaxTimeDelay in which no packet is overtaken by one maxLate-(maxFrameLen+1) or more positions ahead",
			"the release handler is called at most once per pushed packet (doc comment of packetReleaseHandler: 'about to remove the reference')",
		},
	}, vfC31Gen, vfC31Run)
}
