package webrtc

// C24 — each local ICE candidate is reported once, then exactly one end-of-gathering.
//
// Domain: schedules of a real ICEGatherer (host candidates) inside a PeerConnection with
// candidate pool size 0 and 1.  The gathering agent's callback goroutine parks at
// gather.cand.entry / gather.nil.afterComplete, SetLocalDescription's pool flush parks at
// flush.afterTake / flush.beforeNil; the case's choice list decides when SetLocalDescription
// starts and which parked goroutine continues.  Oracle on the OnICECandidate log.

import (
	"fmt"
	"net"
	"runtime"
	"sort"
	"strings"
	"sync"
	"testing"
	"time"

	"github.com/pion/logging"
	"pgregory.net/rapid"
)

type vfC24Case struct {
	Pool     int   `json:"pool"`               // ICECandidatePoolSize 0|1
	Loopback bool  `json:"loopback"`           // include the loopback candidate (one more candidate)
	Again    bool  `json:"again"`              // call SetLocalDescription a second time once everything is quiet
	NoCands  bool  `json:"no_cands,omitempty"` // every address filtered out: gathering completes without a single candidate
	Choices  []int `json:"choices"`
}

// gather.log: every log call made from icegatherer.go is a schedule point too (a goroutine that
// logs between a check and the action it guards can be overtaken there)
var vfC24Points = []string{"gather.cand.entry", "gather.nil.afterComplete", "flush.afterTake", "flush.beforeNil", "gather.log"}

type vfC24LoggerFactory struct{ gates **vfGates }

type vfC24Logger struct{ gates **vfGates }

func (f vfC24LoggerFactory) NewLogger(string) logging.LeveledLogger { return vfC24Logger{f.gates} }

func (l vfC24Logger) yield() {
	g := *l.gates
	if g == nil {
		return
	}
	// only calls made from icegatherer.go (the code under test), not from pion/ice or elsewhere
	for skip := 2; skip <= 4; skip++ {
		if _, file, _, ok := runtime.Caller(skip); ok && strings.HasSuffix(file, "/icegatherer.go") {
			g.hook("gather.log", nil, 0)
			return
		}
	}
}
func (l vfC24Logger) Trace(string)          { l.yield() }
func (l vfC24Logger) Tracef(string, ...any) { l.yield() }
func (l vfC24Logger) Debug(string)          { l.yield() }
func (l vfC24Logger) Debugf(string, ...any) { l.yield() }
func (l vfC24Logger) Info(string)           { l.yield() }
func (l vfC24Logger) Infof(string, ...any)  { l.yield() }
func (l vfC24Logger) Warn(string)           { l.yield() }
func (l vfC24Logger) Warnf(string, ...any)  { l.yield() }
func (l vfC24Logger) Error(string)          { l.yield() }
func (l vfC24Logger) Errorf(string, ...any) { l.yield() }

func vfC24Exec(v *vfT, c vfC24Case) (branching []int) {
	se := SettingEngine{}
	se.SetIncludeLoopbackCandidate(c.Loopback)
	se.SetNetworkTypes([]NetworkType{NetworkTypeUDP4})
	if c.NoCands {
		se.SetIPFilter(func(net.IP) bool { return false })
	}
	var gatesRef *vfGates
	se.LoggerFactory = vfC24LoggerFactory{&gatesRef}
	api := NewAPI(WithSettingEngine(se))

	gates := vfGatesInstall(vfC24Points)
	gates.WatchAll()
	gatesRef = gates
	defer gates.Uninstall()
	actors := vfNewActors()

	pc, err := api.NewPeerConnection(Configuration{ICECandidatePoolSize: uint8(c.Pool)})
	if err != nil {
		v.Skip("NewPeerConnection: " + err.Error())
	}
	defer func() {
		gates.OpenAll()
		_ = pc.Close()
	}()
	var mu sync.Mutex
	var log []string // candidate strings, "nil" for the end-of-gathering marker
	pc.OnICECandidate(func(cand *ICECandidate) {
		mu.Lock()
		defer mu.Unlock()
		if cand == nil {
			log = append(log, "nil")
			return
		}
		log = append(log, cand.ToJSON().Candidate)
	})
	if _, err := pc.CreateDataChannel("c24", nil); err != nil {
		v.Skip("CreateDataChannel: " + err.Error())
	}

	var trace []string
	sldStarted := false
	var sldErr error
	startSLD := func() {
		sldStarted = true
		actors.Go("SLD", func() {
			offer, err := pc.CreateOffer(nil)
			if err != nil {
				sldErr = err
				return
			}
			sldErr = pc.SetLocalDescription(offer)
		})
	}
	if c.Pool == 0 {
		// without a pool gathering only starts inside SetLocalDescription
		startSLD()
		trace = append(trace, "SLD")
	}
	vfSettle(gates, actors)
	decision := 0
	nilParkedWhileFlush := false
	for {
		var names []string
		var dos []func()
		if !sldStarted {
			names = append(names, "SLD")
			dos = append(dos, startSLD)
		}
		for i, p := range gates.Parked() {
			i := i
			names = append(names, "P:"+p)
			dos = append(dos, func() { gates.Release(i) })
		}
		if len(names) == 0 {
			// nothing parked and SLD started: either done or the agent is still gathering
			if pc.ICEGatheringState() == ICEGatheringStateComplete && len(actors.Running()) == 0 {
				break
			}
			time.Sleep(200 * time.Microsecond)
			vfSettle(gates, actors)
			decision++
			if decision > 20000 {
				v.Skip("gathering did not complete (inconclusive)")
			}
			continue
		}
		pick := 0
		if len(branching) < len(c.Choices) {
			pick = c.Choices[len(branching)] % len(names)
		}
		branching = append(branching, len(names))
		trace = append(trace, names[pick])
		ps := gates.Parked()
		hasNil, hasFlush := false, false
		for _, p := range ps {
			if p == "gather.nil.afterComplete" {
				hasNil = true
			}
			if strings.HasPrefix(p, "flush.") {
				hasFlush = true
			}
		}
		if hasNil && (hasFlush || names[pick] == "SLD") {
			nilParkedWhileFlush = true
		}
		dos[pick]()
		vfSettle(gates, actors)
		if len(branching) > 300 {
			v.Violation("C24/livelock", "scenario did not finish within 300 decisions; trace %v", trace)
		}
	}
	gates.OpenAll()
	if ok, dump := vfWaitActors(actors, 20*time.Second); !ok {
		v.Violation("C24/stuck", "SetLocalDescription did not return: %s", dump)
	}
	if sldErr != nil {
		v.Skip("SetLocalDescription failed: " + sldErr.Error())
	}
	time.Sleep(2 * vfSettleInterval)
	if c.Again {
		// a later SetLocalDescription (e.g. a re-offer) flushes again; nothing new may be reported
		v.Label("second-SetLocalDescription")
		// complete the first exchange against a throw-away answerer, then re-offer
		err := func() error {
			remote, err := api.NewPeerConnection(Configuration{})
			if err != nil {
				return err
			}
			defer remote.Close() //nolint
			if err = remote.SetRemoteDescription(*pc.PendingLocalDescription()); err != nil {
				return err
			}
			answer, err := remote.CreateAnswer(nil)
			if err != nil {
				return err
			}
			if err = remote.SetLocalDescription(answer); err != nil {
				return err
			}
			if err = pc.SetRemoteDescription(answer); err != nil {
				return err
			}
			offer, err := pc.CreateOffer(nil)
			if err != nil {
				return err
			}
			return pc.SetLocalDescription(offer)
		}()
		if err != nil {
			v.Skip("second SetLocalDescription failed: " + err.Error())
		}
		time.Sleep(2 * vfSettleInterval)
	}
	mu.Lock()
	got := append([]string{}, log...)
	mu.Unlock()
	local, err := pc.iceGatherer.GetLocalCandidates()
	if err != nil {
		v.Skip("GetLocalCandidates: " + err.Error())
	}
	var want []string
	for _, l := range local {
		want = append(want, l.ToJSON().Candidate)
	}
	if nilParkedWhileFlush {
		v.Label("nil-callback-overlaps-flush")
		v.NonTrivial()
	}
	if c.NoCands {
		v.Label("no-candidates-gathered")
	}
	if c.Pool == 1 {
		v.Label("pool=1")
	}
	v.Label(fmt.Sprintf("candidates=%d", len(want)))
	nils, afterNil := 0, 0
	var cands []string
	for _, e := range got {
		if e == "nil" {
			nils++
			continue
		}
		if nils > 0 {
			afterNil++
		}
		cands = append(cands, e)
	}
	short := func(l []string) string {
		var s []string
		for _, e := range l {
			if e == "nil" {
				s = append(s, "nil")
			} else {
				s = append(s, "cand")
			}
		}
		return strings.Join(s, " ")
	}
	if nils > 1 && c.Again && !nilParkedWhileFlush {
		v.Violation("C24/nil-again-on-second-flush", "OnICECandidate log %q (pool=%d): a second SetLocalDescription after gathering completed reported the end-of-gathering marker again; trace %v", short(got), c.Pool, trace)
	}
	if nils > 1 {
		v.Violation("C24/double-nil", "OnICECandidate log %q (pool=%d): %d end-of-gathering markers; trace %v", short(got), c.Pool, nils, trace)
	}
	if afterNil > 0 {
		v.Violation("C24/candidate-after-nil", "OnICECandidate log %q (pool=%d): candidate reported after the end-of-gathering marker; trace %v", short(got), c.Pool, trace)
	}
	if nils == 0 {
		v.Violation("C24/no-nil", "OnICECandidate log %q (pool=%d): gathering is complete and SetLocalDescription returned but no end-of-gathering marker was reported; trace %v", short(got), c.Pool, trace)
	}
	sort.Strings(cands)
	sort.Strings(want)
	if strings.Join(cands, "\n") != strings.Join(want, "\n") {
		v.Violation("C24/candidate-multiset", "reported candidates %v differ from the gathered local candidates %v (pool=%d); trace %v", cands, want, c.Pool, trace)
	}
	return branching
}

var vfC24Opts = vfOpts{
	Rule:        "schedules of host-candidate gathering (UDP4, with/without loopback) against SetLocalDescription's pool flush for pool size 0 and 1; the controller orders the agent's callbacks (parked at gather.cand.entry / gather.nil.afterComplete) and the flush (flush.afterTake / flush.beforeNil); non-trivial = the end-of-gathering callback is parked between setState(complete) and its pool check while the flush runs or starts",
	Assumptions: []string{"real host candidates on this machine's interfaces (1-2 candidates), or none at all when every address is filtered out", "interleavings explored at the four verif yield points only"},
}

func TestVerif_C24_Sampled(t *testing.T) {
	vfProperty(t, "C24", vfC24Opts, func(v *vfT) vfC24Case {
		return vfC24Case{
			Pool:     rapid.SampledFrom([]int{0, 1, 1, 1}).Draw(v.R, "pool"),
			Loopback: rapid.Bool().Draw(v.R, "loopback"),
			Again:    rapid.IntRange(0, 3).Draw(v.R, "again") == 0,
			NoCands:  rapid.IntRange(0, 5).Draw(v.R, "nocands") == 0,
			Choices:  rapid.SliceOfN(rapid.IntRange(0, 5), 0, 14).Draw(v.R, "choices"),
		}
	}, func(v *vfT, c vfC24Case) { vfC24Exec(v, c) })
}

// TestVerif_C24_DFS enumerates every choice sequence for the four (pool, loopback) scenarios.
func TestVerif_C24_DFS(t *testing.T) {
	s := vfOpen(t, "C24", vfC24Opts, func(v *vfT, c vfC24Case) { vfC24Exec(v, c) })
	defer s.Close()
	if s.Replay() {
		return
	}
	limit := vfN(40)
	shard, nshards := vfShard()
	exhaustive := true
	idx := 0
	for _, pool := range []int{1, 0} {
		for _, lb := range []bool{false, true} {
			idx++
			if idx%nshards != shard {
				continue
			}
			seq := []int{}
			n := 0
			for {
				c := vfC24Case{Pool: pool, Loopback: lb, Choices: append([]int{}, seq...)}
				var br []int
				if s.OneWith(c, func(v *vfT, cc vfC24Case) { br = vfC24Exec(v, cc) }) {
					return
				}
				n++
				full := make([]int, len(br))
				copy(full, seq)
				i := len(full) - 1
				for i >= 0 && full[i]+1 >= br[i] {
					i--
				}
				if i < 0 {
					break
				}
				seq = append([]int{}, full[:i+1]...)
				seq[i]++
				if n >= limit {
					exhaustive = false
					break
				}
			}
			s.Extra(fmt.Sprintf("dfs_schedules_pool%d_loopback%v", pool, lb), n)
		}
	}
	s.SetExhaustive(exhaustive)
}
