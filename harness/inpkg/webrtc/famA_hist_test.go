package webrtc

// Family A (C01, C02, C03): signaling-state histories over a PAIR of PeerConnections.
//
// A case is a list of operations on two connections A (x=0) and B (x=1).  Every
// description that is applied was produced by pion itself (CreateOffer / CreateAnswer of A
// or B) or is one of three small foreign offers rendered by this file; C03 may in
// addition munge the chosen text into one of the invalid classes the property lists.
// The executor resolves an op's arguments against what exists at that point of the history
// (texts are picked "modulo the live count"), so a case stays meaningful when shrunk.
//
// The reference model (vfFamAEdge / vfFamAView.apply) is the JSEP / W3C signaling state
// machine with the W3C pending/current bookkeeping.  It is used one-directionally: it says
// which (state, side, type) triples are edges and where they lead; it never demands that
// pion accepts an edge.
//
// The connections gather no candidates (every interface is filtered out, mDNS off), so
// nothing ever connects and a history costs a few milliseconds.  The getters append
// gathered candidates to local descriptions, so all comparisons go through vfFamAStrip.

import (
	"crypto/ecdsa"
	"crypto/elliptic"
	"crypto/rand"
	"fmt"
	"strings"
	"sync"
	"sync/atomic"
	"time"

	"github.com/pion/ice/v4"
	"github.com/pion/interceptor"
	"github.com/pion/logging"
	"pgregory.net/rapid"
)

// ---------------------------------------------------------------------------------------
// case

const (
	vfFamAKOffer     = "offer"     // X.CreateOffer
	vfFamAKAnswer    = "answer"    // X.CreateAnswer
	vfFamAKSetLocal  = "setLocal"  // X.SetLocalDescription(type T, text by Src, munged by Bad)
	vfFamAKSetRemote = "setRemote" // X.SetRemoteDescription(type T, text by Src, munged by Bad)
	vfFamAKAddTr     = "addTr"     // X.AddTransceiverFromKind (makes successive offers differ)
	vfFamAKAddDC     = "addDC"     // X.CreateDataChannel
)

// description type indices (T)
const (
	vfFamATOffer = iota
	vfFamATPranswer
	vfFamATAnswer
	vfFamATRollback
	vfFamATInvalid // C03 only: a Type value outside the enum
)

var vfFamATypes = []SDPType{SDPTypeOffer, SDPTypePranswer, SDPTypeAnswer, SDPTypeRollback, SDPType(99)}

type vfFamAOp struct {
	K   string `json:"k"`
	X   int    `json:"x"`             // 0 = A, 1 = B
	T   int    `json:"t,omitempty"`   // description type index
	Src int    `json:"src,omitempty"` // text source: Src%4 selects the source, Src/4 the foreign-offer variant
	Bad int    `json:"bad,omitempty"` // C03: invalid class applied to the text (0 = none)
}

type vfFamACase struct {
	InitA int        `json:"init_a"` // initial media of A: 0 data channel, 1 audio, 2 video, 3 audio+data
	InitB int        `json:"init_b"`
	Ops   []vfFamAOp `json:"ops"`
}

// ---------------------------------------------------------------------------------------
// reference model: JSEP / W3C signaling state machine + description bookkeeping

type vfFamADesc struct {
	T   SDPType
	SDP string // candidate lines stripped
}

func (d *vfFamADesc) String() string {
	if d == nil {
		return "<nil>"
	}
	return fmt.Sprintf("%s/%08x(%dB)", d.T, vfFamAHash(d.SDP), len(d.SDP))
}

func vfFamAHash(s string) uint32 {
	h := uint32(2166136261)
	for i := 0; i < len(s); i++ {
		h = (h ^ uint32(s[i])) * 16777619
	}
	return h
}

func vfFamADescEq(a, b *vfFamADesc) bool {
	if a == nil || b == nil {
		return a == nil && b == nil
	}
	return a.T == b.T && a.SDP == b.SDP
}

// vfFamAView is both the model's state and what is observed through the public getters.
type vfFamAView struct {
	State          SignalingState
	PL, CL, PR, CR *vfFamADesc
}

func (m vfFamAView) String() string {
	return fmt.Sprintf("state=%s pendingLocal=%s currentLocal=%s pendingRemote=%s currentRemote=%s", m.State, m.PL, m.CL, m.PR, m.CR)
}

func vfFamAViewEq(a, b vfFamAView) bool {
	return a.State == b.State && vfFamADescEq(a.PL, b.PL) && vfFamADescEq(a.CL, b.CL) &&
		vfFamADescEq(a.PR, b.PR) && vfFamADescEq(a.CR, b.CR)
}

// vfFamAEdge is the transition table: the permissive union of JSEP (RFC 8829 3.2, 4.1.10.2,
// 5.7) and W3C webrtc-pc 4.4.1.5/4.4.1.6, used to judge a call that pion accepted.  (The
// rollbacks whose acceptance C02 demands are the narrower set vfFamAMustRollback.)
func vfFamAEdge(cur SignalingState, local bool, typ SDPType) (SignalingState, bool) {
	if typ == SDPTypeRollback {
		// JSEP: rollback is possible from any state except stable, through either call
		if cur == SignalingStateStable || cur == SignalingStateClosed {
			return cur, false
		}
		return SignalingStateStable, true
	}
	switch cur { //nolint:exhaustive
	case SignalingStateStable:
		if typ == SDPTypeOffer {
			if local {
				return SignalingStateHaveLocalOffer, true
			}
			return SignalingStateHaveRemoteOffer, true
		}
	case SignalingStateHaveLocalOffer:
		switch {
		case local && typ == SDPTypeOffer:
			return SignalingStateHaveLocalOffer, true
		case !local && typ == SDPTypeAnswer:
			return SignalingStateStable, true
		case !local && typ == SDPTypePranswer:
			return SignalingStateHaveRemotePranswer, true
		}
	case SignalingStateHaveRemotePranswer:
		switch {
		case !local && typ == SDPTypeAnswer:
			return SignalingStateStable, true
		case !local && typ == SDPTypePranswer:
			return SignalingStateHaveRemotePranswer, true
		}
	case SignalingStateHaveRemoteOffer:
		switch {
		case !local && typ == SDPTypeOffer:
			return SignalingStateHaveRemoteOffer, true
		case local && typ == SDPTypeAnswer:
			return SignalingStateStable, true
		case local && typ == SDPTypePranswer:
			return SignalingStateHaveLocalPranswer, true
		}
	case SignalingStateHaveLocalPranswer:
		switch {
		case local && typ == SDPTypeAnswer:
			return SignalingStateStable, true
		case local && typ == SDPTypePranswer:
			return SignalingStateHaveLocalPranswer, true
		}
	}
	return cur, false
}

// vfFamAMustRollback: the rollbacks C02 says must succeed.
func vfFamAMustRollback(cur SignalingState, local bool) bool {
	if local {
		return cur == SignalingStateHaveLocalOffer || cur == SignalingStateHaveLocalPranswer
	}
	return cur == SignalingStateHaveRemoteOffer || cur == SignalingStateHaveRemotePranswer
}

// apply performs the bookkeeping of an accepted edge (W3C 4.4.1.5 "set a session description").
func (m *vfFamAView) apply(local bool, d vfFamADesc, target SignalingState) {
	dd := d
	switch d.T { //nolint:exhaustive
	case SDPTypeRollback:
		m.PL, m.PR = nil, nil
	case SDPTypeOffer, SDPTypePranswer:
		if local {
			m.PL = &dd
		} else {
			m.PR = &dd
		}
	case SDPTypeAnswer:
		if local {
			m.CL, m.CR = &dd, m.PR
		} else {
			m.CR, m.CL = &dd, m.PL
		}
		m.PL, m.PR = nil, nil
	}
	m.State = target
}

// vfFamAStrip removes what the getters add on their own (gathered candidates).
func vfFamAStrip(s string) string {
	if !strings.Contains(s, "a=candidate:") && !strings.Contains(s, "a=end-of-candidates") {
		return s
	}
	lines := strings.SplitAfter(s, "\n")
	var b strings.Builder
	for _, l := range lines {
		if strings.HasPrefix(l, "a=candidate:") || strings.HasPrefix(l, "a=end-of-candidates") {
			continue
		}
		b.WriteString(l)
	}
	return b.String()
}

func vfFamAMkDesc(d *SessionDescription) *vfFamADesc {
	if d == nil {
		return nil
	}
	return &vfFamADesc{T: d.Type, SDP: vfFamAStrip(d.SDP)}
}

func vfFamAObserve(pc *PeerConnection) vfFamAView {
	return vfFamAView{
		State: pc.SignalingState(),
		PL:    vfFamAMkDesc(pc.PendingLocalDescription()),
		CL:    vfFamAMkDesc(pc.CurrentLocalDescription()),
		PR:    vfFamAMkDesc(pc.PendingRemoteDescription()),
		CR:    vfFamAMkDesc(pc.CurrentRemoteDescription()),
	}
}

// ---------------------------------------------------------------------------------------
// world: the two connections and the texts created so far

type vfFamAPeer struct {
	pc      *PeerConnection
	name    string
	offers  []string // successfully created offers, in order
	answers []string
	events  atomic.Int64 // OnSignalingStateChange deliveries
	nAdded  int
}

type vfFamAWorld struct {
	p [2]*vfFamAPeer
}

var (
	vfFamACertOnce sync.Once
	vfFamACerts    []Certificate
	vfFamACertErr  error
)

func vfFamACert(i int) (Certificate, error) {
	vfFamACertOnce.Do(func() {
		for k := 0; k < 2; k++ {
			sk, err := ecdsa.GenerateKey(elliptic.P256(), rand.Reader)
			if err != nil {
				vfFamACertErr = err
				return
			}
			c, err := GenerateCertificate(sk)
			if err != nil {
				vfFamACertErr = err
				return
			}
			vfFamACerts = append(vfFamACerts, *c)
		}
	})
	if vfFamACertErr != nil {
		return Certificate{}, vfFamACertErr
	}
	return vfFamACerts[i%len(vfFamACerts)], nil
}

// vfFamANewPC builds a connection that never gathers a candidate (cheap, nothing connects).
func vfFamANewPC(i int) (*PeerConnection, error) {
	se := SettingEngine{}
	se.SetInterfaceFilter(func(string) bool { return false })
	se.SetICEMulticastDNSMode(ice.MulticastDNSModeDisabled)
	lf := logging.NewDefaultLoggerFactory()
	lf.DefaultLogLevel = logging.LogLevelDisabled
	se.LoggerFactory = lf
	api := NewAPI(WithSettingEngine(se), WithInterceptorRegistry(&interceptor.Registry{}))
	cert, err := vfFamACert(i)
	if err != nil {
		return nil, err
	}
	return api.NewPeerConnection(Configuration{Certificates: []Certificate{cert}})
}

func vfFamANewWorld(v *vfT, c vfFamACase) *vfFamAWorld {
	w := &vfFamAWorld{}
	for i, init := range []int{c.InitA, c.InitB} {
		pc, err := vfFamANewPC(i)
		if err != nil {
			w.Close()
			v.Skip("NewPeerConnection failed")
		}
		p := &vfFamAPeer{pc: pc, name: string(rune('A' + i))}
		w.p[i] = p
		pc.OnSignalingStateChange(func(SignalingState) { p.events.Add(1) })
		var e1, e2 error
		switch ((init % 4) + 4) % 4 {
		case 0:
			_, e1 = pc.CreateDataChannel("init", nil)
		case 1:
			_, e1 = pc.AddTransceiverFromKind(RTPCodecTypeAudio)
		case 2:
			_, e1 = pc.AddTransceiverFromKind(RTPCodecTypeVideo)
		default:
			_, e1 = pc.AddTransceiverFromKind(RTPCodecTypeAudio)
			_, e2 = pc.CreateDataChannel("init", nil)
		}
		if e1 != nil || e2 != nil {
			w.Close()
			v.Skip("initial media failed")
		}
	}
	return w
}

func (w *vfFamAWorld) Close() {
	for _, p := range w.p {
		if p != nil && p.pc != nil {
			p.pc.OnSignalingStateChange(func(SignalingState) {})
			_ = p.pc.Close()
		}
	}
}

func vfFamALast(l []string, back int) (string, bool) {
	if len(l) == 0 {
		return "", false
	}
	i := len(l) - 1 - back
	if i < 0 {
		i = 0
	}
	return l[i], true
}

// DoAux executes the ops that are not SetLocal/SetRemoteDescription.
func (w *vfFamAWorld) DoAux(op vfFamAOp) {
	p := w.p[op.X&1]
	switch op.K {
	case vfFamAKOffer:
		if d, err := p.pc.CreateOffer(nil); err == nil {
			p.offers = append(p.offers, d.SDP)
		}
	case vfFamAKAnswer:
		if d, err := p.pc.CreateAnswer(nil); err == nil {
			p.answers = append(p.answers, d.SDP)
		}
	case vfFamAKAddTr:
		kind := RTPCodecTypeAudio
		if (op.Src+p.nAdded)%2 == 1 {
			kind = RTPCodecTypeVideo
		}
		dir := RTPTransceiverDirectionRecvonly
		if op.T%2 == 1 {
			dir = RTPTransceiverDirectionSendrecv
		}
		if p.nAdded < 4 { // keep descriptions small
			_, _ = p.pc.AddTransceiverFromKind(kind, RTPTransceiverInit{Direction: dir})
			p.nAdded++
		}
	case vfFamAKAddDC:
		if p.nAdded < 4 {
			_, _ = p.pc.CreateDataChannel(fmt.Sprintf("dc%d", p.nAdded), nil)
			p.nAdded++
		}
	}
}

// vfFamACall is one resolved SetLocalDescription / SetRemoteDescription call.
type vfFamACall struct {
	Peer   *vfFamAPeer
	Local  bool
	Typ    SDPType
	Desc   SessionDescription // what is passed to pion
	Effect string             // text the description bookkeeping must show if the call is accepted (stripped)
	Source string             // label of the text source
	Bad    string             // name of the invalid class ("" = none)
}

func (c *vfFamACall) Invoke() error {
	if c.Local {
		return c.Peer.pc.SetLocalDescription(c.Desc)
	}
	return c.Peer.pc.SetRemoteDescription(c.Desc)
}

func (c *vfFamACall) Side() string {
	if c.Local {
		return "setLocal"
	}
	return "setRemote"
}

// Resolve turns a set-op into a concrete call; ok=false when the op cannot be given a sound
// text at this point of the history (an answer is requested and nobody has created one).
func (w *vfFamAWorld) Resolve(op vfFamAOp) (*vfFamACall, bool) {
	if op.K != vfFamAKSetLocal && op.K != vfFamAKSetRemote {
		return nil, false
	}
	x := op.X & 1
	p, q := w.p[x], w.p[1-x]
	ti := ((op.T % len(vfFamATypes)) + len(vfFamATypes)) % len(vfFamATypes)
	typ := vfFamATypes[ti]
	src := ((op.Src % 4) + 4) % 4
	variant := op.Src / 4
	if variant < 0 {
		variant = -variant
	}
	call := &vfFamACall{Peer: p, Local: op.K == vfFamAKSetLocal, Typ: typ}
	mine, theirs := p.offers, q.offers
	if ti == vfFamATPranswer || ti == vfFamATAnswer {
		mine, theirs = p.answers, q.answers
	}
	var text string
	switch {
	case ti == vfFamATRollback || ti == vfFamATInvalid:
		// rollback text variants: "", the pending SDP, an arbitrary valid SDP
		switch src {
		case 1:
			call.Source = "pending-text"
			if d := p.pc.PendingLocalDescription(); d != nil {
				text = d.SDP
			} else if d := p.pc.PendingRemoteDescription(); d != nil {
				text = d.SDP
			} else {
				call.Source = "empty"
			}
		case 2:
			call.Source = "other-valid-text"
			if t, ok := vfFamALast(p.offers, 0); ok && call.Local {
				text = t
			} else {
				text = vfFamAForeignOffer(variant)
			}
		default:
			call.Source = "empty"
		}
	case call.Local:
		switch src {
		case 0:
			call.Source = "last-created"
			text, _ = vfFamALast(mine, 0)
		case 1:
			call.Source = "empty" // JSEP 5.4: "" means the last created offer/answer
		case 2:
			call.Source = "stale-created"
			text, _ = vfFamALast(mine, 1)
		default:
			call.Source = "peer-text"
			var ok bool
			if text, ok = vfFamALast(theirs, 0); !ok {
				text, _ = vfFamALast(mine, 0)
			}
		}
		if text == "" {
			call.Source = "empty"
			if len(mine) == 0 {
				// "" stands for the last created offer/answer (JSEP 5.4); with none created the
				// call carries no description at all, which is outside the properties' domain
				// (pion accepts SetLocalDescription({offer, ""}) there and stores an empty SDP)
				return nil, false
			}
		}
	default: // remote
		var ok bool
		switch src {
		case 0:
			call.Source = "peer-last"
			text, ok = vfFamALast(theirs, 0)
		case 1:
			call.Source = "foreign"
			if ti == vfFamATOffer {
				text, ok = vfFamAForeignOffer(variant), true
			} else {
				call.Source = "peer-last"
				text, ok = vfFamALast(theirs, 0)
			}
		case 2:
			call.Source = "own-text"
			if text, ok = vfFamALast(mine, 0); !ok {
				call.Source = "peer-last"
				text, ok = vfFamALast(theirs, 0)
			}
		default:
			call.Source = "peer-stale"
			text, ok = vfFamALast(theirs, 1)
		}
		if !ok {
			if ti != vfFamATOffer {
				return nil, false
			}
			call.Source = "foreign"
			text = vfFamAForeignOffer(variant)
		}
	}
	if op.Bad != 0 {
		bi := ((op.Bad % len(vfFamABadNames)) + len(vfFamABadNames)) % len(vfFamABadNames)
		if bi != 0 {
			if text == "" && call.Local && ti != vfFamATRollback && ti != vfFamATInvalid {
				// munging needs a text: take what "" stands for
				text, _ = vfFamALast(mine, 0)
			}
			if munged, ok := vfFamAMunge(bi, text); ok {
				text = munged
				call.Bad = vfFamABadNames[bi]
			}
		}
	}
	call.Desc = SessionDescription{Type: typ, SDP: text}
	call.Effect = vfFamAStrip(text)
	if call.Local && text == "" && (ti == vfFamATOffer || ti == vfFamATPranswer || ti == vfFamATAnswer) {
		eff, _ := vfFamALast(mine, 0)
		call.Effect = vfFamAStrip(eff)
	}
	return call, true
}

// ---------------------------------------------------------------------------------------
// foreign offers (rendered here, not by pion): a browser-style minimal offer

const vfFamAForeignFP = "a=fingerprint:sha-256 3A:94:5B:1C:0E:72:A8:6D:F0:11:C4:9B:57:E2:30:8F:6A:D3:25:BE:41:07:9C:E8:7B:12:F6:A0:4D:83:C9:5E\r\n"

func vfFamAForeignOffer(variant int) string {
	type sec struct{ media, mid string }
	var secs []sec
	switch variant % 3 {
	case 0:
		secs = []sec{{"application", "0"}}
	case 1:
		secs = []sec{{"audio", "0"}, {"application", "1"}}
	default:
		secs = []sec{{"audio", "a0"}, {"video", "v1"}, {"application", "d2"}}
	}
	var b strings.Builder
	b.WriteString("v=0\r\no=- 4596489990601351948 2 IN IP4 127.0.0.1\r\ns=-\r\nt=0 0\r\na=group:BUNDLE")
	for _, s := range secs {
		b.WriteString(" " + s.mid)
	}
	b.WriteString("\r\na=msid-semantic: WMS\r\n")
	transport := "c=IN IP4 0.0.0.0\r\na=ice-ufrag:vfFo\r\na=ice-pwd:vfForeignOfferPwd0123456789\r\n" + vfFamAForeignFP + "a=setup:actpass\r\n"
	for _, s := range secs {
		switch s.media {
		case "audio":
			b.WriteString("m=audio 9 UDP/TLS/RTP/SAVPF 111\r\n" + transport + "a=mid:" + s.mid + "\r\na=recvonly\r\na=rtcp-mux\r\na=rtpmap:111 opus/48000/2\r\na=fmtp:111 minptime=10;useinbandfec=1\r\n")
		case "video":
			b.WriteString("m=video 9 UDP/TLS/RTP/SAVPF 96\r\n" + transport + "a=mid:" + s.mid + "\r\na=recvonly\r\na=rtcp-mux\r\na=rtpmap:96 VP8/90000\r\na=rtcp-fb:96 nack\r\na=rtcp-fb:96 nack pli\r\n")
		default:
			b.WriteString("m=application 9 UDP/DTLS/SCTP webrtc-datachannel\r\n" + transport + "a=mid:" + s.mid + "\r\na=sctp-port:5000\r\n")
		}
	}
	return b.String()
}

// ---------------------------------------------------------------------------------------
// invalid classes (C03): text edits of a valid description, as the property lists them

var vfFamABadNames = []string{
	"",                 // 0: none
	"no-mid",           // every a=mid line removed
	"no-ice-ufrag",     // every a=ice-ufrag line removed
	"no-ice-pwd",       // every a=ice-pwd line removed
	"no-fingerprint",   // every a=fingerprint line removed
	"bad-candidate",    // an unparsable a=candidate line in the first media section
	"rtx-apt",          // an RTX fmtp whose apt is not a number
	"truncated",        // cut in the middle of a line (unparsable)
	"bad-origin",       // o= line with too few fields (unparsable)
	"no-media",         // every media section removed (no ICE credentials left)
	"half-fingerprint", // fingerprint attribute without a value part
	// per-section variants: the attribute is removed from ONE m-section only (a check that only
	// looks at the first / the media sections passes the rest of the description)
	"no-mid-last-section",        // a=mid removed from the last m-section only
	"no-mid-first-section",       // a=mid removed from the first m-section only
	"no-mid-application-section", // a=mid removed from the m=application section only
	"no-ice-ufrag-last-section",  // a=ice-ufrag removed from the last m-section only
	"no-fingerprint-last-section",
	// mids of a multi-section description that no longer line up with what was offered
	"dup-mid-last-section",     // the last m-section repeats the first section's mid
	"unknown-mid-last-section", // the last m-section carries a mid nobody offered
	"swap-mids",                // the first and the last m-section exchange their mids
}

// vfFamARewriteMids edits the a=mid values of the first / last m-section (BUNDLE line untouched).
func vfFamARewriteMids(text, mode string) (string, bool) {
	lines := strings.SplitAfter(text, "\n")
	var midIdx []int
	inMedia := false
	for i, l := range lines {
		if strings.HasPrefix(l, "m=") {
			inMedia = true
		}
		if inMedia && strings.HasPrefix(l, "a=mid:") {
			midIdx = append(midIdx, i)
		}
	}
	if len(midIdx) < 2 {
		return "", false
	}
	first, last := midIdx[0], midIdx[len(midIdx)-1]
	eol := func(l string) string { return l[len(strings.TrimRight(l, "\r\n")):] }
	fv := strings.TrimRight(strings.TrimPrefix(lines[first], "a=mid:"), "\r\n")
	lv := strings.TrimRight(strings.TrimPrefix(lines[last], "a=mid:"), "\r\n")
	switch mode {
	case "dup":
		lines[last] = "a=mid:" + fv + eol(lines[last])
	case "unknown":
		lines[last] = "a=mid:vfzz9" + eol(lines[last])
	case "swap":
		lines[first], lines[last] = "a=mid:"+lv+eol(lines[first]), "a=mid:"+fv+eol(lines[last])
	}
	return strings.Join(lines, ""), true
}

// vfFamADropLinesInSection removes lines starting with prefix from one m-section:
// which = "first" | "last" | "application". ok is false when nothing was removed or when the
// description has fewer than two m-sections (then the variant equals the whole-description one).
func vfFamADropLinesInSection(text, prefix, which string) (string, bool) {
	lines := strings.SplitAfter(text, "\n")
	var starts []int
	for i, l := range lines {
		if strings.HasPrefix(l, "m=") {
			starts = append(starts, i)
		}
	}
	if len(starts) < 2 {
		return "", false
	}
	sec := -1
	switch which {
	case "first":
		sec = 0
	case "last":
		sec = len(starts) - 1
	case "application":
		for k, st := range starts {
			if strings.HasPrefix(lines[st], "m=application") {
				sec = k
			}
		}
	}
	if sec < 0 {
		return "", false
	}
	from, to := starts[sec], len(lines)
	if sec+1 < len(starts) {
		to = starts[sec+1]
	}
	var b strings.Builder
	n := 0
	for i, l := range lines {
		if i >= from && i < to && strings.HasPrefix(l, prefix) {
			n++
			continue
		}
		b.WriteString(l)
	}
	return b.String(), n > 0
}

func vfFamADropLines(text, prefix string) (string, bool) {
	lines := strings.SplitAfter(text, "\n")
	var b strings.Builder
	n := 0
	for _, l := range lines {
		if strings.HasPrefix(l, prefix) {
			n++
			continue
		}
		b.WriteString(l)
	}
	return b.String(), n > 0
}

func vfFamAMunge(bi int, text string) (string, bool) {
	if text == "" {
		return "", false
	}
	switch vfFamABadNames[bi] {
	case "dup-mid-last-section":
		return vfFamARewriteMids(text, "dup")
	case "unknown-mid-last-section":
		return vfFamARewriteMids(text, "unknown")
	case "swap-mids":
		return vfFamARewriteMids(text, "swap")
	case "no-mid-last-section":
		return vfFamADropLinesInSection(text, "a=mid:", "last")
	case "no-mid-first-section":
		return vfFamADropLinesInSection(text, "a=mid:", "first")
	case "no-mid-application-section":
		return vfFamADropLinesInSection(text, "a=mid:", "application")
	case "no-ice-ufrag-last-section":
		return vfFamADropLinesInSection(text, "a=ice-ufrag:", "last")
	case "no-fingerprint-last-section":
		return vfFamADropLinesInSection(text, "a=fingerprint:", "last")
	case "no-mid":
		return vfFamADropLines(text, "a=mid:")
	case "no-ice-ufrag":
		return vfFamADropLines(text, "a=ice-ufrag:")
	case "no-ice-pwd":
		return vfFamADropLines(text, "a=ice-pwd:")
	case "no-fingerprint":
		return vfFamADropLines(text, "a=fingerprint:")
	case "bad-candidate":
		i := strings.Index(text, "\nm=")
		if i < 0 {
			return "", false
		}
		j := strings.Index(text[i+1:], "\n")
		if j < 0 {
			return "", false
		}
		at := i + 1 + j + 1
		return text[:at] + "a=candidate:1 1 udp notanumber 192.0.2.1 9 typ host\r\n" + text[at:], true
	case "rtx-apt":
		i := strings.Index(text, " apt=")
		if i < 0 {
			return "", false
		}
		j := i + len(" apt=")
		k := j
		for k < len(text) && text[k] >= '0' && text[k] <= '9' {
			k++
		}
		return text[:j] + "xyz" + text[k:], true
	case "truncated":
		i := strings.Index(text, "\nm=")
		if i < 0 {
			return "", false
		}
		return text[:i+5], true // ends inside the first m= line ("m=au"): unparsable
	case "bad-origin":
		i := strings.Index(text, "o=")
		j := strings.Index(text, "\ns=")
		if i < 0 || j < i {
			return "", false
		}
		return text[:i] + "o=- x\r" + text[j:], true
	case "no-media":
		i := strings.Index(text, "\nm=")
		if i < 0 {
			return "", false
		}
		return text[:i+1], true
	case "half-fingerprint":
		i := strings.Index(text, "a=fingerprint:")
		if i < 0 {
			return "", false
		}
		out, _ := vfFamADropLines(text, "a=fingerprint:")
		// put one value-less fingerprint back at session level (before the first m= line)
		k := strings.Index(out, "\nm=")
		if k < 0 {
			return "", false
		}
		return out[:k+1] + "a=fingerprint:sha-256\r\n" + out[k+1:], true
	}
	return "", false
}

// ---------------------------------------------------------------------------------------
// event settle

// vfFamASettle waits until at least want OnSignalingStateChange deliveries were seen (bounded),
// then a short grace period for stragglers; it returns the count.  Deliveries run on their own
// goroutines, so only counts are meaningful.
func vfFamASettle(p *vfFamAPeer, want int64, grace time.Duration) int64 {
	deadline := time.Now().Add(2 * time.Second)
	for p.events.Load() < want && time.Now().Before(deadline) {
		time.Sleep(20 * time.Microsecond)
	}
	if grace > 0 {
		end := time.Now().Add(grace)
		n := p.events.Load()
		for time.Now().Before(end) {
			time.Sleep(50 * time.Microsecond)
			if p.events.Load() != n {
				break
			}
		}
	}
	return p.events.Load()
}

// ---------------------------------------------------------------------------------------
// generator

// vfFamASim predicts the states a history will go through, only to bias the generator
// towards histories that complete exchanges; it never takes part in a verdict.
type vfFamASim struct {
	st            [2]SignalingState
	offerReady    [2]bool
	ansReady      [2]bool
	rollbackWorks bool
}

func (s *vfFamASim) note(op vfFamAOp) {
	x := op.X & 1
	y := 1 - x
	switch op.K {
	case vfFamAKOffer:
		s.offerReady[x] = true
	case vfFamAKAnswer:
		if s.st[x] == SignalingStateHaveRemoteOffer || s.st[x] == SignalingStateHaveLocalPranswer {
			s.ansReady[x] = true
		}
	case vfFamAKSetLocal:
		if op.T == vfFamATRollback && op.Bad == 0 {
			if s.rollbackWorks && vfFamAMustRollback(s.st[x], true) {
				s.st[x] = SignalingStateStable
				s.ansReady[x] = false
			}
			return
		}
		if op.Bad != 0 || op.Src%4 > 1 {
			return
		}
		switch op.T {
		case vfFamATOffer:
			if s.st[x] == SignalingStateStable && s.offerReady[x] {
				s.st[x] = SignalingStateHaveLocalOffer
			}
		case vfFamATAnswer:
			if (s.st[x] == SignalingStateHaveRemoteOffer || s.st[x] == SignalingStateHaveLocalPranswer) && s.ansReady[x] {
				s.st[x] = SignalingStateStable
			}
		case vfFamATPranswer:
			if s.st[x] == SignalingStateHaveRemoteOffer && s.ansReady[x] {
				s.st[x] = SignalingStateHaveLocalPranswer
			}
		}
	case vfFamAKSetRemote:
		if op.T == vfFamATRollback && op.Bad == 0 {
			if s.rollbackWorks && vfFamAMustRollback(s.st[x], false) {
				s.st[x] = SignalingStateStable
				s.ansReady[x] = false
			}
			return
		}
		if op.Bad != 0 || op.Src%4 != 0 {
			if op.Bad == 0 && op.Src%4 == 1 && op.T == vfFamATOffer && s.st[x] == SignalingStateStable {
				s.st[x] = SignalingStateHaveRemoteOffer // foreign offer
				s.ansReady[x] = false
			}
			return
		}
		switch op.T {
		case vfFamATOffer:
			if s.st[x] == SignalingStateStable && s.offerReady[y] {
				s.st[x] = SignalingStateHaveRemoteOffer
				s.ansReady[x] = false
			}
		case vfFamATAnswer:
			if (s.st[x] == SignalingStateHaveLocalOffer || s.st[x] == SignalingStateHaveRemotePranswer) && s.ansReady[y] {
				s.st[x] = SignalingStateStable
				s.offerReady[x] = false
				s.ansReady[y] = false
			}
		case vfFamATPranswer:
			if s.st[x] == SignalingStateHaveLocalOffer && s.ansReady[y] {
				s.st[x] = SignalingStateHaveRemotePranswer
			}
		}
	}
}

// progress proposes the next step of a normal exchange from the predicted states.
func (s *vfFamASim) progress(r *rapid.T) (vfFamAOp, bool) {
	first := rapid.IntRange(0, 1).Draw(r, "first")
	for k := 0; k < 2; k++ {
		x := (first + k) & 1
		y := 1 - x
		if s.st[x] == SignalingStateHaveRemotePranswer && s.ansReady[y] {
			return vfFamAOp{K: vfFamAKSetRemote, X: x, T: vfFamATAnswer}, true
		}
	}
	for k := 0; k < 2; k++ {
		y := (first + k) & 1
		x := 1 - y
		switch s.st[y] { //nolint:exhaustive
		case SignalingStateHaveRemoteOffer:
			if !s.ansReady[y] {
				return vfFamAOp{K: vfFamAKAnswer, X: y}, true
			}
			if rapid.IntRange(0, 4).Draw(r, "pranswer") == 0 {
				return vfFamAOp{K: vfFamAKSetLocal, X: y, T: vfFamATPranswer, Src: rapid.IntRange(0, 1).Draw(r, "src01")}, true
			}
			return vfFamAOp{K: vfFamAKSetLocal, X: y, T: vfFamATAnswer, Src: rapid.IntRange(0, 1).Draw(r, "src01")}, true
		case SignalingStateHaveLocalPranswer:
			if s.st[x] == SignalingStateHaveLocalOffer && rapid.IntRange(0, 1).Draw(r, "peerPranswer") == 0 {
				return vfFamAOp{K: vfFamAKSetRemote, X: x, T: vfFamATPranswer}, true
			}
			return vfFamAOp{K: vfFamAKSetLocal, X: y, T: vfFamATAnswer, Src: rapid.IntRange(0, 1).Draw(r, "src01")}, true
		}
	}
	for k := 0; k < 2; k++ {
		x := (first + k) & 1
		y := 1 - x
		if s.st[x] == SignalingStateHaveLocalOffer && s.st[y] == SignalingStateStable {
			if s.ansReady[y] {
				return vfFamAOp{K: vfFamAKSetRemote, X: x, T: vfFamATAnswer}, true
			}
			return vfFamAOp{K: vfFamAKSetRemote, X: y, T: vfFamATOffer}, true
		}
	}
	if s.st[0] == SignalingStateStable && s.st[1] == SignalingStateStable {
		x := first
		if !s.offerReady[x] {
			return vfFamAOp{K: vfFamAKOffer, X: x}, true
		}
		return vfFamAOp{K: vfFamAKSetLocal, X: x, T: vfFamATOffer, Src: rapid.IntRange(0, 1).Draw(r, "src01")}, true
	}
	if s.rollbackWorks {
		for k := 0; k < 2; k++ {
			x := (first + k) & 1
			if vfFamAMustRollback(s.st[x], true) {
				return vfFamAOp{K: vfFamAKSetLocal, X: x, T: vfFamATRollback}, true
			}
			if vfFamAMustRollback(s.st[x], false) {
				return vfFamAOp{K: vfFamAKSetRemote, X: x, T: vfFamATRollback}, true
			}
		}
	}
	return vfFamAOp{}, false
}

type vfFamAGenOpts struct {
	MaxLen         int
	Rollback       int   // percent of steps that are a rollback aimed at the predicted state (C02); 0 = only the random ones
	BadProb        int   // percent of set-ops that carry an invalid class (C03); 0 for C01
	BadAllow       []int // invalid-class indices that may be drawn for SetLocalDescription
	BadAllowRemote []int // ... for SetRemoteDescription (classes recorded as known findings are left out)
	Invalid        bool  // allow the out-of-enum description type
}

func vfFamAGen(r *rapid.T, o vfFamAGenOpts) vfFamACase {
	c := vfFamACase{InitA: rapid.IntRange(0, 3).Draw(r, "initA"), InitB: rapid.IntRange(0, 3).Draw(r, "initB")}
	n := rapid.IntRange(1, o.MaxLen).Draw(r, "n")
	sim := &vfFamASim{st: [2]SignalingState{SignalingStateStable, SignalingStateStable}, rollbackWorks: rapid.Bool().Draw(r, "simRollbackWorks")}
	kinds := []string{vfFamAKOffer, vfFamAKAnswer, vfFamAKSetLocal, vfFamAKSetLocal, vfFamAKSetLocal, vfFamAKSetLocal,
		vfFamAKSetRemote, vfFamAKSetRemote, vfFamAKSetRemote, vfFamAKSetRemote, vfFamAKAddTr, vfFamAKAddDC}
	types := []int{vfFamATOffer, vfFamATOffer, vfFamATOffer, vfFamATPranswer, vfFamATPranswer, vfFamATAnswer, vfFamATAnswer, vfFamATAnswer, vfFamATRollback, vfFamATRollback}
	srcs := []int{0, 0, 0, 0, 0, 0, 1, 1, 2, 3}
	for i := 0; i < n; i++ {
		var op vfFamAOp
		ok := false
		if rapid.IntRange(0, 99).Draw(r, "mode") < 55 {
			op, ok = sim.progress(r)
		}
		if !ok && o.Rollback > 0 && rapid.IntRange(0, 99).Draw(r, "rb") < o.Rollback {
			x := rapid.IntRange(0, 1).Draw(r, "x")
			if sim.st[x] == SignalingStateStable && sim.st[1-x] != SignalingStateStable && rapid.IntRange(0, 3).Draw(r, "rbOther") != 0 {
				x = 1 - x
			}
			op = vfFamAOp{K: vfFamAKSetLocal, X: x, T: vfFamATRollback, Src: rapid.IntRange(0, 2).Draw(r, "rbText") + 4*rapid.IntRange(0, 2).Draw(r, "variant")}
			if vfFamAMustRollback(sim.st[x], false) != (rapid.IntRange(0, 4).Draw(r, "rbCross") == 0) {
				op.K = vfFamAKSetRemote
			}
			ok = true
		}
		if !ok {
			op = vfFamAOp{K: rapid.SampledFrom(kinds).Draw(r, "k"), X: rapid.IntRange(0, 1).Draw(r, "x")}
			switch op.K {
			case vfFamAKSetLocal, vfFamAKSetRemote:
				op.T = rapid.SampledFrom(types).Draw(r, "t")
				op.Src = rapid.SampledFrom(srcs).Draw(r, "src") + 4*rapid.IntRange(0, 2).Draw(r, "variant")
			case vfFamAKAddTr:
				op.T = rapid.IntRange(0, 1).Draw(r, "dir")
				op.Src = rapid.IntRange(0, 1).Draw(r, "kind")
			}
		}
		if (op.K == vfFamAKSetLocal || op.K == vfFamAKSetRemote) && o.BadProb > 0 {
			if rapid.IntRange(0, 99).Draw(r, "badp") < o.BadProb {
				if o.Invalid && rapid.IntRange(0, 11).Draw(r, "invalidType") == 0 {
					op.T = vfFamATInvalid
				} else {
					allow := o.BadAllow
					if op.K == vfFamAKSetRemote {
						allow = o.BadAllowRemote
					}
					if len(allow) > 0 {
						op.Bad = rapid.SampledFrom(allow).Draw(r, "bad")
					}
				}
			}
		}
		sim.note(op)
		c.Ops = append(c.Ops, op)
	}
	return c
}
