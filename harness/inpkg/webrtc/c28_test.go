package webrtc

// C28 — Sample-based tracks timestamp and sequence RTP without drift.
//
// A TrackLocalStaticSample is bound to a recording TrackLocalWriter (own
// baseTrackLocalContext, no PeerConnection) and fed a generated sequence of samples.  The
// oracle is exact rational arithmetic (math/big) over the durations in nanoseconds:
//
//   ts_k  ==  init + floor( (sum_{i<k} dur_i*(1+drop_i) + dur_k*drop_k) * rate / 1e9 )   (mod 2^32, +-1 tick)
//   all packets captured during WriteSample(k) carry ts_k
//   seq: first packet of sample k = previous packet's seq + 1 + drop_k (mod 2^16), then +1 per packet
//
// "the corresponding duration" of N dropped packets is N times the duration of the sample
// that reports them (that is what the API can know).  How many packets a sample becomes is
// the payloader's business and is not asserted.

import (
	"fmt"
	"math/big"
	"testing"
	"time"

	"github.com/pion/rtp"
	"github.com/pion/webrtc/v4/pkg/media"
	"pgregory.net/rapid"
)

type vfC28Sample struct {
	DurNs int64  `json:"dur_ns"`
	Size  int    `json:"size"`
	Head  uint8  `json:"head"` // first payload byte (selects e.g. the H.264 NAL type)
	Drop  uint16 `json:"drop,omitempty"`
}

type vfC28Case struct {
	Codec   int           `json:"codec"` // index into vfC28Codecs
	HasTS   bool          `json:"has_ts"`
	TS      uint32        `json:"ts"`
	HasSeq  bool          `json:"has_seq"`
	Seq     uint16        `json:"seq"`
	Samples []vfC28Sample `json:"samples"`
}

type vfC28CodecDef struct {
	name   string
	cap    RTPCodecCapability
	custom bool // use WithPayloader(fixed 1000-byte chunks) instead of pion's payloader
}

var vfC28Codecs = []vfC28CodecDef{
	{"opus", RTPCodecCapability{MimeType: MimeTypeOpus, ClockRate: 48000, Channels: 2}, false},
	{"pcmu", RTPCodecCapability{MimeType: MimeTypePCMU, ClockRate: 8000}, false},
	{"pcma", RTPCodecCapability{MimeType: MimeTypePCMA, ClockRate: 8000}, false},
	{"g722", RTPCodecCapability{MimeType: MimeTypeG722, ClockRate: 8000}, false},
	{"vp8", RTPCodecCapability{MimeType: MimeTypeVP8, ClockRate: 90000}, false},
	{"vp9", RTPCodecCapability{MimeType: MimeTypeVP9, ClockRate: 90000, SDPFmtpLine: "profile-id=0"}, false},
	{"h264", RTPCodecCapability{MimeType: MimeTypeH264, ClockRate: 90000, SDPFmtpLine: "level-asymmetry-allowed=1;packetization-mode=1;profile-level-id=42e01f"}, false},
	{"custom44100", RTPCodecCapability{MimeType: "audio/x-vf", ClockRate: 44100, Channels: 2}, true},
	{"custom90000", RTPCodecCapability{MimeType: "video/x-vf", ClockRate: 90000}, true},
}

type vfC28Chunker struct{}

func (vfC28Chunker) Payload(mtu uint16, payload []byte) [][]byte {
	var out [][]byte
	const chunk = 1000
	for len(payload) > 0 {
		n := chunk
		if n > len(payload) {
			n = len(payload)
		}
		out = append(out, append([]byte{}, payload[:n]...))
		payload = payload[n:]
	}
	return out
}

type vfC28Rec struct {
	seq uint16
	ts  uint32
}

type vfC28Writer struct{ got []vfC28Rec }

func (w *vfC28Writer) WriteRTP(h *rtp.Header, payload []byte) (int, error) {
	w.got = append(w.got, vfC28Rec{h.SequenceNumber, h.Timestamp})
	return len(payload) + 12, nil
}

func (w *vfC28Writer) Write(b []byte) (int, error) {
	var p rtp.Packet
	if err := p.Unmarshal(b); err == nil {
		w.got = append(w.got, vfC28Rec{p.SequenceNumber, p.Timestamp})
	}
	return len(b), nil
}

func vfC28Run(v *vfT, c vfC28Case) {
	def := vfC28Codecs[((c.Codec%len(vfC28Codecs))+len(vfC28Codecs))%len(vfC28Codecs)]
	var opts []func(*TrackLocalStaticRTP)
	if c.HasTS {
		opts = append(opts, WithRTPTimestamp(c.TS))
	}
	if c.HasSeq {
		opts = append(opts, WithRTPSequenceNumber(c.Seq))
	}
	if def.custom {
		opts = append(opts, WithPayloader(func(RTPCodecCapability) (rtp.Payloader, error) { return vfC28Chunker{}, nil }))
	}
	track, err := NewTrackLocalStaticSample(def.cap, "t", "s", opts...)
	if err != nil {
		v.Skip("NewTrackLocalStaticSample: " + err.Error())
	}
	w := &vfC28Writer{}
	ctx := &baseTrackLocalContext{
		id: "ctx", ssrc: 0x1234, writeStream: w,
		params: RTPParameters{Codecs: []RTPCodecParameters{{RTPCodecCapability: def.cap, PayloadType: 111}}},
	}
	if _, err := track.Bind(ctx); err != nil {
		v.Skip("Bind: " + err.Error())
	}
	v.Label("codec:" + def.name)
	rate := big.NewInt(int64(def.cap.ClockRate))
	nsPerS := big.NewInt(1_000_000_000)
	mod32 := new(big.Int).Lsh(big.NewInt(1), 32)

	elapsedNs := new(big.Int) // sum_{i<k} dur_i*(1+drop_i)
	haveInit := c.HasTS
	initTS := c.TS
	havePrevSeq := c.HasSeq
	prevSeq := c.Seq - 1 // so that the first packet is expected at c.Seq (+drop)
	fractional, drops, multi, offByOne, emptySamples := 0, 0, 0, 0, 0

	for k, s := range c.Samples {
		drop := s.Drop
		if !haveInit {
			// without WithRTPTimestamp the initial timestamp is random: it is learnt from the first
			// sample, which therefore must not report drops
			drop = 0
		}
		data := make([]byte, s.Size)
		for i := range data {
			data[i] = byte(k*31 + i*7 + 1)
		}
		if len(data) > 0 {
			data[0] = s.Head
		}
		w.got = w.got[:0]
		if err := track.WriteSample(media.Sample{Data: data, Duration: time.Duration(s.DurNs), PrevDroppedPackets: drop}); err != nil {
			v.Violation("C28/write-error", "sample %d: WriteSample returned %v although the writer never fails", k, err)
		}
		got := append([]vfC28Rec{}, w.got...)

		// expected timestamp
		dur := big.NewInt(s.DurNs)
		atNs := new(big.Int).Add(elapsedNs, new(big.Int).Mul(dur, big.NewInt(int64(drop))))
		ticks := new(big.Int).Mul(atNs, rate)
		rem := new(big.Int)
		ticks.QuoRem(ticks, nsPerS, rem) // floor (all operands non-negative)
		ticks.Mod(ticks, mod32)
		if new(big.Int).Mod(new(big.Int).Mul(dur, rate), nsPerS).Sign() != 0 {
			fractional++
		}
		if drop > 0 {
			drops++
		}
		if len(got) > 1 {
			multi++
		}
		if len(got) == 0 {
			emptySamples++
		}
		if len(got) > 0 {
			if !haveInit {
				initTS = got[0].ts - uint32(ticks.Uint64())
				haveInit = true
			}
			want := initTS + uint32(ticks.Uint64())
			for j, g := range got {
				if g.ts != got[0].ts {
					v.Violation("C28/timestamp-differs-within-sample", "sample %d: packet %d has timestamp %d, packet 0 has %d", k, j, g.ts, got[0].ts)
				}
			}
			switch d := int32(got[0].ts - want); {
			case d == 0:
			case d == 1 || d == -1:
				offByOne++
			default:
				class := "C28/timestamp-drift"
				if drop > 0 {
					class = "C28/timestamp-drift/at-drop"
				}
				v.Violation(class, "sample %d (codec %s rate %d): timestamp %d, exact reference %d (init %d + floor(%s ns * rate / 1e9)), difference %d ticks",
					k, def.name, def.cap.ClockRate, got[0].ts, want, initTS, atNs.String(), d)
			}
			// sequence numbers
			for j, g := range got {
				if !havePrevSeq {
					prevSeq = g.seq - 1 - drop
					havePrevSeq = true
				}
				wantSeq := prevSeq + 1
				if j == 0 {
					wantSeq += drop
				}
				if g.seq != wantSeq {
					class := "C28/sequence"
					if j == 0 && drop > 0 {
						class = "C28/sequence/drop-skip"
					}
					v.Violation(class, "sample %d packet %d: sequence number %d, want %d (previous %d, drop %d)", k, j, g.seq, wantSeq, prevSeq, drop)
				}
				prevSeq = g.seq
			}
		} else if drop > 0 && havePrevSeq {
			// no packet came out of this sample; the skipped sequence numbers still count
			prevSeq += drop
		}
		// advance the reference clock: the drops' duration and the sample's own
		elapsedNs.Add(atNs, dur)
	}
	if fractional >= 50 || drops > 0 {
		v.NonTrivial()
	}
	if fractional >= 50 {
		v.Label("fractional>=50")
	}
	if drops > 0 {
		v.Label("with-drops")
	}
	if multi > 0 {
		v.Label("multi-packet-samples")
	}
	if offByOne > 0 {
		v.Label("used-1-tick-tolerance")
	}
	if emptySamples > 0 {
		v.Label("sample-without-packets")
	}
	if !c.HasTS {
		v.Label("random-initial-timestamp")
	}
	if !c.HasSeq {
		v.Label("random-initial-sequence")
	}
	v.Label(fmt.Sprintf("samples:%s", vfC28Bucket(len(c.Samples))))
}

func vfC28Bucket(n int) string {
	switch {
	case n < 10:
		return "1-9"
	case n < 50:
		return "10-49"
	case n < 150:
		return "50-149"
	}
	return "150-400"
}

var vfC28Durations = []int64{
	20_000_000, 20_000_000, 33_333_333, 33_333_333, 33_333_334, 16_666_667, 11_111, 11_112, 11_110, 0,
	3_600_000_000_000, 1, 10_000_000, 23_219_955, 125_000, 124_999, 1_000_000_000, 999_999_999, 41_708_333,
}

func vfC28Gen(v *vfT) vfC28Case {
	var c vfC28Case
	c.Codec = rapid.IntRange(0, len(vfC28Codecs)-1).Draw(v.R, "codec")
	c.HasTS = rapid.IntRange(0, 9).Draw(v.R, "hasTS") != 0
	c.HasSeq = rapid.IntRange(0, 9).Draw(v.R, "hasSeq") != 0
	c.TS = rapid.SampledFrom([]uint32{0, 1, 0xFFFFFFFF, 0xFFFFFC00, 0x80000000, 0x7FFFFFFF, 12345}).Draw(v.R, "ts")
	if rapid.Bool().Draw(v.R, "tsRand") {
		c.TS = rapid.Uint32().Draw(v.R, "ts2")
	}
	c.Seq = rapid.SampledFrom([]uint16{0, 1, 65535, 65530, 32768, 32767, 1000}).Draw(v.R, "seq")
	if rapid.Bool().Draw(v.R, "seqRand") {
		c.Seq = rapid.Uint16().Draw(v.R, "seq2")
	}
	n := rapid.SampledFrom([]int{1, 2, 5, 20, 60, 60, 100, 150, 400}).Draw(v.R, "n")
	if rapid.Bool().Draw(v.R, "nRand") {
		n = rapid.IntRange(1, 400).Draw(v.R, "n2")
	}
	// a case has a "main" duration (as a real stream has a frame rate) with deviations
	mainDur := rapid.SampledFrom(vfC28Durations).Draw(v.R, "mainDur")
	dropProb := rapid.SampledFrom([]int{0, 0, 20, 5, 2}).Draw(v.R, "dropEvery")
	for i := 0; i < n; i++ {
		s := vfC28Sample{DurNs: mainDur}
		switch rapid.IntRange(0, 9).Draw(v.R, "durKind") {
		case 0:
			s.DurNs = rapid.SampledFrom(vfC28Durations).Draw(v.R, "dur")
		case 1:
			s.DurNs = rapid.Int64Range(0, 2_000_000_000).Draw(v.R, "durAny")
		case 2:
			s.DurNs = mainDur + int64(rapid.IntRange(-3, 3).Draw(v.R, "jitter"))
			if s.DurNs < 0 {
				s.DurNs = 0
			}
		}
		s.Size = rapid.SampledFrom([]int{1, 2, 100, 960, 1000, 1187, 1188, 1189, 1200, 2400, 5000}).Draw(v.R, "size")
		if rapid.IntRange(0, 3).Draw(v.R, "sizeRand") == 0 {
			s.Size = rapid.IntRange(1, 5000).Draw(v.R, "size2")
		}
		s.Head = rapid.SampledFrom([]uint8{0x41, 0x65, 0x41, 0x65, 0x10, 0x00, 0x09, 0x0c, 0x67, 0x68, 0x7c, 0x18, 0xff}).Draw(v.R, "head")
		if dropProb > 0 && rapid.IntRange(0, dropProb-1).Draw(v.R, "drop?") == 0 {
			s.Drop = uint16(rapid.IntRange(1, 5).Draw(v.R, "drop"))
		}
		c.Samples = append(c.Samples, s)
	}
	return c
}

func TestVerif_C28_Sequences(t *testing.T) {
	vfProperty(t, "C28", vfOpts{
		Rule: "non-trivial = the sequence has >=50 samples whose duration is not a whole number of RTP ticks at the codec's clock rate, or at least one sample reporting dropped packets",
		Assumptions: []string{
			"durations are 0..1 h (non-negative; duration*rate*(drops) stays far below 2^32 ticks, where the float->uint32 conversion in WriteSample is defined)",
			"the duration that corresponds to N previously dropped packets is N x the duration of the sample reporting them",
			"without WithRTPTimestamp / WithRTPSequenceNumber the initial values are random: they are learnt from the first packet (and the first sample's drop count is forced to 0)",
			"the number of RTP packets a sample yields is the payloader's decision (H.264 AUD/SPS/PPS NALs yield none) and is not asserted",
		},
	}, vfC28Gen, vfC28Run)
}
