package webrtc

// C07 — An answer mirrors the offer's m-sections one-for-one.
//
// Inputs: (1) sound foreign offers from the G-sdp builder (1..6 sections; audio, video,
// application, text, message; direction present or absent; supported / unsupported / mixed
// codec lists; numeric, sparse and token mids) against an answerer with a generated
// MediaEngine and 0..3 pre-added transceivers; (2) offers produced by a second pion
// PeerConnection and munged the way the repo's own tests munge (rename mids, m=video ->
// m=text, remove a direction line, move a payload type).
//
// Oracle (only when SetRemoteDescription and CreateAnswer both succeed): the answer parses,
// has the same number of m-sections as the offer, and section i has the media type and mid of
// offer section i. A section the answerer cannot use (media type other than
// audio/video/application, or no offered codec name registered locally) has port 0. Whether a
// usable section is accepted is not asserted (the answerer may decline). An answer section
// with no a=mid at all is C06's finding (C06/missing-mid/rejected-section); it is counted
// here, not reported (DESIGN.md §4.0, one defect one owner).

import (
	"fmt"
	"strconv"
	"strings"
	"testing"

	"pgregory.net/rapid"
)

type vfC07Pre struct {
	Kind  string      `json:"kind"`
	Dir   string      `json:"dir"` // sendrecv|sendonly|recvonly ; "track" = AddTrack
	Prefs *vfFamBPref `json:"prefs,omitempty"`
}

type vfC07Case struct {
	ME        vfFamBMECfg `json:"me"`
	DefaultME bool        `json:"default_me,omitempty"`
	Sem       int         `json:"sem"`
	Pre       []vfC07Pre  `json:"pre,omitempty"`
	Offer     vfFamBSDP   `json:"offer"`
	AlwaysDC  bool        `json:"always_dc,omitempty"` // Configuration.AlwaysNegotiateDataChannels
	DCWhen    int         `json:"dc_when,omitempty"`   // CreateDataChannel: 0 never, 1 before SetRemoteDescription, 2 between SetRemoteDescription and CreateAnswer
}

func vfC07AddPre(v *vfT, pc *PeerConnection, cfg vfFamBMECfg, def bool, pre []vfC07Pre) {
	for i, p := range pre {
		var err error
		var tr *RTPTransceiver
		if p.Dir == "track" {
			var tl TrackLocal
			tl, err = vfFamBTrack(cfg, def, p.Kind, "pre"+strconv.Itoa(i), "prestream", "")
			if err == nil {
				_, err = pc.AddTrack(tl)
			}
		} else {
			tr, err = pc.AddTransceiverFromKind(vfFamBKind(p.Kind), RTPTransceiverInit{Direction: NewRTPTransceiverDirection(p.Dir)})
		}
		if err != nil {
			v.Label("pre-add-error")
			continue
		}
		if tr != nil && p.Prefs != nil && !def {
			if err := tr.SetCodecPreferences(p.Prefs.List(cfg, p.Kind)); err != nil {
				v.Label("pre-prefs-error")
			}
		}
	}
}

// vfC07Compare applies the oracle to (offer text, answer text). unusable(i) tells whether the
// answerer certainly cannot use offer section i.
func vfC07Compare(v *vfT, offerText, answerText string, unusable func(*vfFamBOSec) (bool, string)) []vfFamBFinding {
	off, err := vfFamBParse(offerText)
	if err != nil {
		v.Skip("offer does not parse with pion/sdp")
	}
	ans, err := vfFamBParse(answerText)
	if err != nil {
		return []vfFamBFinding{{"C07/answer-unparsable", fmt.Sprintf("CreateAnswer returned SDP that pion/sdp rejects: %v\n%s", err, answerText)}}
	}
	var fs []vfFamBFinding
	add := func(class, format string, a ...any) {
		fs = append(fs, vfFamBFinding{class, fmt.Sprintf(format, a...)})
	}
	summary := func(d *vfFamBODesc) string {
		var p []string
		for _, s := range d.Sections {
			p = append(p, fmt.Sprintf("%s(mid=%q,port=%d,dir=%q)", s.Media, s.Mid(), s.Port, s.Dir()))
		}
		return "[" + strings.Join(p, " ") + "]"
	}
	ctx := fmt.Sprintf("offer %s answer %s", summary(off), summary(ans))
	dropClass := func(o *vfFamBOSec) string {
		switch {
		case o.Media != "audio" && o.Media != "video" && o.Media != "application":
			return "C07/dropped-section/unknown-media"
		case o.Media != "application" && len(o.Dirs) == 0:
			return "C07/dropped-section/absent-direction"
		}
		return "C07/dropped-section/other"
	}
	// pair[i] = index of the answer section standing for offer section i, or -1
	pair := make([]int, len(off.Sections))
	switch {
	case len(ans.Sections) == len(off.Sections):
		for i := range pair {
			pair[i] = i
		}
	case len(ans.Sections) < len(off.Sections):
		// Order-preserving alignment (answer sections may lack a mid: C06's finding) that explains
		// the missing sections with as few "other" drops as possible.
		no, na := len(off.Sections), len(ans.Sections)
		const inf = 1 << 20
		cost := make([][]int, no+1)
		for i := range cost {
			cost[i] = make([]int, na+1)
			for j := range cost[i] {
				cost[i][j] = inf
			}
		}
		cost[no][na] = 0
		okPair := func(i, j int) bool {
			o, a := off.Sections[i], ans.Sections[j]
			return (a.Mid() != "" && a.Mid() == o.Mid()) || (a.Mid() == "" && a.Media == o.Media)
		}
		dropCost := func(i int) int {
			if dropClass(off.Sections[i]) == "C07/dropped-section/other" {
				return 100
			}
			return 1
		}
		for i := no - 1; i >= 0; i-- {
			for j := na; j >= 0; j-- {
				best := cost[i+1][j] + dropCost(i)
				if j < na && okPair(i, j) && cost[i+1][j+1] < best {
					best = cost[i+1][j+1]
				}
				if best > inf {
					best = inf
				}
				cost[i][j] = best
			}
		}
		for i, j := 0, 0; i < no; i++ {
			pair[i] = -1
			if j < na && okPair(i, j) && cost[i+1][j+1] <= cost[i+1][j]+dropCost(i) {
				pair[i] = j
				j++
			}
		}
		for i, o := range off.Sections {
			if pair[i] < 0 {
				add(dropClass(o), "answer has %d m-sections for an offer with %d: offer section #%d (%s, mid %q, direction %q) has no counterpart; %s",
					len(ans.Sections), len(off.Sections), i, o.Media, o.Mid(), o.Dir(), ctx)
			}
		}
	default:
		add("C07/extra-section", "answer has %d m-sections for an offer with %d; %s", len(ans.Sections), len(off.Sections), ctx)
		for i := range pair {
			pair[i] = i
		}
	}
	for i, o := range off.Sections {
		if pair[i] < 0 {
			continue
		}
		a := ans.Sections[pair[i]]
		if a.Media != o.Media {
			add("C07/media-type-mismatch", "section #%d: offer m=%s (mid %q) answered with m=%s (mid %q); %s", i, o.Media, o.Mid(), a.Media, a.Mid(), ctx)
		}
		if a.Mid() == "" {
			v.Label("answer-section-without-mid(owned-by-C06)")
		} else if a.Mid() != o.Mid() {
			add("C07/mid-mismatch", "section #%d: offer mid %q answered with mid %q; %s", i, o.Mid(), a.Mid(), ctx)
		}
		if un, why := unusable(o); un && a.Port != 0 {
			add("C07/unusable-section-accepted/"+why, "section #%d (%s, mid %q) cannot be used by the answerer (%s) but the answer has port %d; %s", i, o.Media, o.Mid(), why, a.Port, ctx)
		}
		if a.Port == 0 {
			v.Label("answer-section-rejected")
		} else {
			v.Label("answer-section-accepted")
		}
	}
	return fs
}

// vfC07DC creates a data channel on the answerer when do is set.
func vfC07DC(v *vfT, pc *PeerConnection, do bool) {
	if !do {
		return
	}
	if _, err := pc.CreateDataChannel("vfC07", nil); err != nil {
		v.Label("create-datachannel-error")
		return
	}
	v.Label("answerer:datachannel-created")
}

func vfC07Unusable(cfg vfFamBMECfg, def bool) func(*vfFamBOSec) (bool, string) {
	return func(o *vfFamBOSec) (bool, string) {
		if o.Media != "audio" && o.Media != "video" && o.Media != "application" {
			return true, "unknown-media"
		}
		if o.Media == "application" {
			return false, ""
		}
		c := cfg
		if def {
			c = vfFamBDefaultME()
		}
		for _, rm := range o.Rtpmaps {
			name, _, _ := strings.Cut(rm.Val, "/")
			if c.HasName(o.Media, name) {
				return false, ""
			}
		}
		// static payload types without rtpmap are ignored by pion (codecsFromMediaDescription)
		return true, "no-common-codec"
	}
}

func vfC07Run(v *vfT, c vfC07Case) {
	pc, err := vfFamBNewPC(vfFamBPCOpts{ME: c.ME, DefaultME: c.DefaultME, Semantics: vfFamBSemantics[c.Sem%len(vfFamBSemantics)], AlwaysDC: c.AlwaysDC})
	if err != nil {
		v.Skip("NewPeerConnection: " + err.Error())
	}
	defer func() { _ = pc.Close() }()
	vfC07AddPre(v, pc, c.ME, c.DefaultME, c.Pre)
	vfC07DC(v, pc, c.DCWhen == 1)
	if c.AlwaysDC {
		v.Label("answerer:always-negotiate-datachannels")
	}

	text := c.Offer.Render()
	unknown, absent, unsupported := false, false, false
	un := vfC07Unusable(c.ME, c.DefaultME)
	if od, err := vfFamBParse(text); err == nil {
		for _, s := range od.Sections {
			u, why := un(s)
			switch {
			case u && why == "unknown-media":
				unknown = true
			case u:
				unsupported = true
			}
			if (s.Media == "audio" || s.Media == "video") && len(s.Dirs) == 0 {
				absent = true
			}
		}
	}
	if unknown {
		v.Label("offer:unknown-media")
	}
	if absent {
		v.Label("offer:absent-direction")
	}
	if unsupported {
		v.Label("offer:all-unsupported-section")
	}
	if unknown || absent || unsupported {
		v.NonTrivial()
	}
	v.Label(fmt.Sprintf("offer:sections=%d", len(c.Offer.Sections)))
	if len(c.Pre) > 0 {
		v.Label("answerer:pre-added-transceivers")
	}

	if err := pc.SetRemoteDescription(SessionDescription{Type: SDPTypeOffer, SDP: text}); err != nil {
		v.Label("set-remote-error")
		v.Logf("SetRemoteDescription: %v", err)
		return
	}
	vfC07DC(v, pc, c.DCWhen == 2)
	ans, err := pc.CreateAnswer(nil)
	if err != nil {
		v.Label("create-answer-error")
		v.Logf("CreateAnswer: %v", err)
		return
	}
	v.Label("answer-ok")
	hasApp := false
	for _, sec := range c.Offer.Sections {
		hasApp = hasApp || sec.Media == "application"
	}
	if (c.DCWhen != 0 || c.AlwaysDC) && !hasApp {
		v.Label("answer-ok:datachannel-wanted,media-only-offer")
	}
	vfFamBReport(v, vfC07Compare(v, text, ans.SDP, un))
}

func vfC07GenPre(r *rapid.T, audio, video bool) []vfC07Pre {
	var pre []vfC07Pre
	n := rapid.IntRange(0, 3).Draw(r, "nPre")
	for i := 0; i < n; i++ {
		kind := rapid.SampledFrom([]string{"audio", "video"}).Draw(r, "preKind")
		if (kind == "audio" && !audio) || (kind == "video" && !video) {
			if rapid.IntRange(0, 3).Draw(r, "preUnsupportedKind") != 0 {
				continue
			}
		}
		p := vfC07Pre{Kind: kind, Dir: rapid.SampledFrom([]string{"sendrecv", "sendonly", "recvonly", "track"}).Draw(r, "preDir")}
		if p.Dir != "track" && rapid.IntRange(0, 3).Draw(r, "prePrefs") == 0 {
			pf := vfFamBGenPref(r)
			p.Prefs = &pf
		}
		pre = append(pre, p)
	}
	return pre
}

func TestVerif_C07_Foreign(t *testing.T) {
	vfProperty(t, "C07", vfOpts{
		Rule: "foreign offers (own SDP writer): non-trivial = the offer contains an m-section of unknown media type (text/message), a media section without direction attribute, or a section whose codec names are all unregistered at the answerer; counted only as evidence when CreateAnswer succeeded is visible under label answer-ok",
		Assumptions: []string{
			"pion/sdp v3 is a trusted parser for both the offer and the answer",
			"sound offers only: distinct mids, one payload type = one codec across sections, one extmap id = one URI, BUNDLE lists the offered mids (or no BUNDLE group at all)",
			"'cannot use' is asserted only for media types other than audio/video/application and for sections none of whose codec names is registered locally",
			"an answer section without any a=mid is reported by C06, counted here",
		},
	}, func(v *vfT) vfC07Case {
		r := v.R
		var c vfC07Case
		switch rapid.IntRange(0, 3).Draw(r, "meMode") {
		case 0:
			c.DefaultME = true
		case 1: // audio only
			c.ME = vfFamBGenME(r, vfFamBMEGenOpts{NeedAudio: true, Remap: true, Exts: true})
			var keep []vfFamBMECodec
			for _, cd := range c.ME.Codecs {
				if cd.Kind == "audio" {
					keep = append(keep, cd)
				}
			}
			c.ME.Codecs = keep
		default:
			c.ME = vfFamBGenME(r, vfFamBMEGenOpts{NeedAudio: rapid.Bool().Draw(r, "needAudio"), NeedVideo: rapid.Bool().Draw(r, "needVideo"), Remap: true, Exts: true})
		}
		c.Sem = rapid.IntRange(0, 1).Draw(r, "sem")
		a, vid := c.ME.Kinds()
		if c.DefaultME {
			a, vid = true, true
		}
		c.Pre = vfC07GenPre(r, a, vid)
		c.AlwaysDC = rapid.IntRange(0, 5).Draw(r, "alwaysDC") == 0
		c.DCWhen = rapid.SampledFrom([]int{0, 0, 0, 1, 2}).Draw(r, "dcWhen")
		c.Offer = vfFamBGenSDP(r, vfFamBGenOpts{
			MinSec: 1, MaxSec: 6,
			Medias:    []string{"audio", "audio", "audio", "video", "video", "video", "application", "text", "message"},
			AbsentDir: true, MidStyles: []string{"numeric", "numeric", "sparse", "token", "mixed", "zeropad"},
			NoPlanBMids: c.Sem == 1, RemapPT: true, RemapExt: true, Unsupported: 5, PortZero: 12, BundleOnly: 8, SSRC: true,
		})
		switch rapid.IntRange(0, 14).Draw(r, "bundleMode") {
		case 0:
			c.Offer.Bundle = false
		case 1:
			k := rapid.IntRange(0, len(c.Offer.Sections)-1).Draw(r, "unbundled")
			if k > 0 {
				c.Offer.Sections[k].NoBdl = true
			}
		}
		vfFamBFixBundleOnly(&c.Offer)
		return c
	}, vfC07Run)
}

// ---- second source: offers produced by pion, munged ------------------------------------

type vfC07Munge struct {
	Op   string `json:"op"` // text | message | nodir | token-mids | remap-pt
	Sec  int    `json:"sec"`
	From int    `json:"from,omitempty"`
	To   int    `json:"to,omitempty"`
}

type vfC07MungedCase struct {
	OffererAdds []vfC07Pre   `json:"offerer_adds"`
	OffererDC   bool         `json:"offerer_dc,omitempty"`
	Pre         []vfC07Pre   `json:"pre,omitempty"`
	Munges      []vfC07Munge `json:"munges"`
	AlwaysDC    bool         `json:"always_dc,omitempty"`
	DCWhen      int          `json:"dc_when,omitempty"`
}

func vfC07MungedRun(v *vfT, c vfC07MungedCase) {
	def := vfFamBDefaultME()
	offerer, err := vfFamBNewPC(vfFamBPCOpts{DefaultME: true})
	if err != nil {
		v.Skip("NewPeerConnection: " + err.Error())
	}
	defer func() { _ = offerer.Close() }()
	vfC07AddPre(v, offerer, def, true, c.OffererAdds)
	if c.OffererDC {
		if _, err := offerer.CreateDataChannel("vf", nil); err != nil {
			v.Skip("CreateDataChannel: " + err.Error())
		}
	}
	offer, err := offerer.CreateOffer(nil)
	if err != nil {
		v.Skip("offerer CreateOffer: " + err.Error())
	}
	text := offer.SDP
	_, media := vfFamBSplit(text)
	n := len(media)
	if n == 0 {
		v.Skip("offer without m-sections")
	}
	unknown, absent := false, false
	for _, m := range c.Munges {
		k := m.Sec % n
		isRTP := strings.HasPrefix(media[k][0], "m=audio") || strings.HasPrefix(media[k][0], "m=video")
		switch m.Op {
		case "text", "message":
			if isRTP {
				text = vfFamBSetMedia(text, k, "text")
				unknown = true
			}
		case "nodir":
			if isRTP {
				text = vfFamBSetDirection(text, k, "")
				absent = true
			}
		case "token-mids":
			ren := map[string]string{}
			for i := 0; i < n; i++ {
				ren[strconv.Itoa(i)] = []string{"a", "x-1", "cam", "z9", "m.1", "b+c", "A", "0a"}[i%8]
			}
			text = vfFamBRenameMids(text, ren)
			v.Label("munge:token-mids")
		case "remap-pt":
			if isRTP {
				text = vfFamBRemapPT(text, k, m.From, m.To)
				v.Label("munge:remap-pt")
			}
		}
		_, media = vfFamBSplit(text)
	}
	if unknown {
		v.Label("offer:unknown-media")
	}
	if absent {
		v.Label("offer:absent-direction")
	}
	if unknown || absent {
		v.NonTrivial()
	}
	ansPC, err := vfFamBNewPC(vfFamBPCOpts{DefaultME: true, AlwaysDC: c.AlwaysDC})
	if err != nil {
		v.Skip("NewPeerConnection: " + err.Error())
	}
	defer func() { _ = ansPC.Close() }()
	vfC07AddPre(v, ansPC, def, true, c.Pre)
	vfC07DC(v, ansPC, c.DCWhen == 1)
	if err := ansPC.SetRemoteDescription(SessionDescription{Type: SDPTypeOffer, SDP: text}); err != nil {
		v.Label("set-remote-error")
		v.Logf("SetRemoteDescription: %v", err)
		return
	}
	vfC07DC(v, ansPC, c.DCWhen == 2)
	ans, err := ansPC.CreateAnswer(nil)
	if err != nil {
		v.Label("create-answer-error")
		return
	}
	v.Label("answer-ok")
	if (c.DCWhen != 0 || c.AlwaysDC) && !c.OffererDC {
		v.Label("answer-ok:datachannel-wanted,media-only-offer")
	}
	vfFamBReport(v, vfC07Compare(v, text, ans.SDP, vfC07Unusable(def, true)))
}

func TestVerif_C07_Munged(t *testing.T) {
	vfProperty(t, "C07", vfOpts{
		Rule: "munged pion offers: non-trivial = a section was turned into m=text or lost its direction attribute",
	}, func(v *vfT) vfC07MungedCase {
		r := v.R
		var c vfC07MungedCase
		n := rapid.IntRange(1, 4).Draw(r, "nAdds")
		for i := 0; i < n; i++ {
			c.OffererAdds = append(c.OffererAdds, vfC07Pre{
				Kind: rapid.SampledFrom([]string{"audio", "video"}).Draw(r, "kind"),
				Dir:  rapid.SampledFrom([]string{"sendrecv", "sendonly", "recvonly", "track"}).Draw(r, "dir"),
			})
		}
		c.OffererDC = rapid.Bool().Draw(r, "dc")
		c.Pre = vfC07GenPre(r, true, true)
		c.AlwaysDC = rapid.IntRange(0, 5).Draw(r, "alwaysDC") == 0
		c.DCWhen = rapid.SampledFrom([]int{0, 0, 0, 1, 2}).Draw(r, "dcWhen")
		nm := rapid.IntRange(0, 3).Draw(r, "nMunges")
		for i := 0; i < nm; i++ {
			m := vfC07Munge{Op: rapid.SampledFrom([]string{"text", "nodir", "token-mids", "remap-pt"}).Draw(r, "op"), Sec: rapid.IntRange(0, 5).Draw(r, "sec")}
			if m.Op == "remap-pt" {
				m.From = rapid.SampledFrom([]int{111, 9, 96, 97, 102, 98, 45}).Draw(r, "from")
				m.To = rapid.IntRange(35, 63).Draw(r, "to")
			}
			c.Munges = append(c.Munges, m)
		}
		return c
	}, vfC07MungedRun)
}
