package webrtc

// Family B helpers (C06, C07, C08, C09, C10, C12): validity of generated SDP.
//
//   O-sdp  vfFamBParse + walkers/predicates: parse with pion/sdp v3 (trusted dependency),
//          then walk mids / bundle / direction / codecs (rtpmap, fmtp, rtcp-fb joined by
//          PT) / extmaps / ssrcs / origin with code written here.
//   G-sdp  vfFamBSDP: a structured foreign description rendered to text by the writer in
//          this file (not pion/sdp's marshaller), "sound" generator (RFC 8843 invariants
//          kept), plus text munging of descriptions pion produced.
//   G-me   vfFamBMECfg: MediaEngine configurations (subsets/permutations of the default
//          table, PT remaps, RTX with present/absent primary, header extensions,
//          SetCodecPreferences lists).
//
// Every identifier is prefixed vfFamB. Nothing here asserts anything by itself: the
// predicates return findings, the property files decide which ones belong to their
// statement ("one defect, one owner", DESIGN.md §4.0).

import (
	"encoding/json"
	"fmt"
	"os"
	"sort"
	"strconv"
	"strings"
	"sync"

	"github.com/pion/ice/v4"
	"github.com/pion/interceptor"
	"github.com/pion/sdp/v3"
	"pgregory.net/rapid"
)

// ---------------------------------------------------------------------------------------
// findings and reporting

type vfFamBFinding struct {
	Class string
	Msg   string
}

var (
	vfFamBKnownOnce sync.Once
	vfFamBKnownSet  map[string]bool
)

// vfFamBKnown reports whether a class key is listed as a known finding for this run.
func vfFamBKnown(class string) bool {
	vfFamBKnownOnce.Do(func() {
		vfFamBKnownSet = map[string]bool{}
		var ks []string
		if json.Unmarshal([]byte(os.Getenv("VERIF_KNOWN")), &ks) == nil {
			for _, k := range ks {
				vfFamBKnownSet[k] = true
			}
		}
	})
	return vfFamBKnownSet[class]
}

// vfFamBReport ends the case on the first finding whose class is not a known finding, so
// that a listed defect never shadows a different one in the same case; if every finding is
// known the first one is reported (counted as an excluded known hit).
func vfFamBReport(v *vfT, fs []vfFamBFinding) {
	if len(fs) == 0 {
		return
	}
	for _, f := range fs {
		if !vfFamBKnown(f.Class) {
			v.Violation(f.Class, "%s", f.Msg)
		}
	}
	v.Violation(fs[0].Class, "%s", fs[0].Msg)
}

// ---------------------------------------------------------------------------------------
// O-sdp: inspector

type vfFamBPTAttr struct {
	PT  string // as written ("*" possible for rtcp-fb)
	Val string
}

type vfFamBOExt struct {
	ID  int
	URI string
	Raw string
}

type vfFamBOSec struct {
	Index      int
	Media      string
	Port       int
	Proto      string
	Formats    []string
	Mids       []string
	Dirs       []string
	Setups     []string
	Ufrags     []string
	Pwds       []string
	FPs        []string
	Rtpmaps    []vfFamBPTAttr
	Fmtps      []vfFamBPTAttr
	Fbs        []vfFamBPTAttr
	Extmaps    []vfFamBOExt
	SSRCs      []uint32 // distinct ids of a=ssrc lines, in order of first appearance
	SSRCGroups []string // raw values, e.g. "FID 1 2"
	Msids      []string // raw values "stream track"
	Rids       []string
	Simulcast  []string
}

// Mid returns the (first) mid of the section or "".
func (s *vfFamBOSec) Mid() string {
	if len(s.Mids) == 0 {
		return ""
	}
	return s.Mids[0]
}

// Dir returns the single direction attribute, "" if absent, "multiple" if more than one.
func (s *vfFamBOSec) Dir() string {
	switch len(s.Dirs) {
	case 0:
		return ""
	case 1:
		return s.Dirs[0]
	}
	return "multiple"
}

type vfFamBODesc struct {
	Sections   []*vfFamBOSec
	Groups     []string // a=group values ("BUNDLE 0 1")
	SessUfrag  bool
	SessPwd    bool
	SessFPs    int
	AllowMixed bool
	OriginID   uint64
	OriginVer  uint64
}

// vfFamBParse parses with pion/sdp (trusted) and walks the result.
func vfFamBParse(text string) (*vfFamBODesc, error) {
	var p sdp.SessionDescription
	if err := p.UnmarshalString(text); err != nil {
		return nil, err
	}
	d := &vfFamBODesc{OriginID: p.Origin.SessionID, OriginVer: p.Origin.SessionVersion}
	for _, a := range p.Attributes {
		switch strings.TrimSpace(a.Key) {
		case "group":
			d.Groups = append(d.Groups, a.Value)
		case "ice-ufrag":
			d.SessUfrag = true
		case "ice-pwd":
			d.SessPwd = true
		case "fingerprint":
			d.SessFPs++
		case "extmap-allow-mixed":
			d.AllowMixed = true
		}
	}
	for i, m := range p.MediaDescriptions {
		s := &vfFamBOSec{Index: i, Media: m.MediaName.Media, Port: m.MediaName.Port.Value,
			Proto: strings.Join(m.MediaName.Protos, "/"), Formats: append([]string{}, m.MediaName.Formats...)}
		seenSSRC := map[uint32]bool{}
		for _, a := range m.Attributes {
			key, val := a.Key, a.Value
			switch key {
			case "mid":
				s.Mids = append(s.Mids, val)
			case "sendrecv", "sendonly", "recvonly", "inactive":
				s.Dirs = append(s.Dirs, key)
			case "setup":
				s.Setups = append(s.Setups, val)
			case "ice-ufrag":
				s.Ufrags = append(s.Ufrags, val)
			case "ice-pwd":
				s.Pwds = append(s.Pwds, val)
			case "fingerprint":
				s.FPs = append(s.FPs, val)
			case "rtpmap", "fmtp", "rtcp-fb":
				pt, rest, _ := strings.Cut(val, " ")
				pa := vfFamBPTAttr{PT: pt, Val: rest}
				switch key {
				case "rtpmap":
					s.Rtpmaps = append(s.Rtpmaps, pa)
				case "fmtp":
					s.Fmtps = append(s.Fmtps, pa)
				default:
					s.Fbs = append(s.Fbs, pa)
				}
			case "extmap":
				idp, uri, _ := strings.Cut(val, " ")
				idp, _, _ = strings.Cut(idp, "/")
				uri, _, _ = strings.Cut(uri, " ")
				id, err := strconv.Atoi(idp)
				if err != nil {
					id = -1
				}
				s.Extmaps = append(s.Extmaps, vfFamBOExt{ID: id, URI: uri, Raw: val})
			case "ssrc":
				idp, _, _ := strings.Cut(val, " ")
				if n, err := strconv.ParseUint(idp, 10, 32); err == nil {
					if !seenSSRC[uint32(n)] {
						seenSSRC[uint32(n)] = true
						s.SSRCs = append(s.SSRCs, uint32(n))
					}
				}
			case "ssrc-group":
				s.SSRCGroups = append(s.SSRCGroups, val)
			case "msid":
				s.Msids = append(s.Msids, val)
			case "rid":
				s.Rids = append(s.Rids, val)
			case "simulcast":
				s.Simulcast = append(s.Simulcast, val)
			default:
				// pion writes msid as a property attribute "msid:<stream> <track>"; after a text
				// round trip it is key=msid. Nothing else of interest.
			}
		}
		d.Sections = append(d.Sections, s)
	}
	return d, nil
}

// Bundle returns the mids of the (single) BUNDLE group; n is the number of BUNDLE groups.
func (d *vfFamBODesc) Bundle() (mids []string, n int) {
	for _, g := range d.Groups {
		f := strings.Fields(g)
		if len(f) > 0 && f[0] == "BUNDLE" {
			n++
			if n == 1 {
				mids = f[1:]
			}
		}
	}
	return mids, n
}

// MidList returns the first mid of every section ("" when the section has none).
func (d *vfFamBODesc) MidList() []string {
	out := make([]string, len(d.Sections))
	for i, s := range d.Sections {
		out[i] = s.Mid()
	}
	return out
}

// vfFamBCheckC06 evaluates the C06 statement on one generated description.
// planB: the description is a Plan-B one (no per-track mids; only parse + BUNDLE = section ids).
func vfFamBCheckC06(d *vfFamBODesc, who string) []vfFamBFinding {
	var fs []vfFamBFinding
	add := func(class, format string, a ...any) {
		fs = append(fs, vfFamBFinding{class, who + ": " + fmt.Sprintf(format, a...)})
	}
	seen := map[string]int{}
	var accepted []string
	for _, s := range d.Sections {
		switch {
		case len(s.Mids) == 0 || s.Mids[0] == "":
			if s.Port == 0 {
				add("C06/missing-mid/rejected-section", "m-section #%d (%s, port 0) has no a=mid; mids=%q", s.Index, s.Media, d.MidList())
			} else {
				add("C06/missing-mid/accepted-section", "m-section #%d (%s, port %d) has no a=mid; mids=%q", s.Index, s.Media, s.Port, d.MidList())
			}
			continue
		case len(s.Mids) > 1:
			add("C06/multiple-mid-attributes", "m-section #%d (%s) has %d a=mid attributes %q", s.Index, s.Media, len(s.Mids), s.Mids)
		}
		mid := s.Mids[0]
		if j, dup := seen[mid]; dup {
			// keyed by the later section (the one whose mid was allocated last)
			cls := "C06/dup-mid/media-section"
			if s.Media == "application" {
				cls = "C06/dup-mid/data-section"
			}
			add(cls, "m-sections #%d (%s) and #%d (%s) share mid %q; mids=%q groups=%q", j, d.Sections[j].Media, s.Index, s.Media, mid, d.MidList(), d.Groups)
		} else {
			seen[mid] = s.Index
		}
		if s.Port != 0 {
			accepted = append(accepted, mid)
		}
	}
	bundle, n := d.Bundle()
	if n > 1 {
		add("C06/bundle/multiple-groups", "%d BUNDLE groups: %q", n, d.Groups)
	}
	// BUNDLE lists exactly the mids of the accepted sections, each once.
	cnt := map[string]int{}
	for _, m := range bundle {
		cnt[m]++
	}
	acc := map[string]bool{}
	for _, m := range accepted {
		acc[m] = true
	}
	for _, m := range bundle {
		if cnt[m] > 1 {
			cls := "C06/bundle/mid-listed-twice"
			if len(fs) > 0 && strings.HasPrefix(fs[0].Class, "C06/dup-mid/") {
				cls = fs[0].Class // same observation: the duplicated mid is what is listed twice
			}
			add(cls, "BUNDLE lists mid %q %d times: %q", m, cnt[m], d.Groups)
			break
		}
	}
	for _, m := range bundle {
		if !acc[m] {
			if _, exists := seen[m]; exists {
				add("C06/bundle/lists-rejected-section", "BUNDLE lists mid %q whose m-section has port 0: %q", m, d.Groups)
			} else {
				add("C06/bundle/lists-unknown-mid", "BUNDLE lists mid %q which no m-section carries: %q mids=%q", m, d.Groups, d.MidList())
			}
			break
		}
	}
	for _, m := range accepted {
		if cnt[m] == 0 {
			add("C06/bundle/accepted-section-missing", "accepted m-section with mid %q is not in the BUNDLE group %q (mids=%q)", m, d.Groups, d.MidList())
			break
		}
	}
	// transport attributes of accepted sections
	for _, s := range d.Sections {
		if s.Port == 0 {
			continue
		}
		if !((len(s.Ufrags) > 0 || d.SessUfrag) && (len(s.Pwds) > 0 || d.SessPwd)) {
			add("C06/accepted-section/no-ice-credentials", "accepted m-section #%d (%s) has no ice-ufrag/ice-pwd at media or session level", s.Index, s.Media)
		}
		if len(s.Dirs) != 1 {
			add("C06/accepted-section/direction-count", "accepted m-section #%d (%s) has %d direction attributes %q", s.Index, s.Media, len(s.Dirs), s.Dirs)
		}
		if len(s.Setups) == 0 {
			add("C06/accepted-section/no-setup", "accepted m-section #%d (%s) has no a=setup", s.Index, s.Media)
		}
		if len(s.FPs) == 0 && d.SessFPs == 0 {
			add("C06/accepted-section/no-fingerprint", "accepted m-section #%d (%s) has no a=fingerprint at media or session level", s.Index, s.Media)
		}
	}
	return fs
}

// vfFamBCheckC10 evaluates the C10 statement on every accepted RTP m-section.
// rangeCheck=false: a remote description used an extmap id outside 1..14 (an answer must
// mirror it), so the one-byte range clause is not asserted. orphanRTX: the local
// configuration registered an RTX whose primary is absent (input class for the class key).
// remoteTwice[kind]: a remote description applied before offered one codec (same name, clock,
// channels) under two payload types in a section of that kind (input class for the class key).
// zeroPTPrefs[kind]: a transceiver of that kind got SetCodecPreferences entries with payload type
// 0 ("take the MediaEngine's") and a remote description was applied (input class).
func vfFamBCheckC10(d *vfFamBODesc, who string, rangeCheck bool, orphanRTX bool, remoteTwice, zeroPTPrefs map[string]bool) []vfFamBFinding {
	var fs []vfFamBFinding
	add := func(class, format string, a ...any) {
		fs = append(fs, vfFamBFinding{class, who + ": " + fmt.Sprintf(format, a...)})
	}
	for _, s := range d.Sections {
		if s.Port == 0 || (s.Media != "audio" && s.Media != "video") {
			continue
		}
		listed := map[string]int{}
		for _, f := range s.Formats {
			listed[f]++
		}
		for _, f := range s.Formats {
			if listed[f] > 1 {
				cls := "C10/dup-pt/other"
				switch {
				case orphanRTX && s.Media == "video":
					cls = "C10/dup-pt/filterUnattachedRTX-aliasing"
				case remoteTwice[s.Media]:
					cls = "C10/dup-pt/remote-codec-offered-under-two-pts"
				case zeroPTPrefs[s.Media]:
					cls = "C10/dup-pt/preferences-without-payload-type"
				}
				add(cls, "m-section #%d (%s) lists payload type %s %d times: %q", s.Index, s.Media, f, listed[f], s.Formats)
				break
			}
		}
		for _, pa := range s.Rtpmaps {
			if listed[pa.PT] == 0 {
				add("C10/unlisted-pt/rtpmap", "m-section #%d (%s): a=rtpmap:%s %s refers to a payload type not on the m= line %q", s.Index, s.Media, pa.PT, pa.Val, s.Formats)
				break
			}
		}
		for _, pa := range s.Fmtps {
			if listed[pa.PT] == 0 {
				add("C10/unlisted-pt/fmtp", "m-section #%d (%s): a=fmtp:%s %s refers to a payload type not on the m= line %q", s.Index, s.Media, pa.PT, pa.Val, s.Formats)
				break
			}
		}
		for _, pa := range s.Fbs {
			if pa.PT != "*" && listed[pa.PT] == 0 {
				add("C10/unlisted-pt/rtcp-fb", "m-section #%d (%s): a=rtcp-fb:%s %s refers to a payload type not on the m= line %q", s.Index, s.Media, pa.PT, pa.Val, s.Formats)
				break
			}
		}
		// RTX apt
		for _, rm := range s.Rtpmaps {
			name, _, _ := strings.Cut(rm.Val, "/")
			if !strings.EqualFold(name, "rtx") {
				continue
			}
			for _, fp := range s.Fmtps {
				if fp.PT != rm.PT {
					continue
				}
				for _, kv := range strings.Split(fp.Val, ";") {
					k, val, _ := strings.Cut(strings.TrimSpace(kv), "=")
					if strings.EqualFold(k, "apt") && listed[strings.TrimSpace(val)] == 0 {
						add("C10/rtx-apt-unlisted", "m-section #%d (%s): rtx payload %s has apt=%s which is not on the m= line %q", s.Index, s.Media, rm.PT, val, s.Formats)
					}
				}
			}
		}
		// header extensions
		ids, uris := map[int]string{}, map[string]int{}
		for _, e := range s.Extmaps {
			if prev, dup := ids[e.ID]; dup {
				add("C10/extmap/dup-id", "m-section #%d (%s): extmap id %d used for %q and %q", s.Index, s.Media, e.ID, prev, e.URI)
			}
			ids[e.ID] = e.URI
			if prev, dup := uris[e.URI]; dup {
				add("C10/extmap/dup-uri", "m-section #%d (%s): extension %q mapped twice (ids %d and %d)", s.Index, s.Media, e.URI, prev, e.ID)
			}
			uris[e.URI] = e.ID
			if rangeCheck && (e.ID < 1 || e.ID > 14) {
				add("C10/extmap/id-out-of-range", "m-section #%d (%s): extmap id %d for %q is outside 1..14 although no remote description used a two-byte id", s.Index, s.Media, e.ID, e.URI)
			}
		}
	}
	return fs
}

// vfFamBLegalAnswerDir is the RFC 3264 §6.1 table; an absent offer direction reads as sendrecv.
func vfFamBLegalAnswerDir(offer, answer string) bool {
	if offer == "" {
		offer = "sendrecv"
	}
	switch offer {
	case "sendrecv":
		return answer == "sendrecv" || answer == "sendonly" || answer == "recvonly" || answer == "inactive"
	case "sendonly":
		return answer == "recvonly" || answer == "inactive"
	case "recvonly":
		return answer == "sendonly" || answer == "inactive"
	case "inactive":
		return answer == "inactive"
	}
	return false
}

// ---------------------------------------------------------------------------------------
// G-sdp: structured foreign description + own writer

type vfFamBCodec struct {
	PT    int      `json:"pt"`
	Name  string   `json:"name"` // encoding name as on the rtpmap line ("opus", "VP8", "rtx", ...)
	Clock int      `json:"clock"`
	Ch    int      `json:"ch,omitempty"`
	Fmtp  string   `json:"fmtp,omitempty"`
	FB    []string `json:"fb,omitempty"` // "nack", "nack pli", ...
}

type vfFamBExt struct {
	ID  int    `json:"id"`
	URI string `json:"uri"`
	Dir string `json:"dir,omitempty"`
}

type vfFamBSec struct {
	Media  string        `json:"media"` // audio|video|application|text|message
	Mid    string        `json:"mid"`
	NoMid  bool          `json:"nomid,omitempty"` // drop a=mid (hostile; used by munging tests only)
	Port   int           `json:"port"`
	Dir    string        `json:"dir"`             // one of the 4 directions, "" = absent
	Setup  string        `json:"setup,omitempty"` // "" = absent
	Codecs []vfFamBCodec `json:"codecs,omitempty"`
	Exts   []vfFamBExt   `json:"exts,omitempty"`
	SSRC   uint32        `json:"ssrc,omitempty"` // announce one source (a=ssrc cname/msid + a=msid)
	NoBdl  bool          `json:"nobundle,omitempty"`
	// BundleOnly: offered with port 0 and a=bundle-only and listed in BUNDLE (RFC 8843 §6; what
	// Chrome's max-bundle policy emits for every section but the first). Offers only.
	BundleOnly bool `json:"bundle_only,omitempty"`
}

type vfFamBSDP struct {
	SessID     uint64      `json:"sess_id"`
	SessVer    uint64      `json:"sess_ver"`
	Bundle     bool        `json:"bundle"`
	IceSession bool        `json:"ice_session,omitempty"` // ice-ufrag/pwd at session level instead of media level
	FPSession  bool        `json:"fp_session,omitempty"`  // fingerprint at session level instead of media level
	FPHash     string      `json:"fp_hash,omitempty"`     // "sha-256" (default) | "SHA-256" | "sha-1"...
	AllowMixed bool        `json:"allow_mixed,omitempty"`
	IceLite    bool        `json:"ice_lite,omitempty"`
	Ufrag      string      `json:"ufrag"`
	Pwd        string      `json:"pwd"`
	Sections   []vfFamBSec `json:"sections"`
}

const vfFamBFP = "0F:74:31:25:CB:A2:13:EC:28:6F:6D:2C:61:FF:5D:C2:BC:B9:DB:3D:98:14:8D:1A:BB:EA:33:0C:A4:60:A8:8E"

// Render writes the description as SDP text (CRLF line ends) with this file's own writer.
func (s vfFamBSDP) Render() string {
	var b strings.Builder
	w := func(format string, a ...any) {
		fmt.Fprintf(&b, format, a...)
		b.WriteString("\r\n")
	}
	ver := s.SessVer
	if ver == 0 {
		ver = 2
	}
	id := s.SessID
	if id == 0 {
		id = 4215775240449105457
	}
	w("v=0")
	w("o=- %d %d IN IP4 127.0.0.1", id, ver)
	w("s=-")
	w("t=0 0")
	if s.Bundle {
		var mids []string
		for _, m := range s.Sections {
			if (m.Port != 0 || m.BundleOnly) && !m.NoBdl && !m.NoMid {
				mids = append(mids, m.Mid)
			}
		}
		if len(mids) > 0 {
			w("a=group:BUNDLE %s", strings.Join(mids, " "))
		}
	}
	if s.AllowMixed {
		w("a=extmap-allow-mixed")
	}
	w("a=msid-semantic: WMS *")
	if s.IceLite {
		w("a=ice-lite")
	}
	ufrag, pwd := s.Ufrag, s.Pwd
	if ufrag == "" {
		ufrag = "vfUf"
	}
	if pwd == "" {
		pwd = "vfFamBpasswordvfFamBpassword"
	}
	hash := s.FPHash
	if hash == "" {
		hash = "sha-256"
	}
	if s.IceSession {
		w("a=ice-ufrag:%s", ufrag)
		w("a=ice-pwd:%s", pwd)
	}
	if s.FPSession {
		w("a=fingerprint:%s %s", hash, vfFamBFP)
	}
	for _, m := range s.Sections {
		if m.BundleOnly {
			m.Port = 0
		}
		switch m.Media {
		case "application":
			w("m=application %d UDP/DTLS/SCTP webrtc-datachannel", m.Port)
		case "message":
			w("m=message %d TCP/MSRP *", m.Port)
		default:
			pts := make([]string, 0, len(m.Codecs))
			for _, c := range m.Codecs {
				pts = append(pts, strconv.Itoa(c.PT))
			}
			if len(pts) == 0 {
				pts = []string{"0"}
			}
			w("m=%s %d UDP/TLS/RTP/SAVPF %s", m.Media, m.Port, strings.Join(pts, " "))
		}
		w("c=IN IP4 0.0.0.0")
		if m.BundleOnly {
			w("a=bundle-only")
		}
		if !s.IceSession {
			w("a=ice-ufrag:%s", ufrag)
			w("a=ice-pwd:%s", pwd)
		}
		if !s.FPSession {
			w("a=fingerprint:%s %s", hash, vfFamBFP)
		}
		if m.Setup != "" {
			w("a=setup:%s", m.Setup)
		}
		if !m.NoMid {
			w("a=mid:%s", m.Mid)
		}
		switch m.Media {
		case "application":
			w("a=sctp-port:5000")
			w("a=max-message-size:262144")
			if m.Dir != "" {
				w("a=%s", m.Dir)
			}
			continue
		case "message":
			w("a=path:msrp://127.0.0.1:2855/vfFamB;tcp")
			w("a=accept-types:text/plain")
			if m.Dir != "" {
				w("a=%s", m.Dir)
			}
			continue
		}
		for _, e := range m.Exts {
			if e.Dir != "" {
				w("a=extmap:%d/%s %s", e.ID, e.Dir, e.URI)
			} else {
				w("a=extmap:%d %s", e.ID, e.URI)
			}
		}
		if m.Dir != "" {
			w("a=%s", m.Dir)
		}
		w("a=rtcp-mux")
		for _, c := range m.Codecs {
			if c.Ch > 0 {
				w("a=rtpmap:%d %s/%d/%d", c.PT, c.Name, c.Clock, c.Ch)
			} else {
				w("a=rtpmap:%d %s/%d", c.PT, c.Name, c.Clock)
			}
			for _, f := range c.FB {
				w("a=rtcp-fb:%d %s", c.PT, f)
			}
			if c.Fmtp != "" {
				w("a=fmtp:%d %s", c.PT, c.Fmtp)
			}
		}
		if m.SSRC != 0 {
			w("a=msid:vfFamBstream vfFamBtrack%d", m.SSRC)
			w("a=ssrc:%d cname:vfFamBcname", m.SSRC)
			w("a=ssrc:%d msid:vfFamBstream vfFamBtrack%d", m.SSRC, m.SSRC)
		}
	}
	return b.String()
}

// remote codec universe (what a foreign endpoint may offer); Group: primary codecs may get an RTX
type vfFamBCodecSpec struct {
	Kind  string
	Name  string
	Clock int
	Ch    int
	Fmtp  string
	FB    []string
	PT    int  // customary payload type
	RTXOK bool // an rtx companion makes sense
}

var vfFamBVideoFB = []string{"goog-remb", "ccm fir", "nack", "nack pli", "transport-cc"}

var vfFamBRemoteCodecs = []vfFamBCodecSpec{
	{"audio", "opus", 48000, 2, "minptime=10;useinbandfec=1", []string{"transport-cc"}, 111, false},
	{"audio", "opus", 48000, 2, "", nil, 109, false},
	{"audio", "G722", 8000, 0, "", nil, 9, false},
	{"audio", "PCMU", 8000, 0, "", nil, 0, false},
	{"audio", "PCMA", 8000, 0, "", nil, 8, false},
	{"audio", "telephone-event", 8000, 0, "0-16", nil, 126, false},
	{"audio", "red", 48000, 2, "", nil, 63, false},
	{"audio", "ISAC", 16000, 0, "", nil, 103, false},
	{"audio", "CN", 8000, 0, "", nil, 13, false},
	{"video", "VP8", 90000, 0, "", vfFamBVideoFB, 96, true},
	{"video", "VP9", 90000, 0, "profile-id=0", vfFamBVideoFB, 98, true},
	{"video", "VP9", 90000, 0, "profile-id=2", vfFamBVideoFB, 100, true},
	{"video", "H264", 90000, 0, "level-asymmetry-allowed=1;packetization-mode=1;profile-level-id=42001f", vfFamBVideoFB, 102, true},
	{"video", "H264", 90000, 0, "level-asymmetry-allowed=1;packetization-mode=0;profile-level-id=42e01f", vfFamBVideoFB, 108, true},
	{"video", "H264", 90000, 0, "level-asymmetry-allowed=1;packetization-mode=1;profile-level-id=640c1f", vfFamBVideoFB, 114, true},
	{"video", "AV1", 90000, 0, "", vfFamBVideoFB, 45, true},
	{"video", "H265", 90000, 0, "", vfFamBVideoFB, 116, true},
	{"video", "red", 90000, 0, "", nil, 120, false},
	{"video", "ulpfec", 90000, 0, "", nil, 121, false},
	{"video", "flexfec-03", 90000, 0, "repair-window=10000000", nil, 118, false},
	{"video", "VP8X", 90000, 0, "", []string{"nack"}, 122, false},
}

var vfFamBExtURIs = []string{
	"urn:ietf:params:rtp-hdrext:sdes:mid",
	"urn:ietf:params:rtp-hdrext:sdes:rtp-stream-id",
	"urn:ietf:params:rtp-hdrext:sdes:repaired-rtp-stream-id",
	"http://www.webrtc.org/experiments/rtp-hdrext/abs-send-time",
	"http://www.ietf.org/id/draft-holmer-rmcat-transport-wide-cc-extensions-01",
	"urn:ietf:params:rtp-hdrext:ssrc-audio-level",
	"urn:ietf:params:rtp-hdrext:toffset",
	"urn:3gpp:video-orientation",
	"http://www.webrtc.org/experiments/rtp-hdrext/playout-delay",
	"http://www.webrtc.org/experiments/rtp-hdrext/video-content-type",
	"http://www.webrtc.org/experiments/rtp-hdrext/video-timing",
	"http://www.webrtc.org/experiments/rtp-hdrext/color-space",
	"http://www.webrtc.org/experiments/rtp-hdrext/abs-capture-time",
	"https://aomediacodec.github.io/av1-rtp-spec/#dependency-descriptor-rtp-header-extension",
	"http://www.webrtc.org/experiments/rtp-hdrext/video-layers-allocation00",
	"urn:ietf:params:rtp-hdrext:csrc-audio-level",
}

var vfFamBDirs = []string{"sendrecv", "sendonly", "recvonly", "inactive"}

// vfFamBGenOpts steers the sound generator.
type vfFamBGenOpts struct {
	MinSec, MaxSec int
	Medias         []string // allowed media kinds (weights by repetition)
	AbsentDir      bool     // allow sections without a direction attribute
	MidStyles      []string // numeric | sparse | token | zeropad
	NoPlanBMids    bool     // never use audio/video/data as a mid
	RemapPT        bool     // allow payload types different from the customary ones
	RemapExt       bool     // allow extmap ids permuted / two-byte ids with allow-mixed
	Unsupported    int      // 0 never, else 1-in-N sections carries only codecs nobody registers
	PortZero       int      // 0 never, else 1-in-N sections offered with port 0
	BundleOnly     int      // 0 never, else 1-in-N sections after the first are a=bundle-only (port 0, in BUNDLE)
	SSRC           bool     // announce a source on sending sections
}

// vfFamBGenMid draws the i-th distinct mid of a description in the given style.
func vfFamBGenMids(r *rapid.T, style string, n int, noPlanB bool) []string {
	out := make([]string, 0, n)
	used := map[string]bool{}
	tokens := []string{"a", "x-1", "audio0", "v", "mid_7", "A", "z9", "cam", "0a", "m.1", "data1", "b+c"}
	if !noPlanB {
		tokens = append(tokens, "audio", "video", "data")
	}
	next := 0
	for i := 0; i < n; i++ {
		var m string
		for tries := 0; ; tries++ {
			switch style {
			case "numeric":
				m = strconv.Itoa(next)
				next++
			case "sparse":
				m = strconv.Itoa(rapid.IntRange(0, 12).Draw(r, "sparseMid"))
			case "zeropad":
				m = fmt.Sprintf("%02d", rapid.IntRange(0, 9).Draw(r, "padMid"))
			case "token":
				m = rapid.SampledFrom(tokens).Draw(r, "tokenMid")
			default: // mixed
				switch rapid.IntRange(0, 2).Draw(r, "mixedMidKind") {
				case 0:
					m = strconv.Itoa(rapid.IntRange(0, 9).Draw(r, "mixedNum"))
				case 1:
					m = rapid.SampledFrom(tokens).Draw(r, "mixedTok")
				default:
					m = strconv.Itoa(next)
					next++
				}
			}
			if !used[m] {
				break
			}
			if tries > 40 {
				m = fmt.Sprintf("u%d", i)
				if !used[m] {
					break
				}
			}
		}
		used[m] = true
		out = append(out, m)
	}
	return out
}

// vfFamBPTAlloc keeps "one payload type -> one codec" across all sections of a description.
type vfFamBPTAlloc struct {
	byCodec map[string]int
	used    map[int]bool
	remap   bool
}

func vfFamBNewPTAlloc(remap bool) *vfFamBPTAlloc {
	return &vfFamBPTAlloc{byCodec: map[string]int{}, used: map[int]bool{}, remap: remap}
}

func (a *vfFamBPTAlloc) get(r *rapid.T, key string, customary int) int {
	if pt, ok := a.byCodec[key]; ok {
		return pt
	}
	pt := customary
	if a.remap && customary >= 35 && rapid.IntRange(0, 1).Draw(r, "remapThis") == 1 {
		pt = rapid.IntRange(96, 127).Draw(r, "newPT")
	}
	for a.used[pt] || pt > 127 {
		if pt < 35 || pt >= 127 {
			pt = 35
		} else {
			pt++
		}
	}
	a.used[pt] = true
	a.byCodec[key] = pt
	return pt
}

// vfFamBGenSDP draws a sound foreign offer.
func vfFamBGenSDP(r *rapid.T, o vfFamBGenOpts) vfFamBSDP {
	n := rapid.IntRange(o.MinSec, o.MaxSec).Draw(r, "nSections")
	style := rapid.SampledFrom(o.MidStyles).Draw(r, "midStyle")
	mids := vfFamBGenMids(r, style, n, o.NoPlanBMids)
	s := vfFamBSDP{
		SessID: uint64(rapid.IntRange(1, 1<<30).Draw(r, "sessID")), SessVer: 2, Bundle: true,
		IceSession: rapid.Bool().Draw(r, "iceSession"), FPSession: rapid.Bool().Draw(r, "fpSession"),
		FPHash: rapid.SampledFrom([]string{"sha-256", "sha-256", "SHA-256"}).Draw(r, "fpHash"),
		Ufrag:  "vfUf" + strconv.Itoa(rapid.IntRange(0, 99).Draw(r, "ufragN")), Pwd: "vfFamBpasswordvfFamBpassword",
	}
	pts := vfFamBNewPTAlloc(o.RemapPT)
	// extension ids: one id <-> one URI across the whole description
	extID := map[string]int{}
	perm := rapid.Permutation([]int{1, 2, 3, 4, 5, 6, 7, 8, 9, 10, 11, 12, 13, 14}).Draw(r, "extPerm")
	twoByte := false
	if o.RemapExt && rapid.IntRange(0, 5).Draw(r, "twoByteIDs") == 0 {
		twoByte = true
		s.AllowMixed = true
	}
	nextExt := 0
	getExt := func(uri string) int {
		if id, ok := extID[uri]; ok {
			return id
		}
		var id int
		if !o.RemapExt {
			id = len(extID) + 1
		} else if twoByte && len(extID)%3 == 2 {
			id = 15 + len(extID)
		} else {
			id = perm[nextExt%len(perm)]
			nextExt++
		}
		extID[uri] = id
		return id
	}
	haveApp := false
	setup := rapid.SampledFrom([]string{"actpass", "actpass", "actpass", "active", "passive"}).Draw(r, "setup")
	for i := 0; i < n; i++ {
		media := rapid.SampledFrom(o.Medias).Draw(r, "media")
		if media == "application" && haveApp {
			media = "audio"
		}
		sec := vfFamBSec{Media: media, Mid: mids[i], Port: 9, Setup: setup}
		if o.PortZero > 0 && rapid.IntRange(1, o.PortZero).Draw(r, "portZero") == 1 {
			sec.Port = 0
		} else if o.BundleOnly > 0 && i > 0 && rapid.IntRange(1, o.BundleOnly).Draw(r, "bundleOnly") == 1 {
			sec.BundleOnly = true // only legal behind a section that carries the BUNDLE address; fixed up by the caller
		}
		switch media {
		case "application":
			haveApp = true
		case "message":
			sec.Dir = ""
		default:
			sec.Dir = rapid.SampledFrom(vfFamBDirs).Draw(r, "dir")
			if o.AbsentDir && rapid.IntRange(0, 4).Draw(r, "absentDir") == 0 {
				sec.Dir = ""
			}
			kind := media
			if media == "text" {
				sec.Codecs = []vfFamBCodec{{PT: pts.get(r, "text/t140", 119), Name: "t140", Clock: 1000}}
				if rapid.Bool().Draw(r, "textRed") {
					sec.Codecs = append(sec.Codecs, vfFamBCodec{PT: pts.get(r, "text/red", 124), Name: "red", Clock: 1000})
				}
				break
			}
			unsupportedOnly := o.Unsupported > 0 && rapid.IntRange(1, o.Unsupported).Draw(r, "unsupportedOnly") == 1
			var pool []vfFamBCodecSpec
			for _, c := range vfFamBRemoteCodecs {
				if c.Kind != kind {
					continue
				}
				exotic := c.Name == "ISAC" || c.Name == "CN" || c.Name == "VP8X" || c.Name == "ulpfec" || (c.Name == "red")
				if unsupportedOnly && !exotic {
					continue
				}
				pool = append(pool, c)
			}
			k := rapid.IntRange(1, len(pool)).Draw(r, "nCodecs")
			order := rapid.Permutation(pool).Draw(r, "codecOrder")[:k]
			for _, c := range order {
				key := fmt.Sprintf("%s/%s/%d/%d/%s", c.Kind, c.Name, c.Clock, c.Ch, c.Fmtp)
				pt := pts.get(r, key, c.PT)
				fb := c.FB
				if len(fb) > 0 {
					fb = fb[:rapid.IntRange(0, len(fb)).Draw(r, "nFB")]
				}
				sec.Codecs = append(sec.Codecs, vfFamBCodec{PT: pt, Name: c.Name, Clock: c.Clock, Ch: c.Ch, Fmtp: c.Fmtp, FB: append([]string{}, fb...)})
				if c.RTXOK && rapid.IntRange(0, 2).Draw(r, "withRTX") == 0 {
					rpt := pts.get(r, "rtx-for/"+key, pt+1)
					sec.Codecs = append(sec.Codecs, vfFamBCodec{PT: rpt, Name: "rtx", Clock: c.Clock, Fmtp: "apt=" + strconv.Itoa(pt)})
				}
			}
			ne := rapid.IntRange(0, 6).Draw(r, "nExts")
			uris := rapid.Permutation(vfFamBExtURIs).Draw(r, "extOrder")[:ne]
			for _, u := range uris {
				sec.Exts = append(sec.Exts, vfFamBExt{ID: getExt(u), URI: u})
			}
			if o.SSRC && (sec.Dir == "sendrecv" || sec.Dir == "sendonly" || sec.Dir == "") && rapid.Bool().Draw(r, "announceSSRC") {
				sec.SSRC = uint32(1000 + i)
			}
		}
		s.Sections = append(s.Sections, sec)
	}
	return s
}

// ---------------------------------------------------------------------------------------
// text munging of descriptions pion produced

// vfFamBSplit cuts SDP text into the session part and one block of lines per m-section.
func vfFamBSplit(text string) (session []string, media [][]string) {
	lines := strings.Split(strings.ReplaceAll(text, "\r\n", "\n"), "\n")
	cur := -1
	for _, l := range lines {
		if l == "" {
			continue
		}
		if strings.HasPrefix(l, "m=") {
			media = append(media, []string{l})
			cur++
			continue
		}
		if cur < 0 {
			session = append(session, l)
		} else {
			media[cur] = append(media[cur], l)
		}
	}
	return session, media
}

func vfFamBJoin(session []string, media [][]string) string {
	var b strings.Builder
	for _, l := range session {
		b.WriteString(l + "\r\n")
	}
	for _, m := range media {
		for _, l := range m {
			b.WriteString(l + "\r\n")
		}
	}
	return b.String()
}

// vfFamBStripCandidates removes candidate lines (what the applied text did not contain).
func vfFamBStripCandidates(text string) string {
	sess, media := vfFamBSplit(text)
	for i, m := range media {
		out := m[:0:0]
		for _, l := range m {
			if strings.HasPrefix(l, "a=candidate:") || l == "a=end-of-candidates" {
				continue
			}
			out = append(out, l)
		}
		media[i] = out
	}
	return vfFamBJoin(sess, media)
}

// vfFamBSetDirection rewrites the direction attribute of section idx ("" removes it).
func vfFamBSetDirection(text string, idx int, dir string) string {
	sess, media := vfFamBSplit(text)
	if idx < 0 || idx >= len(media) {
		return text
	}
	out := media[idx][:0:0]
	done := false
	for _, l := range media[idx] {
		switch l {
		case "a=sendrecv", "a=sendonly", "a=recvonly", "a=inactive":
			if !done && dir != "" {
				out = append(out, "a="+dir)
			}
			done = true
			continue
		}
		out = append(out, l)
	}
	if !done && dir != "" {
		out = append(out, "a="+dir)
	}
	media[idx] = out
	return vfFamBJoin(sess, media)
}

// vfFamBRenameMids renames mids (a=mid and the BUNDLE group) through the map.
func vfFamBRenameMids(text string, ren map[string]string) string {
	sess, media := vfFamBSplit(text)
	for i, l := range sess {
		if strings.HasPrefix(l, "a=group:BUNDLE") {
			f := strings.Fields(strings.TrimPrefix(l, "a=group:"))
			for j := 1; j < len(f); j++ {
				if n, ok := ren[f[j]]; ok {
					f[j] = n
				}
			}
			sess[i] = "a=group:" + strings.Join(f, " ")
		}
	}
	for _, m := range media {
		for j, l := range m {
			if strings.HasPrefix(l, "a=mid:") {
				if n, ok := ren[strings.TrimPrefix(l, "a=mid:")]; ok {
					m[j] = "a=mid:" + n
				}
			}
		}
	}
	return vfFamBJoin(sess, media)
}

// vfFamBSetMedia rewrites the media type of section idx (e.g. video -> text).
func vfFamBSetMedia(text string, idx int, mediaType string) string {
	sess, media := vfFamBSplit(text)
	if idx < 0 || idx >= len(media) {
		return text
	}
	f := strings.SplitN(media[idx][0], " ", 2)
	if len(f) == 2 {
		media[idx][0] = "m=" + mediaType + " " + f[1]
	}
	return vfFamBJoin(sess, media)
}

// vfFamBRemapPT renames a payload type inside section idx (m= line, rtpmap/fmtp/rtcp-fb, apt=).
func vfFamBRemapPT(text string, idx int, from, to int) string {
	sess, media := vfFamBSplit(text)
	if idx < 0 || idx >= len(media) {
		return text
	}
	fs, ts := strconv.Itoa(from), strconv.Itoa(to)
	m := media[idx]
	f := strings.Fields(m[0])
	for j := 3; j < len(f); j++ {
		if f[j] == ts {
			return text // target already used: leave untouched (keeps the description sound)
		}
	}
	for j := 3; j < len(f); j++ {
		if f[j] == fs {
			f[j] = ts
		}
	}
	m[0] = strings.Join(f, " ")
	for j := 1; j < len(m); j++ {
		for _, p := range []string{"a=rtpmap:", "a=fmtp:", "a=rtcp-fb:"} {
			if strings.HasPrefix(m[j], p+fs+" ") {
				m[j] = p + ts + strings.TrimPrefix(m[j], p+fs)
			}
		}
		if strings.HasPrefix(m[j], "a=fmtp:") && strings.HasSuffix(m[j], " apt="+fs) {
			m[j] = strings.TrimSuffix(m[j], "apt="+fs) + "apt=" + ts
		}
	}
	return vfFamBJoin(sess, media)
}

// ---------------------------------------------------------------------------------------
// G-me: MediaEngine configurations

type vfFamBMECodec struct {
	Kind  string   `json:"kind"` // audio | video
	Mime  string   `json:"mime"`
	Clock uint32   `json:"clock"`
	Ch    uint16   `json:"ch,omitempty"`
	Fmtp  string   `json:"fmtp,omitempty"`
	FB    []string `json:"fb,omitempty"`
	PT    uint8    `json:"pt"`
}

type vfFamBMEExt struct {
	URI   string   `json:"uri"`
	Audio bool     `json:"audio,omitempty"`
	Video bool     `json:"video,omitempty"`
	Dirs  []string `json:"dirs,omitempty"` // subset of recvonly/sendonly; empty = both
}

type vfFamBMECfg struct {
	Codecs       []vfFamBMECodec `json:"codecs"`
	Exts         []vfFamBMEExt   `json:"exts,omitempty"`
	Interceptors bool            `json:"interceptors,omitempty"` // register the default interceptors (adds feedback + TWCC extension)
}

func vfFamBFeedback(fb []string) []RTCPFeedback {
	var out []RTCPFeedback
	for _, f := range fb {
		t, p, _ := strings.Cut(f, " ")
		out = append(out, RTCPFeedback{Type: t, Parameter: p})
	}
	return out
}

func (c vfFamBMECodec) params() RTPCodecParameters {
	return RTPCodecParameters{
		RTPCodecCapability: RTPCodecCapability{MimeType: c.Mime, ClockRate: c.Clock, Channels: c.Ch, SDPFmtpLine: c.Fmtp, RTCPFeedback: vfFamBFeedback(c.FB)},
		PayloadType:        PayloadType(c.PT),
	}
}

// Build registers the configuration; registration errors are returned (a duplicate PT is
// refused by RegisterCodec: the codec is then simply not registered).
func (c vfFamBMECfg) Build() (*MediaEngine, int) {
	m := &MediaEngine{}
	nerr := 0
	for _, cd := range c.Codecs {
		typ := RTPCodecTypeAudio
		if cd.Kind == "video" {
			typ = RTPCodecTypeVideo
		}
		if err := m.RegisterCodec(cd.params(), typ); err != nil {
			nerr++
		}
	}
	for _, e := range c.Exts {
		var dirs []RTPTransceiverDirection
		for _, d := range e.Dirs {
			dirs = append(dirs, NewRTPTransceiverDirection(d))
		}
		if e.Audio {
			if err := m.RegisterHeaderExtension(RTPHeaderExtensionCapability{URI: e.URI}, RTPCodecTypeAudio, dirs...); err != nil {
				nerr++
			}
		}
		if e.Video {
			if err := m.RegisterHeaderExtension(RTPHeaderExtensionCapability{URI: e.URI}, RTPCodecTypeVideo, dirs...); err != nil {
				nerr++
			}
		}
	}
	return m, nerr
}

// Kinds reports which kinds have at least one registered non-RTX codec.
func (c vfFamBMECfg) Kinds() (audio, video bool) {
	for _, cd := range c.Codecs {
		if strings.HasSuffix(strings.ToLower(cd.Mime), "/rtx") {
			continue
		}
		if cd.Kind == "audio" {
			audio = true
		} else {
			video = true
		}
	}
	return
}

// OrphanRTX reports whether some registered RTX names a primary PT that is not registered
// for the same kind.
func (c vfFamBMECfg) OrphanRTX() bool {
	for _, cd := range c.Codecs {
		if !strings.EqualFold(cd.Mime, MimeTypeRTX) {
			continue
		}
		apt := strings.TrimPrefix(cd.Fmtp, "apt=")
		found := false
		for _, o := range c.Codecs {
			if o.Kind == cd.Kind && strconv.Itoa(int(o.PT)) == apt {
				found = true
			}
		}
		if !found {
			return true
		}
	}
	return false
}

// HasMime reports whether a codec with that encoding name (case-insensitive) is registered for kind.
func (c vfFamBMECfg) HasName(kind, name string) bool {
	for _, cd := range c.Codecs {
		if cd.Kind == kind && strings.EqualFold(cd.Mime, kind+"/"+name) {
			return true
		}
	}
	return false
}

type vfFamBMEGroup struct {
	Primary vfFamBMECodec
	RTX     bool
}

var vfFamBMEVideoFB = []string{"goog-remb", "ccm fir", "nack", "nack pli"}

var vfFamBMETable = []vfFamBMEGroup{
	{vfFamBMECodec{"audio", MimeTypeOpus, 48000, 2, "minptime=10;useinbandfec=1", nil, 111}, false},
	{vfFamBMECodec{"audio", MimeTypeG722, 8000, 0, "", nil, 9}, false},
	{vfFamBMECodec{"audio", MimeTypePCMU, 8000, 0, "", nil, 0}, false},
	{vfFamBMECodec{"audio", MimeTypePCMA, 8000, 0, "", nil, 8}, false},
	{vfFamBMECodec{"video", MimeTypeVP8, 90000, 0, "", vfFamBMEVideoFB, 96}, true},
	{vfFamBMECodec{"video", MimeTypeH264, 90000, 0, "level-asymmetry-allowed=1;packetization-mode=1;profile-level-id=42001f", vfFamBMEVideoFB, 102}, true},
	{vfFamBMECodec{"video", MimeTypeH264, 90000, 0, "level-asymmetry-allowed=1;packetization-mode=0;profile-level-id=42e01f", vfFamBMEVideoFB, 108}, true},
	{vfFamBMECodec{"video", MimeTypeVP9, 90000, 0, "profile-id=0", vfFamBMEVideoFB, 98}, true},
	{vfFamBMECodec{"video", MimeTypeVP9, 90000, 0, "profile-id=2", vfFamBMEVideoFB, 100}, true},
	{vfFamBMECodec{"video", MimeTypeAV1, 90000, 0, "", vfFamBMEVideoFB, 45}, true},
	{vfFamBMECodec{"video", MimeTypeH265, 90000, 0, "", vfFamBMEVideoFB, 116}, true},
}

type vfFamBMEGenOpts struct {
	NeedAudio, NeedVideo bool // at least one primary codec of the kind
	OrphanRTX            bool // allow RTX whose primary is not registered
	FEC                  bool // allow flexfec-03
	Remap                bool // allow PT remaps
	Exts                 bool // draw header extensions
}

// vfFamBGenME draws a MediaEngine configuration.
func vfFamBGenME(r *rapid.T, o vfFamBMEGenOpts) vfFamBMECfg {
	var cfg vfFamBMECfg
	usedPT := map[int]bool{}
	pick := func(customary uint8) uint8 {
		pt := int(customary)
		if o.Remap && rapid.IntRange(0, 2).Draw(r, "meRemap") == 0 {
			pt = rapid.IntRange(96, 127).Draw(r, "mePT")
		}
		for usedPT[pt] || pt > 127 {
			if pt < 35 || pt >= 127 {
				pt = 35
			} else {
				pt++
			}
		}
		usedPT[pt] = true
		return uint8(pt)
	}
	full := rapid.IntRange(0, 3).Draw(r, "meFullDefault") == 0
	orphanOK := o.OrphanRTX && rapid.IntRange(0, 3).Draw(r, "meOrphanCfg") == 0
	order := rapid.Permutation(vfFamBMETable).Draw(r, "meOrder")
	haveA, haveV := false, false
	var flat []vfFamBMECodec
	for _, g := range order {
		take := full || rapid.IntRange(0, 2).Draw(r, "meTake") != 0
		if !take {
			continue // a needed kind that stays empty is forced in below
		}
		p := g.Primary
		p.PT = pick(p.PT)
		if p.Kind == "audio" {
			haveA = true
		} else {
			haveV = true
		}
		rtxMode := 0 // 0 none, 1 attached, 2 orphan
		if g.RTX {
			rtxMode = rapid.IntRange(0, 1).Draw(r, "meRTX")
			if orphanOK && rapid.IntRange(0, 2).Draw(r, "meOrphan") == 0 {
				rtxMode = 2
			}
		}
		rtx := vfFamBMECodec{Kind: "video", Mime: MimeTypeRTX, Clock: 90000}
		switch rtxMode {
		case 1:
			rtx.PT = pick(p.PT + 1)
			rtx.Fmtp = "apt=" + strconv.Itoa(int(p.PT))
			if rapid.IntRange(0, 3).Draw(r, "meRTXFirst") == 0 {
				flat = append(flat, rtx, p)
			} else {
				flat = append(flat, p, rtx)
			}
		case 2:
			rtx.PT = pick(p.PT + 1)
			ghost := pick(p.PT + 2) // reserved, never registered
			rtx.Fmtp = "apt=" + strconv.Itoa(int(ghost))
			if rapid.Bool().Draw(r, "meOrphanFirst") {
				flat = append(flat, rtx, p)
			} else {
				flat = append(flat, p, rtx)
			}
		default:
			flat = append(flat, p)
		}
	}
	for _, g := range vfFamBMETable { // force the needed kinds
		if (g.Primary.Kind == "audio" && o.NeedAudio && !haveA) || (g.Primary.Kind == "video" && o.NeedVideo && !haveV) {
			p := g.Primary
			p.PT = pick(p.PT)
			flat = append(flat, p)
			if p.Kind == "audio" {
				haveA = true
			} else {
				haveV = true
			}
		}
	}
	if o.FEC && haveV && rapid.IntRange(0, 2).Draw(r, "meFEC") == 0 {
		flat = append(flat, vfFamBMECodec{Kind: "video", Mime: MimeTypeFlexFEC03, Clock: 90000, Fmtp: "repair-window=10000000", PT: pick(118)})
	}
	cfg.Codecs = flat
	if o.Exts {
		ne := rapid.IntRange(0, len(vfFamBExtURIs)).Draw(r, "meNExts")
		if rapid.IntRange(0, 2).Draw(r, "meFewExts") != 0 && ne > 5 {
			ne = ne % 6
		}
		uris := rapid.Permutation(vfFamBExtURIs).Draw(r, "meExtOrder")[:ne]
		for _, u := range uris {
			e := vfFamBMEExt{URI: u}
			switch rapid.IntRange(0, 2).Draw(r, "meExtKind") {
			case 0:
				e.Audio = true
			case 1:
				e.Video = true
			default:
				e.Audio, e.Video = true, true
			}
			switch rapid.IntRange(0, 5).Draw(r, "meExtDir") {
			case 0:
				e.Dirs = []string{"recvonly"}
			case 1:
				e.Dirs = []string{"sendonly"}
			}
			cfg.Exts = append(cfg.Exts, e)
		}
	}
	cfg.Interceptors = rapid.IntRange(0, 3).Draw(r, "meInterceptors") == 0
	return cfg
}

// vfFamBDefaultME is the plain default table (what NewPeerConnection uses), as a config value.
func vfFamBDefaultME() vfFamBMECfg {
	var cfg vfFamBMECfg
	for _, g := range vfFamBMETable {
		cfg.Codecs = append(cfg.Codecs, g.Primary)
		if g.RTX {
			cfg.Codecs = append(cfg.Codecs, vfFamBMECodec{Kind: "video", Mime: MimeTypeRTX, Clock: 90000, Fmtp: "apt=" + strconv.Itoa(int(g.Primary.PT)), PT: g.Primary.PT + 1})
		}
	}
	return cfg
}

// vfFamBPref is one SetCodecPreferences list: indices into the registered codecs of the
// transceiver's kind (modulo their count), ZeroPT clears the payload type of that entry
// (documented: 0 = take the MediaEngine's).
type vfFamBPref struct {
	Idx    []int  `json:"idx"`
	ZeroPT []bool `json:"zero_pt,omitempty"`
}

func vfFamBGenPref(r *rapid.T) vfFamBPref {
	n := rapid.IntRange(1, 5).Draw(r, "prefN")
	var p vfFamBPref
	for i := 0; i < n; i++ {
		p.Idx = append(p.Idx, rapid.IntRange(0, 11).Draw(r, "prefIdx"))
		p.ZeroPT = append(p.ZeroPT, rapid.IntRange(0, 7).Draw(r, "prefZeroPT") == 0)
	}
	return p
}

// List resolves the preference list against a configuration.
func (p vfFamBPref) List(cfg vfFamBMECfg, kind string) []RTPCodecParameters {
	var pool []vfFamBMECodec
	for _, c := range cfg.Codecs {
		if c.Kind == kind {
			pool = append(pool, c)
		}
	}
	if len(pool) == 0 {
		return nil
	}
	var out []RTPCodecParameters
	seen := map[int]bool{}
	for i, ix := range p.Idx {
		k := ix % len(pool)
		if seen[k] {
			continue
		}
		seen[k] = true
		cp := pool[k].params()
		if i < len(p.ZeroPT) && p.ZeroPT[i] && cp.PayloadType != 0 && !strings.EqualFold(cp.MimeType, MimeTypeRTX) {
			cp.PayloadType = 0
		}
		out = append(out, cp)
	}
	return out
}

// ---------------------------------------------------------------------------------------
// PeerConnection construction without network dependencies

var (
	vfFamBCertOnce sync.Once
	vfFamBCert     *Certificate
)

type vfFamBPCOpts struct {
	ME          vfFamBMECfg
	DefaultME   bool // ignore ME, use RegisterDefaultCodecs + default interceptors (plain NewPeerConnection)
	Semantics   SDPSemantics
	MediaFP     bool
	AlwaysDC    bool
	AnswerRole  DTLSRole
	LiteAnswers bool
}

// vfFamBNewPC creates a PeerConnection that gathers on loopback only, without mDNS.
func vfFamBNewPC(o vfFamBPCOpts) (*PeerConnection, error) {
	var me *MediaEngine
	if o.DefaultME {
		me = &MediaEngine{}
		if err := me.RegisterDefaultCodecs(); err != nil {
			return nil, err
		}
	} else {
		me, _ = o.ME.Build()
	}
	se := SettingEngine{}
	se.SetICEMulticastDNSMode(ice.MulticastDNSModeDisabled)
	se.SetIncludeLoopbackCandidate(true)
	se.SetInterfaceFilter(func(name string) bool { return name == "lo" })
	se.SetNetworkTypes([]NetworkType{NetworkTypeUDP4})
	se.SetSDPMediaLevelFingerprints(o.MediaFP)
	opts := []func(*API){WithMediaEngine(me), WithSettingEngine(se)}
	if !(o.DefaultME || o.ME.Interceptors) {
		opts = append(opts, WithInterceptorRegistry(&interceptor.Registry{}))
	}
	api := NewAPI(opts...)
	vfFamBCertOnce.Do(func() {
		if pc, err := api.NewPeerConnection(Configuration{}); err == nil {
			c := pc.configuration.Certificates[0]
			vfFamBCert = &c
			_ = pc.Close()
		}
	})
	cfg := Configuration{SDPSemantics: o.Semantics, AlwaysNegotiateDataChannels: o.AlwaysDC}
	if vfFamBCert != nil {
		cfg.Certificates = []Certificate{*vfFamBCert}
	}
	return api.NewPeerConnection(cfg)
}

var vfFamBSemantics = []SDPSemantics{SDPSemanticsUnifiedPlan, SDPSemanticsUnifiedPlanWithFallback}

// vfFamBTrack makes a static sample track of the kind using the first registered codec.
func vfFamBTrack(cfg vfFamBMECfg, defaultME bool, kind string, id, stream, rid string) (TrackLocal, error) {
	capab := RTPCodecCapability{MimeType: MimeTypeOpus, ClockRate: 48000, Channels: 2}
	if kind == "video" {
		capab = RTPCodecCapability{MimeType: MimeTypeVP8, ClockRate: 90000}
	}
	if !defaultME {
		for _, c := range cfg.Codecs {
			if c.Kind == kind && !strings.EqualFold(c.Mime, MimeTypeRTX) && !strings.Contains(strings.ToLower(c.Mime), "flexfec") {
				capab = RTPCodecCapability{MimeType: c.Mime, ClockRate: c.Clock, Channels: c.Ch, SDPFmtpLine: c.Fmtp}
				break
			}
		}
	}
	if rid != "" {
		return NewTrackLocalStaticSample(capab, id, stream, WithRTPStreamID(rid))
	}
	return NewTrackLocalStaticSample(capab, id, stream)
}

func vfFamBKind(kind string) RTPCodecType {
	if kind == "video" {
		return RTPCodecTypeVideo
	}
	return RTPCodecTypeAudio
}

func vfFamBSortedKeys(m map[string]int) []string {
	out := make([]string, 0, len(m))
	for k := range m {
		out = append(out, k)
	}
	sort.Strings(out)
	return out
}

// vfFamBRemoteTwice reports, per media kind, whether some section of the description offers
// one codec (same encoding name, clock rate and channels) under two payload types.
func vfFamBRemoteTwice(d *vfFamBODesc) map[string]bool {
	out := map[string]bool{}
	for _, s := range d.Sections {
		seen := map[string]string{}
		for _, rm := range s.Rtpmaps {
			k := strings.ToLower(rm.Val)
			if strings.HasPrefix(k, "rtx/") {
				continue
			}
			if pt, ok := seen[k]; ok && pt != rm.PT {
				out[s.Media] = true
			}
			seen[k] = rm.PT
		}
	}
	return out
}

// vfFamBRound is one completed (or failed) offer/answer exchange between two PeerConnections
// living in this process. Descriptions are handed over as text without candidate lines, so no
// ICE connection is ever established (nothing in family B needs one).
type vfFamBRound struct {
	Offer, Answer string // as returned by CreateOffer / CreateAnswer
	OfferSeen     string // what the answerer was given (after munging)
	Stage         string // "" = completed, else the call that failed
	Err           error
}

// vfFamBExchange runs offerer.CreateOffer -> SetLocal -> answerer.SetRemote -> CreateAnswer ->
// SetLocal -> offerer.SetRemote. munge (optional) edits the offer text the answerer sees.
// onDesc (optional) is called right after each Create* call, before anything else happens.
func vfFamBExchange(offerer, answerer *PeerConnection, munge func(string) string, onDesc func(kind string, text string)) vfFamBRound {
	var r vfFamBRound
	off, err := offerer.CreateOffer(nil)
	if err != nil {
		r.Stage, r.Err = "create-offer", err
		return r
	}
	r.Offer = off.SDP
	if onDesc != nil {
		onDesc("offer", off.SDP)
	}
	if err = offerer.SetLocalDescription(off); err != nil {
		r.Stage, r.Err = "set-local-offer", err
		return r
	}
	seen := vfFamBStripCandidates(off.SDP)
	if munge != nil {
		seen = munge(seen)
	}
	r.OfferSeen = seen
	if err = answerer.SetRemoteDescription(SessionDescription{Type: SDPTypeOffer, SDP: seen}); err != nil {
		r.Stage, r.Err = "set-remote-offer", err
		return r
	}
	ans, err := answerer.CreateAnswer(nil)
	if err != nil {
		r.Stage, r.Err = "create-answer", err
		return r
	}
	r.Answer = ans.SDP
	if onDesc != nil {
		onDesc("answer", ans.SDP)
	}
	if err = answerer.SetLocalDescription(ans); err != nil {
		r.Stage, r.Err = "set-local-answer", err
		return r
	}
	if err = offerer.SetRemoteDescription(SessionDescription{Type: SDPTypeAnswer, SDP: vfFamBStripCandidates(ans.SDP)}); err != nil {
		r.Stage, r.Err = "set-remote-answer", err
		return r
	}
	return r
}

// ---------------------------------------------------------------------------------------
// foreign-peer histories: one pion PeerConnection against a scripted remote endpoint whose
// descriptions come from the G-sdp writer (used by C06 and C08)

type vfFamBFStep struct {
	Op   string      `json:"op"` // remoteOffer | localOffer | addTrack | addKind | removeTrack | stop | dc
	Kind string      `json:"kind,omitempty"`
	Dir  string      `json:"dir,omitempty"`
	A    int         `json:"a,omitempty"`
	Add  []vfFamBSec `json:"add,omitempty"`  // remoteOffer: m-sections the remote appends
	Dirs []string    `json:"dirs,omitempty"` // remoteOffer: direction per existing section, by index ("=" keep, "-" absent)
	// remoteOffer: local operations between SetRemoteDescription and CreateAnswer
	Between []vfFamBFLocal `json:"between,omitempty"`
}

// vfFamBFLocal is a local operation (addTrack | addKind | removeTrack | stop | dc).
type vfFamBFLocal struct {
	Op   string `json:"op"`
	Kind string `json:"kind,omitempty"`
	Dir  string `json:"dir,omitempty"`
	A    int    `json:"a,omitempty"`
}

type vfFamBFCase struct {
	ME        vfFamBMECfg   `json:"me"`
	DefaultME bool          `json:"default_me,omitempty"`
	Sem       int           `json:"sem"`
	MediaFP   bool          `json:"media_fp,omitempty"`
	AlwaysDC  bool          `json:"always_dc,omitempty"`
	Initial   vfFamBSDP     `json:"initial"`
	Steps     []vfFamBFStep `json:"steps"`
	// Pre: local operations before the first remote offer (transceivers without a mid yet);
	// FirstBetween: local operations between the first SetRemoteDescription and CreateAnswer
	Pre          []vfFamBFLocal `json:"pre,omitempty"`
	FirstBetween []vfFamBFLocal `json:"first_between,omitempty"`
}

type vfFamBFEvent struct {
	Kind          string // offer | answer (generated by the pion side)
	Text          string
	RemoteOffer   string // for answers: the offer text that was applied
	PrevRemote    string // for answers: the previous remote offer text ("" in the first round)
	Step          int
	OddMidSeen    bool // a remote description with a non-numeric or sparse mid has been applied
	LocalAddAfter bool // ... and a local addition succeeded after that
}

func vfFamBMidsOdd(mids []string) bool {
	for i, m := range mids {
		if m != strconv.Itoa(i) {
			return true
		}
	}
	return false
}

// vfFamBSoundAppend appends sec to the remote description, keeping it sound: a fresh mid, no
// payload type meaning two codecs, no extmap id meaning two URIs (conflicting entries are
// dropped from the new section). Returns false when nothing usable is left.
func vfFamBSoundAppend(remote *vfFamBSDP, sec vfFamBSec, usedMids map[string]bool) bool {
	mids := map[string]bool{}
	for m := range usedMids {
		mids[m] = true
	}
	ptCodec := map[int]string{}
	idURI, uriID := map[int]string{}, map[string]int{}
	haveApp := false
	key := func(c vfFamBCodec) string {
		k := fmt.Sprintf("%s/%d/%d/%s", strings.ToLower(c.Name), c.Clock, c.Ch, c.Fmtp)
		return k
	}
	for _, s := range remote.Sections {
		mids[s.Mid] = true
		if s.Media == "application" {
			haveApp = true
		}
		for _, c := range s.Codecs {
			ptCodec[c.PT] = s.Media + "/" + key(c)
		}
		for _, e := range s.Exts {
			idURI[e.ID] = e.URI
			uriID[e.URI] = e.ID
		}
	}
	if sec.Media == "application" && haveApp {
		return false
	}
	for mids[sec.Mid] || sec.Mid == "" {
		sec.Mid += "x"
	}
	var codecs []vfFamBCodec
	kept := map[int]bool{}
	for _, c := range sec.Codecs {
		if prev, ok := ptCodec[c.PT]; ok && prev != sec.Media+"/"+key(c) {
			continue
		}
		codecs = append(codecs, c)
		kept[c.PT] = true
	}
	// an rtx whose primary was dropped goes too
	var codecs2 []vfFamBCodec
	for _, c := range codecs {
		if strings.EqualFold(c.Name, "rtx") {
			apt, _ := strconv.Atoi(strings.TrimPrefix(c.Fmtp, "apt="))
			if !kept[apt] {
				continue
			}
		}
		codecs2 = append(codecs2, c)
	}
	if (sec.Media == "audio" || sec.Media == "video") && len(codecs2) == 0 {
		return false
	}
	sec.Codecs = codecs2
	var exts []vfFamBExt
	for _, e := range sec.Exts {
		if u, ok := idURI[e.ID]; ok && u != e.URI {
			continue
		}
		if id, ok := uriID[e.URI]; ok && id != e.ID {
			continue
		}
		exts = append(exts, e)
	}
	sec.Exts = exts
	remote.Sections = append(remote.Sections, sec)
	return true
}

// vfFamBMirrorSection turns an m-section pion offered into what the scripted remote answers
// (and from then on carries in its own descriptions).
func vfFamBMirrorSection(o *vfFamBOSec) vfFamBSec {
	sec := vfFamBSec{Media: o.Media, Mid: o.Mid(), Port: 9, Setup: "active"}
	switch o.Dir() {
	case "sendrecv":
		sec.Dir = "sendrecv"
	case "sendonly":
		sec.Dir = "recvonly"
	case "recvonly":
		sec.Dir = "sendonly"
	default:
		sec.Dir = "inactive"
	}
	if o.Port == 0 {
		sec.Port = 0
	}
	if o.Media == "application" {
		sec.Dir = ""
		return sec
	}
	fm, fb := map[string]string{}, map[string][]string{}
	for _, f := range o.Fmtps {
		fm[f.PT] = f.Val
	}
	for _, f := range o.Fbs {
		fb[f.PT] = append(fb[f.PT], f.Val)
	}
	for _, rm := range o.Rtpmaps {
		pt, err := strconv.Atoi(rm.PT)
		if err != nil {
			continue
		}
		parts := strings.Split(rm.Val, "/")
		c := vfFamBCodec{PT: pt, Name: parts[0], Fmtp: fm[rm.PT], FB: fb[rm.PT]}
		if len(parts) > 1 {
			c.Clock, _ = strconv.Atoi(parts[1])
		}
		if len(parts) > 2 {
			c.Ch, _ = strconv.Atoi(parts[2])
		}
		sec.Codecs = append(sec.Codecs, c)
	}
	for _, e := range o.Extmaps {
		sec.Exts = append(sec.Exts, vfFamBExt{ID: e.ID, URI: e.URI})
	}
	if sec.Dir == "sendrecv" || sec.Dir == "sendonly" {
		sec.SSRC = uint32(5000 + o.Index)
	}
	return sec
}

// vfFamBRunForeign executes the history; onDesc sees every description the pion side generates.
func vfFamBRunForeign(v *vfT, c vfFamBFCase, onDesc func(ev vfFamBFEvent)) {
	pc, err := vfFamBNewPC(vfFamBPCOpts{ME: c.ME, DefaultME: c.DefaultME, Semantics: vfFamBSemantics[c.Sem%len(vfFamBSemantics)], MediaFP: c.MediaFP, AlwaysDC: c.AlwaysDC})
	if err != nil {
		v.Skip("NewPeerConnection: " + err.Error())
	}
	defer func() { _ = pc.Close() }()
	remote := c.Initial
	remote.Sections = append([]vfFamBSec{}, c.Initial.Sections...)
	remote.SessVer = 2
	started := false // the remote has sent its first offer
	prevRemote := ""
	odd, addAfter := false, false
	trackN := 0
	usedMids := map[string]bool{} // every mid that ever appeared in a description of this session
	dead := false                 // a Set*Description call failed: no caller continues from a half-applied exchange

	local := func(step int, op vfFamBFLocal, where string) {
		var err error
		switch op.Op {
		case "addTrack":
			trackN++
			var tl TrackLocal
			if tl, err = vfFamBTrack(c.ME, c.DefaultME, op.Kind, fmt.Sprintf("lt%d", trackN), "ls", ""); err == nil {
				_, err = pc.AddTrack(tl)
			}
			if err == nil && odd {
				addAfter = true
			}
		case "addKind":
			_, err = pc.AddTransceiverFromKind(vfFamBKind(op.Kind), RTPTransceiverInit{Direction: NewRTPTransceiverDirection(op.Dir)})
			if err == nil && odd {
				addAfter = true
			}
		case "dc":
			_, err = pc.CreateDataChannel(fmt.Sprintf("dc%d", step), nil)
			if err == nil && odd {
				addAfter = true
			}
		case "removeTrack":
			if s := pc.GetSenders(); len(s) > 0 {
				err = pc.RemoveTrack(s[op.A%len(s)])
			}
		case "stop":
			if t := pc.GetTransceivers(); len(t) > 0 {
				err = t[op.A%len(t)].Stop()
			}
		}
		if err != nil {
			v.Label("op-error:" + op.Op)
			v.Logf("step %d %s %s: %v", step, where, op.Op, err)
		} else if where != "" {
			v.Label("local-op:" + where)
		}
	}

	remoteOffer := func(step int, st *vfFamBFStep) {
		if pc.SignalingState() != SignalingStateStable {
			v.Label("skip:not-stable")
			return
		}
		if started && st != nil {
			for i := range remote.Sections {
				if i < len(st.Dirs) && remote.Sections[i].Media != "application" && remote.Sections[i].Media != "message" {
					switch d := st.Dirs[i]; d {
					case "=", "":
					case "-":
						remote.Sections[i].Dir = ""
					default:
						remote.Sections[i].Dir = d
					}
				}
			}
			for _, sec := range st.Add {
				if vfFamBSoundAppend(&remote, sec, usedMids) {
					v.Label("remote:adds-section")
				}
			}
		}
		started = true
		vfFamBFixBundleOnly(&remote)
		for _, sec := range remote.Sections {
			switch {
			case sec.BundleOnly:
				v.Label("remote-offer:bundle-only-section")
			case sec.Port == 0:
				v.Label("remote-offer:rejected-section")
			}
		}
		remote.SessVer++
		text := remote.Render()
		for _, s := range remote.Sections {
			usedMids[s.Mid] = true
		}
		if err := pc.SetRemoteDescription(SessionDescription{Type: SDPTypeOffer, SDP: text}); err != nil {
			v.Label("set-remote-offer-error")
			v.Logf("step %d SetRemoteDescription(offer): %v", step, err)
			dead = true
			return
		}
		var mids []string
		for _, s := range remote.Sections {
			mids = append(mids, s.Mid)
		}
		if vfFamBMidsOdd(mids) {
			odd = true
		}
		between := c.FirstBetween
		if st != nil {
			between = st.Between
		}
		for _, op := range between {
			local(step, op, "between-setremote-and-createanswer")
		}
		ans, err := pc.CreateAnswer(nil)
		if err != nil {
			v.Label("create-answer-error")
			v.Logf("step %d CreateAnswer: %v", step, err)
			dead = true
			return
		}
		v.Label("answer-generated")
		v.Logf("step %d remote offer  %s", step, vfFamBSummary(text))
		v.Logf("step %d local answer  %s", step, vfFamBSummary(ans.SDP))
		onDesc(vfFamBFEvent{Kind: "answer", Text: ans.SDP, RemoteOffer: text, PrevRemote: prevRemote, Step: step, OddMidSeen: odd, LocalAddAfter: addAfter})
		prevRemote = text
		if ad, e := vfFamBParse(ans.SDP); e == nil {
			// later re-offers of the remote use the shared port for sections the answer accepted and
			// port 0 (outside BUNDLE) for those it rejected
			accepted := map[string]bool{}
			for _, a := range ad.Sections {
				if a.Port != 0 && a.Mid() != "" {
					accepted[a.Mid()] = true
				}
			}
			for k := range remote.Sections {
				if remote.Sections[k].BundleOnly {
					remote.Sections[k].BundleOnly = false
					if accepted[remote.Sections[k].Mid] {
						remote.Sections[k].Port = 9
					} else {
						remote.Sections[k].Port = 0
					}
				}
			}
		}
		if err := pc.SetLocalDescription(ans); err != nil {
			v.Label("set-local-answer-error")
			v.Logf("step %d SetLocalDescription(answer): %v", step, err)
			dead = true
		}
	}

	for _, op := range c.Pre {
		local(-1, op, "before-first-remote-offer")
	}
	remoteOffer(-1, nil)
	for i := range c.Steps {
		if dead {
			v.Label("history-ended-at-failed-call")
			return
		}
		st := &c.Steps[i]
		switch st.Op {
		case "remoteOffer":
			remoteOffer(i, st)
		case "localOffer":
			if pc.SignalingState() != SignalingStateStable {
				v.Label("skip:not-stable")
				continue
			}
			off, e := pc.CreateOffer(nil)
			if e != nil {
				v.Label("create-offer-error")
				v.Logf("step %d CreateOffer: %v", i, e)
				continue
			}
			v.Label("offer-generated")
			v.Logf("step %d local offer   %s", i, vfFamBSummary(off.SDP))
			onDesc(vfFamBFEvent{Kind: "offer", Text: off.SDP, Step: i, OddMidSeen: odd, LocalAddAfter: addAfter})
			if e := pc.SetLocalDescription(off); e != nil {
				v.Label("set-local-offer-error")
				dead = true
				continue
			}
			od, e := vfFamBParse(off.SDP)
			if e != nil {
				dead = true
				continue // the monitor has reported it if it matters to its property
			}
			for _, o := range od.Sections {
				usedMids[o.Mid()] = true
			}
			// the remote answers by mirroring; sections it did not know are added to its own state
			ans := remote
			ans.Sections = nil
			known := map[string]int{}
			for k, s := range remote.Sections {
				known[s.Mid] = k
			}
			usable := true
			seenMid := map[string]bool{}
			for _, o := range od.Sections {
				if o.Mid() == "" || seenMid[o.Mid()] {
					// a section without mid or two sections with one mid (C06's findings) cannot be
					// answered by a sound remote; the history ends here
					usable = false
					break
				}
				seenMid[o.Mid()] = true
				m := vfFamBMirrorSection(o)
				if k, ok := known[o.Mid()]; ok && remote.Sections[k].Media == o.Media {
					// keep the remote's own view of a section it already has, only the direction follows the offer
					m2 := remote.Sections[k]
					m2.Setup = "active"
					if m2.BundleOnly { // answers carry the shared port, never bundle-only
						m2.BundleOnly, m2.Port = false, 9
					}
					if o.Port == 0 {
						m2.Port = 0
					}
					if o.Media != "application" {
						m2.Dir = m.Dir
					}
					m = m2
				}
				ans.Sections = append(ans.Sections, m)
			}
			if !usable {
				v.Label("local-offer-unanswerable(missing or duplicate mid)")
				return
			}
			ans.SessVer++
			v.Logf("step %d remote answer %s", i, vfFamBSummary(ans.Render()))
			if e := pc.SetRemoteDescription(SessionDescription{Type: SDPTypeAnswer, SDP: ans.Render()}); e != nil {
				v.Label("set-remote-answer-error")
				v.Logf("step %d SetRemoteDescription(answer): %v", i, e)
				dead = true
				continue
			}
			v.Label("local-offer-round-ok")
			// the remote now carries these sections (as offers: actpass)
			remote.Sections = nil
			for _, m := range ans.Sections {
				m.Setup = "actpass"
				remote.Sections = append(remote.Sections, m)
			}
			remote.SessVer = ans.SessVer
		case "addTrack", "addKind", "dc", "removeTrack", "stop":
			local(i, vfFamBFLocal{Op: st.Op, Kind: st.Kind, Dir: st.Dir, A: st.A}, "")
		}
	}
}

// vfFamBGenForeign draws a foreign-peer history. dirFocus: remote re-offers mostly flip
// directions (C08); otherwise they mostly add sections and the local side adds things (C06).
func vfFamBGenForeign(r *rapid.T, dirFocus bool) vfFamBFCase {
	var c vfFamBFCase
	if rapid.IntRange(0, 2).Draw(r, "defaultME") == 0 {
		c.DefaultME = true
	} else {
		c.ME = vfFamBGenME(r, vfFamBMEGenOpts{NeedAudio: true, NeedVideo: rapid.IntRange(0, 4).Draw(r, "needVideo") != 0, Remap: true, Exts: true})
	}
	c.Sem = rapid.IntRange(0, 1).Draw(r, "sem")
	c.MediaFP = rapid.Bool().Draw(r, "mediaFP")
	c.AlwaysDC = rapid.IntRange(0, 5).Draw(r, "alwaysDC") == 0
	styles := []string{"numeric", "sparse", "token", "mixed", "zeropad"}
	medias := []string{"audio", "audio", "video", "video", "application"}
	if dirFocus {
		styles = []string{"numeric", "numeric", "token", "sparse"}
		medias = []string{"audio", "audio", "video", "video", "video", "application"}
	}
	nInit := rapid.IntRange(1, 3).Draw(r, "nInitial")
	nLater := rapid.IntRange(0, 3).Draw(r, "nLater")
	// browser layout: numeric mids, data section last (highest mid) among the initial sections,
	// offered with port 0 (bundle-only or rejected); the local side then adds something and offers
	browser := !dirFocus && rapid.IntRange(0, 3).Draw(r, "browserLayout") == 0
	if browser {
		styles = []string{"numeric"}
		nInit = rapid.IntRange(2, 3).Draw(r, "nInitialBrowser")
	}
	all := vfFamBGenSDP(r, vfFamBGenOpts{MinSec: nInit + nLater, MaxSec: nInit + nLater, Medias: medias, MidStyles: styles,
		NoPlanBMids: c.Sem == 1, RemapPT: true, RemapExt: true, Unsupported: 10, SSRC: true, AbsentDir: false})
	if browser {
		last := &all.Sections[nInit-1]
		for k := range all.Sections {
			if all.Sections[k].Media == "application" && k != nInit-1 {
				all.Sections[k].Media = "audio"
				all.Sections[k].Dir = "sendrecv"
				all.Sections[k].Codecs = []vfFamBCodec{{PT: 8, Name: "PCMA", Clock: 8000}}
			}
		}
		last.Media, last.Dir, last.Codecs, last.Exts, last.SSRC = "application", "", nil, nil, 0
		switch rapid.IntRange(0, 2).Draw(r, "browserShape") {
		case 0:
			for k := 1; k < len(all.Sections); k++ {
				all.Sections[k].BundleOnly = true
			}
		case 1:
			last.BundleOnly = true
		default:
			last.Port = 0
		}
	} else if !dirFocus {
		// port-zero shapes a sound remote produces: Chrome max-bundle (everything behind the first
		// section bundle-only), single bundle-only sections, a rejected section (also last / with
		// the highest mid)
		switch rapid.IntRange(0, 7).Draw(r, "portZeroShape") {
		case 0, 1:
			for k := 1; k < len(all.Sections); k++ {
				all.Sections[k].BundleOnly = true
			}
		case 2:
			k := rapid.IntRange(0, len(all.Sections)-1).Draw(r, "bundleOnlyAt")
			all.Sections[k].BundleOnly = k > 0
		case 3:
			if nInit > 1 {
				all.Sections[nInit-1].Port = 0
			}
		case 4:
			k := rapid.IntRange(0, len(all.Sections)-1).Draw(r, "rejectedAt")
			if len(all.Sections) > 1 {
				all.Sections[k].Port = 0
			}
		}
		if rapid.IntRange(0, 2).Draw(r, "dataLast") == 0 && nInit > 1 {
			// data section last among the initial ones (the usual browser layout)
			for k := 0; k < nInit-1; k++ {
				if all.Sections[k].Media == "application" {
					all.Sections[k].Media, all.Sections[nInit-1].Media = all.Sections[nInit-1].Media, all.Sections[k].Media
					all.Sections[k].Codecs, all.Sections[nInit-1].Codecs = all.Sections[nInit-1].Codecs, all.Sections[k].Codecs
					all.Sections[k].Exts, all.Sections[nInit-1].Exts = all.Sections[nInit-1].Exts, all.Sections[k].Exts
					all.Sections[k].Dir, all.Sections[nInit-1].Dir = all.Sections[nInit-1].Dir, all.Sections[k].Dir
					all.Sections[k].SSRC, all.Sections[nInit-1].SSRC = all.Sections[nInit-1].SSRC, all.Sections[k].SSRC
					break
				}
			}
		}
	}
	c.Initial = all
	c.Initial.Sections = append([]vfFamBSec{}, all.Sections[:nInit]...)
	later := all.Sections[nInit:]
	genLocal := func(label string) vfFamBFLocal {
		op := vfFamBFLocal{Op: rapid.SampledFrom([]string{"addTrack", "addTrack", "addKind", "addKind", "removeTrack"}).Draw(r, label+"Op")}
		switch op.Op {
		case "addTrack":
			op.Kind = rapid.SampledFrom([]string{"audio", "video"}).Draw(r, label+"Kind")
		case "addKind":
			op.Kind = rapid.SampledFrom([]string{"audio", "video"}).Draw(r, label+"Kind")
			op.Dir = rapid.SampledFrom([]string{"recvonly", "recvonly", "sendrecv", "sendonly"}).Draw(r, label+"Dir")
		default:
			op.A = rapid.IntRange(0, 5).Draw(r, label+"A")
		}
		return op
	}
	if dirFocus {
		// transceivers that exist (without a mid) before the first remote offer, and local
		// operations that fall between SetRemoteDescription and CreateAnswer
		for k := rapid.IntRange(0, 3).Draw(r, "nPre"); k > 0; k-- {
			op := genLocal("pre")
			if op.Op == "removeTrack" {
				op = vfFamBFLocal{Op: "addKind", Kind: "video", Dir: "recvonly"}
			}
			c.Pre = append(c.Pre, op)
		}
		for k := rapid.IntRange(0, 2).Draw(r, "nFirstBetween"); k > 0; k-- {
			c.FirstBetween = append(c.FirstBetween, genLocal("firstBetween"))
		}
	}
	n := rapid.IntRange(2, 8).Draw(r, "nSteps")
	ops := []string{"remoteOffer", "localOffer", "localOffer", "addTrack", "addKind", "dc", "dc", "removeTrack", "stop"}
	if dirFocus {
		ops = []string{"remoteOffer", "remoteOffer", "remoteOffer", "addTrack", "addKind", "removeTrack", "localOffer"}
	}
	for i := 0; i < n; i++ {
		st := vfFamBFStep{Op: rapid.SampledFrom(ops).Draw(r, "op")}
		if browser && i == 0 {
			st.Op = rapid.SampledFrom([]string{"addKind", "addTrack", "addKind", "dc"}).Draw(r, "browserFirst")
		}
		if browser && i == 1 {
			st.Op = "localOffer"
		}
		switch st.Op {
		case "remoteOffer":
			if len(later) > 0 && rapid.IntRange(0, 1).Draw(r, "remoteAdds") == 0 {
				st.Add = []vfFamBSec{later[0]}
				later = later[1:]
			}
			nd := rapid.IntRange(0, 6).Draw(r, "nDirs")
			for k := 0; k < nd; k++ {
				if dirFocus || rapid.IntRange(0, 2).Draw(r, "flip") == 0 {
					st.Dirs = append(st.Dirs, rapid.SampledFrom([]string{"sendrecv", "sendonly", "recvonly", "inactive", "=", "="}).Draw(r, "newDir"))
				} else {
					st.Dirs = append(st.Dirs, "=")
				}
			}
			if dirFocus {
				for k := rapid.IntRange(0, 3).Draw(r, "nBetween"); k > 1; k-- {
					st.Between = append(st.Between, genLocal("between"))
				}
			}
		case "addTrack":
			st.Kind = rapid.SampledFrom([]string{"audio", "video"}).Draw(r, "kind")
		case "addKind":
			st.Kind = rapid.SampledFrom([]string{"audio", "video"}).Draw(r, "kind")
			st.Dir = rapid.SampledFrom([]string{"sendrecv", "sendonly", "recvonly"}).Draw(r, "dir")
		case "removeTrack", "stop":
			st.A = rapid.IntRange(0, 5).Draw(r, "a")
		}
		c.Steps = append(c.Steps, st)
	}
	return c
}

// ---------------------------------------------------------------------------------------
// pion-pair histories: two PeerConnections exchanging descriptions in-process (C06, C09, C10)

type vfFamBPOp struct {
	Op   string `json:"op"`   // negotiate | addTrack | addKind | removeTrack | stop | dc | discardOffer (A=1: applied, then rolled back)
	Peer int    `json:"peer"` // who acts; for negotiate: who offers
	Kind string `json:"kind,omitempty"`
	Dir  string `json:"dir,omitempty"`
	A    int    `json:"a,omitempty"`
}

type vfFamBPSide struct {
	ME        vfFamBMECfg `json:"me"`
	DefaultME bool        `json:"default_me,omitempty"`
	Sem       int         `json:"sem"`
	MediaFP   bool        `json:"media_fp,omitempty"`
	AlwaysDC  bool        `json:"always_dc,omitempty"`
}

type vfFamBPCase struct {
	Sides [2]vfFamBPSide `json:"sides"`
	Ops   []vfFamBPOp    `json:"ops"`
}

type vfFamBPEvent struct {
	Peer      int    // who generated the description
	Kind      string // offer | answer
	Text      string
	OfferSeen string // for answers: the offer text the answerer applied
	Round     int    // number of negotiate ops started so far (1-based)
	Step      int
	Discarded bool // an offer that is never answered (superseded, or applied and rolled back)
}

type vfFamBPStats struct {
	Rounds        int // completed rounds
	Offered       [2]bool
	AddAfterRound bool // a successful addition (track, transceiver, data channel) after the first completed round
}

// vfFamBRunPair executes the history. onDesc sees every generated description; onStep runs
// after every operation (and once before the first) with both connections; munge (optional)
// rewrites the offer text on its way to the answerer.
func vfFamBRunPair(v *vfT, c vfFamBPCase, onDesc func(ev vfFamBPEvent), onStep func(step int, pcs [2]*PeerConnection), munge func(round int, offer string) string) vfFamBPStats {
	var pcs [2]*PeerConnection
	var st vfFamBPStats
	for i := 0; i < 2; i++ {
		s := c.Sides[i]
		pc, err := vfFamBNewPC(vfFamBPCOpts{ME: s.ME, DefaultME: s.DefaultME, Semantics: vfFamBSemantics[s.Sem%len(vfFamBSemantics)], MediaFP: s.MediaFP, AlwaysDC: s.AlwaysDC})
		if err != nil {
			if pcs[0] != nil {
				_ = pcs[0].Close()
			}
			v.Skip("NewPeerConnection: " + err.Error())
		}
		pcs[i] = pc
	}
	defer func() {
		_ = pcs[0].Close()
		_ = pcs[1].Close()
	}()
	if onStep != nil {
		onStep(-1, pcs)
	}
	trackN := 0
	round := 0
	for i, op := range c.Ops {
		p := op.Peer & 1
		pc := pcs[p]
		side := c.Sides[p]
		var err error
		added := false
		switch op.Op {
		case "negotiate":
			if pcs[0].SignalingState() != SignalingStateStable || pcs[1].SignalingState() != SignalingStateStable {
				v.Label("skip:not-stable")
				break
			}
			round++
			var offerSeen string
			rd := round
			r := vfFamBExchange(pcs[p], pcs[1-p], func(s string) string {
				if munge != nil {
					s = munge(rd, s)
				}
				offerSeen = s
				return s
			}, func(kind, text string) {
				ev := vfFamBPEvent{Peer: p, Kind: kind, Text: text, Round: round, Step: i}
				if kind == "answer" {
					ev.Peer = 1 - p
					ev.OfferSeen = offerSeen
				}
				onDesc(ev)
			})
			if r.Stage != "" {
				v.Label("round-failed:" + r.Stage)
				v.Logf("step %d negotiate(offerer %d): %s: %v", i, p, r.Stage, r.Err)
				if onStep != nil {
					onStep(i, pcs)
				}
				return st // a half-applied exchange leaves the pair in a state no caller would continue from
			}
			st.Rounds++
			st.Offered[p] = true
			v.Label("round-ok")
		case "discardOffer":
			if pc.SignalingState() != SignalingStateStable {
				v.Label("skip:not-stable")
				break
			}
			off, e := pc.CreateOffer(nil)
			if e != nil {
				v.Label("discard-offer:create-offer-error")
				break
			}
			onDesc(vfFamBPEvent{Peer: p, Kind: "offer", Text: off.SDP, Round: round, Step: i, Discarded: true})
			if op.A%2 == 1 {
				if e := pc.SetLocalDescription(off); e != nil {
					v.Label("discard-offer:set-local-error")
					v.Logf("step %d discardOffer(peer %d): SetLocalDescription: %v", i, p, e)
					return st
				}
				if e := pc.SetLocalDescription(SessionDescription{Type: SDPTypeRollback}); e != nil {
					v.Label("discard-offer:rollback-error")
					v.Logf("step %d discardOffer(peer %d): rollback: %v", i, p, e)
					return st
				}
				v.Label("discard-offer:rolled-back")
			} else {
				v.Label("discard-offer:superseded")
			}
		case "addTrack":
			trackN++
			var tl TrackLocal
			if tl, err = vfFamBTrack(side.ME, side.DefaultME, op.Kind, fmt.Sprintf("pt%d", trackN), "ps", ""); err == nil {
				_, err = pc.AddTrack(tl)
			}
			added = err == nil
		case "addKind":
			_, err = pc.AddTransceiverFromKind(vfFamBKind(op.Kind), RTPTransceiverInit{Direction: NewRTPTransceiverDirection(op.Dir)})
			added = err == nil
		case "dc":
			_, err = pc.CreateDataChannel(fmt.Sprintf("dc%d", i), nil)
			added = err == nil
		case "removeTrack":
			if s := pc.GetSenders(); len(s) > 0 {
				err = pc.RemoveTrack(s[op.A%len(s)])
			}
		case "stop":
			if t := pc.GetTransceivers(); len(t) > 0 {
				err = t[op.A%len(t)].Stop()
			}
		}
		if added && st.Rounds >= 1 {
			st.AddAfterRound = true
		}
		if err != nil {
			v.Label("op-error:" + op.Op)
			v.Logf("step %d %s(peer %d): %v", i, op.Op, p, err)
		}
		if onStep != nil {
			onStep(i, pcs)
		}
	}
	return st
}

// vfFamBGenPair draws a pair history with minRounds..maxRounds negotiate ops spread over it.
// asym: the peers get different codec sets (audio-only, video-only, single codec), so that one
// side rejects m-sections the other offers.
// discards: offers that are created (optionally applied) and then superseded or rolled back are
// interleaved with the completed rounds.
func vfFamBGenPair(r *rapid.T, minRounds, maxRounds int, customME bool, asym bool, discards bool) vfFamBPCase {
	var c vfFamBPCase
	kinds := [2][]string{{"audio", "video"}, {"audio", "video"}}
	for i := 0; i < 2; i++ {
		s := vfFamBPSide{Sem: rapid.IntRange(0, 1).Draw(r, "sem"), MediaFP: rapid.Bool().Draw(r, "mediaFP"), AlwaysDC: rapid.IntRange(0, 5).Draw(r, "alwaysDC") == 0}
		if customME && rapid.IntRange(0, 1).Draw(r, "customME") == 0 {
			s.ME = vfFamBGenME(r, vfFamBMEGenOpts{NeedAudio: true, NeedVideo: true, Remap: true, Exts: true, FEC: true})
		} else {
			s.DefaultME = true
		}
		if asym {
			switch mode := rapid.IntRange(0, 5).Draw(r, "asymME"); mode {
			case 0, 1, 2, 3:
				full := s.ME
				if s.DefaultME {
					full = vfFamBDefaultME()
				}
				keepKind := "audio"
				if mode == 1 || mode == 3 {
					keepKind = "video"
				}
				var keep []vfFamBMECodec
				for _, cd := range full.Codecs {
					if cd.Kind == keepKind {
						keep = append(keep, cd)
					}
				}
				if mode >= 2 && len(keep) > 0 { // single codec (plus its rtx)
					first := keep[0]
					for _, cd := range keep {
						if !strings.EqualFold(cd.Mime, MimeTypeRTX) {
							first = cd
							break
						}
					}
					one := []vfFamBMECodec{first}
					for _, cd := range keep {
						if strings.EqualFold(cd.Mime, MimeTypeRTX) && cd.Fmtp == "apt="+strconv.Itoa(int(first.PT)) {
							one = append(one, cd)
						}
					}
					keep = one
				}
				s.DefaultME = false
				s.ME = vfFamBMECfg{Codecs: keep, Exts: full.Exts, Interceptors: full.Interceptors}
				kinds[i] = []string{keepKind}
			}
		}
		c.Sides[i] = s
	}
	rounds := rapid.IntRange(minRounds, maxRounds).Draw(r, "rounds")
	offerer := rapid.IntRange(0, 1).Draw(r, "firstOfferer")
	// something to negotiate first
	pre := rapid.IntRange(1, 3).Draw(r, "preOps")
	genLocal := func() vfFamBPOp {
		opNames := []string{"addTrack", "addTrack", "addKind", "addKind", "dc", "removeTrack", "stop"}
		dirs := []string{"sendrecv", "sendonly", "recvonly"}
		if asym {
			// receive-only transceivers survive a rejection by the other side (a sender whose
			// section is rejected makes SetRemoteDescription fail and ends the history)
			opNames = []string{"addKind", "addKind", "addKind", "addKind", "addTrack", "dc", "removeTrack", "stop"}
			dirs = []string{"recvonly", "recvonly", "recvonly", "sendrecv", "sendonly"}
		}
		op := vfFamBPOp{Op: rapid.SampledFrom(opNames).Draw(r, "op"), Peer: rapid.IntRange(0, 1).Draw(r, "peer")}
		switch op.Op {
		case "addTrack":
			op.Kind = rapid.SampledFrom(kinds[op.Peer]).Draw(r, "kind")
		case "addKind":
			op.Kind = rapid.SampledFrom([]string{"audio", "video"}).Draw(r, "kind")
			if op.Dir = rapid.SampledFrom(dirs).Draw(r, "dir"); op.Dir != "recvonly" {
				op.Kind = rapid.SampledFrom(kinds[op.Peer]).Draw(r, "sendKind")
			}
		case "removeTrack", "stop":
			op.A = rapid.IntRange(0, 5).Draw(r, "a")
		}
		return op
	}
	for i := 0; i < pre; i++ {
		op := genLocal()
		if i == 0 {
			op.Peer = offerer // the first offer must not be empty
			if op.Op == "removeTrack" || op.Op == "stop" {
				op.Op, op.Kind = "addTrack", kinds[offerer][0]
			}
		}
		c.Ops = append(c.Ops, op)
	}
	for k := 0; k < rounds; k++ {
		if discards && k > 0 && rapid.IntRange(0, 2).Draw(r, "discardPattern") == 0 {
			// addition, an offer that is never answered, another addition, then the real offer
			for j := 0; j < 2; j++ {
				add := genLocal()
				add.Peer = offerer
				if add.Op == "removeTrack" || add.Op == "stop" || add.Op == "dc" {
					add.Op, add.Kind, add.Dir = "addKind", kinds[offerer][0], "recvonly"
				}
				c.Ops = append(c.Ops, add)
				if j == 0 {
					c.Ops = append(c.Ops, vfFamBPOp{Op: "discardOffer", Peer: offerer, A: rapid.IntRange(0, 1).Draw(r, "rollback")})
				}
			}
		} else if discards && rapid.IntRange(0, 4).Draw(r, "strayDiscard") == 0 {
			c.Ops = append(c.Ops, vfFamBPOp{Op: "discardOffer", Peer: rapid.IntRange(0, 1).Draw(r, "discardPeer"), A: rapid.IntRange(0, 1).Draw(r, "rollback")})
		}
		c.Ops = append(c.Ops, vfFamBPOp{Op: "negotiate", Peer: offerer})
		if rapid.IntRange(0, 3).Draw(r, "sameOffererAgain") != 0 {
			offerer = 1 - offerer
		}
		n := rapid.IntRange(0, 2).Draw(r, "between")
		for j := 0; j < n; j++ {
			c.Ops = append(c.Ops, genLocal())
		}
	}
	return c
}

// vfFamBSummary renders the m-sections of a description on one line (diagnostics only).
func vfFamBSummary(text string) string {
	d, err := vfFamBParse(text)
	if err != nil {
		return "unparsable: " + err.Error()
	}
	var p []string
	for _, s := range d.Sections {
		p = append(p, fmt.Sprintf("%s(mid=%q port=%d %s pts=%v)", s.Media, s.Mid(), s.Port, s.Dir(), s.Formats))
	}
	return strings.Join(p, " ") + fmt.Sprintf(" groups=%q", d.Groups)
}

// vfFamBFixBundleOnly keeps a=bundle-only sound: it needs a BUNDLE group and a section in
// front of it that carries the BUNDLE address (non-zero port, bundled).
func vfFamBFixBundleOnly(d *vfFamBSDP) {
	haveAddress := false
	for k := range d.Sections {
		sec := &d.Sections[k]
		if sec.BundleOnly && (!d.Bundle || !haveAddress || sec.NoBdl) {
			sec.BundleOnly = false
			if sec.Port == 0 {
				sec.Port = 9
			}
		}
		if sec.BundleOnly {
			sec.Port = 0
		}
		if !sec.BundleOnly && sec.Port != 0 && !sec.NoBdl {
			haveAddress = true
		}
	}
}
