package webrtc

// C09 — Mids and m-section order are stable across renegotiations.
//
// Domain: pion-pair renegotiation histories (3..10 rounds, offerers alternating with
// occasional repeats) with AddTrack / AddTransceiverFromKind / RemoveTrack / Stop /
// CreateDataChannel on either side between rounds.
//
// Oracle over the whole history:
//   - per transceiver object (of either peer): once Mid() is non-empty it never changes, and no
//     two transceiver objects of one PeerConnection ever hold the same mid;
//   - a table mid -> index built from every description either peer generated (including
//     offers that were superseded or rolled back and never answered): a later
//     description keeps every mid it contains at the index the table has for it; a mid that is
//     new in a description sits after every index used so far (new sections are appended);
//   - per peer: the mid of a transceiver object that first shows a mid after some description
//     had been generated is not a mid that appeared in an earlier description for a different
//     transceiver object of that peer (no reuse).

import (
	"fmt"
	"testing"

	"pgregory.net/rapid"
)

type vfC09Monitor struct {
	all                       []vfFamBFinding
	index                     map[string]int // mid -> m-section index, from every description seen so far
	maxIndex                  int
	descs                     int
	objMid                    [2]map[*RTPTransceiver]string
	midObj                    [2]map[string]*RTPTransceiver
	history                   []string
	rejected, rejectedNotLast int
	discarded                 int
	// a mid that so far only appeared in a never-answered offer of one peer (value: that peer),
	// the mids each peer has seen in descriptions it generated or was given, and the mids the
	// other peer then allocated independently (input class of the class key)
	onlyUnanswered map[string]int
	seenBy         [2]map[string]bool
	collided       map[string]bool
	descCollided   bool // the description being inspected contains such a mid (it shifts its neighbours too)
}

func vfC09NewMonitor() *vfC09Monitor {
	m := &vfC09Monitor{index: map[string]int{}, maxIndex: -1, onlyUnanswered: map[string]int{}, collided: map[string]bool{}}
	for i := range m.objMid {
		m.seenBy[i] = map[string]bool{}
		m.objMid[i] = map[*RTPTransceiver]string{}
		m.midObj[i] = map[string]*RTPTransceiver{}
	}
	return m
}

func (m *vfC09Monitor) add(class, format string, a ...any) {
	m.all = append(m.all, vfFamBFinding{class, fmt.Sprintf(format, a...)})
}

// addMid files a finding about one mid; when that mid was first handed out in an offer that
// was never answered and the other peer, who never saw it, allocated the same mid on its own,
// the finding belongs to that input class.
func (m *vfC09Monitor) addMid(mid, class, format string, a ...any) {
	if m.collided[mid] || m.descCollided {
		class = "C09/mid-collision-after-unanswered-offer"
	}
	m.add(class, format, a...)
}

func (m *vfC09Monitor) onDesc(ev vfFamBPEvent) {
	d, err := vfFamBParse(ev.Text)
	if err != nil {
		m.add("C09/unparsable", "round %d peer %d %s rejected by pion/sdp: %v", ev.Round, ev.Peer, ev.Kind, err)
		return
	}
	mids := d.MidList()
	for i, sec := range d.Sections {
		if sec.Port == 0 && sec.Media != "application" {
			m.rejected++
			if i < len(d.Sections)-1 {
				m.rejectedNotLast++
			}
		}
	}
	kind := ev.Kind
	if ev.Discarded {
		kind = "offer(never answered)"
		m.discarded++
	}
	who := fmt.Sprintf("round %d peer %d %s mids=%q", ev.Round, ev.Peer, kind, mids)
	m.history = append(m.history, who)
	prevMax := m.maxIndex
	for _, mid := range mids {
		if mid == "" {
			continue
		}
		if owner, ok := m.onlyUnanswered[mid]; ok {
			switch {
			case owner != ev.Peer && !m.seenBy[ev.Peer][mid]:
				m.collided[mid] = true
				delete(m.onlyUnanswered, mid)
			case owner == ev.Peer && !ev.Discarded:
				delete(m.onlyUnanswered, mid)
			}
		} else if _, known := m.index[mid]; !known && ev.Discarded {
			m.onlyUnanswered[mid] = ev.Peer
		}
		m.seenBy[ev.Peer][mid] = true
		if !ev.Discarded {
			m.seenBy[1-ev.Peer][mid] = true
		}
	}
	m.descCollided = false
	for _, mid := range mids {
		m.descCollided = m.descCollided || m.collided[mid]
	}
	defer func() { m.descCollided = false }()
	for i, mid := range mids {
		if mid == "" {
			continue // a section without mid is C06's finding
		}
		if at, ok := m.index[mid]; ok {
			if at != i {
				m.addMid(mid, "C09/position-changed", "%s: mid %q is at index %d, earlier descriptions had it at index %d; history: %q", who, mid, i, at, m.history)
			}
			continue
		}
		if m.descs > 0 && i <= prevMax {
			m.addMid(mid, "C09/new-section-not-appended", "%s: new mid %q sits at index %d although indices up to %d were already used; history: %q", who, mid, i, prevMax, m.history)
		}
		m.index[mid] = i
		if i > m.maxIndex {
			m.maxIndex = i
		}
	}
	m.descs++
}

func (m *vfC09Monitor) onStep(step int, pcs [2]*PeerConnection) {
	for p, pc := range pcs {
		for _, t := range pc.GetTransceivers() {
			mid := t.Mid()
			prev, seen := m.objMid[p][t]
			if seen && prev != "" && mid != prev {
				m.add("C09/transceiver-mid-changed", "after step %d: a transceiver of peer %d changed its mid from %q to %q", step, p, prev, mid)
			}
			m.objMid[p][t] = mid
			if mid == "" {
				continue
			}
			if other, ok := m.midObj[p][mid]; ok && other != t {
				m.addMid(mid, "C09/mid-reused", "after step %d: two transceivers of peer %d hold mid %q; history: %q", step, p, mid, m.history)
			}
			m.midObj[p][mid] = t
		}
	}
}

func TestVerif_C09_Pair(t *testing.T) {
	vfProperty(t, "C09", vfOpts{
		Rule: "non-trivial = at least three completed rounds, both peers have offered, and an addition (track, transceiver or data channel) succeeded after the first completed round",
		Assumptions: []string{
			"pion/sdp v3 is a trusted parser",
			"both peers are pion PeerConnections exchanging descriptions in-process without candidates (no transport needed for the statement)",
			"a history stops at the first round that fails half-way (no caller continues from there)",
			"sections without a=mid are C06's finding and are skipped here",
		},
	}, func(v *vfT) vfFamBPCase {
		return vfFamBGenPair(v.R, 3, 10, true, rapid.IntRange(0, 1).Draw(v.R, "asymmetricPeers") == 0, true)
	}, func(v *vfT, c vfFamBPCase) {
		m := vfC09NewMonitor()
		st := vfFamBRunPair(v, c, m.onDesc, m.onStep, nil)
		v.Label(fmt.Sprintf("rounds-completed=%d", min(st.Rounds, 6)))
		if st.Offered[0] && st.Offered[1] {
			v.Label("both-offered")
		}
		if st.AddAfterRound {
			v.Label("addition-after-first-round")
		}
		if m.discarded > 0 {
			v.Label("history-with-unanswered-offer")
		}
		if len(m.collided) > 0 {
			v.Label("history-with-mid-allocated-independently-by-both-peers")
		}
		if m.rejected > 0 {
			v.Label("history-with-rejected-media-section")
		}
		if m.rejectedNotLast > 0 {
			v.Label("history-with-rejected-media-section-not-last")
		}
		if st.Rounds >= 3 && st.Offered[0] && st.Offered[1] && st.AddAfterRound {
			v.NonTrivial()
		}
		vfFamBReport(v, m.all)
	})
}
