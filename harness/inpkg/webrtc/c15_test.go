package webrtc

// C15 — Negotiated codecs are the remote's offered codecs that match local ones.
//
// Case = local MediaEngine configuration + one sound foreign offer (harness text writer) +
// optional pre-existing sendrecv transceivers + optional identical re-offer. The offer is
// applied with SetRemoteDescription on a real PeerConnection; the negotiated sets are read
// from the MediaEngine (getCodecsByKind after negotiation), from every transceiver's
// Receiver()/Sender().GetParameters().Codecs and through getCodecByPayload.
//
// Oracle = validity predicate with an INDEPENDENT matcher written from the RFC texts
// (vfC15Match below; it does not call internal/fmtp):
//   offered      every negotiated codec equals one remote-offered codec of that kind incl. its
//                payload type (name modulo case, clock, channels with omitted == 1, fmtp verbatim);
//   matched      some locally registered codec of the kind matches it at least partially
//                (name modulo case + clock + channels);
//   exact-first  if some offered non-RTX codec has an unambiguous exact local match, no codec
//                whose best local match is unambiguously partial is negotiated;
//   feedback     its feedback list is (remote feedback) ∩ (feedback of some matching local codec);
//   rtx          an RTX entry is kept only if the payload type its apt names is kept too;
//   resolve      getCodecByPayload(pt) returns the negotiated entry for every negotiated pt,
//                also when another local codec is registered under that number.
// Ambiguous pairs (missing H.264 packetization-mode / profile-level-id, values differing only
// in letter case) never decide exact-first.

import (
	"encoding/hex"
	"fmt"
	"sort"
	"strconv"
	"strings"
	"testing"

	"pgregory.net/rapid"
)

type vfC15Case struct {
	Local   vfFamCLocal `json:"local"`
	Offer   vfFamCOffer `json:"offer"`
	PreA    bool        `json:"pre_audio"` // AddTransceiverFromKind(audio, sendrecv) before the offer
	PreV    bool        `json:"pre_video"`
	Reoffer bool        `json:"reoffer"` // apply the same offer again (needs an answer in between)
}

const (
	vfC15None = iota
	vfC15Partial
	vfC15Ambiguous
	vfC15Exact
)

func vfC15ParseFmtp(line string) map[string]string {
	out := map[string]string{}
	for _, p := range strings.Split(line, ";") {
		p = strings.TrimSpace(p)
		if p == "" {
			continue
		}
		k, v, _ := strings.Cut(p, "=")
		out[strings.ToLower(strings.TrimSpace(k))] = v
	}
	return out
}

func vfC15Ch(ch uint16) uint16 {
	if ch == 0 {
		return 1 // RFC 8866: the channel count may be omitted if it is one
	}
	return ch
}

// vfC15Base: encoding name (case-insensitive), clock rate and channel count agree. l is the
// local registration; a clock rate / channel count it leaves 0 stands for the documented
// default (vfFamCLongForm).
func vfC15Base(kind string, r, l vfFamCCodec) bool {
	l = vfFamCLongForm(kind, l)
	return strings.EqualFold(r.Name, l.Name) && r.Clock == l.Clock && vfC15Ch(r.Ch) == vfC15Ch(l.Ch)
}

// vfC15Match classifies how well remote codec r is matched by local codec l (same kind).
func vfC15Match(kind string, r, l vfFamCCodec) int {
	if !vfC15Base(kind, r, l) {
		return vfC15None
	}
	rp, lp := vfC15ParseFmtp(r.Fmtp), vfC15ParseFmtp(l.Fmtp)
	name := strings.ToLower(r.Name)
	if kind == "video" {
		switch name {
		case "h264":
			// RFC 6184 §8.1: packetization-mode and profile-level-id (profile_idc + profile-iop)
			// must agree; the level may differ. Absent parameters have RFC defaults that pion
			// does not apply, so absence on either side is ambiguous.
			rm, rok := rp["packetization-mode"]
			lm, lok := lp["packetization-mode"]
			rpl, rpok := rp["profile-level-id"]
			lpl, lpok := lp["profile-level-id"]
			if !rok || !lok || !rpok || !lpok {
				return vfC15Ambiguous
			}
			rb, err1 := hex.DecodeString(rpl)
			lb, err2 := hex.DecodeString(lpl)
			if err1 != nil || err2 != nil || len(rb) != 3 || len(lb) != 3 {
				return vfC15Ambiguous
			}
			if rm != lm || rb[0] != lb[0] || rb[1] != lb[1] {
				return vfC15Partial
			}
			return vfC15Exact
		case "vp9", "av1":
			key := "profile-id" // draft-ietf-payload-vp9: absent means profile 0
			if name == "av1" {
				key = "profile" // AV1 RTP spec: absent means profile 0
			}
			rv, ok := rp[key]
			if !ok {
				rv = "0"
			}
			lv, ok := lp[key]
			if !ok {
				lv = "0"
			}
			if rv != lv {
				return vfC15Partial
			}
			return vfC15Exact
		}
	}
	// generic: no shared key with conflicting values
	level := vfC15Exact
	for k, rv := range rp {
		lv, ok := lp[k]
		if !ok || lv == rv {
			continue
		}
		if strings.EqualFold(lv, rv) {
			if level == vfC15Exact {
				level = vfC15Ambiguous
			}
			continue
		}
		return vfC15Partial
	}
	return level
}

func vfC15Best(kind string, r vfFamCCodec, locals []vfFamCCodec) int {
	best := vfC15None
	for _, l := range locals {
		if m := vfC15Match(kind, r, l); m > best {
			best = m
		}
	}
	return best
}

func vfC15FBSet(fb []RTCPFeedback) string {
	s := []string{}
	seen := map[string]bool{}
	for _, f := range fb {
		k := strings.TrimSpace(f.Type + " " + f.Parameter)
		if !seen[k] {
			seen[k] = true
			s = append(s, k)
		}
	}
	sort.Strings(s)
	return strings.Join(s, ",")
}

func vfC15Inter(a, b []string) string {
	var out []RTCPFeedback
	for _, x := range a {
		for _, y := range b {
			if x == y {
				out = append(out, vfFamCFeedback([]string{x})...)
				break
			}
		}
	}
	return vfC15FBSet(out)
}

func vfC15Desc(c RTPCodecParameters) string {
	return fmt.Sprintf("{pt=%d %s/%d/%d fmtp=%q fb=[%s]}", c.PayloadType, c.MimeType, c.ClockRate, c.Channels, c.SDPFmtpLine, vfC15FBSet(c.RTCPFeedback))
}

// vfC15CheckSet applies the per-codec clauses to one observed codec list of a kind.
func vfC15CheckSet(v *vfT, c vfC15Case, kind, where string, got []RTPCodecParameters, fullFeedback bool) {
	locals := c.Local.Audio
	if kind == "video" {
		locals = c.Local.Video
	}
	offered := map[uint8]vfFamCCodec{}
	exactExists := false
	for _, s := range c.Offer.Sections {
		if s.Kind != kind {
			continue
		}
		for _, r := range s.Codecs {
			offered[r.PT] = r
			if !r.isRTX() && vfC15Best(kind, r, locals) == vfC15Exact {
				exactExists = true
			}
		}
	}
	have := map[uint8]bool{}
	for _, n := range got {
		have[uint8(n.PayloadType)] = true
	}
	for _, n := range got {
		r, ok := offered[uint8(n.PayloadType)]
		if !ok {
			v.Violation("C15/"+where+"/not-offered-pt", "%s %s: payload type %d is not in the remote's %s sections; negotiated %s", where, kind, n.PayloadType, kind, vfC15Desc(n))
		}
		gotName := n.MimeType
		if i := strings.Index(gotName, "/"); i >= 0 {
			if !strings.EqualFold(gotName[:i], kind) {
				v.Violation("C15/"+where+"/wrong-kind", "%s %s: negotiated %s", where, kind, vfC15Desc(n))
			}
			gotName = gotName[i+1:]
		}
		if !strings.EqualFold(gotName, r.Name) || n.ClockRate != r.Clock || vfC15Ch(n.Channels) != vfC15Ch(r.Ch) || n.SDPFmtpLine != r.Fmtp {
			// the remote's codec re-labelled with a different payload type?
			for _, o := range offered {
				if o.PT != r.PT && strings.EqualFold(gotName, o.Name) && n.ClockRate == o.Clock && vfC15Ch(n.Channels) == vfC15Ch(o.Ch) && n.SDPFmtpLine == o.Fmtp {
					v.Violation("C15/offered-codec-under-another-pt", "%s %s: %s is what the remote offered as pt %d, but it is listed under pt %d, which the remote uses for %s/%d/%d fmtp=%q", where, kind, vfC15Desc(n), o.PT, r.PT, r.Name, r.Clock, r.Ch, r.Fmtp)
				}
			}
			v.Violation("C15/"+where+"/differs-from-offered", "%s %s: negotiated %s but the remote offered pt %d as %s/%d/%d fmtp=%q", where, kind, vfC15Desc(n), r.PT, r.Name, r.Clock, r.Ch, r.Fmtp)
		}
		best := vfC15Best(kind, r, locals)
		if best == vfC15None {
			for _, l := range locals {
				if ll := vfFamCLongForm(kind, l); strings.EqualFold(l.Name, r.Name) && (ll.Clock != r.Clock || vfC15Ch(ll.Ch) != vfC15Ch(r.Ch)) {
					v.Violation("C15/no-local-match/clock-or-channels-ignored", "%s %s: negotiated %s; the only local codecs of that name have another clock rate / channel count: %+v", where, kind, vfC15Desc(n), locals)
				}
			}
			v.Violation("C15/"+where+"/no-local-match", "%s %s: negotiated %s matches no locally registered codec %+v", where, kind, vfC15Desc(n), locals)
		}
		if !r.isRTX() && exactExists && best == vfC15Partial {
			v.Violation("C15/"+where+"/partial-despite-exact", "%s %s: %s only partially matches the local codecs although another offered codec matches exactly; offer %+v local %+v", where, kind, vfC15Desc(n), c.Offer.Sections, locals)
		}
		if r.isRTX() {
			apt, ok := vfC15ParseFmtp(r.Fmtp)["apt"]
			if ok {
				if a, err := strconv.Atoi(apt); err == nil && !have[uint8(a)] {
					v.Violation("C15/"+where+"/rtx-without-primary", "%s %s: RTX %s is negotiated but its apt target %d is not; set %v", where, kind, vfC15Desc(n), a, got)
				}
			}
		}
		// feedback: remote ∩ some matching local codec
		gotFB := vfC15FBSet(n.RTCPFeedback)
		okFB := false
		var want []string
		for _, l := range locals {
			if vfC15Match(kind, r, l) == vfC15None {
				continue
			}
			w := vfC15Inter(r.FB, l.FB)
			want = append(want, "["+w+"]")
			if w == gotFB {
				okFB = true
			}
		}
		if !okFB && fullFeedback {
			v.Violation("C15/"+where+"/feedback", "%s %s: %s has feedback [%s]; remote offered %v, intersections with the matching local codecs are %v", where, kind, vfC15Desc(n), gotFB, r.FB, want)
		}
		if !fullFeedback {
			// transceiver views may narrow further, but never beyond what the remote offered
			rset := map[string]bool{}
			for _, f := range r.FB {
				rset[f] = true
			}
			for _, f := range n.RTCPFeedback {
				if !rset[strings.TrimSpace(f.Type+" "+f.Parameter)] {
					v.Violation("C15/"+where+"/feedback-not-offered", "%s %s: %s carries feedback the remote did not offer (%v)", where, kind, vfC15Desc(n), r.FB)
				}
			}
		}
	}
}

func vfC15Observe(v *vfT, c vfC15Case, pc *PeerConnection, round string) {
	me := pc.api.mediaEngine
	for _, kind := range []string{"audio", "video"} {
		typ := NewRTPCodecType(kind)
		inOffer := false
		for _, s := range c.Offer.Sections {
			inOffer = inOffer || s.Kind == kind
		}
		if !inOffer {
			continue
		}
		me.mu.RLock()
		negotiated := me.negotiatedAudio
		if kind == "video" {
			negotiated = me.negotiatedVideo
		}
		me.mu.RUnlock()
		if !negotiated {
			v.Label(kind + ":offered-but-engine-not-negotiated")
			continue
		}
		set := append([]RTPCodecParameters{}, me.getCodecsByKind(typ)...)
		vfC15CheckSet(v, c, kind, "engine", set, true)
		switch {
		case len(set) == 0:
			v.Label(kind + ":nothing-negotiated")
		default:
			locals := c.Local.Audio
			if kind == "video" {
				locals = c.Local.Video
			}
			lvl := vfC15None
			for _, n := range set {
				for _, s := range c.Offer.Sections {
					for _, r := range s.Codecs {
						if s.Kind == kind && r.PT == uint8(n.PayloadType) && !r.isRTX() {
							if b := vfC15Best(kind, r, locals); b > lvl {
								lvl = b
							}
						}
					}
				}
			}
			v.Label(kind + ":negotiated-level=" + []string{"none", "partial", "ambiguous", "exact"}[lvl])
			v.NonTrivial()
		}
		// resolve: every negotiated payload type resolves to the negotiated entry
		for _, n := range set {
			got, gotTyp, err := me.getCodecByPayload(n.PayloadType)
			if err != nil {
				v.Violation("C15/resolve/not-found", "%s: getCodecByPayload(%d) = %v although %s is negotiated", round, n.PayloadType, err, vfC15Desc(n))
			}
			if gotTyp != typ || !strings.EqualFold(got.MimeType, n.MimeType) || got.ClockRate != n.ClockRate || got.SDPFmtpLine != n.SDPFmtpLine {
				v.Violation("C15/resolve/local-first", "%s: getCodecByPayload(%d) = %s (%s), negotiated entry is %s", round, n.PayloadType, vfC15Desc(got), gotTyp, vfC15Desc(n))
			}
			for _, l := range append(append([]vfFamCCodec{}, c.Local.Audio...), c.Local.Video...) {
				if l.PT == uint8(n.PayloadType) && !strings.EqualFold("x/"+l.Name, "x/"+strings.SplitN(n.MimeType, "/", 2)[1]) {
					v.Label("resolve:pt-collides-with-other-local-codec")
				}
			}
		}
	}
	for i, tr := range pc.GetTransceivers() {
		kind := tr.Kind().String()
		offeredKind := false
		for _, s := range c.Offer.Sections {
			offeredKind = offeredKind || s.Kind == kind
		}
		if !offeredKind {
			continue // a local transceiver of a kind the remote did not offer: nothing was negotiated for it
		}
		if r := tr.Receiver(); r != nil {
			vfC15CheckSet(v, c, kind, "receiver", r.GetParameters().Codecs, false)
			v.Label("observed:receiver-parameters")
		}
		if s := tr.Sender(); s != nil {
			vfC15CheckSet(v, c, kind, "sender", s.GetParameters().Codecs, false)
			v.Label("observed:sender-parameters")
		}
		_ = i
	}
}

func vfC15Run(v *vfT, c vfC15Case) {
	if len(c.Offer.Sections) == 0 {
		v.Skip("empty offer")
	}
	me, err := vfFamCMediaEngine(c.Local)
	if err != nil {
		v.Skip("local configuration refused: " + err.Error())
	}
	pc, err := vfFamCNewPC(me)
	if err != nil {
		v.Skip("NewPeerConnection: " + err.Error())
	}
	defer func() { _ = pc.Close() }()
	if c.PreA && len(c.Local.Audio) > 0 {
		if _, err := pc.AddTransceiverFromKind(RTPCodecTypeAudio); err != nil {
			v.Skip("AddTransceiverFromKind(audio): " + err.Error())
		}
		v.Label("pre-existing-audio-transceiver")
	}
	if c.PreV && len(c.Local.Video) > 0 {
		if _, err := pc.AddTransceiverFromKind(RTPCodecTypeVideo); err != nil {
			v.Skip("AddTransceiverFromKind(video): " + err.Error())
		}
		v.Label("pre-existing-video-transceiver")
	}
	for _, sec := range c.Offer.Sections {
		if sec.Port0 != "" {
			v.Label("offer-section:" + sec.Port0)
		}
	}
	for _, l := range append(append([]vfFamCCodec{}, c.Local.Audio...), c.Local.Video...) {
		if !l.isRTX() && l.Clock == 0 {
			v.Label("local-codec-registered-without-clock-rate")
		}
	}
	if err := pc.SetRemoteDescription(SessionDescription{Type: SDPTypeOffer, SDP: vfFamCOfferSDP(c.Offer, 1)}); err != nil {
		v.Label("srd-error:" + vfC15Clip(err.Error()))
		return
	}
	vfC15Observe(v, c, pc, "first offer")
	if !c.Reoffer {
		return
	}
	ans, err := pc.CreateAnswer(nil)
	if err != nil {
		v.Label("answer-error:" + vfC15Clip(err.Error()))
		return
	}
	if err := pc.SetLocalDescription(ans); err != nil {
		v.Label("sld-error:" + vfC15Clip(err.Error()))
		return
	}
	if err := pc.SetRemoteDescription(SessionDescription{Type: SDPTypeOffer, SDP: vfFamCOfferSDP(c.Offer, 2)}); err != nil {
		v.Label("srd2-error:" + vfC15Clip(err.Error()))
		return
	}
	v.Label("identical-reoffer-applied")
	vfC15Observe(v, c, pc, "identical re-offer")
}

func vfC15Clip(s string) string {
	if len(s) > 60 {
		s = s[:60]
	}
	return s
}

func TestVerif_C15_Negotiation(t *testing.T) {
	vfProperty(t, "C15", vfOpts{
		Rule: "local MediaEngine (1..4 audio, 1..6 video codecs from a palette incl. H264/VP9/AV1 profile variants, RTX, FEC; remapped payload types; feedback subsets) x one sound foreign offer with one section per kind whose codecs are mutations of local/palette codecs (name case, clock, channels, fmtp: reordered/extra/level/profile/packetization/absent, feedback sub/supersets, payload types equal to / different from / colliding with local ones, RTX with apt present/absent/before its primary); non-trivial = at least one codec was negotiated for some kind",
		Assumptions: []string{"offers are sound: one payload type denotes one codec, every format has an rtpmap, apt values are integers < 128, an opus rtpmap carries its channel count",
			"the reference matcher is the harness's reading of RFC 6184 §8.1, draft-ietf-payload-vp9, the AV1 RTP spec and RFC 8866 (omitted channels = 1); pairs the RFCs resolve through defaults that pion does not apply are ambiguous and never decide the exact-over-partial clause",
			"'feedback is the intersection' is checked against some matching local codec (several local codecs can match one remote codec)",
			"a re-offer is only applied when it is identical to the first offer (the statement quantifies over inputs, not histories)"},
	}, func(v *vfT) vfC15Case {
		var c vfC15Case
		c.Local = vfFamCGenLocal(v.R)
		c.Offer, _ = vfFamCGenOffer(v.R, c.Local, false, false, false)
		c.PreA = rapid.IntRange(0, 3).Draw(v.R, "preA") == 0
		c.PreV = rapid.IntRange(0, 3).Draw(v.R, "preV") == 0
		c.Reoffer = rapid.IntRange(0, 4).Draw(v.R, "reoffer") == 0
		return c
	}, vfC15Run)
}
