package webrtc

// C29 — Static RTP tracks fan out to each binding and leave the caller's packet intact.
//
// Model-based: a history of bind / unbind / WriteRTP / Write operations is applied to one
// TrackLocalStaticRTP whose bindings write into recording TrackLocalWriters.  The reference
// model is a map id -> {ssrc, payload type}.  After every write:
//   * every live binding's writer was called exactly once, every removed/never-bound
//     writer not at all;
//   * what the writer got, serialised the way pion's senders serialise it
//     (rtp.MarshalPacketTo(header, payload)), equals the packet the caller wrote as produced
//     by the harness's own RTP serialiser with only SSRC and payload type replaced by the
//     binding's (padding octets zero, count preserved);
//   * the caller's rtp.Packet (deep copy taken before the call) / byte slice is unchanged.
// The RTP wire image is built by the harness, not by pion/rtp, so the comparison does not
// depend on how the Header/Packet padding fields are split.

import (
	"bytes"
	"encoding/binary"
	"errors"
	"fmt"
	"reflect"
	"sync/atomic"
	"testing"
	"time"

	"github.com/pion/rtp"
	"pgregory.net/rapid"
)

type vfC29Ext struct {
	ID  uint8 `json:"id"`
	Len int   `json:"len"`
}

type vfC29Pkt struct {
	Marker  bool       `json:"marker,omitempty"`
	PT      uint8      `json:"pt"`
	Seq     uint16     `json:"seq"`
	TS      uint32     `json:"ts"`
	SSRC    uint32     `json:"ssrc"`
	CSRC    []uint32   `json:"csrc,omitempty"`
	ExtKind int        `json:"ext_kind"` // 0 none, 1 one-byte (0xBEDE), 2 two-byte (0x1000), 3 other profile (opaque words)
	Profile uint16     `json:"profile,omitempty"`
	Exts    []vfC29Ext `json:"exts,omitempty"` // for kind 3: one entry, Len = number of 32-bit words
	PayLen  int        `json:"pay_len"`
	Seed    uint32     `json:"seed"` // payload / extension / padding-fill bytes derive from it
	Pad     uint8      `json:"pad"`  // number of padding octets (0 = no padding)
}

type vfC29Op struct {
	Op string `json:"op"` // bind | unbind | unbind-unknown | writertp | write
	// bind
	SSRC     uint32 `json:"ssrc,omitempty"`
	PT       uint8  `json:"pt,omitempty"`
	CodecPos int    `json:"codec_pos,omitempty"` // position of the track's codec in the context's table; -1 = absent
	Fail     bool   `json:"fail,omitempty"`      // this binding's writer returns an error from every write
	Reuse    int    `json:"reuse,omitempty"`     // >0: re-use the id of a previously removed binding (index-1 mod count)
	// unbind
	K int `json:"k,omitempty"` // live binding index (mod live count, ids sorted by creation)
	// writes
	Pkt     *vfC29Pkt `json:"pkt,omitempty"`
	PadVia  int       `json:"pad_via,omitempty"`  // writertp: 0 both PaddingSize fields, 1 Header.PaddingSize only, 2 Packet.PaddingSize only
	PadFill bool      `json:"pad_fill,omitempty"` // write: padding octets carry non-zero filler
	Trunc   int       `json:"trunc,omitempty"`    // write: cut that many bytes off the end (may make it unparseable)
	// writertp, harness-owned schedule: while the fan-out is inside its HookAt-th per-binding write
	// (mod live count), a second goroutine calls Unbind for live binding #Victim (mod live count; the
	// next one if that is the binding being written); the writer waits until that Unbind returned or a
	// short bounded time elapsed, then lets the fan-out continue.
	Hook   bool `json:"hook,omitempty"`
	HookAt int  `json:"hook_at,omitempty"`
	Victim int  `json:"victim,omitempty"`
}

type vfC29Case struct {
	Codec int       `json:"codec,omitempty"` // index into vfC29TrackCodecs
	Ops   []vfC29Op `json:"ops"`
}

type vfC29Rng uint32

func (r *vfC29Rng) next() byte {
	x := uint32(*r)
	if x == 0 {
		x = 0x9E3779B9
	}
	x ^= x << 13
	x ^= x >> 17
	x ^= x << 5
	*r = vfC29Rng(x)
	return byte(x >> 11)
}

// vfC29Wire serialises the packet description (RFC 3550 §5.1, RFC 8285) with the given SSRC/PT.
func vfC29Wire(p *vfC29Pkt, ssrc uint32, pt uint8, padFill bool) []byte {
	rng := vfC29Rng(p.Seed)
	b := make([]byte, 12, 64+p.PayLen)
	b[0] = 2<<6 | byte(len(p.CSRC)&15)
	if p.Pad > 0 {
		b[0] |= 1 << 5
	}
	if p.ExtKind != 0 {
		b[0] |= 1 << 4
	}
	b[1] = pt & 0x7f
	if p.Marker {
		b[1] |= 0x80
	}
	binary.BigEndian.PutUint16(b[2:], p.Seq)
	binary.BigEndian.PutUint32(b[4:], p.TS)
	binary.BigEndian.PutUint32(b[8:], ssrc)
	for _, c := range p.CSRC {
		b = binary.BigEndian.AppendUint32(b, c)
	}
	if p.ExtKind != 0 {
		var body []byte
		switch p.ExtKind {
		case 1:
			for _, e := range p.Exts {
				body = append(body, e.ID<<4|byte(e.Len-1))
				for i := 0; i < e.Len; i++ {
					body = append(body, rng.next())
				}
			}
		case 2:
			for _, e := range p.Exts {
				body = append(body, e.ID, byte(e.Len))
				for i := 0; i < e.Len; i++ {
					body = append(body, rng.next())
				}
			}
		default:
			for _, e := range p.Exts {
				for i := 0; i < 4*e.Len; i++ {
					body = append(body, rng.next())
				}
			}
		}
		for len(body)%4 != 0 {
			body = append(body, 0)
		}
		profile := p.Profile
		switch p.ExtKind {
		case 1:
			profile = 0xBEDE
		case 2:
			profile = 0x1000
		}
		b = binary.BigEndian.AppendUint16(b, profile)
		b = binary.BigEndian.AppendUint16(b, uint16(len(body)/4))
		b = append(b, body...)
	}
	for i := 0; i < p.PayLen; i++ {
		b = append(b, rng.next())
	}
	if p.Pad > 0 {
		for i := 0; i < int(p.Pad)-1; i++ {
			if padFill {
				b = append(b, rng.next()|1)
			} else {
				b = append(b, 0)
			}
		}
		b = append(b, p.Pad)
	}
	return b
}

type vfC29Delivery struct {
	wire    []byte
	err     error
	ssrc    uint32
	pt      uint8
	rawCall bool
	// the harness had already seen this binding's Unbind RETURN when this per-binding write began
	afterUnbindReturned bool
}

// vfC29Sched is the state of one harness-owned schedule (one hooked WriteRTP call).
type vfC29Sched struct {
	at       int // ordinal of the per-binding write during which the Unbind is started
	calls    int // per-binding writes seen so far in this call
	fired    bool
	victim   *vfC29Binding
	unbind   func() error
	returned atomic.Bool // set after victim's Unbind returned
	done     chan struct{}
	err      error
	timedOut bool
}

// vfC29Shared is shared by all writers of one track; sched is non-nil only during a hooked call.
type vfC29Shared struct{ sched *vfC29Sched }

// how long a writer waits for the concurrent Unbind; on the unchanged code Unbind cannot return
// before the fan-out ends, so this elapses quietly.  It selects the schedule, never a verdict.
const vfC29HookWait = 3 * time.Millisecond

type vfC29Writer struct {
	id   string
	fail bool
	got  []vfC29Delivery
	sh   *vfC29Shared
}

// enter is called at the start of every per-binding write; it returns whether this binding's
// Unbind had already returned.
func (w *vfC29Writer) enter() bool {
	if w.sh == nil || w.sh.sched == nil {
		return false
	}
	sc := w.sh.sched
	after := sc.victim != nil && sc.victim.writer == w && sc.returned.Load()
	ord := sc.calls
	sc.calls++
	if !sc.fired && ord >= sc.at && sc.victim.writer != w {
		sc.fired = true
		go func() {
			sc.err = sc.unbind()
			sc.returned.Store(true)
			close(sc.done)
		}()
		select {
		case <-sc.done:
		case <-time.After(vfC29HookWait):
			sc.timedOut = true
		}
	}
	return after
}

var errVfC29Writer = errors.New("vfC29: injected writer failure")

func (w *vfC29Writer) WriteRTP(h *rtp.Header, payload []byte) (int, error) {
	after := w.enter()
	defer func() {
		if after && len(w.got) > 0 {
			w.got[len(w.got)-1].afterUnbindReturned = true
		}
	}()
	if h.Padding && h.PaddingSize == 0 {
		// pion/rtp cannot serialise this (it would index before the buffer's end marker): the
		// padding count the caller supplied was lost on the way to the binding
		w.got = append(w.got, vfC29Delivery{err: errors.New("padding flag set but Header.PaddingSize is 0"), ssrc: h.SSRC, pt: h.PayloadType})
		if w.fail {
			return 0, errVfC29Writer
		}
		return 0, nil
	}
	buf := make([]byte, rtp.PacketMarshalSize(h, payload))
	n, err := rtp.MarshalPacketTo(buf, h, payload)
	w.got = append(w.got, vfC29Delivery{wire: buf[:n], err: err, ssrc: h.SSRC, pt: h.PayloadType})
	if w.fail {
		return 0, errVfC29Writer
	}
	return n, nil
}

func (w *vfC29Writer) Write(b []byte) (int, error) {
	w.got = append(w.got, vfC29Delivery{wire: append([]byte{}, b...), rawCall: true})
	if w.fail {
		return 0, errVfC29Writer
	}
	return len(b), nil
}

type vfC29Binding struct {
	id     string
	ssrc   uint32
	pt     uint8
	writer *vfC29Writer
	ctx    *baseTrackLocalContext
}

// vfC29TrackCodecs are the codecs a case's track can have (index = vfC29Case.Codec).
var vfC29TrackCodecs = []RTPCodecCapability{
	{MimeType: MimeTypeVP8, ClockRate: 90000},
	{MimeType: MimeTypePCMU, ClockRate: 8000},
	{MimeType: MimeTypePCMA, ClockRate: 8000},
	{MimeType: MimeTypeOpus, ClockRate: 48000, Channels: 2},
}

// vfC29Codecs is the negotiated codec table of one binding context: the track's codec at payload
// type pt (any value 0..127, incl. the static types 0/8/9/13 and 127) at position pos among
// three other codecs; pos < 0 leaves the track's codec out.
func vfC29Codecs(mine RTPCodecCapability, pos int, pt uint8) []RTPCodecParameters {
	others := []RTPCodecParameters{
		{RTPCodecCapability: RTPCodecCapability{MimeType: MimeTypeH264, ClockRate: 90000, SDPFmtpLine: "level-asymmetry-allowed=1;packetization-mode=1;profile-level-id=42e01f"}, PayloadType: PayloadType((int(pt) + 1) % 128)},
		{RTPCodecCapability: RTPCodecCapability{MimeType: MimeTypeG722, ClockRate: 8000}, PayloadType: PayloadType((int(pt) + 2) % 128)},
		{RTPCodecCapability: RTPCodecCapability{MimeType: MimeTypeVP9, ClockRate: 90000, SDPFmtpLine: "profile-id=0"}, PayloadType: PayloadType((int(pt) + 3) % 128)},
	}
	if pos < 0 {
		return others
	}
	pos %= len(others) + 1
	out := append([]RTPCodecParameters{}, others[:pos]...)
	out = append(out, RTPCodecParameters{RTPCodecCapability: mine, PayloadType: PayloadType(pt)})
	return append(out, others[pos:]...)
}

func vfC29Run(v *vfT, c vfC29Case) {
	trackCodec := vfC29TrackCodecs[((c.Codec%len(vfC29TrackCodecs))+len(vfC29TrackCodecs))%len(vfC29TrackCodecs)]
	v.Label("track-codec:" + trackCodec.MimeType)
	track, err := NewTrackLocalStaticRTP(trackCodec, "track", "pion")
	if err != nil {
		v.Skip("NewTrackLocalStaticRTP: " + err.Error())
	}
	var live []*vfC29Binding    // in creation order
	var removed []*vfC29Binding // unbound (their writers must stay silent)
	var rejected []*vfC29Binding
	shared := &vfC29Shared{}
	// every packet / buffer the caller ever handed over stays the caller's: deep copies are kept for
	// the whole history and re-compared after every later operation and at the end
	type heldPkt struct {
		opi    int
		pkt    *rtp.Packet // the caller's packet
		before *rtp.Packet // deep copy taken before the call
		wire   []byte      // buffer backing the caller's payload
		wire0  []byte      // its copy
	}
	type heldBuf struct {
		opi       int
		buf, orig []byte
	}
	var heldPkts []heldPkt
	var heldBufs []heldBuf
	recheckHeld := func(opi int, what string) {
		for _, h := range heldPkts {
			if !reflect.DeepEqual(h.before, h.pkt) {
				class := "C29/caller-packet-modified/later"
				switch {
				case !reflect.DeepEqual(h.before.Header.CSRC, h.pkt.Header.CSRC):
					class += "/csrc"
				case !reflect.DeepEqual(h.before.Header.Extensions, h.pkt.Header.Extensions):
					class += "/extensions"
				}
				v.Violation(class, "after op %d (%s): the packet the caller passed to WriteRTP in op %d has changed although that call had returned:\n before %+v\n now    %+v", opi, what, h.opi, h.before, h.pkt)
			}
			if !bytes.Equal(h.wire, h.wire0) {
				v.Violation("C29/caller-buffer-modified/later", "after op %d (%s): the buffer backing the payload of the packet passed to WriteRTP in op %d has changed", opi, what, h.opi)
			}
		}
		for _, h := range heldBufs {
			if !bytes.Equal(h.buf, h.orig) {
				v.Violation("C29/caller-buffer-modified/later", "after op %d (%s): the buffer the caller passed to Write in op %d has changed", opi, what, h.opi)
			}
		}
	}
	sawRichWriteRTP, sawRichSequence := false, false
	nextID := 0
	writes, maxLive, unbindsWithOthers := 0, 0, 0

	checkAfterWrite := func(opi int, what string, want func(b *vfC29Binding) []byte) {
		for _, b := range live {
			if len(b.writer.got) != 1 {
				v.Violation("C29/delivery-count", "op %d %s: live binding %s (ssrc %d pt %d) received %d packets, want exactly 1 (live=%d)",
					opi, what, b.id, b.ssrc, b.pt, len(b.writer.got), len(live))
			}
			d := b.writer.got[0]
			b.writer.got = nil
			if d.rawCall {
				// the binding was handed a serialised packet; compare that image directly
				v.Label("delivered-via-Write")
			} else if d.err != nil {
				v.Violation("C29/unserialisable", "op %d %s: binding %s got a header/payload pion/rtp cannot serialise: %v", opi, what, b.id, d.err)
			}
			w := want(b)
			if w == nil {
				continue
			}
			if !bytes.Equal(d.wire, w) {
				class := "C29/rewrite"
				if len(d.wire) >= 12 && len(w) >= 12 {
					switch {
					case !bytes.Equal(d.wire[8:12], w[8:12]):
						class = "C29/rewrite/ssrc"
					case d.wire[1]&0x7f != w[1]&0x7f:
						class = "C29/rewrite/payload-type"
					case len(d.wire) != len(w):
						class = "C29/rewrite/length"
					}
				}
				v.Violation(class, "op %d %s: binding %s (ssrc %d pt %d) got\n  %x\nwant\n  %x", opi, what, b.id, b.ssrc, b.pt, d.wire, w)
			}
		}
		for _, b := range removed {
			if len(b.writer.got) != 0 {
				v.Violation("C29/delivery-after-unbind", "op %d %s: removed binding %s received %d packets", opi, what, b.id, len(b.writer.got))
			}
		}
		for _, b := range rejected {
			if len(b.writer.got) != 0 {
				v.Violation("C29/delivery-to-rejected-bind", "op %d %s: binding %s whose Bind failed received %d packets", opi, what, b.id, len(b.writer.got))
			}
		}
	}

	for opi, op := range c.Ops {
		if opi > 0 {
			recheckHeld(opi-1, c.Ops[opi-1].Op)
		}
		switch op.Op {
		case "bind":
			if len(live) >= 5 {
				continue
			}
			b := &vfC29Binding{ssrc: op.SSRC, pt: op.PT & 0x7f}
			var free []string // ids of removed bindings that are not live again (ids stay distinct among live bindings)
			for _, r := range removed {
				inUse := false
				for _, l := range live {
					inUse = inUse || l.id == r.id
				}
				for _, f := range free {
					inUse = inUse || f == r.id
				}
				if !inUse {
					free = append(free, r.id)
				}
			}
			if op.Reuse > 0 && len(free) > 0 {
				b.id = free[(op.Reuse-1)%len(free)]
				// the old writer of that id stays in `removed` and must stay silent
				v.Label("bind:id-reused")
			} else {
				b.id = fmt.Sprintf("b%d", nextID)
				nextID++
			}
			b.writer = &vfC29Writer{id: b.id, fail: op.Fail, sh: shared}
			b.ctx = &baseTrackLocalContext{
				id: b.id, ssrc: SSRC(b.ssrc), writeStream: b.writer,
				params: RTPParameters{Codecs: vfC29Codecs(trackCodec, op.CodecPos, b.pt)},
			}
			codec, err := track.Bind(b.ctx)
			if err != nil {
				if op.CodecPos >= 0 {
					v.Violation("C29/bind-refused", "op %d: Bind refused a context that lists the track's codec: %v", opi, err)
				}
				v.Label("bind:unsupported")
				rejected = append(rejected, b)
				continue
			}
			if op.CodecPos < 0 {
				// codec negotiation is not this property's subject: follow what Bind chose
				v.Label("bind:accepted-without-codec")
				b.pt = uint8(codec.PayloadType)
			}
			switch {
			case b.pt == 0:
				v.Label("bind:pt-0")
			case b.pt < 96:
				v.Label("bind:pt-static")
			case b.pt == 127:
				v.Label("bind:pt-127")
			}
			if b.ssrc == 0 || b.ssrc == 0xFFFFFFFF {
				v.Label("bind:ssrc-0-or-max")
			}
			live = append(live, b)
			if len(live) > maxLive {
				maxLive = len(live)
			}
		case "unbind":
			if len(live) == 0 {
				continue
			}
			k := op.K % len(live)
			b := live[k]
			if err := track.Unbind(b.ctx); err != nil {
				v.Violation("C29/unbind-failed", "op %d: Unbind of live binding %s failed: %v", opi, b.id, err)
			}
			live = append(live[:k:k], live[k+1:]...)
			removed = append(removed, b)
			if len(live) > 0 {
				unbindsWithOthers++
				if k < len(live) {
					v.Label("unbind:not-last")
				}
			}
		case "unbind-unknown":
			ctx := &baseTrackLocalContext{id: "never-bound"}
			_ = track.Unbind(ctx) // outcome not part of the statement; the model is unchanged
		case "writertp":
			if op.Pkt == nil {
				continue
			}
			wire := vfC29Wire(op.Pkt, op.Pkt.SSRC, op.Pkt.PT, false)
			pkt := &rtp.Packet{}
			if err := pkt.Unmarshal(wire); err != nil {
				v.Skip("generated packet not parseable by pion/rtp: " + err.Error())
			}
			switch op.PadVia {
			case 1:
				pkt.PaddingSize = 0
			case 2:
				pkt.Header.PaddingSize = 0
			}
			if op.Pkt.Pad > 0 {
				v.Label(fmt.Sprintf("writertp:padding-via-%d", op.PadVia))
			}
			// private deep copy, detached from `wire`
			before := pkt.Clone()
			before.PayloadOffset = pkt.PayloadOffset
			before.Raw = append([]byte(nil), pkt.Raw...)
			if pkt.Raw == nil {
				before.Raw = nil
			}
			var sched *vfC29Sched
			if op.Hook && len(live) >= 2 {
				victim := live[op.Victim%len(live)]
				sched = &vfC29Sched{at: op.HookAt % (len(live) - 1), victim: victim, done: make(chan struct{})}
				sched.unbind = func() error { return track.Unbind(victim.ctx) }
				shared.sched = sched
			}
			_ = track.WriteRTP(pkt)
			writes++
			heldPkts = append(heldPkts, heldPkt{opi, pkt, before, wire, append([]byte{}, wire...)})
			if len(op.Pkt.CSRC) > 0 || op.Pkt.ExtKind != 0 {
				sawRichWriteRTP = true
			}
			if sched != nil {
				// join the concurrent Unbind (on the unchanged code it can only finish now)
				shared.sched = nil
				if !sched.fired {
					v.Label("schedule:not-fired")
				} else {
					select {
					case <-sched.done:
					case <-time.After(30 * time.Second):
						v.Skip("watchdog: concurrent Unbind never returned")
					}
					if sched.timedOut {
						v.Label("schedule:unbind-blocked-until-fan-out-ended")
					} else {
						v.Label("schedule:unbind-returned-during-fan-out")
					}
					if sched.err != nil {
						v.Violation("C29/unbind-failed/concurrent", "op %d: Unbind of live binding %s, called while a WriteRTP fan-out was in progress, failed: %v", opi, sched.victim.id, sched.err)
					}
					// the removed binding: at most once, and nothing once its Unbind had returned
					vb := sched.victim
					for _, d := range vb.writer.got {
						if d.afterUnbindReturned {
							v.Violation("C29/delivery-after-unbind/concurrent", "op %d: binding %s received the packet in a per-binding write that began after its Unbind had returned (live=%d, %d deliveries to it in this call)",
								opi, vb.id, len(live), len(vb.writer.got))
						}
					}
					if len(vb.writer.got) > 1 {
						v.Violation("C29/delivery-count/concurrent", "op %d: binding %s, unbound during the fan-out, received the packet %d times in one WriteRTP call", opi, vb.id, len(vb.writer.got))
					}
					if len(vb.writer.got) == 1 {
						if d := vb.writer.got[0]; d.err == nil && !bytes.Equal(d.wire, vfC29Wire(op.Pkt, vb.ssrc, vb.pt, false)) {
							v.Violation("C29/rewrite/concurrent", "op %d: binding %s (ssrc %d pt %d), unbound during the fan-out, got\n  %x", opi, vb.id, vb.ssrc, vb.pt, d.wire)
						}
					}
					vb.writer.got = nil
					for k := range live {
						if live[k] == vb {
							live = append(live[:k:k], live[k+1:]...)
							break
						}
					}
					removed = append(removed, vb)
					if len(live) > 0 {
						unbindsWithOthers++
					}
				}
			}
			if !reflect.DeepEqual(before, pkt) {
				v.Violation("C29/caller-packet-modified/WriteRTP", "op %d: caller's packet changed by WriteRTP:\n before %+v\n after  %+v", opi, before, pkt)
			}
			if !bytes.Equal(wire, vfC29Wire(op.Pkt, op.Pkt.SSRC, op.Pkt.PT, false)) {
				v.Violation("C29/caller-buffer-modified/WriteRTP", "op %d: the buffer backing the caller's payload changed", opi)
			}
			checkAfterWrite(opi, "WriteRTP", func(b *vfC29Binding) []byte {
				return vfC29Wire(op.Pkt, b.ssrc, b.pt, false)
			})
		case "write":
			if op.Pkt == nil {
				continue
			}
			full := vfC29Wire(op.Pkt, op.Pkt.SSRC, op.Pkt.PT, op.PadFill)
			buf := full
			if op.Trunc > 0 {
				cut := op.Trunc % (len(full) + 1)
				buf = full[:len(full)-cut]
			}
			orig := append([]byte{}, buf...)
			n, werr := track.Write(buf)
			writes++
			heldBufs = append(heldBufs, heldBuf{opi, buf, orig})
			if sawRichWriteRTP && (len(op.Pkt.CSRC) > 0 || op.Pkt.ExtKind != 0) {
				sawRichSequence = true
			}
			if !bytes.Equal(orig, buf) {
				v.Violation("C29/caller-buffer-modified/Write", "op %d: caller's buffer changed by Write", opi)
			}
			if len(buf) != len(full) {
				// truncated image: whether it is a packet at all is pion/rtp's call (trusted)
				ref := &rtp.Packet{}
				if ref.Unmarshal(append([]byte{}, buf...)) != nil {
					v.Label("write:unparseable")
					// not a packet: the statement does not apply; just forget whatever was delivered
					for _, b := range live {
						b.writer.got = nil
					}
					continue
				}
				v.Label("write:truncated-but-parseable")
				checkAfterWrite(opi, "Write(truncated)", func(b *vfC29Binding) []byte {
					r2 := ref.Clone()
					r2.SSRC, r2.PayloadType = b.ssrc, b.pt
					w, err := r2.Marshal()
					if err != nil {
						return nil
					}
					return w
				})
				continue
			}
			_ = n
			_ = werr
			checkAfterWrite(opi, "Write", func(b *vfC29Binding) []byte {
				return vfC29Wire(op.Pkt, b.ssrc, b.pt, false)
			})
		}
	}
	if len(c.Ops) > 0 {
		recheckHeld(len(c.Ops)-1, c.Ops[len(c.Ops)-1].Op)
	}
	if sawRichSequence {
		v.Label("writertp(csrc/ext)-then-write(csrc/ext)")
	}
	if maxLive >= 2 && writes >= 2 && unbindsWithOthers >= 1 {
		v.NonTrivial()
	}
	v.Label(fmt.Sprintf("max-live:%d", maxLive))
}

func vfC29GenPkt(v *vfT) *vfC29Pkt {
	p := &vfC29Pkt{
		Marker: rapid.Bool().Draw(v.R, "marker"),
		PT:     uint8(rapid.IntRange(0, 127).Draw(v.R, "pt")),
		Seq:    rapid.Uint16().Draw(v.R, "seq"),
		TS:     rapid.Uint32().Draw(v.R, "ts"),
		SSRC:   rapid.Uint32().Draw(v.R, "ssrc"),
		Seed:   rapid.Uint32().Draw(v.R, "seed"),
	}
	ncsrc := rapid.SampledFrom([]int{0, 0, 0, 1, 2, 3, 7, 14, 15}).Draw(v.R, "ncsrc")
	for i := 0; i < ncsrc; i++ {
		p.CSRC = append(p.CSRC, rapid.Uint32().Draw(v.R, "csrc"))
	}
	p.ExtKind = rapid.SampledFrom([]int{0, 0, 1, 1, 2, 3}).Draw(v.R, "extkind")
	switch p.ExtKind {
	case 1:
		n := rapid.IntRange(1, 4).Draw(v.R, "next")
		ids := rapid.Permutation([]int{1, 2, 3, 4, 5, 9, 13, 14}).Draw(v.R, "ids")
		for i := 0; i < n; i++ {
			p.Exts = append(p.Exts, vfC29Ext{ID: uint8(ids[i]), Len: rapid.IntRange(1, 16).Draw(v.R, "elen")})
		}
	case 2:
		n := rapid.IntRange(1, 3).Draw(v.R, "next")
		ids := rapid.Permutation([]int{1, 2, 14, 15, 16, 100, 254, 255}).Draw(v.R, "ids")
		for i := 0; i < n; i++ {
			p.Exts = append(p.Exts, vfC29Ext{ID: uint8(ids[i]), Len: rapid.SampledFrom([]int{0, 1, 2, 3, 16, 17, 64, 255}).Draw(v.R, "elen")})
		}
	case 3:
		p.Profile = rapid.SampledFrom([]uint16{0x0001, 0xABCD, 0x1001, 0xBEDF}).Draw(v.R, "profile")
		p.Exts = []vfC29Ext{{Len: rapid.IntRange(0, 16).Draw(v.R, "words")}}
	}
	p.PayLen = rapid.SampledFrom([]int{0, 1, 2, 3, 10, 100, 500, 1200}).Draw(v.R, "paylen")
	if rapid.Bool().Draw(v.R, "paylenrand") {
		p.PayLen = rapid.IntRange(0, 1400).Draw(v.R, "paylen2")
	}
	p.Pad = uint8(rapid.SampledFrom([]int{0, 0, 0, 1, 2, 4, 37, 255}).Draw(v.R, "pad"))
	return p
}

func vfC29Gen(v *vfT) vfC29Case {
	n := rapid.IntRange(1, 40).Draw(v.R, "nops")
	var c vfC29Case
	c.Codec = rapid.IntRange(0, len(vfC29TrackCodecs)-1).Draw(v.R, "codec")
	hooksLeft := rapid.SampledFrom([]int{0, 0, 1, 1, 2}).Draw(v.R, "hooks") // each hooked write costs the bounded wait
	for i := 0; i < n; i++ {
		var op vfC29Op
		kind := rapid.SampledFrom([]string{"bind", "bind", "bind", "unbind", "unbind", "writertp", "writertp", "writertp", "write", "write", "unbind-unknown"}).Draw(v.R, "op")
		if i < 2 {
			kind = "bind"
		}
		op.Op = kind
		switch kind {
		case "bind":
			op.SSRC = rapid.SampledFrom([]uint32{0, 1, 0xFFFFFFFF, 0x80000000, 0x7FFFFFFF}).Draw(v.R, "bssrcEdge")
			if rapid.IntRange(0, 2).Draw(v.R, "bssrcRand") != 0 {
				op.SSRC = rapid.Uint32().Draw(v.R, "bssrc")
			}
			// negotiated payload type: static types and range ends as well as the dynamic range
			op.PT = rapid.SampledFrom([]uint8{0, 0, 8, 9, 13, 96, 127, 127}).Draw(v.R, "bptEdge")
			if rapid.Bool().Draw(v.R, "bptRand") {
				op.PT = uint8(rapid.IntRange(96, 127).Draw(v.R, "bpt"))
			}
			op.CodecPos = rapid.IntRange(-1, 3).Draw(v.R, "codecpos")
			if op.CodecPos == -1 && rapid.IntRange(0, 2).Draw(v.R, "keepabsent") != 0 {
				op.CodecPos = 0
			}
			op.Fail = rapid.IntRange(0, 5).Draw(v.R, "fail") == 0
			if rapid.IntRange(0, 3).Draw(v.R, "reuse?") == 0 {
				op.Reuse = rapid.IntRange(1, 5).Draw(v.R, "reuse")
			}
		case "unbind":
			op.K = rapid.IntRange(0, 4).Draw(v.R, "k")
		case "writertp":
			op.Pkt = vfC29GenPkt(v)
			op.PadVia = rapid.IntRange(0, 2).Draw(v.R, "padvia")
			if hooksLeft > 0 && rapid.IntRange(0, 3).Draw(v.R, "hook?") == 0 {
				hooksLeft--
				op.Hook = true
				op.HookAt = rapid.IntRange(0, 3).Draw(v.R, "hookAt")
				op.Victim = rapid.IntRange(0, 4).Draw(v.R, "victim")
			}
		case "write":
			op.Pkt = vfC29GenPkt(v)
			op.PadFill = rapid.Bool().Draw(v.R, "padfill")
			if rapid.IntRange(0, 7).Draw(v.R, "trunc?") == 0 {
				op.Trunc = rapid.IntRange(1, 40).Draw(v.R, "trunc")
			}
		}
		c.Ops = append(c.Ops, op)
	}
	return c
}

func TestVerif_C29_Histories(t *testing.T) {
	vfProperty(t, "C29", vfOpts{
		Rule: "non-trivial = the history reaches >=2 simultaneously live bindings, performs >=2 writes and unbinds a binding while another stays live",
		Assumptions: []string{
			"binding ids are distinct among live bindings (PeerConnection uses unique sender ids); an id may be re-used after its Unbind",
			"a packet is well formed: padding flag set iff the padding count is non-zero; one-byte extension ids 1..14 with 1..16 bytes, two-byte ids 1..255 with 0..255 bytes",
			"what a binding 'receives' is the serialisation rtp.MarshalPacketTo(header, payload) that pion's own senders produce from the writer's arguments; padding octets other than the count are not significant",
			"a truncated buffer passed to Write is a packet only if pion/rtp parses it; then the expectation is pion/rtp's own re-serialisation",
			"every packet passed to WriteRTP and every buffer passed to Write is kept (deep copy) and re-compared after every later operation and at the end of the history",
			"harness-owned schedule (some WriteRTP ops): a second goroutine calls Unbind of another live binding while the fan-out is inside one binding's writer, which waits 3 ms or until that Unbind returned (the wait only selects the schedule). Oracle for that call: the unbound binding receives the packet at most once and never in a per-binding write that began after its Unbind had returned; every other live binding exactly once",
		},
	}, vfC29Gen, vfC29Run)
}
