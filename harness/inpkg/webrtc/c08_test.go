package webrtc

// C08 — Answer directions are legal responses to the offered directions.
//
// Domain: (a) foreign-peer histories in which a scripted remote endpoint (sound G-sdp
// descriptions) offers and re-offers, changing per-section directions over all four values
// between rounds and appending sections, while the local side does AddTrack / RemoveTrack /
// AddTransceiverFromKind (and occasionally offers itself); (b) pion-pair histories in which the
// offer of a second pion PeerConnection is munged (direction lines flipped) before the
// answerer sees it, the way the repo's own tests munge.
//
// Oracle: for every answer pion creates and every offered m-section that the answer answers
// with a direction (rejected sections carry none and are skipped), the pair (offered
// direction, answered direction) is in the RFC 3264 §6.1 table: sendrecv -> any, sendonly ->
// recvonly|inactive, recvonly -> sendonly|inactive, inactive -> inactive. Sections are paired by
// mid (C07 owns count/order); application sections are not media directions and are skipped.

import (
	"fmt"
	"strings"
	"testing"

	"pgregory.net/rapid"
)

// vfC08Check compares one answer with the offer it answers. renegotiated tells, per mid, that
// the offered direction changed compared with prevOffer.
func vfC08Check(v *vfT, who, offerText, prevOfferText, answerText string) (fs []vfFamBFinding, changed bool) {
	off, err := vfFamBParse(offerText)
	if err != nil {
		return nil, false
	}
	ans, err := vfFamBParse(answerText)
	if err != nil {
		return []vfFamBFinding{{"C08/answer-unparsable", fmt.Sprintf("%s: answer rejected by pion/sdp: %v", who, err)}}, false
	}
	prev := map[string]string{}
	if prevOfferText != "" {
		if p, err := vfFamBParse(prevOfferText); err == nil {
			for _, s := range p.Sections {
				prev[s.Mid()] = "dir:" + s.Dir()
			}
		}
	}
	byMid := map[string]*vfFamBOSec{}
	ambiguous := map[string]bool{}
	for _, a := range ans.Sections {
		if a.Mid() != "" {
			if byMid[a.Mid()] != nil {
				ambiguous[a.Mid()] = true
			}
			byMid[a.Mid()] = a
		}
	}
	offMids := map[string]int{}
	for _, o := range off.Sections {
		offMids[o.Mid()]++
	}
	for _, o := range off.Sections {
		if o.Media != "audio" && o.Media != "video" {
			continue
		}
		if ambiguous[o.Mid()] || offMids[o.Mid()] > 1 {
			v.Label("section:ambiguous-mid(owned-by-C06)")
			continue
		}
		if pd, ok := prev[o.Mid()]; ok && pd != "dir:"+o.Dir() {
			changed = true
		}
		a := byMid[o.Mid()]
		if a == nil || a.Port == 0 || o.Port == 0 {
			v.Label("section:unanswered-or-rejected")
			continue
		}
		od, ad := o.Dir(), a.Dir()
		if ad == "" || ad == "multiple" {
			v.Label("section:answer-without-single-direction(owned-by-C06)")
			continue
		}
		v.Label("pair:" + map[string]string{"": "absent"}[od] + od + "->" + ad)
		if !vfFamBLegalAnswerDir(od, ad) {
			offered := od
			if offered == "" {
				offered = "absent"
			}
			fs = append(fs, vfFamBFinding{
				fmt.Sprintf("C08/illegal-answer/offer=%s/answer=%s", offered, ad),
				fmt.Sprintf("%s: m-section mid %q (%s) offered %q, answered %q (RFC 3264 §6.1 allows %s)", who, o.Mid(), o.Media, offered, ad,
					map[string]string{"sendonly": "recvonly|inactive", "recvonly": "sendonly|inactive", "inactive": "inactive"}[od]),
			})
		}
	}
	return fs, changed
}

func TestVerif_C08_Foreign(t *testing.T) {
	vfProperty(t, "C08", vfOpts{
		Rule: "non-trivial = some answered re-offer changed the offered direction of an m-section compared with the previous remote offer",
		Assumptions: []string{
			"pion/sdp v3 is a trusted parser",
			"sections are paired by mid; sections the answer rejects (port 0) or drops are not direction responses (count and order are C07's statement)",
			"every remote section carries an explicit direction (a section without one is dropped from the answer: C07's finding)",
		},
	}, func(v *vfT) vfFamBFCase {
		return vfFamBGenForeign(v.R, true)
	}, func(v *vfT, c vfFamBFCase) {
		var all []vfFamBFinding
		nt := false
		vfFamBRunForeign(v, c, func(ev vfFamBFEvent) {
			if ev.Kind != "answer" {
				return
			}
			fs, changed := vfC08Check(v, fmt.Sprintf("step %d", ev.Step), ev.RemoteOffer, ev.PrevRemote, ev.Text)
			all = append(all, fs...)
			if changed {
				nt = true
				v.Label("round:direction-changed-in-reoffer")
			}
		})
		if nt {
			v.NonTrivial()
		}
		vfFamBReport(v, all)
	})
}

// ---- pion offerer, direction lines munged ------------------------------------------------

type vfC08MungedCase struct {
	Hist  vfFamBPCase `json:"hist"`
	Flips [][]string  `json:"flips"` // per negotiate op (in order): direction per m-section index ("=" keep)
}

func TestVerif_C08_Munged(t *testing.T) {
	vfProperty(t, "C08", vfOpts{
		Rule: "munged pion offers: non-trivial = a round after the first in which a direction line of the offer was rewritten",
	}, func(v *vfT) vfC08MungedCase {
		r := v.R
		var c vfC08MungedCase
		c.Hist = vfFamBGenPair(r, 2, 5, false, false, false)
		for _, op := range c.Hist.Ops {
			if op.Op != "negotiate" {
				continue
			}
			var f []string
			n := rapid.IntRange(0, 4).Draw(r, "nFlips")
			for i := 0; i < n; i++ {
				f = append(f, rapid.SampledFrom([]string{"sendrecv", "sendonly", "recvonly", "inactive", "="}).Draw(r, "flip"))
			}
			c.Flips = append(c.Flips, f)
		}
		return c
	}, func(v *vfT, c vfC08MungedCase) {
		var all []vfFamBFinding
		nt := false
		prevSeen := ""
		vfFamBRunPair(v, c.Hist, func(ev vfFamBPEvent) {
			if ev.Kind != "answer" {
				return
			}
			fs, _ := vfC08Check(v, fmt.Sprintf("round %d (answerer = peer %d)", ev.Round, ev.Peer), ev.OfferSeen, prevSeen, ev.Text)
			all = append(all, fs...)
			prevSeen = ev.OfferSeen
		}, nil, func(round int, text string) string {
			if round-1 >= len(c.Flips) {
				return text
			}
			for i, d := range c.Flips[round-1] {
				_, media := vfFamBSplit(text)
				if d == "=" || i >= len(media) || !(strings.HasPrefix(media[i][0], "m=audio") || strings.HasPrefix(media[i][0], "m=video")) {
					continue
				}
				text = vfFamBSetDirection(text, i, d)
				v.Label("munge:direction-rewritten")
				if round > 1 {
					nt = true
				}
			}
			return text
		})
		if nt {
			v.NonTrivial()
		}
		vfFamBReport(v, all)
	})
}
