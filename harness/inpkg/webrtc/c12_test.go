package webrtc

// C12 — A successful offer describes exactly the local transceivers and data channels.
//
// Domain: Unified-Plan histories of AddTrack / AddTransceiverFromKind (sendrecv, sendonly,
// recvonly) / AddTransceiverFromTrack (sendrecv|sendonly, optional SSRC override, simulcast via
// AddEncoding) / RemoveTrack / ReplaceTrack / CreateDataChannel, optionally a completed
// offer/answer round with a pion peer (so that later offers come from generateMatchedSDP),
// under generated MediaEngine configurations with and without RTX / FlexFEC and
// AlwaysNegotiateDataChannels on/off. CreateOffer is called after every operation.
//
// Oracle on every successful CreateOffer: transceivers <-> non-application m-sections is a
// bijection by mid; the section's media type is Kind() and its direction attribute is
// Direction(); for a transceiver whose direction sends and whose sender has a track: every
// a=msid line is "<StreamID> <ID>" (at least one), the a=ssrc ids are exactly the SSRCs in
// Sender().GetParameters().Encodings (primary, RTX, FEC), the FID / FEC-FR ssrc-groups are
// exactly the pairs with a non-zero RTX / FEC SSRC, rid+simulcast lines appear iff there is
// more than one encoding; exactly one application section iff a data channel was created or
// AlwaysNegotiateDataChannels is set (else none).

import (
	"fmt"
	"sort"
	"strings"
	"testing"

	"pgregory.net/rapid"
)

type vfC12Op struct {
	Op   string `json:"op"` // addTrack | addKind | addFromTrack | removeTrack | replaceTrack | dc | negotiate
	Kind string `json:"kind,omitempty"`
	Dir  string `json:"dir,omitempty"`
	A    int    `json:"a,omitempty"`    // index argument (modulo live count)
	SSRC uint32 `json:"ssrc,omitempty"` // addFromTrack: SSRC override
	Rids int    `json:"rids,omitempty"` // addFromTrack: number of simulcast encodings (0/1 = plain)
	Nil  bool   `json:"nil,omitempty"`  // replaceTrack(nil)
}

type vfC12Case struct {
	ME       vfFamBMECfg `json:"me"`
	AlwaysDC bool        `json:"always_dc,omitempty"`
	Ops      []vfC12Op   `json:"ops"`
}

func vfC12SortedU32(in []uint32) []uint32 {
	out := append([]uint32{}, in...)
	sort.Slice(out, func(i, j int) bool { return out[i] < out[j] })
	return out
}

func vfC12Check(pc *PeerConnection, text string, dcExpected bool, step string) (fs []vfFamBFinding, feats map[string]bool) {
	feats = map[string]bool{}
	add := func(class, format string, a ...any) {
		fs = append(fs, vfFamBFinding{class, step + ": " + fmt.Sprintf(format, a...)})
	}
	d, err := vfFamBParse(text)
	if err != nil {
		add("C12/unparsable", "offer rejected by pion/sdp: %v", err)
		return
	}
	trs := pc.GetTransceivers()
	byMid := map[string][]*vfFamBOSec{}
	nRTP, nApp := 0, 0
	for _, s := range d.Sections {
		if s.Media == "application" {
			nApp++
			continue
		}
		nRTP++
		byMid[s.Mid()] = append(byMid[s.Mid()], s)
	}
	summary := func() string {
		var p []string
		for _, s := range d.Sections {
			p = append(p, fmt.Sprintf("%s(mid=%q,port=%d,%s)", s.Media, s.Mid(), s.Port, s.Dir()))
		}
		var q []string
		for _, t := range trs {
			q = append(q, fmt.Sprintf("%s(mid=%q,%s)", t.Kind(), t.Mid(), t.Direction()))
		}
		return "offer [" + strings.Join(p, " ") + "] transceivers [" + strings.Join(q, " ") + "]"
	}
	if nRTP != len(trs) {
		add("C12/section-count", "%d transceivers but %d non-application m-sections; %s", len(trs), nRTP, summary())
	}
	switch {
	case dcExpected && nApp == 0:
		add("C12/application-section-missing", "a data channel was created (or AlwaysNegotiateDataChannels) but the offer has no application section; %s", summary())
	case dcExpected && nApp > 1:
		add("C12/application-section-duplicated", "%d application sections; %s", nApp, summary())
	case !dcExpected && nApp > 0:
		add("C12/application-section-unexpected", "no data channel and no AlwaysNegotiateDataChannels but the offer has an application section; %s", summary())
	}
	for i, t := range trs {
		mid := t.Mid()
		if mid == "" {
			add("C12/transceiver-without-mid", "transceiver #%d (%s) has no mid after a successful CreateOffer; %s", i, t.Kind(), summary())
			continue
		}
		secs := byMid[mid]
		if len(secs) != 1 {
			add("C12/transceiver-section-count", "transceiver #%d (%s, mid %q) has %d m-sections; %s", i, t.Kind(), mid, len(secs), summary())
			continue
		}
		s := secs[0]
		if s.Media != t.Kind().String() {
			add("C12/kind-mismatch", "transceiver #%d mid %q is %s but its m-section is m=%s; %s", i, mid, t.Kind(), s.Media, summary())
		}
		if s.Port == 0 {
			feats["rejected-section"] = true
			continue // rejected sections carry no attributes by design (DESIGN §4.0)
		}
		if s.Dir() != t.Direction().String() {
			add("C12/direction-mismatch", "transceiver #%d mid %q has direction %s but its m-section says %q; %s", i, mid, t.Direction(), s.Dir(), summary())
		}
		sender := t.Sender()
		sending := t.Direction() == RTPTransceiverDirectionSendrecv || t.Direction() == RTPTransceiverDirectionSendonly
		if sender == nil || sender.Track() == nil || !sending {
			if len(s.SSRCs) > 0 || len(s.Msids) > 0 {
				feats["non-sending-section-with-ssrc-or-msid(not asserted)"] = true
			}
			continue
		}
		track := sender.Track()
		feats["sending-track"] = true
		wantMsid := track.StreamID() + " " + track.ID()
		if len(s.Msids) == 0 {
			add("C12/msid-missing", "mid %q sends track %q but the m-section has no a=msid", mid, wantMsid)
		}
		for _, m := range s.Msids {
			if m != wantMsid {
				add("C12/msid-mismatch", "mid %q sends track %q but the m-section has a=msid:%s", mid, wantMsid, m)
				break
			}
		}
		if len(s.Msids) > 1 {
			feats["repeated-msid-line(not asserted)"] = true
		}
		enc := sender.GetParameters().Encodings
		var want []uint32
		var wantFID, wantFEC []string
		for _, e := range enc {
			want = append(want, uint32(e.SSRC))
			if e.RTX.SSRC != 0 {
				want = append(want, uint32(e.RTX.SSRC))
				wantFID = append(wantFID, fmt.Sprintf("FID %d %d", e.SSRC, e.RTX.SSRC))
				feats["rtx"] = true
			}
			if e.FEC.SSRC != 0 {
				want = append(want, uint32(e.FEC.SSRC))
				wantFEC = append(wantFEC, fmt.Sprintf("FEC-FR %d %d", e.SSRC, e.FEC.SSRC))
				feats["fec"] = true
			}
		}
		if fmt.Sprint(vfC12SortedU32(want)) != fmt.Sprint(vfC12SortedU32(s.SSRCs)) {
			add("C12/ssrc-set-mismatch", "mid %q: sender encodings use SSRCs %v but the m-section announces %v", mid, vfC12SortedU32(want), vfC12SortedU32(s.SSRCs))
		}
		var gotFID, gotFEC, gotOther []string
		for _, g := range s.SSRCGroups {
			switch {
			case strings.HasPrefix(g, "FID "):
				gotFID = append(gotFID, g)
			case strings.HasPrefix(g, "FEC-FR "):
				gotFEC = append(gotFEC, g)
			default:
				gotOther = append(gotOther, g)
			}
		}
		sort.Strings(wantFID)
		sort.Strings(gotFID)
		sort.Strings(wantFEC)
		sort.Strings(gotFEC)
		if fmt.Sprint(wantFID) != fmt.Sprint(gotFID) {
			add("C12/ssrc-group-fid", "mid %q: expected ssrc-groups %q from the sender's RTX SSRCs, offer has %q", mid, wantFID, gotFID)
		}
		if fmt.Sprint(wantFEC) != fmt.Sprint(gotFEC) {
			add("C12/ssrc-group-fec", "mid %q: expected ssrc-groups %q from the sender's FEC SSRCs, offer has %q", mid, wantFEC, gotFEC)
		}
		if len(gotOther) > 0 {
			feats["other-ssrc-group(not asserted)"] = true
		}
		sendRids := 0
		for _, r := range s.Rids {
			if strings.HasSuffix(r, " send") {
				sendRids++
			}
		}
		hasSim := false
		for _, sm := range s.Simulcast {
			if strings.HasPrefix(sm, "send ") {
				hasSim = true
			}
		}
		if len(enc) > 1 {
			feats["simulcast"] = true
			if sendRids != len(enc) || !hasSim {
				add("C12/simulcast-lines-missing", "mid %q: sender has %d encodings but the m-section has %d 'rid send' lines and simulcast=%q", mid, len(enc), sendRids, s.Simulcast)
			}
		} else if sendRids > 0 || hasSim {
			add("C12/simulcast-lines-unexpected", "mid %q: sender has one encoding but the m-section has rid/simulcast send lines %q %q", mid, s.Rids, s.Simulcast)
		}
	}
	return fs, feats
}

func vfC12Run(v *vfT, c vfC12Case) {
	pc, err := vfFamBNewPC(vfFamBPCOpts{ME: c.ME, AlwaysDC: c.AlwaysDC})
	if err != nil {
		v.Skip("NewPeerConnection: " + err.Error())
	}
	defer func() { _ = pc.Close() }()
	var peer *PeerConnection
	defer func() {
		if peer != nil {
			_ = peer.Close()
		}
	}()
	var all []vfFamBFinding
	dcs := 0
	afterRemoveOrReplace, special := false, false
	rejectedWhileNone := false
	trackN := 0
	newTrack := func(kind, rid string) (TrackLocal, error) {
		trackN++
		return vfFamBTrack(c.ME, false, kind, fmt.Sprintf("track%d", trackN), fmt.Sprintf("stream%d", trackN%3), rid)
	}
	offerAndCheck := func(step string) {
		off, err := pc.CreateOffer(nil)
		if err != nil {
			v.Label("create-offer-error")
			v.Logf("%s: CreateOffer: %v", step, err)
			return
		}
		v.Label("offer-ok")
		fs, feats := vfC12Check(pc, off.SDP, dcs > 0 || c.AlwaysDC, step)
		all = append(all, fs...)
		for f := range feats {
			v.Label("offer:" + f)
		}
		if afterRemoveOrReplace || feats["rtx"] || feats["fec"] || feats["simulcast"] {
			special = true
		}
		if pc.currentRemoteDescription != nil {
			v.Label("offer:matched-path(after a completed round)")
		}
	}
	offerAndCheck("initial")
	for i, op := range c.Ops {
		step := fmt.Sprintf("op #%d %s", i, op.Op)
		var err error
		switch op.Op {
		case "addTrack":
			var tl TrackLocal
			if tl, err = newTrack(op.Kind, ""); err == nil {
				_, err = pc.AddTrack(tl)
			}
		case "addKind":
			_, err = pc.AddTransceiverFromKind(vfFamBKind(op.Kind), RTPTransceiverInit{Direction: NewRTPTransceiverDirection(op.Dir)})
		case "addFromTrack":
			rid := ""
			if op.Rids > 1 {
				rid = "r0"
			}
			var tl TrackLocal
			if tl, err = newTrack(op.Kind, rid); err != nil {
				break
			}
			init := RTPTransceiverInit{Direction: NewRTPTransceiverDirection(op.Dir)}
			if op.SSRC != 0 && op.Rids <= 1 {
				init.SendEncodings = []RTPEncodingParameters{{RTPCodingParameters: RTPCodingParameters{SSRC: SSRC(op.SSRC)}}}
			}
			var tr *RTPTransceiver
			if tr, err = pc.AddTransceiverFromTrack(tl, init); err != nil {
				break
			}
			for k := 1; k < op.Rids; k++ {
				extra, e2 := vfFamBTrack(c.ME, false, op.Kind, tl.ID(), tl.StreamID(), fmt.Sprintf("r%d", k))
				if e2 == nil {
					e2 = tr.Sender().AddEncoding(extra)
				}
				if e2 != nil {
					v.Label("add-encoding-error")
				}
			}
		case "removeTrack":
			senders := pc.GetSenders()
			if len(senders) == 0 {
				v.Label("op-noop")
				continue
			}
			err = pc.RemoveTrack(senders[op.A%len(senders)])
			if err == nil {
				afterRemoveOrReplace = true
			}
		case "replaceTrack":
			senders := pc.GetSenders()
			if len(senders) == 0 {
				v.Label("op-noop")
				continue
			}
			s := senders[op.A%len(senders)]
			if op.Nil {
				err = s.ReplaceTrack(nil)
			} else {
				kind := "audio"
				if s.kind == RTPCodecTypeVideo {
					kind = "video"
				}
				var tl TrackLocal
				if tl, err = newTrack(kind, ""); err == nil {
					err = s.ReplaceTrack(tl)
				}
			}
			if err == nil {
				afterRemoveOrReplace = true
			}
		case "dc":
			if _, err = pc.CreateDataChannel(fmt.Sprintf("dc%d", i), nil); err == nil {
				dcs++
			}
		case "dcRejected":
			// a CreateDataChannel call the API documents as refused: no channel comes into being
			label, opts := fmt.Sprintf("dcx%d", i), &DataChannelInit{}
			switch op.A % 3 {
			case 0: // both reliability limits
				lifetime, retransmits := uint16(100), uint16(3)
				opts.MaxPacketLifeTime, opts.MaxRetransmits = &lifetime, &retransmits
			case 1: // protocol longer than 65535 bytes
				proto := strings.Repeat("p", 65536)
				opts.Protocol = &proto
			default: // label longer than 65535 bytes
				label = strings.Repeat("l", 65536)
			}
			if _, e := pc.CreateDataChannel(label, opts); e == nil {
				dcs++ // not refused after all: then it is a channel like any other
				v.Label("rejected-datachannel-call-succeeded")
			} else {
				v.Label("datachannel-call-rejected")
				if dcs == 0 && !c.AlwaysDC {
					rejectedWhileNone = true
				}
			}
		case "negotiate":
			if peer == nil {
				if peer, err = vfFamBNewPC(vfFamBPCOpts{ME: c.ME}); err != nil {
					v.Skip("NewPeerConnection(peer): " + err.Error())
				}
			}
			if pc.SignalingState() != SignalingStateStable {
				v.Label("op-noop")
				continue
			}
			r := vfFamBExchange(pc, peer, nil, nil)
			if r.Stage != "" {
				v.Label("negotiate-failed:" + r.Stage)
				v.Logf("%s: %s: %v", step, r.Stage, r.Err)
			} else {
				v.Label("negotiate-ok")
			}
		}
		if err != nil {
			v.Label("op-error:" + op.Op)
			v.Logf("%s: %v", step, err)
		}
		offerAndCheck(step)
	}
	if rejectedWhileNone {
		v.Label("history:rejected-datachannel-before-any-channel-exists")
	}
	if special || rejectedWhileNone {
		v.NonTrivial()
	}
	vfFamBReport(v, all)
}

func vfC12Gen(v *vfT) vfC12Case {
	r := v.R
	var c vfC12Case
	c.ME = vfFamBGenME(r, vfFamBMEGenOpts{NeedAudio: true, NeedVideo: true, FEC: true, Remap: true, Exts: true})
	c.AlwaysDC = rapid.IntRange(0, 4).Draw(r, "alwaysDC") == 0
	n := rapid.IntRange(1, 9).Draw(r, "nOps")
	for i := 0; i < n; i++ {
		op := vfC12Op{Op: rapid.SampledFrom([]string{"addTrack", "addTrack", "addKind", "addKind", "addFromTrack", "addFromTrack", "removeTrack", "replaceTrack", "dc", "dcRejected", "negotiate"}).Draw(r, "op")}
		switch op.Op {
		case "addTrack":
			op.Kind = rapid.SampledFrom([]string{"audio", "video"}).Draw(r, "kind")
		case "addKind":
			op.Kind = rapid.SampledFrom([]string{"audio", "video"}).Draw(r, "kind")
			op.Dir = rapid.SampledFrom([]string{"sendrecv", "sendonly", "recvonly", "inactive"}).Draw(r, "dir")
		case "addFromTrack":
			op.Kind = rapid.SampledFrom([]string{"audio", "video", "video"}).Draw(r, "kind")
			op.Dir = rapid.SampledFrom([]string{"sendrecv", "sendonly"}).Draw(r, "dir")
			switch rapid.IntRange(0, 3).Draw(r, "fromTrackMode") {
			case 0:
				op.SSRC = uint32(rapid.IntRange(1, 1<<31-1).Draw(r, "ssrc"))
			case 1:
				op.Rids = rapid.IntRange(2, 3).Draw(r, "rids")
			}
		case "removeTrack":
			op.A = rapid.IntRange(0, 5).Draw(r, "a")
		case "dcRejected":
			op.A = rapid.IntRange(0, 2).Draw(r, "reason")
		case "replaceTrack":
			op.A = rapid.IntRange(0, 5).Draw(r, "a")
			op.Nil = rapid.IntRange(0, 3).Draw(r, "nil") == 0
		}
		c.Ops = append(c.Ops, op)
	}
	return c
}

func TestVerif_C12_Histories(t *testing.T) {
	vfProperty(t, "C12", vfOpts{
		Rule: "non-trivial = some successful CreateOffer of the history came after a successful RemoveTrack/ReplaceTrack, or described a sender with an RTX or FEC SSRC, or a simulcast sender, or the history has a refused CreateDataChannel call (both reliability limits, protocol or label over 65535 bytes) while no data channel exists",
		Assumptions: []string{
			"Unified Plan; every MediaEngine configuration has at least one audio and one video codec (a transceiver of a kind without codecs is C06's rejected-section case)",
			"msid/SSRC clauses are asserted for transceivers whose direction is sendrecv/sendonly and whose sender has a track; SSRC or msid lines on other sections are counted, not asserted",
			"repeated identical a=msid lines (one per simulcast encoding) are counted, not asserted",
		},
	}, vfC12Gen, vfC12Run)
}
