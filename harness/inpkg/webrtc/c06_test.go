package webrtc

// C06 — Generated descriptions have unique mids and a correct BUNDLE group.
//
// Domain: (a) foreign-peer histories: a scripted remote endpoint (sound G-sdp descriptions
// with numeric, sparse, zero-padded and token mids) offers and re-offers, adds m-sections and
// answers local offers by mirroring them, interleaved with local AddTrack /
// AddTransceiverFromKind / CreateDataChannel / RemoveTrack / Stop; (b) pion-pair histories
// with the same local operations on both sides and alternating offerers; both under
// SDPSemantics unified / unified-with-fallback and SetSDPMediaLevelFingerprints on/off.
//
// Oracle on every description returned by CreateOffer / CreateAnswer: parses with pion/sdp;
// every m-section has a non-empty mid; mids pairwise distinct; the BUNDLE group lists exactly
// the mids of the sections with a non-zero port, each once; each such section has ICE
// credentials (media or session level), exactly one direction attribute, a=setup and a
// fingerprint (media or session level).

import (
	"fmt"
	"testing"

	"pgregory.net/rapid"
)

func vfC06Inspect(all *[]vfFamBFinding, who, text string) {
	d, err := vfFamBParse(text)
	if err != nil {
		*all = append(*all, vfFamBFinding{"C06/unparsable", fmt.Sprintf("%s: generated SDP rejected by pion/sdp: %v\n%s", who, err, text)})
		return
	}
	*all = append(*all, vfFamBCheckC06(d, who)...)
}

func TestVerif_C06_Foreign(t *testing.T) {
	vfProperty(t, "C06", vfOpts{
		Rule: "foreign-peer histories: non-trivial = some description was generated after a remote description with a non-numeric or sparse mid had been applied and a local addition (track, transceiver or data channel) had succeeded after that",
		Assumptions: []string{
			"pion/sdp v3 is a trusted parser",
			"the scripted remote is sound: distinct mids, BUNDLE lists its accepted sections, one payload type = one codec, one extmap id = one URI; mids audio/video/data are not used under unified-with-fallback (they switch pion to Plan-B)",
			"Plan-B descriptions are outside the domain",
		},
	}, func(v *vfT) vfFamBFCase {
		return vfFamBGenForeign(v.R, false)
	}, func(v *vfT, c vfFamBFCase) {
		var all []vfFamBFinding
		nt := false
		vfFamBRunForeign(v, c, func(ev vfFamBFEvent) {
			vfC06Inspect(&all, fmt.Sprintf("step %d %s", ev.Step, ev.Kind), ev.Text)
			v.Label("desc:" + ev.Kind)
			if ev.OddMidSeen {
				v.Label("desc:after-odd-remote-mids")
			}
			if ev.OddMidSeen && ev.LocalAddAfter {
				nt = true
				v.Label("desc:after-odd-remote-mids+local-addition")
			}
		})
		if nt {
			v.NonTrivial()
		}
		vfFamBReport(v, all)
	})
}

func TestVerif_C06_Pair(t *testing.T) {
	vfProperty(t, "C06", vfOpts{
		Rule: "pion-pair histories: non-trivial = at least two completed rounds and a successful addition after the first",
	}, func(v *vfT) vfFamBPCase {
		return vfFamBGenPair(v.R, 1, 5, true, false, false)
	}, func(v *vfT, c vfFamBPCase) {
		var all []vfFamBFinding
		st := vfFamBRunPair(v, c, func(ev vfFamBPEvent) {
			vfC06Inspect(&all, fmt.Sprintf("step %d round %d peer %d %s", ev.Step, ev.Round, ev.Peer, ev.Kind), ev.Text)
			v.Label("desc:" + ev.Kind)
		}, nil, nil)
		if st.Rounds >= 2 && st.AddAfterRound {
			v.NonTrivial()
		}
		vfFamBReport(v, all)
	})
}

// ---- local histories with superseded offers ---------------------------------------------
//
// One PeerConnection whose offers are mostly never answered: CreateOffer after every operation
// (superseded by the next one), optionally applied and rolled back, with completed rounds against
// a pion peer that only ever answers in between. The peer adds nothing itself, so every mid in
// every description is allocated by the connection under test: a duplicate here is a purely
// local one (the cross-peer collision after an unanswered offer is C09's recorded finding and
// cannot arise in this test).

type vfC06LocalOp struct {
	Op   string `json:"op"` // addTrack | addKind | dc | removeTrack | stop | offer | offerRollback | negotiate
	Kind string `json:"kind,omitempty"`
	Dir  string `json:"dir,omitempty"`
	A    int    `json:"a,omitempty"`
}

type vfC06LocalCase struct {
	Side vfFamBPSide    `json:"side"`
	Ops  []vfC06LocalOp `json:"ops"`
}

func TestVerif_C06_Local(t *testing.T) {
	vfProperty(t, "C06", vfOpts{
		Rule: "local histories: non-trivial = an offer was generated after a data channel was requested, an earlier offer had been left unanswered (superseded or rolled back) and something was added since",
	}, func(v *vfT) vfC06LocalCase {
		r := v.R
		var c vfC06LocalCase
		c.Side = vfFamBPSide{Sem: rapid.IntRange(0, 1).Draw(r, "sem"), MediaFP: rapid.Bool().Draw(r, "mediaFP"), AlwaysDC: rapid.IntRange(0, 5).Draw(r, "alwaysDC") == 0}
		if rapid.Bool().Draw(r, "customME") {
			c.Side.ME = vfFamBGenME(r, vfFamBMEGenOpts{NeedAudio: true, NeedVideo: true, Remap: true, Exts: true})
		} else {
			c.Side.DefaultME = true
		}
		n := rapid.IntRange(3, 12).Draw(r, "nOps")
		for i := 0; i < n; i++ {
			op := vfC06LocalOp{Op: rapid.SampledFrom([]string{"addTrack", "addKind", "addKind", "dc", "dc", "removeTrack", "stop", "offer", "offer", "offerRollback", "negotiate"}).Draw(r, "op")}
			switch op.Op {
			case "addTrack":
				op.Kind = rapid.SampledFrom([]string{"audio", "video"}).Draw(r, "kind")
			case "addKind":
				op.Kind = rapid.SampledFrom([]string{"audio", "video"}).Draw(r, "kind")
				op.Dir = rapid.SampledFrom([]string{"sendrecv", "sendonly", "recvonly"}).Draw(r, "dir")
			case "removeTrack", "stop":
				op.A = rapid.IntRange(0, 5).Draw(r, "a")
			}
			c.Ops = append(c.Ops, op)
		}
		return c
	}, func(v *vfT, c vfC06LocalCase) {
		s := c.Side
		newPC := func() *PeerConnection {
			pc, err := vfFamBNewPC(vfFamBPCOpts{ME: s.ME, DefaultME: s.DefaultME, Semantics: vfFamBSemantics[s.Sem%len(vfFamBSemantics)], MediaFP: s.MediaFP, AlwaysDC: s.AlwaysDC})
			if err != nil {
				v.Skip("NewPeerConnection: " + err.Error())
			}
			return pc
		}
		pc := newPC()
		defer func() { _ = pc.Close() }()
		var peer *PeerConnection
		defer func() {
			if peer != nil {
				_ = peer.Close()
			}
		}()
		var all []vfFamBFinding
		dcWanted, unanswered, addedSince, nt := s.AlwaysDC, false, false, false
		trackN := 0
		offer := func(step int, rollback bool) {
			if pc.SignalingState() != SignalingStateStable {
				v.Label("skip:not-stable")
				return
			}
			off, err := pc.CreateOffer(nil)
			if err != nil {
				v.Label("create-offer-error")
				return
			}
			vfC06Inspect(&all, fmt.Sprintf("step %d offer (never answered)", step), off.SDP)
			v.Label("desc:offer-never-answered")
			if dcWanted && unanswered && addedSince {
				nt = true
				v.Label("desc:offer-after-unanswered-offer+addition,datachannel-wanted")
			}
			unanswered, addedSince = true, false
			if rollback {
				if err := pc.SetLocalDescription(off); err != nil {
					v.Label("set-local-offer-error")
					return
				}
				if err := pc.SetLocalDescription(SessionDescription{Type: SDPTypeRollback}); err != nil {
					v.Label("rollback-error")
					return
				}
				v.Label("offer-rolled-back")
			}
		}
		for i, op := range c.Ops {
			var err error
			switch op.Op {
			case "addTrack":
				trackN++
				var tl TrackLocal
				if tl, err = vfFamBTrack(s.ME, s.DefaultME, op.Kind, fmt.Sprintf("c06t%d", trackN), "c06s", ""); err == nil {
					_, err = pc.AddTrack(tl)
				}
				addedSince = addedSince || err == nil
			case "addKind":
				_, err = pc.AddTransceiverFromKind(vfFamBKind(op.Kind), RTPTransceiverInit{Direction: NewRTPTransceiverDirection(op.Dir)})
				addedSince = addedSince || err == nil
			case "dc":
				if _, err = pc.CreateDataChannel(fmt.Sprintf("dc%d", i), nil); err == nil {
					dcWanted = true
				}
			case "removeTrack":
				if sn := pc.GetSenders(); len(sn) > 0 {
					err = pc.RemoveTrack(sn[op.A%len(sn)])
				}
			case "stop":
				if tr := pc.GetTransceivers(); len(tr) > 0 {
					err = tr[op.A%len(tr)].Stop()
				}
			case "offer":
				offer(i, false)
			case "offerRollback":
				offer(i, true)
			case "negotiate":
				if pc.SignalingState() != SignalingStateStable {
					v.Label("skip:not-stable")
					break
				}
				if peer == nil {
					peer = newPC()
				}
				r := vfFamBExchange(pc, peer, nil, func(kind, text string) {
					vfC06Inspect(&all, fmt.Sprintf("step %d %s", i, kind), text)
					v.Label("desc:" + kind)
				})
				if r.Stage != "" {
					v.Label("round-failed:" + r.Stage)
					vfFamBReport(v, all)
					return // no caller continues from a half-applied exchange
				}
				v.Label("round-ok")
				unanswered, addedSince = false, false
			}
			if err != nil {
				v.Label("op-error:" + op.Op)
			}
		}
		offer(len(c.Ops), false)
		if nt {
			v.NonTrivial()
		}
		vfFamBReport(v, all)
	})
}
