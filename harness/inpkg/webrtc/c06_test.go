package webrtc

// C06 — Generated descriptions have unique mids and a correct BUNDLE group.
//
// Domain: (a) foreign-peer histories: a scripted remote endpoint (sound G-sdp descriptions
// with numeric, sparse, zero-padded and token mids) offers and re-offers, adds m-sections and
// answers local offers by mirroring them, interleaved with local AddTrack /
// AddTransceiverFromKind / CreateDataChannel / RemoveTrack / Stop; (b) pion-pair histories
// with the same local operations on both sides and alternating offerers; both under
// SDPSemantics unified / unified-with-fallback and SetSDPMediaLevelFingerprints on/off.
//
// Oracle on every description returned by CreateOffer / CreateAnswer: parses with pion/sdp;
// every m-section has a non-empty mid; mids pairwise distinct; the BUNDLE group lists exactly
// the mids of the sections with a non-zero port, each once; each such section has ICE
// credentials (media or session level), exactly one direction attribute, a=setup and a
// fingerprint (media or session level).

import (
	"fmt"
	"testing"
)

func vfC06Inspect(all *[]vfFamBFinding, who, text string) {
	d, err := vfFamBParse(text)
	if err != nil {
		*all = append(*all, vfFamBFinding{"C06/unparsable", fmt.Sprintf("%s: generated SDP rejected by pion/sdp: %v\n%s", who, err, text)})
		return
	}
	*all = append(*all, vfFamBCheckC06(d, who)...)
}

func TestVerif_C06_Foreign(t *testing.T) {
	vfProperty(t, "C06", vfOpts{
		Rule: "foreign-peer histories: non-trivial = some description was generated after a remote description with a non-numeric or sparse mid had been applied and a local addition (track, transceiver or data channel) had succeeded after that",
		Assumptions: []string{
			"pion/sdp v3 is a trusted parser",
			"the scripted remote is sound: distinct mids, BUNDLE lists its accepted sections, one payload type = one codec, one extmap id = one URI; mids audio/video/data are not used under unified-with-fallback (they switch pion to Plan-B)",
			"Plan-B descriptions are outside the domain",
		},
	}, func(v *vfT) vfFamBFCase {
		return vfFamBGenForeign(v.R, false)
	}, func(v *vfT, c vfFamBFCase) {
		var all []vfFamBFinding
		nt := false
		vfFamBRunForeign(v, c, func(ev vfFamBFEvent) {
			vfC06Inspect(&all, fmt.Sprintf("step %d %s", ev.Step, ev.Kind), ev.Text)
			v.Label("desc:" + ev.Kind)
			if ev.OddMidSeen {
				v.Label("desc:after-odd-remote-mids")
			}
			if ev.OddMidSeen && ev.LocalAddAfter {
				nt = true
				v.Label("desc:after-odd-remote-mids+local-addition")
			}
		})
		if nt {
			v.NonTrivial()
		}
		vfFamBReport(v, all)
	})
}

func TestVerif_C06_Pair(t *testing.T) {
	vfProperty(t, "C06", vfOpts{
		Rule: "pion-pair histories: non-trivial = at least two completed rounds and a successful addition after the first",
	}, func(v *vfT) vfFamBPCase {
		return vfFamBGenPair(v.R, 1, 5, true, false, false)
	}, func(v *vfT, c vfFamBPCase) {
		var all []vfFamBFinding
		st := vfFamBRunPair(v, c, func(ev vfFamBPEvent) {
			vfC06Inspect(&all, fmt.Sprintf("step %d round %d peer %d %s", ev.Step, ev.Round, ev.Peer, ev.Kind), ev.Text)
			v.Label("desc:" + ev.Kind)
		}, nil, nil)
		if st.Rounds >= 2 && st.AddAfterRound {
			v.NonTrivial()
		}
		vfFamBReport(v, all)
	})
}
