package webrtc

// Family helper "G-pair" (C13, C14, C18, C19, C23): two real PeerConnections on host
// candidates (or on a pion/transport vnet), non-trickle signalling through
// GatheringCompletePromise with optional text munging of the offer/answer in flight,
// polling waits with generous watchdogs, a process-wide certificate pool, guaranteed Close.
//
// Soundness conventions for the users of this file:
//   - a watchdog hit is never a violation by itself (callers count it under a label);
//   - nothing here asserts; errors are returned with the step that failed so the caller can
//     decide whether the step is inside the property's domain.

import (
	"crypto/ecdsa"
	"crypto/elliptic"
	"crypto/rand"
	"crypto/rsa"
	"fmt"
	"os"
	"regexp"
	"strings"
	"sync"
	"time"

	"github.com/pion/ice/v4"
	"github.com/pion/logging"
	"github.com/pion/transport/v4/vnet"
)

// ---- certificate pool -------------------------------------------------------------------

var (
	vfFamDCertOnceEC  sync.Once
	vfFamDCertOnceRSA sync.Once
	vfFamDCertsEC     []Certificate
	vfFamDCertsRSA    []Certificate
)

const (
	vfFamDNumEC  = 4
	vfFamDNumRSA = 2
)

// vfFamDCertEC returns ECDSA P-256 certificate #i (mod 4) of the process-wide pool.
func vfFamDCertEC(i int) Certificate {
	vfFamDCertOnceEC.Do(func() {
		for k := 0; k < vfFamDNumEC; k++ {
			sk, err := ecdsa.GenerateKey(elliptic.P256(), rand.Reader)
			if err != nil {
				panic("vfFamD: ecdsa.GenerateKey: " + err.Error())
			}
			c, err := GenerateCertificate(sk)
			if err != nil {
				panic("vfFamD: GenerateCertificate(ecdsa): " + err.Error())
			}
			vfFamDCertsEC = append(vfFamDCertsEC, *c)
		}
	})
	if i < 0 {
		i = -i
	}
	return vfFamDCertsEC[i%vfFamDNumEC]
}

// vfFamDCertRSA returns RSA-2048 certificate #i (mod 2) of the process-wide pool.
func vfFamDCertRSA(i int) Certificate {
	vfFamDCertOnceRSA.Do(func() {
		for k := 0; k < vfFamDNumRSA; k++ {
			sk, err := rsa.GenerateKey(rand.Reader, 2048)
			if err != nil {
				panic("vfFamD: rsa.GenerateKey: " + err.Error())
			}
			c, err := GenerateCertificate(sk)
			if err != nil {
				panic("vfFamD: GenerateCertificate(rsa): " + err.Error())
			}
			vfFamDCertsRSA = append(vfFamDCertsRSA, *c)
		}
	})
	if i < 0 {
		i = -i
	}
	return vfFamDCertsRSA[i%vfFamDNumRSA]
}

// vfFamDCert maps a pool index 0..5 to a certificate: 0..3 ECDSA, 4..5 RSA.
func vfFamDCert(i int) Certificate {
	if i < 0 {
		i = -i
	}
	i %= vfFamDNumEC + vfFamDNumRSA
	if i < vfFamDNumEC {
		return vfFamDCertEC(i)
	}
	return vfFamDCertRSA(i - vfFamDNumEC)
}

// ---- peers --------------------------------------------------------------------------------

// vfFamDPeer describes how one side is built. Zero value = defaults (UDP4 host candidates,
// mDNS off, default codecs, pool certificate 0/1).
type vfFamDPeer struct {
	SE     func(*SettingEngine) // customise the SettingEngine (after the family defaults)
	ME     func() *MediaEngine  // nil = RegisterDefaultCodecs
	Config Configuration        // Certificates empty = pool certificate
	NoCert bool                 // let pion generate its own certificate
}

// vfFamDBaseSE applies the family's transport defaults: IPv4 UDP host candidates only and no
// mDNS socket (both are ordinary configurations; they keep a pair cheap and deterministic).
func vfFamDBaseSE(se *SettingEngine) {
	se.SetNetworkTypes([]NetworkType{NetworkTypeUDP4})
	se.SetICEMulticastDNSMode(ice.MulticastDNSModeDisabled)
	se.SetIncludeLoopbackCandidate(true)
	if os.Getenv("VERIF_VERBOSE") == "" {
		// peers are closed in the middle of handshakes all the time; keep the shard logs readable
		lf := logging.NewDefaultLoggerFactory()
		lf.DefaultLogLevel = logging.LogLevelDisabled
		se.LoggerFactory = lf
	}
}

func vfFamDQuietLogger() logging.LoggerFactory {
	lf := logging.NewDefaultLoggerFactory()
	if os.Getenv("VERIF_VERBOSE") == "" {
		lf.DefaultLogLevel = logging.LogLevelDisabled
	}
	return lf
}

// vfFamDParallel runs f(i) for i in [0,n) on `workers` goroutines and waits for all of them.
// f must do its own recovery (vfSession.One does).
func vfFamDParallel(n, workers int, f func(i int) (stop bool)) {
	if workers < 1 {
		workers = 1
	}
	var (
		mu      sync.Mutex
		next    int
		stopped bool
		wg      sync.WaitGroup
	)
	for w := 0; w < workers; w++ {
		wg.Add(1)
		go func() {
			defer wg.Done()
			for {
				mu.Lock()
				if stopped || next >= n {
					mu.Unlock()
					return
				}
				i := next
				next++
				mu.Unlock()
				if f(i) {
					mu.Lock()
					stopped = true
					mu.Unlock()
				}
			}
		}()
	}
	wg.Wait()
}

type vfFamDPair struct {
	Off, Ans *PeerConnection
	OffAPI   *API
	AnsAPI   *API

	// as exchanged by the last Signal call
	OfferSent, AnswerSent   string // text handed to the other side (after munging)
	OfferLocal, AnswerLocal string // text applied locally (before munging)

	vnetRouter *vnet.Router
	closeOnce  sync.Once
}

func vfFamDBuildAPI(p vfFamDPeer, nw *vnet.Net) (*API, error) {
	se := SettingEngine{}
	vfFamDBaseSE(&se)
	if nw != nil {
		se.SetNet(nw)
		se.SetIncludeLoopbackCandidate(false)
	}
	if p.SE != nil {
		p.SE(&se)
	}
	var me *MediaEngine
	if p.ME != nil {
		me = p.ME()
	} else {
		me = &MediaEngine{}
		if err := me.RegisterDefaultCodecs(); err != nil {
			return nil, err
		}
	}
	return NewAPI(WithSettingEngine(se), WithMediaEngine(me)), nil
}

// vfFamDNewPair builds both PeerConnections. certBase selects the pool certificates
// (offerer certBase, answerer certBase+1) unless the peer brings its own.
func vfFamDNewPair(off, ans vfFamDPeer, certBase int) (*vfFamDPair, error) {
	return vfFamDNewPairNet(off, ans, certBase, nil)
}

// vfFamDVNet describes an in-process network: both peers hang off one router whose
// delay filter adds MinDelay + U[0,MaxJitter) per packet (jitter reorders, nothing is lost).
type vfFamDVNet struct {
	MinDelayMs  int `json:"min_delay_ms"`
	MaxJitterMs int `json:"max_jitter_ms"`
}

func vfFamDNewPairNet(off, ans vfFamDPeer, certBase int, vn *vfFamDVNet) (*vfFamDPair, error) {
	pair := &vfFamDPair{}
	var nwOff, nwAns *vnet.Net
	if vn != nil {
		router, err := vnet.NewRouter(&vnet.RouterConfig{
			CIDR:          "10.77.0.0/24",
			LoggerFactory: vfFamDQuietLogger(),
			MinDelay:  time.Duration(vn.MinDelayMs) * time.Millisecond,
			MaxJitter: time.Duration(vn.MaxJitterMs) * time.Millisecond,
		})
		if err != nil {
			return nil, fmt.Errorf("vnet.NewRouter: %w", err)
		}
		nwOff, err = vnet.NewNet(&vnet.NetConfig{StaticIPs: []string{"10.77.0.2"}})
		if err != nil {
			return nil, err
		}
		nwAns, err = vnet.NewNet(&vnet.NetConfig{StaticIPs: []string{"10.77.0.3"}})
		if err != nil {
			return nil, err
		}
		if err = router.AddNet(nwOff); err != nil {
			return nil, err
		}
		if err = router.AddNet(nwAns); err != nil {
			return nil, err
		}
		if err = router.Start(); err != nil {
			return nil, err
		}
		pair.vnetRouter = router
	}
	var err error
	if pair.OffAPI, err = vfFamDBuildAPI(off, nwOff); err != nil {
		pair.Close()
		return nil, err
	}
	if pair.AnsAPI, err = vfFamDBuildAPI(ans, nwAns); err != nil {
		pair.Close()
		return nil, err
	}
	cfgOff, cfgAns := off.Config, ans.Config
	if len(cfgOff.Certificates) == 0 && !off.NoCert {
		cfgOff.Certificates = []Certificate{vfFamDCert(certBase)}
	}
	if len(cfgAns.Certificates) == 0 && !ans.NoCert {
		cfgAns.Certificates = []Certificate{vfFamDCert(certBase + 1)}
	}
	if pair.Off, err = pair.OffAPI.NewPeerConnection(cfgOff); err != nil {
		pair.Close()
		return nil, fmt.Errorf("NewPeerConnection(offerer): %w", err)
	}
	if pair.Ans, err = pair.AnsAPI.NewPeerConnection(cfgAns); err != nil {
		pair.Close()
		return nil, fmt.Errorf("NewPeerConnection(answerer): %w", err)
	}
	return pair, nil
}

// Close closes both peers (always safe, idempotent).
func (p *vfFamDPair) Close() {
	p.closeOnce.Do(func() {
		var wg sync.WaitGroup
		for _, pc := range []*PeerConnection{p.Off, p.Ans} {
			if pc == nil {
				continue
			}
			wg.Add(1)
			go func(pc *PeerConnection) {
				defer wg.Done()
				_ = pc.Close()
			}(pc)
		}
		wg.Wait()
		if p.vnetRouter != nil {
			_ = p.vnetRouter.Stop()
		}
	})
}

// ---- signalling ----------------------------------------------------------------------------

const vfFamDGatherWatchdog = 20 * time.Second

// vfFamDStepError names the signalling step that failed.
type vfFamDStepError struct {
	Step string
	Err  error
}

func (e *vfFamDStepError) Error() string { return "vfFamD " + e.Step + ": " + e.Err.Error() }
func (e *vfFamDStepError) Unwrap() error { return e.Err }

var errVfFamDGatherTimeout = fmt.Errorf("ICE gathering did not complete within %s (inconclusive)", vfFamDGatherWatchdog)

// vfFamDHalf performs offerer-side steps: CreateOffer, SetLocalDescription, wait for
// gathering; returns the complete local offer.
func vfFamDLocalOffer(pc *PeerConnection) (string, error) {
	offer, err := pc.CreateOffer(nil)
	if err != nil {
		return "", &vfFamDStepError{"CreateOffer", err}
	}
	done := GatheringCompletePromise(pc)
	if err = pc.SetLocalDescription(offer); err != nil {
		return "", &vfFamDStepError{"SetLocalDescription(offer)", err}
	}
	select {
	case <-done:
	case <-time.After(vfFamDGatherWatchdog):
		return "", &vfFamDStepError{"gather(offer)", errVfFamDGatherTimeout}
	}
	ld := pc.LocalDescription()
	if ld == nil {
		return "", &vfFamDStepError{"LocalDescription(offer)", fmt.Errorf("nil")}
	}
	return ld.SDP, nil
}

// vfFamDLocalAnswer performs answerer-side steps after the offer text was applied.
func vfFamDLocalAnswer(pc *PeerConnection) (string, error) {
	answer, err := pc.CreateAnswer(nil)
	if err != nil {
		return "", &vfFamDStepError{"CreateAnswer", err}
	}
	done := GatheringCompletePromise(pc)
	if err = pc.SetLocalDescription(answer); err != nil {
		return "", &vfFamDStepError{"SetLocalDescription(answer)", err}
	}
	select {
	case <-done:
	case <-time.After(vfFamDGatherWatchdog):
		return "", &vfFamDStepError{"gather(answer)", errVfFamDGatherTimeout}
	}
	ld := pc.LocalDescription()
	if ld == nil {
		return "", &vfFamDStepError{"LocalDescription(answer)", fmt.Errorf("nil")}
	}
	return ld.SDP, nil
}

// SignalFrom runs one complete non-trickle offer/answer exchange with `from` offering.
// mungeOffer / mungeAnswer (nil = identity) edit the text in flight, i.e. only what the
// *other* side applies.
func (p *vfFamDPair) SignalFrom(from, to *PeerConnection, mungeOffer, mungeAnswer func(string) string) error {
	off, err := vfFamDLocalOffer(from)
	if err != nil {
		return err
	}
	p.OfferLocal = off
	if mungeOffer != nil {
		off = mungeOffer(off)
	}
	p.OfferSent = off
	if err = to.SetRemoteDescription(SessionDescription{Type: SDPTypeOffer, SDP: off}); err != nil {
		return &vfFamDStepError{"SetRemoteDescription(offer)", err}
	}
	ans, err := vfFamDLocalAnswer(to)
	if err != nil {
		return err
	}
	p.AnswerLocal = ans
	if mungeAnswer != nil {
		ans = mungeAnswer(ans)
	}
	p.AnswerSent = ans
	if err = from.SetRemoteDescription(SessionDescription{Type: SDPTypeAnswer, SDP: ans}); err != nil {
		return &vfFamDStepError{"SetRemoteDescription(answer)", err}
	}
	return nil
}

// Signal = SignalFrom(Off, Ans).
func (p *vfFamDPair) Signal(mungeOffer, mungeAnswer func(string) string) error {
	return p.SignalFrom(p.Off, p.Ans, mungeOffer, mungeAnswer)
}

// ---- waiting -------------------------------------------------------------------------------

const vfFamDConnectWatchdog = 20 * time.Second

// vfFamDWaitFor polls cond until it holds or the watchdog expires; the result only says
// whether cond was OBSERVED true.
func vfFamDWaitFor(d time.Duration, cond func() bool) bool {
	deadline := time.Now().Add(d)
	sleep := 200 * time.Microsecond
	for {
		if cond() {
			return true
		}
		if time.Now().After(deadline) {
			return cond()
		}
		time.Sleep(sleep)
		if sleep < 5*time.Millisecond {
			sleep *= 2
		}
	}
}

// WaitConnected reports whether both peers were observed in PeerConnectionStateConnected.
func (p *vfFamDPair) WaitConnected(d time.Duration) bool {
	return vfFamDWaitFor(d, func() bool {
		return p.Off.ConnectionState() == PeerConnectionStateConnected &&
			p.Ans.ConnectionState() == PeerConnectionStateConnected
	})
}

// vfFamDDTLSRole reads the role the DTLS transport uses/used at Start. Only meaningful once the
// transport has left `new` (the remote parameters are stored when DTLS starts).
func vfFamDDTLSRole(pc *PeerConnection) DTLSRole {
	t := pc.dtlsTransport
	t.lock.RLock()
	defer t.lock.RUnlock()
	return t.role()
}

// ---- SDP text utilities --------------------------------------------------------------------

var vfFamDSetupRe = regexp.MustCompile(`(?m)^a=setup:[^\r\n]*\r?\n`)

// vfFamDMungeSetup rewrites every a=setup line ("absent" removes them, "" keeps the text).
func vfFamDMungeSetup(sdpText, value string) string {
	switch value {
	case "":
		return sdpText
	case "absent":
		return vfFamDSetupRe.ReplaceAllString(sdpText, "")
	default:
		return vfFamDSetupRe.ReplaceAllString(sdpText, "a=setup:"+value+"\r\n")
	}
}

// vfFamDMungeSetupSession removes every a=setup line and states the value once at session
// level (RFC 4145: the attribute may be given at either level).
func vfFamDMungeSetupSession(sdpText, value string) string {
	s := vfFamDSetupRe.ReplaceAllString(sdpText, "")
	i := strings.Index(s, "\nm=")
	if i < 0 {
		return s
	}
	return s[:i+1] + "a=setup:" + value + "\r\n" + s[i+1:]
}

// vfFamDSetupValues lists the values of all a=setup lines in document order.
func vfFamDSetupValues(sdpText string) []string {
	var out []string
	for _, l := range strings.Split(sdpText, "\n") {
		l = strings.TrimRight(l, "\r")
		if strings.HasPrefix(l, "a=setup:") {
			out = append(out, strings.TrimPrefix(l, "a=setup:"))
		}
	}
	return out
}

// vfFamDLines splits an SDP text into lines without line terminators.
func vfFamDLines(sdpText string) []string {
	var out []string
	for _, l := range strings.Split(sdpText, "\n") {
		l = strings.TrimRight(l, "\r")
		if l != "" {
			out = append(out, l)
		}
	}
	return out
}
