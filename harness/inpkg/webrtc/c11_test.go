package webrtc

// C11 — SDP origin keeps a fixed session id and a strictly increasing version.
//
// Domain: programs on one PeerConnection P (with a peer Q that only supplies and consumes
// descriptions): a sequential prefix of CreateOffer / CreateAnswer / SetLocalDescription(offer) /
// local and remote rollback / AddTransceiver / CreateDataChannel / complete exchanges in either
// role / "receive a remote offer" (discarded and rolled-back descriptions count: a version once
// handed out is never reused), followed by a concurrent part: K
// goroutines (2..8) each issuing a list of CreateOffer / CreateAnswer calls, released together,
// optionally with one more goroutine adding transceivers meanwhile and with 1..3 mutator
// goroutines (RTPTransceiver.Stop, Sender.ReplaceTrack, SetCodecPreferences,
// AddTransceiverFromKind, RemoveTrack on drawn targets).  A third of the programs also carry a
// TrackLocal of the harness whose StreamID() callback stops an earlier transceiver while
// CreateOffer is generating (the recompute path of CreateOffer, reached deterministically).  The
// concurrent part runs in stable (offers) or in have-remote-offer (offers and answers mixed).
//
// Oracle over every description P generated (and, separately, every one Q generated), read
// from the o= line: all session ids equal; versions pairwise distinct; whenever call X returned
// before call Y started (atomic logical clock around each call) ver(X) < ver(Y) — which
// includes program order within a goroutine and the whole sequential prefix.
//
// pc.mu serialises CreateOffer and CreateAnswer on the pinned tree, so the concurrent part
// mostly guards against a future unlock; the thorough tier runs under -race.

import (
	"fmt"
	"sort"
	"strconv"
	"strings"
	"sync"
	"sync/atomic"
	"testing"

	"pgregory.net/rapid"
)

type vfC11Case struct {
	Init int     `json:"init"` // initial media of P (as in the family helper)
	Seq  []int   `json:"seq"`  // sequential prefix, see vfC11SeqOp*
	HRO  bool    `json:"hro"`  // run the concurrent part in have-remote-offer (else in whatever state the prefix left)
	Conc [][]int `json:"conc"` // per goroutine: 0 = CreateOffer, 1 = CreateAnswer
	Adds int     `json:"adds"` // transceivers added by an extra goroutine during the concurrent part
	// Hook > 0: P starts with Hook receive-only "victim" transceivers followed by a send-only
	// transceiver whose TrackLocal runs a one-shot callback from StreamID(), i.e. while CreateOffer
	// is writing that track's media section; the armed callback stops the next victim (a mutation
	// that does not take pc.mu and lands in the middle of offer generation).
	Hook    int     `json:"hook,omitempty"`
	HookCon bool    `json:"hook_conc,omitempty"` // arm the callback once more just before the concurrent part
	Mut     [][]int `json:"mut,omitempty"`       // concurrent mutator goroutines: action = v%5, target index = v/5
}

// vfC11HookTrack is a TrackLocal of the harness: StreamID() (read during SDP generation) runs a
// one-shot callback first.
type vfC11HookTrack struct {
	*TrackLocalStaticSample
	hook atomic.Value // func()
}

func (t *vfC11HookTrack) StreamID() string {
	if f, ok := t.hook.Swap((func())(nil)).(func()); ok && f != nil {
		f()
	}

	return t.TrackLocalStaticSample.StreamID()
}

const (
	vfC11SeqOffer       = iota // P.CreateOffer
	vfC11SeqAnswer             // P.CreateAnswer (fails unless a remote offer is pending; then it generates nothing)
	vfC11SeqAddTr              // P.AddTransceiverFromKind
	vfC11SeqExchangeP          // complete exchange initiated by P (P's offer and Q's answer are generated)
	vfC11SeqExchangeQ          // complete exchange initiated by Q (P generates an answer)
	vfC11SeqRemoteOff          // Q creates an offer, P applies it (P goes to have-remote-offer if it was stable)
	vfC11SeqFinishAns          // P: CreateAnswer + SetLocalDescription(answer) (leaves have-remote-offer)
	vfC11SeqSetLocalOff        // P.SetLocalDescription(last offer P created) (P goes to have-local-offer if it was stable)
	vfC11SeqRollbackL          // P.SetLocalDescription(rollback)  (legal from have-local-offer)
	vfC11SeqRollbackR          // P.SetRemoteDescription(rollback) (legal from have-remote-offer)
	vfC11SeqAddDC              // P.CreateDataChannel
	vfC11SeqAddSendTr          // P.AddTransceiverFromKind(sendrecv) (gives P a sender with a track)
	vfC11SeqHookOffer          // arm the StreamID() callback (stop the next victim), then P.CreateOffer
	vfC11SeqN
)

type vfC11Rec struct {
	who        string // "P" or "Q"
	g          int    // goroutine (-1 = sequential)
	kind       string
	start, end int64
	sid, ver   uint64
}

func vfC11Origin(sdpText string) (sid, ver uint64, ok bool) {
	for _, l := range strings.Split(sdpText, "\n") {
		l = strings.TrimRight(l, "\r")
		if strings.HasPrefix(l, "o=") {
			f := strings.Fields(l[2:])
			if len(f) < 3 {
				return 0, 0, false
			}
			s, e1 := strconv.ParseUint(f[1], 10, 64)
			v, e2 := strconv.ParseUint(f[2], 10, 64)
			return s, v, e1 == nil && e2 == nil
		}
	}
	return 0, 0, false
}

func vfC11Run(v *vfT, c vfC11Case) {
	P, err1 := vfFamANewPC(0)
	Q, err2 := vfFamANewPC(1)
	defer func() {
		if P != nil {
			_ = P.Close()
		}
		if Q != nil {
			_ = Q.Close()
		}
	}()
	if err1 != nil || err2 != nil {
		v.Skip("NewPeerConnection failed")
	}
	switch ((c.Init % 4) + 4) % 4 {
	case 0:
		_, _ = P.CreateDataChannel("init", nil)
	case 1:
		_, _ = P.AddTransceiverFromKind(RTPCodecTypeAudio)
	case 2:
		_, _ = P.AddTransceiverFromKind(RTPCodecTypeVideo)
	default:
		_, _ = P.AddTransceiverFromKind(RTPCodecTypeAudio)
		_, _ = P.CreateDataChannel("init", nil)
	}
	_, _ = Q.CreateDataChannel("init", nil)
	var victims []*RTPTransceiver
	var hookTrack *vfC11HookTrack
	hooksRun := 0
	if c.Hook > 0 {
		for k := 0; k < c.Hook && k < 5; k++ {
			if tr, err := P.AddTransceiverFromKind(RTPCodecTypeVideo, RTPTransceiverInit{Direction: RTPTransceiverDirectionRecvonly}); err == nil {
				victims = append(victims, tr)
			}
		}
		if static, err := NewTrackLocalStaticSample(RTPCodecCapability{MimeType: MimeTypeVP8}, "vfhook", "vfhook"); err == nil {
			ht := &vfC11HookTrack{TrackLocalStaticSample: static}
			// AddTransceiverFromTrack, not AddTrack: AddTrack would reuse the first victim
			if _, err = P.AddTransceiverFromTrack(ht, RTPTransceiverInit{Direction: RTPTransceiverDirectionSendonly}); err == nil {
				hookTrack = ht
			}
		}
	}
	armHook := func() {
		if hookTrack == nil || len(victims) == 0 {
			return
		}
		victim := victims[0]
		victims = victims[1:]
		hookTrack.hook.Store(func() {
			hooksRun++
			_ = victim.Stop()
		})
	}

	var clock atomic.Int64
	var mu sync.Mutex
	var recs []vfC11Rec
	badOrigin := ""
	// gen performs one generating call and records it
	gen := func(pc *PeerConnection, who string, g int, answer bool) (SessionDescription, bool) {
		start := clock.Add(1)
		var d SessionDescription
		var err error
		kind := "CreateOffer"
		if answer {
			kind = "CreateAnswer"
			d, err = pc.CreateAnswer(nil)
		} else {
			d, err = pc.CreateOffer(nil)
		}
		end := clock.Add(1)
		if err != nil {
			return d, false
		}
		sid, ver, ok := vfC11Origin(d.SDP)
		mu.Lock()
		if !ok {
			badOrigin = d.SDP
		} else {
			recs = append(recs, vfC11Rec{who: who, g: g, kind: kind, start: start, end: end, sid: sid, ver: ver})
		}
		mu.Unlock()
		return d, true
	}
	added := 0
	addTr := func() {
		if added < 6 {
			kind := RTPCodecTypeAudio
			if added%2 == 1 {
				kind = RTPCodecTypeVideo
			}
			_, _ = P.AddTransceiverFromKind(kind, RTPTransceiverInit{Direction: RTPTransceiverDirectionRecvonly})
			added++
		}
	}
	var lastOfferP *SessionDescription // last offer P created (what SetLocalDescription(offer) accepts)
	exchange := func(a, b *PeerConnection, an, bn string) {
		if b.SignalingState() != SignalingStateStable {
			return
		}
		var off SessionDescription
		switch a.SignalingState() { //nolint:exhaustive
		case SignalingStateStable:
			var ok bool
			off, ok = gen(a, an, -1, false)
			if !ok || a.SetLocalDescription(off) != nil {
				return
			}
		case SignalingStateHaveLocalOffer: // an offer is already pending: finish that exchange
			d := a.PendingLocalDescription()
			if d == nil {
				return
			}
			off = *d
		default:
			return
		}
		if b.SetRemoteDescription(off) != nil {
			return
		}
		ans, ok := gen(b, bn, -1, true)
		if !ok || b.SetLocalDescription(ans) != nil {
			return
		}
		_ = a.SetRemoteDescription(ans)
	}
	remoteOffer := func() {
		if P.SignalingState() != SignalingStateStable || Q.SignalingState() != SignalingStateStable {
			return
		}
		if off, ok := gen(Q, "Q", -1, false); ok {
			_ = P.SetRemoteDescription(off)
		}
	}
	nRollback, nSetLocalOffer := 0, 0
	var firstRollbackAt int64 // logical clock of the first successful rollback (0 = none)
	for _, op := range c.Seq {
		switch ((op % vfC11SeqN) + vfC11SeqN) % vfC11SeqN {
		case vfC11SeqOffer:
			if d, ok := gen(P, "P", -1, false); ok {
				dd := d
				lastOfferP = &dd
			}
		case vfC11SeqSetLocalOff:
			if lastOfferP != nil && P.SignalingState() == SignalingStateStable {
				if P.SetLocalDescription(*lastOfferP) == nil {
					nSetLocalOffer++
				}
			}
		case vfC11SeqRollbackL:
			if P.SetLocalDescription(SessionDescription{Type: SDPTypeRollback}) == nil {
				nRollback++
				if firstRollbackAt == 0 {
					firstRollbackAt = clock.Add(1)
				}
			}
		case vfC11SeqRollbackR:
			if P.SetRemoteDescription(SessionDescription{Type: SDPTypeRollback}) == nil {
				nRollback++
				if firstRollbackAt == 0 {
					firstRollbackAt = clock.Add(1)
				}
			}
		case vfC11SeqAddSendTr:
			if added < 6 {
				_, _ = P.AddTransceiverFromKind(RTPCodecTypeAudio, RTPTransceiverInit{Direction: RTPTransceiverDirectionSendrecv})
				added++
			}
		case vfC11SeqHookOffer:
			armHook()
			if d, ok := gen(P, "P", -1, false); ok {
				dd := d
				lastOfferP = &dd
			}
		case vfC11SeqAddDC:
			if added < 6 {
				_, _ = P.CreateDataChannel(fmt.Sprintf("dc%d", added), nil)
				added++
			}
		case vfC11SeqAnswer:
			gen(P, "P", -1, true)
		case vfC11SeqAddTr:
			addTr()
		case vfC11SeqExchangeP:
			exchange(P, Q, "P", "Q")
		case vfC11SeqExchangeQ:
			exchange(Q, P, "Q", "P")
		case vfC11SeqRemoteOff:
			remoteOffer()
		case vfC11SeqFinishAns:
			if P.SignalingState() == SignalingStateHaveRemoteOffer {
				if ans, ok := gen(P, "P", -1, true); ok {
					_ = P.SetLocalDescription(ans)
				}
			}
		}
	}
	if c.HRO {
		remoteOffer()
	}
	if P.SignalingState() == SignalingStateHaveRemoteOffer {
		v.Label("concurrent-part-in:have-remote-offer")
	} else {
		v.Label("concurrent-part-in:" + P.SignalingState().String())
	}

	// concurrent part
	if len(c.Conc) > 0 {
		var wg sync.WaitGroup
		release := make(chan struct{})
		for g, calls := range c.Conc {
			wg.Add(1)
			go func(g int, calls []int) {
				defer wg.Done()
				<-release
				for _, k := range calls {
					gen(P, "P", g, k%2 == 1)
				}
			}(g, calls)
		}
		if c.Adds > 0 {
			wg.Add(1)
			go func() {
				defer wg.Done()
				<-release
				for i := 0; i < c.Adds; i++ {
					addTr() // `added` is touched by this goroutine only during the concurrent part
				}
			}()
		}
		// mutators: public calls that change transceivers without going through pc.mu (or that
		// do), racing with the generating callers
		trs := P.GetTransceivers()
		senders := P.GetSenders()
		for _, acts := range c.Mut {
			wg.Add(1)
			go func(acts []int) {
				defer wg.Done()
				<-release
				nAdd := 0
				for _, a := range acts {
					if a < 0 {
						a = -a
					}
					idx := a / 5
					switch a % 5 {
					case 0:
						if len(trs) > 0 {
							_ = trs[idx%len(trs)].Stop()
						}
					case 1:
						if len(senders) > 0 {
							snd := senders[idx%len(senders)]
							if idx%2 == 0 {
								_ = snd.ReplaceTrack(nil)
							} else if tr, ok := snd.Track().(interface{ Codec() RTPCodecCapability }); ok && tr != nil {
								if nt, err := NewTrackLocalStaticSample(RTPCodecCapability{MimeType: tr.Codec().MimeType}, "vfrepl", "vfrepl"); err == nil {
									_ = snd.ReplaceTrack(nt)
								}
							}
						}
					case 2:
						if len(trs) > 0 {
							t := trs[idx%len(trs)]
							if codecs := P.api.mediaEngine.getCodecsByKind(t.Kind()); len(codecs) > 0 {
								_ = t.SetCodecPreferences(codecs[:1+idx%len(codecs)])
							}
						}
					case 3:
						if nAdd < 2 {
							nAdd++
							_, _ = P.AddTransceiverFromKind(RTPCodecTypeVideo, RTPTransceiverInit{Direction: RTPTransceiverDirectionRecvonly})
						}
					case 4:
						if len(senders) > 0 {
							_ = P.RemoveTrack(senders[idx%len(senders)])
						}
					}
				}
			}(acts)
		}
		if c.HookCon {
			armHook()
		}
		close(release)
		wg.Wait()
	}

	if badOrigin != "" {
		v.Violation("C11/unreadable-origin", "a generated description has no parsable o= line:\n%s", badOrigin)
	}
	perG := map[int]int{}
	nAnswers := 0
	for _, who := range []string{"P", "Q"} {
		var rs []vfC11Rec
		for _, r := range recs {
			if r.who == who {
				rs = append(rs, r)
				if who == "P" && r.g >= 0 {
					perG[r.g]++
					if r.kind == "CreateAnswer" {
						nAnswers++
					}
				}
			}
		}
		sort.Slice(rs, func(i, j int) bool { return rs[i].start < rs[j].start })
		for i := range rs {
			if rs[i].sid != rs[0].sid {
				v.Violation("C11/session-id-changed", "%s: %s (goroutine %d) produced o= session id %d, an earlier %s produced %d", who, rs[i].kind, rs[i].g, rs[i].sid, rs[0].kind, rs[0].sid)
			}
			for j := i + 1; j < len(rs); j++ {
				a, b := rs[i], rs[j]
				if a.ver == b.ver {
					v.Violation("C11/version-duplicate", "%s: %s (goroutine %d, clock %d..%d) and %s (goroutine %d, clock %d..%d) both carry session version %d",
						who, a.kind, a.g, a.start, a.end, b.kind, b.g, b.start, b.end, a.ver)
				}
				if a.end < b.start && !(a.ver < b.ver) {
					cl := "C11/version-not-increasing/concurrent-callers"
					if a.g == b.g {
						cl = "C11/version-not-increasing/same-caller"
					}
					v.Violation(cl, "%s: %s (goroutine %d) returned at clock %d with version %d; %s (goroutine %d) started later at clock %d and got version %d",
						who, a.kind, a.g, a.end, a.ver, b.kind, b.g, b.start, b.ver)
				}
			}
		}
	}
	if len(perG) >= 2 && len(recs) >= 4 {
		v.NonTrivial()
	}
	if nAnswers > 0 {
		v.Label("concurrent-answers-generated")
	}
	if hooksRun > 0 {
		v.Label("mutation-during-offer-generation(hook-ran)")
	}
	if len(c.Mut) > 0 {
		v.Label("has-concurrent-mutators")
	}
	if nRollback > 0 {
		v.Label("has-rollback")
		for _, r := range recs {
			if r.who == "P" && r.start > firstRollbackAt {
				v.Label("description-generated-after-rollback")
				break
			}
		}
	}
	if nSetLocalOffer > 0 {
		v.Label("has-local-offer-applied-outside-exchange")
	}
	if len(perG) >= 2 {
		v.Label("concurrent-goroutines>=2")
	}
	v.Label(fmt.Sprintf("descriptions:%s", vfC11Bucket(len(recs))))
}

func vfC11Bucket(n int) string {
	switch {
	case n < 4:
		return "<4"
	case n < 12:
		return "4..11"
	case n < 30:
		return "12..29"
	default:
		return ">=30"
	}
}

func TestVerif_C11_Programs(t *testing.T) {
	vfProperty(t, "C11", vfOpts{
		Rule: "program = sequential prefix (0..20 ops: CreateOffer, CreateAnswer, SetLocalDescription(last created offer), local and remote rollback, AddTransceiver, CreateDataChannel, full exchanges in both roles (also finishing a pending local offer), receive remote offer, finish as answerer; a third of the programs start with exchange / offers / rollback / offer) + concurrent part (2..8 goroutines x 1..6 CreateOffer/CreateAnswer calls, optionally with concurrent AddTransceiver); non-trivial = at least two goroutines generated a description and at least four descriptions were generated in total",
		Assumptions: []string{
			"'earlier' = the earlier call had returned before the later one started (atomic logical clock around each call); overlapping calls only need distinct versions",
			"session id and version are read from the o= line of the returned SDP",
			"on the pinned tree pc.mu serialises CreateOffer/CreateAnswer, so overlapping calls cannot interleave inside updateSDPOrigin; the concurrent part guards the property against a future unlock (thorough tier runs under -race)",
		},
	}, func(v *vfT) vfC11Case {
		c := vfC11Case{Init: rapid.IntRange(0, 3).Draw(v.R, "init"), HRO: rapid.Bool().Draw(v.R, "hro")}
		if rapid.IntRange(0, 2).Draw(v.R, "template") == 0 {
			// discarded offers: complete an exchange, create (and maybe apply) offers, roll back, generate again
			if rapid.Bool().Draw(v.R, "tRole") {
				c.Seq = append(c.Seq, vfC11SeqExchangeP)
			} else {
				c.Seq = append(c.Seq, vfC11SeqExchangeQ)
			}
			for k := rapid.IntRange(1, 3).Draw(v.R, "tOffers"); k > 0; k-- {
				if rapid.Bool().Draw(v.R, "tAdd") {
					c.Seq = append(c.Seq, vfC11SeqAddTr)
				}
				c.Seq = append(c.Seq, vfC11SeqOffer)
			}
			if rapid.IntRange(0, 3).Draw(v.R, "tRemote") == 0 {
				c.Seq = append(c.Seq, vfC11SeqRemoteOff, vfC11SeqAnswer, vfC11SeqRollbackR)
			} else {
				c.Seq = append(c.Seq, vfC11SeqSetLocalOff, vfC11SeqRollbackL)
			}
			c.Seq = append(c.Seq, vfC11SeqOffer)
		}
		c.Seq = append(c.Seq, rapid.SliceOfN(rapid.IntRange(0, vfC11SeqN-1), 0, 12).Draw(v.R, "seq")...)
		k := rapid.IntRange(2, 8).Draw(v.R, "k")
		for g := 0; g < k; g++ {
			c.Conc = append(c.Conc, rapid.SliceOfN(rapid.IntRange(0, 1), 1, 6).Draw(v.R, "calls"))
		}
		if rapid.IntRange(0, 2).Draw(v.R, "withHook") == 0 {
			c.Hook = rapid.IntRange(1, 4).Draw(v.R, "hook")
			c.HookCon = rapid.Bool().Draw(v.R, "hookConc")
			// make sure the armed offers are there: plain offer, armed offer, maybe more
			pre := []int{vfC11SeqOffer}
			for k := rapid.IntRange(1, 3).Draw(v.R, "hookOffers"); k > 0; k-- {
				pre = append(pre, vfC11SeqHookOffer)
				if rapid.Bool().Draw(v.R, "plainBetween") {
					pre = append(pre, vfC11SeqOffer)
				}
			}
			c.Seq = append(pre, c.Seq...)
		}
		if rapid.Bool().Draw(v.R, "withMutators") {
			for g := rapid.IntRange(1, 3).Draw(v.R, "mutators"); g > 0; g-- {
				c.Mut = append(c.Mut, rapid.SliceOfN(rapid.IntRange(0, 39), 1, 8).Draw(v.R, "mut"))
			}
		}
		if rapid.Bool().Draw(v.R, "withAdds") {
			c.Adds = rapid.IntRange(1, 4).Draw(v.R, "adds")
		}
		return c
	}, vfC11Run)
}
