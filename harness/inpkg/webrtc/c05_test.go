package webrtc

// C05 — queued negotiation work runs serially, in order, exactly once.
//
// Domain: harness-owned schedules of a closed scenario on a bare `operations` value:
// enqueuers (each a list of items, an item may enqueue children when it runs), Done waiters,
// at most one GracefulClose.  The worker goroutine parks at the verif yield points
// ops.run / ops.idle / ops.exit; the controller picks the next enabled actor step or parked
// arrival from the case's choice list.  Oracle: invariants over the recorded history.

import (
	"fmt"
	"sync"
	"sync/atomic"
	"testing"
	"time"

	"pgregory.net/rapid"
)

type vfC05Case struct {
	Enqueuers [][]int `json:"enqueuers"` // per enqueuer: per item the number of children it enqueues when run
	Waiters   int     `json:"waiters"`
	Closer    bool    `json:"closer"`
	LateEnq   int     `json:"late_enq"` // items enqueued after GracefulClose returned (must never run)
	Choices   []int   `json:"choices"`  // schedule: k-th decision picks enabled[Choices[k] % len(enabled)]
	// Backlog, when set, selects the backlog scenario instead (see vfC05Backlog): rounds of
	// "enqueue a batch, then let some items run".
	Backlog []vfC05Round `json:"backlog,omitempty"`
}

type vfC05Round struct {
	Enq      int   `json:"enq"`      // items enqueued by the controller in this round
	Permits  int   `json:"permits"`  // items allowed to run to completion before the next round
	Children []int `json:"children"` // Children[k%len]: children enqueued by the k-th item of the round when it runs
}

type vfC05Event struct {
	Kind string // enqCall enqRet runStart runEnd doneCall doneRet closeCall closeRet
	ID   string
	At   int64
}

type vfC05Result struct {
	branching []int
	trace     []string
	events    []vfC05Event
}

func vfC05Exec(v *vfT, c vfC05Case) *vfC05Result {
	res := &vfC05Result{}
	var clock atomic.Int64
	var evMu sync.Mutex
	rec := func(kind, id string) int64 {
		at := clock.Add(1)
		evMu.Lock()
		res.events = append(res.events, vfC05Event{kind, id, at})
		evMu.Unlock()
		return at
	}
	flag := &atomic.Bool{}
	ops := newOperations(flag, func() {})
	gates := vfGatesInstall([]string{"ops.run", "ops.idle", "ops.exit"}, ops)
	defer gates.Uninstall()
	actors := vfNewActors()

	// closedAtCall: the queue was already marked closed (GracefulClose had taken effect) when the
	// Enqueue call for this item began; such an item is "queued later" than the close in every
	// linearization and must never run
	closedAtCall := map[string]bool{}
	noteEnqCall := func(id string) {
		ops.mu.Lock()
		closed := ops.isClosed
		ops.mu.Unlock()
		evMu.Lock()
		closedAtCall[id] = closed
		evMu.Unlock()
		rec("enqCall", id)
	}
	var running atomic.Int32
	var serialBroken atomic.Bool
	var mkItem func(id string, children int) operation
	mkItem = func(id string, children int) operation {
		return func() {
			if running.Add(1) != 1 {
				serialBroken.Store(true)
			}
			rec("runStart", id)
			for k := 0; k < children; k++ {
				cid := fmt.Sprintf("%s.c%d", id, k)
				noteEnqCall(cid)
				ops.Enqueue(mkItem(cid, 0))
				rec("enqRet", cid)
			}
			rec("runEnd", id)
			running.Add(-1)
		}
	}

	next := make([]int, len(c.Enqueuers)) // next item index per enqueuer
	waitersStarted := 0
	closerStarted := false
	decision := 0
	stepSeq := 0
	window, overlap := false, false
	for {
		// enabled choices, in a deterministic order
		type choice struct {
			name string
			do   func()
		}
		var enabled []choice
		for e := range c.Enqueuers {
			e := e
			name := fmt.Sprintf("E%d", e)
			if next[e] < len(c.Enqueuers[e]) && !vfC05Running(actors, name) {
				enabled = append(enabled, choice{name, func() {
					j := next[e]
					next[e]++
					id := fmt.Sprintf("e%d.%d", e, j)
					stepSeq++
					actors.Go(fmt.Sprintf("%s#%d", name, stepSeq), func() {
						noteEnqCall(id)
						ops.Enqueue(mkItem(id, c.Enqueuers[e][j]))
						rec("enqRet", id)
					})
				}})
			}
		}
		if waitersStarted < c.Waiters {
			enabled = append(enabled, choice{"W", func() {
				id := fmt.Sprintf("w%d", waitersStarted)
				waitersStarted++
				actors.Go("W:"+id, func() {
					rec("doneCall", id)
					ops.Done()
					rec("doneRet", id)
				})
			}})
		}
		if c.Closer && !closerStarted {
			enabled = append(enabled, choice{"C", func() {
				closerStarted = true
				actors.Go("C", func() {
					rec("closeCall", "c")
					ops.GracefulClose()
					rec("closeRet", "c")
				})
			}})
		}
		for i, p := range gates.Parked() {
			i := i
			enabled = append(enabled, choice{"P:" + p, func() { gates.Release(i) }})
		}
		if len(enabled) == 0 {
			break
		}
		pick := 0
		if decision < len(c.Choices) {
			pick = c.Choices[decision] % len(enabled)
			if pick < 0 {
				pick = -pick
			}
		}
		res.branching = append(res.branching, len(enabled))
		res.trace = append(res.trace, enabled[pick].name)
		if nm := enabled[pick].name; nm[0] != 'P' {
			for _, p := range gates.Parked() {
				if p == "ops.idle" || p == "ops.exit" {
					window = true
				}
				if p == "ops.run" && nm == "C" {
					overlap = true
				}
			}
		}
		decision++
		enabled[pick].do()
		vfSettle(gates, actors)
		if decision > 400 {
			v.Violation("C05/livelock", "scenario did not finish within 400 decisions; trace %v", res.trace)
		}
	}
	// quiescence: everything released, blocked callers must return
	gates.OpenAll()
	ok, dump := vfWaitActors(actors, 20*time.Second)
	vfSettle(gates, actors)
	// items enqueued after GracefulClose returned must never run
	closeRet := false
	evMu.Lock()
	for _, e := range res.events {
		if e.Kind == "closeRet" {
			closeRet = true
		}
	}
	evMu.Unlock()
	if closeRet {
		for k := 0; k < c.LateEnq; k++ {
			id := fmt.Sprintf("late%d", k)
			noteEnqCall(id)
			ops.Enqueue(mkItem(id, 0))
			rec("enqRet", id)
		}
		time.Sleep(2 * vfSettleInterval)
	}
	// the worker is not one of the harness's actors: wait until it has drained the queue and exited
	// (under load it may simply not have reached its next yield point within the settle interval)
	vfPairWaitC05(10*time.Second, func() bool {
		ops.mu.Lock()
		defer ops.mu.Unlock()
		return ops.busyCh == nil
	})
	// (only the exported-to-the-package accessors are used for the queue contents, so that the check
	// does not depend on how the pending items are stored)
	stranded := 0
	if !ops.IsEmpty() {
		stranded = 1
	}
	ops.mu.Lock()
	worker := ops.busyCh != nil
	ops.mu.Unlock()
	if worker {
		v.Violation("C05/worker-stuck", "the queue worker is still alive 10s after every gate was opened (queue length %d); trace %v\n%s", stranded, res.trace, vfPionStacks())
	}

	evMu.Lock()
	events := append([]vfC05Event{}, res.events...)
	evMu.Unlock()
	at := func(kind, id string) int64 {
		for _, e := range events {
			if e.Kind == kind && e.ID == id {
				return e.At
			}
		}
		return 0
	}
	count := func(kind, id string) int {
		n := 0
		for _, e := range events {
			if e.Kind == kind && e.ID == id {
				n++
			}
		}
		return n
	}
	closeCallAt, closeRetAt := at("closeCall", "c"), at("closeRet", "c")

	// labels / non-triviality: an enqueue, Done or close was started while the worker was parked
	// between its last pop()==nil and the restart, or the close was called while an item was
	// pending at ops.run
	if window {
		v.Label("step-in-handoff-window")
	}
	if overlap {
		v.Label("close-overlaps-pending-item")
	}
	if window || overlap {
		v.NonTrivial()
	}

	if serialBroken.Load() {
		v.Violation("C05/not-serial", "two queued items ran at the same time; trace %v", res.trace)
	}
	var items []string
	seen := map[string]bool{}
	for _, e := range events {
		if e.Kind == "enqCall" && !seen[e.ID] {
			seen[e.ID] = true
			items = append(items, e.ID)
		}
	}
	for _, id := range items {
		n := count("runStart", id)
		if n > 1 {
			v.Violation("C05/ran-twice", "item %s ran %d times; trace %v", id, n, res.trace)
		}
		enqRet := at("enqRet", id)
		if closeRetAt != 0 && at("enqCall", id) > closeRetAt && n > 0 {
			v.Violation("C05/ran-after-close", "item %s was enqueued after GracefulClose returned and still ran; trace %v", id, res.trace)
		}
		if closedAtCall[id] && n > 0 {
			v.Violation("C05/ran-after-close", "item %s was enqueued when GracefulClose had already marked the queue closed (the close was still waiting for the running item) and it ran; trace %v", id, res.trace)
		}
		if closedAtCall[id] {
			v.Label("enqueue-while-close-waits")
		}
		if n == 0 && enqRet != 0 && (closeCallAt == 0 || enqRet < closeCallAt) {
			v.Violation("C05/item-lost", "item %s was accepted (Enqueue returned before any close was called) but never ran; queue length at quiescence=%d, worker alive=%v; trace %v",
				id, stranded, worker, res.trace)
		}
	}
	// order: a enqueued (returned) before b's Enqueue was called  =>  a starts before b
	for _, a := range items {
		for _, b := range items {
			if a == b || at("enqRet", a) == 0 || at("enqRet", a) > at("enqCall", b) {
				continue
			}
			sa, sb := at("runStart", a), at("runStart", b)
			if sa != 0 && sb != 0 && sa > sb {
				v.Violation("C05/order", "item %s was queued before %s but ran after it; trace %v", a, b, res.trace)
			}
			if sa == 0 && sb != 0 {
				v.Violation("C05/order", "item %s was queued before %s, %s ran and %s did not; trace %v", a, b, b, a, res.trace)
			}
		}
	}
	// Done returns only after everything enqueued before the wait has run
	for w := 0; w < waitersStarted; w++ {
		id := fmt.Sprintf("w%d", w)
		dc, dr := at("doneCall", id), at("doneRet", id)
		if dr != 0 {
			for _, it := range items {
				if er := at("enqRet", it); er != 0 && er < dc && (closeCallAt == 0 || er < closeCallAt) {
					if re := at("runEnd", it); re == 0 || re > dr {
						v.Violation("C05/done-early", "Done (%s) returned before item %s, enqueued before the wait, had run; trace %v", id, it, res.trace)
					}
				}
			}
		}
		if dr == 0 && (closeCallAt == 0 || dc < closeCallAt) {
			// the waiter's own queue entry was accepted before any close and never ran
			v.Violation("C05/done-hangs", "Done (%s) called before GracefulClose never returned: queue length at quiescence=%d, worker alive=%v; trace %v\n%s",
				id, stranded, worker, res.trace, dump)
		}
	}
	if closerStarted && closeRetAt == 0 {
		v.Violation("C05/close-hangs", "GracefulClose never returned; trace %v\n%s", res.trace, dump)
	}
	if closeRetAt != 0 {
		for _, e := range events {
			if e.Kind == "runStart" && e.At > closeRetAt {
				v.Violation("C05/ran-after-close", "item %s started after GracefulClose had returned; trace %v", e.ID, res.trace)
			}
		}
	}
	if !ok && closeRetAt == 0 && !closerStarted {
		v.Violation("C05/stuck", "actors did not finish: %s; trace %v", dump, res.trace)
	}
	if !closerStarted && stranded > 0 && !worker {
		v.Violation("C05/item-lost", "%d queued items stranded with no worker running; trace %v", stranded, res.trace)
	}
	reached := gates.Reached()
	if reached["ops.idle"]+reached["ops.exit"]+reached["ops.run"] == 0 {
		v.Label("gates-not-reached")
	}
	return res
}

func vfPairWaitC05(timeout time.Duration, cond func() bool) bool {
	deadline := time.Now().Add(timeout)
	for {
		if cond() {
			return true
		}
		if time.Now().After(deadline) {
			return false
		}
		time.Sleep(100 * time.Microsecond)
	}
}

func vfC05Running(a *vfActors, prefix string) bool {
	for _, r := range a.Running() {
		if len(r) > len(prefix) && r[:len(prefix)+1] == prefix+"#" {
			return true
		}
	}
	return false
}

func vfC05Run(v *vfT, c vfC05Case) {
	if len(c.Backlog) > 0 {
		vfC05Backlog(v, c)
		return
	}
	vfC05Exec(v, c)
}

// vfC05Backlog drives a bare operations queue through rounds of "enqueue a batch while the worker
// is held inside an item, then let some items run".  Every item first waits for a permit, so all
// enqueues are totally ordered by the controller and the expected run order is the model FIFO.
func vfC05Backlog(v *vfT, c vfC05Case) {
	flag := &atomic.Bool{}
	ops := newOperations(flag, func() {})
	permits := make(chan struct{}, 4096)
	finished := make(chan string, 4096)
	var mu sync.Mutex
	var ran []string    // run order (bodies)
	var model []string  // model FIFO: expected run order, appended at enqueue time
	var running atomic.Int32
	serialBroken := false
	var mkItem func(id string, children int) operation
	mkItem = func(id string, children int) operation {
		return func() {
			<-permits
			if running.Add(1) != 1 {
				mu.Lock()
				serialBroken = true
				mu.Unlock()
			}
			mu.Lock()
			ran = append(ran, id)
			mu.Unlock()
			for k := 0; k < children; k++ {
				cid := fmt.Sprintf("%s.c%d", id, k)
				mu.Lock()
				model = append(model, cid)
				mu.Unlock()
				ops.Enqueue(mkItem(cid, 0))
			}
			running.Add(-1)
			finished <- id
		}
	}
	done := 0 // items that have run to completion
	maxBacklog, grewWithOffset := 0, false
	for ri, r := range c.Backlog {
		for k := 0; k < r.Enq; k++ {
			id := fmt.Sprintf("r%d.%d", ri, k)
			ch := 0
			if len(r.Children) > 0 {
				ch = r.Children[k%len(r.Children)]
			}
			mu.Lock()
			model = append(model, id)
			pending := len(model) - done
			mu.Unlock()
			ops.Enqueue(mkItem(id, ch))
			if pending > maxBacklog {
				maxBacklog = pending
			}
			if pending >= 8 && done > 0 {
				grewWithOffset = true
			}
		}
		for p := 0; p < r.Permits; p++ {
			mu.Lock()
			pending := len(model) - done
			mu.Unlock()
			if pending == 0 {
				break
			}
			permits <- struct{}{}
			select {
			case <-finished:
				done++
			case <-time.After(20 * time.Second):
				v.Violation("C05/backlog/stuck", "an item that was given its permit did not run within 20s (round %d, %d done)\n%s", ri, done, vfPionStacks())
				return
			}
		}
	}
	// let everything else run, then Done must return
	for {
		mu.Lock()
		pending := len(model) - done
		mu.Unlock()
		if pending == 0 {
			break
		}
		permits <- struct{}{}
		select {
		case <-finished:
			done++
		case <-time.After(20 * time.Second):
			mu.Lock()
			v.Violation("C05/backlog/item-lost", "%d queued items never ran (ran %d of %d); first missing %s", pending, len(ran), len(model), vfC05FirstDiff(model, ran))
			mu.Unlock()
			return
		}
	}
	doneCh := make(chan struct{})
	go func() { ops.Done(); close(doneCh) }()
	select {
	case <-doneCh:
	case <-time.After(20 * time.Second):
		v.Violation("C05/backlog/done-hangs", "Done did not return after every item had run")
	}
	// a spurious extra run would consume no permit; give it a moment to show up
	select {
	case id := <-finished:
		v.Violation("C05/backlog/ran-twice", "item %s ran although every enqueued item had already run once", id)
	case <-time.After(vfSettleInterval):
	}
	mu.Lock()
	defer mu.Unlock()
	if maxBacklog > 32 {
		v.Label("backlog>32")
	}
	if grewWithOffset {
		v.Label("backlog-after-earlier-items-ran")
		v.NonTrivial()
	}
	if serialBroken {
		v.Violation("C05/not-serial", "two queued items ran at the same time (backlog scenario)")
	}
	seen := map[string]int{}
	for _, id := range ran {
		seen[id]++
		if seen[id] > 1 {
			v.Violation("C05/ran-twice", "item %s ran %d times (backlog scenario)", id, seen[id])
		}
	}
	if len(ran) != len(model) {
		v.Violation("C05/backlog/item-lost", "%d items enqueued, %d ran; %s", len(model), len(ran), vfC05FirstDiff(model, ran))
	}
	for i := range model {
		if ran[i] != model[i] {
			v.Violation("C05/order", "backlog scenario: position %d ran %s, queued order says %s (max backlog %d)", i, ran[i], model[i], maxBacklog)
		}
	}
	ops.GracefulClose()
}

func vfC05FirstDiff(model, ran []string) string {
	for i := range model {
		if i >= len(ran) {
			return fmt.Sprintf("position %d: expected %s, nothing ran", i, model[i])
		}
		if ran[i] != model[i] {
			return fmt.Sprintf("position %d: expected %s, ran %s", i, model[i], ran[i])
		}
	}
	return "no difference in the common prefix"
}

var vfC05Opts = vfOpts{
	Rule: "schedules of a closed scenario on a bare operations queue (enqueuers x items with children, Done waiters, one GracefulClose, late enqueues); the controller picks among enabled actor steps and goroutines parked at ops.run/ops.idle/ops.exit; non-trivial = an actor step is taken while the worker is parked in the hand-off window (after its last empty pop, before the deferred restart) or GracefulClose is called while an item is pending; backlog scenario (rounds of batch enqueue / partial drain with the worker held inside an item): non-trivial = at least 8 items pending after earlier items had already run",
	Assumptions: []string{"interleavings are explored at the verif yield points only (ops.run, ops.idle, ops.exit) plus the order of actor steps",
		"a settle interval decides when a goroutine counts as parked; it affects which schedule is explored, not the soundness of the verdict"},
}

func TestVerif_C05_Sampled(t *testing.T) {
	vfProperty(t, "C05", vfC05Opts, func(v *vfT) vfC05Case {
		var c vfC05Case
		ne := rapid.IntRange(1, 3).Draw(v.R, "enqueuers")
		for e := 0; e < ne; e++ {
			ni := rapid.IntRange(1, 3).Draw(v.R, "items")
			var its []int
			for i := 0; i < ni; i++ {
				its = append(its, rapid.SampledFrom([]int{0, 0, 0, 1, 2}).Draw(v.R, "children"))
			}
			c.Enqueuers = append(c.Enqueuers, its)
		}
		c.Waiters = rapid.IntRange(0, 2).Draw(v.R, "waiters")
		c.Closer = rapid.Bool().Draw(v.R, "closer")
		if c.Closer {
			c.LateEnq = rapid.IntRange(0, 2).Draw(v.R, "late")
		}
		c.Choices = rapid.SliceOfN(rapid.IntRange(0, 11), 10, 60).Draw(v.R, "choices")
		return c
	}, vfC05Run)
}

// TestVerif_C05_Backlog: deep backlogs (tens of pending items) after earlier items already ran.
func TestVerif_C05_Backlog(t *testing.T) {
	vfProperty(t, "C05", vfC05Opts, func(v *vfT) vfC05Case {
		var c vfC05Case
		nr := rapid.IntRange(1, 5).Draw(v.R, "rounds")
		for r := 0; r < nr; r++ {
			var rd vfC05Round
			rd.Enq = rapid.SampledFrom([]int{0, 1, 2, 5, 9, 17, 31, 32, 33, 40, 64, 65, 90}).Draw(v.R, "enq")
			rd.Permits = rapid.SampledFrom([]int{0, 1, 2, 3, 7, 16, 31, 33, 50, 200}).Draw(v.R, "permits")
			rd.Children = rapid.SliceOfN(rapid.SampledFrom([]int{0, 0, 0, 0, 1, 2}), 1, 4).Draw(v.R, "children")
			c.Backlog = append(c.Backlog, rd)
		}
		if c.Backlog[0].Enq == 0 {
			c.Backlog[0].Enq = 3
		}
		return c
	}, vfC05Run)
}

// TestVerif_C05_DFS enumerates every schedule (choice sequence) of a family of small scenarios.
func TestVerif_C05_DFS(t *testing.T) {
	s := vfOpen(t, "C05", vfC05Opts, vfC05Run)
	defer s.Close()
	if s.Replay() {
		return
	}
	scenarios := []vfC05Case{
		{Enqueuers: [][]int{{0}}, Waiters: 1, Closer: true},
		{Enqueuers: [][]int{{0}, {0}}, Waiters: 0, Closer: false},
		{Enqueuers: [][]int{{1}}, Waiters: 1, Closer: false},
		{Enqueuers: [][]int{{0, 0}}, Waiters: 0, Closer: true, LateEnq: 1},
		{Enqueuers: [][]int{{0}, {0}}, Waiters: 1, Closer: false},
		{Enqueuers: [][]int{{0}, {1}}, Waiters: 0, Closer: true, LateEnq: 1},
		{Enqueuers: [][]int{{0}}, Waiters: 2, Closer: true},
		{Enqueuers: [][]int{{2}}, Waiters: 1, Closer: true},
	}
	limit := vfN(150) // schedules per scenario in the quick tier; thorough passes a large number
	shard, nshards := vfShard()
	exhaustive := true
	total := 0
	for si, sc := range scenarios {
		if si%nshards != shard {
			continue
		}
		seq := []int{}
		n := 0
		for {
			c := sc
			c.Choices = append([]int{}, seq...)
			var branching []int
			stop := func() bool {
				// run through the session so the case is counted and a violation is recorded
				return s.OneWith(c, func(v *vfT, cc vfC05Case) { branching = vfC05Exec(v, cc).branching })
			}()
			if stop {
				return
			}
			n++
			total++
			full := make([]int, len(branching))
			copy(full, seq)
			i := len(full) - 1
			for i >= 0 && full[i]+1 >= branching[i] {
				i--
			}
			if i < 0 {
				break
			}
			seq = append([]int{}, full[:i+1]...)
			seq[i]++
			if n >= limit {
				exhaustive = false
				break
			}
		}
		s.Extra(fmt.Sprintf("dfs_schedules_scenario_%d", si), n)
	}
	s.SetExhaustive(exhaustive)
	s.Extra("dfs_schedules_total", total)
}
