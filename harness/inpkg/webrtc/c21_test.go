package webrtc

// C21 — Close is idempotent, concurrency-safe and final.
//
// Domain: 1-4 concurrent Close / GracefulClose callers started at a drawn stage of connection
// setup (fresh, media added, local offer set, answer applied / ICE running, connected, data
// flowing), optionally while the operations worker is held at ops.run; afterwards every
// negotiation-changing API is called.  Oracle: all callers return; final states; every
// mutating call fails with InvalidStateError; the pc.connstate monitor never shows a
// non-closed emission after closed and the handler deliveries equal the emissions as a
// multiset; after GracefulClose on both peers a goroutine census finds nothing left.

import (
	"context"
	"errors"
	"fmt"
	"runtime"
	"sort"
	"strings"
	"sync"
	"sync/atomic"
	"testing"
	"time"

	"github.com/pion/webrtc/v4/pkg/media"
	"github.com/pion/webrtc/v4/pkg/rtcerr"
	"pgregory.net/rapid"
)

type vfC21Closer struct {
	Graceful bool `json:"graceful"`
	Yields   int  `json:"yields"` // runtime.Gosched() calls before closing
}

type vfC21Case struct {
	Stage   int           `json:"stage"` // 0 fresh .. 5 data flowing, 6 closing while the own DTLS handshake is parked, 7 closing while the OnMessage handler is busy and a large message waits unread
	HoldOps bool          `json:"hold_ops"`
	Closers []vfC21Closer `json:"closers"`
	// Sequential: closers are started one after another (each after the system settled) instead of
	// all at once; with hold_ops the worker stays parked until all of them were started.
	Sequential bool `json:"sequential"`
	// Callback (stage 8): which application callback of the closing connection is still running
	// when the closers start: 0 OnICECandidate (local offer set, ICE has no connection yet),
	// 1 OnICEConnectionStateChange (pair signalled, transports coming up).
	Callback int `json:"callback,omitempty"`
}

// vfC21PionGoroutines returns id -> stack of goroutines that run pion code and are not harness goroutines.
func vfC21PionGoroutines() map[string]string {
	buf := make([]byte, 4<<20)
	buf = buf[:runtime.Stack(buf, true)]
	out := map[string]string{}
	for _, g := range strings.Split(string(buf), "\n\n") {
		if !strings.Contains(g, "github.com/pion/") {
			continue
		}
		if strings.Contains(g, ".vfC21") || strings.Contains(g, "pgregory.net/rapid") || strings.Contains(g, "testing.tRunner") || strings.Contains(g, ".vfProperty") || strings.Contains(g, "vfActors") {
			continue
		}
		hdr := g
		if i := strings.Index(g, "\n"); i > 0 {
			hdr = g[:i]
		}
		id := strings.Fields(hdr)
		if len(id) >= 2 {
			out[id[1]] = g
		}
	}
	return out
}

func vfC21Run(v *vfT, c vfC21Case) {
	before := vfC21PionGoroutines()
	api := vfPairAPI(nil, nil)
	// stage 6: the closing side's DTLS handshake is held inside its connect-context maker
	// (a public SettingEngine hook) until the closers have returned
	handshakeGate := make(chan struct{})
	handshakeEntered := make(chan struct{}, 1)
	var releaseOnce sync.Once
	releaseHandshake := func() { releaseOnce.Do(func() { close(handshakeGate) }) }
	defer releaseHandshake()
	apiA := api
	if c.Stage == 6 {
		apiA = vfPairAPI(func(se *SettingEngine) {
			se.SetDTLSConnectContextMaker(func() (context.Context, func()) {
				select {
				case handshakeEntered <- struct{}{}:
				default:
				}
				<-handshakeGate
				return context.WithTimeout(context.Background(), 10*time.Second)
			})
		}, nil)
	}
	pcA, err := apiA.NewPeerConnection(Configuration{})
	if err != nil {
		v.Skip("NewPeerConnection")
	}
	pcB, err := api.NewPeerConnection(Configuration{})
	if err != nil {
		_ = pcA.Close()
		v.Skip("NewPeerConnection")
	}
	// without a handler pion closes every incoming channel (defaultOnDataChannelHandler)
	remoteDC := make(chan *DataChannel, 4)
	pcB.OnDataChannel(func(d *DataChannel) {
		select {
		case remoteDC <- d:
		default:
		}
	})
	gates := vfGatesInstall([]string{"ops.run"})
	defer gates.Uninstall()
	var emMu sync.Mutex
	var emitted, delivered []PeerConnectionState
	gates.Watch(pcA) // monitor filter
	gates.Monitor("pc.connstate", func(obj any, arg int) {
		if obj == any(pcA) {
			emMu.Lock()
			emitted = append(emitted, PeerConnectionState(arg))
			emMu.Unlock()
		}
	})
	pcA.OnConnectionStateChange(func(s PeerConnectionState) {
		emMu.Lock()
		delivered = append(delivered, s)
		emMu.Unlock()
	})
	bClosed := false
	defer func() {
		gates.OpenAll()
		_ = pcA.Close()
		if !bClosed {
			_ = pcB.Close()
		}
	}()

	if c.HoldOps {
		gates.Watch(pcA.ops)
	}
	var track *TrackLocalStaticSample
	var dc *DataChannel
	var sender *RTPSender
	stopSend := make(chan struct{})
	var sendWG sync.WaitGroup
	if c.Stage >= 1 {
		track, err = NewTrackLocalStaticSample(RTPCodecCapability{MimeType: MimeTypeVP8}, "video", "verif")
		if err != nil {
			v.Skip("NewTrackLocalStaticSample")
		}
		if sender, err = pcA.AddTrack(track); err != nil {
			v.Skip("AddTrack: " + err.Error())
		}
		if dc, err = pcA.CreateDataChannel("c21", nil); err != nil {
			v.Skip("CreateDataChannel: " + err.Error())
		}
	}
	// stage 8: an application callback of pcA is held when the closers start
	cbGate := make(chan struct{})
	cbEntered := make(chan struct{}, 1)
	var cbFirst atomic.Bool
	var cbReleaseOnce sync.Once
	releaseCallback := func() { cbReleaseOnce.Do(func() { close(cbGate) }) }
	defer releaseCallback()
	holdCallback := func() {
		if cbFirst.CompareAndSwap(false, true) {
			cbEntered <- struct{}{}
			<-cbGate
		}
	}
	if c.Stage == 8 {
		switch c.Callback % 2 {
		case 0:
			pcA.OnICECandidate(func(cand *ICECandidate) {
				if cand != nil {
					holdCallback()
				}
			})
		case 1:
			pcA.OnICEConnectionStateChange(func(ICEConnectionState) { holdCallback() })
		}
	}
	localOfferOnly := c.Stage == 2 || (c.Stage == 8 && c.Callback%2 == 0)
	fullSignal := (c.Stage >= 3 && c.Stage != 8) || (c.Stage == 8 && c.Callback%2 == 1)
	if localOfferOnly {
		offer, err := pcA.CreateOffer(nil)
		if err == nil {
			err = pcA.SetLocalDescription(offer)
		}
		if err != nil {
			v.Skip("offer: " + err.Error())
		}
	}
	if fullSignal {
		sig := make(chan error, 1)
		go func() { sig <- vfPairSignal(pcA, pcB, nil) }()
		select {
		case err := <-sig:
			if err != nil {
				v.Skip("signalling: " + err.Error())
			}
		case <-time.After(15 * time.Second):
			if !c.HoldOps {
				v.Skip("signalling did not finish (inconclusive)")
			}
		}
	}
	if c.Stage == 8 {
		select {
		case <-cbEntered:
			v.Label(fmt.Sprintf("callback-held=%d", c.Callback%2))
		case <-time.After(8 * time.Second):
			v.Skip("the application callback was not reached (inconclusive)")
		}
	}
	if c.Stage == 6 {
		select {
		case <-handshakeEntered:
			v.Label("dtls-handshake-parked")
		case <-time.After(10 * time.Second):
			v.Skip("DTLS handshake was not reached (inconclusive)")
		}
	}
	if (c.Stage == 4 || c.Stage == 5 || c.Stage == 7) && !c.HoldOps {
		if !vfPairWait(10*time.Second, func() bool {
			return pcA.ConnectionState() == PeerConnectionStateConnected && dc.ReadyState() == DataChannelStateOpen
		}) {
			v.Skip("pair did not connect (inconclusive)")
		}
	}
	handlerGate := make(chan struct{})
	var handlerOnce sync.Once
	releaseHandler := func() { handlerOnce.Do(func() { close(handlerGate) }) }
	defer releaseHandler()
	if c.Stage == 7 {
		// A's OnMessage handler parks on the first message; a >64 KiB message then waits unread
		entered := make(chan struct{}, 1)
		dc.OnMessage(func(DataChannelMessage) {
			select {
			case entered <- struct{}{}:
			default:
			}
			<-handlerGate
		})
		var rdc *DataChannel
		select {
		case rdc = <-remoteDC:
		case <-time.After(5 * time.Second):
			v.Skip("remote channel not announced (inconclusive)")
		}
		if !vfPairWait(5*time.Second, func() bool { return rdc.ReadyState() == DataChannelStateOpen }) {
			v.Skip("remote channel did not open (inconclusive)")
		}
		_ = rdc.Send([]byte("first"))
		select {
		case <-entered:
		case <-time.After(5 * time.Second):
			v.Skip("message handler was not reached (inconclusive)")
		}
		_ = rdc.Send(make([]byte, 70000))
		time.Sleep(5 * time.Millisecond)
		v.Label("handler-busy-large-message-pending")
	}
	if c.Stage == 5 && !c.HoldOps {
		sendWG.Add(2)
		go func() {
			defer sendWG.Done()
			for i := 0; ; i++ {
				select {
				case <-stopSend:
					return
				default:
				}
				if err := dc.Send([]byte(fmt.Sprintf("msg-%d", i))); err != nil {
					return
				}
				runtime.Gosched()
			}
		}()
		go func() {
			defer sendWG.Done()
			for i := 0; i < 2000; i++ {
				select {
				case <-stopSend:
					return
				default:
				}
				if err := track.WriteSample(media.Sample{Data: []byte{0x10, 0, 0, 1, 2, 3}, Duration: time.Millisecond}); err != nil {
					return
				}
				runtime.Gosched()
			}
		}()
		time.Sleep(2 * time.Millisecond)
	}
	if c.HoldOps && len(gates.Parked()) > 0 {
		v.Label("ops-worker-held")
	}

	// the closers
	actors := vfNewActors()
	start := make(chan struct{})
	anyGraceful := false
	var retMu sync.Mutex
	var earlyReturn []string
	opsQuiet := func() bool {
		if !pcA.ops.IsEmpty() {
			return false
		}
		pcA.ops.mu.Lock()
		defer pcA.ops.mu.Unlock()
		return pcA.ops.busyCh == nil
	}
	var gracefulReturned []string
	for i, cl := range c.Closers {
		i, cl := i, cl
		if cl.Graceful {
			anyGraceful = true
		}
		actors.Go(fmt.Sprintf("closer%d", i), func() {
			if !c.Sequential {
				<-start
			}
			for k := 0; k < cl.Yields; k++ {
				runtime.Gosched()
			}
			if cl.Graceful {
				_ = pcA.GracefulClose()
				retMu.Lock()
				gracefulReturned = append(gracefulReturned, fmt.Sprintf("closer%d", i))
				retMu.Unlock()
				// once GracefulClose returns nothing the connection started may still be running:
				// the operations worker is the part we can identify positively while a peer is alive
				if !opsQuiet() {
					retMu.Lock()
					earlyReturn = append(earlyReturn, fmt.Sprintf("closer%d", i))
					retMu.Unlock()
				}
			} else {
				_ = pcA.Close()
			}
		})
		if c.Sequential {
			vfSettle(gates, actors)
		}
	}
	close(start)
	if c.HoldOps {
		vfSettle(gates, actors)
		if len(gates.Parked()) > 0 {
			v.Label("closers-started-while-worker-held")
		}
		gates.OpenAll()
	}
	if c.Stage == 8 {
		// the held callback runs on a goroutine the connection started: no GracefulClose may return
		// before it does
		vfSettle(gates, actors)
		time.Sleep(30 * time.Millisecond)
		retMu.Lock()
		early := append([]string{}, gracefulReturned...)
		retMu.Unlock()
		if len(early) > 0 {
			v.Violation(fmt.Sprintf("C21/graceful-returned-while-callback-running/cb=%d", c.Callback%2), "GracefulClose (%v) returned while an application callback (%d: 0 OnICECandidate, 1 OnICEConnectionStateChange) invoked by the connection was still running (sequential=%v, closers %+v)", early, c.Callback%2, c.Sequential, c.Closers)
		}
		releaseCallback()
	}
	if c.Stage == 7 {
		// GracefulClose waits for the read loop, which sits in the application's handler: let the
		// closers get going, then let the handler return
		vfSettle(gates, actors)
		time.Sleep(2 * time.Millisecond)
		releaseHandler()
	}
	if c.Stage == 6 {
		// plain Close returns while the handshake is still parked; GracefulClose has to wait for the
		// queued transport start, so the handshake is released once the closers had time to get going
		vfSettle(gates, actors)
		time.Sleep(2 * time.Millisecond)
		releaseHandshake()
	}
	if ok, dump := vfWaitActors(actors, 30*time.Second); !ok {
		v.Violation("C21/close-hangs", "Close/GracefulClose callers did not return within 30s (stage %d, hold_ops=%v): %s", c.Stage, c.HoldOps, dump)
	}
	retMu.Lock()
	er := append([]string{}, earlyReturn...)
	retMu.Unlock()
	if len(er) > 0 {
		v.Violation("C21/graceful-returned-while-ops-running", "GracefulClose (%v) returned while the connection's operations worker was still running or had queued work (stage %d, hold_ops=%v, sequential=%v, closers %+v)", er, c.Stage, c.HoldOps, c.Sequential, c.Closers)
	}
	close(stopSend)
	sendWG.Wait()
	if c.Stage == 6 {
		// the handshake now runs on a closed connection and fails: nothing but closed may be emitted
		releaseHandshake()
		vfPairWait(3*time.Second, func() bool { return pcA.dtlsTransport.State() != DTLSTransportStateConnecting })
		time.Sleep(5 * time.Millisecond)
		if s := pcA.ConnectionState(); s != PeerConnectionStateClosed {
			v.Violation("C21/connection-not-closed", "Close returned during the DTLS handshake; after the handshake ended ConnectionState()=%s", s)
		}
	}

	if len(c.Closers) > 1 {
		v.NonTrivial()
	}
	if anyGraceful && len(c.Closers) > 1 {
		v.Label("mixed-or-multi-graceful")
	}
	v.Label(fmt.Sprintf("stage=%d", c.Stage))

	// final states
	if s := pcA.SignalingState(); s != SignalingStateClosed {
		v.Violation("C21/signaling-not-closed", "after Close SignalingState()=%s", s)
	}
	if s := pcA.ConnectionState(); s != PeerConnectionStateClosed {
		v.Violation("C21/connection-not-closed", "after Close ConnectionState()=%s", s)
	}
	// every negotiation-changing call must fail with InvalidStateError
	isISE := func(err error) bool {
		var ise *rtcerr.InvalidStateError
		return errors.As(err, &ise)
	}
	chk := func(name string, err error) {
		if err == nil {
			v.Violation("C21/api-after-close/"+name, "%s succeeded on a closed PeerConnection", name)
		}
		if !isISE(err) {
			v.Violation("C21/api-after-close/"+name, "%s on a closed PeerConnection returned %T %v, want an InvalidStateError", name, err, err)
		}
	}
	_, err = pcA.CreateOffer(nil)
	chk("CreateOffer", err)
	_, err = pcA.CreateAnswer(nil)
	chk("CreateAnswer", err)
	chk("SetLocalDescription", pcA.SetLocalDescription(SessionDescription{Type: SDPTypeOffer, SDP: "v=0\r\n"}))
	chk("SetRemoteDescription", pcA.SetRemoteDescription(SessionDescription{Type: SDPTypeOffer, SDP: "v=0\r\n"}))
	t2, _ := NewTrackLocalStaticSample(RTPCodecCapability{MimeType: MimeTypeOpus}, "audio", "verif")
	_, err = pcA.AddTrack(t2)
	chk("AddTrack", err)
	if sender != nil {
		chk("RemoveTrack", pcA.RemoveTrack(sender))
	}
	_, err = pcA.AddTransceiverFromKind(RTPCodecTypeVideo)
	chk("AddTransceiverFromKind", err)
	_, err = pcA.AddTransceiverFromTrack(t2)
	chk("AddTransceiverFromTrack", err)
	_, err = pcA.CreateDataChannel("late", nil)
	chk("CreateDataChannel", err)
	chk("SetConfiguration", pcA.SetConfiguration(Configuration{}))
	// closing again is still fine and returns
	again := vfNewActors()
	again.Go("again", func() { _ = pcA.Close(); _ = pcA.GracefulClose() })
	if ok, dump := vfWaitActors(again, 30*time.Second); !ok {
		v.Violation("C21/close-hangs", "a later Close+GracefulClose did not return: %s", dump)
	}

	// the peer goes away gracefully too, then nothing of either connection may be left running
	bDone := vfNewActors()
	bDone.Go("B", func() { _ = pcB.GracefulClose() })
	if ok, dump := vfWaitActors(bDone, 30*time.Second); !ok {
		v.Violation("C21/close-hangs", "GracefulClose of the peer did not return: %s", dump)
	}
	bClosed = true

	// emissions: nothing but closed after closed; deliveries == emissions as multisets
	time.Sleep(time.Millisecond)
	vfPairWait(2*time.Second, func() bool {
		emMu.Lock()
		defer emMu.Unlock()
		return len(delivered) >= len(emitted)
	})
	emMu.Lock()
	em := append([]PeerConnectionState{}, emitted...)
	de := append([]PeerConnectionState{}, delivered...)
	emMu.Unlock()
	seenClosed := false
	for _, s := range em {
		if seenClosed && s != PeerConnectionStateClosed {
			v.Violation("C21/state-after-closed", "connection state emissions %v: %s emitted after closed", em, s)
		}
		if s == PeerConnectionStateClosed {
			seenClosed = true
		}
	}
	if len(em) > 0 {
		if !seenClosed {
			v.Violation("C21/closed-not-emitted", "connection state emissions %v do not end in closed", em)
		}
		se, sd := append([]PeerConnectionState{}, em...), append([]PeerConnectionState{}, de...)
		sort.Slice(se, func(i, j int) bool { return se[i] < se[j] })
		sort.Slice(sd, func(i, j int) bool { return sd[i] < sd[j] })
		if fmt.Sprint(se) != fmt.Sprint(sd) {
			v.Violation("C21/deliveries", "handler deliveries %v differ (as a multiset) from the emitted states %v", de, em)
		}
	} else {
		v.Label("monitor-not-reached")
	}

	// goroutine census (only meaningful when this connection was closed gracefully)
	if anyGraceful {
		var left map[string]string
		ok := vfPairWait(2*time.Second, func() bool {
			left = vfC21PionGoroutines()
			for id := range before {
				delete(left, id)
			}
			return len(left) == 0
		})
		if !ok {
			var stacks []string
			for _, s := range left {
				if len(s) > 1200 {
					s = s[:1200]
				}
				stacks = append(stacks, s)
			}
			sort.Strings(stacks)
			if len(stacks) > 6 {
				stacks = stacks[:6]
			}
			v.Violation("C21/goroutine-leak", "%d goroutines with pion frames still running 2s after GracefulClose returned on both peers (stage %d):\n%s", len(left), c.Stage, strings.Join(stacks, "\n\n"))
		}
		v.Label("census-done")
	}
}

func TestVerif_C21(t *testing.T) {
	vfProperty(t, "C21", vfOpts{
		Rule: "1-4 concurrent Close/GracefulClose callers (with drawn Gosched delays) at setup stage 0..8 (fresh, media added, local offer set, answer applied, connected, data flowing, own DTLS handshake parked in the connect-context maker, OnMessage handler busy with a >64 KiB message waiting unread, an OnICECandidate / OnICEConnectionStateChange callback of the connection still running), optionally with the operations worker held at a yield point; then every negotiation-changing API; non-trivial = at least two concurrent closers",
		Assumptions: []string{"goroutine census: goroutines with a github.com/pion frame that did not exist before the case and are not harness goroutines, polled for 2s after both peers' GracefulClose returned",
			"handler delivery order is not asserted (one goroutine per event); emission order comes from the pc.connstate monitor",
			"a pair that cannot reach the requested stage within its watchdog is discarded as inconclusive"},
	}, func(v *vfT) vfC21Case {
		c := vfC21Case{Stage: rapid.IntRange(0, 8).Draw(v.R, "stage")}
		if c.Stage == 8 {
			c.Callback = rapid.IntRange(0, 1).Draw(v.R, "callback")
		}
		c.HoldOps = c.Stage >= 1 && c.Stage <= 3 && rapid.Bool().Draw(v.R, "hold")
		c.Sequential = rapid.Bool().Draw(v.R, "sequential")
		n := rapid.IntRange(1, 4).Draw(v.R, "closers")
		for i := 0; i < n; i++ {
			c.Closers = append(c.Closers, vfC21Closer{Graceful: rapid.Bool().Draw(v.R, "graceful"), Yields: rapid.SampledFrom([]int{0, 0, 1, 3, 10, 50}).Draw(v.R, "yields")})
		}
		return c
	}, vfC21Run)
}
