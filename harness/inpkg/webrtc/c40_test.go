package webrtc

// C40 — concurrent use of PeerConnection is race-free and deadlock-free.
//
// Built with -race.  A case is a randomized concurrent program: one goroutine performs 1-3
// serialized offer/answer rounds with a peer while 2-8 workers run drawn sequences of public
// API calls on the same PeerConnection, and finally one of them closes it.  Oracle: the race
// detector stays silent (GORACE=halt_on_error=1 kills the process on the first report; the
// driver turns the report into the finding and takes the in-flight case as replay) and every
// call returns (watchdog + dump of blocked pion frames).

import (
	"encoding/json"
	"fmt"
	"os"
	"path/filepath"
	"regexp"
	"runtime"
	"sort"
	"strings"
	"sync"
	"sync/atomic"
	"testing"
	"time"

	"github.com/pion/webrtc/v4/pkg/media"
	"pgregory.net/rapid"
)

type vfC40Op struct {
	Kind   int `json:"k"`
	Arg    int `json:"a"`
	Yields int `json:"y"`
}

type vfC40Case struct {
	Rounds     int         `json:"rounds"`
	Workers    [][]vfC40Op `json:"workers"`
	CloseBy    int         `json:"close_by"` // worker index that closes pcA at the end of its list (-1: harness closes after all)
	Graceful   bool        `json:"graceful"`
	GoMaxProcs int         `json:"gomaxprocs"`
	PreMedia   int         `json:"pre_media"` // tracks added before the first round
	// Starts[w] is the moment worker w begins: 0 at once, 1 when pcA first has a local offer,
	// 2 when the first exchange reached stable (senders bound, transports still connecting),
	// 3 when the connection is up.  Missing entries mean 0.
	Starts []int `json:"starts,omitempty"`
	// Writers: one continuously writing goroutine per entry (value picks the track), from the moment
	// WriterStart (same scale as Starts) until every worker has finished.
	Writers     []int `json:"writers,omitempty"`
	WriterStart int   `json:"writer_start,omitempty"`
	// Loopers: one goroutine per entry that repeats the op kind given by the value (getters, GetStats,
	// collection getters, ...) with a running argument, from WriterStart until every worker has finished.
	Loopers []int `json:"loopers,omitempty"`
}

const vfC40Kinds = 18

type vfC40State struct {
	mu      sync.Mutex
	senders []*RTPSender
	tracks  []*TrackLocalStaticSample
	dcs     []*DataChannel
}

func (s *vfC40State) addTrack(tr *TrackLocalStaticSample, snd *RTPSender) {
	s.mu.Lock()
	s.tracks = append(s.tracks, tr)
	if snd != nil {
		s.senders = append(s.senders, snd)
	}
	s.mu.Unlock()
}

func (s *vfC40State) pickSender(i int) *RTPSender {
	s.mu.Lock()
	defer s.mu.Unlock()
	if len(s.senders) == 0 {
		return nil
	}
	return s.senders[i%len(s.senders)]
}

func (s *vfC40State) pickTrack(i int) *TrackLocalStaticSample {
	s.mu.Lock()
	defer s.mu.Unlock()
	if len(s.tracks) == 0 {
		return nil
	}
	return s.tracks[i%len(s.tracks)]
}

func (s *vfC40State) pickDC(i int) *DataChannel {
	s.mu.Lock()
	defer s.mu.Unlock()
	if len(s.dcs) == 0 {
		return nil
	}
	return s.dcs[i%len(s.dcs)]
}

func vfC40Do(pc *PeerConnection, st *vfC40State, op vfC40Op, tag string) {
	for i := 0; i < op.Yields; i++ {
		runtime.Gosched()
	}
	mimes := []string{MimeTypeVP8, MimeTypeOpus, MimeTypeH264}
	switch op.Kind % vfC40Kinds {
	case 0:
		tr, err := NewTrackLocalStaticSample(RTPCodecCapability{MimeType: mimes[op.Arg%len(mimes)]}, "t"+tag, "s")
		if err == nil {
			if snd, err := pc.AddTrack(tr); err == nil {
				st.addTrack(tr, snd)
			}
		}
	case 1:
		if snd := st.pickSender(op.Arg); snd != nil {
			_ = pc.RemoveTrack(snd)
		}
	case 2:
		kind := RTPCodecTypeVideo
		if op.Arg%2 == 1 {
			kind = RTPCodecTypeAudio
		}
		dirs := []RTPTransceiverDirection{RTPTransceiverDirectionSendrecv, RTPTransceiverDirectionRecvonly, RTPTransceiverDirectionSendonly}
		_, _ = pc.AddTransceiverFromKind(kind, RTPTransceiverInit{Direction: dirs[(op.Arg/2)%len(dirs)]})
	case 3:
		tr, err := NewTrackLocalStaticSample(RTPCodecCapability{MimeType: mimes[op.Arg%len(mimes)]}, "x"+tag, "s")
		if err == nil {
			if t, err := pc.AddTransceiverFromTrack(tr); err == nil {
				st.addTrack(tr, t.Sender())
			}
		}
	case 4:
		if dc, err := pc.CreateDataChannel("dc"+tag, nil); err == nil {
			dc.OnOpen(func() {})
			dc.OnMessage(func(DataChannelMessage) {})
			st.mu.Lock()
			st.dcs = append(st.dcs, dc)
			st.mu.Unlock()
		}
	case 5:
		for _, t := range pc.GetTransceivers() {
			_ = t.Mid()
			_ = t.Direction()
			_ = t.Kind()
			if s := t.Sender(); s != nil {
				_ = s.Track()
			}
			if r := t.Receiver(); r != nil {
				_ = r.Track()
			}
		}
	case 6:
		for _, s := range pc.GetSenders() {
			_ = s.GetParameters()
			_ = s.Transport()
		}
		for _, r := range pc.GetReceivers() {
			_ = r.GetParameters()
			_ = r.Tracks()
		}
	case 7:
		_ = pc.SignalingState()
		_ = pc.ConnectionState()
		_ = pc.ICEConnectionState()
		_ = pc.ICEGatheringState()
		_ = pc.LocalDescription()
		_ = pc.RemoteDescription()
		_ = pc.CurrentLocalDescription()
		_ = pc.PendingLocalDescription()
		_ = pc.CurrentRemoteDescription()
		_ = pc.PendingRemoteDescription()
		_ = pc.CanTrickleICECandidates()
	case 8:
		_ = pc.GetStats()
	case 9:
		if tr := st.pickTrack(op.Arg); tr != nil {
			_ = tr.WriteSample(media.Sample{Data: []byte{0x10, 1, 2, 3, 4, 5, 6, 7}, Duration: 20 * time.Millisecond})
		}
	case 10:
		if dc := st.pickDC(op.Arg); dc != nil {
			_ = dc.ReadyState()
			_ = dc.Label()
			_ = dc.ID()
			_ = dc.BufferedAmount()
			_ = dc.Send([]byte("hello"))
		}
	case 11:
		s := pc.SCTP()
		_ = s.State()
		_ = s.Transport()
		_ = s.GetCapabilities()
	case 12:
		if snd := st.pickSender(op.Arg); snd != nil {
			if tr := st.pickTrack(op.Arg + 1); tr != nil {
				_ = snd.ReplaceTrack(tr)
			}
		}
	case 14:
		// a burst of writes: before SRTP is ready every write goes through the sender's
		// write-stream future again
		if tr := st.pickTrack(op.Arg); tr != nil {
			for i := 0; i < 20+20*op.Arg; i++ {
				_ = tr.WriteSample(media.Sample{Data: []byte{0x10, 1, 2, 3, 4, 5, 6, 7}, Duration: 20 * time.Millisecond})
				if i%4 == 3 {
					runtime.Gosched()
				}
			}
		}
	case 15:
		if snd := st.pickSender(op.Arg); snd != nil {
			_ = snd.Stop()
		}
	case 16:
		if trs := pc.GetTransceivers(); len(trs) > 0 {
			_ = trs[op.Arg%len(trs)].Stop()
		}
	case 17:
		if snd := st.pickSender(op.Arg); snd != nil {
			_ = snd.GetParameters()
			_ = snd.Track()
			_ = snd.Transport()
			_ = snd.ReplaceTrack(nil)
		}
	case 13:
		_ = pc.GetConfiguration()
		if dc := st.pickDC(op.Arg); dc != nil && op.Arg%3 == 0 {
			_ = dc.Close()
		}
	}
}

func vfC40Run(v *vfT, c vfC40Case) {
	if out := os.Getenv("VERIF_OUT"); out != "" {
		sh := os.Getenv("VERIF_SHARD")
		if sh == "" {
			sh = "0"
		}
		rec := vfFindingRec{Property: "C40", Class: "C40/inflight", Message: "case in flight when the process ended", Case: v.caseJSON, Check: v.col.check}
		b, _ := json.Marshal(rec)
		_ = os.WriteFile(filepath.Join(out, "inflight-"+sh+".json"), b, 0o644)
	}
	if c.GoMaxProcs > 0 {
		defer runtime.GOMAXPROCS(runtime.GOMAXPROCS(c.GoMaxProcs))
	}
	api := vfPairAPI(nil, nil)
	pcA, err := api.NewPeerConnection(Configuration{})
	if err != nil {
		v.Skip("NewPeerConnection")
	}
	pcB, err := api.NewPeerConnection(Configuration{})
	if err != nil {
		_ = pcA.Close()
		v.Skip("NewPeerConnection")
	}
	pcB.OnDataChannel(func(d *DataChannel) { d.OnMessage(func(DataChannelMessage) {}) })
	pcB.OnTrack(func(*TrackRemote, *RTPReceiver) {})
	pcA.OnNegotiationNeeded(func() {})
	phase := [4]chan struct{}{make(chan struct{}), make(chan struct{}), make(chan struct{}), make(chan struct{})}
	var phaseOnce [4]sync.Once
	reach := func(p int) {
		for i := 0; i <= p; i++ {
			i := i
			phaseOnce[i].Do(func() { close(phase[i]) })
		}
	}
	reach(0)
	var sawOffer atomic.Bool
	pcA.OnConnectionStateChange(func(cs PeerConnectionState) {
		if cs == PeerConnectionStateConnected || cs == PeerConnectionStateClosed || cs == PeerConnectionStateFailed {
			reach(3)
		}
	})
	pcA.OnSignalingStateChange(func(ss SignalingState) {
		switch {
		case ss == SignalingStateHaveLocalOffer:
			sawOffer.Store(true)
			reach(1)
		case ss == SignalingStateStable && sawOffer.Load():
			reach(2)
		}
	})
	pcA.OnICECandidate(func(*ICECandidate) {})
	st := &vfC40State{}
	for i := 0; i < c.PreMedia; i++ {
		vfC40Do(pcA, st, vfC40Op{Kind: 0, Arg: i}, fmt.Sprintf("pre%d", i))
	}
	_, _ = pcA.CreateDataChannel("boot", nil)

	actors := vfNewActors()
	actors.Go("negotiator", func() {
		for r := 0; r < c.Rounds; r++ {
			if err := vfPairSignal(pcA, pcB, nil); err != nil {
				return // a concurrent mutation or the close made this round fail: fine
			}
			vfPairWait(300*time.Millisecond, func() bool { return pcA.ConnectionState() == PeerConnectionStateConnected })
		}
	})
	for w, ops := range c.Workers {
		w, ops := w, ops
		start := 0
		if w < len(c.Starts) {
			start = c.Starts[w] & 3
		}
		actors.Go(fmt.Sprintf("worker%d", w), func() {
			select {
			case <-phase[start]:
			case <-time.After(1500 * time.Millisecond): // the exchange failed or never connected: run anyway
			}
			for i, op := range ops {
				vfC40Do(pcA, st, op, fmt.Sprintf("%d.%d", w, i))
			}
			if c.CloseBy == w {
				if c.Graceful {
					_ = pcA.GracefulClose()
				} else {
					_ = pcA.Close()
				}
			}
		})
	}
	var stopWriters atomic.Bool
	writers := vfNewActors()
	for i, pick := range c.Writers {
		i, pick := i, pick
		writers.Go(fmt.Sprintf("writer%d", i), func() {
			select {
			case <-phase[c.WriterStart&3]:
			case <-time.After(1500 * time.Millisecond):
			}
			for n := 0; !stopWriters.Load(); n++ {
				if tr := st.pickTrack(pick); tr != nil {
					_ = tr.WriteSample(media.Sample{Data: []byte{0x10, 1, 2, 3, 4, 5, 6, 7}, Duration: 20 * time.Millisecond})
				}
				if n%8 == 7 {
					time.Sleep(20 * time.Microsecond)
				}
			}
		})
	}
	for i, kind := range c.Loopers {
		i, kind := i, kind
		writers.Go(fmt.Sprintf("looper%d(kind %d)", i, kind), func() {
			select {
			case <-phase[c.WriterStart&3]:
			case <-time.After(1500 * time.Millisecond):
			}
			for n := 0; !stopWriters.Load(); n++ {
				vfC40Do(pcA, st, vfC40Op{Kind: kind, Arg: n}, fmt.Sprintf("L%d.%d", i, n))
				if n%8 == 7 {
					time.Sleep(20 * time.Microsecond)
				}
			}
		})
	}
	ok, dump := vfWaitActors(actors, 90*time.Second)
	stopWriters.Store(true)
	if okw, dumpw := vfWaitActors(writers, 30*time.Second); !okw {
		v.Violation("C40/deadlock"+vfC40BlockedKey(dumpw+"\n\n"+dump), "a repeated call (local-track write or getter loop) did not return within 30s after every other call had returned (or hung with them): %s; other actors: %s", dumpw, dump)
	}
	closed := vfNewActors()
	closed.Go("closeA", func() { _ = pcA.Close() })
	closed.Go("closeB", func() { _ = pcB.Close() })
	ok2, dump2 := vfWaitActors(closed, 60*time.Second)
	if !ok {
		v.Violation("C40/deadlock"+vfC40BlockedKey(dump), "concurrent API calls did not return within 90s: %s", dump)
	}
	if !ok2 {
		v.Violation("C40/deadlock"+vfC40BlockedKey(dump2), "Close did not return within 60s after the concurrent phase: %s", dump2)
	}
	if len(c.Loopers) > 0 {
		v.Label("getter-loops")
	}
	if len(c.Workers)+len(c.Writers)+len(c.Loopers) >= 2 {
		v.NonTrivial()
	}
	if c.CloseBy >= 0 && c.CloseBy < len(c.Workers) {
		v.Label("closed-by-worker")
	}
	v.Label(fmt.Sprintf("rounds=%d", c.Rounds))
	if len(c.Writers) > 0 {
		v.Label(fmt.Sprintf("continuous-writers-from-phase-%d", c.WriterStart&3))
	}
	for w := range c.Workers {
		if w < len(c.Starts) && c.Starts[w]&3 != 0 {
			v.Label(fmt.Sprintf("worker-starts-at-phase-%d", c.Starts[w]&3))
		}
	}
}

var vfC40Opts = vfOpts{
	Rule: "randomized concurrent programs under the race detector: one negotiator goroutine (1-3 offer/answer rounds with a live peer) plus 2-8 workers running drawn sequences of 18 kinds of public API calls (AddTrack, RemoveTrack, AddTransceiver*, CreateDataChannel, getters, GetStats, WriteSample singly and in bursts, Send, ReplaceTrack, sender/transceiver Stop, ...), each worker starting at a drawn moment of the first exchange (at once / local offer set / exchange complete but transports connecting / connected), a drawn worker closing the connection; a third family adds 2-4 goroutines repeating the read-side calls continuously; a second family adds 1-4 goroutines writing continuously on the local tracks against workers dominated by RemoveTrack / ReplaceTrack / Stop / Close; GOMAXPROCS in {2,4,16}; non-trivial = at least two concurrent goroutines besides the negotiator",
	Assumptions: []string{"schedules are sampled (Gosched perturbation, GOMAXPROCS), not enumerated: a race that needs a specific pre-emption is found only if the detector observes both accesses unsynchronised in some run",
		"a data race report ends the process (GORACE=halt_on_error=1); the case in flight is the replay together with the report"},
}

func TestVerif_C40(t *testing.T) {
	vfProperty(t, "C40", vfC40Opts, func(v *vfT) vfC40Case {
		c := vfC40Case{
			Rounds:     rapid.IntRange(1, 3).Draw(v.R, "rounds"),
			GoMaxProcs: rapid.SampledFrom([]int{2, 4, 16}).Draw(v.R, "gomaxprocs"),
			PreMedia:   rapid.IntRange(0, 2).Draw(v.R, "premedia"),
			Graceful:   rapid.Bool().Draw(v.R, "graceful"),
		}
		nw := rapid.IntRange(2, 8).Draw(v.R, "workers")
		for w := 0; w < nw; w++ {
			n := rapid.IntRange(1, 12).Draw(v.R, "nops")
			var ops []vfC40Op
			for i := 0; i < n; i++ {
				ops = append(ops, vfC40Op{Kind: rapid.IntRange(0, vfC40Kinds-1).Draw(v.R, "kind"), Arg: rapid.IntRange(0, 7).Draw(v.R, "arg"), Yields: rapid.SampledFrom([]int{0, 0, 1, 5, 30}).Draw(v.R, "yields")})
			}
			c.Workers = append(c.Workers, ops)
			c.Starts = append(c.Starts, rapid.SampledFrom([]int{0, 0, 1, 2, 2, 3}).Draw(v.R, "start"))
		}
		c.CloseBy = rapid.IntRange(-1, nw-1).Draw(v.R, "closeby")
		return c
	}, vfC40Run)
}

// TestVerif_C40_Writers: the same programs focused on media writes against sender teardown:
// 1-4 goroutines write continuously on the local tracks from a drawn moment of the first
// exchange while 1-3 workers run short drawn sequences dominated by RemoveTrack, ReplaceTrack,
// sender / transceiver Stop, AddTrack and Close.
func TestVerif_C40_Writers(t *testing.T) {
	vfProperty(t, "C40", vfC40Opts, func(v *vfT) vfC40Case {
		c := vfC40Case{
			Rounds:      rapid.IntRange(1, 2).Draw(v.R, "rounds"),
			GoMaxProcs:  rapid.SampledFrom([]int{2, 4, 16}).Draw(v.R, "gomaxprocs"),
			PreMedia:    rapid.IntRange(1, 2).Draw(v.R, "premedia"),
			Graceful:    rapid.Bool().Draw(v.R, "graceful"),
			WriterStart: rapid.SampledFrom([]int{0, 1, 2, 2, 3}).Draw(v.R, "writerstart"),
		}
		c.Writers = rapid.SliceOfN(rapid.IntRange(0, 3), 1, 4).Draw(v.R, "writers")
		nw := rapid.IntRange(1, 3).Draw(v.R, "workers")
		for w := 0; w < nw; w++ {
			n := rapid.IntRange(1, 4).Draw(v.R, "nops")
			var ops []vfC40Op
			for i := 0; i < n; i++ {
				ops = append(ops, vfC40Op{Kind: rapid.SampledFrom([]int{1, 1, 12, 12, 15, 16, 17, 17, 0, 3, 6, 8}).Draw(v.R, "kind"), Arg: rapid.IntRange(0, 7).Draw(v.R, "arg"), Yields: rapid.SampledFrom([]int{0, 1, 30, 300}).Draw(v.R, "yields")})
			}
			c.Workers = append(c.Workers, ops)
			c.Starts = append(c.Starts, rapid.SampledFrom([]int{1, 2, 2, 2, 3}).Draw(v.R, "start"))
		}
		c.CloseBy = rapid.IntRange(-1, nw-1).Draw(v.R, "closeby")
		return c
	}, vfC40Run)
}

// TestVerif_C40_Storm: 2-4 goroutines repeat the read-side calls (state getters, collection
// getters, sender/receiver getters, GetStats, SCTP getters, GetConfiguration) continuously while
// 1-3 workers run drawn mutating sequences and the negotiator performs its exchange: lock
// re-entrancy and lock-order problems between readers and writers need many overlaps to show.
func TestVerif_C40_Storm(t *testing.T) {
	vfProperty(t, "C40", vfC40Opts, func(v *vfT) vfC40Case {
		c := vfC40Case{
			Rounds:      rapid.IntRange(1, 2).Draw(v.R, "rounds"),
			GoMaxProcs:  rapid.SampledFrom([]int{2, 4, 16}).Draw(v.R, "gomaxprocs"),
			PreMedia:    rapid.IntRange(0, 2).Draw(v.R, "premedia"),
			Graceful:    rapid.Bool().Draw(v.R, "graceful"),
			WriterStart: rapid.SampledFrom([]int{0, 0, 1, 2, 3}).Draw(v.R, "loopstart"),
		}
		c.Loopers = rapid.SliceOfN(rapid.SampledFrom([]int{5, 6, 7, 7, 7, 8, 11, 13}), 2, 4).Draw(v.R, "loopers")
		nw := rapid.IntRange(1, 3).Draw(v.R, "workers")
		for w := 0; w < nw; w++ {
			n := rapid.IntRange(2, 8).Draw(v.R, "nops")
			var ops []vfC40Op
			for i := 0; i < n; i++ {
				ops = append(ops, vfC40Op{Kind: rapid.SampledFrom([]int{0, 1, 2, 3, 4, 5, 6, 8, 12, 15, 16}).Draw(v.R, "kind"), Arg: rapid.IntRange(0, 7).Draw(v.R, "arg"), Yields: rapid.SampledFrom([]int{0, 1, 30, 300}).Draw(v.R, "yields")})
			}
			c.Workers = append(c.Workers, ops)
			c.Starts = append(c.Starts, rapid.SampledFrom([]int{0, 1, 2, 3}).Draw(v.R, "start"))
		}
		c.CloseBy = rapid.IntRange(-1, nw-1).Draw(v.R, "closeby")
		return c
	}, vfC40Run)
}

var vfC40FrameRe = regexp.MustCompile(`^github\.com/pion/webrtc/v4\.((?:\(\*?\w+\)\.)?\w+)`)

// vfC40BlockedKey names where the harness's own (caller) goroutines are stuck: for every goroutine of
// the dump that is one of the harness's actors, the innermost pion/webrtc function it is in.  The
// key makes a deadlock's class specific to the call that hangs ("/(*DTLSTransport).Stop").
func vfC40BlockedKey(dump string) string {
	set := map[string]bool{}
	for _, g := range strings.Split(dump, "\n\n") {
		if !strings.Contains(g, "(*vfActors).Go.func1") {
			continue
		}
		for _, l := range strings.Split(g, "\n") {
			m := vfC40FrameRe.FindStringSubmatch(l)
			if m == nil || strings.HasPrefix(m[1], "vf") || strings.HasPrefix(m[1], "(*vf") || strings.HasPrefix(m[1], "(vf") {
				continue
			}
			set[m[1]] = true
			break
		}
	}
	if len(set) == 0 {
		return ""
	}
	var ks []string
	for k := range set {
		ks = append(ks, k)
	}
	sort.Strings(ks)
	return "/" + strings.Join(ks, "|")
}
