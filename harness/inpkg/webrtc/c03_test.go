package webrtc

// C03 — a rejected SetLocalDescription / SetRemoteDescription leaves negotiation state unchanged.
//
// Domain: the family's histories over a pair of PeerConnections in which a set-call may carry
// an invalid description: wrong type for the state, a text that is not the last created
// offer/answer, a Type value outside the enum, or a valid (pion-created or foreign) text
// munged into one of the classes the property lists (a=mid removed, ICE ufrag / pwd removed,
// fingerprint removed or value-less, unparsable candidate, RTX apt that is not a number,
// truncated text, broken o= line, all media sections removed).
//
// Oracle (no model needed): snapshot = (SignalingState, the four pending/current descriptions,
// number of OnSignalingStateChange deliveries) taken just before the call; if the call returns
// an error, the snapshot taken after it (plus a short settle for the asynchronous event) is
// identical.  Calls that succeed are not judged here.

import (
	"fmt"
	"testing"
	"time"

	"pgregory.net/rapid"
)

func vfC03Reason(call *vfFamACall) string {
	switch {
	case call.Bad != "":
		return call.Bad
	case call.Typ != SDPTypeOffer && call.Typ != SDPTypePranswer && call.Typ != SDPTypeAnswer && call.Typ != SDPTypeRollback:
		return "invalid-type-value"
	default:
		return "unmunged/" + call.Typ.String()
	}
}

func vfC03Run(v *vfT, c vfFamACase) {
	w := vfFamANewWorld(v, c)
	defer w.Close()

	var accepted [2]int64
	rejectedAtEdge := 0
	for i, op := range c.Ops {
		if op.K != vfFamAKSetLocal && op.K != vfFamAKSetRemote {
			w.DoAux(op)
			continue
		}
		call, ok := w.Resolve(op)
		if !ok {
			continue
		}
		x := op.X & 1
		p := w.p[x]
		// let the deliveries of earlier accepted calls arrive, so they are not attributed to this call
		vfFamASettle(p, accepted[x], 100*time.Microsecond)
		evBefore := p.events.Load()
		before := vfFamAObserve(p.pc)
		renegAnswer := call.Bad != "" && !call.Local && call.Typ == SDPTypeAnswer && before.CR != nil
		err := call.Invoke()
		after := vfFamAObserve(p.pc)
		if renegAnswer {
			if err == nil {
				v.Label("renegotiation-answer-munged:accepted:" + call.Bad)
			} else {
				v.Label("renegotiation-answer-munged:rejected:" + call.Bad)
			}
		}
		reason := vfC03Reason(call)
		if err == nil {
			accepted[x]++
			if call.Bad != "" {
				v.Label("accepted-although-munged:" + call.Bad)
			}
			continue
		}
		// "legal edge" = one pion takes when the description is valid (the eight offer/pranswer/answer
		// edges; the W3C self-loops and rollback, which pion refuses anyway, do not count)
		target, atEdge := vfFamAEdge(before.State, call.Local, call.Typ)
		atEdge = atEdge && target != before.State && call.Typ != SDPTypeRollback
		if atEdge {
			rejectedAtEdge++
			v.Label(fmt.Sprintf("rejected-at-legal-edge:%s/%s", call.Side(), reason))
		} else if reason == "invalid-type-value" {
			v.Label("rejected:invalid-type-value:" + call.Side())
		} else {
			v.Label("rejected-at-illegal-triple:" + call.Side())
		}
		where := fmt.Sprintf("op %d: %s.%s(%s, text=%s, invalid=%q) from %s returned %q", i, p.name, call.Side(), call.Typ, call.Source, call.Bad, before.State, err.Error())
		if atEdge && call.Bad == "" {
			v.Logf("C03 unmunged rejection at a legal edge: %s", where)
		}
		class := fmt.Sprintf("C03/%s/%s", call.Side(), reason)
		if !vfFamAViewEq(before, after) {
			v.Violation(class, "%s, but the negotiation state changed:\n  before: %s\n  after:  %s", where, before, after)
		}
		if got := vfFamASettle(p, 0, time.Millisecond); got != evBefore {
			v.Violation(class, "%s; state and descriptions are unchanged but %d signaling-state-change event(s) were delivered after the rejected call", where, got-evBefore)
		}
	}
	if rejectedAtEdge > 0 {
		v.NonTrivial()
	}
}

func TestVerif_C03_Histories(t *testing.T) {
	maxLen := 16
	if vfTier() == "thorough" {
		maxLen = 24
	}
	vfProperty(t, "C03", vfOpts{
		Rule: "family history (1..16 ops quick, ..24 thorough) in which ~35% of the set-calls carry an invalid class; non-trivial = at least one call was rejected from a state where (state, side, type) is an edge of the signaling machine, i.e. the rejection is about the description, not the transition",
		Assumptions: []string{
			"invalid descriptions are text edits of descriptions pion created (or of a rendered foreign offer), plus wrong type for the state, stale / peer's text for SetLocalDescription and a Type value outside the enum",
			"snapshot = SignalingState + Pending/Current Local/Remote descriptions compared as (type, SDP without a=candidate / a=end-of-candidates lines) + count of OnSignalingStateChange deliveries",
			"a spurious event must be delivered within 1 ms of the rejected call returning to be seen (deliveries run on their own goroutines); deliveries of earlier accepted calls are awaited before the snapshot",
			"invalid classes listed as known findings are not generated for SetRemoteDescription, so the search continues behind them",
		},
	}, func(v *vfT) vfFamACase {
		o := vfFamAGenOpts{MaxLen: maxLen, BadProb: 35, Invalid: true}
		for bi := 1; bi < len(vfFamABadNames); bi++ {
			o.BadAllow = append(o.BadAllow, bi)
			if !v.col.known["C03/setRemote/"+vfFamABadNames[bi]] {
				o.BadAllowRemote = append(o.BadAllowRemote, bi)
			}
		}
		c := vfFamAGen(v.R, o)
		if rapid.IntRange(0, 2).Draw(v.R, "renegTemplate") == 0 {
			// established session, second round, offerer side: the ANSWER of the renegotiation is
			// munged per section (mid removed / duplicated / unknown / swapped); a first-round answer
			// with the same edit is accepted by pion, a second-round one may be refused late
			var allow []int
			for bi, name := range vfFamABadNames {
				switch name {
				case "no-mid-last-section", "no-mid-application-section", "no-mid-first-section", "dup-mid-last-section", "unknown-mid-last-section", "swap-mids", "no-mid":
					if !v.col.known["C03/setRemote/"+name] {
						allow = append(allow, bi)
					}
				}
			}
			if len(allow) > 0 {
				x := rapid.IntRange(0, 1).Draw(v.R, "renegInitiator")
				y := 1 - x
				round := func(bad int) []vfFamAOp {
					return []vfFamAOp{{K: vfFamAKOffer, X: x}, {K: vfFamAKSetLocal, X: x, T: vfFamATOffer}, {K: vfFamAKSetRemote, X: y, T: vfFamATOffer},
						{K: vfFamAKAnswer, X: y}, {K: vfFamAKSetLocal, X: y, T: vfFamATAnswer}, {K: vfFamAKSetRemote, X: x, T: vfFamATAnswer, Bad: bad}}
				}
				if x == 0 {
					c.InitA = 3 // audio + data channel: at least two m-sections
				} else {
					c.InitB = 3
				}
				pre := round(0)
				if rapid.Bool().Draw(v.R, "renegAdd") {
					pre = append(pre, vfFamAOp{K: vfFamAKAddTr, X: x, T: rapid.IntRange(0, 1).Draw(v.R, "dir"), Src: rapid.IntRange(0, 1).Draw(v.R, "kind")})
				}
				pre = append(pre, round(rapid.SampledFrom(allow).Draw(v.R, "renegBad"))...)
				c.Ops = append(pre, c.Ops...)
			}
		}
		return c
	}, vfC03Run)
}
