package webrtc

// C16 — Answer codecs are a subset of the offered codecs, with the offered payload types.
//
// Case = local MediaEngine configuration + optional pre-existing local transceivers (with or
// without SetCodecPreferences) + one or two sound foreign offers (harness text writer; the
// second is a re-offer applied after the answer to the first one was set). Offers may carry
// several sections of one kind that list different codec subsets or the same codec under
// different payload types (allowed by RFC 8843: a number denotes one codec everywhere).
//
// Oracle (validity predicate over the answer text, parsed with pion/sdp, the trusted
// dependency, and walked by the harness): for every non-rejected answer section i, each
// payload type on its m= line is listed in offer section i, and its rtpmap names the same
// codec there (encoding name modulo case, clock rate, channels with omitted == 1).

import (
	"fmt"
	"strconv"
	"strings"
	"testing"

	"pgregory.net/rapid"
)

type vfC16Pre struct {
	Kind  string `json:"kind"`
	Dir   string `json:"dir"`             // sendrecv | sendonly | recvonly
	Prefs []int  `json:"prefs,omitempty"` // indices into the local codecs of the kind; empty = no SetCodecPreferences
	// NoPT: the preferences are passed without a payload type (PayloadType 0, full-form
	// capability), the documented way to say "this codec, whatever number gets negotiated";
	// they are set BEFORE the remote offer is applied.
	NoPT bool `json:"no_pt,omitempty"`
}

type vfC16Case struct {
	Local  vfFamCLocal   `json:"local"`
	Pre    []vfC16Pre    `json:"pre"`
	Offers []vfFamCOffer `json:"offers"`
}

type vfC16Map struct {
	name  string
	clock uint32
	ch    uint16
}

func vfC16ParseRtpmap(val string) (uint8, vfC16Map, bool) {
	// "<pt> <name>/<clock>[/<channels>]"
	sp := strings.SplitN(strings.TrimSpace(val), " ", 2)
	if len(sp) != 2 {
		return 0, vfC16Map{}, false
	}
	pt, err := strconv.Atoi(sp[0])
	if err != nil || pt < 0 || pt > 255 {
		return 0, vfC16Map{}, false
	}
	parts := strings.Split(strings.TrimSpace(sp[1]), "/")
	if len(parts) < 2 {
		return 0, vfC16Map{}, false
	}
	clock, err := strconv.ParseUint(parts[1], 10, 32)
	if err != nil {
		return 0, vfC16Map{}, false
	}
	m := vfC16Map{name: parts[0], clock: uint32(clock)}
	if len(parts) > 2 {
		ch, err := strconv.ParseUint(parts[2], 10, 16)
		if err != nil {
			return 0, vfC16Map{}, false
		}
		m.ch = uint16(ch)
	}
	return uint8(pt), m, true
}

func vfC16Ch(c uint16) uint16 {
	if c == 0 {
		return 1
	}
	return c
}

func vfC16Check(v *vfT, round int, offer vfFamCOffer, earlier []vfFamCOffer, prefKinds map[string]string, answer SessionDescription) {
	parsed, err := answer.Unmarshal()
	if err != nil {
		v.Label("answer-unparsable")
		return
	}
	nOffer := len(offer.Sections)
	if offer.Data {
		nOffer++
	}
	if len(parsed.MediaDescriptions) != nOffer {
		v.Label("answer-section-count-differs(C07)")
	}
	where := fmt.Sprintf("offer %d", round+1)
	for i, m := range parsed.MediaDescriptions {
		if i >= len(offer.Sections) {
			break
		}
		sec := offer.Sections[i]
		// suffix: a local transceiver of this kind had SetCodecPreferences applied. own: the
		// classes whose recorded root cause is "a preference's own explicit payload type is kept";
		// when every preference of the kind was payload-type-less that cause is absent, so such a
		// violation gets its own key.
		suffix, own := "", ""
		switch prefKinds[sec.Kind] {
		case "explicit", "mixed":
			suffix, own = "/with-codec-preferences", "/with-codec-preferences"
		case "pt-less":
			suffix, own = "/with-codec-preferences", "/with-pt-less-codec-preferences"
		}
		if sec.Port0 == "rejected" {
			// a retired offer section: JSEP says its contents are ignored; what the answer lists
			// there is not this statement's business
			v.Label("offer-section-rejected(skipped)")
			continue
		}
		if sec.Port0 == "bundle-only" {
			v.Label(fmt.Sprintf("offer-section-bundle-only:answer-port=%d", min(m.MediaName.Port.Value, 9)))
			first := true
			for j := 0; j < i; j++ {
				first = first && offer.Sections[j].Kind != sec.Kind
			}
			if first {
				v.Label("offer-section-bundle-only:first-of-its-kind")
			}
		}
		if m.MediaName.Media != sec.Kind {
			v.Label("answer-section-kind-differs(C07)")
			continue
		}
		if m.MediaName.Port.Value == 0 {
			v.Label("answer-section-rejected")
			continue
		}
		maps := map[uint8]vfC16Map{}
		for _, a := range m.Attributes {
			if a.Key == "rtpmap" {
				if pt, mp, ok := vfC16ParseRtpmap(a.Value); ok {
					maps[pt] = mp
				}
			}
		}
		offered := map[uint8]vfFamCCodec{}
		for _, c := range sec.Codecs {
			offered[c.PT] = c
		}
		elsewhere := map[uint8]bool{}
		for j, s := range offer.Sections {
			if j != i {
				for _, c := range s.Codecs {
					elsewhere[c.PT] = true
				}
			}
		}
		v.Label(fmt.Sprintf("answer-section-formats=%d", min(len(m.MediaName.Formats), 6)))
		for _, f := range m.MediaName.Formats {
			pt64, err := strconv.ParseUint(f, 10, 8)
			if err != nil {
				v.Violation("C16/answer-format-not-a-payload-type", "%s: answer section %d (mid %s) lists format %q", where, i, sec.Mid, f)
			}
			pt := uint8(pt64)
			oc, ok := offered[pt]
			if !ok {
				mp := maps[pt]
				if elsewhere[pt] {
					v.Violation("C16/pt-from-another-section"+suffix, "%s: answer section %d (mid %s, %s) lists payload type %d (%s/%d) which the offer lists only in another section; offered here: %+v", where, i, sec.Mid, sec.Kind, pt, mp.name, mp.clock, sec.Codecs)
				}
				for _, e := range earlier {
					for _, s := range e.Sections {
						for _, c := range s.Codecs {
							if c.PT == pt {
								v.Violation("C16/pt-from-previous-offer"+suffix, "%s: answer section %d (mid %s, %s) lists payload type %d (%s/%d) which only an earlier offer contained; offered now: %+v", where, i, sec.Mid, sec.Kind, pt, mp.name, mp.clock, sec.Codecs)
							}
						}
					}
				}
				v.Violation("C16/pt-not-offered"+own, "%s: answer section %d (mid %s, %s) lists payload type %d (%s/%d) which the offer does not contain; offered here: %+v", where, i, sec.Mid, sec.Kind, pt, mp.name, mp.clock, sec.Codecs)
			}
			mp, ok := maps[pt]
			if !ok {
				v.Label("answer-pt-without-rtpmap")
				continue
			}
			if !strings.EqualFold(mp.name, oc.Name) || mp.clock != oc.Clock || vfC16Ch(mp.ch) != vfC16Ch(oc.Ch) {
				v.Violation("C16/pt-maps-to-different-codec"+own, "%s: answer section %d (mid %s) maps payload type %d to %s/%d/%d, the offer maps it to %s/%d/%d", where, i, sec.Mid, pt, mp.name, mp.clock, mp.ch, oc.Name, oc.Clock, oc.Ch)
			}
		}
	}
}

func vfC16Clip(s string) string {
	if len(s) > 60 {
		s = s[:60]
	}
	return s
}

func vfC16Run(v *vfT, c vfC16Case) {
	if len(c.Offers) == 0 || len(c.Offers[0].Sections) == 0 {
		v.Skip("empty offer")
	}
	me, err := vfFamCMediaEngine(c.Local)
	if err != nil {
		v.Skip("local configuration refused: " + err.Error())
	}
	pc, err := vfFamCNewPC(me)
	if err != nil {
		v.Skip("NewPeerConnection: " + err.Error())
	}
	defer func() { _ = pc.Close() }()
	for _, l := range append(append([]vfFamCCodec{}, c.Local.Audio...), c.Local.Video...) {
		if !l.isRTX() && l.Clock == 0 {
			v.Label("local-codec-registered-without-clock-rate")
		}
		if strings.EqualFold(l.Name, "opus") && l.Ch == 0 {
			v.Label("local-opus-registered-without-channels")
		}
	}
	prefKinds := map[string]string{} // kind -> explicit | pt-less | mixed
	for _, p := range c.Pre {
		kind := NewRTPCodecType(p.Kind)
		locals := c.Local.Audio
		if p.Kind == "video" {
			locals = c.Local.Video
		}
		if len(locals) == 0 {
			continue
		}
		tr, err := pc.AddTransceiverFromKind(kind, RTPTransceiverInit{Direction: NewRTPTransceiverDirection(p.Dir)})
		if err != nil {
			v.Label("pre-transceiver-refused:" + vfC16Clip(err.Error()))
			continue
		}
		v.Label("pre-existing-transceiver")
		if len(p.Prefs) > 0 {
			var prefs []RTPCodecParameters
			for _, i := range p.Prefs {
				l := locals[((i%len(locals))+len(locals))%len(locals)]
				if p.NoPT {
					l = vfFamCLongForm(p.Kind, l)
					l.PT = 0
				}
				prefs = append(prefs, l.params(p.Kind))
			}
			if err := tr.SetCodecPreferences(prefs); err != nil {
				v.Label("set-codec-preferences-refused")
			} else {
				v.Label("pre-existing-transceiver-with-preferences")
				how := "explicit"
				if p.NoPT {
					how = "pt-less"
					v.Label("pre-existing-transceiver-with-pt-less-preferences")
				}
				if cur, ok := prefKinds[p.Kind]; ok && cur != how {
					how = "mixed"
				}
				prefKinds[p.Kind] = how
			}
		}
	}
	multi := false
	for _, o := range c.Offers {
		seen := map[string]bool{}
		for _, s := range o.Sections {
			if seen[s.Kind] {
				multi = true
			}
			seen[s.Kind] = true
		}
	}
	if multi {
		v.Label("offer-with-two-sections-of-a-kind")
	}
	for k, o := range c.Offers {
		if err := pc.SetRemoteDescription(SessionDescription{Type: SDPTypeOffer, SDP: vfFamCOfferSDP(o, k+1)}); err != nil {
			v.Label(fmt.Sprintf("srd%d-error:%s", k+1, vfC16Clip(err.Error())))
			return
		}
		ans, err := pc.CreateAnswer(nil)
		if err != nil {
			v.Label(fmt.Sprintf("answer%d-error:%s", k+1, vfC16Clip(err.Error())))
			return
		}
		v.NonTrivial()
		v.Label(fmt.Sprintf("answer-%d-checked", k+1))
		vfC16Check(v, k, o, c.Offers[:k], prefKinds, ans)
		if k+1 < len(c.Offers) {
			if err := pc.SetLocalDescription(ans); err != nil {
				v.Label("sld-error:" + vfC16Clip(err.Error()))
				return
			}
		}
	}
}

// vfC16Reoffer derives a sound re-offer: same sections in the same order (payload type ->
// codec bindings never change), each kept / narrowed / extended, optionally one more section.
func vfC16Reoffer(t *rapid.T, g *vfFamCOfferGen, first vfFamCOffer) vfFamCOffer {
	var o vfFamCOffer
	o.Data = first.Data
	for _, s := range first.Sections {
		n := vfFamCSection{Kind: s.Kind, Mid: s.Mid, Dir: s.Dir}
		if s.Port0 == "rejected" {
			n.Port0 = "rejected" // stays retired; a bundle-only section uses the shared port from now on
		}
		switch rapid.IntRange(0, 3).Draw(t, "reofferMode") {
		case 0:
			n.Codecs = append(n.Codecs, s.Codecs...)
		case 1: // narrowed
			for _, c := range s.Codecs {
				if rapid.Bool().Draw(t, "keep2") {
					n.Codecs = append(n.Codecs, c)
				}
			}
			n.Codecs = vfFamCSoundSubset(n.Codecs, s.Codecs)
		case 2: // extended by a new codec
			n.Codecs = append(n.Codecs, s.Codecs...)
			c := g.codec(s.Kind)
			dup := false
			for _, x := range n.Codecs {
				dup = dup || x.PT == c.PT
			}
			if !dup {
				n.Codecs = append(n.Codecs, c)
			}
		default: // direction change only
			n.Codecs = append(n.Codecs, s.Codecs...)
			n.Dir = rapid.SampledFrom([]string{"sendrecv", "sendonly", "recvonly"}).Draw(t, "dir3")
		}
		o.Sections = append(o.Sections, n)
	}
	if rapid.Bool().Draw(t, "addSection") {
		mid := fmt.Sprint(len(first.Sections) + 10)
		src := rapid.SampledFrom(first.Sections).Draw(t, "deriveFrom")
		add := g.derive(src, mid)
		add.Port0 = rapid.SampledFrom([]string{"", "bundle-only", "bundle-only"}).Draw(t, "addPort0")
		o.Sections = append(o.Sections, add)
	}
	return o
}

func TestVerif_C16_AnswerSubset(t *testing.T) {
	vfProperty(t, "C16", vfOpts{
		Rule: "local MediaEngine x 0..2 pre-existing transceivers (direction, optional SetCodecPreferences before the offer, with explicit local payload types or payload-type-less) x one or two sound foreign offers (first: 1..3 sections, sections behind the first one also as a=bundle-only with port 0 - JSEP max-bundle style or individually - or retired with port 0 outside the BUNDLE group; often two of one kind where the later one lists a subset / the same codecs under new numbers / a reversed list / an independent list; second: re-offer that keeps, narrows or extends sections and may add one) -> SetRemoteDescription, CreateAnswer (answer applied before the re-offer); non-trivial = at least one answer was produced and checked",
		Assumptions: []string{"offers are sound (RFC 8843 / RFC 3264 §8.3.2): a payload type denotes one codec across sections and across the re-offer, static payload types keep their RFC 3551 meaning, every format has an rtpmap",
			"answer sections are paired with offer sections by position (C07 owns the mirroring itself); rejected answer sections (port 0) and retired offer sections (port 0, not bundled: contents are ignored per JSEP) are skipped; a=bundle-only offer sections are live and checked",
			"pion/sdp's parser is trusted for reading the answer"},
	}, func(v *vfT) vfC16Case {
		var c vfC16Case
		c.Local = vfFamCGenLocal(v.R)
		multi := rapid.IntRange(0, 9).Draw(v.R, "multi") < 6
		first, g := vfFamCGenOffer(v.R, c.Local, multi, true, true)
		c.Offers = append(c.Offers, first)
		if rapid.IntRange(0, 9).Draw(v.R, "second") < 4 {
			c.Offers = append(c.Offers, vfC16Reoffer(v.R, g, first))
		}
		np := rapid.SampledFrom([]int{0, 0, 1, 1, 2}).Draw(v.R, "npre")
		for i := 0; i < np; i++ {
			p := vfC16Pre{
				Kind: rapid.SampledFrom([]string{"audio", "video", "video"}).Draw(v.R, "preKind"),
				Dir:  rapid.SampledFrom([]string{"sendrecv", "sendonly", "recvonly"}).Draw(v.R, "preDir"),
			}
			if rapid.Bool().Draw(v.R, "withPrefs") {
				p.Prefs = rapid.SliceOfN(rapid.IntRange(0, 7), 1, 3).Draw(v.R, "prefs")
				p.NoPT = rapid.Bool().Draw(v.R, "noPT")
			}
			c.Pre = append(c.Pre, p)
		}
		return c
	}, vfC16Run)
}
