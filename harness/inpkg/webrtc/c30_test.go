package webrtc

// C30 — no remote input can crash the process.
//
// A panic in a background goroutine (e.g. the operations worker) cannot be recovered, so every
// case runs in a worker subprocess (this same test binary, TestVerif_C30_Worker).  The parent
// generates cases with rapid, ships them as JSON lines, and treats the death of the worker
// while a case is in flight as the violation; rapid then shrinks the case by re-running
// candidates on fresh workers.  Oracle: the worker survives and every call returns; errors
// are fine.

import (
	"bufio"
	"bytes"
	"encoding/json"
	"fmt"
	"io"
	"os"
	"os/exec"
	"regexp"
	"strings"
	"sync"
	"testing"
	"time"

	"github.com/pion/rtcp"
	"github.com/pion/rtp"
	"pgregory.net/rapid"
)

type vfC30Pkt struct {
	SSRCKind int    `json:"ssrc_kind"` // 0 negotiated, 1 unknown, 2 zero, 3 the negotiated stream's RTX SSRC, 4 its FEC SSRC
	PT       uint8  `json:"pt"`
	Seq      uint16 `json:"seq"`
	TwoByte  bool   `json:"two_byte"`
	Exts     []struct {
		ID  uint8  `json:"id"`
		Val []byte `json:"val"`
	} `json:"exts"`
	Payload []byte `json:"payload"`
	Padding uint8  `json:"padding"`
	RTCP    []byte `json:"rtcp,omitempty"` // if set: raw RTCP compound instead of RTP
}

type vfC30Case struct {
	Kind      string     `json:"kind"`      // sdp-offer | sdp-answer | cand | rtp
	Semantics int        `json:"semantics"` // SDPSemantics value
	Local     int        `json:"local"`     // local media before the remote description: 0 none, 1 audio+video transceivers, 2 tracks
	Lines     []string   `json:"lines"`     // SDP lines (joined with CRLF) or candidate strings
	Pkts      []vfC30Pkt `json:"pkts,omitempty"`
	Warm      int        `json:"warm,omitempty"` // rtp kind: well-formed packets on the negotiated stream sent first (track delivered and being read)
}

// ---------------------------------------------------------------- worker side

// vfC30Drain: the queued operations (startTransports blocks in ICE until the connection is
// closed, then startRTP still runs) finish only once the connection is closed; GracefulClose
// waits for them, so a panic in the operations goroutine happens before the case is reported done.
func vfC30Drain(pc *PeerConnection) {
	done := make(chan struct{})
	go func() { _ = pc.GracefulClose(); close(done) }()
	select {
	case <-done:
	case <-time.After(20 * time.Second):
	}
}

func vfC30ExecSDP(c vfC30Case) {
	se := SettingEngine{}
	se.SetIncludeLoopbackCandidate(true)
	se.SetNetworkTypes([]NetworkType{NetworkTypeUDP4})
	api := NewAPI(WithSettingEngine(se))
	pc, err := api.NewPeerConnection(Configuration{SDPSemantics: SDPSemantics(c.Semantics)})
	if err != nil {
		return
	}
	defer func() { _ = pc.Close() }()
	pc.OnTrack(func(*TrackRemote, *RTPReceiver) {})
	pc.OnDataChannel(func(*DataChannel) {})
	switch c.Local {
	case 1:
		_, _ = pc.AddTransceiverFromKind(RTPCodecTypeAudio)
		_, _ = pc.AddTransceiverFromKind(RTPCodecTypeVideo)
	case 2:
		if tr, err := NewTrackLocalStaticSample(RTPCodecCapability{MimeType: MimeTypeVP8}, "v", "s"); err == nil {
			_, _ = pc.AddTrack(tr)
		}
		if tr, err := NewTrackLocalStaticSample(RTPCodecCapability{MimeType: MimeTypeOpus}, "a", "s"); err == nil {
			_, _ = pc.AddTrack(tr)
		}
	}
	sdp := strings.Join(c.Lines, "\r\n") + "\r\n"
	if c.Kind == "sdp-offer" {
		if err := pc.SetRemoteDescription(SessionDescription{Type: SDPTypeOffer, SDP: sdp}); err != nil {
			vfC30Drain(pc)
			return
		}
		answer, err := pc.CreateAnswer(nil)
		if err == nil {
			_ = pc.SetLocalDescription(answer)
		}
		vfC30Drain(pc)
		_, _ = pc.CreateOffer(nil)
		return
	}
	// sdp-answer: we are the offerer
	_, _ = pc.CreateDataChannel("d", nil)
	if c.Local == 0 {
		_, _ = pc.AddTransceiverFromKind(RTPCodecTypeVideo)
	}
	offer, err := pc.CreateOffer(nil)
	if err != nil {
		return
	}
	if err := pc.SetLocalDescription(offer); err != nil {
		return
	}
	_ = pc.SetRemoteDescription(SessionDescription{Type: SDPTypeAnswer, SDP: sdp})
	vfC30Drain(pc)
}

func vfC30ExecCand(c vfC30Case) {
	api := vfPairAPI(nil, nil)
	pcA, err := api.NewPeerConnection(Configuration{})
	if err != nil {
		return
	}
	defer func() { _ = pcA.Close() }()
	pcB, err := api.NewPeerConnection(Configuration{})
	if err != nil {
		return
	}
	defer func() { _ = pcB.Close() }()
	_, _ = pcA.CreateDataChannel("d", nil)
	offer, err := pcA.CreateOffer(nil)
	if err != nil || pcA.SetLocalDescription(offer) != nil || pcB.SetRemoteDescription(offer) != nil {
		return
	}
	// Local: 1 = the connection is closed before the (late, trickled) candidates arrive,
	//        2 = closed after the first half of them
	if c.Local == 1 {
		_ = pcB.Close()
	}
	mid := "0"
	idx := uint16(0)
	for i, l := range c.Lines {
		if c.Local == 2 && i == len(c.Lines)/2 {
			_ = pcB.Close()
		}
		init := ICECandidateInit{Candidate: l}
		switch i % 3 {
		case 1:
			init.SDPMid = &mid
		case 2:
			init.SDPMLineIndex = &idx
		}
		_ = pcB.AddICECandidate(init)
	}
	vfC30Drain(pcB)
}

func vfC30ExecRTP(c vfC30Case) {
	meA, meB := &MediaEngine{}, &MediaEngine{}
	for _, me := range []*MediaEngine{meA, meB} {
		_ = me.RegisterDefaultCodecs()
		for _, uri := range []string{"urn:ietf:params:rtp-hdrext:sdes:mid", "urn:ietf:params:rtp-hdrext:sdes:rtp-stream-id", "urn:ietf:params:rtp-hdrext:sdes:repaired-rtp-stream-id"} {
			_ = me.RegisterHeaderExtension(RTPHeaderExtensionCapability{URI: uri}, RTPCodecTypeVideo)
			_ = me.RegisterHeaderExtension(RTPHeaderExtensionCapability{URI: uri}, RTPCodecTypeAudio)
		}
	}
	se := func(s *SettingEngine) {}
	pcA, err := vfPairAPI(se, meA).NewPeerConnection(Configuration{SDPSemantics: SDPSemantics(c.Semantics)})
	if err != nil {
		return
	}
	defer func() { _ = pcA.Close() }()
	pcB, err := vfPairAPI(se, meB).NewPeerConnection(Configuration{SDPSemantics: SDPSemantics(c.Semantics)})
	if err != nil {
		return
	}
	defer func() { _ = pcB.Close() }()
	pcB.OnDataChannel(func(*DataChannel) {})
	pcB.OnTrack(func(t *TrackRemote, _ *RTPReceiver) {
		go func() {
			buf := make([]byte, 1500)
			for {
				if _, _, err := t.Read(buf); err != nil {
					return
				}
			}
		}()
	})
	track, err := NewTrackLocalStaticRTP(RTPCodecCapability{MimeType: MimeTypeVP8}, "v", "s")
	if err != nil {
		return
	}
	sender, err := pcA.AddTrack(track)
	if err != nil {
		return
	}
	if c.Local >= 1 {
		_, _ = pcB.AddTransceiverFromKind(RTPCodecTypeVideo, RTPTransceiverInit{Direction: RTPTransceiverDirectionRecvonly})
	}
	_, _ = pcA.CreateDataChannel("d", nil)
	if err := vfPairSignal(pcA, pcB, nil); err != nil {
		return
	}
	if !vfPairWait(10*time.Second, func() bool {
		return pcA.ConnectionState() == PeerConnectionStateConnected && pcB.ConnectionState() == PeerConnectionStateConnected
	}) {
		return
	}
	if c.Local >= 2 {
		// the victim also gets a send-only transceiver (no receiver behind it) in a second exchange it offers
		if tb, err := NewTrackLocalStaticRTP(RTPCodecCapability{MimeType: MimeTypeVP8}, "vb", "s"); err == nil {
			if _, err = pcB.AddTransceiverFromTrack(tb, RTPTransceiverInit{Direction: RTPTransceiverDirectionSendonly}); err == nil {
				if err := vfPairSignal(pcB, pcA, nil); err != nil {
					return
				}
			}
		}
	}
	sess, err := pcA.dtlsTransport.getSRTPSession()
	if err != nil {
		return
	}
	ws, err := sess.OpenWriteStream()
	if err != nil {
		return
	}
	csess, err := pcA.dtlsTransport.getSRTCPSession()
	if err != nil {
		return
	}
	cws, err := csess.OpenWriteStream()
	if err != nil {
		return
	}
	enc := sender.GetParameters().Encodings[0]
	negotiated := uint32(enc.SSRC)
	for i := 0; i < c.Warm; i++ {
		_, _ = ws.WriteRTP(&rtp.Header{Version: 2, PayloadType: 96, SequenceNumber: uint16(100 + i), Timestamp: uint32(i) * 3000, SSRC: negotiated}, []byte{0x10, 0, 0, 0x9d, 0x01, 0x2a, 1, 2, 3, 4})
	}
	if c.Warm > 0 {
		time.Sleep(20 * time.Millisecond)
	}
	for i, p := range c.Pkts {
		if len(p.RTCP) > 0 {
			_, _ = cws.Write(p.RTCP)
			continue
		}
		h := &rtp.Header{Version: 2, PayloadType: p.PT & 0x7f, SequenceNumber: p.Seq + uint16(i), Timestamp: uint32(i) * 3000}
		switch p.SSRCKind {
		case 0:
			h.SSRC = negotiated
		case 1:
			h.SSRC = 0xDEAD0000 + uint32(p.Seq)
		case 3:
			h.SSRC = uint32(enc.RTX.SSRC)
		case 4:
			h.SSRC = uint32(enc.FEC.SSRC)
		}
		if len(p.Exts) > 0 {
			h.Extension = true
			if p.TwoByte {
				h.ExtensionProfile = 0x1000
			} else {
				h.ExtensionProfile = 0xBEDE
			}
			for _, e := range p.Exts {
				_ = h.SetExtension(e.ID, e.Val)
			}
		}
		payload := p.Payload
		if p.Padding > 0 {
			h.Padding = true
			payload = append(append([]byte{}, payload...), make([]byte, p.Padding)...)
			payload[len(payload)-1] = p.Padding
		}
		_, _ = ws.WriteRTP(h, payload)
	}
	time.Sleep(30 * time.Millisecond)
	vfC30Drain(pcB)
}

// vfC30ExecLive: a really connecting pair whose offer and/or answer text is edited in flight
// (c.Lines are edit commands "O|A:sub:old=>new", "O|A:drop:prefix", "O|A:ins:afterPrefix|line");
// the work queued behind ICE/DTLS start (startRTP, receivers, SCTP) runs on a live connection.
func vfC30ExecLive(c vfC30Case) {
	var me *MediaEngine
	if c.Local >= 3 {
		// small MediaEngine (VP8 + Opus only): one renamed codec leaves a kind without any common codec
		me = &MediaEngine{}
		_ = me.RegisterCodec(RTPCodecParameters{RTPCodecCapability: RTPCodecCapability{MimeType: MimeTypeVP8, ClockRate: 90000}, PayloadType: 96}, RTPCodecTypeVideo)
		_ = me.RegisterCodec(RTPCodecParameters{RTPCodecCapability: RTPCodecCapability{MimeType: MimeTypeOpus, ClockRate: 48000, Channels: 2}, PayloadType: 111}, RTPCodecTypeAudio)
	}
	c.Local %= 3
	api := vfPairAPI(nil, me)
	pcA, err := api.NewPeerConnection(Configuration{SDPSemantics: SDPSemantics(c.Semantics)})
	if err != nil {
		return
	}
	pcB, err := api.NewPeerConnection(Configuration{SDPSemantics: SDPSemantics(c.Semantics)})
	if err != nil {
		_ = pcA.Close()
		return
	}
	defer func() { vfC30Drain(pcA); vfC30Drain(pcB) }()
	for _, pc := range []*PeerConnection{pcA, pcB} {
		pc.OnDataChannel(func(*DataChannel) {})
		pc.OnTrack(func(t *TrackRemote, _ *RTPReceiver) {
			go func() {
				buf := make([]byte, 1500)
				for {
					if _, _, err := t.Read(buf); err != nil {
						return
					}
				}
			}()
		})
	}
	var tracks []*TrackLocalStaticRTP
	addTrack := func(pc *PeerConnection, mime, id string) {
		tr, err := NewTrackLocalStaticRTP(RTPCodecCapability{MimeType: mime}, id, "s")
		if err == nil {
			if _, err = pc.AddTrack(tr); err == nil {
				tracks = append(tracks, tr)
			}
		}
	}
	switch c.Local {
	case 0:
		addTrack(pcA, MimeTypeVP8, "va")
	case 1:
		addTrack(pcA, MimeTypeVP8, "va")
		addTrack(pcA, MimeTypeOpus, "aa")
		addTrack(pcB, MimeTypeOpus, "ab")
	default:
		// the offerer only receives: a section it cannot use does not stop it in startRTPSenders,
		// so the receivers are started once the transports are up
		_, _ = pcA.AddTransceiverFromKind(RTPCodecTypeVideo, RTPTransceiverInit{Direction: RTPTransceiverDirectionRecvonly})
		_, _ = pcA.AddTransceiverFromKind(RTPCodecTypeAudio, RTPTransceiverInit{Direction: RTPTransceiverDirectionRecvonly})
		addTrack(pcB, MimeTypeVP8, "vb")
		addTrack(pcB, MimeTypeOpus, "ab")
	}
	_, _ = pcA.CreateDataChannel("d", nil)
	munge := func(sdp string, isOffer bool) string {
		side := "A:"
		if isOffer {
			side = "O:"
		}
		lines := strings.Split(strings.ReplaceAll(sdp, "\r\n", "\n"), "\n")
		for _, cmd := range c.Lines {
			if !strings.HasPrefix(cmd, side) {
				continue
			}
			cmd = cmd[2:]
			switch {
			case strings.HasPrefix(cmd, "sub:"):
				if parts := strings.SplitN(cmd[4:], "=>", 2); len(parts) == 2 && parts[0] != "" {
					for i := range lines {
						lines[i] = strings.ReplaceAll(lines[i], parts[0], parts[1])
					}
				}
			case strings.HasPrefix(cmd, "drop:"):
				var keep []string
				for _, l := range lines {
					if cmd[5:] == "" || !strings.HasPrefix(l, cmd[5:]) {
						keep = append(keep, l)
					}
				}
				lines = keep
			case strings.HasPrefix(cmd, "ins:"):
				if parts := strings.SplitN(cmd[4:], "|", 2); len(parts) == 2 {
					for i, l := range lines {
						if strings.HasPrefix(l, parts[0]) {
							lines = append(lines[:i+1:i+1], append([]string{parts[1]}, lines[i+1:]...)...)
							break
						}
					}
				}
			}
		}
		return strings.Join(lines, "\r\n")
	}
	if err := vfPairSignal(pcA, pcB, munge); err != nil {
		return
	}
	vfPairWait(3*time.Second, func() bool {
		return pcA.ConnectionState() == PeerConnectionStateConnected && pcB.ConnectionState() == PeerConnectionStateConnected
	})
	for i := 0; i < 5; i++ {
		for _, tr := range tracks {
			_ = tr.WriteRTP(&rtp.Packet{Header: rtp.Header{Version: 2, SequenceNumber: uint16(i), Timestamp: uint32(i) * 3000}, Payload: []byte{0x10, 0, 1, 2, 3}})
		}
		time.Sleep(2 * time.Millisecond)
	}
	time.Sleep(20 * time.Millisecond)
}

// TestVerif_C30_Worker executes cases read from stdin, one JSON document per line.
func TestVerif_C30_Worker(t *testing.T) {
	if os.Getenv("VERIF_C30_WORKER") != "1" {
		return
	}
	rd := bufio.NewReaderSize(os.Stdin, 1<<20)
	for {
		line, err := rd.ReadBytes('\n')
		if len(line) > 0 {
			var c vfC30Case
			if json.Unmarshal(line, &c) == nil {
				done := make(chan struct{})
				go func() {
					defer close(done)
					switch c.Kind {
					case "sdp-offer", "sdp-answer":
						vfC30ExecSDP(c)
					case "cand":
						vfC30ExecCand(c)
					case "rtp":
						vfC30ExecRTP(c)
					case "live":
						vfC30ExecLive(c)
					}
				}()
				select {
				case <-done:
					// let late goroutines of the closed connection(s) run
					time.Sleep(time.Millisecond)
					fmt.Fprintln(os.Stdout, "VFOK")
				case <-time.After(60 * time.Second):
					fmt.Fprintln(os.Stdout, "VFHANG")
					fmt.Fprintln(os.Stderr, vfPionStacks())
				}
			} else {
				fmt.Fprintln(os.Stdout, "VFBAD")
			}
			_ = os.Stdout.Sync()
		}
		if err != nil {
			return
		}
	}
}

// ---------------------------------------------------------------- parent side

type vfC30WorkerProc struct {
	cmd    *exec.Cmd
	stdin  io.WriteCloser
	stdout *bufio.Reader
	stderr *vfC30Tail
}

type vfC30Tail struct {
	mu  sync.Mutex
	buf []byte
}

func (t *vfC30Tail) Write(p []byte) (int, error) {
	t.mu.Lock()
	t.buf = append(t.buf, p...)
	if len(t.buf) > 1<<18 {
		t.buf = t.buf[len(t.buf)-(1<<17):]
	}
	t.mu.Unlock()
	return len(p), nil
}

func (t *vfC30Tail) String() string { t.mu.Lock(); defer t.mu.Unlock(); return string(t.buf) }

func vfC30Spawn() (*vfC30WorkerProc, error) {
	cmd := exec.Command(os.Args[0], "-test.run", "^TestVerif_C30_Worker$", "-test.count=1", "-test.timeout=0")
	cmd.Env = append(os.Environ(), "VERIF_C30_WORKER=1", "VERIF_OUT=", "VERIF_REPLAY=")
	in, err := cmd.StdinPipe()
	if err != nil {
		return nil, err
	}
	out, err := cmd.StdoutPipe()
	if err != nil {
		return nil, err
	}
	tail := &vfC30Tail{}
	cmd.Stderr = tail
	if err := cmd.Start(); err != nil {
		return nil, err
	}
	return &vfC30WorkerProc{cmd: cmd, stdin: in, stdout: bufio.NewReaderSize(out, 1<<16), stderr: tail}, nil
}

func (w *vfC30WorkerProc) kill() {
	_ = w.stdin.Close()
	_ = w.cmd.Process.Kill()
	_, _ = w.cmd.Process.Wait()
}

var (
	vfC30Mu     sync.Mutex
	vfC30Proc   *vfC30WorkerProc
	vfC30PanicF = regexp.MustCompile(`(?m)^github\.com/pion/webrtc/v4\.([^\s(]*(?:\([^)]*\))?[^\s(]*)\(`)
)

// vfC30RunOne executes one case on the shared worker; returns "ok", "hang" or "crash" + diagnostic.
func vfC30RunOne(c vfC30Case) (string, string) {
	vfC30Mu.Lock()
	defer vfC30Mu.Unlock()
	if vfC30Proc == nil {
		p, err := vfC30Spawn()
		if err != nil {
			return "spawn-error", err.Error()
		}
		vfC30Proc = p
	}
	w := vfC30Proc
	b, _ := json.Marshal(c)
	b = append(b, '\n')
	if _, err := w.stdin.Write(b); err != nil {
		w.kill()
		vfC30Proc = nil
		return "crash", "write to worker failed (worker died before the case): " + w.stderr.String()
	}
	type res struct {
		line string
		err  error
	}
	ch := make(chan res, 1)
	go func() {
		for {
			l, err := w.stdout.ReadString('\n')
			l = strings.TrimSpace(l)
			if strings.HasPrefix(l, "VF") || err != nil {
				ch <- res{l, err}
				return
			}
		}
	}()
	select {
	case r := <-ch:
		switch {
		case r.line == "VFOK" || r.line == "VFBAD":
			return "ok", ""
		case r.line == "VFHANG":
			diag := w.stderr.String()
			w.kill()
			vfC30Proc = nil
			return "hang", diag
		default:
			// EOF: the worker died while the case was in flight
			time.Sleep(20 * time.Millisecond)
			diag := w.stderr.String()
			w.kill()
			vfC30Proc = nil
			return "crash", diag
		}
	case <-time.After(90 * time.Second):
		diag := w.stderr.String()
		w.kill()
		vfC30Proc = nil
		return "hang", "no reply from the worker within 90s\n" + diag
	}
}

func vfC30CrashClass(diag string) (string, string) {
	msg := ""
	if i := strings.Index(diag, "panic: "); i >= 0 {
		msg = diag[i:]
		if j := strings.Index(msg, "\n"); j > 0 {
			msg = msg[:j]
		}
	} else if i := strings.Index(diag, "fatal error: "); i >= 0 {
		msg = diag[i:]
		if j := strings.Index(msg, "\n"); j > 0 {
			msg = msg[:j]
		}
	}
	site := "unknown-site"
	idx := strings.Index(diag, "panic: ")
	if idx < 0 {
		idx = 0
	}
	for _, m := range vfC30PanicF.FindAllStringSubmatch(diag[idx:], -1) {
		fn := m[1]
		if strings.HasPrefix(fn, "vf") || strings.HasPrefix(fn, "TestVerif") {
			continue
		}
		site = fn
		break
	}
	kind := regexp.MustCompile(`[0-9]+`).ReplaceAllString(msg, "N")
	if len(kind) > 60 {
		kind = kind[:60]
	}
	kind = strings.ReplaceAll(strings.TrimPrefix(kind, "panic: "), " ", "_")
	return "C30/crash/" + site + "/" + kind, msg
}

func vfC30Run(v *vfT, c vfC30Case) {
	st, diag := vfC30RunOne(c)
	v.Label(c.Kind)
	if c.Kind != "cand" && c.Kind != "rtp" {
		v.Label(fmt.Sprintf("semantics=%d", c.Semantics))
	}
	switch st {
	case "ok":
	case "spawn-error":
		v.Skip("cannot start the worker: " + diag)
	case "hang":
		v.Violation("C30/hang", "a call did not return within 60s; blocked pion goroutines:\n%s", vfC30Trim(diag))
	case "crash":
		cls, msg := vfC30CrashClass(diag)
		v.Violation(cls, "the process died while handling the remote input: %s\n%s", msg, vfC30Trim(diag))
	}
}

func vfC30Trim(s string) string {
	if i := strings.Index(s, "panic: "); i >= 0 {
		s = s[i:]
	}
	if len(s) > 2500 {
		s = s[:2500]
	}
	return s
}

// ---------------------------------------------------------------- generators

var vfC30Once sync.Once
var vfC30Corpus [][]string

const vfC30ChromeSimulcast = `v=0
o=- 4215775240449105457 2 IN IP4 127.0.0.1
s=-
t=0 0
a=group:BUNDLE 0 1
a=extmap-allow-mixed
a=msid-semantic: WMS
m=video 9 UDP/TLS/RTP/SAVPF 96 97
c=IN IP4 0.0.0.0
a=rtcp:9 IN IP4 0.0.0.0
a=ice-ufrag:1/MvHwjAyVf27aLu
a=ice-pwd:3dBU7cFOBl120v33cynDvN1E
a=ice-options:trickle
a=fingerprint:sha-256 75:74:5A:A6:A4:E5:52:F4:A7:67:4C:01:C7:EE:91:3F:21:3D:A2:E3:53:7B:6F:30:86:F2:30:AA:65:FB:04:24
a=setup:actpass
a=mid:0
a=extmap:1 urn:ietf:params:rtp-hdrext:sdes:mid
a=extmap:2 urn:ietf:params:rtp-hdrext:sdes:rtp-stream-id
a=extmap:3 urn:ietf:params:rtp-hdrext:sdes:repaired-rtp-stream-id
a=sendrecv
a=msid:- d6e2b5a4-0c1f-4f0e-a6b3-1234567890ab
a=rtcp-mux
a=rtcp-rsize
a=rtpmap:96 VP8/90000
a=rtcp-fb:96 nack
a=rtcp-fb:96 nack pli
a=rtpmap:97 rtx/90000
a=fmtp:97 apt=96
a=rid:q send
a=rid:h send
a=rid:f send
a=simulcast:send q;h;f
m=application 9 UDP/DTLS/SCTP webrtc-datachannel
c=IN IP4 0.0.0.0
a=ice-ufrag:1/MvHwjAyVf27aLu
a=ice-pwd:3dBU7cFOBl120v33cynDvN1E
a=fingerprint:sha-256 75:74:5A:A6:A4:E5:52:F4:A7:67:4C:01:C7:EE:91:3F:21:3D:A2:E3:53:7B:6F:30:86:F2:30:AA:65:FB:04:24
a=setup:actpass
a=mid:1
a=sctp-port:5000
a=max-message-size:262144`

const vfC30PlanB = `v=0
o=- 4596489990601351948 2 IN IP4 127.0.0.1
s=-
t=0 0
a=group:BUNDLE audio video data
a=msid-semantic: WMS stream1 stream2
m=audio 9 UDP/TLS/RTP/SAVPF 111 0
c=IN IP4 0.0.0.0
a=rtcp:9 IN IP4 0.0.0.0
a=ice-ufrag:FOO1
a=ice-pwd:asd88fgpdd777uzjYhagZg12
a=fingerprint:sha-256 75:74:5A:A6:A4:E5:52:F4:A7:67:4C:01:C7:EE:91:3F:21:3D:A2:E3:53:7B:6F:30:86:F2:30:AA:65:FB:04:24
a=setup:actpass
a=mid:audio
a=sendrecv
a=rtcp-mux
a=rtpmap:111 opus/48000/2
a=fmtp:111 minptime=10;useinbandfec=1
a=rtpmap:0 PCMU/8000
a=ssrc:1001 cname:c1
a=ssrc:1001 msid:stream1 audio1
a=ssrc:1002 cname:c1
a=ssrc:1002 msid:stream2 audio2
m=video 9 UDP/TLS/RTP/SAVPF 96 97
c=IN IP4 0.0.0.0
a=ice-ufrag:FOO1
a=ice-pwd:asd88fgpdd777uzjYhagZg12
a=fingerprint:sha-256 75:74:5A:A6:A4:E5:52:F4:A7:67:4C:01:C7:EE:91:3F:21:3D:A2:E3:53:7B:6F:30:86:F2:30:AA:65:FB:04:24
a=setup:actpass
a=mid:video
a=sendrecv
a=rtcp-mux
a=rtpmap:96 VP8/90000
a=rtcp-fb:96 nack pli
a=rtpmap:97 rtx/90000
a=fmtp:97 apt=96
a=ssrc-group:FID 2001 2002
a=ssrc:2001 cname:c1
a=ssrc:2001 msid:stream1 video1
a=ssrc:2002 cname:c1
a=ssrc:2002 msid:stream1 video1
a=ssrc-group:FID 2003 2004
a=ssrc:2003 msid:stream2 video2
a=ssrc:2004 msid:stream2 video2
m=application 9 UDP/DTLS/SCTP webrtc-datachannel
c=IN IP4 0.0.0.0
a=ice-ufrag:FOO1
a=ice-pwd:asd88fgpdd777uzjYhagZg12
a=fingerprint:sha-256 75:74:5A:A6:A4:E5:52:F4:A7:67:4C:01:C7:EE:91:3F:21:3D:A2:E3:53:7B:6F:30:86:F2:30:AA:65:FB:04:24
a=setup:actpass
a=mid:data
a=sctp-port:5000`

func vfC30BuildCorpus() {
	split := func(s string) []string {
		s = strings.ReplaceAll(s, "\r\n", "\n")
		return strings.Split(strings.TrimRight(s, "\n"), "\n")
	}
	vfC30Corpus = append(vfC30Corpus, split(vfC30ChromeSimulcast), split(vfC30PlanB))
	// descriptions pion itself generates (unified, plan-b; media + data; with simulcast-capable extensions)
	for _, sem := range []SDPSemantics{SDPSemanticsUnifiedPlan, SDPSemanticsPlanB} {
		pc, err := NewPeerConnection(Configuration{SDPSemantics: sem})
		if err != nil {
			continue
		}
		_, _ = pc.AddTransceiverFromKind(RTPCodecTypeAudio)
		if tr, err := NewTrackLocalStaticSample(RTPCodecCapability{MimeType: MimeTypeVP8}, "v", "s"); err == nil {
			_, _ = pc.AddTrack(tr)
		}
		_, _ = pc.CreateDataChannel("d", nil)
		if offer, err := pc.CreateOffer(nil); err == nil {
			vfC30Corpus = append(vfC30Corpus, split(offer.SDP))
			// and a matching answer from a second pion peer
			if pc2, err := NewPeerConnection(Configuration{SDPSemantics: sem}); err == nil {
				if pc2.SetRemoteDescription(offer) == nil {
					if ans, err := pc2.CreateAnswer(nil); err == nil {
						vfC30Corpus = append(vfC30Corpus, split(ans.SDP))
					}
				}
				_ = pc2.Close()
			}
		}
		_ = pc.Close()
	}
}

var vfC30Hostile = []string{
	"a=rid:", "a=rid:1 send pt=", "a=rid:a recv", "a=simulcast:send", "a=simulcast:send ;;", "a=simulcast:recv a;b", "a=simulcast:send a,b;~c",
	"a=ssrc:", "a=ssrc:abc cname:x", "a=ssrc:1", "a=ssrc:4294967296 cname:x", "a=ssrc:7 msid:", "a=ssrc:7 msid:a", "a=ssrc-group:FID", "a=ssrc-group:FID 1", "a=ssrc-group:FID x y", "a=ssrc-group:FEC-FR 1 2 3", "a=ssrc-group:SIM 1 2 3",
	"a=msid:", "a=msid:a", "a=msid:- -", "a=fmtp:96", "a=fmtp:abc apt=", "a=fmtp:97 apt=", "a=fmtp:97 apt=97", "a=fmtp:97 apt=999", "a=rtpmap:96", "a=rtpmap:300 VP8/90000", "a=rtpmap:96 /", "a=rtpmap:96 VP8/", "a=rtpmap:96 VP8/90000/",
	"a=extmap:", "a=extmap:0 urn:x", "a=extmap:999999999999 urn:x", "a=extmap:1", "a=extmap:1/sendrecv", "a=extmap:-1 urn:ietf:params:rtp-hdrext:sdes:mid",
	"a=mid:", "a=mid", "a=group:BUNDLE", "a=group:BUNDLE 0 0 0", "a=group:", "a=fingerprint:", "a=fingerprint:sha-256", "a=fingerprint:sha-256 ZZ", "a=setup:", "a=setup:holdconn",
	"a=ice-ufrag:", "a=ice-pwd:", "a=ice-lite", "a=ice-options:", "a=candidate:", "a=candidate:1 1 udp", "a=candidate:1 1 udp 1 1.2.3.4 99999 typ host", "a=candidate:1 1 tcp 1 ::1 9 typ host tcptype", "a=end-of-candidates",
	"a=rtcp-fb:", "a=rtcp-fb:* nack", "a=rtcp-fb:96", "a=sctp-port:", "a=sctp-port:99999", "a=sctp-port:-1", "a=sctpmap:5000 webrtc-datachannel 1024", "a=max-message-size:-1", "a=max-message-size:99999999999999999999",
	"m=video 9 UDP/TLS/RTP/SAVPF", "m=audio", "m=application 9 UDP/DTLS/SCTP", "m=application 9 DTLS/SCTP 5000", "m=video 0 UDP/TLS/RTP/SAVPF 0", "m=video 9 UDP/TLS/RTP/SAVPF abc", "m=text 9 UDP/TLS/RTP/SAVPF 96", "m=video 9 RTP/AVP 96",
	"a=inactive", "a=sendonly", "a=recvonly", "a=rtcp-mux", "a=bundle-only", "a=extmap-allow-mixed", "c=IN IP4", "o=", "s=", "t=", "v=1", "b=AS:", "a=", "=", "", "a=rtpmap:96 FOO/90000", "a=rtpmap:111 FOO/48000/2",
}

var vfC30HostileNums = []string{"0", "-1", "1", "255", "256", "65535", "65536", "2147483647", "2147483648", "4294967295", "4294967296", "99999999999999999999", "", "x"}

func vfC30GenSDP(v *vfT) vfC30Case {
	t := v.R
	vfC30Once.Do(vfC30BuildCorpus)
	c := vfC30Case{}
	if rapid.IntRange(0, 3).Draw(t, "as-answer") == 0 {
		c.Kind = "sdp-answer"
	} else {
		c.Kind = "sdp-offer"
	}
	c.Semantics = rapid.SampledFrom([]int{int(SDPSemanticsUnifiedPlan), int(SDPSemanticsPlanB), int(SDPSemanticsUnifiedPlanWithFallback)}).Draw(t, "semantics")
	c.Local = rapid.IntRange(0, 2).Draw(t, "local")
	base := rapid.IntRange(0, len(vfC30Corpus)-1).Draw(t, "base")
	lines := append([]string{}, vfC30Corpus[base]...)
	numRe := regexp.MustCompile(`[0-9]+`)
	nm := rapid.IntRange(0, 8).Draw(t, "mutations")
	for i := 0; i < nm && len(lines) > 0; i++ {
		at := rapid.IntRange(0, len(lines)-1).Draw(t, "at")
		switch rapid.IntRange(0, 9).Draw(t, "op") {
		case 0: // delete
			lines = append(lines[:at:at], lines[at+1:]...)
		case 1: // duplicate
			lines = append(lines[:at+1:at+1], lines[at:]...)
		case 2: // swap
			o := rapid.IntRange(0, len(lines)-1).Draw(t, "other")
			lines[at], lines[o] = lines[o], lines[at]
		case 3: // truncate
			if len(lines[at]) > 0 {
				lines[at] = lines[at][:rapid.IntRange(0, len(lines[at])-1).Draw(t, "cut")]
			}
		case 4: // splice a hostile number
			locs := numRe.FindAllStringIndex(lines[at], -1)
			if len(locs) > 0 {
				l := locs[rapid.IntRange(0, len(locs)-1).Draw(t, "num")]
				lines[at] = lines[at][:l[0]] + rapid.SampledFrom(vfC30HostileNums).Draw(t, "hostile-num") + lines[at][l[1]:]
			}
		case 5, 6: // insert a hostile line
			h := rapid.SampledFrom(vfC30Hostile).Draw(t, "hostile")
			lines = append(lines[:at:at], append([]string{h}, lines[at:]...)...)
		case 7: // delete every line with a given attribute prefix (e.g. all a=ssrc, all a=rtpmap, all a=mid)
			pre := rapid.SampledFrom([]string{"a=ssrc", "a=rtpmap", "a=mid", "a=fmtp", "a=rid", "a=extmap", "a=ice-", "a=fingerprint", "a=setup", "a=msid", "a=group", "a=rtcp-fb", "a=simulcast", "c=", "a=sendrecv"}).Draw(t, "prefix")
			var keep []string
			for _, l := range lines {
				if !strings.HasPrefix(l, pre) {
					keep = append(keep, l)
				}
			}
			lines = keep
		case 8: // make every codec of one kind unsupported
			for k, l := range lines {
				if strings.HasPrefix(l, "a=rtpmap:") {
					if sp := strings.Index(l, " "); sp > 0 {
						lines[k] = l[:sp+1] + "X" + l[sp+1:]
					}
				}
			}
		case 9: // oversize value
			lines[at] = lines[at] + strings.Repeat(rapid.SampledFrom([]string{"A", "9", ";", " ", ":"}).Draw(t, "fill"), rapid.SampledFrom([]int{64, 300, 5000}).Draw(t, "n"))
		}
	}
	c.Lines = lines
	return c
}

var vfC30CandBase = []string{
	"candidate:1 1 udp 2130706431 192.0.2.1 5000 typ host",
	"candidate:2 1 tcp 1518280447 192.0.2.1 9 typ host tcptype active",
	"candidate:3 1 udp 1694498815 203.0.113.5 6000 typ srflx raddr 192.0.2.1 rport 5000",
	"candidate:4 1 udp 41885439 198.51.100.1 7000 typ relay raddr 203.0.113.5 rport 6000 ufrag abcd network-cost 10",
	"candidate:5 1 udp 2130706431 fe80::1 5000 typ host",
	"candidate:6 1 udp 2130706431 a-b-c.local 5000 typ host",
	"1 1 udp 1 1.2.3.4 1 typ host",
	"",
}

func vfC30GenCand(v *vfT) vfC30Case {
	t := v.R
	c := vfC30Case{Kind: "cand", Local: rapid.SampledFrom([]int{0, 0, 1, 2}).Draw(t, "close")}
	n := rapid.IntRange(1, 8).Draw(t, "n")
	for i := 0; i < n; i++ {
		s := rapid.SampledFrom(vfC30CandBase).Draw(t, "base")
		f := strings.Fields(s)
		for m := rapid.IntRange(0, 3).Draw(t, "muts"); m > 0 && len(f) > 0; m-- {
			at := rapid.IntRange(0, len(f)-1).Draw(t, "at")
			switch rapid.IntRange(0, 4).Draw(t, "op") {
			case 0:
				f = append(f[:at:at], f[at+1:]...)
			case 1:
				f[at] = rapid.SampledFrom(append(vfC30HostileNums, "typ", "raddr", "rport", "tcptype", "ufrag", "generation", "host", "::", "[::1]", "256.1.1.1", "candidate:", strings.Repeat("9", 40))).Draw(t, "tok")
			case 2:
				f = append(f[:at+1:at+1], f[at:]...)
			case 3:
				f = f[:at]
			case 4:
				f[at] = f[at] + rapid.StringMatching(`[ -~]{0,6}`).Draw(t, "junk")
			}
		}
		c.Lines = append(c.Lines, strings.Join(f, rapid.SampledFrom([]string{" ", " ", "  ", "\t"}).Draw(t, "sep")))
	}
	return c
}

func vfC30GenRTP(v *vfT) vfC30Case {
	t := v.R
	c := vfC30Case{Kind: "rtp", Semantics: int(SDPSemanticsUnifiedPlan), Local: rapid.IntRange(0, 2).Draw(t, "local"), Warm: rapid.SampledFrom([]int{0, 0, 2, 3}).Draw(t, "warm")}
	n := rapid.IntRange(1, 12).Draw(t, "n")
	for i := 0; i < n; i++ {
		var p vfC30Pkt
		if rapid.IntRange(0, 5).Draw(t, "rtcp") == 0 {
			pk := []rtcp.Packet{&rtcp.ReceiverReport{SSRC: rapid.Uint32().Draw(t, "ssrc")}}
			raw, _ := rtcp.Marshal(pk)
			if rapid.Bool().Draw(t, "corrupt") && len(raw) > 4 {
				raw = append(raw, rapid.SliceOfN(rapid.Byte(), 0, 40).Draw(t, "tail")...)
				raw[rapid.IntRange(0, len(raw)-1).Draw(t, "pos")] = rapid.Byte().Draw(t, "val")
			}
			p.RTCP = raw
			c.Pkts = append(c.Pkts, p)
			continue
		}
		p.SSRCKind = rapid.SampledFrom([]int{0, 1, 1, 1, 2, 3, 3, 4}).Draw(t, "ssrc-kind")
		p.PT = rapid.SampledFrom([]uint8{96, 97, 96, 97, 111, 0, 127, 35, 72}).Draw(t, "pt")
		p.Seq = rapid.Uint16().Draw(t, "seq")
		p.TwoByte = rapid.Bool().Draw(t, "two-byte")
		ne := rapid.IntRange(0, 4).Draw(t, "exts")
		for k := 0; k < ne; k++ {
			maxLen := 16
			if p.TwoByte {
				maxLen = 40
			}
			val := rapid.OneOf(
				rapid.SliceOfN(rapid.Byte(), 1, maxLen),
				rapid.SliceOfN(rapid.SampledFrom([]byte("0123456789aqhf")), 1, 3),
				// plausible mids / rids: the m-section ids pion hands out and common simulcast rids
				rapid.SampledFrom([][]byte{[]byte("0"), []byte("1"), []byte("2"), []byte("3"), []byte("a"), []byte("q"), []byte("h"), []byte("f")}),
				rapid.SampledFrom([][]byte{[]byte("0"), []byte("1"), []byte("2"), []byte("3")}),
			).Draw(t, "val")
			p.Exts = append(p.Exts, struct {
				ID  uint8  `json:"id"`
				Val []byte `json:"val"`
			}{ID: rapid.SampledFrom([]uint8{1, 2, 3, 4, 5, 14}).Draw(t, "id"), Val: val})
		}
		if rapid.IntRange(0, 2).Draw(t, "targeted") == 0 {
			// an undeclared SSRC that names an existing m-section by mid and carries a rid / repaired rid
			p.SSRCKind = 1
			p.Exts = p.Exts[:0]
			add := func(id uint8, vals []string) {
				p.Exts = append(p.Exts, struct {
					ID  uint8  `json:"id"`
					Val []byte `json:"val"`
				}{ID: id, Val: []byte(rapid.SampledFrom(vals).Draw(t, "tval"))})
			}
			add(1, []string{"0", "1", "2", "3"})
			if rapid.Bool().Draw(t, "with-rid") {
				add(2, []string{"a", "q", "h", "f", "1"})
			}
			if rapid.IntRange(0, 3).Draw(t, "with-rrid") == 0 {
				add(3, []string{"a", "q", "h", "f", "1"})
			}
		}
		p.Payload = rapid.SliceOfN(rapid.Byte(), 0, 60).Draw(t, "payload")
		if rapid.IntRange(0, 3).Draw(t, "short") == 0 {
			// header-only packets and payloads too short for what the payload type implies (RTX OSN, FEC header)
			p.Payload = p.Payload[:min(len(p.Payload), rapid.IntRange(0, 3).Draw(t, "short-len"))]
		}
		if rapid.IntRange(0, 3).Draw(t, "pad") == 0 {
			p.Padding = uint8(rapid.IntRange(1, 255).Draw(t, "padding"))
		}
		c.Pkts = append(c.Pkts, p)
	}
	return c
}

func vfC30GenLive(v *vfT) vfC30Case {
	t := v.R
	c := vfC30Case{Kind: "live", Semantics: rapid.SampledFrom([]int{int(SDPSemanticsUnifiedPlan), int(SDPSemanticsUnifiedPlan), int(SDPSemanticsPlanB), int(SDPSemanticsUnifiedPlanWithFallback)}).Draw(t, "semantics"), Local: rapid.IntRange(0, 5).Draw(t, "local")}
	n := rapid.IntRange(1, 4).Draw(t, "edits")
	for i := 0; i < n; i++ {
		side := rapid.SampledFrom([]string{"O:", "A:", "A:"}).Draw(t, "side")
		switch rapid.IntRange(0, 3).Draw(t, "edit") {
		case 0:
			c.Lines = append(c.Lines, side+"sub:"+rapid.SampledFrom([]string{
				"VP8/90000=>FANCYCODEC/90000", "VP8/90000=>FANCYCODEC/90000", "/90000=>X/90000", "/90000=>X/90000", "/48000=>X/48000", "/8000=>X/8000", "opus/48000/2=>xopus/48000/2", "rtx/90000=>xrtx/90000", "H264/90000=>H264X/90000", "VP8/90000=>VP8/8000",
				"a=sendrecv=>a=sendonly", "a=sendrecv=>a=recvonly", "a=sendrecv=>a=inactive", "a=recvonly=>a=sendrecv", "UDP/TLS/RTP/SAVPF=>RTP/SAVPF",
				"a=setup:actpass=>a=setup:passive", "a=setup:active=>a=setup:passive", "a=mid:0=>a=mid:zero", "a=mid:1=>a=mid:one", "BUNDLE 0 1=>BUNDLE 0", " 96 = > 196 ",
				"m=video 9=>m=video 0", "m=audio 9=>m=audio 0", "m=application 9=>m=application 0", "a=sctp-port:5000=>a=sctp-port:0", "apt=96=>apt=97", "apt=96=>apt=",
			}).Draw(t, "sub"))
		case 1:
			c.Lines = append(c.Lines, side+"drop:"+rapid.SampledFrom([]string{"a=ssrc", "a=msid", "a=rtcp-fb", "a=fmtp", "a=extmap", "a=rtpmap:97", "a=rtpmap:96", "a=rtpmap", "a=rid", "a=group", "a=rtcp-mux", "a=sctp-port", "a=max-message-size", "a=ssrc-group", "a=sendrecv", "a=recvonly", "a=msid-semantic"}).Draw(t, "drop"))
		default:
			after := rapid.SampledFrom([]string{"m=video", "m=audio", "m=application", "a=mid:0", "a=mid:1", "t=0 0"}).Draw(t, "after")
			c.Lines = append(c.Lines, side+"ins:"+after+"|"+rapid.SampledFrom(vfC30Hostile).Draw(t, "hostile"))
		}
	}
	return c
}

var vfC30Opts = vfOpts{
	Rule:        "hostile remote inputs executed in a worker subprocess: (sdp) line-level mutations (delete, duplicate, swap, truncate, hostile numbers, hostile attribute lines, drop-all-of-a-kind, unsupported codecs, oversize) of pion-generated and browser-style offers/answers under unified / plan-b / fallback semantics, applied as remote offer (then CreateAnswer + SetLocalDescription + queue drain) or as remote answer; (cand) mutated (and valid) candidate strings into AddICECandidate, also after the connection was closed; (rtp) hostile RTP/RTCP written through the sender's SRTP session to a connected peer; (live) a pair that really connects while its offer/answer text is edited in flight (codec renames, dropped attribute families, hostile lines), so the work queued behind ICE/DTLS start runs on a live connection; every case counts as non-trivial when it contains at least one mutation",
	Assumptions: []string{"crash = death of the worker process while the case is in flight (covers panics in background goroutines)", "a hang is reported only with the worker's dump of blocked pion goroutines"},
}

func TestVerif_C30_SDP(t *testing.T) {
	defer vfC30Shutdown()
	vfProperty(t, "C30", vfC30Opts, func(v *vfT) vfC30Case { c := vfC30GenSDP(v); v.NonTrivial(); return c }, vfC30Run)
}

func TestVerif_C30_Cand(t *testing.T) {
	defer vfC30Shutdown()
	defer vfScaleChecks(1, 2)()
	vfProperty(t, "C30", vfC30Opts, func(v *vfT) vfC30Case { c := vfC30GenCand(v); v.NonTrivial(); return c }, vfC30Run)
}

func TestVerif_C30_RTP(t *testing.T) {
	defer vfC30Shutdown()
	defer vfScaleChecks(1, 6)()
	vfProperty(t, "C30", vfC30Opts, func(v *vfT) vfC30Case { c := vfC30GenRTP(v); v.NonTrivial(); return c }, vfC30Run)
}

func TestVerif_C30_Live(t *testing.T) {
	defer vfC30Shutdown()
	defer vfScaleChecks(1, 6)()
	vfProperty(t, "C30", vfC30Opts, func(v *vfT) vfC30Case { c := vfC30GenLive(v); v.NonTrivial(); return c }, vfC30Run)
}

func vfC30Shutdown() {
	vfC30Mu.Lock()
	defer vfC30Mu.Unlock()
	if vfC30Proc != nil {
		vfC30Proc.kill()
		vfC30Proc = nil
	}
}

var _ = bytes.Equal
