package webrtc

// C01 — signaling state follows the JSEP transition table, with matching descriptions.
//
// Domain: histories over a pair of PeerConnections (famA_hist_test.go): CreateOffer,
// CreateAnswer, SetLocalDescription / SetRemoteDescription with a type drawn independently
// of the state (offer, pranswer, answer, rollback) and a text that pion created itself (last
// created, stale, "" per JSEP 5.4, the peer's, its own) or a foreign browser-style offer.
//
// Oracle (reference machine vfFamAEdge + W3C bookkeeping vfFamAView.apply), after every
// Set*Description call:
//   - err == nil  =>  (state before, side, type) is an edge, SignalingState() is its target,
//     and the four Pending/Current getters equal the model.  One-directional, as the
//     statement says: a refused edge is never a violation.
//   - always: LocalDescription() == pending ?: current (same for remote); stable => both
//     pending descriptions nil.
//   - err != nil: the model is resynchronised from the observed state; whether a refused
//     call changed anything is C03's question (DESIGN.md 4.0 "one defect, one owner").
// OnSignalingStateChange is not mentioned by the statement: deliveries are only counted.

import (
	"fmt"
	"testing"
)

func vfC01SideName(local bool) string {
	if local {
		return "setLocal"
	}
	return "setRemote"
}

func vfC01Run(v *vfT, c vfFamACase) {
	w := vfFamANewWorld(v, c)
	defer w.Close()

	model := [2]vfFamAView{{State: SignalingStateStable}, {State: SignalingStateStable}}
	var successes [2]int64
	var completions [2]int
	completed, rejected, rejectedIllegal := 0, 0, 0

	for i, op := range c.Ops {
		if op.K != vfFamAKSetLocal && op.K != vfFamAKSetRemote {
			w.DoAux(op)
			continue
		}
		call, ok := w.Resolve(op)
		if !ok {
			v.Label("set-op-skipped:no-text-of-that-kind-yet")
			continue
		}
		x := op.X & 1
		p := w.p[x]
		before := model[x]
		if call.Typ == SDPTypeRollback {
			v.Label("rollback-attempted")
		}
		err := call.Invoke()
		obs := vfFamAObserve(p.pc)
		where := fmt.Sprintf("op %d: %s.%s(%s, text=%s) from %s", i, p.name, call.Side(), call.Typ, call.Source, before.State)

		if err != nil {
			rejected++
			if _, isEdge := vfFamAEdge(before.State, call.Local, call.Typ); !isEdge {
				rejectedIllegal++
			}
			if !vfFamAViewEq(before, obs) {
				v.Label("rejected-call-changed-state(C03's)")
			}
			model[x] = obs // resynchronise
		} else {
			successes[x]++
			target, isEdge := vfFamAEdge(before.State, call.Local, call.Typ)
			if !isEdge {
				v.Violation(fmt.Sprintf("C01/accepted-non-edge/%s/%s/%s", before.State, call.Side(), call.Typ),
					"%s was accepted, but (%s, %s, %s) is not an edge of the JSEP/W3C signaling state machine; now %s",
					where, before.State, call.Side(), call.Typ, obs)
			}
			if obs.State != target {
				v.Violation(fmt.Sprintf("C01/wrong-target/%s/%s/%s", before.State, call.Side(), call.Typ),
					"%s was accepted; the edge leads to %s but SignalingState() is %s", where, target, obs.State)
			}
			m := before
			m.apply(call.Local, vfFamADesc{T: call.Typ, SDP: call.Effect}, target)
			for _, f := range []struct {
				name      string
				got, want *vfFamADesc
			}{{"pending-local", obs.PL, m.PL}, {"current-local", obs.CL, m.CL}, {"pending-remote", obs.PR, m.PR}, {"current-remote", obs.CR, m.CR}} {
				if !vfFamADescEq(f.got, f.want) {
					v.Violation(fmt.Sprintf("C01/bookkeeping/%s/%s/%s", f.name, call.Side(), call.Typ),
						"%s was accepted; %s description is %s, the W3C bookkeeping gives %s (model: %s; observed: %s)",
						where, f.name, f.got, f.want, m, obs)
				}
			}
			model[x] = m
			switch {
			case call.Typ == SDPTypeAnswer:
				completed++
				completions[x]++
				if completions[x] == 2 {
					v.Label("second-exchange")
				}
				if x == 1 && !call.Local || x == 0 && call.Local {
					v.Label("b-initiated-exchange-completed")
				}
				if before.State == SignalingStateHaveLocalPranswer || before.State == SignalingStateHaveRemotePranswer {
					v.Label("completed-via-pranswer")
				}
			case call.Typ == SDPTypePranswer:
				v.Label("pranswer-accepted")
			case call.Typ == SDPTypeRollback:
				v.Label("rollback-accepted")
			}
			if call.Source == "foreign" {
				v.Label("foreign-offer-accepted")
			}
			if call.Source == "empty" && call.Typ != SDPTypeRollback {
				v.Label("empty-sdp-accepted(JSEP-5.4)")
			}
		}

		// clauses that hold in every state, whatever the last call returned
		ld, rd := vfFamAMkDesc(p.pc.LocalDescription()), vfFamAMkDesc(p.pc.RemoteDescription())
		wantL, wantR := obs.PL, obs.PR
		if wantL == nil {
			wantL = obs.CL
		}
		if wantR == nil {
			wantR = obs.CR
		}
		if !vfFamADescEq(ld, wantL) {
			v.Violation("C01/local-description-getter", "after %s: LocalDescription() is %s but pending ?: current is %s (%s)", where, ld, wantL, obs)
		}
		if !vfFamADescEq(rd, wantR) {
			v.Violation("C01/remote-description-getter", "after %s: RemoteDescription() is %s but pending ?: current is %s (%s)", where, rd, wantR, obs)
		}
		if obs.State == SignalingStateStable && (obs.PL != nil || obs.PR != nil) {
			v.Violation("C01/pending-in-stable", "after %s (err=%v): state is stable but a pending description exists: %s", where, err, obs)
		}
	}

	if completed > 0 && rejected > 0 {
		v.NonTrivial()
	}
	if completed > 0 {
		v.Label("has-completed-exchange")
	}
	if rejectedIllegal > 0 {
		v.Label("has-rejected-illegal-triple")
	}
	if rejected > rejectedIllegal {
		v.Label("has-rejected-legal-triple(text-or-pion-stricter)")
	}
	// deliveries of OnSignalingStateChange: counted, not asserted (not part of the statement)
	for x, p := range w.p {
		if got := vfFamASettle(p, successes[x], 0); got != successes[x] {
			v.Label("events!=accepted-calls")
		}
	}
}

func TestVerif_C01_Histories(t *testing.T) {
	maxLen := 20
	if vfTier() == "thorough" {
		maxLen = 30
	}
	vfProperty(t, "C01", vfOpts{
		Rule: "history over a pair of PeerConnections (1..20 ops quick, ..30 thorough) with set-call types drawn independently of the state; non-trivial = at least one offer/answer exchange completed AND at least one Set*Description call was rejected",
		Assumptions: []string{
			"every applied description was created by pion (either peer, possibly stale or the peer's) or is one of three rendered browser-style foreign offers; the type always matches the kind of text (answer texts are applied as answer or pranswer)",
			"reference = JSEP (RFC 8829) / W3C 4.4.1.5 state machine; rollback is treated as an edge from every non-stable state through either call (RFC 8829 5.7), which can only make the check more lenient",
			"one-directional: a call pion refuses is never a violation; after a refused call the model is resynchronised from the observed state (C03 owns 'a refused call changes nothing')",
			"descriptions are compared as (type, SDP with a=candidate / a=end-of-candidates lines removed)",
			"connections gather no candidates (all interfaces filtered), so no transport ever starts",
		},
	}, func(v *vfT) vfFamACase {
		return vfFamAGen(v.R, vfFamAGenOpts{MaxLen: maxLen})
	}, vfC01Run)
}
