package webrtc

// C02 — rollback cancels an in-progress offer/answer exchange.
//
// Domain: (a) exhaustive base: every signaling state {stable, have-local-offer,
// have-remote-offer, have-local-pranswer, have-remote-pranswer} reached by a scripted prefix
// on a pair of PeerConnections x rollback through {SetLocalDescription, SetRemoteDescription}
// x rollback text {"", the pending SDP, another valid SDP} x {first exchange, renegotiation}
// = 60 cases, each followed (where the statement demands success) by a plain exchange;
// (b) random histories of the family generator with extra rollbacks.
//
// Oracle, for every rollback call, judged on the OBSERVED state before the call:
//   - from stable the call is rejected;
//   - SetLocal from have-local-offer / have-local-pranswer and SetRemote from
//     have-remote-offer / have-remote-pranswer succeed;
//   - any rollback that succeeds (also the cross-side ones the statement does not demand)
//     leaves state stable, both pending descriptions nil and the current descriptions as
//     they were observed in the last stable state;
//   - base cases only: after a demanded rollback succeeded, the plain offer/answer exchange
//     that follows is accepted step by step and ends in stable on both sides ("returns the
//     connection to stable" read as: usable like stable; guards against a repair that
//     wedges the connection).

import (
	"fmt"
	"testing"
)

type vfC02Case struct {
	Fam vfFamACase `json:"fam"`
	// FollowFrom > 0 (scripted base cases): ops[FollowFrom:] are the follow-up (peer rollback
	// where needed + a plain A->B exchange) whose calls must all be accepted.
	FollowFrom int    `json:"follow_from,omitempty"`
	Name       string `json:"name,omitempty"`
}

func vfC02TextKind(call *vfFamACall) string {
	if call.Desc.SDP == "" {
		return "empty-sdp"
	}
	return "with-sdp"
}

func vfC02Run(v *vfT, c vfC02Case) {
	w := vfFamANewWorld(v, c.Fam)
	defer w.Close()
	v.Logf("C02 case %s (%d ops)", c.Name, len(c.Fam.Ops))

	lastStable := [2]vfFamAView{vfFamAObserve(w.p[0].pc), vfFamAObserve(w.p[1].pc)}
	primaryOK := false // scripted cases: the rollback under test is one the statement demands, and it was accepted
	for i, op := range c.Fam.Ops {
		if op.K != vfFamAKSetLocal && op.K != vfFamAKSetRemote {
			w.DoAux(op)
			continue
		}
		call, ok := w.Resolve(op)
		if !ok {
			continue
		}
		x := op.X & 1
		p := w.p[x]
		before := vfFamAObserve(p.pc)
		if before.State == SignalingStateStable {
			lastStable[x] = before
		}
		err := call.Invoke()
		after := vfFamAObserve(p.pc)
		where := fmt.Sprintf("op %d: %s.%s(%s, sdp=%s) from %s", i, p.name, call.Side(), call.Typ, call.Source, before.State)
		follow := c.FollowFrom > 0 && i >= c.FollowFrom

		if call.Typ != SDPTypeRollback {
			if follow && primaryOK && err != nil {
				v.Violation(fmt.Sprintf("C02/exchange-after-rollback-failed/%s/%s", call.Side(), call.Typ),
					"%s: after a successful rollback the plain follow-up exchange was refused: %v (state now %s)", where, err, after.State)
			}
			continue
		}

		demanded := vfFamAMustRollback(before.State, call.Local)
		switch {
		case before.State == SignalingStateStable:
			v.Label("rollback-from-stable")
			if err == nil {
				v.Violation("C02/rollback-from-stable-accepted/"+call.Side(), "%s was accepted; rollback from stable must be rejected (now %s)", where, after)
			}
			continue
		case demanded:
			v.NonTrivial()
			v.Label(fmt.Sprintf("demanded:%s/%s/%s", call.Side(), before.State, call.Source))
			if err != nil {
				v.Violation(fmt.Sprintf("C02/rollback-rejected/%s/%s", call.Side(), vfC02TextKind(call)),
					"%s was rejected: %v  (the statement demands success from this state; state now %s)", where, err, after.State)
			}
			if i == c.FollowFrom-1 {
				primaryOK = true
			}
		default:
			if err != nil {
				v.Label("cross-side-rollback:rejected(not-demanded)")
				continue
			}
			v.Label("cross-side-rollback:accepted")
		}
		// a rollback succeeded: postconditions of the statement
		if after.State != SignalingStateStable {
			v.Violation("C02/rollback-not-stable/"+call.Side(), "%s was accepted but the state is %s, not stable", where, after.State)
		}
		if after.PL != nil || after.PR != nil {
			v.Violation("C02/pending-not-discarded/"+call.Side(), "%s was accepted but a pending description survives: %s", where, after)
		}
		if !vfFamADescEq(after.CL, lastStable[x].CL) || !vfFamADescEq(after.CR, lastStable[x].CR) {
			v.Violation("C02/current-changed/"+call.Side(), "%s was accepted; current descriptions are local=%s remote=%s, in the last stable state they were local=%s remote=%s",
				where, after.CL, after.CR, lastStable[x].CL, lastStable[x].CR)
		}
		v.Label("rollback-succeeded")
	}
	if c.FollowFrom > 0 && primaryOK {
		for _, p := range w.p {
			if st := p.pc.SignalingState(); st != SignalingStateStable {
				v.Violation("C02/exchange-after-rollback-failed/final-state", "%s: after the follow-up exchange %s is in %s, not stable", c.Name, p.name, st)
			}
		}
		v.Label("followup-exchange-completed")
	}
}

// vfC02Base builds the 60 scripted cases.
func vfC02Base() []vfC02Case {
	A, B := 0, 1
	off := func(x int) vfFamAOp { return vfFamAOp{K: vfFamAKOffer, X: x} }
	ans := func(x int) vfFamAOp { return vfFamAOp{K: vfFamAKAnswer, X: x} }
	sl := func(x, t int) vfFamAOp { return vfFamAOp{K: vfFamAKSetLocal, X: x, T: t} }
	sr := func(x, t int) vfFamAOp { return vfFamAOp{K: vfFamAKSetRemote, X: x, T: t} }
	exchange := []vfFamAOp{off(A), sl(A, vfFamATOffer), sr(B, vfFamATOffer), ans(B), sl(B, vfFamATAnswer), sr(A, vfFamATAnswer)}
	type target struct {
		name   string
		prefix []vfFamAOp
		on     int        // connection that is in the named state
		peerRB []vfFamAOp // what brings the peer back to stable afterwards
	}
	targets := []target{
		{"stable", nil, A, nil},
		{"have-local-offer", []vfFamAOp{off(A), sl(A, vfFamATOffer)}, A, nil},
		{"have-remote-offer", []vfFamAOp{off(A), sl(A, vfFamATOffer), sr(B, vfFamATOffer)}, B, []vfFamAOp{sl(A, vfFamATRollback)}},
		{"have-local-pranswer", []vfFamAOp{off(A), sl(A, vfFamATOffer), sr(B, vfFamATOffer), ans(B), sl(B, vfFamATPranswer)}, B, []vfFamAOp{sl(A, vfFamATRollback)}},
		{"have-remote-pranswer", []vfFamAOp{off(A), sl(A, vfFamATOffer), sr(B, vfFamATOffer), ans(B), sl(B, vfFamATPranswer), sr(A, vfFamATPranswer)}, A, []vfFamAOp{sl(B, vfFamATRollback)}},
	}
	var cases []vfC02Case
	for _, reneg := range []bool{false, true} {
		for _, tg := range targets {
			for _, local := range []bool{true, false} {
				for text := 0; text < 3; text++ {
					c := vfC02Case{Fam: vfFamACase{InitA: 3, InitB: 0}}
					if reneg {
						c.Fam.Ops = append(c.Fam.Ops, exchange...)
						c.Fam.Ops = append(c.Fam.Ops, vfFamAOp{K: vfFamAKAddTr, X: A, Src: 1})
					}
					c.Fam.Ops = append(c.Fam.Ops, tg.prefix...)
					rb := vfFamAOp{K: vfFamAKSetRemote, X: tg.on, T: vfFamATRollback, Src: text}
					side := "setRemote"
					if local {
						rb.K = vfFamAKSetLocal
						side = "setLocal"
					}
					c.Fam.Ops = append(c.Fam.Ops, rb)
					c.FollowFrom = len(c.Fam.Ops)
					c.Fam.Ops = append(c.Fam.Ops, tg.peerRB...)
					c.Fam.Ops = append(c.Fam.Ops, exchange...)
					c.Name = fmt.Sprintf("%s/%s/text%d/reneg=%v", tg.name, side, text, reneg)
					cases = append(cases, c)
				}
			}
		}
	}
	return cases
}

var vfC02Assumptions = []string{
	"states are reached with pion-created descriptions on a pair of PeerConnections; the rollback description carries \"\", the pending SDP, or another valid SDP",
	"the verdict for each rollback uses the state observed through SignalingState() just before the call",
	"cross-side rollbacks (SetRemote from have-local-*, SetLocal from have-remote-*) are not demanded; if accepted, the postconditions of a successful rollback apply",
	"descriptions are compared as (type, SDP with a=candidate / a=end-of-candidates lines removed)",
}

func TestVerif_C02_Base(t *testing.T) {
	vfEnumerate(t, "C02", vfOpts{
		Rule:        "exhaustive base: 5 states x 2 calls x 3 rollback texts x {first exchange, renegotiation} = 60 scripted histories; non-trivial = the history contains a rollback the statement says must succeed",
		Assumptions: vfC02Assumptions,
	}, vfC02Base(), true, vfC02Run)
}

func TestVerif_C02_Histories(t *testing.T) {
	vfProperty(t, "C02", vfOpts{
		Rule:        "random histories (1..20 ops) of the family generator with ~15% rollback steps aimed at the predicted state; non-trivial = contains a rollback the statement says must succeed",
		Assumptions: vfC02Assumptions,
	}, func(v *vfT) vfC02Case {
		return vfC02Case{Fam: vfFamAGen(v.R, vfFamAGenOpts{MaxLen: 20, Rollback: 15})}
	}, vfC02Run)
}
