package webrtc

// C39 — SetConfiguration never changes immutable settings.
//
// Model-based sequences. A case is an initial Configuration and 1..6 operations
// (SetConfiguration with every field independently unchanged / zero / changed,
// "create a local description" (stays pending), "complete an offer/answer exchange with a
// throw-away peer" in either role (local description becomes current), Close). Before every SetConfiguration the harness takes a
// snapshot of GetConfiguration (certificates by their DER bytes) and evaluates an independent
// reference predicate "the argument tries to change an immutable setting":
//   peer identity / bundle policy / RTCP mux policy: non-zero and different from the snapshot;
//   certificates: non-empty and a different list (a pure reordering is counted as ambiguous);
//   candidate pool size: non-zero, different, and a local description exists.
// Oracle (per SetConfiguration call):
//   touches an immutable  => error; before Close it unwraps to rtcerr.InvalidModificationError
//                            (or, when the argument also carries an invalid ICE server, any error);
//   invalid ICE server    => error;
//   any error             => GetConfiguration equals the snapshot exactly;
//   success               => the immutable settings equal the snapshot.
// ICE-server validity is decided by a hand-labelled table, not by pion's validate().

import (
	"crypto"
	"crypto/ecdsa"
	"crypto/elliptic"
	"crypto/rand"
	"crypto/rsa"
	"crypto/x509"
	"crypto/x509/pkix"
	"errors"
	"fmt"
	"math/big"
	"reflect"
	"sort"
	"sync"
	"testing"
	"time"

	"github.com/pion/ice/v4"
	"github.com/pion/logging"
	"github.com/pion/transport/v4/vnet"
	"github.com/pion/webrtc/v4/pkg/rtcerr"
	"pgregory.net/rapid"
)

type vfC39Cfg struct {
	Bundle   int    `json:"bundle"`   // BundlePolicy value 0..3 (0 = unset)
	Mux      int    `json:"mux"`      // RTCPMuxPolicy value 0..2 (0 = unset)
	Identity string `json:"identity"` // "" = unset
	Certs    []int  `json:"certs"`    // indices into the certificate pool: key*3 + variant (0 certificate, 1 the same re-imported from PEM, 2 another certificate for the same key); keys 0..3 ECDSA, 4 RSA
	Pool     int    `json:"pool"`
	Policy   int    `json:"policy"`  // ICETransportPolicy 0..2
	Servers  []int  `json:"servers"` // indices into vfC39Servers
	// Gen: structured ICE server entries (SetConfiguration arguments only), appended after Servers
	Gen []vfC39GenServer `json:"gen,omitempty"`
	AlwaysDC bool   `json:"always_dc"`
}

// vfC39GenServer is one ICE server entry with 1..3 URLs in a drawn order.
type vfC39GenServer struct {
	Schemes []int `json:"schemes"` // per URL: 0 stun, 1 stuns, 2 turn, 3 turns
	NoUser  bool  `json:"no_user,omitempty"`
	Cred    int   `json:"cred"`  // 0 string, 1 OAuthCredential, 2 int, 3 nil
	CType   int   `json:"ctype"` // 0 password, 1 oauth, 2 an undeclared ICECredentialType value
}

func (g vfC39GenServer) build() ICEServer {
	var srv ICEServer
	for i, sc := range g.Schemes {
		srv.URLs = append(srv.URLs, fmt.Sprintf("%s:192.0.2.%d:%d", []string{"stun", "stuns", "turn", "turns"}[vfC39Mod(sc, 4)], 40+i, 3478+i))
	}
	if !g.NoUser {
		srv.Username = "user"
	}
	switch vfC39Mod(g.Cred, 4) {
	case 0:
		srv.Credential = "secret"
	case 1:
		srv.Credential = OAuthCredential{MACKey: "k", AccessToken: "t"}
	case 2:
		srv.Credential = 123
	}
	srv.CredentialType = []ICECredentialType{ICECredentialTypePassword, ICECredentialTypeOauth, ICECredentialType(7)}[vfC39Mod(g.CType, 3)]
	return srv
}

// valid: the documented rule (W3C set-the-configuration 11.3.x): every turn:/turns: URL of the
// entry needs a username and a credential whose Go type fits the declared credential type;
// stun:/stuns: URLs need nothing.
func (g vfC39GenServer) valid() bool {
	hasTURN := false
	for _, sc := range g.Schemes {
		hasTURN = hasTURN || vfC39Mod(sc, 4) >= 2
	}
	if !hasTURN {
		return true
	}
	if g.NoUser {
		return false
	}
	switch vfC39Mod(g.CType, 3) {
	case 0:
		return vfC39Mod(g.Cred, 4) == 0
	case 1:
		return vfC39Mod(g.Cred, 4) == 1
	}
	return false
}

type vfC39Step struct {
	Op  string   `json:"op"` // set | local | exchange | close
	Cfg vfC39Cfg `json:"cfg"`
	// exchange: complete an offer/answer exchange with a throw-away peer on the same vnet, so
	// the local description becomes CURRENT (signaling state stable). Answerer selects our
	// role when no exchange is in flight; a pending local offer is always completed as offerer.
	Answerer bool `json:"answerer,omitempty"`
}

type vfC39Case struct {
	Init  vfC39Cfg    `json:"init"`
	Steps []vfC39Step `json:"steps"`
}

type vfC39Server struct {
	S     ICEServer
	Valid bool
}

// Validity labelled by hand from W3C webrtc-pc "set the configuration" steps 11.3.x and
// RFC 7064/7065 (scheme must be stun/stuns/turn/turns; turn(s) needs a username and a
// credential whose Go type fits the credential type).
var vfC39Servers = []vfC39Server{
	{ICEServer{URLs: []string{"stun:192.0.2.1:3478"}}, true},
	{ICEServer{URLs: []string{"stun:192.0.2.2"}, Username: "unused"}, true},
	{ICEServer{URLs: []string{"turn:192.0.2.3:3478"}, Username: "u", Credential: "p"}, true},
	{ICEServer{URLs: []string{"turns:192.0.2.4:5349?transport=tcp"}, Username: "u", Credential: OAuthCredential{MACKey: "k", AccessToken: "t"}, CredentialType: ICECredentialTypeOauth}, true},
	{ICEServer{URLs: []string{}}, true},
	{ICEServer{URLs: []string{"stun:192.0.2.5", "turn:192.0.2.5?transport=udp"}, Username: "a", Credential: "b"}, true},
	{ICEServer{URLs: []string{"turn:192.0.2.6"}}, false},                                                                      // no credentials
	{ICEServer{URLs: []string{"turn:192.0.2.6"}, Username: "u"}, false},                                                       // nil credential
	{ICEServer{URLs: []string{"turn:192.0.2.6"}, Username: "u", Credential: 123}, false},                                      // password must be a string
	{ICEServer{URLs: []string{"http://192.0.2.7"}}, false},                                                                    // scheme
	{ICEServer{URLs: []string{"stun:192.0.2.1", "turn:192.0.2.9"}}, false},                                                    // second URL lacks credentials
	{ICEServer{URLs: []string{"turn:192.0.2.6"}, Username: "u", Credential: "p", CredentialType: ICECredentialTypeOauth}, false}, // oauth needs OAuthCredential
	{ICEServer{URLs: []string{""}}, false},
	{ICEServer{URLs: []string{"turns:192.0.2.8"}, Credential: "p"}, false}, // no username
}

const vfC39NValid = 6

const vfC39NKeys = 5 // certificate pool: 4 ECDSA keys + 1 RSA key, 3 certificates each

var (
	vfC39Once  sync.Once
	vfC39API   *API
	vfC39Certs []Certificate // index = key*3 + variant, see vfC39Setup
	vfC39Err   error
)

func vfC39Setup() error {
	vfC39Once.Do(func() {
		nw, err := vnet.NewNet(&vnet.NetConfig{})
		if err != nil {
			vfC39Err = err
			return
		}
		se := SettingEngine{}
		se.SetNet(nw) // virtual network without a router: gathering never touches a real socket
		se.SetICEMulticastDNSMode(ice.MulticastDNSModeDisabled)
		lf := logging.NewDefaultLoggerFactory()
		lf.DefaultLogLevel = logging.LogLevelDisabled
		se.LoggerFactory = lf
		vfC39API = NewAPI(WithSettingEngine(se))
		// pool index = key*3 + variant; keys 0..3 ECDSA P-256, key 4 RSA-2048;
		// variant 0 = a certificate for the key, 1 = the same certificate re-imported from PEM,
		// 2 = a DIFFERENT certificate issued for the same key (other serial, names, validity)
		for k := 0; k < vfC39NKeys; k++ {
			var sk crypto.PrivateKey
			var err error
			if k < 4 {
				sk, err = ecdsa.GenerateKey(elliptic.P256(), rand.Reader)
			} else {
				sk, err = rsa.GenerateKey(rand.Reader, 2048)
			}
			if err != nil {
				vfC39Err = err
				return
			}
			issue := func(gen int) (*Certificate, error) {
				return NewCertificate(sk, x509.Certificate{
					SerialNumber: big.NewInt(int64(1000 + 10*k + gen)),
					Subject:      pkix.Name{CommonName: fmt.Sprintf("vfC39-key%d-issue%d", k, gen)},
					NotBefore:    time.Now().Add(-time.Hour * time.Duration(1+gen)),
					NotAfter:     time.Now().Add(24 * time.Hour * time.Duration(1+gen)),
				})
			}
			orig, err := issue(0)
			if err != nil {
				vfC39Err = err
				return
			}
			p, err := orig.PEM()
			if err != nil {
				vfC39Err = err
				return
			}
			clone, err := CertificateFromPEM(p)
			if err != nil {
				vfC39Err = err
				return
			}
			reissued, err := issue(1)
			if err != nil {
				vfC39Err = err
				return
			}
			vfC39Certs = append(vfC39Certs, *orig, *clone, *reissued)
		}
	})
	return vfC39Err
}

func vfC39Mod(i, n int) int { return ((i % n) + n) % n }

func (c vfC39Cfg) build(validOnly bool) Configuration {
	cfg := Configuration{
		BundlePolicy:                BundlePolicy(vfC39Mod(c.Bundle, 4)),
		RTCPMuxPolicy:               RTCPMuxPolicy(vfC39Mod(c.Mux, 3)),
		PeerIdentity:                c.Identity,
		ICECandidatePoolSize:        uint8(vfC39Mod(c.Pool, 256)),
		ICETransportPolicy:          ICETransportPolicy(vfC39Mod(c.Policy, 3)),
		AlwaysNegotiateDataChannels: c.AlwaysDC,
	}
	for _, i := range c.Certs {
		cfg.Certificates = append(cfg.Certificates, vfC39Certs[vfC39Mod(i, len(vfC39Certs))])
	}
	for _, i := range c.Servers {
		if validOnly {
			cfg.ICEServers = append(cfg.ICEServers, vfC39Servers[vfC39Mod(i, vfC39NValid)].S)
		} else {
			cfg.ICEServers = append(cfg.ICEServers, vfC39Servers[vfC39Mod(i, len(vfC39Servers))].S)
		}
	}
	if !validOnly {
		for _, g := range c.Gen {
			cfg.ICEServers = append(cfg.ICEServers, g.build())
		}
	}
	return cfg
}

func (c vfC39Cfg) serversValid() bool {
	for _, g := range c.Gen {
		if !g.valid() {
			return false
		}
	}
	for _, i := range c.Servers {
		if !vfC39Servers[vfC39Mod(i, len(vfC39Servers))].Valid {
			return false
		}
	}
	return true
}

type vfC39Snap struct {
	Bundle   BundlePolicy
	Mux      RTCPMuxPolicy
	Identity string
	Certs    []string // DER bytes
	Pool     uint8
	Policy   ICETransportPolicy
	Sem      SDPSemantics
	AlwaysDC bool
	Servers  []ICEServer
}

func vfC39Raw(c Certificate) string {
	if c.x509Cert == nil {
		return ""
	}
	return string(c.x509Cert.Raw)
}

func vfC39Take(pc *PeerConnection) vfC39Snap {
	g := pc.GetConfiguration()
	s := vfC39Snap{Bundle: g.BundlePolicy, Mux: g.RTCPMuxPolicy, Identity: g.PeerIdentity, Pool: g.ICECandidatePoolSize,
		Policy: g.ICETransportPolicy, Sem: g.SDPSemantics, AlwaysDC: g.AlwaysNegotiateDataChannels}
	for _, c := range g.Certificates {
		s.Certs = append(s.Certs, vfC39Raw(c))
	}
	// deep copy so a later in-place edit of the slice cannot hide a change
	for _, srv := range g.ICEServers {
		cp := srv
		cp.URLs = append([]string(nil), srv.URLs...)
		s.Servers = append(s.Servers, cp)
	}
	return s
}

func vfC39SameStrings(a, b []string) bool {
	if len(a) != len(b) {
		return false
	}
	for i := range a {
		if a[i] != b[i] {
			return false
		}
	}
	return true
}

func vfC39SameSet(a, b []string) bool {
	x := append([]string(nil), a...)
	y := append([]string(nil), b...)
	sort.Strings(x)
	sort.Strings(y)
	return vfC39SameStrings(x, y)
}

func vfC39ServersEqual(a, b []ICEServer) bool {
	if len(a) != len(b) {
		return false
	}
	for i := range a {
		if !vfC39SameStrings(a[i].URLs, b[i].URLs) || a[i].Username != b[i].Username ||
			!reflect.DeepEqual(a[i].Credential, b[i].Credential) || a[i].CredentialType != b[i].CredentialType {
			return false
		}
	}
	return true
}

func (s vfC39Snap) String() string {
	certs := []string{}
	for _, c := range s.Certs {
		h := 0
		for i := 0; i < len(c); i++ {
			h = (h*131 + int(c[i])) & 0xffffff
		}
		certs = append(certs, fmt.Sprintf("cert#%06x", h))
	}
	return fmt.Sprintf("{bundle=%s mux=%s identity=%q certs=%v pool=%d policy=%s semantics=%s alwaysDC=%v servers=%+v}",
		s.Bundle, s.Mux, s.Identity, certs, s.Pool, s.Policy, s.Sem, s.AlwaysDC, s.Servers)
}

func vfC39ArgString(c Configuration) string {
	cp := c
	cp.Certificates = nil
	return fmt.Sprintf("%+v with %d certificates", cp, len(c.Certificates))
}

// diff returns the name of the first field that differs ("" if none).
func (s vfC39Snap) diff(o vfC39Snap, certsAsSet bool) string {
	switch {
	case s.Bundle != o.Bundle:
		return "BundlePolicy"
	case s.Mux != o.Mux:
		return "RTCPMuxPolicy"
	case s.Identity != o.Identity:
		return "PeerIdentity"
	case certsAsSet && !vfC39SameSet(s.Certs, o.Certs), !certsAsSet && !vfC39SameStrings(s.Certs, o.Certs):
		return "Certificates"
	case s.Pool != o.Pool:
		return "ICECandidatePoolSize"
	case s.Policy != o.Policy:
		return "ICETransportPolicy"
	case s.Sem != o.Sem:
		return "SDPSemantics"
	case s.AlwaysDC != o.AlwaysDC:
		return "AlwaysNegotiateDataChannels"
	case !vfC39ServersEqual(s.Servers, o.Servers):
		return "ICEServers"
	}
	return ""
}

// vfC39Touches is the reference predicate: "yes", "no" or "ambiguous" plus the field.
func vfC39Touches(arg Configuration, cur vfC39Snap, hasLocal bool) (string, string) {
	if arg.PeerIdentity != "" && arg.PeerIdentity != cur.Identity {
		return "yes", "PeerIdentity"
	}
	if arg.BundlePolicy != BundlePolicyUnknown && arg.BundlePolicy != cur.Bundle {
		return "yes", "BundlePolicy"
	}
	if arg.RTCPMuxPolicy != RTCPMuxPolicyUnknown && arg.RTCPMuxPolicy != cur.Mux {
		return "yes", "RTCPMuxPolicy"
	}
	if hasLocal && arg.ICECandidatePoolSize != 0 && arg.ICECandidatePoolSize != cur.Pool {
		return "yes", "ICECandidatePoolSize"
	}
	if len(arg.Certificates) > 0 {
		var raws []string
		for _, c := range arg.Certificates {
			raws = append(raws, vfC39Raw(c))
		}
		switch {
		case vfC39SameStrings(raws, cur.Certs):
		case vfC39SameSet(raws, cur.Certs):
			return "ambiguous", "Certificates(reordered)"
		default:
			return "yes", "Certificates"
		}
	}
	return "no", ""
}

func vfC39Run(v *vfT, c vfC39Case) {
	if err := vfC39Setup(); err != nil {
		v.Skip("setup: " + err.Error())
	}
	initCfg := c.Init.build(true)
	if initCfg.ICECandidatePoolSize > 1 {
		initCfg.ICECandidatePoolSize = 1 // larger pools are refused by NewPeerConnection (documented)
	}
	pc, err := vfC39API.NewPeerConnection(initCfg)
	if err != nil {
		v.Skip("NewPeerConnection(initial configuration): " + err.Error())
	}
	defer func() { _ = pc.Close() }()
	closed := false
	sawReject, sawAccept := false, false
	var peers []*PeerConnection
	defer func() {
		for _, p := range peers {
			_ = p.Close()
		}
	}()
	for i, st := range c.Steps {
		switch st.Op {
		case "exchange":
			v.Label("op=exchange")
			if closed || pc.CurrentLocalDescription() != nil {
				continue
			}
			peer, err := vfC39API.NewPeerConnection(Configuration{})
			if err != nil {
				v.Skip("NewPeerConnection(peer): " + err.Error())
			}
			peers = append(peers, peer)
			pending := pc.PendingLocalDescription()
			switch {
			case pending != nil || !st.Answerer:
				// our PeerConnection is the offerer
				if pending == nil {
					if _, err := pc.CreateDataChannel("vfC39", nil); err != nil {
						v.Skip("CreateDataChannel: " + err.Error())
					}
					offer, err := pc.CreateOffer(nil)
					if err != nil {
						v.Skip("CreateOffer: " + err.Error())
					}
					if err := pc.SetLocalDescription(offer); err != nil {
						v.Skip("SetLocalDescription(offer): " + err.Error())
					}
					pending = &offer
				}
				if err := peer.SetRemoteDescription(SessionDescription{Type: SDPTypeOffer, SDP: pending.SDP}); err != nil {
					v.Skip("peer.SetRemoteDescription(offer): " + err.Error())
				}
				ans, err := peer.CreateAnswer(nil)
				if err != nil {
					v.Skip("peer.CreateAnswer: " + err.Error())
				}
				if err := peer.SetLocalDescription(ans); err != nil {
					v.Skip("peer.SetLocalDescription(answer): " + err.Error())
				}
				if err := pc.SetRemoteDescription(ans); err != nil {
					v.Skip("SetRemoteDescription(answer): " + err.Error())
				}
				v.Label("exchange-completed-as-offerer")
			default:
				if _, err := peer.CreateDataChannel("vfC39", nil); err != nil {
					v.Skip("peer.CreateDataChannel: " + err.Error())
				}
				offer, err := peer.CreateOffer(nil)
				if err != nil {
					v.Skip("peer.CreateOffer: " + err.Error())
				}
				if err := peer.SetLocalDescription(offer); err != nil {
					v.Skip("peer.SetLocalDescription(offer): " + err.Error())
				}
				if err := pc.SetRemoteDescription(offer); err != nil {
					v.Skip("SetRemoteDescription(offer): " + err.Error())
				}
				ans, err := pc.CreateAnswer(nil)
				if err != nil {
					v.Skip("CreateAnswer: " + err.Error())
				}
				if err := pc.SetLocalDescription(ans); err != nil {
					v.Skip("SetLocalDescription(answer): " + err.Error())
				}
				if err := peer.SetRemoteDescription(ans); err != nil {
					v.Skip("peer.SetRemoteDescription(answer): " + err.Error())
				}
				v.Label("exchange-completed-as-answerer")
			}
			if pc.CurrentLocalDescription() == nil || pc.PendingLocalDescription() != nil || pc.SignalingState() != SignalingStateStable {
				v.Skip("exchange did not leave the connection stable with a current local description")
			}
			continue
		case "close":
			_ = pc.Close()
			closed = true
			v.Label("op=close")
			continue
		case "local":
			v.Label("op=local")
			if closed || pc.LocalDescription() != nil {
				continue
			}
			if _, err := pc.CreateDataChannel("vfC39", nil); err != nil {
				v.Skip("CreateDataChannel: " + err.Error())
			}
			offer, err := pc.CreateOffer(nil)
			if err != nil {
				v.Skip("CreateOffer: " + err.Error())
			}
			if err := pc.SetLocalDescription(offer); err != nil {
				v.Skip("SetLocalDescription: " + err.Error())
			}
			continue
		}
		arg := st.Cfg.build(false)
		before := vfC39Take(pc)
		hasLocal := pc.LocalDescription() != nil
		touch, field := vfC39Touches(arg, before, hasLocal)
		srvOK := st.Cfg.serversValid()
		err := pc.SetConfiguration(arg)
		after := vfC39Take(pc)
		state := "open"
		if closed {
			state = "closed"
		} else if pc.CurrentLocalDescription() != nil && pc.PendingLocalDescription() == nil {
			state = "open+current-local"
		} else if hasLocal {
			state = "open+pending-local"
		}
		v.Label(fmt.Sprintf("set:state=%s,touches=%s,servers-valid=%v", state, touch, srvOK))
		for _, g := range st.Cfg.Gen {
			mixed := false
			for k, sc := range g.Schemes {
				mixed = mixed || (vfC39Mod(sc, 4) >= 2 && k > 0 && vfC39Mod(g.Schemes[0], 4) < 2)
			}
			if mixed {
				v.Label(fmt.Sprintf("generated-server:stun-first-then-turn,valid=%v", g.valid()))
			} else {
				v.Label(fmt.Sprintf("generated-server:other,valid=%v", g.valid()))
			}
		}
		if len(st.Cfg.Certs) > 0 && len(st.Cfg.Certs) == len(c.Init.Certs) {
			sameKeys, reissued := true, false
			for k := range st.Cfg.Certs {
				a, b := vfC39Mod(st.Cfg.Certs[k], len(vfC39Certs)), vfC39Mod(c.Init.Certs[k], len(vfC39Certs))
				sameKeys = sameKeys && a/3 == b/3
				reissued = reissued || (a%3 == 2) != (b%3 == 2)
			}
			if sameKeys && reissued {
				kind := "ecdsa"
				for _, i := range st.Cfg.Certs {
					if vfC39Mod(i, len(vfC39Certs))/3 == 4 {
						kind = "incl-rsa"
					}
				}
				v.Label("set:certificates-reissued-for-the-same-keys(" + kind + "),state=" + state)
			}
		}
		where := fmt.Sprintf("step %d (%s)", i, state)
		if err != nil {
			sawReject = true
			if d := before.diff(after, false); d != "" {
				v.Violation("C39/rejected-but-changed/"+d, "%s: SetConfiguration returned %v but GetConfiguration().%s changed; before %v after %v", where, err, d, before, after)
			}
		}
		if touch == "yes" {
			if err == nil {
				v.Violation("C39/accepted-change/"+field, "%s: SetConfiguration accepted an argument that changes %s; argument %s, configuration before %v", where, field, vfC39ArgString(arg), before)
			}
			var me *rtcerr.InvalidModificationError
			if !closed && srvOK && !errors.As(err, &me) {
				v.Violation("C39/wrong-error/"+field, "%s: changing %s is rejected with %T (%v), want *rtcerr.InvalidModificationError", where, field, err, err)
			}
		}
		if !srvOK && err == nil {
			v.Violation("C39/invalid-ice-server-accepted", "%s: SetConfiguration accepted an invalid ICE server list %+v", where, arg.ICEServers)
		}
		if err == nil {
			sawAccept = true
			// immutable settings must be what they were
			imm := func(s vfC39Snap) vfC39Snap {
				r := vfC39Snap{Bundle: s.Bundle, Mux: s.Mux, Identity: s.Identity, Certs: s.Certs}
				if hasLocal {
					r.Pool = s.Pool
				}
				return r
			}
			if d := imm(before).diff(imm(after), touch == "ambiguous"); d != "" {
				v.Violation("C39/accepted-call-changed/"+d, "%s: SetConfiguration succeeded and %s changed; before %v after %v", where, d, before, after)
			}
			if closed {
				v.Label("set-after-close-accepted(unasserted)")
			}
		} else {
			var se *rtcerr.InvalidStateError
			if closed && errors.As(err, &se) {
				v.Label("set-after-close=InvalidStateError")
			}
			if touch == "no" && srvOK && !closed {
				v.Label("harmless-set-rejected(unasserted)")
			}
		}
	}
	if sawReject && sawAccept {
		v.NonTrivial()
	}
}

func vfC39GenCfg(t *rapid.T, base *vfC39Cfg, initial bool) vfC39Cfg {
	var c vfC39Cfg
	// per field: unchanged (w.r.t. the effective initial configuration) / zero / changed
	mode := func(name string) int { return rapid.SampledFrom([]int{0, 0, 1, 2}).Draw(t, name) }
	effBundle, effMux := 1, 2 // pion's defaults: balanced, require
	if base != nil {
		if base.Bundle != 0 {
			effBundle = base.Bundle
		}
		if base.Mux != 0 {
			effMux = base.Mux
		}
	}
	switch {
	case initial:
		c.Bundle = rapid.IntRange(0, 3).Draw(t, "bundle")
		c.Mux = rapid.IntRange(0, 2).Draw(t, "mux")
		c.Identity = rapid.SampledFrom([]string{"", "", "alice"}).Draw(t, "identity")
		variant := func(name string) int { return rapid.SampledFrom([]int{0, 0, 2}).Draw(t, name) }
		switch rapid.IntRange(0, 3).Draw(t, "ncerts") {
		case 1:
			c.Certs = []int{rapid.IntRange(0, vfC39NKeys-1).Draw(t, "k0")*3 + variant("v0")}
		case 2:
			a := rapid.IntRange(0, vfC39NKeys-1).Draw(t, "k0")
			b := (a + rapid.IntRange(1, vfC39NKeys-1).Draw(t, "k1")) % vfC39NKeys
			c.Certs = []int{a*3 + variant("v0"), b*3 + variant("v1")}
		}
		c.Pool = rapid.IntRange(0, 1).Draw(t, "pool")
	default:
		switch mode("bundleMode") {
		case 0:
			c.Bundle = effBundle
		case 2:
			c.Bundle = effBundle%3 + 1
		}
		switch mode("muxMode") {
		case 0:
			c.Mux = effMux
		case 2:
			c.Mux = effMux%2 + 1
		}
		switch mode("identityMode") {
		case 0:
			c.Identity = base.Identity
		case 2:
			c.Identity = base.Identity + "bob"
		}
		otherKey := func(i int, name string) int { // a certificate for a different key
			return ((i/3+rapid.IntRange(1, vfC39NKeys-1).Draw(t, name))%vfC39NKeys)*3 + rapid.SampledFrom([]int{0, 2}).Draw(t, name+"v")
		}
		switch rapid.IntRange(0, 10).Draw(t, "certMode") {
		case 0, 1: // unset
		case 2: // the same list
			c.Certs = append([]int(nil), base.Certs...)
		case 3: // the same certificates, re-imported from PEM where the pool has that
			for _, i := range base.Certs {
				if i%3 == 0 {
					i++
				}
				c.Certs = append(c.Certs, i)
			}
		case 4: // same length, one for a different key
			c.Certs = append([]int(nil), base.Certs...)
			if len(c.Certs) == 0 {
				c.Certs = []int{rapid.IntRange(0, vfC39NKeys*3-1).Draw(t, "newcert")}
			} else {
				k := rapid.IntRange(0, len(c.Certs)-1).Draw(t, "which")
				c.Certs[k] = otherKey(c.Certs[k], "otherKey")
			}
		case 5: // reordered
			for i := len(base.Certs) - 1; i >= 0; i-- {
				c.Certs = append(c.Certs, base.Certs[i])
			}
		case 6: // longer
			c.Certs = append(append([]int(nil), base.Certs...), rapid.IntRange(0, vfC39NKeys*3-1).Draw(t, "extra"))
		case 7: // shorter (prefix)
			if len(base.Certs) > 1 {
				c.Certs = append([]int(nil), base.Certs[:1]...)
			}
		default: // same keys, but one (or every) certificate re-issued for its key
			c.Certs = append([]int(nil), base.Certs...)
			all := rapid.Bool().Draw(t, "reissueAll")
			which := 0
			if len(c.Certs) > 0 {
				which = rapid.IntRange(0, len(c.Certs)-1).Draw(t, "reissueWhich")
			}
			for k, i := range c.Certs {
				if all || k == which {
					if i%3 == 2 {
						c.Certs[k] = i - 2 + rapid.IntRange(0, 1).Draw(t, "reissueTo")
					} else {
						c.Certs[k] = i - i%3 + 2
					}
				}
			}
		}
		switch mode("poolMode") {
		case 0:
			c.Pool = base.Pool
		case 2:
			c.Pool = rapid.SampledFrom([]int{1 - base.Pool, 2, 5, 255}).Draw(t, "pool")
		}
	}
	c.Policy = rapid.IntRange(0, 2).Draw(t, "policy")
	c.AlwaysDC = rapid.Bool().Draw(t, "alwaysDC")
	ns := rapid.IntRange(0, 3).Draw(t, "nservers")
	for i := 0; i < ns; i++ {
		if initial || rapid.IntRange(0, 3).Draw(t, "srvValid") != 0 {
			c.Servers = append(c.Servers, rapid.IntRange(0, vfC39NValid-1).Draw(t, "srv"))
		} else {
			c.Servers = append(c.Servers, rapid.IntRange(vfC39NValid, len(vfC39Servers)-1).Draw(t, "badsrv"))
		}
	}
	if !initial && rapid.IntRange(0, 2).Draw(t, "withGen") == 0 {
		ng := rapid.IntRange(1, 2).Draw(t, "ngen")
		for i := 0; i < ng; i++ {
			g := vfC39GenServer{
				Schemes: rapid.SliceOfN(rapid.IntRange(0, 3), 1, 3).Draw(t, "schemes"),
				NoUser:  rapid.IntRange(0, 7).Draw(t, "noUser") == 0,
				Cred:    rapid.IntRange(0, 3).Draw(t, "cred"),
				CType:   rapid.IntRange(0, 2).Draw(t, "ctype"),
			}
			c.Gen = append(c.Gen, g)
		}
	}
	return c
}

func TestVerif_C39_Sequences(t *testing.T) {
	vfProperty(t, "C39", vfOpts{
		Rule: "initial Configuration (policies, identity, 0..2 certificates from a pool, pool size 0/1, valid ICE servers) x 1..8 operations: SetConfiguration whose fields are independently unchanged / zero / changed (certificates from a pool of 4 ECDSA keys and 1 RSA key with two different certificates per key: same, same re-imported from PEM, one replaced by another key's, one or all re-issued for the same key, reordered, longer, shorter; ICE servers valid or one of 8 invalid forms, plus generated entries with 1..3 stun/stuns/turn/turns URLs in drawn order x username present/absent x credential {string, OAuthCredential, int, nil} x credential type {password, oauth, undeclared}), 'create the local description' (pending), 'complete an offer/answer exchange with a throw-away peer as offerer or answerer' (local description becomes current, state stable), Close; non-trivial = the sequence contains both a rejected and an accepted SetConfiguration",
		Assumptions: []string{"a zero-valued field in the argument means 'leave unchanged' (pion's documented convention), so only non-zero differing values are attempts to change",
			"a pure reordering of the same certificates is counted as ambiguous and only the weaker clauses are asserted on it",
			"ICE-server validity comes from a hand-labelled table and, for generated entries, from the rule 'every turn(s) URL needs a username and a credential whose type fits the credential type' (W3C set-the-configuration 11.3.x, RFC 7064/7065)",
			"PeerConnections run on an isolated virtual network (pion/transport vnet, no router) so gathering started by the local description or a candidate pool touches no real socket",
			"after Close only 'an attempt to change is an error' and 'an error leaves the configuration alone' are asserted; the error type is counted"},
	}, func(v *vfT) vfC39Case {
		var c vfC39Case
		c.Init = vfC39GenCfg(v.R, nil, true)
		n := rapid.IntRange(1, 8).Draw(v.R, "nsteps")
		for i := 0; i < n; i++ {
			var st vfC39Step
			switch rapid.IntRange(0, 11).Draw(v.R, "op") {
			case 0:
				st.Op = "close"
			case 1, 2:
				st.Op = "local"
			case 3, 4, 5:
				st.Op = "exchange"
				st.Answerer = rapid.Bool().Draw(v.R, "answerer")
			default:
				st.Op = "set"
				st.Cfg = vfC39GenCfg(v.R, &c.Init, false)
			}
			c.Steps = append(c.Steps, st)
		}
		return c
	}, vfC39Run)
}
