package webrtc

// C20 — data channel readyState only moves forward and events fire at most once.
//
// Domain: schedules on really connected pairs (loopback).  Actors: local Close /
// GracefulClose (possibly twice), remote Close (ends the local read loop),
// PeerConnection.Close, and the opening path of a channel created before signalling.
// The goroutines park at dc.close.checked, dc.open.beforeSet, dc.readloop.beforeClosed and
// pc.close.beforeChannels; the monitor dc.state sees every store of readyState.

import (
	"fmt"
	"sync"
	"sync/atomic"
	"testing"
	"time"

	"pgregory.net/rapid"
)

type vfC20Case struct {
	Early   bool     `json:"early"`  // channel is created before signalling, its opening path is gated
	Actors  []string `json:"actors"` // subset of LC (Close) LC2 (second Close) LG (GracefulClose) RC (remote Close) PC (PeerConnection.Close)
	Choices []int    `json:"choices"`
}

// dc.state is both monitored and gated: a goroutine parks between its forward-only check and
// the store, so another setter can be scheduled into that window.
var vfC20Points = []string{"dc.close.checked", "dc.open.beforeSet", "dc.readloop.beforeClosed", "pc.close.beforeChannels", "dc.state"}

type vfC20Mon struct {
	mu       sync.Mutex
	stores   map[any][]string // per channel: "cur->new"
	backward []string
}

func vfC20Exec(v *vfT, c vfC20Case) (branching []int) {
	api := vfPairAPI(nil, nil)
	pcA, err := api.NewPeerConnection(Configuration{})
	if err != nil {
		v.Skip("NewPeerConnection")
	}
	pcB, err := api.NewPeerConnection(Configuration{})
	if err != nil {
		_ = pcA.Close()
		v.Skip("NewPeerConnection")
	}
	gates := vfGatesInstall(vfC20Points)
	actors := vfNewActors()
	defer func() {
		gates.Uninstall()
		_ = pcA.Close()
		_ = pcB.Close()
	}()
	mon := &vfC20Mon{stores: map[any][]string{}}
	watched := map[any]string{}
	var wmu sync.Mutex
	gates.Monitor("dc.state", func(obj any, arg int) {
		d, ok := obj.(*DataChannel)
		if !ok {
			return
		}
		wmu.Lock()
		name, mine := watched[obj]
		wmu.Unlock()
		if !mine {
			return
		}
		cur := d.ReadyState()
		nw := DataChannelState(arg)
		mon.mu.Lock()
		mon.stores[obj] = append(mon.stores[obj], fmt.Sprintf("%s->%s", cur, nw))
		if cur != DataChannelStateUnknown && nw < cur {
			mon.backward = append(mon.backward, fmt.Sprintf("%s: %s->%s", name, cur, nw))
		}
		mon.mu.Unlock()
	})
	// the monitor filter in vfGates passes everything when no object is watched; gate filter needs objects
	var dA, dB *DataChannel
	var opens, closes, lateCloses atomic.Int32
	remoteCh := make(chan *DataChannel, 4)
	pcB.OnDataChannel(func(d *DataChannel) {
		wmu.Lock()
		watched[d] = "remote:" + d.Label()
		wmu.Unlock()
		remoteCh <- d
	})
	mk := func(label string) *DataChannel {
		d, err := pcA.CreateDataChannel(label, nil)
		if err != nil {
			v.Skip("CreateDataChannel: " + err.Error())
		}
		wmu.Lock()
		watched[d] = "local:" + label
		wmu.Unlock()
		return d
	}
	var trace []string
	if c.Early {
		dA = mk("subject")
		gates.Watch(dA)
		dA.OnOpen(func() { opens.Add(1) })
		dA.OnClose(func() { closes.Add(1) })
	} else {
		_ = mk("bootstrap")
	}
	gates.Watch(pcA)
	sigErr := make(chan error, 1)
	actors.Go("signal", func() { sigErr <- vfPairSignal(pcA, pcB, nil) })
	if c.Early {
		// wait until the opening path parks at dc.open.beforeSet (or the channel opens if the hook is gone)
		if !vfPairWait(10*time.Second, func() bool {
			return len(gates.Parked()) > 0 || dA.ReadyState() == DataChannelStateOpen
		}) {
			v.Skip("pair did not connect (inconclusive)")
		}
	} else {
		if !vfPairWait(10*time.Second, func() bool {
			return pcA.SCTP().State() == SCTPTransportStateConnected && pcB.SCTP().State() == SCTPTransportStateConnected
		}) {
			v.Skip("pair did not connect (inconclusive)")
		}
		dA = mk("subject")
		gates.Watch(dA)
		dA.OnOpen(func() { opens.Add(1) })
		dA.OnClose(func() { closes.Add(1) })
		if !vfPairWait(10*time.Second, func() bool {
			gates.ReleasePoint("dc.state") // setup phase: the opening store is not part of the scenario
			return dA.ReadyState() == DataChannelStateOpen
		}) {
			v.Skip("channel did not open (inconclusive)")
		}
	}
	findRemote := func() *DataChannel {
		deadline := time.After(5 * time.Second)
		for {
			select {
			case d := <-remoteCh:
				if d.Label() == "subject" {
					return d
				}
			case <-deadline:
				return nil
			}
		}
	}
	if !c.Early {
		dB = findRemote()
		if dB == nil {
			v.Skip("remote channel not announced (inconclusive)")
		}
		vfPairWait(5*time.Second, func() bool { return dB.ReadyState() == DataChannelStateOpen })
	}
	vfSettle(gates, actors)
	// stores made while the pair was being set up (connecting, open of a late channel) are not part of the scenario
	for gates.ReleasePoint("dc.state") {
		vfSettle(gates, actors)
	}

	started := map[string]bool{}
	sampled := []DataChannelState{dA.ReadyState()}
	sample := func() {
		st := dA.ReadyState()
		if last := sampled[len(sampled)-1]; st != last {
			sampled = append(sampled, st)
			if st < last {
				v.Violation("C20/backward-sampled/"+last.String()+"->"+st.String(), "ReadyState() was observed as %s and later as %s (samples %v); trace %v", last, st, sampled, trace)
			}
		}
	}
	sendWhenNotOpen := func(where string) {
		sample()
		if st := dA.ReadyState(); st != DataChannelStateOpen {
			if err := dA.Send([]byte("x")); err == nil {
				v.Violation("C20/send-when-not-open", "Send returned nil while readyState=%s (%s); trace %v", st, where, trace)
			}
		}
	}
	overlap := false
	for {
		var names []string
		var dos []func()
		for _, a := range c.Actors {
			a := a
			if started[a] {
				continue
			}
			if a == "RC" && c.Early && dB == nil {
				// the remote side only learns about the channel once the local open path ran
				select {
				case d := <-remoteCh:
					if d.Label() == "subject" {
						dB = d
					}
				default:
				}
				if dB == nil {
					continue
				}
			}
			names = append(names, a)
			dos = append(dos, func() {
				started[a] = true
				switch a {
				case "LC", "LC2":
					actors.Go(a, func() { _ = dA.Close() })
				case "LG":
					actors.Go(a, func() { _ = dA.GracefulClose() })
				case "RC":
					actors.Go(a, func() { _ = dB.Close() })
				case "PC":
					actors.Go(a, func() { _ = pcA.Close() })
				case "OC":
					// a second registration, made at whatever moment the schedule puts it (possibly while
					// the channel already reads closed and its read loop has not reported the close yet)
					actors.Go(a, func() { dA.OnClose(func() { lateCloses.Add(1) }) })
				}
			})
		}
		for i, p := range gates.Parked() {
			i := i
			names = append(names, "P:"+p)
			dos = append(dos, func() { gates.Release(i) })
		}
		if len(names) == 0 {
			break
		}
		pick := 0
		if len(branching) < len(c.Choices) {
			pick = c.Choices[len(branching)] % len(names)
		}
		if names[pick][0] != 'P' && len(gates.Parked()) > 0 {
			overlap = true
		}
		branching = append(branching, len(names))
		trace = append(trace, names[pick])
		dos[pick]()
		vfSettle(gates, actors)
		sendWhenNotOpen("mid-scenario")
		if len(branching) > 60 {
			break
		}
	}
	gates.OpenAll()
	vfWaitActors(actors, 3*time.Second) // GracefulClose may legitimately wait for the remote reset: not asserted
	vfSettle(gates, actors)
	sendWhenNotOpen("after scenario")
	closeCalled := started["LC"] || started["LC2"] || started["LG"] || started["PC"]
	// transport gone: close both peers
	_ = pcA.Close()
	_ = pcB.Close()
	time.Sleep(2 * vfSettleInterval)
	sendWhenNotOpen("after PeerConnection.Close")
	if closeCalled || true {
		if st := dA.ReadyState(); st != DataChannelStateClosed {
			v.Violation("C20/not-closed-at-end", "after Close and PeerConnection.Close on both peers readyState=%s; stores %v; trace %v", st, mon.stores[dA], trace)
		}
	}
	if overlap {
		v.Label("actor-started-while-parked")
		v.NonTrivial()
	}
	if len(gates.Reached()) == 0 {
		v.Label("gates-not-reached")
	}
	for p, n := range gates.Reached() {
		if n > 0 {
			v.Label("reached:" + p)
		}
	}
	mon.mu.Lock()
	bw := append([]string{}, mon.backward...)
	stores := fmt.Sprint(mon.stores[dA])
	mon.mu.Unlock()
	// The monitor sees (value read at hook time, value about to be stored); since the hook sits
	// between the setter's own load and its compare-and-swap, a "backward" pair here does not
	// prove a backward store (the swap may fail and be abandoned) - it is only a label.  The
	// deciding oracle is the sequence of ReadyState() samples taken at every quiescent point.
	if len(bw) > 0 {
		v.Label("monitor-saw-stale-setter:" + vfC20BackwardKind(bw[0]))
	}
	_ = stores
	if n := opens.Load(); n > 1 {
		v.Violation("C20/onopen-twice", "OnOpen handler ran %d times for one registration; trace %v", n, trace)
	}
	if n := lateCloses.Load(); n > 1 {
		v.Violation("C20/onclose-twice/late-registration", "an OnClose handler registered during the scenario ran %d times for its one registration; trace %v", n, trace)
	}
	if started["OC"] {
		v.Label("late-onclose-registration")
	}
	if n := closes.Load(); n > 1 {
		v.Violation("C20/onclose-twice", "OnClose handler ran %d times for one registration; trace %v", n, trace)
	}
	select {
	case <-sigErr:
	default:
	}
	return branching
}

func vfC20BackwardKind(s string) string {
	// "local:subject: closed->closing"
	for i := len(s) - 1; i >= 0; i-- {
		if s[i] == ' ' {
			return s[i+1:]
		}
	}
	return s
}

var vfC20Opts = vfOpts{
	Rule:        "schedules on a connected loopback pair: actors drawn from local Close (twice), GracefulClose, remote Close, PeerConnection.Close, a late OnClose registration, plus the gated opening path of a channel created before signalling; the controller orders actor starts and goroutines parked at the four yield points; non-trivial = an actor is started while another goroutine is parked inside a check-then-set window",
	Assumptions: []string{"readyState stores are observed by the dc.state monitor on the storing goroutine (value before, value to be stored)", "interleavings explored at the placed yield points only", "a pair that fails to connect within the watchdog is discarded as inconclusive"},
}

var vfC20ActorSets = [][]string{
	{"PC", "OC"}, {"LC", "OC"}, {"RC", "OC", "PC"},
	{"LC", "RC"}, {"LC", "PC"}, {"RC", "PC"}, {"LC", "LC2"}, {"LG", "RC"}, {"LC", "RC", "PC"}, {"LC"}, {"RC"}, {"LG", "PC"},
}

func TestVerif_C20_Sampled(t *testing.T) {
	vfProperty(t, "C20", vfC20Opts, func(v *vfT) vfC20Case {
		return vfC20Case{
			Early:   rapid.IntRange(0, 2).Draw(v.R, "early") == 0,
			Actors:  rapid.SampledFrom(vfC20ActorSets).Draw(v.R, "actors"),
			Choices: rapid.SliceOfN(rapid.IntRange(0, 5), 0, 12).Draw(v.R, "choices"),
		}
	}, func(v *vfT, c vfC20Case) { vfC20Exec(v, c) })
}

// TestVerif_C20_DFS enumerates every gate order of the scenario shapes.
func TestVerif_C20_DFS(t *testing.T) {
	s := vfOpen(t, "C20", vfC20Opts, func(v *vfT, c vfC20Case) { vfC20Exec(v, c) })
	defer s.Close()
	if s.Replay() {
		return
	}
	limit := vfN(6)
	shard, nshards := vfShard()
	exhaustive := true
	idx := 0
	for _, early := range []bool{false, true} {
		for _, as := range vfC20ActorSets {
			idx++
			if idx%nshards != shard {
				continue
			}
			seq := []int{}
			n := 0
			for {
				c := vfC20Case{Early: early, Actors: as, Choices: append([]int{}, seq...)}
				var br []int
				if s.OneWith(c, func(v *vfT, cc vfC20Case) { br = vfC20Exec(v, cc) }) {
					return
				}
				n++
				full := make([]int, len(br))
				copy(full, seq)
				i := len(full) - 1
				for i >= 0 && full[i]+1 >= br[i] {
					i--
				}
				if i < 0 {
					break
				}
				seq = append([]int{}, full[:i+1]...)
				seq[i]++
				if n >= limit {
					exhaustive = false
					break
				}
			}
		}
	}
	s.SetExhaustive(exhaustive)
}
