package webrtc

// C22 — Connection state is the W3C aggregate of ICE and DTLS states.
//
// Oracle: an independent 15-line transcription of the W3C RTCPeerConnectionState
// definition in the precedence order the property states (closed > failed > disconnected >
// new > connected > connecting).  Part 1 enumerates closed x 7 ICE x 5 DTLS completely on
// fresh PeerConnections.  Part 2 drives random update sequences (with the closed flag set
// somewhere) and checks that ConnectionState() tracks the reference after every update and
// that the multiset of OnConnectionStateChange deliveries equals the positions at which the
// reference value changes (delivery order is not asserted: each event runs in its own
// goroutine).

import (
	"fmt"
	"sort"
	"strings"
	"sync"
	"testing"
	"time"

	"pgregory.net/rapid"
)

var vfC22ICE = []ICEConnectionState{
	ICEConnectionStateNew, ICEConnectionStateChecking, ICEConnectionStateConnected, ICEConnectionStateCompleted,
	ICEConnectionStateDisconnected, ICEConnectionStateFailed, ICEConnectionStateClosed,
}

var vfC22DTLS = []DTLSTransportState{
	DTLSTransportStateNew, DTLSTransportStateConnecting, DTLSTransportStateConnected,
	DTLSTransportStateClosed, DTLSTransportStateFailed,
}

// vfC22Ref is the reference aggregate for one ICE transport and one DTLS transport.
func vfC22Ref(closed bool, ice ICEConnectionState, dtls DTLSTransportState) PeerConnectionState {
	iceIn := func(set ...ICEConnectionState) bool {
		for _, s := range set {
			if ice == s {
				return true
			}
		}
		return false
	}
	dtlsIn := func(set ...DTLSTransportState) bool {
		for _, s := range set {
			if dtls == s {
				return true
			}
		}
		return false
	}
	switch {
	case closed:
		return PeerConnectionStateClosed
	case iceIn(ICEConnectionStateFailed) || dtlsIn(DTLSTransportStateFailed):
		return PeerConnectionStateFailed
	case iceIn(ICEConnectionStateDisconnected):
		return PeerConnectionStateDisconnected
	case iceIn(ICEConnectionStateNew, ICEConnectionStateClosed) && dtlsIn(DTLSTransportStateNew, DTLSTransportStateClosed):
		return PeerConnectionStateNew
	case iceIn(ICEConnectionStateConnected, ICEConnectionStateCompleted, ICEConnectionStateClosed) &&
		dtlsIn(DTLSTransportStateConnected, DTLSTransportStateClosed):
		return PeerConnectionStateConnected
	default:
		return PeerConnectionStateConnecting
	}
}

type vfC22Step struct {
	Close bool `json:"close,omitempty"` // set the closed flag before this update
	ICE   int  `json:"ice"`             // index into vfC22ICE
	DTLS  int  `json:"dtls"`            // index into vfC22DTLS
}

type vfC22Case struct {
	Steps []vfC22Step `json:"steps"`
	// Live, when set, runs a real pair instead: the stored state must equal the aggregate of the
	// transports' own states whenever the transports have settled.
	Live *vfC22Live `json:"live,omitempty"`
}

type vfC22Live struct {
	Tamper        int  `json:"tamper"`             // 0 none, 1 fingerprint in the offer altered (answerer's handshake check fails), 2 in the answer
	NoCloseByDTLS bool `json:"no_close_by_dtls"`   // SettingEngine.DisableCloseByDTLS
	Media         int  `json:"media"`              // 0 data channel only, 1 plus a video track
	Close         int  `json:"close"`              // 0 nobody, 1 offerer closes after settling, 2 answerer
	SlowICE       int  `json:"slow_ice,omitempty"` // ms the application's OnICEConnectionStateChange callbacks take (both peers)
}

// vfC22RunLive: a real pair, optionally with a fingerprint altered in flight so that one side's
// DTLS start fails.  Oracle: once ICE and DTLS states of a peer stopped changing, ConnectionState()
// equals the reference aggregate of (closed, ICEConnectionState(), DTLS transport state).
func vfC22RunLive(v *vfT, c vfC22Case) {
	l := c.Live
	api := vfPairAPI(func(se *SettingEngine) { se.DisableCloseByDTLS(l.NoCloseByDTLS) }, nil)
	pcA, err := api.NewPeerConnection(Configuration{})
	if err != nil {
		v.Skip("NewPeerConnection")
	}
	pcB, err := api.NewPeerConnection(Configuration{})
	if err != nil {
		_ = pcA.Close()
		v.Skip("NewPeerConnection")
	}
	defer func() { _ = pcA.Close(); _ = pcB.Close() }()
	pcB.OnDataChannel(func(*DataChannel) {})
	if l.SlowICE > 0 {
		// an application callback that outlasts the DTLS handshake: the update that follows it must
		// still aggregate the transports' current states
		slow := func(st ICEConnectionState) {
			// only the report of "connected" is slow: the reports are delivered one after another, a
			// slow "checking" would merely delay the one that matters until DTLS is up as well
			if st == ICEConnectionStateConnected {
				time.Sleep(time.Duration(l.SlowICE) * time.Millisecond)
			}
		}
		pcA.OnICEConnectionStateChange(slow)
		pcB.OnICEConnectionStateChange(slow)
		v.Label("live:slow-ice-callback")
	}
	if _, err = pcA.CreateDataChannel("c22", nil); err != nil {
		v.Skip("CreateDataChannel")
	}
	if l.Media == 1 {
		tr, err := NewTrackLocalStaticSample(RTPCodecCapability{MimeType: MimeTypeVP8}, "v", "s")
		if err == nil {
			_, _ = pcA.AddTrack(tr)
		}
	}
	flip := func(sdp string) string {
		i := strings.Index(sdp, "a=fingerprint:sha-256 ")
		if i < 0 {
			return sdp
		}
		j := i + len("a=fingerprint:sha-256 ")
		b := []byte(sdp)
		for k := j; k < len(b) && b[k] != '\r' && b[k] != '\n'; k++ {
			switch {
			case b[k] == ':':
			case b[k] == 'A':
				b[k] = 'B'
			default:
				b[k] = 'A'
			}
		}
		return string(b)
	}
	if err := vfPairSignal(pcA, pcB, func(sdp string, isOffer bool) string {
		if (l.Tamper == 1 && isOffer) || (l.Tamper == 2 && !isOffer) {
			return flip(sdp)
		}
		return sdp
	}); err != nil {
		v.Skip("signalling: " + err.Error())
	}
	type snap struct {
		ice  ICEConnectionState
		dtls DTLSTransportState
	}
	take := func(pc *PeerConnection) snap { return snap{pc.ICEConnectionState(), pc.dtlsTransport.State()} }
	settled := func(pc *PeerConnection) bool {
		// transports left their transient states and did not move for 200ms
		last, since := take(pc), time.Now()
		deadline := time.Now().Add(15 * time.Second)
		for time.Now().Before(deadline) {
			time.Sleep(5 * time.Millisecond)
			cur := take(pc)
			if cur != last {
				last, since = cur, time.Now()
				continue
			}
			transient := cur.ice == ICEConnectionStateNew || cur.ice == ICEConnectionStateChecking ||
				cur.dtls == DTLSTransportStateNew || cur.dtls == DTLSTransportStateConnecting
			if !transient && time.Since(since) > 200*time.Millisecond {
				return true
			}
		}
		return false
	}
	judge := func(name string, pc *PeerConnection, closed bool) {
		if !settled(pc) {
			v.Label("live:not-settled(not asserted)")
			return
		}
		// the update that follows the last transport change may still be in flight: poll briefly
		var got, ref PeerConnectionState
		ok := vfPairWait(3*time.Second, func() bool {
			s := take(pc)
			// the closed flag is read from the connection itself: a peer may close itself when its
			// DTLS transport is closed by the remote (close-by-DTLS)
			closed = pc.isClosed.Load()
			got, ref = pc.ConnectionState(), vfC22Ref(closed, s.ice, s.dtls)
			return got == ref
		})
		s := take(pc)
		v.Label(fmt.Sprintf("live:%s:ice=%s,dtls=%s", name, s.ice, s.dtls))
		if !ok {
			v.Violation("C22/live/stale", "%s (tamper=%d, no_close_by_dtls=%v): transports settled at ice=%s dtls=%s closed=%v, ConnectionState()=%s for 3s, W3C aggregate=%s",
				name, l.Tamper, l.NoCloseByDTLS, s.ice, s.dtls, closed, got, ref)
		}
	}
	judge("offerer", pcA, false)
	judge("answerer", pcB, false)
	switch l.Close {
	case 1:
		_ = pcA.Close()
		judge("offerer-closed", pcA, true)
		judge("answerer-after-peer-close", pcB, false)
	case 2:
		_ = pcB.Close()
		judge("answerer-closed", pcB, true)
		judge("offerer-after-peer-close", pcA, false)
	}
	if l.Tamper != 0 {
		v.NonTrivial()
	}
}

func vfC22Run(v *vfT, c vfC22Case) {
	if c.Live != nil {
		vfC22RunLive(v, c)
		return
	}
	pc, err := NewPeerConnection(Configuration{})
	if err != nil {
		v.Skip("NewPeerConnection failed: " + err.Error())
	}
	var mu sync.Mutex
	got := []PeerConnectionState{}
	pc.OnConnectionStateChange(func(s PeerConnectionState) {
		mu.Lock()
		got = append(got, s)
		mu.Unlock()
	})
	cur := pc.ConnectionState()
	if cur != PeerConnectionStateNew {
		v.Violation("C22/initial", "fresh PeerConnection reports %s, want new", cur)
	}
	want := []PeerConnectionState{}
	closed := false
	changes, same := 0, 0
	for i, st := range c.Steps {
		if st.Close && !closed {
			closed = true
			pc.isClosed.Store(true)
		}
		ice, dtls := vfC22ICE[st.ICE%len(vfC22ICE)], vfC22DTLS[st.DTLS%len(vfC22DTLS)]
		pc.updateConnectionState(ice, dtls)
		ref := vfC22Ref(closed, ice, dtls)
		if g := pc.ConnectionState(); g != ref {
			v.Violation("C22/aggregate", "step %d closed=%v ice=%s dtls=%s: ConnectionState()=%s, W3C aggregate=%s", i, closed, ice, dtls, g, ref)
		}
		if ref != cur {
			want = append(want, ref)
			cur = ref
			changes++
		} else {
			same++
		}
	}
	// deliveries: wait for the expected number, then give stragglers a moment
	deadline := time.Now().Add(5 * time.Second)
	for {
		mu.Lock()
		n := len(got)
		mu.Unlock()
		if n >= len(want) || time.Now().After(deadline) {
			break
		}
		time.Sleep(50 * time.Microsecond)
	}
	time.Sleep(300 * time.Microsecond)
	mu.Lock()
	g := append([]PeerConnectionState{}, got...)
	mu.Unlock()
	w := append([]PeerConnectionState{}, want...)
	sort.Slice(g, func(i, j int) bool { return g[i] < g[j] })
	sort.Slice(w, func(i, j int) bool { return w[i] < w[j] })
	eq := len(g) == len(w)
	for i := 0; eq && i < len(g); i++ {
		eq = g[i] == w[i]
	}
	if !eq {
		v.Violation("C22/notify", "handler deliveries (sorted) %v differ from the reference's changes (sorted) %v", g, w)
	}
	if changes > 0 && same > 0 {
		v.NonTrivial()
	}
	if closed {
		v.Label("with-close")
	}
	// release the connection for real (handler results no longer read)
	pc.OnConnectionStateChange(func(PeerConnectionState) {})
	pc.isClosed.Store(false)
	_ = pc.Close()
}

func TestVerif_C22_Exhaustive(t *testing.T) {
	var cases []vfC22Case
	for _, closed := range []bool{false, true} {
		for i := range vfC22ICE {
			for d := range vfC22DTLS {
				cases = append(cases, vfC22Case{Steps: []vfC22Step{{Close: closed, ICE: i, DTLS: d}}})
			}
		}
	}
	vfEnumerate(t, "C22", vfOpts{
		Rule: "exhaustive: closed{0,1} x 7 ICE x 5 DTLS states, one updateConnectionState call on a fresh PeerConnection each; every one of the 70 is distinct and counted non-trivial when the aggregate differs from the initial 'new'",
		Assumptions: []string{"one ICE transport and one DTLS transport per PeerConnection (pion bundles everything)",
			"reference = W3C RTCPeerConnectionState in the precedence order stated by the property"},
	}, cases, true, func(v *vfT, c vfC22Case) {
		st := c.Steps[0]
		if vfC22Ref(st.Close, vfC22ICE[st.ICE], vfC22DTLS[st.DTLS]) != PeerConnectionStateNew {
			v.NonTrivial()
		}
		vfC22RunNoNT(v, c)
	})
}

// vfC22RunNoNT runs the case but leaves the non-trivial mark to the caller.
func vfC22RunNoNT(v *vfT, c vfC22Case) {
	nt := v.nontrivial
	vfC22Run(v, c)
	v.nontrivial = nt
}

func TestVerif_C22_Sequences(t *testing.T) {
	vfProperty(t, "C22", vfOpts{
		Rule: "random sequences (1..30) of (ice,dtls) updates with the closed flag set at a drawn step; non-trivial = the sequence contains both an update that changes the aggregate and one that does not",
	}, func(v *vfT) vfC22Case {
		n := rapid.IntRange(1, 30).Draw(v.R, "n")
		closeAt := rapid.IntRange(-1, n-1).Draw(v.R, "closeAt")
		var c vfC22Case
		for i := 0; i < n; i++ {
			st := vfC22Step{ICE: rapid.IntRange(0, len(vfC22ICE)-1).Draw(v.R, "ice"), DTLS: rapid.IntRange(0, len(vfC22DTLS)-1).Draw(v.R, "dtls")}
			if i > 0 && rapid.IntRange(0, 3).Draw(v.R, "repeat") == 0 {
				st = c.Steps[i-1]
				st.Close = false
			}
			st.Close = i == closeAt
			c.Steps = append(c.Steps, st)
		}
		return c
	}, vfC22Run)
}

// TestVerif_C22_Live: the update sites, not only the function: real pairs (optionally with one
// side's DTLS start failing on an altered fingerprint, with and without close-by-DTLS, then a
// close) must report the aggregate of what their transports settled at.
func TestVerif_C22_Live(t *testing.T) {
	s := vfOpen(t, "C22", vfC22LiveOpts, vfC22Run)
	defer s.Close()
	if s.Replay() {
		return
	}
	shard, nshards := vfShard()
	n := 0
	for tamper := 0; tamper <= 2; tamper++ {
		for _, nc := range []bool{false, true} {
			for media := 0; media <= 1; media++ {
				for cl := 0; cl <= 2; cl++ {
					n++
					if n%nshards != shard {
						continue
					}
					if vfTier() == "quick" && (media+cl+tamper)%2 == 1 {
						continue // quick tier: half of the 36 combinations
					}
					slow := 0
					if (tamper+media+cl)%3 == 0 {
						slow = 400
					}
					if s.One(vfC22Case{Live: &vfC22Live{Tamper: tamper, NoCloseByDTLS: nc, Media: media, Close: cl, SlowICE: slow}}) {
						return
					}
				}
			}
		}
	}
}

var vfC22LiveOpts = vfOpts{
	Rule:        "live family: real pairs over {no tampering, fingerprint altered in the offer, in the answer} x {close-by-DTLS on, off} x {data only, plus video} x {nobody closes, offerer, answerer}, a third of them with OnICEConnectionStateChange callbacks that take 400 ms; whenever a peer's ICE and DTLS states have settled its ConnectionState() must equal the reference aggregate; non-trivial = a DTLS start failure was provoked",
	Assumptions: []string{"a peer counts as settled when its ICE and DTLS states left new/checking/connecting and did not change for 200 ms; the stored state is polled for 3 s before a mismatch is reported"},
}
