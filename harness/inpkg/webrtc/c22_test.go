package webrtc

// C22 — Connection state is the W3C aggregate of ICE and DTLS states.
//
// Oracle: an independent 15-line transcription of the W3C RTCPeerConnectionState
// definition in the precedence order the property states (closed > failed > disconnected >
// new > connected > connecting).  Part 1 enumerates closed x 7 ICE x 5 DTLS completely on
// fresh PeerConnections.  Part 2 drives random update sequences (with the closed flag set
// somewhere) and checks that ConnectionState() tracks the reference after every update and
// that the multiset of OnConnectionStateChange deliveries equals the positions at which the
// reference value changes (delivery order is not asserted: each event runs in its own
// goroutine).

import (
	"sort"
	"sync"
	"testing"
	"time"

	"pgregory.net/rapid"
)

var vfC22ICE = []ICEConnectionState{
	ICEConnectionStateNew, ICEConnectionStateChecking, ICEConnectionStateConnected, ICEConnectionStateCompleted,
	ICEConnectionStateDisconnected, ICEConnectionStateFailed, ICEConnectionStateClosed,
}

var vfC22DTLS = []DTLSTransportState{
	DTLSTransportStateNew, DTLSTransportStateConnecting, DTLSTransportStateConnected,
	DTLSTransportStateClosed, DTLSTransportStateFailed,
}

// vfC22Ref is the reference aggregate for one ICE transport and one DTLS transport.
func vfC22Ref(closed bool, ice ICEConnectionState, dtls DTLSTransportState) PeerConnectionState {
	iceIn := func(set ...ICEConnectionState) bool {
		for _, s := range set {
			if ice == s {
				return true
			}
		}
		return false
	}
	dtlsIn := func(set ...DTLSTransportState) bool {
		for _, s := range set {
			if dtls == s {
				return true
			}
		}
		return false
	}
	switch {
	case closed:
		return PeerConnectionStateClosed
	case iceIn(ICEConnectionStateFailed) || dtlsIn(DTLSTransportStateFailed):
		return PeerConnectionStateFailed
	case iceIn(ICEConnectionStateDisconnected):
		return PeerConnectionStateDisconnected
	case iceIn(ICEConnectionStateNew, ICEConnectionStateClosed) && dtlsIn(DTLSTransportStateNew, DTLSTransportStateClosed):
		return PeerConnectionStateNew
	case iceIn(ICEConnectionStateConnected, ICEConnectionStateCompleted, ICEConnectionStateClosed) &&
		dtlsIn(DTLSTransportStateConnected, DTLSTransportStateClosed):
		return PeerConnectionStateConnected
	default:
		return PeerConnectionStateConnecting
	}
}

type vfC22Step struct {
	Close bool `json:"close,omitempty"` // set the closed flag before this update
	ICE   int  `json:"ice"`             // index into vfC22ICE
	DTLS  int  `json:"dtls"`            // index into vfC22DTLS
}

type vfC22Case struct {
	Steps []vfC22Step `json:"steps"`
}

func vfC22Run(v *vfT, c vfC22Case) {
	pc, err := NewPeerConnection(Configuration{})
	if err != nil {
		v.Skip("NewPeerConnection failed: " + err.Error())
	}
	var mu sync.Mutex
	got := []PeerConnectionState{}
	pc.OnConnectionStateChange(func(s PeerConnectionState) {
		mu.Lock()
		got = append(got, s)
		mu.Unlock()
	})
	cur := pc.ConnectionState()
	if cur != PeerConnectionStateNew {
		v.Violation("C22/initial", "fresh PeerConnection reports %s, want new", cur)
	}
	want := []PeerConnectionState{}
	closed := false
	changes, same := 0, 0
	for i, st := range c.Steps {
		if st.Close && !closed {
			closed = true
			pc.isClosed.Store(true)
		}
		ice, dtls := vfC22ICE[st.ICE%len(vfC22ICE)], vfC22DTLS[st.DTLS%len(vfC22DTLS)]
		pc.updateConnectionState(ice, dtls)
		ref := vfC22Ref(closed, ice, dtls)
		if g := pc.ConnectionState(); g != ref {
			v.Violation("C22/aggregate", "step %d closed=%v ice=%s dtls=%s: ConnectionState()=%s, W3C aggregate=%s", i, closed, ice, dtls, g, ref)
		}
		if ref != cur {
			want = append(want, ref)
			cur = ref
			changes++
		} else {
			same++
		}
	}
	// deliveries: wait for the expected number, then give stragglers a moment
	deadline := time.Now().Add(5 * time.Second)
	for {
		mu.Lock()
		n := len(got)
		mu.Unlock()
		if n >= len(want) || time.Now().After(deadline) {
			break
		}
		time.Sleep(50 * time.Microsecond)
	}
	time.Sleep(300 * time.Microsecond)
	mu.Lock()
	g := append([]PeerConnectionState{}, got...)
	mu.Unlock()
	w := append([]PeerConnectionState{}, want...)
	sort.Slice(g, func(i, j int) bool { return g[i] < g[j] })
	sort.Slice(w, func(i, j int) bool { return w[i] < w[j] })
	eq := len(g) == len(w)
	for i := 0; eq && i < len(g); i++ {
		eq = g[i] == w[i]
	}
	if !eq {
		v.Violation("C22/notify", "handler deliveries (sorted) %v differ from the reference's changes (sorted) %v", g, w)
	}
	if changes > 0 && same > 0 {
		v.NonTrivial()
	}
	if closed {
		v.Label("with-close")
	}
	// release the connection for real (handler results no longer read)
	pc.OnConnectionStateChange(func(PeerConnectionState) {})
	pc.isClosed.Store(false)
	_ = pc.Close()
}

func TestVerif_C22_Exhaustive(t *testing.T) {
	var cases []vfC22Case
	for _, closed := range []bool{false, true} {
		for i := range vfC22ICE {
			for d := range vfC22DTLS {
				cases = append(cases, vfC22Case{Steps: []vfC22Step{{Close: closed, ICE: i, DTLS: d}}})
			}
		}
	}
	vfEnumerate(t, "C22", vfOpts{
		Rule: "exhaustive: closed{0,1} x 7 ICE x 5 DTLS states, one updateConnectionState call on a fresh PeerConnection each; every one of the 70 is distinct and counted non-trivial when the aggregate differs from the initial 'new'",
		Assumptions: []string{"one ICE transport and one DTLS transport per PeerConnection (pion bundles everything)",
			"reference = W3C RTCPeerConnectionState in the precedence order stated by the property"},
	}, cases, true, func(v *vfT, c vfC22Case) {
		st := c.Steps[0]
		if vfC22Ref(st.Close, vfC22ICE[st.ICE], vfC22DTLS[st.DTLS]) != PeerConnectionStateNew {
			v.NonTrivial()
		}
		vfC22RunNoNT(v, c)
	})
}

// vfC22RunNoNT runs the case but leaves the non-trivial mark to the caller.
func vfC22RunNoNT(v *vfT, c vfC22Case) {
	nt := v.nontrivial
	vfC22Run(v, c)
	v.nontrivial = nt
}

func TestVerif_C22_Sequences(t *testing.T) {
	vfProperty(t, "C22", vfOpts{
		Rule: "random sequences (1..30) of (ice,dtls) updates with the closed flag set at a drawn step; non-trivial = the sequence contains both an update that changes the aggregate and one that does not",
	}, func(v *vfT) vfC22Case {
		n := rapid.IntRange(1, 30).Draw(v.R, "n")
		closeAt := rapid.IntRange(-1, n-1).Draw(v.R, "closeAt")
		var c vfC22Case
		for i := 0; i < n; i++ {
			st := vfC22Step{ICE: rapid.IntRange(0, len(vfC22ICE)-1).Draw(v.R, "ice"), DTLS: rapid.IntRange(0, len(vfC22DTLS)-1).Draw(v.R, "dtls")}
			if i > 0 && rapid.IntRange(0, 3).Draw(v.R, "repeat") == 0 {
				st = c.Steps[i-1]
				st.Close = false
			}
			st.Close = i == closeAt
			c.Steps = append(c.Steps, st)
		}
		return c
	}, vfC22Run)
}
