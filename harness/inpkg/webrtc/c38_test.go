package webrtc

// C38 — Public value types survive their JSON and PEM encodings.
//
// Oracle: round trip. decode(encode(v)) must be accepted and equal v (exported fields,
// nil == empty for slices and maps), for
//   1. every enum over its declared constants incl. the zero value (exhaustive), through
//      encoding/json, through MarshalText/UnmarshalText where the type has them, and
//      through String()/NewXxx() where a parser exists (zero value only labelled there:
//      a parser that answers "unknown" with an error is not covered by the statement);
//   2. generated struct values (SessionDescription, ICECandidateInit, ICEServer incl. a nil
//      URL list, Configuration, ICECandidate, the ORTC parameter structs, every Stats
//      struct through UnmarshalStatsJSON with Type/Kind set coherently, finite floats);
//   3. certificates (ECDSA P-256/384/521, RSA-2048; NewCertificate templates and
//      GenerateCertificate) through PEM()/CertificateFromPEM: Equals both ways, same
//      fingerprints, same Expires().
//
// A struct value is described by (type name, number stream, string stream); a
// deterministic reflective filler turns the streams into the value, so cases are plain
// JSON, shrink towards the zero value, and replay without rapid.

import (
	"crypto"
	"crypto/ecdsa"
	"crypto/ed25519"
	"crypto/elliptic"
	"crypto/rand"
	"crypto/rsa"
	"crypto/x509"
	"crypto/x509/pkix"
	"encoding"
	"encoding/json"
	"fmt"
	"math"
	"math/big"
	"reflect"
	"sort"
	"strings"
	"sync"
	"testing"
	"time"
	"unicode/utf8"

	"pgregory.net/rapid"
)

// ---------------------------------------------------------------------------------------
// 1. enums

type vfC38EnumSpec struct {
	Name   string
	N      int
	Custom bool     // has its own JSON or text marshaller
	Encs   []string // json | text | string
	RT     func(v *vfT, idx int, enc string)
}

func vfC38Enum[T comparable](name string, parse func(string) (T, error), vals ...T) vfC38EnumSpec {
	var zero T
	spec := vfC38EnumSpec{Name: name, N: len(vals), Encs: []string{"json"}}
	if _, ok := any(zero).(encoding.TextMarshaler); ok {
		spec.Encs = append(spec.Encs, "text")
		spec.Custom = true
	}
	if _, ok := any(zero).(json.Marshaler); ok {
		spec.Custom = true
	}
	if parse != nil {
		spec.Encs = append(spec.Encs, "string")
	}
	spec.RT = func(v *vfT, idx int, enc string) {
		x := vals[idx%len(vals)]
		isZero := x == zero
		desc := fmt.Sprintf("%s(%v)", name, x)
		rejected := func(stage string, err error) {
			if isZero {
				v.Violation("C38/"+name+"/zero-rejected", "%s: %s of the zero value fails: %v", desc, stage, err)
			}
			v.Violation(fmt.Sprintf("C38/%s/%s/rejected/%v", name, enc, x), "%s: %s fails: %v", desc, stage, err)
		}
		mismatch := func(got T, wire string) {
			z := ""
			if isZero {
				z = "zero-"
			}
			v.Violation(fmt.Sprintf("C38/%s/%s/%smismatch", name, enc, z), "%s encodes to %q which decodes to %v", desc, wire, got)
		}
		switch enc {
		case "json":
			// bare, as a struct member and as a slice element
			b, err := json.Marshal(x)
			if err != nil {
				v.Violation("C38/"+name+"/json/encode-error", "%s: json.Marshal: %v", desc, err)
			}
			var y T
			if err := json.Unmarshal(b, &y); err != nil {
				rejected("json.Unmarshal("+string(b)+")", err)
			}
			if y != x {
				mismatch(y, string(b))
			}
			type holder struct {
				V T   `json:"v"`
				L []T `json:"l"`
			}
			h := holder{V: x, L: []T{x, x}}
			hb, err := json.Marshal(h)
			if err != nil {
				v.Violation("C38/"+name+"/json/encode-error", "%s inside a struct: json.Marshal: %v", desc, err)
			}
			var h2 holder
			if err := json.Unmarshal(hb, &h2); err != nil {
				rejected("json.Unmarshal("+string(hb)+")", err)
			}
			if h2.V != x || len(h2.L) != 2 || h2.L[0] != x || h2.L[1] != x {
				mismatch(h2.V, string(hb))
			}
		case "text":
			b, err := any(x).(encoding.TextMarshaler).MarshalText()
			if err != nil {
				v.Violation("C38/"+name+"/text/encode-error", "%s: MarshalText: %v", desc, err)
			}
			var y T
			if err := any(&y).(encoding.TextUnmarshaler).UnmarshalText(b); err != nil {
				rejected("UnmarshalText("+string(b)+")", err)
			}
			if y != x {
				mismatch(y, string(b))
			}
		case "string":
			s := any(x).(fmt.Stringer).String()
			y, err := parse(s)
			if isZero {
				// "unknown" is not a signalling token; whether its parser accepts it is not the
				// statement's business
				if err != nil || y != x {
					v.Label("enum-string-zero-not-parsed")
				}
				return
			}
			if err != nil {
				rejected("New"+name+"("+s+")", err)
			}
			if y != x {
				mismatch(y, s)
			}
		}
	}
	return spec
}

func vfC38NoErr[T any](f func(string) T) func(string) (T, error) {
	return func(s string) (T, error) { return f(s), nil }
}

var vfC38Enums = []vfC38EnumSpec{
	vfC38Enum("SDPType", vfC38NoErr(NewSDPType), SDPTypeUnknown, SDPTypeOffer, SDPTypePranswer, SDPTypeAnswer, SDPTypeRollback),
	vfC38Enum("SignalingState", vfC38NoErr(newSignalingState), SignalingStateUnknown, SignalingStateStable, SignalingStateHaveLocalOffer,
		SignalingStateHaveRemoteOffer, SignalingStateHaveLocalPranswer, SignalingStateHaveRemotePranswer, SignalingStateClosed),
	vfC38Enum("ICEConnectionState", vfC38NoErr(NewICEConnectionState), ICEConnectionStateUnknown, ICEConnectionStateNew, ICEConnectionStateChecking,
		ICEConnectionStateConnected, ICEConnectionStateCompleted, ICEConnectionStateDisconnected, ICEConnectionStateFailed, ICEConnectionStateClosed),
	vfC38Enum("ICEGatheringState", vfC38NoErr(NewICEGatheringState), ICEGatheringStateUnknown, ICEGatheringStateNew, ICEGatheringStateGathering, ICEGatheringStateComplete),
	vfC38Enum[ICEGathererState]("ICEGathererState", nil, ICEGathererStateUnknown, ICEGathererStateNew, ICEGathererStateGathering, ICEGathererStateComplete, ICEGathererStateClosed),
	vfC38Enum("ICETransportState", vfC38NoErr(newICETransportState), ICETransportStateUnknown, ICETransportStateNew, ICETransportStateChecking, ICETransportStateConnected,
		ICETransportStateCompleted, ICETransportStateFailed, ICETransportStateDisconnected, ICETransportStateClosed),
	vfC38Enum("DTLSTransportState", vfC38NoErr(newDTLSTransportState), DTLSTransportStateUnknown, DTLSTransportStateNew, DTLSTransportStateConnecting,
		DTLSTransportStateConnected, DTLSTransportStateClosed, DTLSTransportStateFailed),
	vfC38Enum("SCTPTransportState", vfC38NoErr(newSCTPTransportState), SCTPTransportStateUnknown, SCTPTransportStateConnecting, SCTPTransportStateConnected, SCTPTransportStateClosed),
	vfC38Enum("DataChannelState", vfC38NoErr(newDataChannelState), DataChannelStateUnknown, DataChannelStateConnecting, DataChannelStateOpen, DataChannelStateClosing, DataChannelStateClosed),
	vfC38Enum("PeerConnectionState", vfC38NoErr(newPeerConnectionState), PeerConnectionStateUnknown, PeerConnectionStateNew, PeerConnectionStateConnecting,
		PeerConnectionStateConnected, PeerConnectionStateDisconnected, PeerConnectionStateFailed, PeerConnectionStateClosed),
	vfC38Enum("BundlePolicy", vfC38NoErr(newBundlePolicy), BundlePolicyUnknown, BundlePolicyBalanced, BundlePolicyMaxCompat, BundlePolicyMaxBundle),
	vfC38Enum("RTCPMuxPolicy", vfC38NoErr(newRTCPMuxPolicy), RTCPMuxPolicyUnknown, RTCPMuxPolicyNegotiate, RTCPMuxPolicyRequire),
	vfC38Enum("ICETransportPolicy", vfC38NoErr(NewICETransportPolicy), ICETransportPolicyAll, ICETransportPolicyRelay, ICETransportPolicyNoHost),
	vfC38Enum("SDPSemantics", vfC38NoErr(newSDPSemantics), SDPSemanticsUnifiedPlan, SDPSemanticsPlanB, SDPSemanticsUnifiedPlanWithFallback),
	vfC38Enum("ICECredentialType", newICECredentialType, ICECredentialTypePassword, ICECredentialTypeOauth),
	vfC38Enum("ICERole", vfC38NoErr(newICERole), ICERoleUnknown, ICERoleControlling, ICERoleControlled),
	vfC38Enum("ICECandidateType", NewICECandidateType, ICECandidateTypeUnknown, ICECandidateTypeHost, ICECandidateTypeSrflx, ICECandidateTypePrflx, ICECandidateTypeRelay),
	vfC38Enum("ICEProtocol", NewICEProtocol, ICEProtocolUnknown, ICEProtocolUDP, ICEProtocolTCP),
	vfC38Enum("ICEComponent", vfC38NoErr(newICEComponent), ICEComponentUnknown, ICEComponentRTP, ICEComponentRTCP),
	vfC38Enum("NetworkType", NewNetworkType, NetworkTypeUnknown, NetworkTypeUDP4, NetworkTypeUDP6, NetworkTypeTCP4, NetworkTypeTCP6),
	vfC38Enum("RTPTransceiverDirection", vfC38NoErr(NewRTPTransceiverDirection), RTPTransceiverDirectionUnknown, RTPTransceiverDirectionSendrecv,
		RTPTransceiverDirectionSendonly, RTPTransceiverDirectionRecvonly, RTPTransceiverDirectionInactive),
	vfC38Enum("RTPCodecType", vfC38NoErr(NewRTPCodecType), RTPCodecTypeUnknown, RTPCodecTypeAudio, RTPCodecTypeVideo),
	vfC38Enum[DTLSRole]("DTLSRole", nil, DTLSRoleUnknown, DTLSRoleAuto, DTLSRoleClient, DTLSRoleServer),
	vfC38Enum[ICETrickleCapability]("ICETrickleCapability", nil, ICETrickleCapabilityUnknown, ICETrickleCapabilitySupported, ICETrickleCapabilityUnsupported),
	vfC38Enum[StatsType]("StatsType", nil, "", StatsTypeCodec, StatsTypeInboundRTP, StatsTypeOutboundRTP, StatsTypeRemoteInboundRTP, StatsTypeRemoteOutboundRTP,
		StatsTypeCSRC, StatsTypeMediaSource, StatsTypeMediaPlayout, StatsTypePeerConnection, StatsTypeDataChannel, StatsTypeStream, StatsTypeTrack, StatsTypeSender,
		StatsTypeReceiver, StatsTypeTransport, StatsTypeCandidatePair, StatsTypeLocalCandidate, StatsTypeRemoteCandidate, StatsTypeCertificate, StatsTypeSCTPTransport),
	vfC38Enum[MediaKind]("MediaKind", nil, "", MediaKindAudio, MediaKindVideo),
	vfC38Enum[CodecType]("CodecType", nil, "", CodecTypeEncode, CodecTypeDecode),
	vfC38Enum[SCTPTransportPartialReliabilityMode]("SCTPTransportPartialReliabilityMode", nil, "", SCTPTransportPartialReliabilityModeNone,
		SCTPTransportPartialReliabilityModeForwardTSN, SCTPTransportPartialReliabilityModeIForwardTSN),
}

type vfC38EnumCase struct {
	Type string `json:"type"`
	Idx  int    `json:"idx"`
	Enc  string `json:"enc"`
}

func TestVerif_C38_Enums(t *testing.T) {
	byName := map[string]vfC38EnumSpec{}
	var cases []vfC38EnumCase
	for _, e := range vfC38Enums {
		byName[e.Name] = e
		for i := 0; i < e.N; i++ {
			for _, enc := range e.Encs {
				cases = append(cases, vfC38EnumCase{e.Name, i, enc})
			}
		}
	}
	vfEnumerate(t, "C38", vfOpts{
		Rule: "exhaustive: every declared constant (incl. the zero value) of 28 public enum types x {encoding/json bare + struct member + slice element, MarshalText/UnmarshalText where defined, String()/NewXxx() where a parser exists}; non-trivial = the type has its own marshaller or parser (a plain integer encoding cannot fail)",
		Assumptions: []string{"decoding is into a fresh zero variable",
			"String()/NewXxx() of the zero value (\"unknown\") is only counted, not asserted"},
	}, cases, true, func(v *vfT, c vfC38EnumCase) {
		e, ok := byName[c.Type]
		if !ok || c.Idx < 0 {
			v.Skip("unknown enum type in case")
		}
		has := false
		for _, enc := range e.Encs {
			has = has || enc == c.Enc
		}
		if !has {
			v.Skip("encoding not defined for this type")
		}
		if e.Custom || c.Enc != "json" {
			v.NonTrivial()
		}
		v.Label("enc=" + c.Enc)
		if c.Idx%e.N == 0 {
			v.Label("first-constant(zero)")
		}
		e.RT(v, c.Idx, c.Enc)
	})
}

// ---------------------------------------------------------------------------------------
// 2. struct values

type vfC38StatsSpec struct {
	typ  reflect.Type
	st   []StatsType
	kind string // "" = Kind is an ordinary field
}

var vfC38Stats = map[string]vfC38StatsSpec{
	"CodecStats":                      {reflect.TypeOf(CodecStats{}), []StatsType{StatsTypeCodec}, ""},
	"InboundRTPStreamStats":           {reflect.TypeOf(InboundRTPStreamStats{}), []StatsType{StatsTypeInboundRTP}, ""},
	"OutboundRTPStreamStats":          {reflect.TypeOf(OutboundRTPStreamStats{}), []StatsType{StatsTypeOutboundRTP}, ""},
	"RemoteInboundRTPStreamStats":     {reflect.TypeOf(RemoteInboundRTPStreamStats{}), []StatsType{StatsTypeRemoteInboundRTP}, ""},
	"RemoteOutboundRTPStreamStats":    {reflect.TypeOf(RemoteOutboundRTPStreamStats{}), []StatsType{StatsTypeRemoteOutboundRTP}, ""},
	"RTPContributingSourceStats":      {reflect.TypeOf(RTPContributingSourceStats{}), []StatsType{StatsTypeCSRC}, ""},
	"AudioSourceStats":                {reflect.TypeOf(AudioSourceStats{}), []StatsType{StatsTypeMediaSource}, "audio"},
	"VideoSourceStats":                {reflect.TypeOf(VideoSourceStats{}), []StatsType{StatsTypeMediaSource}, "video"},
	"AudioPlayoutStats":               {reflect.TypeOf(AudioPlayoutStats{}), []StatsType{StatsTypeMediaPlayout}, ""},
	"PeerConnectionStats":             {reflect.TypeOf(PeerConnectionStats{}), []StatsType{StatsTypePeerConnection}, ""},
	"DataChannelStats":                {reflect.TypeOf(DataChannelStats{}), []StatsType{StatsTypeDataChannel}, ""},
	"MediaStreamStats":                {reflect.TypeOf(MediaStreamStats{}), []StatsType{StatsTypeStream}, ""},
	"AudioSenderStats":                {reflect.TypeOf(AudioSenderStats{}), []StatsType{StatsTypeSender}, "audio"},
	"VideoSenderStats":                {reflect.TypeOf(VideoSenderStats{}), []StatsType{StatsTypeSender}, "video"},
	"SenderAudioTrackAttachmentStats": {reflect.TypeOf(SenderAudioTrackAttachmentStats{}), []StatsType{StatsTypeTrack}, "audio"},
	"SenderVideoTrackAttachmentStats": {reflect.TypeOf(SenderVideoTrackAttachmentStats{}), []StatsType{StatsTypeTrack}, "video"},
	"AudioReceiverStats":              {reflect.TypeOf(AudioReceiverStats{}), []StatsType{StatsTypeReceiver}, "audio"},
	"VideoReceiverStats":              {reflect.TypeOf(VideoReceiverStats{}), []StatsType{StatsTypeReceiver}, "video"},
	"TransportStats":                  {reflect.TypeOf(TransportStats{}), []StatsType{StatsTypeTransport}, ""},
	"ICECandidatePairStats":           {reflect.TypeOf(ICECandidatePairStats{}), []StatsType{StatsTypeCandidatePair}, ""},
	"ICECandidateStats":               {reflect.TypeOf(ICECandidateStats{}), []StatsType{StatsTypeLocalCandidate, StatsTypeRemoteCandidate}, ""},
	"CertificateStats":                {reflect.TypeOf(CertificateStats{}), []StatsType{StatsTypeCertificate}, ""},
	"SCTPTransportStats":              {reflect.TypeOf(SCTPTransportStats{}), []StatsType{StatsTypeSCTPTransport}, ""},
}

var vfC38Plain = map[string]reflect.Type{
	"SessionDescription":    reflect.TypeOf(SessionDescription{}),
	"ICECandidateInit":      reflect.TypeOf(ICECandidateInit{}),
	"ICEServer":             reflect.TypeOf(ICEServer{}),
	"Configuration":         reflect.TypeOf(Configuration{}),
	"ICECandidate":          reflect.TypeOf(ICECandidate{}),
	"OAuthCredential":       reflect.TypeOf(OAuthCredential{}),
	"DTLSParameters":        reflect.TypeOf(DTLSParameters{}),
	"DTLSFingerprint":       reflect.TypeOf(DTLSFingerprint{}),
	"ICEParameters":         reflect.TypeOf(ICEParameters{}),
	"ICEGatherOptions":      reflect.TypeOf(ICEGatherOptions{}),
	"SCTPCapabilities":      reflect.TypeOf(SCTPCapabilities{}),
	"RTPCodingParameters":   reflect.TypeOf(RTPCodingParameters{}),
	"DataChannelParameters": reflect.TypeOf(DataChannelParameters{}),
	"DataChannelInit":       reflect.TypeOf(DataChannelInit{}),
	"RTPCodecParameters":    reflect.TypeOf(RTPCodecParameters{}),
	"RTPParameters":         reflect.TypeOf(RTPParameters{}),
	"RTPCapabilities":       reflect.TypeOf(RTPCapabilities{}),
	"SCTPTransportMetadata": reflect.TypeOf(SCTPTransportMetadata{}),
}

// the types named by the statement get most of the budget
var vfC38Core = []string{"SessionDescription", "ICECandidateInit", "ICEServer", "Configuration"}

func vfC38SortedKeys[V any](m map[string]V) []string {
	ks := make([]string, 0, len(m))
	for k := range m {
		ks = append(ks, k)
	}
	sort.Strings(ks)
	return ks
}

// declared constants of the enum types that occur as struct fields
var vfC38FieldEnums = map[reflect.Type][]int64{
	reflect.TypeOf(SDPType(0)):            {0, 1, 2, 3, 4},
	reflect.TypeOf(ICETransportPolicy(0)): {0, 1, 2},
	reflect.TypeOf(BundlePolicy(0)):       {0, 1, 2, 3},
	reflect.TypeOf(RTCPMuxPolicy(0)):      {0, 1, 2},
	reflect.TypeOf(SDPSemantics(0)):       {0, 1, 2},
	reflect.TypeOf(ICECredentialType(0)):  {0, 1},
	reflect.TypeOf(ICEProtocol(0)):        {0, 1, 2},
	reflect.TypeOf(ICECandidateType(0)):   {0, 1, 2, 3, 4},
	reflect.TypeOf(ICERole(0)):            {0, 1, 2},
	reflect.TypeOf(DTLSTransportState(0)): {0, 1, 2, 3, 4, 5},
	reflect.TypeOf(ICETransportState(0)):  {0, 1, 2, 3, 4, 5, 6, 7},
	reflect.TypeOf(DataChannelState(0)):   {0, 1, 2, 3, 4},
	reflect.TypeOf(DTLSRole(0)):           {0, 1, 2, 3},
}

// declared constants of the string-typed enums that occur as struct fields
var vfC38StringEnums = map[reflect.Type][]string{
	reflect.TypeOf(SCTPTransportPartialReliabilityMode("")): {"none", "forward-tsn", "i-forward-tsn"},
	reflect.TypeOf(QualityLimitationReason("")):             {"none", "cpu", "bandwidth", "other"},
	reflect.TypeOf(StatsICECandidatePairState("")):          {"frozen", "waiting", "in-progress", "failed", "succeeded"},
	reflect.TypeOf(CodecType("")):                           {"encode", "decode"},
	reflect.TypeOf(MediaKind("")):                           {"audio", "video"},
}

type vfC38Stream struct {
	nums []uint64
	strs []string
	ni   int
	si   int
	// ptrMode forces every pointer / nested struct of the value: 0 = drawn per field from the
	// stream, 1 = non-nil pointer to the zero value, 2 = non-nil pointer to the "defaults" value
	// (all zero except string enums, which hold their first declared constant, e.g. "none")
	ptrMode int
	depth   int
}

// vfC38FillDefaults: zero everywhere, string enums at their first declared constant,
// nested pointers non-nil.
func vfC38FillDefaults(rv reflect.Value, depth int) {
	t := rv.Type()
	if t == vfC38TICEServer || t == vfC38TCertificate {
		return
	}
	if vals, ok := vfC38StringEnums[t]; ok {
		rv.SetString(vals[0])
		return
	}
	switch t.Kind() {
	case reflect.Ptr:
		if depth < 4 {
			p := reflect.New(t.Elem())
			vfC38FillDefaults(p.Elem(), depth+1)
			rv.Set(p)
		}
	case reflect.Struct:
		for i := 0; i < t.NumField(); i++ {
			if t.Field(i).IsExported() {
				vfC38FillDefaults(rv.Field(i), depth+1)
			}
		}
	}
}

func (s *vfC38Stream) num() uint64 {
	if len(s.nums) == 0 {
		return 0
	}
	n := s.nums[s.ni%len(s.nums)]
	s.ni++
	return n
}

func (s *vfC38Stream) str() string {
	if len(s.strs) == 0 {
		return ""
	}
	x := s.strs[s.si%len(s.strs)]
	s.si++
	if !utf8.ValidString(x) { // JSON is Unicode text; invalid UTF-8 is outside its domain
		return strings.ToValidUTF8(x, "?")
	}
	return x
}

func vfC38Float(n uint64) float64 {
	val := n >> 3
	var f float64
	switch n & 7 {
	case 0:
		f = 0
	case 1:
		f = float64(val % 1000)
	case 2:
		f = float64(val%100000) / 1000
	case 3:
		f = math.Float64frombits(n)
	case 4:
		f = -float64(val%1000) / 8
	case 5:
		f = math.MaxFloat64
	case 6:
		f = math.SmallestNonzeroFloat64
	default:
		f = 1e21 * float64(val%10) // where strconv switches to exponent form
	}
	if math.IsNaN(f) || math.IsInf(f, 0) {
		return 0
	}
	return f
}

func vfC38Uint(n uint64, bits int) uint64 {
	max := uint64(math.MaxUint64)
	if bits < 64 {
		max = 1<<uint(bits) - 1
	}
	switch n & 7 {
	case 0:
		return 0
	case 1:
		return 1
	case 2:
		return max
	case 3:
		return (n >> 3) % 256 & max
	default:
		return (n >> 3) & max
	}
}

func vfC38Int(n uint64, bits int) int64 {
	u := vfC38Uint(n, bits)
	// reinterpret in the field's width
	switch bits {
	case 8:
		return int64(int8(u))
	case 16:
		return int64(int16(u))
	case 32:
		return int64(int32(u))
	default:
		return int64(u)
	}
}

var (
	vfC38TICEServer    = reflect.TypeOf(ICEServer{})
	vfC38TCertificate  = reflect.TypeOf(Certificate{})
	vfC38TSDPType      = reflect.TypeOf(SDPType(0))
	vfC38TCandType     = reflect.TypeOf(ICECandidateType(0))
	vfC38TStatsType    = reflect.TypeOf(StatsType(""))
)

func vfC38FillICEServer(s *vfC38Stream) ICEServer {
	var srv ICEServer
	n := s.num()
	switch n & 3 {
	case 0:
		srv.URLs = nil
	case 1:
		srv.URLs = []string{}
	default:
		k := int(n>>2)%3 + 1
		for i := 0; i < k; i++ {
			if (n>>(4+uint(i)))&1 == 0 {
				srv.URLs = append(srv.URLs, []string{"stun:stun.example.org:3478", "turn:turn.example.org?transport=tcp", "turns:192.0.2.1:5349", "stun:[2001:db8::1]"}[int(n>>8)%4])
			} else {
				srv.URLs = append(srv.URLs, s.str())
			}
		}
	}
	if n&(1<<20) != 0 {
		srv.Username = s.str()
	}
	switch (n >> 21) & 7 {
	case 0: // no credential, default type
	case 1:
		srv.CredentialType = ICECredentialTypePassword
		srv.Credential = s.str()
	case 2:
		srv.CredentialType = ICECredentialTypePassword
		srv.Credential = ""
	case 3:
		srv.CredentialType = ICECredentialTypeOauth
		srv.Credential = OAuthCredential{MACKey: s.str(), AccessToken: s.str()}
	case 4:
		srv.CredentialType = ICECredentialTypeOauth
		srv.Credential = OAuthCredential{}
	case 5:
		srv.CredentialType = ICECredentialTypeOauth // type announced, credential not set yet
	default:
		srv.CredentialType = ICECredentialTypePassword
		srv.Credential = s.str()
	}
	return srv
}

// vfC38Fill sets rv (addressable) from the streams. depth bounds recursion through slices.
func vfC38Fill(rv reflect.Value, s *vfC38Stream) {
	t := rv.Type()
	if t == vfC38TICEServer {
		rv.Set(reflect.ValueOf(vfC38FillICEServer(s)))
		return
	}
	if t == vfC38TCertificate {
		return
	}
	if vals, ok := vfC38FieldEnums[t]; ok {
		x := vals[int(s.num()%uint64(len(vals)))]
		if rv.CanInt() {
			rv.SetInt(x)
		} else {
			rv.SetUint(uint64(x))
		}
		return
	}
	if vals, ok := vfC38StringEnums[t]; ok {
		// zero, a declared constant, or an arbitrary string
		switch n := s.num(); n & 3 {
		case 0:
			rv.SetString("")
		case 1:
			rv.SetString(s.str())
		default:
			rv.SetString(vals[int(n>>2)%len(vals)])
		}
		return
	}
	switch t.Kind() {
	case reflect.Bool:
		rv.SetBool(s.num()&1 == 1)
	case reflect.Int, reflect.Int8, reflect.Int16, reflect.Int32, reflect.Int64:
		rv.SetInt(vfC38Int(s.num(), t.Bits()))
	case reflect.Uint, reflect.Uint8, reflect.Uint16, reflect.Uint32, reflect.Uint64:
		rv.SetUint(vfC38Uint(s.num(), t.Bits()))
	case reflect.Float32, reflect.Float64:
		rv.SetFloat(vfC38Float(s.num()))
	case reflect.String:
		if s.num()&3 == 0 {
			rv.SetString("")
		} else {
			rv.SetString(s.str())
		}
	case reflect.Ptr:
		// {nil, pointer to the zero value, pointer to the defaults value, pointer to a drawn value}
		mode := int(s.num() & 3)
		if s.ptrMode != 0 {
			mode = s.ptrMode
		}
		p := reflect.New(t.Elem())
		switch mode {
		case 0:
			rv.Set(reflect.Zero(t))
			return
		case 1:
		case 2:
			vfC38FillDefaults(p.Elem(), 0)
		default:
			vfC38Fill(p.Elem(), s)
		}
		rv.Set(p)
	case reflect.Slice:
		n := s.num()
		k := int(n>>1) % 4
		if k == 0 {
			if n&1 == 0 {
				rv.Set(reflect.Zero(t))
			} else {
				rv.Set(reflect.MakeSlice(t, 0, 0))
			}
			return
		}
		sl := reflect.MakeSlice(t, k, k)
		for i := 0; i < k; i++ {
			vfC38Fill(sl.Index(i), s)
		}
		rv.Set(sl)
	case reflect.Map:
		n := s.num()
		k := int(n>>1) % 3
		if k == 0 && n&1 == 0 {
			rv.Set(reflect.Zero(t))
			return
		}
		m := reflect.MakeMap(t)
		for i := 0; i < k; i++ {
			key := reflect.New(t.Key()).Elem()
			key.SetString(s.str())
			val := reflect.New(t.Elem()).Elem()
			vfC38Fill(val, s)
			m.SetMapIndex(key, val)
		}
		rv.Set(m)
	case reflect.Struct:
		if s.depth > 0 {
			// a nested struct value: zero / defaults / drawn
			switch s.num() & 3 {
			case 0:
				return
			case 1:
				vfC38FillDefaults(rv, 0)
				return
			}
		}
		s.depth++
		for i := 0; i < t.NumField(); i++ {
			f := t.Field(i)
			if !f.IsExported() {
				continue
			}
			vfC38Fill(rv.Field(i), s)
		}
		s.depth--
	case reflect.Interface:
		// only ICEServer.Credential, handled above
	}
}

// vfC38Eq compares exported state; nil == empty for slices and maps. It returns "" or the
// path (indices stripped) of the first difference plus a description.
func vfC38Eq(a, b reflect.Value, path string) (string, string) {
	if a.Type() != b.Type() {
		return path, fmt.Sprintf("type %s vs %s", a.Type(), b.Type())
	}
	switch a.Kind() {
	case reflect.Bool:
		if a.Bool() != b.Bool() {
			return path, fmt.Sprintf("%v vs %v", a.Bool(), b.Bool())
		}
	case reflect.Int, reflect.Int8, reflect.Int16, reflect.Int32, reflect.Int64:
		if a.Int() != b.Int() {
			return path, fmt.Sprintf("%d vs %d", a.Int(), b.Int())
		}
	case reflect.Uint, reflect.Uint8, reflect.Uint16, reflect.Uint32, reflect.Uint64:
		if a.Uint() != b.Uint() {
			return path, fmt.Sprintf("%d vs %d", a.Uint(), b.Uint())
		}
	case reflect.Float32, reflect.Float64:
		if a.Float() != b.Float() {
			return path, fmt.Sprintf("%v vs %v", a.Float(), b.Float())
		}
	case reflect.String:
		if a.String() != b.String() {
			return path, fmt.Sprintf("%q vs %q", a.String(), b.String())
		}
	case reflect.Ptr, reflect.Interface:
		if a.IsNil() != b.IsNil() {
			return path, fmt.Sprintf("nil=%v vs nil=%v", a.IsNil(), b.IsNil())
		}
		if !a.IsNil() {
			return vfC38Eq(a.Elem(), b.Elem(), path)
		}
	case reflect.Slice:
		if a.Len() != b.Len() {
			return path, fmt.Sprintf("len %d vs %d", a.Len(), b.Len())
		}
		for i := 0; i < a.Len(); i++ {
			if p, d := vfC38Eq(a.Index(i), b.Index(i), path+"[]"); d != "" {
				return p, d
			}
		}
	case reflect.Map:
		if a.Len() != b.Len() {
			return path, fmt.Sprintf("len %d vs %d", a.Len(), b.Len())
		}
		keys := a.MapKeys()
		sort.Slice(keys, func(i, j int) bool { return keys[i].String() < keys[j].String() })
		for _, k := range keys {
			bv := b.MapIndex(k)
			if !bv.IsValid() {
				return path + "{}", fmt.Sprintf("key %q lost", k.String())
			}
			if p, d := vfC38Eq(a.MapIndex(k), bv, path+"{}"); d != "" {
				return p, d
			}
		}
	case reflect.Struct:
		t := a.Type()
		for i := 0; i < t.NumField(); i++ {
			f := t.Field(i)
			if !f.IsExported() {
				continue
			}
			if p, d := vfC38Eq(a.Field(i), b.Field(i), path+"."+f.Name); d != "" {
				return p, d
			}
		}
	}
	return "", ""
}

// vfC38Causes lists the features of a value that are known decoder blind spots; it turns
// "decoder rejected its own encoder's output" into a root-cause class key.
func vfC38Causes(rv reflect.Value, out map[string]bool) {
	t := rv.Type()
	switch {
	case t == vfC38TICEServer:
		if rv.Interface().(ICEServer).URLs == nil {
			out["ICEServer/nil-urls-rejected"] = true
		}
		return
	case t == vfC38TSDPType:
		if rv.Int() == 0 {
			out["SDPType/zero-rejected"] = true
		}
		return
	case t == vfC38TCandType:
		if rv.Int() == 0 {
			out["ICECandidateType/zero-rejected"] = true
		}
		return
	}
	switch rv.Kind() {
	case reflect.Ptr, reflect.Interface:
		if !rv.IsNil() {
			vfC38Causes(rv.Elem(), out)
		}
	case reflect.Slice:
		for i := 0; i < rv.Len(); i++ {
			vfC38Causes(rv.Index(i), out)
		}
	case reflect.Struct:
		for i := 0; i < t.NumField(); i++ {
			if t.Field(i).IsExported() {
				vfC38Causes(rv.Field(i), out)
			}
		}
	}
}

type vfC38ValueCase struct {
	T    string   `json:"t"`
	Nums []uint64 `json:"nums"`
	Strs []string `json:"strs"`
	// Ptr: 0 = every pointer drawn from the stream (nil / ->zero / ->defaults / ->drawn),
	// 1 = every pointer non-nil and pointing at the zero value, 2 = at the defaults value
	Ptr int `json:"ptr,omitempty"`
}

// vfC38Build constructs the value a case denotes (pointer to the struct).
func vfC38Build(c vfC38ValueCase) (reflect.Value, *vfC38StatsSpec) {
	s := &vfC38Stream{nums: c.Nums, strs: c.Strs}
	if c.Ptr == 1 || c.Ptr == 2 {
		s.ptrMode = c.Ptr
	}
	if spec, ok := vfC38Stats[c.T]; ok {
		p := reflect.New(spec.typ)
		sel := s.num()
		vfC38Fill(p.Elem(), s)
		if f := p.Elem().FieldByName("Type"); f.IsValid() && f.Type() == vfC38TStatsType {
			f.SetString(string(spec.st[int(sel%uint64(len(spec.st)))]))
		}
		if spec.kind != "" {
			p.Elem().FieldByName("Kind").SetString(spec.kind)
		}
		return p, &spec
	}
	if t, ok := vfC38Plain[c.T]; ok {
		p := reflect.New(t)
		vfC38Fill(p.Elem(), s)
		return p, nil
	}
	return reflect.Value{}, nil
}

func vfC38RunValue(v *vfT, c vfC38ValueCase) {
	p, spec := vfC38Build(c)
	if !p.IsValid() {
		v.Skip("unknown type in case")
	}
	val := p.Elem()
	v.Label("type=" + c.T)
	vfC38PtrLabels(v, val)
	if val.IsZero() {
		v.Label("zero-value")
	} else {
		v.NonTrivial()
	}
	b, err := json.Marshal(val.Interface())
	if err != nil {
		v.Violation("C38/"+c.T+"/encode-error", "json.Marshal(%#v): %v", val.Interface(), err)
	}
	var back reflect.Value
	if spec != nil {
		st, err := UnmarshalStatsJSON(b)
		if err == nil {
			back = reflect.ValueOf(st)
		} else {
			vfC38Rejected(v, c.T, val, b, "UnmarshalStatsJSON", err)
		}
	} else {
		q := reflect.New(val.Type())
		if err := json.Unmarshal(b, q.Interface()); err != nil {
			vfC38Rejected(v, c.T, val, b, "json.Unmarshal", err)
		}
		back = q.Elem()
	}
	if path, diff := vfC38Eq(val, back, ""); diff != "" {
		v.Violation("C38/"+c.T+"/mismatch/"+strings.TrimPrefix(path, "."), "%s: field %s differs after the round trip (%s); wire form %s", c.T, path, diff, vfC38Clip(string(b)))
	}
	// encoding through a pointer must give the same bytes (value-receiver marshalers)
	if b2, err := json.Marshal(p.Interface()); err != nil || string(b2) != string(b) {
		v.Violation("C38/"+c.T+"/pointer-encoding-differs", "json.Marshal(&v) = %s, %v; json.Marshal(v) = %s", vfC38Clip(string(b2)), err, vfC38Clip(string(b)))
	}
}

// vfC38PtrLabels counts which pointer shapes a value contains.
func vfC38PtrLabels(v *vfT, rv reflect.Value) {
	switch rv.Kind() {
	case reflect.Ptr:
		switch {
		case rv.IsNil():
			v.Label("pointer=nil")
		case rv.Elem().IsZero():
			v.Label("pointer->zero-value")
		default:
			d := reflect.New(rv.Type().Elem())
			vfC38FillDefaults(d.Elem(), 0)
			if _, diff := vfC38Eq(rv.Elem(), d.Elem(), ""); diff == "" {
				v.Label("pointer->defaults-value")
			} else {
				v.Label("pointer->other")
			}
			vfC38PtrLabels(v, rv.Elem())
		}
	case reflect.Struct:
		for i := 0; i < rv.NumField(); i++ {
			if rv.Type().Field(i).IsExported() {
				vfC38PtrLabels(v, rv.Field(i))
			}
		}
	case reflect.Slice:
		for i := 0; i < rv.Len(); i++ {
			vfC38PtrLabels(v, rv.Index(i))
		}
	}
}

func vfC38Clip(s string) string {
	if len(s) > 400 {
		return s[:400] + "…"
	}
	return s
}

func vfC38Rejected(v *vfT, name string, val reflect.Value, wire []byte, fn string, err error) {
	causes := map[string]bool{}
	vfC38Causes(val, causes)
	if len(causes) > 0 {
		ks := vfC38SortedKeys(causes)
		v.Violation("C38/"+ks[0], "%s: %s rejects the encoder's own output %s: %v (features: %v)", name, fn, vfC38Clip(string(wire)), err, ks)
	}
	v.Violation("C38/"+name+"/decode-rejected", "%s: %s rejects the encoder's own output %s: %v", name, fn, vfC38Clip(string(wire)), err)
}

var vfC38OddStrings = []string{
	"", " ", "\"", "\\", "\n", "\x00", "\t\r", "<script>&amp;", "  ", "null", "true", "0", "é", "日本語", "😀", "a=b c", "{}", "[\"x\"]",
	"v=0\r\no=- 0 0 IN IP4 0.0.0.0\r\ns=-\r\nt=0 0\r\n", "candidate:1 1 udp 1 192.0.2.1 9 typ host", "�", " ", "\U0010ffff", "\x7f",
	strings.Repeat("x", 300),
}

func vfC38GenValue(v *vfT) vfC38ValueCase {
	var c vfC38ValueCase
	switch rapid.IntRange(0, 9).Draw(v.R, "group") {
	case 0, 1, 2, 3:
		c.T = rapid.SampledFrom(vfC38Core).Draw(v.R, "core")
	case 4, 5:
		c.T = rapid.SampledFrom(vfC38SortedKeys(vfC38Plain)).Draw(v.R, "plain")
	default:
		c.T = rapid.SampledFrom(vfC38SortedKeys(vfC38Stats)).Draw(v.R, "stats")
	}
	c.Nums = rapid.SliceOfN(rapid.Uint64(), 0, 150).Draw(v.R, "nums")
	str := rapid.OneOf(rapid.SampledFrom(vfC38OddStrings), rapid.String(), rapid.StringN(0, 6, 12))
	c.Strs = rapid.SliceOfN(str, 0, 6).Draw(v.R, "strs")
	c.Ptr = rapid.SampledFrom([]int{0, 0, 0, 1, 2}).Draw(v.R, "ptr")
	return c
}

func TestVerif_C38_Values(t *testing.T) {
	vfProperty(t, "C38", vfOpts{
		Rule: "one generated value of one of 41 public struct types (4 core types named by the statement 40 %, other JSON-tagged structs 20 %, the 23 Stats structs 40 %) encoded with encoding/json and decoded with json.Unmarshal / UnmarshalStatsJSON; non-trivial = the value is not the type's zero value",
		Assumptions: []string{"strings are valid UTF-8 (JSON is Unicode text)", "floats are finite",
			"Stats values carry the Type (and Kind where the decoder dispatches on it) that belongs to their Go type",
			"ICEServer credentials are coherent with CredentialType (password -> string, oauth -> OAuthCredential, or unset)",
			"equality = exported fields, nil == empty for slices and maps; Configuration.Certificates is not JSON-serialisable and left empty"},
	}, vfC38GenValue, vfC38RunValue)
}

// hand-picked corner values named by the statement, so they are evaluated in every run
func TestVerif_C38_Corners(t *testing.T) {
	var cases []vfC38ValueCase
	for _, n := range vfC38SortedKeys(vfC38Plain) {
		cases = append(cases, vfC38ValueCase{T: n}) // zero value of every type
		cases = append(cases, vfC38ValueCase{T: n, Nums: []uint64{1, 3, 5, 7, 2, 10, 13}, Strs: []string{"x", ""}})
	}
	for _, n := range vfC38SortedKeys(vfC38Stats) {
		cases = append(cases, vfC38ValueCase{T: n})
		cases = append(cases, vfC38ValueCase{T: n, Nums: []uint64{1, 3, 5, 7, 2, 10, 13}, Strs: []string{"x", ""}})
	}
	for _, n := range append(vfC38SortedKeys(vfC38Plain), vfC38SortedKeys(vfC38Stats)...) {
		for _, pm := range []int{1, 2} { // every pointer non-nil: -> zero value, -> defaults ("none", ...)
			cases = append(cases, vfC38ValueCase{T: n, Ptr: pm})
			cases = append(cases, vfC38ValueCase{T: n, Ptr: pm, Nums: []uint64{1, 3, 5, 7, 2, 10, 13}, Strs: []string{"x", ""}})
		}
	}
	// ICEServer: nil URLs, empty URLs, one URL
	cases = append(cases, vfC38ValueCase{T: "ICEServer", Nums: []uint64{0}}, vfC38ValueCase{T: "ICEServer", Nums: []uint64{1}},
		vfC38ValueCase{T: "ICEServer", Nums: []uint64{2 | 1<<20 | 1<<21}, Strs: []string{"user", "pass"}},
		vfC38ValueCase{T: "ICEServer", Nums: []uint64{2 | 1<<20 | 3<<21}, Strs: []string{"user", "mac", "token"}})
	vfEnumerate(t, "C38", vfOpts{
		Rule: "fixed corner values: the zero value and one small non-zero value of every struct type, ICEServer with nil / empty / one URL and password / OAuth credentials; non-trivial = not the zero value",
	}, cases, false, vfC38RunValue)
}

// ---------------------------------------------------------------------------------------
// 3. certificates

type vfC38CertCase struct {
	Key      int    `json:"key"`      // index into the key pool
	Generate bool   `json:"generate"` // GenerateCertificate instead of a template
	NotAfter int64  `json:"not_after"`
	Validity int64  `json:"validity_s"`
	CN       string `json:"cn"`
	Serial   uint64 `json:"serial"`
	Ed25519  bool   `json:"ed25519,omitempty"` // CertificateFromX509 with an Ed25519 key (label only)
}

var (
	vfC38KeyOnce  sync.Once
	vfC38Keys     []crypto.PrivateKey
	vfC38KeyNames = []string{"ecdsa-p256", "ecdsa-p256", "ecdsa-p256", "ecdsa-p384", "ecdsa-p521", "rsa-2048"}
)

func vfC38KeyPool() []crypto.PrivateKey {
	vfC38KeyOnce.Do(func() {
		for _, n := range vfC38KeyNames {
			var k crypto.PrivateKey
			var err error
			switch n {
			case "ecdsa-p256":
				k, err = ecdsa.GenerateKey(elliptic.P256(), rand.Reader)
			case "ecdsa-p384":
				k, err = ecdsa.GenerateKey(elliptic.P384(), rand.Reader)
			case "ecdsa-p521":
				k, err = ecdsa.GenerateKey(elliptic.P521(), rand.Reader)
			default:
				k, err = rsa.GenerateKey(rand.Reader, 2048)
			}
			if err != nil {
				panic(err)
			}
			vfC38Keys = append(vfC38Keys, k)
		}
	})
	return vfC38Keys
}

func vfC38RunCert(v *vfT, c vfC38CertCase) {
	keys := vfC38KeyPool()
	ki := ((c.Key % len(keys)) + len(keys)) % len(keys)
	v.Label("key=" + vfC38KeyNames[ki])
	notAfter := time.Unix(c.NotAfter, 0).UTC()
	val := c.Validity
	if val < 0 {
		val = -val
	}
	tpl := x509.Certificate{
		SerialNumber: new(big.Int).SetUint64(c.Serial),
		Subject:      pkix.Name{CommonName: c.CN},
		Issuer:       pkix.Name{CommonName: c.CN},
		NotBefore:    notAfter.Add(-time.Duration(val%(400*86400)) * time.Second),
		NotAfter:     notAfter,
	}
	var cert *Certificate
	var err error
	switch {
	case c.Ed25519:
		// outside the asserted domain (NewCertificate refuses Ed25519); only counted
		_, sk, e := ed25519.GenerateKey(rand.Reader)
		if e != nil {
			v.Skip("ed25519 keygen")
		}
		der, e := x509.CreateCertificate(rand.Reader, &tpl, &tpl, sk.Public(), sk)
		if e != nil {
			v.Label("create-failed")
			return
		}
		xc, e := x509.ParseCertificate(der)
		if e != nil {
			v.Label("create-failed")
			return
		}
		cc := CertificateFromX509(sk, xc)
		pemStr, e := cc.PEM()
		if e != nil {
			v.Label("ed25519:pem-error")
			return
		}
		back, e := CertificateFromPEM(pemStr)
		switch {
		case e != nil:
			v.Label("ed25519:from-pem-error")
		case !cc.Equals(*back):
			v.Label("ed25519:not-Equals-after-round-trip(unasserted)")
		default:
			v.Label("ed25519:ok")
		}
		return
	case c.Generate:
		v.Label("GenerateCertificate")
		cert, err = GenerateCertificate(keys[ki])
	default:
		v.Label("NewCertificate(template)")
		cert, err = NewCertificate(keys[ki], tpl)
	}
	if err != nil {
		v.Label("create-failed")
		return
	}
	v.NonTrivial()
	pemStr, err := cert.PEM()
	if err != nil {
		v.Violation("C38/Certificate/pem-encode-error", "PEM(): %v", err)
	}
	back, err := CertificateFromPEM(pemStr)
	if err != nil || back == nil {
		v.Violation("C38/Certificate/pem-decode-rejected", "CertificateFromPEM rejects PEM()'s output: %v\n%s", err, pemStr)
	}
	if !cert.Equals(*back) || !back.Equals(*cert) {
		v.Violation("C38/Certificate/not-equal", "certificate is not Equals() to its PEM round trip (orig.Equals(back)=%v back.Equals(orig)=%v)", cert.Equals(*back), back.Equals(*cert))
	}
	f1, e1 := cert.GetFingerprints()
	f2, e2 := back.GetFingerprints()
	if e1 != nil || e2 != nil || !reflect.DeepEqual(f1, f2) || len(f1) == 0 {
		v.Violation("C38/Certificate/fingerprint-differs", "fingerprints %v (%v) vs %v (%v)", f1, e1, f2, e2)
	}
	if !cert.Expires().Equal(back.Expires()) {
		v.Violation("C38/Certificate/expiry-differs", "Expires() %v vs %v", cert.Expires(), back.Expires())
	}
	if !c.Generate && !cert.Expires().Equal(notAfter) {
		v.Violation("C38/Certificate/expiry-differs", "Expires() %v, template NotAfter %v", cert.Expires(), notAfter)
	}
	// Negative control: "Equal to the original" only means something if Equals tells different
	// certificates apart. Two certificates whose DER differs must not be Equals, whether the
	// other one was issued for the same key (re-issued) or for another key.
	tpl2 := tpl
	tpl2.SerialNumber = new(big.Int).Add(tpl.SerialNumber, big.NewInt(1))
	tpl2.Subject = pkix.Name{CommonName: c.CN + "-reissued"}
	tpl2.Issuer = tpl2.Subject
	issue := func(key crypto.PrivateKey) *Certificate {
		var o *Certificate
		var err error
		if c.Generate {
			o, err = GenerateCertificate(key)
		} else {
			o, err = NewCertificate(key, tpl2)
		}
		if err != nil || o == nil || o.x509Cert == nil || string(o.x509Cert.Raw) == string(cert.x509Cert.Raw) {
			return nil
		}
		return o
	}
	if c.Serial%2 == 1 {
		return // negative controls on half (same key) / a quarter (other key) of the cases keep the cost down
	}
	if o := issue(keys[ki]); o != nil {
		if cert.Equals(*o) || o.Equals(*cert) || back.Equals(*o) || o.Equals(*back) {
			v.Violation("C38/Certificate/equals-true-for-reissued-certificate", "two different certificates (different DER, serial, subject) issued for the same %s key are Equals(): orig.Equals(other)=%v other.Equals(orig)=%v reimported.Equals(other)=%v", vfC38KeyNames[ki], cert.Equals(*o), o.Equals(*cert), back.Equals(*o))
		}
		v.Label("negative-control:same-key-reissued")
	}
	kj := (ki + 1) % len(keys)
	if c.Serial%4 != 0 {
		return
	}
	if o := issue(keys[kj]); o != nil {
		if cert.Equals(*o) || o.Equals(*cert) || back.Equals(*o) || o.Equals(*back) {
			v.Violation("C38/Certificate/equals-true-for-different-key", "certificates for different keys (%s, %s) are Equals()", vfC38KeyNames[ki], vfC38KeyNames[kj])
		}
		v.Label("negative-control:different-key")
	}
}

func TestVerif_C38_CertPEM(t *testing.T) {
	vfProperty(t, "C38", vfOpts{
		Rule: "one certificate (key from a pool of 3 P-256, P-384, P-521, RSA-2048 keys; NewCertificate with a generated template - serial, common name, NotAfter 1950..9999, validity - or GenerateCertificate) through PEM() and CertificateFromPEM; non-trivial = the certificate could be created",
		Assumptions: []string{"key material comes from crypto/rand (generated once per process); the oracle does not depend on it",
			"Ed25519 certificates (only constructible through CertificateFromX509) are counted, not asserted: Certificate.Equals has no Ed25519 case",
			"negative control: certificates whose DER differs (re-issued for the same key, or for another key of the pool) must not be Equals(), otherwise the round-trip clause would be vacuous"},
	}, func(v *vfT) vfC38CertCase {
		c := vfC38CertCase{
			Key:      rapid.IntRange(0, len(vfC38KeyNames)-1).Draw(v.R, "key"),
			Generate: rapid.IntRange(0, 5).Draw(v.R, "gen") == 0,
			NotAfter: rapid.Int64Range(-631152000, 253402300799).Draw(v.R, "notAfter"),
			Validity: rapid.Int64Range(0, 400*86400).Draw(v.R, "validity"),
			CN:       rapid.OneOf(rapid.SampledFrom([]string{"", "WebRTC", "pion", "a b", "日本語", "x.example.org"}), rapid.StringMatching(`[ -~]{0,40}`)).Draw(v.R, "cn"),
			Serial:   rapid.Uint64().Draw(v.R, "serial"),
		}
		if rapid.IntRange(0, 39).Draw(v.R, "ed") == 0 {
			c.Ed25519 = true
		}
		return c
	}, vfC38RunCert)
}
