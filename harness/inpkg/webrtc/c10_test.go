package webrtc

// C10 — Each generated media section is internally consistent.
//
// Domain: generated MediaEngine configurations (subsets / permutations of the default table,
// remapped payload types, RTX with present or absent primary, FlexFEC, header extensions with
// kind and direction restrictions) x transceivers with SetCodecPreferences lists x sound
// foreign offers whose payload types and extmap ids differ from the local ones. Every case
// calls CreateOffer twice, then (when a foreign offer is part of the case) SetRemoteDescription
// + CreateAnswer + SetLocalDescription and CreateOffer twice again.
//
// Oracle, per accepted audio/video m-section of every generated description (rejected, port 0,
// sections are skipped: DESIGN.md §4.0): payload types on the m= line pairwise distinct; every
// rtpmap / fmtp / rtcp-fb payload type is on the m= line; every rtx apt names a payload type
// on the m= line; extmap ids distinct, each URI once, ids in 1..14 unless a remote description
// of this connection used an id outside that range (an answer has to mirror it).

import (
	"fmt"
	"strings"
	"testing"

	"pgregory.net/rapid"
)

type vfC10Trx struct {
	Kind  string      `json:"kind"`
	Dir   string      `json:"dir"` // sendrecv|sendonly|recvonly|track
	Prefs *vfFamBPref `json:"prefs,omitempty"`
}

type vfC10Case struct {
	ME     vfFamBMECfg `json:"me"`
	Trx    []vfC10Trx  `json:"trx"`
	Remote *vfFamBSDP  `json:"remote,omitempty"`
	Fresh  bool        `json:"fresh,omitempty"` // answer on a fresh connection (no CreateOffer before the remote offer)
}

func vfC10Add(v *vfT, pc *PeerConnection, cfg vfFamBMECfg, trx []vfC10Trx) {
	for i, p := range trx {
		var err error
		var tr *RTPTransceiver
		if p.Dir == "track" {
			var tl TrackLocal
			tl, err = vfFamBTrack(cfg, false, p.Kind, fmt.Sprintf("t%d", i), "s", "")
			if err == nil {
				_, err = pc.AddTrack(tl)
			}
		} else {
			tr, err = pc.AddTransceiverFromKind(vfFamBKind(p.Kind), RTPTransceiverInit{Direction: NewRTPTransceiverDirection(p.Dir)})
		}
		if err != nil {
			v.Label("add-error")
			continue
		}
		if tr != nil && p.Prefs != nil {
			if err := tr.SetCodecPreferences(p.Prefs.List(cfg, p.Kind)); err != nil {
				v.Label("prefs-refused")
			} else {
				v.Label("prefs-set")
			}
		}
	}
}

// vfC10Inspect parses one generated description and applies the C10 predicate.
func vfC10Inspect(v *vfT, all *[]vfFamBFinding, who, text string, rangeCheck, orphan bool, remoteTwice, zeroPT map[string]bool) *vfFamBODesc {
	d, err := vfFamBParse(text)
	if err != nil {
		v.Violation("C10/unparsable", "%s: generated SDP rejected by pion/sdp: %v\n%s", who, err, text)
	}
	accepted := 0
	for _, s := range d.Sections {
		if s.Port != 0 && (s.Media == "audio" || s.Media == "video") {
			accepted++
		}
	}
	if accepted > 0 {
		v.Label("desc-with-accepted-rtp-section")
	}
	// findings are collected over the whole case and reported at its end (unknown classes first),
	// so that a listed finding in an early description does not hide a different one later
	*all = append(*all, vfFamBCheckC10(d, who, rangeCheck, orphan, remoteTwice, zeroPT)...)
	return d
}

func vfC10Run(v *vfT, c vfC10Case) {
	orphan := c.ME.OrphanRTX()
	moved := false
	var all []vfFamBFinding
	pc, err := vfFamBNewPC(vfFamBPCOpts{ME: c.ME})
	if err != nil {
		v.Skip("NewPeerConnection: " + err.Error())
	}
	defer func() { _ = pc.Close() }()
	vfC10Add(v, pc, c.ME, c.Trx)

	localPT := map[string]string{} // kind/name/fmtp -> PT in the first local offer
	localExt := map[string]int{}
	offers := 0
	for i := 1; i <= 2; i++ {
		off, err := pc.CreateOffer(nil)
		if err != nil {
			v.Label("create-offer-error")
			v.Logf("CreateOffer: %v", err)
			break
		}
		offers++
		d := vfC10Inspect(v, &all, fmt.Sprintf("CreateOffer #%d (no remote description)", i), off.SDP, true, orphan, nil, nil)
		if i == 1 {
			for _, s := range d.Sections {
				fm := map[string]string{}
				for _, f := range s.Fmtps {
					fm[f.PT] = f.Val
				}
				for _, rm := range s.Rtpmaps {
					localPT[s.Media+"/"+strings.ToLower(rm.Val)+"/"+fm[rm.PT]] = rm.PT
				}
				for _, e := range s.Extmaps {
					localExt[e.URI] = e.ID
				}
			}
		}
	}
	if offers == 2 {
		v.Label("two-offers")
	}
	if orphan {
		v.Label("me:orphan-rtx")
	}
	if vfC10HasPairPrefs(c) {
		v.Label("prefs:primary+rtx-pair")
	}

	if c.Remote != nil {
		text := c.Remote.Render()
		rd, err := vfFamBParse(text)
		if err != nil {
			v.Skip("remote offer does not parse")
		}
		rangeCheck := true
		zeroPT := map[string]bool{}
		for _, t := range c.Trx {
			if t.Prefs != nil {
				for _, z := range t.Prefs.ZeroPT {
					if z {
						zeroPT[t.Kind] = true
					}
				}
			}
		}
		twice := vfFamBRemoteTwice(rd)
		if len(twice) > 0 {
			v.Label("remote:codec-under-two-pts")
		}
		for _, s := range rd.Sections {
			fm := map[string]string{}
			for _, f := range s.Fmtps {
				fm[f.PT] = f.Val
			}
			for _, rm := range s.Rtpmaps {
				if pt, ok := localPT[s.Media+"/"+strings.ToLower(rm.Val)+"/"+fm[rm.PT]]; ok && pt != rm.PT {
					moved = true
				}
			}
			for _, e := range s.Extmaps {
				if id, ok := localExt[e.URI]; ok && id != e.ID {
					moved = true
				}
				if e.ID < 1 || e.ID > 14 {
					rangeCheck = false
				}
			}
		}
		if !rangeCheck {
			v.Label("remote:two-byte-extmap-id(range-check-off)")
		}
		perKind := map[string]map[string]int{}
		differs := false
		for _, s := range rd.Sections {
			for _, e := range s.Extmaps {
				if perKind[e.URI] == nil {
					perKind[e.URI] = map[string]int{}
				}
				perKind[e.URI][s.Media] = e.ID
				if a, okA := perKind[e.URI]["audio"]; okA {
					if vd, okV := perKind[e.URI]["video"]; okV && a != vd {
						differs = true
					}
				}
			}
		}
		if differs {
			v.Label("remote:same-extension-different-id-in-audio-and-video")
			moved = true
		}
		if moved {
			v.Label("remote:moves-pt-or-extmap-id")
		}
		target := pc
		if c.Fresh {
			target, err = vfFamBNewPC(vfFamBPCOpts{ME: c.ME})
			if err != nil {
				v.Skip("NewPeerConnection: " + err.Error())
			}
			defer func() { _ = target.Close() }()
			vfC10Add(v, target, c.ME, c.Trx)
		}
		if err := target.SetRemoteDescription(SessionDescription{Type: SDPTypeOffer, SDP: text}); err != nil {
			v.Label("set-remote-error")
			v.Logf("SetRemoteDescription: %v", err)
		} else if ans, err := target.CreateAnswer(nil); err != nil {
			v.Label("create-answer-error")
			v.Logf("CreateAnswer: %v", err)
		} else {
			v.Label("answer-ok")
			vfC10Inspect(v, &all, "CreateAnswer", ans.SDP, rangeCheck, orphan, twice, zeroPT)
			if err := target.SetLocalDescription(ans); err != nil {
				v.Label("set-local-error")
			} else {
				for i := 1; i <= 2; i++ {
					off, err := target.CreateOffer(nil)
					if err != nil {
						v.Label("create-reoffer-error")
						break
					}
					v.Label("reoffer-ok")
					vfC10Inspect(v, &all, fmt.Sprintf("CreateOffer #%d after answering the remote offer", i), off.SDP, rangeCheck, orphan, twice, zeroPT)
				}
			}
		}
	}
	if orphan || moved {
		v.NonTrivial()
	}
	vfFamBReport(v, all)
}

func vfC10Gen(v *vfT) vfC10Case {
	r := v.R
	var c vfC10Case
	c.ME = vfFamBGenME(r, vfFamBMEGenOpts{NeedAudio: rapid.IntRange(0, 3).Draw(r, "needAudio") != 0, NeedVideo: rapid.IntRange(0, 3).Draw(r, "needVideo") != 0,
		OrphanRTX: true, FEC: true, Remap: true, Exts: true})
	n := rapid.IntRange(1, 4).Draw(r, "nTrx")
	for i := 0; i < n; i++ {
		t := vfC10Trx{Kind: rapid.SampledFrom([]string{"audio", "video", "video"}).Draw(r, "kind"),
			Dir: rapid.SampledFrom([]string{"sendrecv", "sendonly", "recvonly", "track"}).Draw(r, "dir")}
		if t.Dir != "track" && rapid.IntRange(0, 2).Draw(r, "withPrefs") == 0 {
			p := vfFamBGenPref(r)
			t.Prefs = &p
		}
		c.Trx = append(c.Trx, t)
	}
	if rapid.IntRange(0, 3).Draw(r, "rtxPairShape") == 0 {
		vfC10GenRTXPairShape(r, &c)
		return c
	}
	if rapid.IntRange(0, 3).Draw(r, "extPerKindShape") == 0 {
		vfC10GenExtPerKindShape(r, &c)
		return c
	}
	if rapid.IntRange(0, 3).Draw(r, "withRemote") != 0 {
		s := vfFamBGenSDP(r, vfFamBGenOpts{MinSec: 1, MaxSec: 4, Medias: []string{"audio", "video", "video", "application"},
			MidStyles: []string{"numeric", "numeric", "token", "sparse"}, RemapPT: true, RemapExt: true, Unsupported: 8, SSRC: true})
		c.Remote = &s
		c.Fresh = rapid.IntRange(0, 2).Draw(r, "fresh") != 0
	}
	return c
}

// vfC10GenRTXPairShape rewrites the case into: a video transceiver whose codec preferences
// hold a primary P with its RTX (registered payload types) plus another primary Q, set before
// any remote description; then a sound foreign offer that omits P, offers Q and an rtx, and
// numbers them with its own payload types - usually reusing P's number for Q.
func vfC10GenRTXPairShape(r *rapid.T, c *vfC10Case) {
	used := map[uint8]bool{}
	for _, cd := range c.ME.Codecs {
		used[cd.PT] = true
	}
	free := func() uint8 {
		for pt := uint8(96); pt <= 127; pt++ {
			if !used[pt] {
				used[pt] = true
				return pt
			}
		}
		return 35
	}
	isPrimary := func(cd vfFamBMECodec) bool {
		m := strings.ToLower(cd.Mime)
		return cd.Kind == "video" && !strings.HasSuffix(m, "/rtx") && !strings.Contains(m, "flexfec")
	}
	rtxOf := func(pt uint8) int {
		for i, cd := range c.ME.Codecs {
			if cd.Kind == "video" && strings.EqualFold(cd.Mime, MimeTypeRTX) && cd.Fmtp == fmt.Sprintf("apt=%d", pt) {
				return i
			}
		}
		return -1
	}
	// P: a primary with an attached RTX; Q: another primary (both forced in when missing)
	pi, qi := -1, -1
	for i, cd := range c.ME.Codecs {
		if isPrimary(cd) && rtxOf(cd.PT) >= 0 {
			pi = i
			break
		}
	}
	if pi < 0 {
		pt := free()
		c.ME.Codecs = append(c.ME.Codecs,
			vfFamBMECodec{Kind: "video", Mime: MimeTypeVP8, Clock: 90000, FB: vfFamBMEVideoFB, PT: pt},
			vfFamBMECodec{Kind: "video", Mime: MimeTypeRTX, Clock: 90000, Fmtp: fmt.Sprintf("apt=%d", pt), PT: free()})
		pi = len(c.ME.Codecs) - 2
	}
	for i, cd := range c.ME.Codecs {
		if isPrimary(cd) && i != pi && !strings.EqualFold(cd.Mime, c.ME.Codecs[pi].Mime) {
			qi = i
			break
		}
	}
	if qi < 0 {
		mime, fm := MimeTypeVP9, "profile-id=0"
		if strings.EqualFold(c.ME.Codecs[pi].Mime, MimeTypeVP9) {
			mime, fm = MimeTypeAV1, ""
		}
		c.ME.Codecs = append(c.ME.Codecs, vfFamBMECodec{Kind: "video", Mime: mime, Clock: 90000, Fmtp: fm, FB: vfFamBMEVideoFB, PT: free()})
		qi = len(c.ME.Codecs) - 1
		if rapid.Bool().Draw(r, "qWithRTX") {
			c.ME.Codecs = append(c.ME.Codecs, vfFamBMECodec{Kind: "video", Mime: MimeTypeRTX, Clock: 90000, Fmtp: fmt.Sprintf("apt=%d", c.ME.Codecs[qi].PT), PT: free()})
		}
	}
	P, Q := c.ME.Codecs[pi], c.ME.Codecs[qi]
	// preference list by index into the video pool (what vfFamBPref.List resolves against)
	poolIdx := map[int]int{}
	n := 0
	for i, cd := range c.ME.Codecs {
		if cd.Kind == "video" {
			poolIdx[i] = n
			n++
		}
	}
	idx := []int{poolIdx[pi], poolIdx[rtxOf(P.PT)], poolIdx[qi]}
	if k := rtxOf(Q.PT); k >= 0 {
		idx = append(idx, poolIdx[k])
	}
	idx = rapid.Permutation(idx).Draw(r, "prefOrder")
	pref := vfFamBPref{Idx: idx, ZeroPT: make([]bool, len(idx))}
	first := vfC10Trx{Kind: "video", Dir: rapid.SampledFrom([]string{"recvonly", "sendrecv"}).Draw(r, "pairDir"), Prefs: &pref}
	c.Trx = append([]vfC10Trx{first}, c.Trx...)
	// the foreign offer: Q under the remote's number (usually P's), an rtx for it, P absent
	qPT := int(P.PT)
	if rapid.IntRange(0, 3).Draw(r, "noReuse") == 0 {
		qPT = int(free())
	}
	rPT := int(c.ME.Codecs[rtxOf(P.PT)].PT)
	if rapid.Bool().Draw(r, "otherRTXNumber") {
		rPT = int(free())
	}
	name := strings.TrimPrefix(Q.Mime, "video/")
	sec := vfFamBSec{Media: "video", Mid: "0", Port: 9, Setup: "actpass",
		Dir: rapid.SampledFrom([]string{"sendonly", "sendrecv"}).Draw(r, "remoteDir"),
		Codecs: []vfFamBCodec{
			{PT: qPT, Name: name, Clock: int(Q.Clock), Fmtp: Q.Fmtp, FB: append([]string{}, Q.FB...)},
			{PT: rPT, Name: "rtx", Clock: 90000, Fmtp: fmt.Sprintf("apt=%d", qPT)},
		}}
	if sec.Dir == "sendonly" || rapid.Bool().Draw(r, "ssrc") {
		sec.SSRC = 1000
	}
	c.Remote = &vfFamBSDP{SessID: 7, SessVer: 2, Bundle: true, Ufrag: "vfUf1", Pwd: "vfFamBpasswordvfFamBpassword",
		IceSession: rapid.Bool().Draw(r, "iceSession"), FPSession: rapid.Bool().Draw(r, "fpSession"), Sections: []vfFamBSec{sec}}
	c.Fresh = rapid.Bool().Draw(r, "fresh")
}

// vfC10GenExtPerKindShape rewrites the case into: header extensions registered locally for both
// kinds, and a sound foreign offer with audio and video sections that maps those extensions to
// per-kind ids (same URI, one id in the audio sections and another in the video sections; every
// id still means one URI across the description, as RFC 8843 requires inside a BUNDLE group).
func vfC10GenExtPerKindShape(r *rapid.T, c *vfC10Case) {
	s := vfFamBGenSDP(r, vfFamBGenOpts{MinSec: 2, MaxSec: 4, Medias: []string{"audio", "video"},
		MidStyles: []string{"numeric", "token"}, RemapPT: true, Unsupported: 0, SSRC: true})
	s.Sections[0].Media, s.Sections[1].Media = "audio", "video"
	for k := range s.Sections { // codecs of the right kind for the two forced sections
		sec := &s.Sections[k]
		ok := false
		for _, cd := range sec.Codecs {
			for _, spec := range vfFamBRemoteCodecs {
				if spec.Kind == sec.Media && spec.Name == cd.Name && spec.Clock == cd.Clock {
					ok = true
				}
			}
		}
		if !ok {
			if sec.Media == "audio" {
				sec.Codecs = []vfFamBCodec{{PT: 8, Name: "PCMA", Clock: 8000}}
			} else {
				pt := 36 // a payload type no section of this description uses (one number, one codec)
				for used := true; used; {
					used = false
					for _, o := range s.Sections {
						for _, cd := range o.Codecs {
							if cd.PT == pt && !(cd.Name == "VP8" && cd.Fmtp == "") {
								used = true
							}
						}
					}
					if used {
						pt++
					}
				}
				sec.Codecs = []vfFamBCodec{{PT: pt, Name: "VP8", Clock: 90000, FB: []string{"nack"}}}
			}
		}
	}
	n := rapid.IntRange(1, 4).Draw(r, "nSharedExts")
	uris := rapid.Permutation(vfFamBExtURIs).Draw(r, "sharedExtOrder")[:n]
	ids := rapid.Permutation([]int{1, 2, 3, 4, 5, 6, 7, 8, 9, 10, 11, 12, 13, 14}).Draw(r, "perKindIDs")
	audioID, videoID := map[string]int{}, map[string]int{}
	for k, u := range uris {
		audioID[u] = ids[k]
		videoID[u] = ids[k]
		if rapid.IntRange(0, 3).Draw(r, "sameIDBothKinds") != 0 {
			videoID[u] = ids[n+k] // a different id for the same extension in the video sections
		}
	}
	for k := range s.Sections {
		sec := &s.Sections[k]
		sec.Exts = nil
		for _, u := range uris {
			if rapid.IntRange(0, 4).Draw(r, "dropExt") == 0 {
				continue
			}
			id := audioID[u]
			if sec.Media == "video" {
				id = videoID[u]
			}
			sec.Exts = append(sec.Exts, vfFamBExt{ID: id, URI: u})
		}
	}
	// registered locally for both kinds (existing entries for these URIs are replaced)
	var exts []vfFamBMEExt
	shared := map[string]bool{}
	for _, u := range uris {
		shared[u] = true
	}
	for _, e := range c.ME.Exts {
		if !shared[e.URI] {
			exts = append(exts, e)
		}
	}
	for _, u := range uris {
		exts = append(exts, vfFamBMEExt{URI: u, Audio: true, Video: true})
	}
	c.ME.Exts = exts
	c.Remote = &s
	c.Fresh = rapid.Bool().Draw(r, "fresh")
}

func TestVerif_C10_Configs(t *testing.T) {
	vfProperty(t, "C10", vfOpts{
		Rule: "non-trivial = the MediaEngine configuration registers an RTX whose primary payload type is absent, or the foreign offer gives a different payload type / extmap id than the first local offer to a codec / extension both sides know",
		Assumptions: []string{
			"pion/sdp v3 is a trusted parser",
			"rejected (port 0) sections carry no codec attributes by design and are skipped",
			"the 1..14 range clause is not asserted once a remote description of the connection used an extmap id outside 1..14 (counted under remote:two-byte-extmap-id)",
			"foreign offers are sound: one payload type = one codec and one extmap id = one URI across the description",
		},
	}, vfC10Gen, vfC10Run)
}

// TestVerif_C10_Histories rides the C10 predicate on the pion-pair renegotiation histories
// that C06/C09 use (both peers with independently generated MediaEngine configurations, so
// each side sees remapped payload types and extmap ids from the other).
func TestVerif_C10_Histories(t *testing.T) {
	vfProperty(t, "C10", vfOpts{
		Rule: "pair histories: non-trivial = at least two completed rounds between peers of which at least one has a generated (non-default) MediaEngine configuration",
	}, func(v *vfT) vfFamBPCase {
		return vfFamBGenPair(v.R, 1, 4, true, false, false)
	}, func(v *vfT, c vfFamBPCase) {
		var all []vfFamBFinding
		st := vfFamBRunPair(v, c, func(ev vfFamBPEvent) {
			d, err := vfFamBParse(ev.Text)
			if err != nil {
				all = append(all, vfFamBFinding{"C10/unparsable", fmt.Sprintf("round %d peer %d %s rejected by pion/sdp: %v", ev.Round, ev.Peer, ev.Kind, err)})
				return
			}
			v.Label("hist-desc:" + ev.Kind)
			all = append(all, vfFamBCheckC10(d, fmt.Sprintf("round %d peer %d %s", ev.Round, ev.Peer, ev.Kind), true, false, nil, nil)...)
		}, nil, nil)
		if st.Rounds >= 2 && (!c.Sides[0].DefaultME || !c.Sides[1].DefaultME) {
			v.NonTrivial()
		}
		vfFamBReport(v, all)
	})
}

// vfC10HasPairPrefs reports whether some preference list holds a primary together with its RTX.
func vfC10HasPairPrefs(c vfC10Case) bool {
	for _, t := range c.Trx {
		if t.Prefs == nil {
			continue
		}
		l := t.Prefs.List(c.ME, t.Kind)
		for _, x := range l {
			if !strings.EqualFold(x.MimeType, MimeTypeRTX) {
				continue
			}
			for _, y := range l {
				if x.SDPFmtpLine == fmt.Sprintf("apt=%d", y.PayloadType) {
					return true
				}
			}
		}
	}
	return false
}
