package webrtc

// C26 — RTX packets are unwrapped into the original packets (RFC 4588).
//
// In-package: an RTPReceiver is assembled the way rtpreceiver_test.go's own helper does
// (configureReceive + receiveForRid + receiveForRtx, nil SRTP streams) with two fake
// interceptor.RTPReaders: the primary stream returns recognisable sentinel packets, the
// repair stream returns the generated RTX packets and tells the harness when the receiver's
// repair goroutine comes back for the next one (= the previous packet has been processed;
// no sleeps, no timing).  Packets are fed in bursts of 1..8 before TrackRemote.Read (on the
// case's goroutine) reads them back, so a queued packet must survive the processing of the
// following ones (pooled-buffer reuse).
//
// Oracle, per RTX packet whose RTX payload has >= 2 bytes: the bytes Read returns equal the
// harness-built image of the original packet: same first octet (V/P/X/CC), marker,
// timestamp, CSRC list, header extension, padding count; sequence number = OSN; SSRC and PT
// = the primary stream's; payload = RTX payload minus the first two bytes.  (Padding filler
// octets are not compared.)  The documented attributes rtx_payload_type / rtx_ssrc /
// rtx_sequence_number carry the RTX stream's values.  RTX packets with 0 or 1 payload bytes
// must not be delivered: the next Read yields the primary sentinel.  Corrupt packets
// (extension length or padding count reaching beyond the packet) are fed too, but nothing
// is asserted about them except that the process survives.

import (
	"bufio"
	"bytes"
	"encoding/binary"
	"encoding/json"
	"fmt"
	"io"
	"os"
	"os/exec"
	"strings"
	"sync"
	"testing"
	"time"

	"github.com/pion/interceptor"
	"pgregory.net/rapid"
)

type vfC26Ext struct {
	ID  uint8 `json:"id"`
	Len int   `json:"len"`
}

type vfC26Pkt struct {
	Marker  bool       `json:"marker,omitempty"`
	Seq     uint16     `json:"seq"` // RTX stream's own sequence number
	TS      uint32     `json:"ts"`
	CSRC    []uint32   `json:"csrc,omitempty"`
	ExtKind int        `json:"ext_kind"` // 0 none, 1 one-byte, 2 two-byte, 3 other profile (opaque words)
	Profile uint16     `json:"profile,omitempty"`
	Exts    []vfC26Ext `json:"exts,omitempty"` // kind 3: one entry, Len = words
	PayLen  int        `json:"pay_len"`        // RTX payload length including the 2-byte OSN (clamped so the packet fits the receive MTU)
	Seed    uint32     `json:"seed"`
	Pad     uint8      `json:"pad"`
	PadFill bool       `json:"pad_fill,omitempty"`
	Corrupt int        `json:"corrupt,omitempty"` // 1: extension length field points beyond the packet; 2: padding count larger than the packet
}

type vfC26Case struct {
	PrimaryPT   int        `json:"primary_pt"` // index into vfC26PTs
	PrimarySSRC uint32     `json:"primary_ssrc"`
	RtxSSRC     uint32     `json:"rtx_ssrc"`
	RtxPT       uint8      `json:"rtx_pt"`
	Lazy        bool       `json:"lazy"`  // repair reader started by the first Read instead of immediately
	Attrs       bool       `json:"attrs"` // the repair interceptor hands out its own (non-nil) attributes
	Pkts        []vfC26Pkt `json:"pkts"`
	Switch      []int      `json:"switch,omitempty"` // cycled per burst: >0 = before that burst the primary stream moves on by that many entries of vfC26PTs (and one primary packet is read)
	Bursts      []int      `json:"bursts,omitempty"` // sizes (1..8) of the groups fed back-to-back before any Read; cycled; empty = one at a time
}

var vfC26PTs = []uint8{96, 102, 98, 45, 39, 127, 108} // video payload types of the default table

type vfC26Rng uint32

func (r *vfC26Rng) next() byte {
	x := uint32(*r)
	if x == 0 {
		x = 0x9E3779B9
	}
	x ^= x << 13
	x ^= x >> 17
	x ^= x << 5
	*r = vfC26Rng(x)
	return byte(x >> 11)
}

func vfC26Payload(p *vfC26Pkt, n int) []byte {
	rng := vfC26Rng(p.Seed ^ 0xA5A5A5A5)
	out := make([]byte, n)
	for i := range out {
		out[i] = rng.next()
	}
	return out
}

// vfC26HeaderLen is the RTP header length (fixed part + CSRCs + extension) of the description.
func vfC26HeaderLen(p *vfC26Pkt) int {
	n := 12 + 4*len(p.CSRC)
	if p.ExtKind != 0 {
		body := 0
		switch p.ExtKind {
		case 1:
			for _, e := range p.Exts {
				body += 1 + e.Len
			}
		case 2:
			for _, e := range p.Exts {
				body += 2 + e.Len
			}
		default:
			for _, e := range p.Exts {
				body += 4 * e.Len
			}
		}
		n += 4 + (body+3)/4*4
	}
	return n
}

// vfC26Wire serialises the description (RFC 3550 §5.1, RFC 8285) with the given sequence
// number, SSRC, payload type and payload.
func vfC26Wire(p *vfC26Pkt, seq uint16, ssrc uint32, pt uint8, payload []byte) []byte {
	rng := vfC26Rng(p.Seed)
	b := make([]byte, 12, 64+len(payload))
	b[0] = 2<<6 | byte(len(p.CSRC)&15)
	if p.Pad > 0 {
		b[0] |= 1 << 5
	}
	if p.ExtKind != 0 {
		b[0] |= 1 << 4
	}
	b[1] = pt & 0x7f
	if p.Marker {
		b[1] |= 0x80
	}
	binary.BigEndian.PutUint16(b[2:], seq)
	binary.BigEndian.PutUint32(b[4:], p.TS)
	binary.BigEndian.PutUint32(b[8:], ssrc)
	for _, c := range p.CSRC {
		b = binary.BigEndian.AppendUint32(b, c)
	}
	if p.ExtKind != 0 {
		var body []byte
		switch p.ExtKind {
		case 1:
			for _, e := range p.Exts {
				body = append(body, e.ID<<4|byte(e.Len-1))
				for i := 0; i < e.Len; i++ {
					body = append(body, rng.next())
				}
			}
		case 2:
			for _, e := range p.Exts {
				body = append(body, e.ID, byte(e.Len))
				for i := 0; i < e.Len; i++ {
					body = append(body, rng.next())
				}
			}
		default:
			for _, e := range p.Exts {
				for i := 0; i < 4*e.Len; i++ {
					body = append(body, rng.next())
				}
			}
		}
		for len(body)%4 != 0 {
			body = append(body, 0)
		}
		profile := p.Profile
		switch p.ExtKind {
		case 1:
			profile = 0xBEDE
		case 2:
			profile = 0x1000
		}
		b = binary.BigEndian.AppendUint16(b, profile)
		b = binary.BigEndian.AppendUint16(b, uint16(len(body)/4))
		b = append(b, body...)
	}
	b = append(b, payload...)
	if p.Pad > 0 {
		for i := 0; i < int(p.Pad)-1; i++ {
			if p.PadFill {
				b = append(b, rng.next()|1)
			} else {
				b = append(b, 0)
			}
		}
		b = append(b, p.Pad)
	}
	return b
}

type vfC26Repair struct {
	in    chan []byte
	asked chan struct{}
	attrs bool
}

func (r *vfC26Repair) Read(b []byte, a interceptor.Attributes) (int, interceptor.Attributes, error) {
	r.asked <- struct{}{} // the previous packet (if any) has been fully processed
	pkt, ok := <-r.in
	if !ok {
		return 0, a, io.EOF
	}
	if r.attrs {
		a = interceptor.Attributes{"vf-c26": true}
	}
	return copy(b, pkt), a, nil
}

var (
	vfC26APIOnce sync.Once
	vfC26API     *API
)

const vfC26Watchdog = 30 * time.Second

func vfC26Run(v *vfT, c vfC26Case) {
	vfC26APIOnce.Do(func() {
		m := &MediaEngine{}
		if err := m.RegisterDefaultCodecs(); err != nil {
			panic(err)
		}
		vfC26API = NewAPI(WithMediaEngine(m))
	})
	primPT := vfC26PTs[((c.PrimaryPT%len(vfC26PTs))+len(vfC26PTs))%len(vfC26PTs)]
	primSSRC, rtxSSRC := c.PrimarySSRC, c.RtxSSRC
	if primSSRC == 0 {
		primSSRC = 1
	}
	if rtxSSRC == 0 || rtxSSRC == primSSRC {
		rtxSSRC = primSSRC + 1
		if rtxSSRC == 0 {
			rtxSSRC = 2
		}
	}
	rtxPT := c.RtxPT & 0x7f

	receiver, err := vfC26API.NewRTPReceiver(RTPCodecTypeVideo, &DTLSTransport{api: vfC26API})
	if err != nil {
		v.Skip("NewRTPReceiver: " + err.Error())
	}
	receiver.configureReceive(RTPReceiveParameters{Encodings: []RTPDecodingParameters{{
		RTPCodingParameters: RTPCodingParameters{RID: "rid", SSRC: SSRC(primSSRC), RTX: RTPRtxParameters{SSRC: SSRC(rtxSSRC)}},
	}}})
	primCount := uint16(0)
	sentinelPayload := []byte("vfC26-primary-stream-sentinel")
	sentinel := func(seq uint16) []byte {
		return vfC26Wire(&vfC26Pkt{TS: 0x01020304}, seq, primSSRC, primPT, sentinelPayload)
	}
	primary := interceptor.RTPReaderFunc(func(b []byte, a interceptor.Attributes) (int, interceptor.Attributes, error) {
		primCount++
		return copy(b, sentinel(primCount)), a, nil
	})
	codecParams, err := vfC26API.mediaEngine.getRTPParametersByPayloadType(PayloadType(primPT))
	if err != nil {
		v.Skip("no default codec for the primary payload type: " + err.Error())
	}
	track, err := receiver.receiveForRid("rid", codecParams, &interceptor.StreamInfo{SSRC: primSSRC}, nil, primary, false, nil, nil, nil)
	if err != nil {
		v.Skip("receiveForRid: " + err.Error())
	}
	close(receiver.received)
	repair := &vfC26Repair{in: make(chan []byte), asked: make(chan struct{}, 4096), attrs: c.Attrs}
	if err := receiver.receiveForRtx(SSRC(rtxSSRC), "", &interceptor.StreamInfo{SSRC: rtxSSRC}, nil, repair, !c.Lazy, nil, nil); err != nil {
		v.Skip("receiveForRtx: " + err.Error())
	}
	defer func() {
		close(repair.in)
		_ = receiver.Stop()
	}()
	waitAsked := func(what string) {
		select {
		case <-repair.asked:
		case <-time.After(vfC26Watchdog):
			v.Skip("watchdog: repair reader did not come back " + what)
		}
	}

	buf := make([]byte, 2000)
	readOne := func() ([]byte, interceptor.Attributes) {
		n, attrs, err := track.Read(buf)
		if err != nil {
			v.Violation("C26/read-error", "TrackRemote.Read returned %v", err)
		}
		return append([]byte{}, buf[:n]...), attrs
	}
	isSentinel := func(b []byte) bool {
		return bytes.Equal(b, sentinel(primCount))
	}

	// the first Read has nothing to repair: it yields a primary packet, which also teaches
	// the track the primary stream's payload type (and starts the repair reader if lazy)
	if got, _ := readOne(); !isSentinel(got) {
		v.Violation("C26/primary-read", "first Read did not return the primary stream's packet: %x", got)
	}
	waitAsked("initially")
	if track.PayloadType() != PayloadType(primPT) || track.SSRC() != SSRC(primSSRC) {
		v.Skip("track did not learn the primary payload type / SSRC")
	}
	if c.Lazy {
		v.Label("repair-reader:lazy")
	} else {
		v.Label("repair-reader:immediate")
	}

	delivered, interesting := 0, 0
	type prepared struct {
		pi       int
		p        vfC26Pkt
		hl       int
		payload  []byte
		rtxImage []byte
	}
	prepare := func(pi int) prepared {
		p := c.Pkts[pi] // copy; PayLen is clamped below
		hl := vfC26HeaderLen(&p)
		if max := int(receiveMTU) - hl - int(p.Pad); p.PayLen > max {
			p.PayLen = max
		}
		if p.PayLen < 0 {
			v.Skip("header alone exceeds the receive MTU")
		}
		payload := vfC26Payload(&p, p.PayLen)
		rtxImage := vfC26Wire(&p, p.Seq, rtxSSRC, rtxPT, payload)
		switch p.Corrupt {
		case 1:
			if p.ExtKind != 0 {
				// extension length (in words) reaching beyond the end of the packet
				off := 12 + 4*len(p.CSRC) + 2
				words := uint16(len(rtxImage)/4 + 1 + int(p.Seed%64))
				switch p.Seed % 7 {
				case 0:
					words = 0x3FFF // 4*(1+words) wraps around in 16-bit arithmetic
				case 1:
					words = 0xFFFF
				}
				binary.BigEndian.PutUint16(rtxImage[off:], words)
			} else {
				p.Corrupt = 0
			}
		case 2:
			if p.Pad > 0 && int(p.Pad) < 255 && p.PayLen+int(p.Pad) < 250 {
				rtxImage[len(rtxImage)-1] = 255
			} else {
				p.Corrupt = 0
			}
		}
		return prepared{pi, p, hl, payload, rtxImage}
	}
	feed := func(pr prepared) {
		select {
		case repair.in <- append([]byte{}, pr.rtxImage...):
		case <-time.After(vfC26Watchdog):
			v.Skip("watchdog: repair reader does not accept packets")
		}
		waitAsked("after a packet") // the repair goroutine has processed it and is asking for the next one
	}
	checkValid := func(pr prepared, got []byte, attrs interceptor.Attributes) {
		pi, p, hl, payload, rtxImage := pr.pi, pr.p, pr.hl, pr.payload, pr.rtxImage
		osn := binary.BigEndian.Uint16(payload[:2])
		want := vfC26Wire(&p, osn, primSSRC, primPT, payload[2:])
		feat := ""
		if len(p.CSRC) > 0 {
			feat += "+csrc"
			v.Label("valid:csrc")
		}
		if p.ExtKind != 0 {
			feat += "+ext"
			v.Label(fmt.Sprintf("valid:ext-kind-%d", p.ExtKind))
		}
		if p.Pad > 0 {
			feat += "+pad"
			v.Label("valid:padding")
		}
		if p.PayLen == 2 {
			v.Label("valid:osn-only")
		}
		if feat == "" {
			feat = "plain"
			v.Label("valid:plain")
		} else {
			interesting++
		}
		if isSentinel(got) {
			v.Violation("C26/dropped/"+feat, "pkt %d: RTX packet with %d payload bytes was not delivered (Read returned the primary packet); rtx=%x", pi, p.PayLen, rtxImage)
		}
		sig := len(want) - int(p.Pad) // header + payload; then filler; last octet = count
		ok := len(got) == len(want) && bytes.Equal(got[:sig], want[:sig])
		if ok && p.Pad > 0 {
			ok = got[len(got)-1] == p.Pad
		}
		if !ok {
			class := "C26/unwrap/" + feat
			switch {
			case len(got) != len(want):
				class += "/length"
			case len(got) >= 12 && binary.BigEndian.Uint16(got[2:4]) != osn:
				class += "/sequence-number"
			case len(got) >= 12 && !bytes.Equal(got[8:12], want[8:12]):
				class += "/ssrc"
			case len(got) >= 2 && got[1] != want[1]:
				class += "/pt-or-marker"
			case len(got) >= hl && !bytes.Equal(got[:hl], want[:hl]):
				class += "/header"
			default:
				class += "/payload"
			}
			v.Violation(class, "pkt %d (csrc %d, ext kind %d, pad %d, rtx payload %d bytes):\n rtx  %x\n read %x\n want %x", pi, len(p.CSRC), p.ExtKind, p.Pad, p.PayLen, rtxImage, got, want)
		}
		delivered++
		// documented attributes (constants.go)
		if attrs == nil {
			v.Violation("C26/attributes/missing", "pkt %d: Read returned nil attributes for an RTX packet", pi)
		}
		if g, ok := attrs.Get(AttributeRtxPayloadType).(uint8); !ok || g != rtxPT {
			v.Violation("C26/attributes/payload-type", "pkt %d: %s = %v, want %d", pi, AttributeRtxPayloadType, attrs.Get(AttributeRtxPayloadType), rtxPT)
		}
		if g, ok := attrs.Get(AttributeRtxSsrc).(uint32); !ok || g != rtxSSRC {
			v.Violation("C26/attributes/ssrc", "pkt %d: %s = %v, want %d", pi, AttributeRtxSsrc, attrs.Get(AttributeRtxSsrc), rtxSSRC)
		}
		if g, ok := attrs.Get(AttributeRtxSequenceNumber).(uint16); !ok || g != p.Seq {
			v.Violation("C26/attributes/sequence-number", "pkt %d: %s = %v, want %d", pi, AttributeRtxSequenceNumber, attrs.Get(AttributeRtxSequenceNumber), p.Seq)
		}
	}
	// The packets are handed to the receiver in bursts: all packets of a burst are processed by
	// the repair goroutine (and queued on its 50-slot channel; bursts are at most 8 packets and
	// the queue is empty before each burst, so nothing is legitimately skipped) before the
	// application reads any of them.  Then every packet that carries an OSN is read back, in the
	// order fed, and compared with its own original; one more Read must yield the primary
	// stream's packet (nothing else was queued: short packets dropped, nothing delivered twice).
	gi := 0
	ptIdx := ((c.PrimaryPT % len(vfC26PTs)) + len(vfC26PTs)) % len(vfC26PTs)
	rtxSeenBeforeSwitch, switched := false, false
	for pi := 0; pi < len(c.Pkts); {
		// The primary stream may change its payload type mid-stream (another negotiated codec); the
		// track follows it (checkAndUpdateTrack) when the application reads that primary packet.
		// From then on "the primary stream's payload type" is the new one.
		if len(c.Switch) > 0 && c.Switch[gi%len(c.Switch)] > 0 {
			ptIdx = (ptIdx + c.Switch[gi%len(c.Switch)]) % len(vfC26PTs)
			if vfC26PTs[ptIdx] != primPT {
				primPT = vfC26PTs[ptIdx]
				if got, _ := readOne(); !isSentinel(got) {
					v.Violation("C26/primary-read", "Read with no RTX packet queued did not return the primary stream's packet: %x", got)
				}
				if track.PayloadType() != PayloadType(primPT) {
					v.Skip("track did not follow the primary stream's payload type change")
				}
				if rtxSeenBeforeSwitch {
					switched = true
				}
				v.Label("primary-pt-switch")
			}
		}
		size := 1
		if len(c.Bursts) > 0 {
			size = c.Bursts[gi%len(c.Bursts)]
		}
		gi++
		if size < 1 {
			size = 1
		}
		if size > 8 {
			size = 8
		}
		var group []prepared
		var corrupt *prepared
		for len(group) < size && pi < len(c.Pkts) {
			pr := prepare(pi)
			if pr.p.Corrupt != 0 {
				if len(group) == 0 {
					corrupt = &pr
					pi++
				}
				break // a corrupt packet is always handled on its own
			}
			group = append(group, pr)
			pi++
		}
		if corrupt != nil {
			feed(*corrupt)
			_, _ = readOne() // whatever comes back (the mangled packet or the primary one): no assertion
			v.Label(fmt.Sprintf("corrupt:%d(no assertion)", corrupt.p.Corrupt))
			continue
		}
		if len(group) >= 2 {
			v.Label(fmt.Sprintf("burst:%d", len(group)))
		}
		for _, pr := range group {
			feed(pr)
		}
		firstShort := -1
		for _, pr := range group {
			if pr.p.PayLen < 2 {
				v.Label(fmt.Sprintf("short-payload:%d", pr.p.PayLen))
				if firstShort < 0 {
					firstShort = pr.p.PayLen
				}
				continue
			}
			got, attrs := readOne()
			checkValid(pr, got, attrs)
			if switched {
				v.Label("rtx-after-primary-pt-switch(with-rtx-before)")
			}
			rtxSeenBeforeSwitch = true
		}
		if got, _ := readOne(); !isSentinel(got) {
			last := group[len(group)-1]
			if firstShort >= 0 {
				v.Violation(fmt.Sprintf("C26/short-not-dropped/payload=%d", firstShort),
					"burst of %d ending at pkt %d: an RTX packet with %d payload byte(s) was delivered (one more packet than the burst's OSN-carrying packets was queued): read=%x",
					len(group), last.pi, firstShort, got)
			}
			v.Violation("C26/extra-delivery", "burst of %d ending at pkt %d: after reading every packet of the burst one more RTX packet was delivered: %x", len(group), last.pi, got)
		}
	}
	if interesting > 0 && delivered > 0 {
		v.NonTrivial()
	}
}

func vfC26GenPkt(v *vfT) vfC26Pkt {
	p := vfC26Pkt{
		Marker:  rapid.Bool().Draw(v.R, "marker"),
		Seq:     rapid.Uint16().Draw(v.R, "seq"),
		TS:      rapid.Uint32().Draw(v.R, "ts"),
		Seed:    rapid.Uint32().Draw(v.R, "seed"),
		PadFill: rapid.Bool().Draw(v.R, "padfill"),
	}
	ncsrc := rapid.SampledFrom([]int{0, 0, 1, 2, 3, 8, 14, 15}).Draw(v.R, "ncsrc")
	for i := 0; i < ncsrc; i++ {
		p.CSRC = append(p.CSRC, rapid.Uint32().Draw(v.R, "csrc"))
	}
	p.ExtKind = rapid.SampledFrom([]int{0, 0, 1, 1, 2, 3}).Draw(v.R, "extkind")
	switch p.ExtKind {
	case 1:
		n := rapid.IntRange(1, 4).Draw(v.R, "next")
		ids := rapid.Permutation([]int{1, 2, 3, 4, 5, 9, 13, 14}).Draw(v.R, "ids")
		for i := 0; i < n; i++ {
			p.Exts = append(p.Exts, vfC26Ext{ID: uint8(ids[i]), Len: rapid.IntRange(1, 16).Draw(v.R, "elen")})
		}
	case 2:
		n := rapid.IntRange(1, 3).Draw(v.R, "next")
		ids := rapid.Permutation([]int{1, 2, 14, 15, 16, 100, 254, 255}).Draw(v.R, "ids")
		for i := 0; i < n; i++ {
			p.Exts = append(p.Exts, vfC26Ext{ID: uint8(ids[i]), Len: rapid.SampledFrom([]int{0, 1, 2, 3, 16, 17, 64}).Draw(v.R, "elen")})
		}
	case 3:
		p.Profile = rapid.SampledFrom([]uint16{0x0001, 0xABCD, 0x1001, 0xBEDF}).Draw(v.R, "profile")
		p.Exts = []vfC26Ext{{Len: rapid.IntRange(0, 16).Draw(v.R, "words")}}
	}
	p.Pad = uint8(rapid.SampledFrom([]int{0, 0, 0, 1, 2, 3, 4, 37, 255}).Draw(v.R, "pad"))
	switch rapid.IntRange(0, 9).Draw(v.R, "class") {
	case 0, 1:
		p.PayLen = rapid.IntRange(0, 1).Draw(v.R, "short")
	case 2:
		p.PayLen = rapid.SampledFrom([]int{2, 3, 4}).Draw(v.R, "tiny")
	case 3:
		p.PayLen = rapid.IntRange(2, 40).Draw(v.R, "small")
		p.Corrupt = rapid.IntRange(1, 2).Draw(v.R, "corrupt")
	case 4:
		p.PayLen = 1500 // clamped to what fits the receive MTU
	default:
		p.PayLen = rapid.IntRange(2, 1400).Draw(v.R, "paylen")
	}
	return p
}

func vfC26Gen(v *vfT) vfC26Case {
	c := vfC26Case{
		PrimaryPT:   rapid.IntRange(0, len(vfC26PTs)-1).Draw(v.R, "primPT"),
		PrimarySSRC: rapid.Uint32Range(1, 0xFFFFFFFE).Draw(v.R, "primSSRC"),
		RtxSSRC:     rapid.Uint32Range(1, 0xFFFFFFFE).Draw(v.R, "rtxSSRC"),
		RtxPT:       uint8(rapid.IntRange(0, 127).Draw(v.R, "rtxPT")),
		Lazy:        rapid.Bool().Draw(v.R, "lazy"),
		Attrs:       rapid.Bool().Draw(v.R, "attrs"),
	}
	n := rapid.IntRange(1, 16).Draw(v.R, "npkts")
	for i := 0; i < n; i++ {
		c.Pkts = append(c.Pkts, vfC26GenPkt(v))
	}
	nb := rapid.IntRange(1, 4).Draw(v.R, "nbursts")
	for i := 0; i < nb; i++ {
		c.Bursts = append(c.Bursts, rapid.SampledFrom([]int{1, 2, 2, 3, 4, 5, 8}).Draw(v.R, "burst"))
	}
	if rapid.IntRange(0, 2).Draw(v.R, "switch?") != 0 {
		ns := rapid.IntRange(1, 3).Draw(v.R, "nswitch")
		for i := 0; i < ns; i++ {
			c.Switch = append(c.Switch, rapid.SampledFrom([]int{0, 0, 1, 2, 3}).Draw(v.R, "switch"))
		}
	}
	return c
}

// ---- worker subprocess ----
//
// The RTX rewrite runs on a goroutine the receiver starts itself, so a crash there cannot
// be recovered in-process: it would take the whole test binary down and the driver could
// only say "inconclusive".  The cases are therefore executed in a child process (this same
// test binary, re-executed with VERIF_C26_WORKER=1) that reads one JSON case per line and
// answers with one JSON result per line.  If the child dies while a case is outstanding and
// its stderr shows a Go panic, that case is reported as C26/crash/...; the child is restarted
// for the next case.  VERIF_C26_INPROC=1 runs the cases in-process (debugging).

type vfC26Result struct {
	Class      string   `json:"class,omitempty"` // violated class key ("" = held)
	Message    string   `json:"message,omitempty"`
	Skipped    string   `json:"skipped,omitempty"`
	Labels     []string `json:"labels,omitempty"`
	NonTrivial bool     `json:"nontrivial,omitempty"`
}

// vfC26RunLocal runs one case on this process and returns what the oracle said.
func vfC26RunLocal(col *vfCollector, c vfC26Case) (res vfC26Result) {
	v := &vfT{col: col}
	v.caseJSON = vfCanon(c)
	skippedBefore := map[string]int{}
	col.mu.Lock()
	for k, n := range col.labels {
		if strings.HasPrefix(k, "skipped:") {
			skippedBefore[k] = n
		}
	}
	col.last, col.first, col.nfail = nil, nil, 0
	col.mu.Unlock()
	defer func() {
		r := recover()
		res.Labels, res.NonTrivial = v.labels, v.nontrivial
		col.mu.Lock()
		defer col.mu.Unlock()
		if col.last != nil {
			res.Class, res.Message = col.last.Class, col.last.Message
			return
		}
		for k, n := range col.labels {
			if strings.HasPrefix(k, "skipped:") && n != skippedBefore[k] {
				res.Skipped = strings.TrimPrefix(k, "skipped:")
			}
		}
		if r != nil {
			if _, ok := r.(vfKnownSentinel); !ok {
				res.Class, res.Message = "C26/panic", fmt.Sprintf("panic on the case's goroutine: %v", r)
			}
		}
	}()
	vfC26Run(v, c)
	return res
}

func TestVerif_C26_Worker(t *testing.T) {
	if os.Getenv("VERIF_C26_WORKER") == "" {
		return // only meaningful as the child of TestVerif_C26_Unwrap
	}
	col := &vfCollector{id: "C26", check: "worker", nontrivial: map[uint64]struct{}{}, labels: map[string]int{},
		knownHits: map[string]int{}, knownMsg: map[string]string{}, known: map[string]bool{}, extra: map[string]any{}}
	in := bufio.NewReaderSize(os.Stdin, 1<<20)
	out := bufio.NewWriter(os.Stdout)
	for {
		line, err := in.ReadBytes('\n')
		if len(bytes.TrimSpace(line)) > 0 {
			var c vfC26Case
			var res vfC26Result
			if jerr := json.Unmarshal(line, &c); jerr != nil {
				res = vfC26Result{Skipped: "worker could not decode the case: " + jerr.Error()}
			} else {
				res = vfC26RunLocal(col, c)
			}
			b, _ := json.Marshal(res)
			out.WriteString("VFC26 ")
			out.Write(b)
			out.WriteString("\n")
			out.Flush()
		}
		if err != nil {
			return
		}
	}
}

type vfC26Tail struct {
	mu  sync.Mutex
	buf []byte
}

func (w *vfC26Tail) Write(p []byte) (int, error) {
	w.mu.Lock()
	w.buf = append(w.buf, p...)
	if len(w.buf) > 1<<16 {
		w.buf = w.buf[len(w.buf)-1<<16:]
	}
	w.mu.Unlock()
	return len(p), nil
}

func (w *vfC26Tail) String() string {
	w.mu.Lock()
	defer w.mu.Unlock()
	return string(w.buf)
}

type vfC26Child struct {
	cmd    *exec.Cmd
	stdin  io.WriteCloser
	lines  chan string // result lines; closed when the child's stdout ends
	stderr *vfC26Tail
}

var (
	vfC26WorkerMu sync.Mutex
	vfC26Worker   *vfC26Child
)

func vfC26StartChild() (*vfC26Child, error) {
	cmd := exec.Command(os.Args[0], "-test.run", "^TestVerif_C26_Worker$", "-test.count", "1", "-test.timeout", "0")
	env := []string{"VERIF_C26_WORKER=1"}
	for _, kv := range os.Environ() {
		if strings.HasPrefix(kv, "VERIF_") { // no evidence files, no replay, no known-list in the child
			continue
		}
		env = append(env, kv)
	}
	cmd.Env = env
	stdin, err := cmd.StdinPipe()
	if err != nil {
		return nil, err
	}
	stdout, err := cmd.StdoutPipe()
	if err != nil {
		return nil, err
	}
	ch := &vfC26Child{cmd: cmd, stdin: stdin, lines: make(chan string, 16), stderr: &vfC26Tail{}}
	cmd.Stderr = ch.stderr
	if err := cmd.Start(); err != nil {
		return nil, err
	}
	go func() {
		defer close(ch.lines)
		rd := bufio.NewReaderSize(stdout, 1<<20)
		for {
			line, err := rd.ReadString('\n')
			if strings.HasPrefix(line, "VFC26 ") {
				ch.lines <- strings.TrimSpace(strings.TrimPrefix(line, "VFC26 "))
			} else if strings.Contains(line, "panic:") || strings.Contains(line, "goroutine ") || strings.Contains(line, ".go:") {
				_, _ = ch.stderr.Write([]byte(line)) // the testing package may route crash output to stdout
			}
			if err != nil {
				return
			}
		}
	}()
	return ch, nil
}

func (ch *vfC26Child) kill() {
	_ = ch.stdin.Close()
	_ = ch.cmd.Process.Kill()
	_ = ch.cmd.Wait()
}

func vfC26StopWorker() {
	vfC26WorkerMu.Lock()
	defer vfC26WorkerMu.Unlock()
	if vfC26Worker != nil {
		_ = vfC26Worker.stdin.Close()
		done := make(chan struct{})
		go func() { _ = vfC26Worker.cmd.Wait(); close(done) }()
		select {
		case <-done:
		case <-time.After(5 * time.Second):
			_ = vfC26Worker.cmd.Process.Kill()
			<-done
		}
		vfC26Worker = nil
	}
}

// vfC26RunIsolated executes the case in the worker child and replays its verdict on v.
func vfC26RunIsolated(v *vfT, c vfC26Case) {
	if os.Getenv("VERIF_C26_INPROC") != "" {
		vfC26Run(v, c)
		return
	}
	vfC26WorkerMu.Lock()
	defer vfC26WorkerMu.Unlock()
	if vfC26Worker == nil {
		ch, err := vfC26StartChild()
		if err != nil {
			v.Skip("cannot start the worker process: " + err.Error())
		}
		vfC26Worker = ch
	}
	ch := vfC26Worker
	line, _ := json.Marshal(c)
	if _, err := ch.stdin.Write(append(line, '\n')); err != nil {
		// the child is gone although no case was outstanding: restart once
		ch.kill()
		vfC26Worker = nil
		v.Skip("worker process was not running: " + err.Error())
	}
	select {
	case resLine, ok := <-ch.lines:
		if !ok {
			// died while this case was outstanding
			_ = ch.cmd.Wait()
			vfC26Worker = nil
			tail := ch.stderr.String()
			if i := strings.Index(tail, "panic:"); i >= 0 {
				excerpt := tail[i:]
				if len(excerpt) > 1500 {
					excerpt = excerpt[:1500]
				}
				site := "other"
				if strings.Contains(excerpt, "maybeStartRepairStreamReader") {
					site = "repair-reader-goroutine"
				}
				v.Violation("C26/crash/"+site, "the process crashed while this case was being handled:\n%s", excerpt)
			}
			v.Skip("worker process died without a Go panic")
		}
		var res vfC26Result
		if err := json.Unmarshal([]byte(resLine), &res); err != nil {
			v.Skip("undecodable worker answer")
		}
		for _, l := range res.Labels {
			v.Label(l)
		}
		if res.NonTrivial {
			v.NonTrivial()
		}
		if res.Class != "" {
			v.Violation(res.Class, "%s", res.Message)
		}
		if res.Skipped != "" {
			v.Skip(res.Skipped)
		}
	case <-time.After(4 * vfC26Watchdog):
		ch.kill()
		vfC26Worker = nil
		v.Skip("watchdog: no answer from the worker process")
	}
}

func TestVerif_C26_Unwrap(t *testing.T) {
	defer vfC26StopWorker()
	vfProperty(t, "C26", vfOpts{
		Rule: "non-trivial = at least one RTX packet with >=2 payload bytes and a CSRC list, header extension or padding was delivered by TrackRemote.Read and compared",
		Assumptions: []string{
			"the primary stream's payload type is known to the track (one primary packet is read first, as PeerConnection's own peek does); it may switch between default video codecs mid-stream, and after the application has read the primary packet carrying the new type (TrackRemote.PayloadType() reports it) unwrapped RTX packets must carry the new type",
			"RTX packets are well-formed RTP (what SRTP decryption lets through) and fit the receive MTU; corrupt ones are fed without assertions",
			"RTX packets arrive in bursts of 1..8 before the application reads (the 50-slot hand-over channel is empty before each burst, so the receiver never legitimately skips one); within a burst packets are read back in the order fed",
			"padding filler octets are not significant; the padding count is",
			"attributes rtx_payload_type/rtx_ssrc/rtx_sequence_number are asserted because constants.go documents them",
			"cases run in a child process so that a crash of the receiver's repair goroutine is attributed to the case (class C26/crash/...)",
		},
	}, vfC26Gen, vfC26RunIsolated)
}
