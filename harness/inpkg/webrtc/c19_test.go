package webrtc

// C19 — Data channels deliver messages exactly once, in order, intact.
//
// 1..4 channels in parallel with generated label / protocol / ordered / reliability /
// negotiated parameters, created before or after connect by either side; both ends send a
// generated message list (sizes 0, 1, ~1 KiB, 16 KiB+-1, 64 KiB-1, 64 KiB; text and binary)
// from one goroutine per end, all channels at once; over host candidates or over a
// pion/transport vnet whose router adds delay and jitter (reordering, no loss).
//
// Oracle (statement only):
//   - reliable ordered channel: at any moment the list the far end's OnMessage handler has
//     received is a prefix of the list sent (same bytes, same text/binary flag) -- checked when
//     the case ends; the prefix must be the complete list when the sender's SCTP stream reports
//     nothing outstanding (BufferedAmount()==0: everything acknowledged by the peer's SCTP),
//     both PeerConnections are still connected, both ends still open and nothing arrived for
//     5 s.  A watchdog expiry without that evidence is counted inconclusive.
//   - in-band channel: the DataChannel announced on the far side has the label, protocol,
//     ordered flag, maxRetransmits and maxPacketLifeTime given to CreateDataChannel.
// Channels that are not reliable+ordered carry traffic too (they load the association and
// exercise the unordered paths); what they deliver is only counted under labels, because the
// statement does not speak about them.

import (
	"bytes"
	"fmt"
	"sync"
	"sync/atomic"
	"testing"
	"time"
	"unicode/utf8"

	"pgregory.net/rapid"
)

type vfC19Msg struct {
	Size int    `json:"size"`
	Text bool   `json:"text"`
	Seed uint32 `json:"seed"`
	// content style, for text and binary alike (a Go string may hold any bytes, SendText takes a
	// string): 0 ASCII letters, 1 valid UTF-8 with multi-byte runes, 2 the same with ill-formed
	// sequences spliced in, 3 arbitrary bytes
	Style int `json:"style,omitempty"`
}

type vfC19Chan struct {
	Creator    int    `json:"creator"` // 0 offerer, 1 answerer
	PreConnect bool   `json:"pre_connect"`
	Label      string `json:"label"`
	Protocol   string `json:"protocol"`
	Ordered    bool   `json:"ordered"`
	Rel        string `json:"rel"` // "" | rexmit | timed
	RelVal     int    `json:"rel_val"`
	Negotiated bool   `json:"negotiated"` // created on both sides before connect with id NegID
	NegID      int    `json:"neg_id"`
	// in-band only, at most one per case: the far side's OnDataChannel callback sleeps this long
	// BEFORE it registers OnMessage, while the creator starts sending from its own OnOpen
	SlowCbMs int           `json:"slow_cb_ms,omitempty"`
	Msgs     [2][]vfC19Msg `json:"msgs"` // [0]: sent by the offerer's end, [1]: by the answerer's end
}

type vfC19Case struct {
	VNet  *vfFamDVNet `json:"vnet,omitempty"`
	Chans []vfC19Chan `json:"chans"`
}

var vfC19Runes = []string{"a", "Z", " ", "é", "ß", "Ж", "漢", "€", "\u2028", "😀", "\U0010FFFF", "\x00", "\ufffd"}

// ill-formed UTF-8: lone continuation bytes, truncated runes, overlong NUL, an encoded
// surrogate, bytes that never occur, a code point beyond U+10FFFF
var vfC19IllFormed = []string{"\x80", "\xbf\xbf", "\xc3", "\xe6\xbc", "\xf0\x9f\x98", "\xc0\x80", "\xed\xa0\x80", "\xff", "\xfe", "\xf4\x90\x80\x80", "\xe9"}

func vfC19Payload(m vfC19Msg) []byte {
	x := m.Seed*2654435761 + 0x9e3779b9
	next := func() uint32 { x ^= x << 13; x ^= x >> 17; x ^= x << 5; return x }
	b := make([]byte, 0, m.Size)
	switch m.Style {
	case 1, 2:
		// pieces until the size is reached; what does not fit any more is ASCII (style 1) or
		// the head of a multi-byte rune, i.e. a truncated rune at the end (style 2)
		spliced := false
		for len(b) < m.Size {
			var piece string
			if m.Style == 2 && (next()%6 == 0 || (!spliced && m.Size-len(b) <= 4)) {
				piece = vfC19IllFormed[next()%uint32(len(vfC19IllFormed))]
				if len(b)+len(piece) <= m.Size {
					spliced = true
				}
			} else {
				piece = vfC19Runes[next()%uint32(len(vfC19Runes))]
			}
			if len(b)+len(piece) > m.Size {
				if m.Style == 2 {
					b = append(b, "\xf0\x9f\x98"[:m.Size-len(b)]...)
				} else {
					for len(b) < m.Size {
						b = append(b, 'x')
					}
				}
				break
			}
			b = append(b, piece...)
		}
	case 3:
		for len(b) < m.Size {
			b = append(b, byte(next()))
		}
	default:
		for len(b) < m.Size {
			b = append(b, byte('a'+next()%26))
		}
	}
	return b
}

type vfC19Got struct {
	data     []byte // retained without copying, as an application may do
	isString bool
}

type vfC19Recorder struct {
	mu   sync.Mutex
	got  []vfC19Got
	last time.Time
}

func (r *vfC19Recorder) attach(d *DataChannel) {
	d.OnMessage(func(m DataChannelMessage) {
		r.mu.Lock()
		r.got = append(r.got, vfC19Got{data: m.Data, isString: m.IsString})
		r.last = time.Now()
		r.mu.Unlock()
	})
}

func (r *vfC19Recorder) count() int {
	r.mu.Lock()
	defer r.mu.Unlock()
	return len(r.got)
}

type vfC19Live struct {
	spec vfC19Chan
	ends [2]*DataChannel
	recs [2]*vfC19Recorder // recs[s] records what end s RECEIVES
	sent [2]int            // messages handed to Send without error by end s (written by its sender goroutine)
	serr [2]error

	eagerDone chan struct{} // slow-callback channel: closed when the creator's OnOpen has sent its list
}

const vfC19SlowLabel = "vf-slow-callback"

func (lv *vfC19Live) sendAll(s int) {
	for _, m := range lv.spec.Msgs[s] {
		p := vfC19Payload(m)
		var serr error
		if m.Text {
			serr = lv.ends[s].SendText(string(p))
		} else {
			serr = lv.ends[s].Send(p)
		}
		if serr != nil {
			lv.serr[s] = serr
			return
		}
		lv.sent[s]++
	}
}

const (
	vfC19Watchdog  = 30 * time.Second
	vfC19QuietTime = 5 * time.Second
)

func vfC19Run(v *vfT, c vfC19Case) {
	if len(c.Chans) == 0 {
		v.Skip("no channels")
	}
	pair, err := vfFamDNewPairNet(vfFamDPeer{}, vfFamDPeer{}, 0, c.VNet)
	if err != nil {
		v.Skip("pair construction failed: " + err.Error())
	}
	defer pair.Close()
	pcs := [2]*PeerConnection{pair.Off, pair.Ans}
	if c.VNet != nil {
		v.Label("net=vnet")
		if c.VNet.MaxJitterMs > 0 {
			v.Label("net=vnet-jitter")
		}
	} else {
		v.Label("net=host")
	}

	// remote-created channels: record from the first moment (the handler returns before pion
	// starts the channel's read loop), map to the spec later by stream id
	type arrival struct {
		d   *DataChannel
		rec *vfC19Recorder
	}
	var amu sync.Mutex
	var arrived [2][]arrival
	for s := 0; s < 2; s++ {
		s := s
		pcs[s].OnDataChannel(func(d *DataChannel) {
			// a slow application callback: pion must hold the channel's messages until it returns
			if d.Label() == vfC19SlowLabel {
				for _, sp := range c.Chans {
					if sp.SlowCbMs > 0 && !sp.Negotiated && sp.Label == vfC19SlowLabel {
						time.Sleep(time.Duration(sp.SlowCbMs) * time.Millisecond)
						break
					}
				}
			}
			rec := &vfC19Recorder{}
			rec.attach(d)
			amu.Lock()
			arrived[s] = append(arrived[s], arrival{d, rec})
			amu.Unlock()
		})
	}

	if _, err = pair.Off.CreateDataChannel("vf-base", nil); err != nil {
		v.Skip("CreateDataChannel(base): " + err.Error())
	}
	lives := make([]*vfC19Live, len(c.Chans))
	usedNeg := map[int]bool{}
	create := func(i int) bool {
		sp := c.Chans[i]
		init := &DataChannelInit{}
		ordered := sp.Ordered
		init.Ordered = &ordered
		proto := sp.Protocol
		init.Protocol = &proto
		val := uint16(sp.RelVal)
		switch sp.Rel {
		case "rexmit":
			init.MaxRetransmits = &val
		case "timed":
			init.MaxPacketLifeTime = &val
		}
		lv := &vfC19Live{spec: sp, recs: [2]*vfC19Recorder{{}, {}}}
		if sp.Negotiated {
			if usedNeg[sp.NegID] {
				v.Label("skipped-channel:negotiated-id-reused")
				return false
			}
			usedNeg[sp.NegID] = true
			neg := true
			init.Negotiated = &neg
			for s := 0; s < 2; s++ {
				id := uint16(sp.NegID)
				in := *init
				in.ID = &id
				d, cerr := pcs[s].CreateDataChannel(sp.Label, &in)
				if cerr != nil {
					v.Label("skipped-channel:create-error")
					return false
				}
				lv.recs[s].attach(d)
				lv.ends[s] = d
			}
		} else {
			d, cerr := pcs[sp.Creator&1].CreateDataChannel(sp.Label, init)
			if cerr != nil {
				v.Label("skipped-channel:create-error")
				v.Logf("C19 create: %v", cerr)
				return false
			}
			lv.recs[sp.Creator&1].attach(d)
			lv.ends[sp.Creator&1] = d
			if sp.SlowCbMs > 0 && sp.Label == vfC19SlowLabel {
				// the creator sends as soon as ITS end reports open (DCEP ack), i.e. while the
				// far side's callback may still be running
				lv.eagerDone = make(chan struct{})
				var once sync.Once
				cr := sp.Creator & 1
				d.OnOpen(func() {
					once.Do(func() {
						lv.sendAll(cr)
						close(lv.eagerDone)
					})
				})
				v.Label(fmt.Sprintf("slow-callback=%dms", sp.SlowCbMs))
			}
		}
		lives[i] = lv
		return true
	}
	for i, sp := range c.Chans {
		if sp.PreConnect || sp.Negotiated {
			create(i)
		}
	}
	if err = pair.Signal(nil, nil); err != nil {
		v.Label("inconclusive:signal-error")
		v.Logf("C19: %v", err)
		return
	}
	if !pair.WaitConnected(vfC19Watchdog) {
		v.Label("inconclusive:not-connected")
		return
	}
	for i, sp := range c.Chans {
		if !(sp.PreConnect || sp.Negotiated) {
			create(i)
		}
	}

	// ---- far ends of the in-band channels ------------------------------------------------------
	mapped := vfFamDWaitFor(vfC19Watchdog, func() bool {
		amu.Lock()
		defer amu.Unlock()
		all := true
		for _, lv := range lives {
			if lv == nil || lv.spec.Negotiated {
				continue
			}
			cr := lv.spec.Creator & 1
			far := 1 - cr
			if lv.ends[far] != nil {
				continue
			}
			id := lv.ends[cr].ID()
			if id == nil {
				all = false
				continue
			}
			for _, a := range arrived[far] {
				if aid := a.d.ID(); aid != nil && *aid == *id {
					lv.ends[far], lv.recs[far] = a.d, a.rec
				}
			}
			if lv.ends[far] == nil {
				all = false
			}
		}
		return all
	})
	if !mapped {
		v.Label("inconclusive:channel-not-announced")
		return
	}
	// announced parameters (statement, second sentence)
	for _, lv := range lives {
		if lv == nil || lv.spec.Negotiated {
			continue
		}
		sp := lv.spec
		far := lv.ends[1-sp.Creator&1]
		var wantRex, wantLife *uint16
		val := uint16(sp.RelVal)
		switch sp.Rel {
		case "rexmit":
			wantRex = &val
		case "timed":
			wantLife = &val
		}
		eqp := func(a, b *uint16) bool { return (a == nil) == (b == nil) && (a == nil || *a == *b) }
		fp := func(p *uint16) string {
			if p == nil {
				return "nil"
			}
			return fmt.Sprint(*p)
		}
		switch {
		case far.Label() != sp.Label:
			v.Violation("C19/announced/label", "created with label %q (%d bytes), announced as %q (%d bytes)", sp.Label, len(sp.Label), far.Label(), len(far.Label()))
		case far.Protocol() != sp.Protocol:
			v.Violation("C19/announced/protocol", "created with protocol %q, announced as %q", sp.Protocol, far.Protocol())
		case far.Ordered() != sp.Ordered:
			v.Violation("C19/announced/ordered", "created with ordered=%v (rel %q), announced ordered=%v", sp.Ordered, sp.Rel, far.Ordered())
		case !eqp(far.MaxRetransmits(), wantRex):
			v.Violation("C19/announced/maxRetransmits", "created with maxRetransmits=%s (ordered=%v), announced %s", fp(wantRex), sp.Ordered, fp(far.MaxRetransmits()))
		case !eqp(far.MaxPacketLifeTime(), wantLife):
			v.Violation("C19/announced/maxPacketLifeTime", "created with maxPacketLifeTime=%s (ordered=%v), announced %s", fp(wantLife), sp.Ordered, fp(far.MaxPacketLifeTime()))
		}
		v.Label("announced-params-checked")
	}
	// every end open before its sender starts ("sent while it is open")
	allOpen := vfFamDWaitFor(vfC19Watchdog, func() bool {
		for _, lv := range lives {
			if lv == nil {
				continue
			}
			for s := 0; s < 2; s++ {
				if lv.ends[s].ReadyState() != DataChannelStateOpen {
					return false
				}
			}
		}
		return true
	})
	if !allOpen {
		v.Label("inconclusive:channel-not-open")
		return
	}

	// ---- traffic -----------------------------------------------------------------------------
	var wg sync.WaitGroup
	var eagerTimeouts atomic.Int32
	for _, lv := range lives {
		if lv == nil {
			continue
		}
		for s := 0; s < 2; s++ {
			wg.Add(1)
			go func(lv *vfC19Live, s int) {
				defer wg.Done()
				if lv.eagerDone != nil && s == lv.spec.Creator&1 {
					select { // already sent (or being sent) from the creator's OnOpen
					case <-lv.eagerDone:
					case <-time.After(vfC19Watchdog):
						eagerTimeouts.Add(1)
					}
					return
				}
				lv.sendAll(s)
			}(lv, s)
		}
	}
	wg.Wait()
	if eagerTimeouts.Load() > 0 {
		v.Label("inconclusive:creator-onopen-never-fired")
		return
	}

	reliable := func(lv *vfC19Live) bool { return lv.spec.Ordered && lv.spec.Rel == "" }
	complete := func() bool {
		for _, lv := range lives {
			if lv == nil {
				continue
			}
			for s := 0; s < 2; s++ {
				if reliable(lv) && lv.recs[1-s].count() < lv.sent[s] {
					return false
				}
			}
		}
		return true
	}
	// quiet: nothing outstanding at the senders' SCTP and nothing delivered for a while
	acked := func() bool {
		for _, lv := range lives {
			if lv == nil {
				continue
			}
			for s := 0; s < 2; s++ {
				if lv.ends[s].BufferedAmount() != 0 {
					return false
				}
			}
		}
		return true
	}
	var quietSince time.Time
	lastTotal := -1
	finished := vfFamDWaitFor(vfC19Watchdog, func() bool {
		if complete() {
			return true
		}
		total := 0
		for _, lv := range lives {
			if lv != nil {
				total += lv.recs[0].count() + lv.recs[1].count()
			}
		}
		if total != lastTotal || !acked() {
			lastTotal = total
			quietSince = time.Now()
			return false
		}
		return time.Since(quietSince) > vfC19QuietTime
	})
	// let the unreliable/unordered channels drain a little as well (only counted)
	vfFamDWaitFor(300*time.Millisecond, func() bool {
		for _, lv := range lives {
			if lv == nil {
				continue
			}
			for s := 0; s < 2; s++ {
				if lv.recs[1-s].count() < lv.sent[s] {
					return false
				}
			}
		}
		return true
	})
	healthy := pair.Off.ConnectionState() == PeerConnectionStateConnected && pair.Ans.ConnectionState() == PeerConnectionStateConnected

	nontrivial := false
	for ci, lv := range lives {
		if lv == nil {
			continue
		}
		kind := "unordered-or-partial"
		if reliable(lv) {
			kind = "reliable-ordered"
		}
		v.Label("channel:" + kind)
		for s := 0; s < 2; s++ {
			rec := lv.recs[1-s]
			rec.mu.Lock()
			got := append([]vfC19Got{}, rec.got...)
			rec.mu.Unlock()
			msgs := lv.spec.Msgs[s]
			if lv.serr[s] != nil {
				v.Label("send-error")
				v.Logf("C19 send error: %v", lv.serr[s])
			}
			if !reliable(lv) {
				// counted only
				if len(got) < lv.sent[s] {
					v.Label("other-channel:fewer-received-than-sent")
				}
				if len(got) > lv.sent[s] {
					v.Label("other-channel:more-received-than-sent(not asserted)")
				}
				continue
			}
			dir := fmt.Sprintf("channel %d (%s, id %v) %d->%d", ci, map[bool]string{true: "negotiated", false: "in-band"}[lv.spec.Negotiated], vfC19ID(lv.ends[s]), s, 1-s)
			if len(got) > lv.sent[s] {
				v.Violation("C19/delivered-more-than-sent", "%s: %d messages sent, %d delivered", dir, lv.sent[s], len(got))
			}
			for k, g := range got {
				want := vfC19Payload(msgs[k])
				if g.isString != msgs[k].Text {
					// same bytes at another position would be a reordering; the flag alone is its own class
					if bytes.Equal(g.data, want) {
						v.Violation("C19/text-binary-flag", "%s: message %d (%d bytes) sent text=%v, delivered IsString=%v", dir, k, len(want), msgs[k].Text, g.isString)
					}
				}
				if !bytes.Equal(g.data, want) {
					// classify: duplicate / reordered / corrupted
					class := "C19/corrupted"
					where := ""
					for j := range msgs {
						if j != k && bytes.Equal(g.data, vfC19Payload(msgs[j])) {
							if j < k {
								class, where = "C19/duplicate-or-late", fmt.Sprintf(" (equals sent message %d)", j)
							} else {
								class, where = "C19/reordered-or-skipped", fmt.Sprintf(" (equals sent message %d)", j)
							}
							break
						}
					}
					v.Violation(class, "%s: delivery %d has %d bytes, sent message %d has %d bytes; first difference at byte %d%s",
						dir, k, len(g.data), k, len(want), vfC19FirstDiff(g.data, want), where)
				}
			}
			if len(got) < lv.sent[s] {
				ends := lv.ends[0].ReadyState() == DataChannelStateOpen && lv.ends[1].ReadyState() == DataChannelStateOpen
				if finished && healthy && ends && acked() {
					v.Violation("C19/lost-message", "%s: %d messages sent, only %d delivered although the sender's stream has nothing outstanding (BufferedAmount 0), both PeerConnections are connected, both ends open and nothing arrived for %s (next missing: message %d, %d bytes, text=%v)",
						dir, lv.sent[s], len(got), vfC19QuietTime, len(got), msgs[len(got)].Size, msgs[len(got)].Text)
				}
				v.Label("inconclusive:reliable-channel-incomplete")
				continue
			}
			illFormed := false
			for k := 0; k < lv.sent[s] && k < len(msgs); k++ {
				switch valid := utf8.Valid(vfC19Payload(msgs[k])); {
				case msgs[k].Text && !valid:
					illFormed = true
					v.Label("msg:text-illformed-utf8")
				case msgs[k].Text && msgs[k].Size == 0:
					v.Label("msg:text-empty")
				case msgs[k].Text && msgs[k].Style == 1:
					v.Label("msg:text-valid-multibyte")
				case !msgs[k].Text && valid && msgs[k].Size > 0:
					v.Label("msg:binary-that-is-valid-text")
				}
			}
			if lv.sent[s] > 1 || illFormed {
				nontrivial = true
			}
			v.Label("reliable-direction-complete")
		}
	}
	if nontrivial {
		v.NonTrivial()
	}
}

func vfC19ID(d *DataChannel) any {
	if id := d.ID(); id != nil {
		return *id
	}
	return nil
}

func vfC19FirstDiff(a, b []byte) int {
	n := len(a)
	if len(b) < n {
		n = len(b)
	}
	for i := 0; i < n; i++ {
		if a[i] != b[i] {
			return i
		}
	}
	return n
}

var vfC19Sizes = []int{0, 0, 1, 1, 2, 17, 100, 1000, 1024, 1200, 1201, 4096, 16383, 16384, 16385, 65535, 65536}

func vfC19GenMsgs(v *vfT, name string, budget *int) []vfC19Msg {
	n := rapid.IntRange(0, 24).Draw(v.R, name+"_n")
	var out []vfC19Msg
	for i := 0; i < n; i++ {
		size := rapid.SampledFrom(vfC19Sizes).Draw(v.R, name+"_size")
		if size > *budget {
			size = rapid.IntRange(0, 64).Draw(v.R, name+"_small")
		}
		*budget -= size
		out = append(out, vfC19Msg{Size: size, Text: rapid.Bool().Draw(v.R, name+"_text"), Seed: rapid.Uint32().Draw(v.R, name+"_seed"),
			Style: rapid.SampledFrom([]int{0, 1, 2, 2, 3}).Draw(v.R, name+"_style")})
	}
	return out
}

func vfC19GenLabel(v *vfT, name string) string {
	switch rapid.IntRange(0, 5).Draw(v.R, name+"_kind") {
	case 0:
		return ""
	case 1:
		// 1 KiB of mixed-width runes
		s := rapid.StringOfN(rapid.RuneFrom([]rune("aZ09 -_.é漢😀 ")), 200, 400, -1).Draw(v.R, name+"_long")
		b := []byte(s)
		for len(b) < 1024 {
			b = append(b, 'x')
		}
		return string(b[:1024])
	case 2:
		return rapid.StringN(0, 40, -1).Draw(v.R, name+"_unicode")
	default:
		return rapid.StringMatching(`[a-zA-Z0-9 _-]{0,20}`).Draw(v.R, name+"_ascii")
	}
}

func TestVerif_C19_Delivery(t *testing.T) {
	vfProperty(t, "C19", vfOpts{
		Rule: "1..4 channels (label empty/ASCII/unicode/1 KiB, protocol, ordered, maxRetransmits|maxPacketLifeTime|neither, in-band from either side before or after connect, or negotiated) x message lists of 0..24 messages per direction (sizes 0..64 KiB, text/binary, contents ASCII / valid multi-byte UTF-8 / ill-formed UTF-8 / arbitrary bytes, <=600 KiB per case) x host network or vnet with 0..20 ms delay and 0..30 ms jitter; non-trivial = some reliable ordered direction was compared completely and carried >=2 messages or a text message that is not valid UTF-8",
		Assumptions: []string{
			"messages are sent after both ends were observed open, one sender goroutine per end, so the send order is defined",
			"negotiated channels are created on both sides before signalling",
			"slow-callback channel (at most one per case, in-band): the far side's OnDataChannel callback sleeps 5/700/1200 ms before it registers OnMessage while the creator sends its list from its own OnOpen; those messages were sent while the channel was open, so the unchanged oracle applies",
			"text payloads are arbitrary byte strings (ASCII, valid multi-byte UTF-8, ill-formed UTF-8: lone continuation bytes, truncated runes, C0 80, encoded surrogates, FF/FE, arbitrary bytes); binary payloads use the same styles, so some are valid text; SendText takes a Go string, which may hold any bytes, and the statement promises identical bytes",
			"only reliable ordered channels are asserted (the statement is silent on the others); their far end is compared as a prefix at any time and as the full list when BufferedAmount()==0 on the sender, the pair is connected, the ends are open and 5 s passed without a delivery",
			"the vnet adds delay and jitter (reordering) but never drops",
		},
	}, func(v *vfT) vfC19Case {
		var c vfC19Case
		if rapid.IntRange(0, 9).Draw(v.R, "vnet") < 5 {
			c.VNet = &vfFamDVNet{MinDelayMs: rapid.IntRange(0, 20).Draw(v.R, "delay"), MaxJitterMs: rapid.SampledFrom([]int{0, 1, 5, 10, 30}).Draw(v.R, "jitter")}
		}
		budget := 600 << 10
		slowUsed := false
		n := rapid.IntRange(1, 4).Draw(v.R, "nchan")
		for i := 0; i < n; i++ {
			ch := vfC19Chan{
				Creator:    rapid.IntRange(0, 1).Draw(v.R, "creator"),
				PreConnect: rapid.Bool().Draw(v.R, "pre"),
				Label:      vfC19GenLabel(v, "label"),
				Protocol:   rapid.SampledFrom([]string{"", "", "json", "x-proto/1.0", "протокол"}).Draw(v.R, "proto"),
				Ordered:    rapid.IntRange(0, 3).Draw(v.R, "ordered") != 0,
			}
			switch rapid.IntRange(0, 5).Draw(v.R, "rel") {
			case 0:
				ch.Rel, ch.RelVal = "rexmit", rapid.SampledFrom([]int{0, 1, 5, 65535}).Draw(v.R, "rexmit")
			case 1:
				ch.Rel, ch.RelVal = "timed", rapid.SampledFrom([]int{0, 1, 200, 65535}).Draw(v.R, "life")
			}
			if rapid.IntRange(0, 5).Draw(v.R, "negotiated") == 0 {
				ch.Negotiated, ch.NegID = true, 100+2*i+rapid.IntRange(0, 1).Draw(v.R, "negid")
			}
			ch.Msgs[0] = vfC19GenMsgs(v, "m0", &budget)
			ch.Msgs[1] = vfC19GenMsgs(v, "m1", &budget)
			if !slowUsed && !ch.Negotiated && rapid.IntRange(0, 3).Draw(v.R, "slow_cb") == 0 {
				// mostly harmless delays, the long ones in about 1 case out of 6
				ch.SlowCbMs = rapid.SampledFrom([]int{5, 5, 700, 1200}).Draw(v.R, "slow_cb_ms")
				ch.Label = vfC19SlowLabel
				ch.Ordered, ch.Rel, ch.RelVal = true, "", 0 // asserted kind
				slowUsed = true
				if len(ch.Msgs[ch.Creator]) == 0 {
					ch.Msgs[ch.Creator] = []vfC19Msg{{Size: 17, Text: true, Seed: 1}, {Size: 1200, Seed: 2, Style: 3}, {Size: 0, Text: true, Seed: 3}}
				}
			}
			c.Chans = append(c.Chans, ch)
		}
		return c
	}, vfC19Run)
}
