package webrtc

// C23 — Media written to a local track arrives intact on the negotiated stream.
//
// Both peers register the same small codec set (one audio codec and/or one or two video
// codecs out of Opus, VP8, VP9, H264, AV1; RTX on/off) under DIFFERENT payload type numbers,
// 1..3 TrackLocalStaticRTP tracks (+ optional data channel) go into one bundle, the sender is
// the offerer or the answerer (the offerer then offers recvonly transceivers).  After the pair
// is connected each track writes "probe" packets until its first packet is seen on the far
// side (everything before SRTP is up is legitimately lost), then 20..50 packets with generated
// payloads; the receiver reads every TrackRemote with ReadRTP.
//
// Oracle (statement): for every TrackRemote and every packet read from it
//   - TrackRemote.SSRC() is the primary SSRC of one of the sender's m-sections in the sender's
//     local description, and every packet carries that SSRC;
//   - the packet's payload type (and TrackRemote.PayloadType()) is the payload type the ANSWER
//     lists for the track's codec in that m-section;
//   - the payload is byte-for-byte one that was written to the local track of that m-section
//     (payloads carry a track/packet tag, so the comparison does not depend on sequence
//     numbers);
//   - Codec().MimeType, StreamID(), ID() equal the codec and the a=msid of that m-section.
// Loss, duplication, order and the RTP sequence number / timestamp / marker are not part of
// the statement: they are counted under labels.  "No packet ever arrived" is inconclusive.

import (
	"bytes"
	"encoding/binary"
	"fmt"
	"strconv"
	"strings"
	"sync"
	"testing"
	"time"

	"github.com/pion/rtp"
	"github.com/pion/sdp/v3"
	"github.com/pion/transport/v4/vnet"
	"pgregory.net/rapid"
)

type vfC23Codec struct {
	Name  string `json:"name"` // opus VP8 VP9 H264 AV1
	PT    [2]int `json:"pt"`   // payload type on the offerer / on the answerer
	RTX   bool   `json:"rtx"`
	RTXPT [2]int `json:"rtx_pt"`
}

type vfC23Track struct {
	Codec    int    `json:"codec"` // index into Codecs
	ID       string `json:"id"`
	Stream   string `json:"stream"`
	N        int    `json:"n"`         // packets after the probe phase
	StartSeq int    `json:"start_seq"` // RTP sequence number of the first probe
	Seed     uint32 `json:"seed"`
}

type vfC23Case struct {
	Codecs           []vfC23Codec `json:"codecs"`
	Tracks           []vfC23Track `json:"tracks"`
	DefaultCodecs    bool         `json:"default_codecs,omitempty"` // both sides RegisterDefaultCodecs (PT fields unused)
	SenderIsAnswerer bool         `json:"sender_is_answerer"`
	DataChannel      bool         `json:"data_channel"`
	// Lossy variant: both peers on a vnet router whose chunk filter drops runs of adjacent
	// first-transmission packets (data index At .. At+Len-1) of every video track that has RTX,
	// so that NACK -> RTX retransmissions (several per NACK) reach TrackRemote.Read.
	Loss        []vfC23LossRun `json:"loss,omitempty"`
	VNetDelayMs int            `json:"vnet_delay_ms,omitempty"`
	// Concurrent variant (>= 2 tracks): after the probe phase all tracks start their data phase
	// together, each from its own goroutine, without pauses, mixing WriteRTP and Write(raw);
	// before that (Malformed) and every MalformedEvery packets a buffer that is not RTP is
	// given to Write (its error is expected and ignored).
	Concurrent     bool  `json:"concurrent,omitempty"`
	Malformed      []int `json:"malformed,omitempty"` // kinds, see vfC23Malformed
	MalformedEvery int   `json:"malformed_every,omitempty"`
}

// vfC23Malformed returns a buffer that cannot be parsed as RTP (every kind is shorter than the
// header it announces).
func vfC23Malformed(kind int) []byte {
	switch kind % 5 {
	case 0:
		return []byte{}
	case 1:
		return []byte{0x80, 0x60, 0x00, 0x01, 0x00}
	case 2:
		return []byte{0x80, 0x60, 0, 1, 0, 0, 0, 1, 0, 0, 0}
	case 3:
		return []byte{0x8f, 0x60, 0, 1, 0, 0, 0, 1, 0, 0, 0, 1} // 15 CSRCs announced, none present
	default:
		return []byte{0x90, 0x60, 0, 1, 0, 0, 0, 1, 0, 0, 0, 1} // extension bit, no extension header
	}
}

type vfC23LossRun struct {
	At  int `json:"at"`
	Len int `json:"len"` // 1..3
}

func vfC23Cap(name string) (RTPCodecCapability, RTPCodecType, bool) {
	switch name {
	case "opus":
		return RTPCodecCapability{MimeType: MimeTypeOpus, ClockRate: 48000, Channels: 2, SDPFmtpLine: "minptime=10;useinbandfec=1"}, RTPCodecTypeAudio, true
	case "VP8":
		return RTPCodecCapability{MimeType: MimeTypeVP8, ClockRate: 90000}, RTPCodecTypeVideo, true
	case "VP9":
		return RTPCodecCapability{MimeType: MimeTypeVP9, ClockRate: 90000, SDPFmtpLine: "profile-id=0"}, RTPCodecTypeVideo, true
	case "H264":
		return RTPCodecCapability{MimeType: MimeTypeH264, ClockRate: 90000, SDPFmtpLine: "level-asymmetry-allowed=1;packetization-mode=1;profile-level-id=42e01f"}, RTPCodecTypeVideo, true
	case "AV1":
		return RTPCodecCapability{MimeType: MimeTypeAV1, ClockRate: 90000}, RTPCodecTypeVideo, true
	case "PCMU":
		return RTPCodecCapability{MimeType: MimeTypePCMU, ClockRate: 8000}, RTPCodecTypeAudio, true
	case "G722":
		return RTPCodecCapability{MimeType: MimeTypeG722, ClockRate: 8000}, RTPCodecTypeAudio, true
	}
	return RTPCodecCapability{}, 0, false
}

func vfC23ME(c vfC23Case, side int) func() *MediaEngine {
	return func() *MediaEngine {
		me := &MediaEngine{}
		if c.DefaultCodecs {
			_ = me.RegisterDefaultCodecs()
			return me
		}
		for _, cd := range c.Codecs {
			cp, kind, ok := vfC23Cap(cd.Name)
			if !ok {
				continue
			}
			_ = me.RegisterCodec(RTPCodecParameters{RTPCodecCapability: cp, PayloadType: PayloadType(cd.PT[side])}, kind)
			if cd.RTX && kind == RTPCodecTypeVideo {
				_ = me.RegisterCodec(RTPCodecParameters{
					RTPCodecCapability: RTPCodecCapability{MimeType: MimeTypeRTX, ClockRate: 90000, SDPFmtpLine: fmt.Sprintf("apt=%d", cd.PT[side])},
					PayloadType:        PayloadType(cd.RTXPT[side]),
				}, kind)
			}
		}
		return me
	}
}

// payload layout: [0]=0xC2 [1]=track [2]=phase (0 probe, 1 data) [3:5]=index [5:]=generated bytes
func vfC23Payload(track int, phase int, idx int, seed uint32) []byte {
	x := seed*2654435761 + uint32(idx)*40503 + uint32(phase)*7 + 0x9e3779b9
	next := func() uint32 { x ^= x << 13; x ^= x >> 17; x ^= x << 5; return x }
	size := 8 + int(next()%1100)
	if next()%5 == 0 {
		size = 8 + int(next()%8)
	}
	b := make([]byte, size)
	b[0], b[1], b[2] = 0xC2, byte(track), byte(phase)
	binary.BigEndian.PutUint16(b[3:5], uint16(idx))
	for i := 5; i < size; i++ {
		b[i] = byte(next())
	}
	return b
}

// what the sender's local description says about one of its sending m-sections
type vfC23Section struct {
	mid     string
	primary []uint32 // SSRCs that are not the repair half of a FID group
	msidS   string
	msidT   string
	hasMsid bool
}

func vfC23Sections(text string) (map[string]*vfC23Section, *sdp.SessionDescription, error) {
	var sd sdp.SessionDescription
	if err := sd.UnmarshalString(text); err != nil {
		return nil, nil, err
	}
	out := map[string]*vfC23Section{}
	for _, md := range sd.MediaDescriptions {
		mid, ok := md.Attribute("mid")
		if !ok {
			continue
		}
		sec := &vfC23Section{mid: mid}
		repair := map[uint32]bool{}
		var all []uint32
		seen := map[uint32]bool{}
		for _, a := range md.Attributes {
			switch a.Key {
			case "ssrc-group":
				f := strings.Fields(a.Value)
				if len(f) >= 3 && f[0] == "FID" {
					for _, r := range f[2:] {
						if n, err := strconv.ParseUint(r, 10, 32); err == nil {
							repair[uint32(n)] = true
						}
					}
				}
			case "ssrc":
				f := strings.Fields(a.Value)
				if len(f) >= 1 {
					if n, err := strconv.ParseUint(f[0], 10, 32); err == nil && !seen[uint32(n)] {
						seen[uint32(n)] = true
						all = append(all, uint32(n))
					}
				}
			case "msid":
				f := strings.Fields(a.Value)
				if len(f) == 2 {
					sec.msidS, sec.msidT, sec.hasMsid = f[0], f[1], true
				}
			}
		}
		for _, s := range all {
			if !repair[s] {
				sec.primary = append(sec.primary, s)
			}
		}
		out[mid] = sec
	}
	return out, &sd, nil
}

// vfC23AnswerPT finds the payload type the answer lists for codec `name` in section mid
// (-1 = section or codec missing, -2 = ambiguous).
func vfC23AnswerPT(answer *sdp.SessionDescription, mid string, mime string, clock uint32, fmtpLine string) int {
	name := mime[strings.Index(mime, "/")+1:]
	for _, md := range answer.MediaDescriptions {
		if m, _ := md.Attribute("mid"); m != mid {
			continue
		}
		var cands []int
		fmtps := map[int]string{}
		for _, a := range md.Attributes {
			if a.Key == "fmtp" {
				f := strings.SplitN(a.Value, " ", 2)
				if pt, err := strconv.Atoi(f[0]); err == nil && len(f) == 2 {
					fmtps[pt] = f[1]
				}
			}
			if a.Key != "rtpmap" {
				continue
			}
			f := strings.Fields(a.Value)
			if len(f) != 2 {
				continue
			}
			enc := strings.Split(f[1], "/")
			if len(enc) < 2 || !strings.EqualFold(enc[0], name) || enc[1] != strconv.Itoa(int(clock)) {
				continue
			}
			pt, err := strconv.Atoi(f[0])
			if err != nil {
				continue
			}
			// must be listed on the m= line
			listed := false
			for _, fm := range md.MediaName.Formats {
				listed = listed || fm == f[0]
			}
			if listed {
				cands = append(cands, pt)
			}
		}
		if len(cands) > 1 {
			// several entries of that codec (profiles): the one with exactly the track's fmtp, if unique
			var exact []int
			for _, pt := range cands {
				if fmtps[pt] == fmtpLine {
					exact = append(exact, pt)
				}
			}
			cands = exact
			if len(cands) != 1 {
				return -2
			}
		}
		if len(cands) == 1 {
			return cands[0]
		}
		return -1
	}
	return -1
}

type vfC23Rx struct {
	track *TrackRemote
	mu    sync.Mutex
	pkts  []*rtp.Packet
	nRTX  int // packets that TrackRemote.Read took from the repair (RTX) stream
}

const vfC23Watchdog = 15 * time.Second

func vfC23Run(v *vfT, c vfC23Case) {
	if len(c.Tracks) == 0 || len(c.Codecs) == 0 {
		v.Skip("empty case")
	}
	lossy := len(c.Loss) > 0
	var vn *vfFamDVNet
	if lossy {
		vn = &vfFamDVNet{MinDelayMs: c.VNetDelayMs}
		v.Label("lossy-vnet")
	}
	// NewAPI registers the default interceptors (NACK generator/responder, reports, TWCC, stats)
	// because the family helper passes no registry of its own.
	pair, err := vfFamDNewPairNet(vfFamDPeer{ME: vfC23ME(c, 0)}, vfFamDPeer{ME: vfC23ME(c, 1)}, 0, vn)
	if err != nil {
		v.Skip("pair construction failed: " + err.Error())
	}
	defer pair.Close()
	sender, receiver := pair.Off, pair.Ans
	if c.DefaultCodecs {
		v.Label("default-codecs")
	}
	if c.SenderIsAnswerer {
		sender, receiver = pair.Ans, pair.Off
		v.Label("sender=answerer")
	} else {
		v.Label("sender=offerer")
	}

	// ---- tracks ------------------------------------------------------------------------------
	locals := make([]*TrackLocalStaticRTP, len(c.Tracks))
	senders := make([]*RTPSender, len(c.Tracks))
	for i, t := range c.Tracks {
		cd := c.Codecs[t.Codec%len(c.Codecs)]
		cp, kind, ok := vfC23Cap(cd.Name)
		if !ok {
			v.Skip("unknown codec " + cd.Name)
		}
		if c.SenderIsAnswerer {
			if _, err = pair.Off.AddTransceiverFromKind(kind, RTPTransceiverInit{Direction: RTPTransceiverDirectionRecvonly}); err != nil {
				v.Skip("AddTransceiverFromKind: " + err.Error())
			}
		}
		tr, terr := NewTrackLocalStaticRTP(cp, t.ID, t.Stream)
		if terr != nil {
			v.Skip("NewTrackLocalStaticRTP: " + terr.Error())
		}
		locals[i] = tr
		if senders[i], err = sender.AddTrack(tr); err != nil {
			v.Skip("AddTrack: " + err.Error())
		}
		v.Label("codec=" + cd.Name)
		if cd.RTX && kind == RTPCodecTypeVideo {
			v.Label("rtx-registered")
		}
	}
	if c.DataChannel {
		if _, err = pair.Off.CreateDataChannel("c23", nil); err != nil {
			v.Skip("CreateDataChannel: " + err.Error())
		}
		v.Label("with-data-channel")
	}

	// ---- receiver ----------------------------------------------------------------------------
	var rmu sync.Mutex
	var rxs []*vfC23Rx
	firstSeen := make([]bool, len(c.Tracks)) // by payload tag, flow control of the harness only
	dataSeen := make([]int, len(c.Tracks))   // highest data index seen per tagged track
	var readers sync.WaitGroup
	receiver.OnTrack(func(tr *TrackRemote, _ *RTPReceiver) {
		rx := &vfC23Rx{track: tr}
		rmu.Lock()
		rxs = append(rxs, rx)
		rmu.Unlock()
		readers.Add(1)
		go func() {
			defer readers.Done()
			for {
				p, attrs, rerr := tr.ReadRTP()
				if rerr != nil {
					return
				}
				rx.mu.Lock()
				rx.pkts = append(rx.pkts, p)
				if attrs != nil && attrs.Get(AttributeRtxSsrc) != nil {
					rx.nRTX++
				}
				rx.mu.Unlock()
				if len(p.Payload) >= 5 && p.Payload[0] == 0xC2 && int(p.Payload[1]) < len(firstSeen) {
					rmu.Lock()
					firstSeen[p.Payload[1]] = true
					if p.Payload[2] == 1 {
						if idx := int(binary.BigEndian.Uint16(p.Payload[3:5])) + 1; idx > dataSeen[p.Payload[1]] {
							dataSeen[p.Payload[1]] = idx
						}
					}
					rmu.Unlock()
				}
			}
		}()
	})

	if err = pair.Signal(nil, nil); err != nil {
		v.Label("inconclusive:signal-error")
		v.Logf("C23 %v", err)
		return
	}
	if !pair.WaitConnected(vfC23Watchdog) {
		v.Label("inconclusive:not-connected")
		return
	}

	// ---- what the descriptions promise ---------------------------------------------------------
	sld := sender.LocalDescription()
	if sld == nil {
		v.Skip("no local description on the sender")
	}
	sections, _, perr := vfC23Sections(sld.SDP)
	if perr != nil {
		v.Skip("sender description does not parse: " + perr.Error())
	}
	var answer sdp.SessionDescription
	if perr = answer.UnmarshalString(pair.AnswerLocal); perr != nil {
		v.Skip("answer does not parse: " + perr.Error())
	}
	// m-section of each local track: through the transceiver that owns its sender
	trackMid := make([]string, len(c.Tracks))
	for i := range c.Tracks {
		for _, tc := range sender.GetTransceivers() {
			if tc.Sender() == senders[i] {
				trackMid[i] = tc.Mid()
			}
		}
		if trackMid[i] == "" {
			v.Label("inconclusive:track-without-mid")
			return
		}
	}

	// ---- send -----------------------------------------------------------------------------------
	type sentPkt struct {
		payload []byte
		seq     uint16
		ts      uint32
		marker  bool
	}
	sent := make([]map[[2]int]sentPkt, len(c.Tracks)) // key: (phase, idx)
	var swg sync.WaitGroup
	var smu sync.Mutex
	writeErrs := 0
	malformedAccepted := 0
	var barrier sync.WaitGroup // concurrent variant: all data phases start together
	barrier.Add(len(c.Tracks))
	if c.Concurrent {
		v.Label("concurrent-writers")
		if len(c.Malformed) > 0 || c.MalformedEvery > 0 {
			v.Label("concurrent-writers+malformed-writes")
		}
	}
	malformed := func(i, kind int) {
		if _, merr := locals[i].Write(vfC23Malformed(kind)); merr == nil {
			smu.Lock()
			malformedAccepted++
			smu.Unlock()
		}
	}
	// the sender's RTCP has to be read for the NACK responder to see the NACKs
	for _, sd := range senders {
		go func(sd *RTPSender) {
			buf := make([]byte, 1500)
			for {
				if _, _, rerr := sd.Read(buf); rerr != nil {
					return
				}
			}
		}(sd)
	}
	// lossy variant: drop the drawn runs of the first transmission (the media SSRC; the RTX
	// SSRC is never touched).  The RTP header is in the clear under SRTP.
	dropIdx := map[int]bool{}
	for _, r := range c.Loss {
		for k := 0; k < r.Len && k < 3; k++ {
			dropIdx[r.At+k] = true
		}
	}
	var lmu sync.Mutex
	lossTrack := map[uint32]int{}           // media SSRC -> track index (tracks with RTX only)
	dataStart := make([]int, len(c.Tracks)) // sequence number of data packet 0, -1 = not yet known
	dropped := 0
	for i := range dataStart {
		dataStart[i] = -1
	}
	if lossy {
		for i, t := range c.Tracks {
			cd := c.Codecs[t.Codec%len(c.Codecs)]
			_, kind, _ := vfC23Cap(cd.Name)
			if kind != RTPCodecTypeVideo || !(cd.RTX || c.DefaultCodecs) {
				continue
			}
			if sec := sections[trackMid[i]]; sec != nil && len(sec.primary) == 1 {
				lossTrack[sec.primary[0]] = i
			}
		}
		pair.vnetRouter.AddChunkFilter(func(ch vnet.Chunk) bool {
			d := ch.UserData()
			if len(d) < 12 || d[0]&0xC0 != 0x80 {
				return true
			}
			lmu.Lock()
			defer lmu.Unlock()
			ti, ok := lossTrack[binary.BigEndian.Uint32(d[8:12])]
			if !ok || dataStart[ti] < 0 {
				return true
			}
			idx := int(binary.BigEndian.Uint16(d[2:4]) - uint16(dataStart[ti]))
			if idx < c.Tracks[ti].N && dropIdx[idx] {
				dropped++
				return false
			}
			return true
		})
	}
	for i, t := range c.Tracks {
		sent[i] = map[[2]int]sentPkt{}
		swg.Add(1)
		go func(i int, t vfC23Track) {
			defer swg.Done()
			seq := uint16(t.StartSeq)
			ts := t.Seed
			write := func(phase, idx int) {
				pl := vfC23Payload(i, phase, idx, t.Seed)
				marker := (idx+phase)%3 == 0
				smu.Lock()
				sent[i][[2]int{phase, idx}] = sentPkt{pl, seq, ts, marker}
				smu.Unlock()
				werr := locals[i].WriteRTP(&rtp.Packet{
					Header:  rtp.Header{Version: 2, PayloadType: 0, SequenceNumber: seq, Timestamp: ts, Marker: marker, SSRC: 0xdeadbeef},
					Payload: pl,
				})
				if werr != nil {
					smu.Lock()
					writeErrs++
					smu.Unlock()
				}
				seq++
				ts += 960
			}
			deadline := time.Now().Add(vfC23Watchdog)
			for idx := 0; ; idx++ {
				rmu.Lock()
				seen := firstSeen[i]
				rmu.Unlock()
				if seen || time.Now().After(deadline) || idx >= 60000 {
					break
				}
				write(0, idx)
				time.Sleep(3 * time.Millisecond)
			}
			lmu.Lock()
			dataStart[i] = int(seq)
			lmu.Unlock()
			if c.Concurrent {
				// everything prepared up front so that the writers really overlap
				pkts := make([]*rtp.Packet, t.N)
				raws := make([][]byte, t.N)
				smu.Lock()
				for idx := 0; idx < t.N; idx++ {
					pl := vfC23Payload(i, 1, idx, t.Seed)
					marker := (idx+1)%3 == 0
					sent[i][[2]int{1, idx}] = sentPkt{pl, seq, ts, marker}
					pkts[idx] = &rtp.Packet{
						Header:  rtp.Header{Version: 2, PayloadType: 0, SequenceNumber: seq, Timestamp: ts, Marker: marker, SSRC: 0xdeadbeef},
						Payload: pl,
					}
					if (t.Seed>>(uint(idx)%16))&1 == 1 {
						raws[idx], _ = pkts[idx].Marshal()
					}
					seq++
					ts += 960
				}
				smu.Unlock()
				if i == 0 {
					for _, k := range c.Malformed {
						malformed(i, k)
					}
				}
				barrier.Done()
				barrier.Wait()
				nerr := 0
				for idx := 0; idx < t.N; idx++ {
					var werr error
					if raws[idx] != nil {
						_, werr = locals[i].Write(raws[idx])
					} else {
						werr = locals[i].WriteRTP(pkts[idx])
					}
					if werr != nil {
						nerr++
					}
					if c.MalformedEvery > 0 && idx%c.MalformedEvery == c.MalformedEvery-1 {
						malformed(i, idx/c.MalformedEvery+i)
					}
				}
				smu.Lock()
				writeErrs += nerr
				smu.Unlock()
				// a short tail so that the reader is not left waiting in front of the last packets
				for idx := 0; idx < 20; idx++ {
					write(2, idx)
					time.Sleep(time.Millisecond)
				}
				return
			}
			barrier.Done()
			for idx := 0; idx < t.N; idx++ {
				write(1, idx)
				switch {
				case lossy:
					time.Sleep(2 * time.Millisecond) // several NACK intervals (100 ms) pass while the data flows
				case idx%8 == 7:
					time.Sleep(300 * time.Microsecond)
				}
			}
			if lossy {
				// keep the stream alive: the last NACKs have to be answered, and the reader only
				// looks at the repair stream on its next Read
				for idx := 0; idx < 100; idx++ {
					write(2, idx)
					time.Sleep(2 * time.Millisecond)
				}
			}
		}(i, t)
	}
	swg.Wait()
	// wait for the tail (bounded; loss is legal)
	vfFamDWaitFor(600*time.Millisecond, func() bool {
		rmu.Lock()
		defer rmu.Unlock()
		for i, t := range c.Tracks {
			if dataSeen[i] < t.N {
				return false
			}
		}
		return true
	})

	// ---- evaluate ---------------------------------------------------------------------------------
	rmu.Lock()
	got := append([]*vfC23Rx{}, rxs...)
	rmu.Unlock()
	if len(got) == 0 {
		v.Label("inconclusive:no-track-arrived")
		return
	}
	if malformedAccepted > 0 {
		// a buffer the harness believes is not RTP was accepted and sent: untagged packets may
		// legitimately be on the wire, the comparison below would not be sound
		v.Label("inconclusive:malformed-write-accepted")
		return
	}
	if writeErrs > 0 {
		v.Label("write-errors")
	}
	compared := 0
	for _, rx := range got {
		tr := rx.track
		ssrc := uint32(tr.SSRC())
		// which of the sender's m-sections announces this SSRC
		ti := -1
		for i := range c.Tracks {
			if sec := sections[trackMid[i]]; sec != nil {
				for _, s := range sec.primary {
					if s == ssrc {
						ti = i
					}
				}
			}
		}
		if ti < 0 {
			var ann []string
			for i := range c.Tracks {
				if sec := sections[trackMid[i]]; sec != nil {
					ann = append(ann, fmt.Sprintf("mid %s: %v", sec.mid, sec.primary))
				}
			}
			v.Violation("C23/ssrc-not-announced", "a TrackRemote with SSRC %d fired, the sender's description announces %v", ssrc, ann)
		}
		sec := sections[trackMid[ti]]
		cd := c.Codecs[c.Tracks[ti].Codec%len(c.Codecs)]
		cp, _, _ := vfC23Cap(cd.Name)
		wantPT := vfC23AnswerPT(&answer, sec.mid, cp.MimeType, cp.ClockRate, cp.SDPFmtpLine)
		rx.mu.Lock()
		pkts := append([]*rtp.Packet{}, rx.pkts...)
		rx.mu.Unlock()
		where := fmt.Sprintf("track %d (%s, mid %s, sender=%s, PTs offerer/answerer %d/%d)", ti, cd.Name, sec.mid,
			map[bool]string{false: "offerer", true: "answerer"}[c.SenderIsAnswerer], cd.PT[0], cd.PT[1])

		// remote track attributes
		if !strings.EqualFold(tr.Codec().MimeType, cp.MimeType) {
			v.Violation("C23/remote-codec", "%s: TrackRemote.Codec().MimeType=%q, the track was negotiated as %q", where, tr.Codec().MimeType, cp.MimeType)
		}
		if sec.hasMsid {
			if tr.StreamID() != sec.msidS {
				v.Violation("C23/remote-stream-id", "%s: TrackRemote.StreamID()=%q, sender's a=msid says stream %q track %q", where, tr.StreamID(), sec.msidS, sec.msidT)
			}
			if tr.ID() != sec.msidT {
				v.Violation("C23/remote-track-id", "%s: TrackRemote.ID()=%q, sender's a=msid says stream %q track %q", where, tr.ID(), sec.msidS, sec.msidT)
			}
			v.Label("msid-checked")
		} else {
			v.Label("sender-section-without-msid")
		}
		switch {
		case wantPT == -2:
			v.Label("answer-pt-ambiguous")
		case wantPT < 0:
			v.Label("answer-pt-missing")
		default:
			if int(tr.PayloadType()) != wantPT {
				v.Violation("C23/payload-type", "%s: TrackRemote.PayloadType()=%d, the answer lists payload type %d for %s", where, tr.PayloadType(), wantPT, cd.Name)
			}
		}
		lastIdx, lastPhase := -1, -1
		seenKey := map[[2]int]bool{}
		for k, p := range pkts {
			if p.SSRC != ssrc {
				v.Violation("C23/packet-ssrc", "%s: packet %d read from the TrackRemote with SSRC %d carries SSRC %d", where, k, ssrc, p.SSRC)
			}
			if wantPT >= 0 && int(p.PayloadType) != wantPT {
				v.Violation("C23/payload-type", "%s: packet %d carries payload type %d, the answer lists %d for %s", where, k, p.PayloadType, wantPT, cd.Name)
			}
			pl := p.Payload
			if len(pl) < 5 || pl[0] != 0xC2 {
				v.Violation("C23/payload-corrupted", "%s: packet %d: payload of %d bytes does not start with the tag written by the sender", where, k, len(pl))
			}
			if int(pl[1]) != ti {
				v.Violation("C23/payload-on-wrong-stream", "%s: packet %d was written to local track %d", where, k, pl[1])
			}
			key := [2]int{int(pl[2]), int(binary.BigEndian.Uint16(pl[3:5]))}
			smu.Lock()
			sp, ok := sent[ti][key]
			smu.Unlock()
			if !ok || !bytes.Equal(sp.payload, pl) {
				v.Violation("C23/payload-corrupted", "%s: packet %d (phase %d index %d): %d payload bytes received, %d written (known=%v)", where, k, key[0], key[1], len(pl), len(sp.payload), ok)
			}
			// not part of the statement: counted
			if p.SequenceNumber != sp.seq {
				v.Label("note:sequence-number-changed")
			}
			if p.Timestamp != sp.ts {
				v.Label("note:timestamp-changed")
			}
			if p.Marker != sp.marker {
				v.Label("note:marker-changed")
			}
			if seenKey[key] {
				v.Label("note:duplicate-delivery")
			}
			seenKey[key] = true
			if key[0] < lastPhase || (key[0] == lastPhase && key[1] < lastIdx) {
				v.Label("note:out-of-order")
			}
			lastPhase, lastIdx = key[0], key[1]
			if key[0] == 1 {
				compared++
			}
		}
		nData := 0
		for k := range seenKey {
			if k[0] == 1 {
				nData++
			}
		}
		rx.mu.Lock()
		nRTX := rx.nRTX
		rx.mu.Unlock()
		if nRTX > 0 {
			v.Label("retransmissions-read-from-track")
			if nRTX >= 2 {
				v.Label("retransmissions-read-from-track>=2")
			}
		}
		if nData < c.Tracks[ti].N {
			v.Label("note:some-data-packets-lost")
		} else {
			v.Label("all-data-packets-arrived")
		}
		v.Label("track-compared")
	}
	if len(got) < len(c.Tracks) {
		v.Label("inconclusive:some-tracks-never-arrived")
	}
	if lossy {
		lmu.Lock()
		if dropped > 0 {
			v.Label("lossy:packets-dropped")
		} else {
			v.Label("lossy:nothing-dropped")
		}
		lmu.Unlock()
	}
	if compared >= 10 {
		v.NonTrivial()
	}
}

var vfC23IDRe = `[A-Za-z0-9_-]{1,16}`

func TestVerif_C23_Media(t *testing.T) {
	vfProperty(t, "C23", vfOpts{
		Rule: "codec sets (Opus and/or 1..2 of VP8/VP9/H264/AV1, RTX on/off) registered under different payload types on the two sides (1 in 5: RegisterDefaultCodecs on both) x 1..3 tracks + optional data channel x sender = offerer|answerer x 20..50 generated payloads per track (1 in 3 of the RTX video cases: 100..140 payloads over a vnet that drops 3..5 runs of 1..3 adjacent first transmissions, so NACK/RTX retransmissions are read too) (sequence numbers starting at 0, mid-range or just below the 16-bit wrap); non-trivial = at least 10 data packets were read from TrackRemotes and compared",
		Assumptions: []string{
			"packets written before SRTP is up on both sides are lost legitimately: each track writes probe packets until its first packet is seen remotely, then the compared packets",
			"the default interceptors are active (NewAPI registers them when no registry is given): NACK generator/responder, RTCP reports, TWCC, stats; the sender's RTCP is read by the harness",
			"concurrent variant (1 in 4 cases, 2..4 tracks): every track is written from its own goroutine without pauses, WriteRTP and Write(raw) mixed, 300..500 packets each, after 0..2 (and optionally periodic) Write calls with buffers that are not RTP; the per-packet oracle is unchanged",
			"lossy variant: the vnet chunk filter drops only first transmissions on the media SSRC; what is retransmitted late, out of order, twice or never is only counted, but every packet that IS read must carry the payload written for its tag",
			"loss, duplication, order, sequence number, timestamp and marker are outside the statement and only counted",
			"track and stream ids are SDP tokens [A-Za-z0-9_-]{1,16}; within one case the (stream,id) pairs are distinct",
		},
	}, func(v *vfT) vfC23Case {
		var c vfC23Case
		// payload type pools, disjoint draws per side
		pool := []int{96, 97, 98, 99, 100, 101, 102, 103, 104, 105, 106, 107, 108, 109, 110, 111, 112, 113, 114, 115, 116, 117, 118, 119, 120, 121, 122, 123, 124, 125, 126, 127}
		perm := [2][]int{rapid.Permutation(pool).Draw(v.R, "pts_off"), rapid.Permutation(pool).Draw(v.R, "pts_ans")}
		take := func(side int) int { p := perm[side][0]; perm[side] = perm[side][1:]; return p }
		shape := rapid.IntRange(0, 5).Draw(v.R, "shape") // 0 audio, 1 video, 2.. both
		if shape != 1 {
			c.Codecs = append(c.Codecs, vfC23Codec{Name: "opus", PT: [2]int{take(0), take(1)}})
		}
		if shape != 0 {
			vids := rapid.Permutation([]string{"VP8", "VP9", "H264", "AV1"}).Draw(v.R, "video_codecs")
			nv := rapid.IntRange(1, 2).Draw(v.R, "nvideo")
			rtx := rapid.Bool().Draw(v.R, "rtx")
			for k := 0; k < nv; k++ {
				cd := vfC23Codec{Name: vids[k], PT: [2]int{take(0), take(1)}, RTX: rtx}
				if rtx {
					cd.RTXPT = [2]int{take(0), take(1)}
				}
				c.Codecs = append(c.Codecs, cd)
			}
		}
		if rapid.IntRange(0, 3).Draw(v.R, "same_pts") == 0 { // sometimes the numbering is identical
			for i := range c.Codecs {
				c.Codecs[i].PT[1], c.Codecs[i].RTXPT[1] = c.Codecs[i].PT[0], c.Codecs[i].RTXPT[0]
			}
		}
		concurrent := rapid.IntRange(0, 3).Draw(v.R, "concurrent") == 0
		nt := rapid.IntRange(1, 3).Draw(v.R, "ntracks")
		if concurrent {
			nt = rapid.IntRange(2, 4).Draw(v.R, "ntracks_concurrent")
		}
		usedIDs := map[string]bool{}
		for i := 0; i < nt; i++ {
			tr := vfC23Track{
				Codec:    rapid.IntRange(0, len(c.Codecs)-1).Draw(v.R, "track_codec"),
				N:        rapid.IntRange(20, 50).Draw(v.R, "n"),
				StartSeq: rapid.SampledFrom([]int{0, 1, 1000, 32760, 65500, 65530}).Draw(v.R, "start_seq"),
				Seed:     rapid.Uint32().Draw(v.R, "seed"),
			}
			for {
				tr.ID = rapid.StringMatching(vfC23IDRe).Draw(v.R, "track_id")
				tr.Stream = rapid.StringMatching(vfC23IDRe).Draw(v.R, "stream_id")
				if !usedIDs[tr.Stream+" "+tr.ID] {
					usedIDs[tr.Stream+" "+tr.ID] = true
					break
				}
			}
			c.Tracks = append(c.Tracks, tr)
		}
		c.DefaultCodecs = rapid.IntRange(0, 4).Draw(v.R, "default_codecs") == 0
		c.SenderIsAnswerer = rapid.Bool().Draw(v.R, "sender_is_answerer")
		c.DataChannel = rapid.Bool().Draw(v.R, "data_channel")
		// lossy variant: 1 in 3 of the cases that have a video track with RTX
		hasRTXVideo := false
		for _, tr := range c.Tracks {
			cd := c.Codecs[tr.Codec]
			hasRTXVideo = hasRTXVideo || (cd.Name != "opus" && (cd.RTX || c.DefaultCodecs))
		}
		if concurrent {
			c.Concurrent = true
			for i := range c.Tracks {
				c.Tracks[i].N = rapid.IntRange(300, 500).Draw(v.R, "n_concurrent")
			}
			for k, n := 0, rapid.IntRange(0, 2).Draw(v.R, "malformed_first"); k < n; k++ {
				c.Malformed = append(c.Malformed, rapid.IntRange(0, 4).Draw(v.R, "malformed_kind"))
			}
			c.MalformedEvery = rapid.SampledFrom([]int{0, 25, 40, 100}).Draw(v.R, "malformed_every")
		}
		if !concurrent && hasRTXVideo && rapid.IntRange(0, 2).Draw(v.R, "lossy") == 0 {
			c.VNetDelayMs = rapid.IntRange(0, 5).Draw(v.R, "vnet_delay")
			for i := range c.Tracks {
				c.Tracks[i].N = rapid.IntRange(100, 140).Draw(v.R, "n_lossy")
			}
			at := rapid.IntRange(5, 15).Draw(v.R, "loss_first")
			for k, n := 0, rapid.IntRange(3, 5).Draw(v.R, "loss_runs"); k < n && at < 95; k++ {
				l := rapid.SampledFrom([]int{1, 2, 2, 3, 3}).Draw(v.R, "loss_len")
				c.Loss = append(c.Loss, vfC23LossRun{At: at, Len: l})
				at += l + rapid.IntRange(12, 30).Draw(v.R, "loss_gap")
			}
		}
		return c
	}, vfC23Run)
}

// ---- both directions, different codecs of one kind ---------------------------------------------
//
// Both peers use the SAME multi-codec MediaEngine (RegisterDefaultCodecs, or a drawn permutation
// of a drawn subset with sequential payload types); each side adds one track of the same kind
// before the exchange, generally with different codecs, on one sendrecv m-section (or the offerer
// additionally offers a recvonly section).  Every direction that the two descriptions negotiate
// (sender's section announces an SSRC, the other side's section for that mid receives) is held
// to the statement: the written RTP arrives on a TrackRemote with that SSRC, the answer's payload
// type for the codec, the written payload, the sender's codec and msid.
//
// Non-arrival is inconclusive by itself.  It becomes a violation only with this positive
// evidence, taken from pion's own receive path: the receiving PeerConnection has a TrackRemote
// for the announced SSRC (RTPReceiver.Tracks()) that was never handed to OnTrack while the pair
// stayed connected and the writer kept writing, and TrackRemote.Read on it returns a packet
// (n > 0) carrying the announced SSRC and the payload type the answer lists for the codec,
// together with an error -- i.e. the media demonstrably reached the negotiated stream's reader
// and pion refused to deliver it.  (A Read that succeeds is "late", counted inconclusive.)

type vfC23BiCase struct {
	Kind      string    `json:"kind"`    // video | audio
	Default   bool      `json:"default"` // RegisterDefaultCodecs on both sides
	Table     []string  `json:"table"`   // otherwise: codec order of the shared table
	RTX       bool      `json:"rtx"`
	Send      [2]string `json:"send"`       // codec sent by the offerer / by the answerer
	ExtraRecv bool      `json:"extra_recv"` // the offerer also offers a recvonly section of that kind
	Seeds     [2]uint32 `json:"seeds"`
	StartSeq  [2]int    `json:"start_seq"`
}

func vfC23BiME(c vfC23BiCase) func() *MediaEngine {
	return func() *MediaEngine {
		me := &MediaEngine{}
		if c.Default {
			_ = me.RegisterDefaultCodecs()
			return me
		}
		pt := 96
		for _, name := range c.Table {
			cp, kind, ok := vfC23Cap(name)
			if !ok {
				continue
			}
			_ = me.RegisterCodec(RTPCodecParameters{RTPCodecCapability: cp, PayloadType: PayloadType(pt)}, kind)
			if c.RTX && kind == RTPCodecTypeVideo {
				_ = me.RegisterCodec(RTPCodecParameters{
					RTPCodecCapability: RTPCodecCapability{MimeType: MimeTypeRTX, ClockRate: 90000, SDPFmtpLine: fmt.Sprintf("apt=%d", pt)},
					PayloadType:        PayloadType(pt + 1),
				}, kind)
			}
			pt += 2
		}
		return me
	}
}

func vfC23Direction(sd *sdp.SessionDescription, mid string) string {
	for _, md := range sd.MediaDescriptions {
		if m, _ := md.Attribute("mid"); m != mid {
			continue
		}
		for _, a := range md.Attributes {
			switch a.Key {
			case "sendrecv", "sendonly", "recvonly", "inactive":
				return a.Key
			}
		}
		return "sendrecv"
	}
	return ""
}

const (
	vfC23BiArriveWindow = 3 * time.Second // the writer keeps writing this long before non-arrival is looked into
)

func vfC23BiRun(v *vfT, c vfC23BiCase) {
	pair, err := vfFamDNewPair(vfFamDPeer{ME: vfC23BiME(c)}, vfFamDPeer{ME: vfC23BiME(c)}, 0)
	if err != nil {
		v.Skip("pair construction failed: " + err.Error())
	}
	defer pair.Close()
	pcs := [2]*PeerConnection{pair.Off, pair.Ans}
	var caps [2]RTPCodecCapability
	var locals [2]*TrackLocalStaticRTP
	var senders [2]*RTPSender
	var kind RTPCodecType
	for s := 0; s < 2; s++ {
		cp, k, ok := vfC23Cap(c.Send[s])
		if !ok {
			v.Skip("unknown codec")
		}
		caps[s], kind = cp, k
		tr, terr := NewTrackLocalStaticRTP(cp, fmt.Sprintf("t%d", s), fmt.Sprintf("s%d", s))
		if terr != nil {
			v.Skip(terr.Error())
		}
		locals[s] = tr
		if senders[s], terr = pcs[s].AddTrack(tr); terr != nil {
			v.Skip("AddTrack: " + terr.Error())
		}
	}
	if c.ExtraRecv {
		if _, err = pair.Off.AddTransceiverFromKind(kind, RTPTransceiverInit{Direction: RTPTransceiverDirectionRecvonly}); err != nil {
			v.Skip(err.Error())
		}
		v.Label("bi:extra-recvonly-section")
	}
	v.Label("bi:kind=" + c.Kind)
	if c.Default {
		v.Label("bi:default-table")
	}
	if c.Send[0] != c.Send[1] {
		v.Label("bi:different-codecs")
	}

	// receivers on both sides
	var rmu sync.Mutex
	var rxs [2][]*vfC23Rx
	var firstSeen [2]bool // firstSeen[s]: a packet written by side s was read on the other side
	for r := 0; r < 2; r++ {
		r := r
		pcs[r].OnTrack(func(tr *TrackRemote, _ *RTPReceiver) {
			rx := &vfC23Rx{track: tr}
			rmu.Lock()
			rxs[r] = append(rxs[r], rx)
			rmu.Unlock()
			go func() {
				for {
					p, _, rerr := tr.ReadRTP()
					if rerr != nil {
						return
					}
					rx.mu.Lock()
					rx.pkts = append(rx.pkts, p)
					rx.mu.Unlock()
					if len(p.Payload) >= 5 && p.Payload[0] == 0xC2 && int(p.Payload[1]) == 1-r {
						rmu.Lock()
						firstSeen[1-r] = true
						rmu.Unlock()
					}
				}
			}()
		})
	}
	if err = pair.Signal(nil, nil); err != nil {
		v.Label("inconclusive:bi/signal-error")
		v.Logf("C23 bi %+v: %v", c, err)
		return
	}
	if !pair.WaitConnected(vfC23Watchdog) {
		v.Label("inconclusive:bi/not-connected")
		return
	}
	var descs [2]sdp.SessionDescription
	var sections [2]map[string]*vfC23Section
	for s := 0; s < 2; s++ {
		ld := pcs[s].LocalDescription()
		if ld == nil {
			v.Skip("no local description")
		}
		var perr error
		if sections[s], _, perr = vfC23Sections(ld.SDP); perr != nil {
			v.Skip(perr.Error())
		}
		if perr = descs[s].UnmarshalString(ld.SDP); perr != nil {
			v.Skip(perr.Error())
		}
	}
	answer := &descs[1]

	// which directions did the descriptions negotiate
	type direction struct {
		ok     bool
		mid    string
		ssrc   uint32
		sec    *vfC23Section
		wantPT int
	}
	var dirs [2]direction
	for s := 0; s < 2; s++ {
		mid := ""
		for _, tc := range pcs[s].GetTransceivers() {
			if tc.Sender() == senders[s] {
				mid = tc.Mid()
			}
		}
		sec := sections[s][mid]
		if mid == "" || sec == nil || len(sec.primary) != 1 {
			v.Label("bi:direction-not-negotiated")
			continue
		}
		own, far := vfC23Direction(&descs[s], mid), vfC23Direction(&descs[1-s], mid)
		if (own != "sendrecv" && own != "sendonly") || (far != "sendrecv" && far != "recvonly") {
			v.Label("bi:direction-not-negotiated")
			continue
		}
		dirs[s] = direction{true, mid, sec.primary[0], sec, vfC23AnswerPT(answer, mid, caps[s].MimeType, caps[s].ClockRate, caps[s].SDPFmtpLine)}
		if dirs[s].wantPT < 0 {
			// the answer does not list the codec in that section: nothing was negotiated for it
			dirs[s].ok = false
			v.Label("bi:codec-not-in-answer")
		}
	}
	if dirs[0].ok && dirs[1].ok {
		v.Label("bi:both-directions-negotiated")
		if dirs[0].mid == dirs[1].mid {
			v.Label("bi:one-sendrecv-section")
		}
	}

	// writers: probes until seen (or the window closes), then 20 compared packets; `keep` keeps a
	// direction alive while non-arrival is investigated
	type sentPkt struct{ payload []byte }
	var smu sync.Mutex
	sent := [2]map[[2]int][]byte{{}, {}}
	stop := make(chan struct{})
	var wwg sync.WaitGroup
	var arriveDone [2]chan struct{}
	for s := 0; s < 2; s++ {
		arriveDone[s] = make(chan struct{})
		if !dirs[s].ok {
			close(arriveDone[s])
			continue
		}
		wwg.Add(1)
		go func(s int) {
			defer wwg.Done()
			seq := uint16(c.StartSeq[s])
			ts := c.Seeds[s]
			write := func(phase, idx int) {
				pl := vfC23Payload(s, phase, idx, c.Seeds[s])
				smu.Lock()
				sent[s][[2]int{phase, idx}] = pl
				smu.Unlock()
				_ = locals[s].WriteRTP(&rtp.Packet{
					Header:  rtp.Header{Version: 2, SequenceNumber: seq, Timestamp: ts, SSRC: 0xdeadbeef},
					Payload: pl,
				})
				seq++
				ts += 960
			}
			deadline := time.Now().Add(vfC23BiArriveWindow)
			idx := 0
			for ; ; idx++ {
				rmu.Lock()
				seen := firstSeen[s]
				rmu.Unlock()
				if seen || time.Now().After(deadline) {
					break
				}
				write(0, idx)
				time.Sleep(3 * time.Millisecond)
			}
			for k := 0; k < 20; k++ {
				write(1, k)
				time.Sleep(500 * time.Microsecond)
			}
			close(arriveDone[s])
			// keep the stream alive until the case ends (evidence for a non-arrival needs traffic)
			for k := 0; ; k++ {
				select {
				case <-stop:
					return
				default:
				}
				write(2, k%60000)
				time.Sleep(3 * time.Millisecond)
			}
		}(s)
	}
	defer func() { close(stop); wwg.Wait() }()
	for s := 0; s < 2; s++ {
		<-arriveDone[s]
	}
	time.Sleep(30 * time.Millisecond)

	compared := 0
	for s := 0; s < 2; s++ {
		d := dirs[s]
		if !d.ok {
			continue
		}
		r := 1 - s
		where := fmt.Sprintf("%s->%s %s (mid %s, SSRC %d, table %v default=%v rtx=%v, other direction sends %s)",
			[]string{"offerer", "answerer"}[s], []string{"offerer", "answerer"}[r], c.Send[s], d.mid, d.ssrc, c.Table, c.Default, c.RTX, c.Send[r])
		rmu.Lock()
		var rx *vfC23Rx
		for _, x := range rxs[r] {
			if uint32(x.track.SSRC()) == d.ssrc {
				rx = x
			}
		}
		rmu.Unlock()
		if rx == nil {
			// non-arrival: look for positive evidence in the receiving PeerConnection
			healthy := pair.Off.ConnectionState() == PeerConnectionStateConnected && pair.Ans.ConnectionState() == PeerConnectionStateConnected
			var pending *TrackRemote
			for _, tc := range pcs[r].GetTransceivers() {
				if rcv := tc.Receiver(); rcv != nil {
					for _, tr := range rcv.Tracks() {
						if uint32(tr.SSRC()) == d.ssrc {
							pending = tr
						}
					}
				}
			}
			switch {
			case !healthy:
				v.Label("inconclusive:bi/not-arrived-and-pair-not-connected")
			case pending == nil:
				v.Label("inconclusive:bi/not-arrived-no-receiver-track")
			default:
				buf := make([]byte, 1600)
				verdict := "inconclusive:bi/not-arrived-no-packet-at-receiver"
				for try := 0; try < 4; try++ {
					_ = pending.SetReadDeadline(time.Now().Add(700 * time.Millisecond))
					n, _, rerr := pending.Read(buf)
					if n < 12 {
						continue
					}
					gotSSRC := binary.BigEndian.Uint32(buf[8:12])
					gotPT := int(buf[1] & 0x7f)
					if rerr == nil {
						verdict = "inconclusive:bi/late-arrival-read-by-harness"
						break
					}
					if gotSSRC == d.ssrc && gotPT == d.wantPT {
						rmu.Lock()
						fired := false
						for _, x := range rxs[r] {
							fired = fired || uint32(x.track.SSRC()) == d.ssrc
						}
						rmu.Unlock()
						if !fired {
							v.Violation("C23/arrived-at-receiver-but-never-delivered",
								"%s: written for %s and never handed to OnTrack, although the pair is connected and the receiving PeerConnection's own TrackRemote for the announced SSRC reads a packet of %d bytes with that SSRC and payload type %d (the one the answer lists for %s) and rejects it: %v",
								where, vfC23BiArriveWindow, n, gotPT, c.Send[s], rerr)
						}
					}
				}
				v.Label(verdict)
			}
			continue
		}
		tr := rx.track
		if !strings.EqualFold(tr.Codec().MimeType, caps[s].MimeType) {
			v.Violation("C23/remote-codec", "%s: TrackRemote.Codec().MimeType=%q", where, tr.Codec().MimeType)
		}
		if d.sec.hasMsid && (tr.StreamID() != d.sec.msidS || tr.ID() != d.sec.msidT) {
			v.Violation("C23/remote-stream-id", "%s: TrackRemote stream/track id %q/%q, a=msid says %q/%q", where, tr.StreamID(), tr.ID(), d.sec.msidS, d.sec.msidT)
		}
		if int(tr.PayloadType()) != d.wantPT {
			v.Violation("C23/payload-type", "%s: TrackRemote.PayloadType()=%d, the answer lists %d", where, tr.PayloadType(), d.wantPT)
		}
		rx.mu.Lock()
		pkts := append([]*rtp.Packet{}, rx.pkts...)
		rx.mu.Unlock()
		for k, p := range pkts {
			if p.SSRC != d.ssrc {
				v.Violation("C23/packet-ssrc", "%s: packet %d carries SSRC %d", where, k, p.SSRC)
			}
			if int(p.PayloadType) != d.wantPT {
				v.Violation("C23/payload-type", "%s: packet %d carries payload type %d, the answer lists %d", where, k, p.PayloadType, d.wantPT)
			}
			pl := p.Payload
			if len(pl) < 5 || pl[0] != 0xC2 {
				v.Violation("C23/payload-corrupted", "%s: packet %d: untagged payload of %d bytes", where, k, len(pl))
			}
			if int(pl[1]) != s {
				v.Violation("C23/payload-on-wrong-stream", "%s: packet %d was written by side %d", where, k, pl[1])
			}
			smu.Lock()
			want, ok := sent[s][[2]int{int(pl[2]), int(binary.BigEndian.Uint16(pl[3:5]))}]
			smu.Unlock()
			if !ok || !bytes.Equal(want, pl) {
				v.Violation("C23/payload-corrupted", "%s: packet %d: %d payload bytes received, %d written (known=%v)", where, k, len(pl), len(want), ok)
			}
			compared++
		}
		v.Label("bi:direction-compared")
	}
	if compared >= 10 && dirs[0].ok && dirs[1].ok {
		v.NonTrivial()
	}
}

func TestVerif_C23_Bidirectional(t *testing.T) {
	vfProperty(t, "C23", vfOpts{
		Rule: "both peers share one multi-codec MediaEngine (default table, or a drawn permutation of 2..4 of VP8/VP9/H264/AV1 resp. opus/PCMU/G722, RTX on/off); each side adds one track of the same kind before the exchange (codecs drawn independently, mostly different) on one sendrecv section (optionally plus a recvonly section); non-trivial = both directions negotiated and at least 10 packets compared",
		Assumptions: []string{
			"a direction counts as negotiated when the sender's section announces one primary SSRC, its direction sends, the other side's section for that mid receives and the answer lists the codec there",
			"non-arrival alone is inconclusive; it is reported only when the receiving PeerConnection's own TrackRemote for the announced SSRC returns, from Read, a packet with that SSRC and the answer's payload type together with an error, the pair being connected and the track never handed to OnTrack",
		},
	}, func(v *vfT) vfC23BiCase {
		c := vfC23BiCase{Kind: rapid.SampledFrom([]string{"video", "video", "video", "audio"}).Draw(v.R, "kind")}
		pool := []string{"VP8", "VP9", "H264", "AV1"}
		if c.Kind == "audio" {
			pool = []string{"opus", "PCMU", "G722"}
		}
		c.Default = rapid.IntRange(0, 2).Draw(v.R, "default") == 0
		avail := pool
		if !c.Default {
			perm := rapid.Permutation(pool).Draw(v.R, "table")
			c.Table = perm[:rapid.IntRange(2, len(perm)).Draw(v.R, "table_len")]
			c.RTX = c.Kind == "video" && rapid.Bool().Draw(v.R, "rtx")
			avail = c.Table
		}
		c.Send[0] = rapid.SampledFrom(avail).Draw(v.R, "send_off")
		c.Send[1] = rapid.SampledFrom(avail).Draw(v.R, "send_ans")
		if c.Send[0] == c.Send[1] && rapid.IntRange(0, 3).Draw(v.R, "force_diff") != 0 {
			for _, n := range avail {
				if n != c.Send[0] {
					c.Send[1] = n
					break
				}
			}
		}
		c.ExtraRecv = rapid.IntRange(0, 3).Draw(v.R, "extra_recv") == 0
		c.Seeds = [2]uint32{rapid.Uint32().Draw(v.R, "seed0"), rapid.Uint32().Draw(v.R, "seed1")}
		c.StartSeq = [2]int{rapid.SampledFrom([]int{0, 1000, 65530}).Draw(v.R, "seq0"), rapid.SampledFrom([]int{0, 1000, 65530}).Draw(v.R, "seq1")}
		return c
	}, vfC23BiRun)
}
