package webrtc

// C17 — Codec compatibility is symmetric and case-insensitive; every default-registered
// codec matches itself.
//
// The check lives in the root package (it needs the real default codec table and
// codecParametersFuzzySearch, both unexported) and reaches internal/fmtp through its
// exported entry points fmtp.Parse(...).Match(...), which is what every caller in pion uses.
//
// Oracles (metamorphic, no model of "what should match" is needed):
//   sym      Parse(a).Match(Parse(b)) == Parse(b).Match(Parse(a))
//   case     the result (both directions) is unchanged when the ASCII letters of either
//            mime type are re-cased
//   fuzzy    codecParametersFuzzySearch(a,[b]) and (b,[a]) report the same match type
//            (none / partial / exact) and that type is invariant under mime re-casing
//   default  each codec RegisterDefaultCodecs registers matches itself (Match true, fuzzy
//            search in [itself] and in the full table is exact), also with a re-cased mime
//
// Mime types containing non-ASCII characters that Unicode case folding maps onto ASCII
// letters (U+017F, U+212A) are generated rarely and only counted: RFC 6838 / RFC 8866
// names are ASCII, so they are outside the domain the statement quantifies over.

import (
	"fmt"
	"strings"
	"testing"

	"github.com/pion/webrtc/v4/internal/fmtp"
	"pgregory.net/rapid"
)

type vfC17Codec struct {
	Mime     string `json:"mime"`
	Clock    uint32 `json:"clock"`
	Channels uint16 `json:"channels"`
	Fmtp     string `json:"fmtp"`
}

type vfC17Case struct {
	A     vfC17Codec `json:"a"`
	B     vfC17Codec `json:"b"`
	MaskA uint64     `json:"mask_a"` // bit i set => i-th byte of the mime is upper-cased, else lower-cased (ASCII letters only)
	MaskB uint64     `json:"mask_b"`
}

func vfC17Recase(s string, mask uint64) string {
	b := []byte(s)
	for i, ch := range b {
		up := mask>>(uint(i)%64)&1 == 1
		switch {
		case ch >= 'a' && ch <= 'z' && up:
			b[i] = ch - 32
		case ch >= 'A' && ch <= 'Z' && !up:
			b[i] = ch + 32
		}
	}
	return string(b)
}

func vfC17ASCII(s string) bool {
	for i := 0; i < len(s); i++ {
		if s[i] >= 0x80 {
			return false
		}
	}
	return true
}

func vfC17Match(a, b vfC17Codec) bool {
	return fmtp.Parse(a.Mime, a.Clock, a.Channels, a.Fmtp).Match(fmtp.Parse(b.Mime, b.Clock, b.Channels, b.Fmtp))
}

func vfC17Params(c vfC17Codec, pt PayloadType) RTPCodecParameters {
	return RTPCodecParameters{
		RTPCodecCapability: RTPCodecCapability{MimeType: c.Mime, ClockRate: c.Clock, Channels: c.Channels, SDPFmtpLine: c.Fmtp},
		PayloadType:        pt,
	}
}

func vfC17Fuzzy(needle, hay vfC17Codec) codecMatchType {
	_, mt := codecParametersFuzzySearch(vfC17Params(needle, 96), []RTPCodecParameters{vfC17Params(hay, 97)})
	return mt
}

func vfC17Family(m string) string {
	switch strings.ToLower(m) {
	case "video/h264":
		return "h264"
	case "video/vp9":
		return "vp9"
	case "video/av1":
		return "av1"
	}
	return "generic"
}

func vfC17MatchName(t codecMatchType) string {
	switch t {
	case codecMatchExact:
		return "exact"
	case codecMatchPartial:
		return "partial"
	case codecMatchNone:
		return "none"
	}
	return fmt.Sprintf("type(%d)", int(t))
}

func vfC17Run(v *vfT, c vfC17Case) {
	a, b := c.A, c.B
	ascii := vfC17ASCII(a.Mime) && vfC17ASCII(b.Mime)
	fam := vfC17Family(a.Mime)
	if fb := vfC17Family(b.Mime); fb != fam {
		fam += "+" + fb
	}
	v.Label("family:" + fam)
	sameMime := strings.EqualFold(a.Mime, b.Mime) && ascii
	if sameMime {
		v.Label("same-mime")
		v.NonTrivial()
	}
	if !ascii {
		v.Label("nonascii-mime")
	}

	ab, ba := vfC17Match(a, b), vfC17Match(b, a)
	if ab != ba {
		if !ascii {
			v.Label("nonascii-mime:asymmetric(not asserted)")
			return
		}
		v.Violation("C17/asymmetric/"+fam, "Match(a,b)=%v but Match(b,a)=%v for a=%+v b=%+v", ab, ba, a, b)
	}
	v.Label(fmt.Sprintf("match:%v", ab))
	if sameMime {
		v.Label(fmt.Sprintf("same-mime:match:%v", ab))
		v.Label(fmt.Sprintf("same-mime:%s:match:%v", fam, ab))
	}

	fab, fba := vfC17Fuzzy(a, b), vfC17Fuzzy(b, a)
	if fab != fba {
		if !ascii {
			v.Label("nonascii-mime:fuzzy-asymmetric(not asserted)")
			return
		}
		v.Violation("C17/fuzzy-asymmetric/"+fam, "codecParametersFuzzySearch(a,[b])=%s but (b,[a])=%s for a=%+v b=%+v",
			vfC17MatchName(fab), vfC17MatchName(fba), a, b)
	}
	v.Label("fuzzy:" + vfC17MatchName(fab))
	if !ascii {
		return
	}

	// letter case of the mime type
	a2, b2 := a, b
	a2.Mime, b2.Mime = vfC17Recase(a.Mime, c.MaskA), vfC17Recase(b.Mime, c.MaskB)
	if a2.Mime != a.Mime || b2.Mime != b.Mime {
		v.Label("recased")
	}
	type variant struct {
		name string
		x, y vfC17Codec
	}
	for _, vr := range []variant{{"a", a2, b}, {"b", a, b2}, {"ab", a2, b2}} {
		if g := vfC17Match(vr.x, vr.y); g != ab {
			v.Violation("C17/case-sensitive/"+fam, "Match(a,b)=%v but %v after re-casing mime of %s: %q/%q -> %q/%q (a=%+v b=%+v)",
				ab, g, vr.name, a.Mime, b.Mime, vr.x.Mime, vr.y.Mime, a, b)
		}
		if g := vfC17Match(vr.y, vr.x); g != ba {
			v.Violation("C17/case-sensitive/"+fam, "Match(b,a)=%v but %v after re-casing mime of %s: %q/%q -> %q/%q (a=%+v b=%+v)",
				ba, g, vr.name, a.Mime, b.Mime, vr.x.Mime, vr.y.Mime, a, b)
		}
		if g := vfC17Fuzzy(vr.x, vr.y); g != fab {
			v.Violation("C17/fuzzy-case-sensitive/"+fam, "fuzzy(a,[b])=%s but %s after re-casing mime of %s: %q/%q -> %q/%q (a=%+v b=%+v)",
				vfC17MatchName(fab), vfC17MatchName(g), vr.name, a.Mime, b.Mime, vr.x.Mime, vr.y.Mime, a, b)
		}
		if g := vfC17Fuzzy(vr.y, vr.x); g != fba {
			v.Violation("C17/fuzzy-case-sensitive/"+fam, "fuzzy(b,[a])=%s but %s after re-casing mime of %s: %q/%q -> %q/%q (a=%+v b=%+v)",
				vfC17MatchName(fba), vfC17MatchName(g), vr.name, a.Mime, b.Mime, vr.x.Mime, vr.y.Mime, a, b)
		}
	}
}

// ---- generator ----

type vfC17Param struct {
	k, v  string
	hasEq bool
}

var vfC17Mimes = []string{
	"video/h264", "video/h264", "video/vp9", "video/av1", "video/vp8", "audio/opus", "audio/opus", "audio/pcmu", "audio/pcma",
	"audio/g722", "video/rtx", "video/x-foo", "video/flexfec-03", "video/h265", "audio/h264", "audio/vp9", "video/opus", "",
}

var vfC17Values = map[string][]string{
	"packetization-mode":      {"0", "1", "1", "2", "", " 1", "01"},
	"profile-level-id":        {"42e01f", "42e01f", "42001f", "42E01F", "42e034", "640032", "4d001f", "42e0", "42", "zz001f", "42e01", "", "42e01f00", "42E0"},
	"profile-id":              {"0", "0", "1", "2", "", "00"},
	"profile":                 {"0", "0", "1", "2", ""},
	"apt":                     {"96", "97", "102"},
	"level-asymmetry-allowed": {"0", "1"},
	"minptime":                {"10", "20"},
	"useinbandfec":            {"0", "1"},
	"x-foo":                   {"abc", "ABC", "aBc", "abd", "", "1"},
	"stereo":                  {"1", "0"},
}

var vfC17Keys = []string{
	"packetization-mode", "profile-level-id", "profile-id", "profile", "apt", "level-asymmetry-allowed",
	"minptime", "useinbandfec", "x-foo", "stereo",
}

// keys that decide Match for each family, so they are drawn more often for it
var vfC17FamilyKeys = map[string][]string{
	"h264":    {"packetization-mode", "profile-level-id", "packetization-mode", "profile-level-id", "level-asymmetry-allowed"},
	"vp9":     {"profile-id", "profile-id", "x-foo"},
	"av1":     {"profile", "profile", "x-foo"},
	"generic": {"apt", "minptime", "useinbandfec", "x-foo", "stereo", "profile-id", "packetization-mode"},
}

func vfC17DrawKey(v *vfT, fam string) string {
	if rapid.IntRange(0, 9).Draw(v.R, "famkey") < 7 {
		return rapid.SampledFrom(vfC17FamilyKeys[fam]).Draw(v.R, "key")
	}
	return rapid.SampledFrom(vfC17Keys).Draw(v.R, "key")
}

func vfC17DrawParam(v *vfT, fam string) vfC17Param {
	k := vfC17DrawKey(v, fam)
	p := vfC17Param{k: k, v: rapid.SampledFrom(vfC17Values[k]).Draw(v.R, "val"), hasEq: true}
	if rapid.IntRange(0, 19).Draw(v.R, "noeq") == 0 {
		p.hasEq, p.v = false, ""
	}
	return p
}

func vfC17Render(v *vfT, ps []vfC17Param) string {
	var sb strings.Builder
	for i, p := range ps {
		if i > 0 {
			sb.WriteString(rapid.SampledFrom([]string{";", ";", ";", "; ", " ;", ";;", " ; "}).Draw(v.R, "sep"))
		}
		k := p.k
		if rapid.IntRange(0, 4).Draw(v.R, "keycase") == 0 {
			k = vfC17Recase(k, rapid.Uint64().Draw(v.R, "keymask"))
		}
		sb.WriteString(k)
		if p.hasEq {
			sb.WriteString("=")
			sb.WriteString(p.v)
		}
	}
	if len(ps) > 0 && rapid.IntRange(0, 9).Draw(v.R, "trail") == 0 {
		sb.WriteString(";")
	}
	return sb.String()
}

func vfC17Gen(v *vfT) vfC17Case {
	var c vfC17Case
	c.MaskA = rapid.Uint64().Draw(v.R, "maskA")
	c.MaskB = rapid.Uint64().Draw(v.R, "maskB")
	mime := rapid.SampledFrom(vfC17Mimes).Draw(v.R, "mime")
	fam := vfC17Family(mime)
	c.A.Mime = vfC17Recase(mime, rapid.Uint64().Draw(v.R, "caseA"))
	c.A.Clock = rapid.SampledFrom([]uint32{0, 0, 8000, 48000, 90000, 90000, 44100}).Draw(v.R, "clockA")
	c.A.Channels = rapid.SampledFrom([]uint16{0, 0, 1, 2}).Draw(v.R, "chA")
	n := rapid.IntRange(0, 4).Draw(v.R, "nparams")
	var pa []vfC17Param
	for i := 0; i < n; i++ {
		pa = append(pa, vfC17DrawParam(v, fam))
	}
	c.A.Fmtp = vfC17Render(v, pa)

	// B: a mutation of A (so matches and near-matches are common), or an independent draw
	mode := rapid.IntRange(0, 9).Draw(v.R, "modeB")
	if mode == 0 {
		v.Label("gen:independent")
		mimeB := rapid.SampledFrom(vfC17Mimes).Draw(v.R, "mimeB")
		famB := vfC17Family(mimeB)
		c.B.Mime = vfC17Recase(mimeB, rapid.Uint64().Draw(v.R, "caseB"))
		c.B.Clock = rapid.SampledFrom([]uint32{0, 8000, 48000, 90000, 44100}).Draw(v.R, "clockB")
		c.B.Channels = rapid.SampledFrom([]uint16{0, 1, 2}).Draw(v.R, "chB")
		nb := rapid.IntRange(0, 4).Draw(v.R, "nparamsB")
		var pb []vfC17Param
		for i := 0; i < nb; i++ {
			pb = append(pb, vfC17DrawParam(v, famB))
		}
		c.B.Fmtp = vfC17Render(v, pb)
		return c
	}
	v.Label("gen:mutation")
	c.B = c.A
	c.B.Mime = vfC17Recase(mime, rapid.Uint64().Draw(v.R, "caseB"))
	switch rapid.IntRange(0, 11).Draw(v.R, "mimeMut") {
	case 0:
		c.B.Mime = vfC17Recase(rapid.SampledFrom(vfC17Mimes).Draw(v.R, "mimeB"), rapid.Uint64().Draw(v.R, "caseB2"))
	case 1:
		// non-ASCII characters that fold onto ASCII letters (counted, not asserted)
		r := strings.NewReplacer("s", "\u017f", "k", "\u212a", "S", "\u017f", "K", "\u212a")
		c.B.Mime = r.Replace(c.B.Mime)
	}
	if rapid.IntRange(0, 2).Draw(v.R, "clockMut") == 0 {
		c.B.Clock = rapid.SampledFrom([]uint32{0, 0, 8000, 48000, 90000, 44100}).Draw(v.R, "clockB")
	}
	if rapid.IntRange(0, 2).Draw(v.R, "chMut") == 0 {
		c.B.Channels = rapid.SampledFrom([]uint16{0, 1, 2}).Draw(v.R, "chB")
	}
	var pb []vfC17Param
	for _, p := range pa {
		switch rapid.IntRange(0, 9).Draw(v.R, "pmut") {
		case 0: // drop
			continue
		case 1: // other value
			p.v, p.hasEq = rapid.SampledFrom(vfC17Values[p.k]).Draw(v.R, "valB"), true
		case 2: // value letter case
			p.v = vfC17Recase(p.v, rapid.Uint64().Draw(v.R, "valmask"))
		case 3: // duplicate key with another value
			pb = append(pb, vfC17Param{k: p.k, v: rapid.SampledFrom(vfC17Values[p.k]).Draw(v.R, "valDup"), hasEq: true})
		}
		pb = append(pb, p)
	}
	if rapid.IntRange(0, 3).Draw(v.R, "addB") == 0 {
		pb = append(pb, vfC17DrawParam(v, fam))
	}
	if len(pb) > 1 && rapid.IntRange(0, 3).Draw(v.R, "rot") == 0 {
		k := rapid.IntRange(1, len(pb)-1).Draw(v.R, "rotk")
		pb = append(append([]vfC17Param{}, pb[k:]...), pb[:k]...)
	}
	c.B.Fmtp = vfC17Render(v, pb)
	if rapid.Bool().Draw(v.R, "swap") {
		c.A, c.B = c.B, c.A
	}
	return c
}

func TestVerif_C17_Pairs(t *testing.T) {
	vfProperty(t, "C17", vfOpts{
		Rule: "non-trivial = the two descriptions share a mime type up to ASCII letter case (so the clock/channel/fmtp comparison decides); labels same-mime:match:true/false give the split",
		Assumptions: []string{
			"mime types are ASCII (RFC 6838 / RFC 8866 tokens); mime types with U+017F / U+212A are generated rarely and only counted",
			"codecParametersFuzzySearch is compared on its match type with a one-element haystack",
		},
	}, vfC17Gen, vfC17Run)
}

// ---- default table ----

type vfC17DefCase struct {
	Kind  string     `json:"kind"`  // audio | video
	Index int        `json:"index"` // position in the default table of that kind
	Mask  uint64     `json:"mask"`  // re-casing of the mime for the second operand
	Codec vfC17Codec `json:"codec"` // informational copy (filled by the enumerator from the real table)
}

func vfC17DefaultTable(kind string) []RTPCodecParameters {
	m := &MediaEngine{}
	if err := m.RegisterDefaultCodecs(); err != nil {
		return nil
	}
	if kind == "audio" {
		return m.audioCodecs
	}
	return m.videoCodecs
}

func TestVerif_C17_Defaults(t *testing.T) {
	var cases []vfC17DefCase
	for _, kind := range []string{"audio", "video"} {
		for i, cp := range vfC17DefaultTable(kind) {
			for _, mask := range []uint64{0, ^uint64(0), 0xAAAAAAAAAAAAAAAA, 0x5555555555555555, 0x00000000FFFF0000} {
				cases = append(cases, vfC17DefCase{Kind: kind, Index: i, Mask: mask, Codec: vfC17Codec{
					cp.MimeType, cp.ClockRate, cp.Channels, cp.SDPFmtpLine,
				}})
			}
		}
	}
	if len(cases) < 5*10 {
		t.Fatalf("default codec table unexpectedly small: %d cases", len(cases))
	}
	vfEnumerate(t, "C17", vfOpts{
		Rule: "exhaustive over the table RegisterDefaultCodecs builds (read from the MediaEngine, not copied) x 5 mime re-casings; every case is non-trivial (a self-match must hold)",
	}, cases, true, func(v *vfT, c vfC17DefCase) {
		tab := vfC17DefaultTable(c.Kind)
		if c.Index < 0 || c.Index >= len(tab) {
			v.Skip("index outside the default table")
		}
		cp := tab[c.Index]
		self := vfC17Codec{cp.MimeType, cp.ClockRate, cp.Channels, cp.SDPFmtpLine}
		re := self
		re.Mime = vfC17Recase(self.Mime, c.Mask)
		v.NonTrivial()
		v.Label("default:" + vfC17Family(self.Mime))
		if !vfC17Match(self, self) {
			v.Violation("C17/default-self-mismatch/"+strings.ToLower(self.Mime), "default codec %+v does not Match itself", self)
		}
		if !vfC17Match(self, re) || !vfC17Match(re, self) {
			v.Violation("C17/default-self-mismatch-recased/"+strings.ToLower(self.Mime), "default codec %+v does not Match itself with mime re-cased to %q", self, re.Mime)
		}
		if _, mt := codecParametersFuzzySearch(cp, []RTPCodecParameters{cp}); mt != codecMatchExact {
			v.Violation("C17/default-self-fuzzy/"+strings.ToLower(self.Mime), "codecParametersFuzzySearch(default %+v, [itself]) = %s, want exact", self, vfC17MatchName(mt))
		}
		if _, mt := codecParametersFuzzySearch(cp, tab); mt != codecMatchExact {
			v.Violation("C17/default-table-fuzzy/"+strings.ToLower(self.Mime), "codecParametersFuzzySearch(default %+v, default table) = %s, want exact", self, vfC17MatchName(mt))
		}
		recp := cp
		recp.MimeType = re.Mime
		if _, mt := codecParametersFuzzySearch(recp, tab); mt != codecMatchExact {
			v.Violation("C17/default-table-fuzzy-recased/"+strings.ToLower(self.Mime), "codecParametersFuzzySearch(default %+v with mime %q, default table) = %s, want exact", self, re.Mime, vfC17MatchName(mt))
		}
	})
}
