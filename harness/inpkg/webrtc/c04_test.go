package webrtc

// C04 — negotiationneeded fires only in stable state, once per needed negotiation.
//
// Domain: sequential histories on a real loopback pair A, B: AddTrack, RemoveTrack,
// AddTransceiverFromKind, CreateDataChannel, single steps of an offer/answer exchange
// (CreateOffer, SetLocal(offer), SetRemote(offer), CreateAnswer, SetLocal(answer),
// SetRemote(answer)) initiated by either side, provisional-answer steps on renegotiations (the
// answerer applies its created answer as pranswer, the offerer applies it as pranswer, the final
// answer follows), whole exchanges, Close.  After every op the
// harness drains the operations queue of both peers (pc.ops.Done() repeated until the queue,
// its worker and the "update on empty chain" flag are all quiet) — that is the property's
// precondition "each call's queued work finishes before the next call".  The only window in
// which a peer cannot be drained is the answerer of the very first exchange between applying
// the offer and the offerer applying the answer (its queue is parked in startTransports until
// ICE can connect); nothing can fire on that peer in that window either.
//
// Oracle.  The handler records (logical clock, SignalingState(), Close already called).
//   (A) every invocation saw stable and not closed;
//   (B) between two exchange completions of a peer (and before the first) at most one invocation;
//       a successful RemoveTrack also bounds the interval, because it can withdraw the need (the
//       W3C algorithm then clears the flag and a later change fires again);
//   (C) at every quiet point where a peer is stable and not closed: if a change that clearly
//       requires renegotiation is unresolved and nothing fired since the peer's last completion,
//       that is a violation ("fires once the connection is stable").  "Clearly requires": the
//       peer called AddTrack / AddTransceiverFromKind / the first CreateDataChannel after the
//       last offer it created and completed as the OFFERER (an offer describes everything the
//       peer has).  RemoveTrack, and changes that were pending while the peer completed an
//       exchange as the answerer, make the peer `unclassified` until its next completion as
//       offerer; only (A) and (B) apply meanwhile.  A fire the harness cannot explain is only
//       counted.
//   (C') independent of that bookkeeping, at the same quiet points: if a live transceiver of the
//       peer is not associated with an m= section of its current local description, or it has a
//       data channel but no application section (W3C "check if negotiation is needed" steps 3 and
//       5.2, read from public state), and nothing fired since the peer's last completion, that is
//       a violation.  This covers a need that survives an exchange the peer completed as ANSWERER
//       (the offer had no section for it); a quarter of the cases start with that scenario.
// Fires on a peer that received a call while its queue was still busy (possible only for the
// parked answerer, or inside a whole-exchange op) are exempt from (A) and (B) until that peer's
// queue is next seen quiet: the statement promises nothing when its precondition does not hold.

import (
	"fmt"
	"runtime"
	"sort"
	"strings"
	"sync"
	"sync/atomic"
	"testing"
	"time"

	"github.com/pion/ice/v4"
	"github.com/pion/interceptor"
	"github.com/pion/logging"
	"pgregory.net/rapid"
)

type vfC04Op struct {
	K string `json:"k"` // addTrack | removeTrack | addTr | addDC | step | stepPr | exchange | close
	X int    `json:"x"` // peer (initiator for step/exchange when none is in progress)
	A int    `json:"a,omitempty"`
}

type vfC04Case struct {
	Ops []vfC04Op `json:"ops"`
}

type vfC04Fire struct {
	at      int64
	state   SignalingState
	closed  bool
	tainted bool // a call was issued on this peer while its queue was busy: the statement's precondition does not hold
}

type vfC04Peer struct {
	pc          *PeerConnection
	name        string
	senders     []*RTPSender
	closeCalled atomic.Bool
	tainted     atomic.Bool
	mu          sync.Mutex
	fires       []vfC04Fire

	changeSeq       int // clear-cut changes so far
	resolvedSeq     int // changes <= resolvedSeq are negotiated
	createdSeq      int // changeSeq when the last offer/answer was created
	appliedSeq      int // createdSeq of the local description last applied
	unclassified    bool
	unclSeq         int
	dcPending       bool
	lastChange      string
	completions     []int64 // clock values just before each completing call
	withdrawals     []int64 // clock values just before each successful RemoveTrack
	lastAsAnswerer  bool    // the most recent completion was as the answerer
	lastViaRemotePr bool    // ... as the offerer, having applied a remote provisional answer on the way
	remoteApplied   bool
	parked          bool // queued work waits for a transport that needs the peer's next signalling step
	nTracks, nAdds  int
	nDC             int
}

func (p *vfC04Peer) firesSince(at int64) int {
	p.mu.Lock()
	defer p.mu.Unlock()
	n := 0
	for _, f := range p.fires {
		if f.at > at {
			n++
		}
	}
	return n
}

func (p *vfC04Peer) lastCompletion() int64 {
	if len(p.completions) == 0 {
		return 0
	}
	return p.completions[len(p.completions)-1]
}

func vfC04NewPC() (*PeerConnection, error) {
	se := SettingEngine{}
	se.SetIncludeLoopbackCandidate(true)
	se.SetInterfaceFilter(func(name string) bool { return name == "lo" })
	se.SetNetworkTypes([]NetworkType{NetworkTypeUDP4})
	se.SetICEMulticastDNSMode(ice.MulticastDNSModeDisabled)
	lf := logging.NewDefaultLoggerFactory()
	lf.DefaultLogLevel = logging.LogLevelDisabled
	se.LoggerFactory = lf
	api := NewAPI(WithSettingEngine(se), WithInterceptorRegistry(&interceptor.Registry{}))
	return api.NewPeerConnection(Configuration{})
}

func vfC04Stacks() string {
	buf := make([]byte, 1<<20)
	return string(buf[:runtime.Stack(buf, true)])
}

// vfC04Quiet: queue empty, worker gone, no deferred negotiation-needed update pending.
func vfC04Quiet(pc *PeerConnection) bool {
	pc.ops.mu.Lock()
	idle := pc.ops.ops.Len() == 0 && pc.ops.busyCh == nil
	pc.ops.mu.Unlock()
	return idle && !pc.updateNegotiationNeededFlagOnEmptyChain.Load()
}

// vfC04Drain waits until the peer's queued work (including what that work queues) is finished.
func vfC04Drain(p *vfC04Peer, maxWait time.Duration) (quiet bool, timedOut bool) {
	if vfC04Quiet(p.pc) {
		return true, false
	}
	done := make(chan bool, 1)
	go func() {
		for i := 0; i < 400; i++ {
			p.pc.ops.Done()
			if vfC04Quiet(p.pc) {
				done <- true
				return
			}
			time.Sleep(20 * time.Microsecond)
		}
		done <- false
	}()
	select {
	case q := <-done:
		return q, false
	case <-time.After(maxWait):
		return false, true
	}
}

func vfC04Run(v *vfT, c vfC04Case) {
	var clock atomic.Int64
	var ps [2]*vfC04Peer
	defer func() {
		for _, p := range ps {
			if p != nil && p.pc != nil {
				p.closeCalled.Store(true)
				_ = p.pc.Close()
			}
		}
	}()
	for i := range ps {
		pc, err := vfC04NewPC()
		if err != nil {
			v.Skip("NewPeerConnection failed")
		}
		p := &vfC04Peer{pc: pc, name: string(rune('A' + i))}
		ps[i] = p
		pc.OnNegotiationNeeded(func() {
			f := vfC04Fire{at: clock.Add(1), state: pc.SignalingState(), closed: p.closeCalled.Load(), tainted: p.tainted.Load()}
			p.mu.Lock()
			p.fires = append(p.fires, f)
			p.mu.Unlock()
		})
	}

	// exchange in progress: initiator, next phase (0..5)
	exI, exPhase := -1, 0
	var exOffer, exAnswer SessionDescription
	nNegotiated := 0
	prLocal, prRemote := false, false // this exchange: provisional answer applied by the answerer / by the offerer
	connected := false
	opsWhileUnstable := 0
	completedExchanges := 0

	hasApp := func(p *vfC04Peer) bool {
		d := p.pc.CurrentLocalDescription()
		return d != nil && strings.Contains(d.SDP, "m=application")
	}
	// unassociated re-implements steps 3 and 5.2 of W3C "check if negotiation is needed" over public
	// state: a data channel exists but the current local description has no application section, or
	// a live transceiver is not associated with an m= section of the current local description.
	unassociated := func(p *vfC04Peer) string {
		mids := map[string]bool{}
		if d := p.pc.CurrentLocalDescription(); d != nil {
			for _, l := range strings.Split(d.SDP, "\n") {
				if strings.HasPrefix(l, "a=mid:") {
					mids[strings.TrimSpace(strings.TrimPrefix(l, "a=mid:"))] = true
				}
			}
		}
		for _, t := range p.pc.GetTransceivers() {
			if t.Direction() == RTPTransceiverDirectionInactive {
				continue // possibly stopped
			}
			if m := t.Mid(); m == "" || !mids[m] {
				return "transceiver"
			}
		}
		if p.nDC > 0 && !hasApp(p) {
			return "data-channel"
		}
		return ""
	}
	change := func(p *vfC04Peer, what string) {
		p.changeSeq++
		p.lastChange = what
	}
	// touch is called just before an API call on p: if p's queue is still busy the statement's
	// precondition ("queued work finishes before the next call") does not hold for that call, and
	// whatever fires on p until its queue is next seen quiet is exempt from (A) and (B).
	touch := func(p *vfC04Peer) {
		if !vfC04Quiet(p.pc) {
			p.tainted.Store(true)
			v.Label("call-while-queue-busy(fires-exempt-until-next-quiet)")
		}
	}
	// one step of the exchange; returns false if the step failed (exchange abandoned)
	step := func(initiator int) bool {
		if exI < 0 {
			exI, exPhase = initiator, 0
			prLocal, prRemote = false, false
		}
		I, R := ps[exI], ps[1-exI]
		if I.closeCalled.Load() || R.closeCalled.Load() {
			exI = -1
			return false
		}
		if exPhase >= 2 && exPhase <= 4 {
			touch(R)
		} else {
			touch(I)
		}
		var err error
		switch exPhase {
		case 0:
			if len(I.pc.GetTransceivers()) == 0 && I.nDC == 0 {
				// an offer without any media section carries no ICE credentials; the peer refuses it
				// (and C03's defect would wedge the answerer): not a sound input, do not start
				v.Label("exchange-not-started:nothing-to-offer")
				exI = -1
				return false
			}
			exOffer, err = I.pc.CreateOffer(nil)
			if err == nil {
				I.createdSeq = I.changeSeq
			}
		case 1:
			gathered := GatheringCompletePromise(I.pc)
			if err = I.pc.SetLocalDescription(exOffer); err == nil {
				I.appliedSeq = I.createdSeq
				// non-trickle signalling: the peer gets the description with all candidates
				select {
				case <-gathered:
				case <-time.After(10 * time.Second):
					v.Skip("ICE gathering did not complete within 10s")
				}
				if d := I.pc.LocalDescription(); d != nil {
					exOffer = *d
				}
			}
		case 2:
			if err = R.pc.SetRemoteDescription(exOffer); err == nil {
				R.remoteApplied = true
				if !connected {
					R.parked = true // startTransports waits for ICE, which needs the offerer to get the answer
				}
			}
		case 3:
			exAnswer, err = R.pc.CreateAnswer(nil)
			if err == nil {
				R.createdSeq = R.changeSeq
			}
		case 4:
			at := clock.Add(1)
			gathered := GatheringCompletePromise(R.pc)
			if err = R.pc.SetLocalDescription(SessionDescription{Type: SDPTypeAnswer, SDP: exAnswer.SDP}); err == nil {
				select {
				case <-gathered:
				case <-time.After(10 * time.Second):
					v.Skip("ICE gathering did not complete within 10s")
				}
				if d := R.pc.LocalDescription(); d != nil {
					exAnswer = *d
				}
				R.appliedSeq = R.createdSeq
				R.parked = true // startRTP may wait in startSCTP until the offerer starts its side
				R.completions = append(R.completions, at)
				R.lastAsAnswerer = true
				R.lastViaRemotePr = false
				if R.changeSeq > R.resolvedSeq {
					// the answer may or may not have absorbed R's pending changes
					R.unclassified, R.unclSeq = true, R.changeSeq
				}
			}
		case 5:
			at := clock.Add(1)
			if err = I.pc.SetRemoteDescription(exAnswer); err == nil {
				I.remoteApplied = true
				I.parked, R.parked = false, false
				I.completions = append(I.completions, at)
				I.lastAsAnswerer = false
				I.lastViaRemotePr = prRemote
				if I.appliedSeq > I.resolvedSeq {
					I.resolvedSeq = I.appliedSeq
				}
				if I.unclassified && I.unclSeq <= I.appliedSeq {
					I.unclassified = false
				}
				if I.dcPending && hasApp(I) {
					I.dcPending = false
				}
				completedExchanges++
			}
		}
		if err != nil {
			v.Label(fmt.Sprintf("exchange-step-%d-failed", exPhase))
			exI = -1
			return false
		}
		exPhase++
		if exPhase == 6 {
			exI = -1
		}
		return true
	}

	// The answerer's queue is parked in a transport start (ICE/DTLS of the first exchange, SCTP of
	// the first exchange that negotiates data channels) until the offerer has applied the answer.
	// prStep: one provisional-answer step of a RENEGOTIATION whose answer has been created: first the
	// answerer applies the created answer as pranswer (-> have-local-pranswer), then the offerer
	// applies that text as pranswer (-> have-remote-pranswer).  The final answer follows through the
	// ordinary steps 4 and 5.  Anything else falls back to an ordinary step.  (On a first
	// negotiation pranswer is not used: the transports would be started from a provisional answer.)
	prStep := func(initiator int) bool {
		if exI < 0 || exPhase != 4 || !connected || (prLocal && prRemote) {
			return step(initiator)
		}
		I, R := ps[exI], ps[1-exI]
		if I.closeCalled.Load() || R.closeCalled.Load() {
			exI = -1
			return false
		}
		var err error
		if !prLocal {
			touch(R)
			err = R.pc.SetLocalDescription(SessionDescription{Type: SDPTypePranswer, SDP: exAnswer.SDP})
			prLocal = err == nil
			if err == nil {
				v.Label("pranswer:local-applied")
			}
		} else {
			touch(I)
			d := R.pc.PendingLocalDescription()
			if d == nil {
				return step(initiator)
			}
			err = I.pc.SetRemoteDescription(SessionDescription{Type: SDPTypePranswer, SDP: d.SDP})
			prRemote = err == nil
			if err == nil {
				v.Label("pranswer:remote-applied")
			}
		}
		if err != nil {
			v.Label("pranswer-step-failed")
			v.Logf("C04 pranswer step failed: %v", err)
			exI = -1
			return false
		}
		return true
	}

	drainable := func(p *vfC04Peer) bool { return !p.parked }

	for i, op := range c.Ops {
		x := op.X & 1
		p := ps[x]
		unstable := ps[0].pc.SignalingState() != SignalingStateStable || ps[1].pc.SignalingState() != SignalingStateStable
		skipped := false
		if op.K != "step" && op.K != "stepPr" && op.K != "exchange" && !p.closeCalled.Load() {
			touch(p)
		}
		switch op.K {
		case "addTrack":
			if p.closeCalled.Load() || p.nTracks >= 4 {
				skipped = true
				break
			}
			mime, kind := MimeTypeOpus, "audio"
			if op.A%2 == 1 {
				mime, kind = MimeTypeVP8, "video"
			}
			tr, err := NewTrackLocalStaticSample(RTPCodecCapability{MimeType: mime}, fmt.Sprintf("%s-%s-%d", kind, p.name, p.nTracks), "stream-"+p.name)
			if err != nil {
				skipped = true
				break
			}
			s, err := p.pc.AddTrack(tr)
			if err != nil {
				skipped = true
				break
			}
			p.nTracks++
			p.senders = append(p.senders, s)
			change(p, "AddTrack")
		case "removeTrack":
			if p.closeCalled.Load() || len(p.senders) == 0 {
				skipped = true
				break
			}
			k := ((op.A % len(p.senders)) + len(p.senders)) % len(p.senders)
			s := p.senders[k]
			p.senders = append(p.senders[:k:k], p.senders[k+1:]...)
			at := clock.Add(1)
			if err := p.pc.RemoveTrack(s); err == nil {
				// RemoveTrack can WITHDRAW a need (AddTrack onto an already negotiated transceiver, then
				// RemoveTrack, restores the negotiated state; the flag is cleared as W3C 4.7.3 step 4
				// says and a later change legitimately fires again): it bounds clause (B) like a completion
				p.withdrawals = append(p.withdrawals, at)
				// whether this needs negotiation depends on what was negotiated: not clear-cut
				p.changeSeq++ // so that an offer created earlier does not count as covering it
				p.unclassified, p.unclSeq = true, p.changeSeq
			}
		case "addTr":
			if p.closeCalled.Load() || p.nAdds >= 3 {
				skipped = true
				break
			}
			kind := RTPCodecTypeAudio
			if op.A%2 == 1 {
				kind = RTPCodecTypeVideo
			}
			dir := RTPTransceiverDirectionRecvonly
			if (op.A/2)%2 == 1 {
				dir = RTPTransceiverDirectionSendrecv
			}
			if _, err := p.pc.AddTransceiverFromKind(kind, RTPTransceiverInit{Direction: dir}); err != nil {
				skipped = true
				break
			}
			p.nAdds++
			change(p, "AddTransceiverFromKind")
		case "addDC":
			if p.closeCalled.Load() || p.nAdds >= 3 {
				skipped = true
				break
			}
			first := !hasApp(p) && !p.dcPending
			var init *DataChannelInit
			yes, no := true, false
			switch ((op.A % 6) + 6) % 6 {
			case 1:
				init = &DataChannelInit{Ordered: &no}
			case 2:
				n := uint16(3)
				init = &DataChannelInit{Ordered: &yes, MaxRetransmits: &n}
			case 3:
				n := uint16(500)
				init = &DataChannelInit{MaxPacketLifeTime: &n}
			case 4:
				proto := "vf-proto"
				init = &DataChannelInit{Protocol: &proto}
			case 5:
				// negotiated out of band: both sides would create it with the same id; ids are unique per history
				id := uint16(100 + nNegotiated)
				nNegotiated++
				init = &DataChannelInit{Negotiated: &yes, ID: &id}
			}
			if _, err := p.pc.CreateDataChannel(fmt.Sprintf("dc-%s-%d", p.name, p.nAdds), init); err != nil {
				skipped = true
				break
			}
			if p.nDC == 0 && init != nil && init.Negotiated != nil {
				v.Label("first-data-channel-negotiated")
				if p.pc.CurrentLocalDescription() != nil {
					v.Label("first-data-channel-negotiated:after-media-only-exchange")
				}
			}
			p.nAdds++
			p.nDC++
			if first {
				p.dcPending = true
				change(p, "CreateDataChannel(first)")
			}
		case "step":
			step(x)
		case "stepPr":
			prStep(x)
		case "exchange":
			for k := 0; k < 6; k++ {
				if !step(x) || exI < 0 {
					break
				}
			}
		case "close":
			if p.closeCalled.Load() {
				skipped = true
				break
			}
			v.Logf("C04 close %s: exI=%d exPhase=%d parked=%v/%v quiet=%v state=%s", p.name, exI, exPhase, ps[0].parked, ps[1].parked, vfC04Quiet(p.pc), p.pc.SignalingState())
			p.closeCalled.Store(true)
			_ = p.pc.Close()
		default:
			skipped = true
		}
		if skipped {
			continue
		}
		if unstable && op.K != "step" && op.K != "stepPr" && op.K != "exchange" {
			if st := p.pc.SignalingState(); st == SignalingStateHaveLocalPranswer || st == SignalingStateHaveRemotePranswer {
				v.Label("change-while-in:" + st.String())
			}
			opsWhileUnstable++
		}

		// precondition of the property: queued work finishes before the next call
		allQuiet := true
		for _, q := range ps {
			if !drainable(q) {
				// usually parked in a transport start; give ordinary work a moment, conclude nothing otherwise
				if quiet, _ := vfC04Drain(q, 30*time.Millisecond); quiet {
					q.tainted.Store(false)
				} else {
					allQuiet = false
					v.Label("drain-skipped:answerer-parked-on-transport-start")
				}
				continue
			}
			quiet, timedOut := vfC04Drain(q, 20*time.Second)
			if quiet {
				q.tainted.Store(false)
			}
			if timedOut {
				v.Logf("C04 drain timeout on %s after op %d of %s\n%s", q.name, i, v.caseJSON, vfC04Stacks())
				// nothing is concluded from a timeout
				v.Skip("operations queue did not drain within 20s")
			}
			if !quiet {
				allQuiet = false
				v.Label("drain-not-quiet")
			}
		}
		if !connected && ps[0].remoteApplied && ps[1].remoteApplied && exI < 0 {
			connected = true // both drains above waited for startTransports
		}

		v.Logf("C04 op %d %s x=%d a=%d | ex I=%d phase=%d pr=%v/%v | A: %s seq=%d/res=%d/app=%d uncl=%v fires=%d | B: %s seq=%d/res=%d/app=%d uncl=%v fires=%d | quiet=%v",
			i, op.K, op.X, op.A, exI, exPhase, prLocal, prRemote,
			ps[0].pc.SignalingState(), ps[0].changeSeq, ps[0].resolvedSeq, ps[0].appliedSeq, ps[0].unclassified, ps[0].firesSince(0),
			ps[1].pc.SignalingState(), ps[1].changeSeq, ps[1].resolvedSeq, ps[1].appliedSeq, ps[1].unclassified, ps[1].firesSince(0), allQuiet)
		if allQuiet {
			for _, q := range ps {
				if q.closeCalled.Load() {
					continue
				}
				desc := ""
				for _, t := range q.pc.GetTransceivers() {
					snd := t.Sender()
					desc += fmt.Sprintf(" [mid=%q dir=%s sender=%v track=%v]", t.Mid(), t.Direction(), snd != nil, snd != nil && snd.Track() != nil)
				}
				v.Logf("C04    %s: pionNeeded=%v flag=%v%s", q.name, q.pc.checkNegotiationNeeded(), q.pc.isNegotiationNeeded.Load(), desc)
			}
		}
		// (A) and (B) on everything recorded so far
		for _, q := range ps {
			q.mu.Lock()
			fires := append([]vfC04Fire{}, q.fires...)
			q.mu.Unlock()
			for _, f := range fires {
				if f.tainted {
					continue
				}
				if f.closed {
					v.Violation("C04/fired-after-close", "after op %d (%s %s): negotiationneeded was invoked on %s after Close had been called", i, op.K, p.name, q.name)
				}
				if f.state != SignalingStateStable {
					v.Violation("C04/fired-in-"+f.state.String(), "after op %d (%s %s): negotiationneeded was invoked on %s while its signaling state was %s", i, op.K, p.name, q.name, f.state)
				}
			}
			bounds := append([]int64{0}, q.completions...)
			bounds = append(bounds, q.withdrawals...)
			sort.Slice(bounds, func(a, b int) bool { return bounds[a] < bounds[b] })
			for k, lo := range bounds {
				hi := int64(1) << 62
				if k+1 < len(bounds) {
					hi = bounds[k+1]
				}
				n := 0
				for _, f := range fires {
					if f.at > lo && f.at < hi && !f.tainted {
						n++
					}
				}
				if n > 1 {
					v.Violation("C04/fired-twice-without-completed-exchange", "after op %d (%s %s): negotiationneeded was invoked %d times on %s within one interval between exchange completions / RemoveTrack calls (interval #%d)", i, op.K, p.name, n, q.name, k)
				}
			}
		}
		// (C) at a quiet point
		if allQuiet {
			for _, q := range ps {
				if q.closeCalled.Load() || q.pc.SignalingState() != SignalingStateStable {
					continue
				}
				fired := q.firesSince(q.lastCompletion())
				needed := q.changeSeq > q.resolvedSeq
				if what := unassociated(q); what != "" {
					role := "before-first-completion"
					if len(q.completions) > 0 {
						role = "after-offerer-completion"
						if q.lastAsAnswerer {
							role = "after-answerer-completion"
						}
					}
					if fired == 0 {
						v.Violation("C04/not-fired-when-stable/unassociated-"+what+"/"+role,
							"after op %d (%s %s): %s is stable and its queue is drained; a %s of %s is not part of its current local description, so negotiation is (still) needed, but negotiationneeded has not been invoked since its last completed exchange (%s)",
							i, op.K, p.name, q.name, what, q.name, role)
					}
					v.Label("quiet-point:unassociated-" + what + "-and-fired:" + role)
				}
				switch {
				case q.unclassified:
					v.Label("quiet-point:unclassified")
				case needed && fired == 0:
					class := "C04/not-fired-when-stable/" + q.lastChange
					if q.lastViaRemotePr {
						class += "/offerer-applied-remote-pranswer"
					}
					v.Violation(class, "after op %d (%s %s): %s is stable, its queue is drained, %s (change #%d, last negotiated #%d) requires renegotiation, but negotiationneeded has not been invoked since its last completed exchange",
						i, op.K, p.name, q.name, q.lastChange, q.changeSeq, q.resolvedSeq)
				case needed:
					v.Label("quiet-point:needed-and-fired")
				case fired > 0:
					v.Label("quiet-point:fired-though-harness-sees-no-need(counted-only)")
					v.Logf("C04 unexplained fire on %s after op %d of %s", q.name, i, v.caseJSON)
				default:
					v.Label("quiet-point:not-needed-not-fired")
				}
			}
		}
	}
	nFires := len(ps[0].fires) + len(ps[1].fires)
	if nFires > 0 && opsWhileUnstable > 0 {
		v.NonTrivial()
	}
	if completedExchanges > 0 {
		v.Label("has-completed-exchange")
	}
	if completedExchanges > 1 {
		v.Label("has-renegotiation")
	}
	if opsWhileUnstable > 0 {
		v.Label("has-op-while-not-stable")
	}
	if ps[0].closeCalled.Load() || ps[1].closeCalled.Load() {
		v.Label("has-close")
	}
}

func TestVerif_C04_Histories(t *testing.T) {
	maxLen := 20
	if vfTier() == "thorough" {
		maxLen = 28
	}
	vfProperty(t, "C04", vfOpts{
		Rule: "sequential history (1..20 ops quick, ..28 thorough) on a connected loopback pair; non-trivial = negotiationneeded fired at least once AND at least one AddTrack/RemoveTrack/AddTransceiver/CreateDataChannel/Close was performed while a peer was not stable",
		Assumptions: []string{
			"after every op both operation queues are drained (pc.ops.Done() until queue, worker and the update-on-empty-chain flag are quiet); the answerer of the very first exchange cannot be drained between applying the offer and the offerer applying the answer (startTransports is parked) and is skipped there",
			"(C) is asserted only for AddTrack / AddTransceiverFromKind / first CreateDataChannel that happened after the last offer the peer created and completed as offerer; RemoveTrack and changes pending across an answerer-side completion make the peer unclassified until its next offerer-side completion",
			"a fire without a need visible to the harness is counted, not asserted (the statement does not exclude it)",
			"no rollback, no ICE restart, default codecs on both sides, data channels are never closed",
		},
	}, func(v *vfT) vfC04Case {
		n := rapid.IntRange(1, maxLen).Draw(v.R, "n")
		kinds := []string{"addTrack", "addTrack", "removeTrack", "addTr", "addTr", "addDC", "step", "step", "step", "step", "step", "step", "step", "stepPr", "stepPr", "exchange", "exchange"}
		var c vfC04Case
		if rapid.IntRange(0, 3).Draw(v.R, "template") == 0 {
			// a need that the peer's offer cannot satisfy: X adds a transceiver/track of one kind, Y
			// offers only a data channel or the other kind, X answers; X must fire again once stable
			x := rapid.IntRange(0, 1).Draw(v.R, "tx")
			kind := rapid.IntRange(0, 1).Draw(v.R, "tkind")
			c.Ops = append(c.Ops, vfC04Op{K: rapid.SampledFrom([]string{"addTr", "addTrack"}).Draw(v.R, "tk"), X: x, A: kind + 2*rapid.IntRange(0, 1).Draw(v.R, "tdir")})
			switch rapid.IntRange(0, 2).Draw(v.R, "ty") {
			case 0:
				c.Ops = append(c.Ops, vfC04Op{K: "addDC", X: 1 - x})
			case 1:
				c.Ops = append(c.Ops, vfC04Op{K: "addTr", X: 1 - x, A: 1 - kind})
			default:
				c.Ops = append(c.Ops, vfC04Op{K: "addTrack", X: 1 - x, A: 1 - kind})
			}
			c.Ops = append(c.Ops, vfC04Op{K: "exchange", X: 1 - x})
		}
		if len(c.Ops) == 0 && rapid.IntRange(0, 4).Draw(v.R, "templateDC") == 0 {
			// the first data channel of a peer, with drawn options (often negotiated out of band), as the
			// first need-creating operation of the history or after a completed media-only exchange
			x := rapid.IntRange(0, 1).Draw(v.R, "dx")
			if rapid.Bool().Draw(v.R, "dAfterMedia") {
				c.Ops = append(c.Ops, vfC04Op{K: rapid.SampledFrom([]string{"addTr", "addTrack"}).Draw(v.R, "dk"), X: x, A: rapid.IntRange(0, 3).Draw(v.R, "da")},
					vfC04Op{K: "exchange", X: x})
				if rapid.Bool().Draw(v.R, "dOnPeer") {
					x = 1 - x
				}
			}
			a := 5
			if rapid.IntRange(0, 2).Draw(v.R, "dPlain") == 0 {
				a = rapid.IntRange(0, 4).Draw(v.R, "dOpt")
			}
			c.Ops = append(c.Ops, vfC04Op{K: "addDC", X: x, A: a})
		}
		if len(c.Ops) == 0 && rapid.IntRange(0, 2).Draw(v.R, "templatePr") == 0 {
			// a renegotiation through a provisional answer with a change made while a peer sits in
			// have-local-pranswer / have-remote-pranswer: connect, re-offer up to the created answer,
			// pranswer on the answerer (and maybe the offerer), change, finish
			x := rapid.IntRange(0, 1).Draw(v.R, "px")
			change := func(on int) vfC04Op {
				return vfC04Op{K: rapid.SampledFrom([]string{"addTr", "addTrack", "addDC", "removeTrack"}).Draw(v.R, "pk"), X: on, A: rapid.IntRange(0, 3).Draw(v.R, "pa")}
			}
			c.Ops = append(c.Ops, vfC04Op{K: rapid.SampledFrom([]string{"addTr", "addTrack", "addDC"}).Draw(v.R, "pk0"), X: x, A: rapid.IntRange(0, 3).Draw(v.R, "pa0")},
				vfC04Op{K: "exchange", X: x})
			y := x
			if rapid.Bool().Draw(v.R, "pOtherInitiator") {
				y = 1 - x
			}
			c.Ops = append(c.Ops, change(y))
			for k := 0; k < 4; k++ {
				c.Ops = append(c.Ops, vfC04Op{K: "step", X: y})
			}
			c.Ops = append(c.Ops, vfC04Op{K: "stepPr", X: y})
			if rapid.Bool().Draw(v.R, "pChangeOnAnswerer") {
				c.Ops = append(c.Ops, change(1-y))
			}
			if rapid.Bool().Draw(v.R, "pRemote") {
				c.Ops = append(c.Ops, vfC04Op{K: "stepPr", X: y}, change(y))
			}
			if rapid.Bool().Draw(v.R, "pChangeOnAnswerer2") {
				c.Ops = append(c.Ops, change(1-y))
			}
			c.Ops = append(c.Ops, vfC04Op{K: "exchange", X: y})
		}
		for i := 0; i < n; i++ {
			op := vfC04Op{K: rapid.SampledFrom(kinds).Draw(v.R, "k"), X: rapid.IntRange(0, 1).Draw(v.R, "x"), A: rapid.IntRange(0, 5).Draw(v.R, "a")}
			if i == 0 && rapid.IntRange(0, 4).Draw(v.R, "mediaFirst") != 0 {
				op.K = rapid.SampledFrom([]string{"addTrack", "addTr", "addDC"}).Draw(v.R, "k0")
			}
			if i >= n-3 && i > 2 && rapid.IntRange(0, 19).Draw(v.R, "close") == 0 {
				op.K = "close"
			}
			c.Ops = append(c.Ops, op)
		}
		return c
	}, vfC04Run)
}
