package webrtc

// C13 — Peers always take complementary ICE and DTLS roles.
//
// Domain (exhaustive): ICE-lite {off,on} on each side x answering DTLS role {unset, client,
// server} (SettingEngine of the answerer) x the a=setup value the answerer sees in the offer
// {actpass, active, passive, absent} (the pion offer munged in flight; the offerer keeps
// the description it generated) x {data channel only, audio + data channel} x {one
// exchange, a second same-direction exchange after the first}.  Both sides are real pion
// peers on host candidates.
//
// Oracle (all read from the statement):
//   (a) every a=setup in the answer is active or passive;
//   (b) if the offer said active/passive, the answer says the opposite ("roles consistent
//       with the exchanged a=setup values" is impossible otherwise);
//   (c) exactly one side is ICE controlling: the offerer when both or neither are lite,
//       otherwise the full agent (RFC 8445 6.1.1);
//   (d) once both DTLS transports have left `new`: the answerer's DTLS role is the one its
//       answer announces, the offerer's is the opposite one.
// Bounded eventualities (roles known, DTLS started, pair connected) are counted under
// `inconclusive:*` labels when the watchdog expires; they never decide a violation.

import (
	"fmt"
	"testing"
	"time"
)

type vfC13Case struct {
	OffLite    bool   `json:"off_lite"`
	AnsLite    bool   `json:"ans_lite"`
	AnsRole    string `json:"ans_role"`    // "", "client", "server"
	OfferSetup string `json:"offer_setup"` // actpass | active | passive | absent
	Session    bool   `json:"session_level,omitempty"` // the offer states a=setup once at session level instead of per m-section
	Media      bool   `json:"media"`       // audio track next to the data channel
	Reneg      bool   `json:"reneg"`       // second exchange in the same direction after the first
}

func vfC13Opposite(setup string) string {
	switch setup {
	case "active":
		return "passive"
	case "passive":
		return "active"
	}
	return ""
}

func vfC13RoleOfSetup(setup string) DTLSRole {
	switch setup {
	case "active":
		return DTLSRoleClient
	case "passive":
		return DTLSRoleServer
	}
	return DTLSRoleUnknown
}

func vfC13OtherRole(r DTLSRole) DTLSRole {
	switch r {
	case DTLSRoleClient:
		return DTLSRoleServer
	case DTLSRoleServer:
		return DTLSRoleClient
	}
	return DTLSRoleUnknown
}

const vfC13Watchdog = 15 * time.Second

func vfC13Run(v *vfT, c vfC13Case) {
	switch c.AnsRole {
	case "", "client", "server":
	default:
		v.Skip("bad ans_role")
	}
	switch c.OfferSetup {
	case "actpass", "active", "passive", "absent":
	default:
		v.Skip("bad offer_setup")
	}
	off := vfFamDPeer{SE: func(se *SettingEngine) { se.SetLite(c.OffLite) }}
	ans := vfFamDPeer{SE: func(se *SettingEngine) {
		se.SetLite(c.AnsLite)
		switch c.AnsRole {
		case "client":
			_ = se.SetAnsweringDTLSRole(DTLSRoleClient)
		case "server":
			_ = se.SetAnsweringDTLSRole(DTLSRoleServer)
		}
	}}
	pair, err := vfFamDNewPair(off, ans, 0)
	if err != nil {
		v.Skip("pair construction failed: " + err.Error())
	}
	defer pair.Close()

	if _, err = pair.Off.CreateDataChannel("c13", nil); err != nil {
		v.Skip("CreateDataChannel: " + err.Error())
	}
	if c.Media {
		tr, terr := NewTrackLocalStaticSample(RTPCodecCapability{MimeType: MimeTypeOpus, ClockRate: 48000, Channels: 2}, "a", "s")
		if terr != nil {
			v.Skip("NewTrackLocalStaticSample: " + terr.Error())
		}
		if _, terr = pair.Off.AddTrack(tr); terr != nil {
			v.Skip("AddTrack: " + terr.Error())
		}
	}
	liteClass := fmt.Sprintf("lite=%v/%v", c.OffLite, c.AnsLite)
	v.Label(liteClass)
	v.Label("offer-setup=" + c.OfferSetup)
	v.Label("ans-role=" + c.AnsRole)

	munge := func(s string) string { return vfFamDMungeSetup(s, c.OfferSetup) }
	if c.Session {
		if c.OfferSetup == "absent" {
			v.Skip("session-level placement of an absent attribute")
		}
		munge = func(s string) string { return vfFamDMungeSetupSession(s, c.OfferSetup) }
		v.Label("offer-setup-at-session-level")
	}
	rounds := 1
	if c.Reneg {
		rounds = 2
	}
	for round := 1; round <= rounds; round++ {
		tag := ""
		if round == 2 {
			tag = "/reneg"
		}
		if err = pair.Signal(munge, nil); err != nil {
			// No description exchange, nothing the statement speaks about can be observed.
			v.Label("inconclusive:signal-error" + tag)
			v.Logf("C13 %+v: %v", c, err)
			return
		}
		// the munging did what the case says (domain self-check)
		seen := vfFamDSetupValues(pair.OfferSent)
		if c.OfferSetup == "absent" {
			if len(seen) != 0 {
				v.Skip("munging left a=setup lines")
			}
		} else {
			if len(seen) == 0 {
				v.Skip("offer without a=setup")
			}
			for _, s := range seen {
				if s != c.OfferSetup {
					v.Skip("munging did not apply")
				}
			}
		}

		// (a) the answer's a=setup
		ansSetups := vfFamDSetupValues(pair.AnswerLocal)
		if len(ansSetups) == 0 {
			v.Violation("C13/answer-setup-missing"+tag, "answer carries no a=setup line (offer setup %s, answering role %q, lite %s)", c.OfferSetup, c.AnsRole, liteClass)
		}
		for _, s := range ansSetups {
			if s != "active" && s != "passive" {
				v.Violation("C13/answer-setup-not-active-or-passive"+tag, "answer says a=setup:%s (offer setup %s, answering role %q, %s)", s, c.OfferSetup, c.AnsRole, liteClass)
			}
		}
		ansSetup := ansSetups[0]
		for _, s := range ansSetups {
			if s != ansSetup {
				v.Label("answer-setup-mixed")
			}
		}
		v.Label("answer-setup=" + ansSetup)

		// (c) ICE roles (set when the transports are started from the operations queue)
		gotICE := vfFamDWaitFor(vfC13Watchdog, func() bool {
			return pair.Off.iceTransport.Role() != ICERoleUnknown && pair.Ans.iceTransport.Role() != ICERoleUnknown
		})
		if !gotICE {
			v.Label("inconclusive:ice-role-not-set" + tag)
		} else {
			ro, ra := pair.Off.iceTransport.Role(), pair.Ans.iceTransport.Role()
			wantOff, wantAns := ICERoleControlling, ICERoleControlled
			if c.OffLite != c.AnsLite && c.OffLite {
				wantOff, wantAns = ICERoleControlled, ICERoleControlling
			}
			nCtl := 0
			if ro == ICERoleControlling {
				nCtl++
			}
			if ra == ICERoleControlling {
				nCtl++
			}
			if nCtl != 1 {
				v.Violation("C13/ice-controlling-count"+tag, "%d controlling agents (offerer %s, answerer %s) with %s", nCtl, ro, ra, liteClass)
			}
			if ro != wantOff || ra != wantAns {
				v.Violation("C13/ice-role-not-rfc8445"+tag, "offerer %s answerer %s with %s, RFC 8445 6.1.1 wants offerer %s answerer %s", ro, ra, liteClass, wantOff, wantAns)
			}
			v.Label("ice-roles-checked")
		}

		// (d) DTLS roles, readable once DTLS has started on both sides (needs ICE connected)
		started := vfFamDWaitFor(vfC13Watchdog, func() bool {
			return pair.Off.dtlsTransport.State() != DTLSTransportStateNew && pair.Ans.dtlsTransport.State() != DTLSTransportStateNew
		})
		var roleOff, roleAns DTLSRole
		if started {
			roleOff, roleAns = vfFamDDTLSRole(pair.Off), vfFamDDTLSRole(pair.Ans)
		}

		// (b) explicit offer value must be mirrored
		if want := vfC13Opposite(c.OfferSetup); want != "" && ansSetup != want {
			cause := "other"
			switch {
			case c.Session:
				cause = "session-level-setup"
			case c.AnsRole != "":
				cause = "answering-role"
			case c.OffLite && !c.AnsLite:
				cause = "remote-ice-lite"
			}
			obs := "DTLS start not observed"
			if started {
				obs = fmt.Sprintf("after DTLS start: offerer role %s, answerer role %s", roleOff, roleAns)
			}
			v.Violation("C13/answer-setup-equals-offer/cause="+cause+tag,
				"offer a=setup:%s answered with a=setup:%s (answering role %q, %s); %s",
				c.OfferSetup, ansSetup, c.AnsRole, liteClass, obs)
		}

		if !started {
			v.Label("inconclusive:dtls-not-started/" + liteClass + tag)
			return
		}
		announced := vfC13RoleOfSetup(ansSetup)
		if roleAns != announced {
			v.Violation("C13/answerer-role-contradicts-answer"+tag, "answer announces a=setup:%s (%s) but the answerer's DTLS role is %s (offer setup %s, answering role %q, %s)",
				ansSetup, announced, roleAns, c.OfferSetup, c.AnsRole, liteClass)
		}
		if roleOff != vfC13OtherRole(announced) {
			v.Violation("C13/offerer-role-contradicts-answer"+tag, "answer announces a=setup:%s so the offerer must be %s, but its DTLS role is %s (offer setup %s, answering role %q, %s)",
				ansSetup, vfC13OtherRole(announced), roleOff, c.OfferSetup, c.AnsRole, liteClass)
		}
		if roleOff == roleAns {
			v.Violation("C13/same-dtls-role"+tag, "both peers are DTLS %s", roleOff)
		}
		v.Label("dtls-roles-checked")
		v.NonTrivial()

		// positive evidence: with consistent roles the pair does connect
		if pair.WaitConnected(vfC13Watchdog) {
			v.Label("connected" + tag)
		} else {
			v.Label(fmt.Sprintf("inconclusive:not-connected/%s/offer=%s/role=%s%s", liteClass, c.OfferSetup, c.AnsRole, tag))
			return
		}
	}
}

func vfC13Cases(withReneg bool) []vfC13Case {
	return vfC13CasesLevel(withReneg, false)
}

func vfC13CasesLevel(withReneg, session bool) []vfC13Case {
	var cases []vfC13Case
	renegs := []bool{false}
	if withReneg {
		renegs = []bool{false, true}
	}
	for _, reneg := range renegs {
		for _, media := range []bool{false, true} {
			for _, ol := range []bool{false, true} {
				for _, al := range []bool{false, true} {
					for _, role := range []string{"", "client", "server"} {
						for _, setup := range []string{"actpass", "active", "passive", "absent"} {
							if session && setup == "absent" {
								continue
							}
							cases = append(cases, vfC13Case{OffLite: ol, AnsLite: al, AnsRole: role, OfferSetup: setup, Session: session, Media: media, Reneg: reneg})
						}
					}
				}
			}
		}
	}
	return cases
}

func TestVerif_C13_Matrix(t *testing.T) {
	cases := vfC13Cases(vfTier() == "thorough")
	s := vfOpen(t, "C13", vfOpts{
		Rule: "exhaustive: offerer lite{0,1} x answerer lite{0,1} x answering DTLS role{unset,client,server} x offer a=setup{actpass,active,passive,absent} x {data, audio+data} (x {single exchange, second same-direction exchange} in the thorough tier); a case is non-trivial when both DTLS transports started and all four role observations (2 ICE, 2 DTLS) were compared with the exchanged SDP",
		Assumptions: []string{
			"the offer's a=setup is changed in flight: the offering pion peer keeps its own actpass description and derives its role from the answer, exactly like a foreign offerer that sent the munged value",
			"an absent a=setup in the offer puts no constraint on the answer beyond active|passive",
			"IPv4 UDP host candidates, mDNS disabled, non-trickle signalling",
			"watchdog expiries (ICE role unset, DTLS not started, not connected) are counted as inconclusive labels and never reported as violations",
		},
	}, vfC13Run)
	defer s.Close()
	s.SetSampleEvery(len(cases)/5 + 1)
	if s.Replay() {
		return
	}
	s.SetExhaustive(true)
	s.Extra("enumerated", len(cases))
	// independent pairs; a few at a time keeps the wall time low without starving the handshakes
	vfFamDParallel(len(cases), 4, func(i int) bool { return s.One(cases[i]) })
}

// The same matrix with the offer's a=setup stated once at session level (RFC 4145 registers
// the attribute for both levels; RFC 8859 lists it with level "B").  Kept in a test function of
// its own because the statement's quantifier does not name the placement: whether a
// session-level value counts as "the offer's a=setup value" is a reading of the statement.
func TestVerif_C13_SessionLevelSetup(t *testing.T) {
	cases := vfC13CasesLevel(false, true)
	s := vfOpen(t, "C13", vfOpts{
		Rule: "exhaustive: the 2x2x3 configuration matrix x offer a=setup{actpass,active,passive} given once at session level x {data, audio+data}; non-trivial as in the media-level matrix",
		Assumptions: []string{"a session-level a=setup in the offer is the offer's a=setup value (RFC 4145 section 10: session and media level attribute)"},
	}, vfC13Run)
	defer s.Close()
	s.SetSampleEvery(len(cases)/5 + 1)
	if s.Replay() {
		return
	}
	s.SetExhaustive(true)
	s.Extra("enumerated_session_level", len(cases))
	vfFamDParallel(len(cases), 4, func(i int) bool { return s.One(cases[i]) })
}
