package webrtc

// C14 — DTLS authenticates the peer against the signalled fingerprint.
//
// Two real pion peers; the description one of them (the "attacker") sends is edited in flight
// so that the other one (the "victim") applies a remote description whose a=fingerprint is:
// untouched, one hex digit altered, lower-cased, relabelled (SHA-256 / sha-1 with the sha-256
// value / sha-1 with the genuine sha-1 digest / an unknown hash name), replaced by the genuine
// fingerprint of a different certificate, or absent; stated at session level or at media level
// (natively through SetSDPMediaLevelFingerprints or moved by the edit); with fingerprint
// verification enabled or explicitly disabled on the victim.
//
// Oracle:
//   (i)  whenever a side was observed DTLS-connected: SHA-256 (computed here with crypto/sha256)
//        of the certificate the other side presented (GetRemoteCertificate) equals every
//        sha-256 a=fingerprint of that other side's own local description;
//   (ii) verification enabled and NO fingerprint of the applied description matches the
//        attacker's certificate: the victim is never OBSERVED DTLS-connected (state handler,
//        polling, PeerConnectionState), no channel opens on it, no message and no track
//        reaches it.  The conclusive good outcome is "rejected by SetRemoteDescription" or
//        "DTLS failed/closed observed"; if neither is observed within the watchdog the case is
//        counted inconclusive.  "Did not fail in time" is never a violation.
// Matching descriptions are expected to connect; that is counted, not asserted.

import (
	"bytes"
	"context"
	"crypto/ecdsa"
	"crypto/rand"
	"crypto/sha1" //nolint:gosec
	"crypto/sha256"
	"crypto/tls"
	"crypto/x509"
	"crypto/x509/pkix"
	"encoding/hex"
	"fmt"
	"math/big"
	"strings"
	"sync"
	"testing"
	"time"

	"github.com/pion/dtls/v3"
	"github.com/pion/webrtc/v4/internal/mux"
	"github.com/pion/webrtc/v4/pkg/media"
	"pgregory.net/rapid"
)

type vfC14Cert struct {
	Kind     string `json:"kind"`                // pool | custom | generated | two | list
	List     []int  `json:"list,omitempty"`      // list: pool indices of Configuration.Certificates, in order (1..3, mixed key types)
	Index    int    `json:"index"`               // pool index (0..3 ECDSA, 4..5 RSA); key for custom
	Serial   int64  `json:"serial,omitempty"`    // custom
	CN       string `json:"cn,omitempty"`        // custom
	DaysLeft int    `json:"days_left,omitempty"` // custom: NotAfter = now + DaysLeft days
}

type vfC14Case struct {
	OffCert        vfC14Cert `json:"off_cert"`
	AnsCert        vfC14Cert `json:"ans_cert"`
	Victim         string    `json:"victim"`   // answerer (offer edited) | offerer (answer edited)
	AnsRole        string    `json:"ans_role"` // "", client, server
	Mut            string    `json:"mut"`      // none digit case label-upper label-sha1-wrong-value label-sha1-genuine label-unknown other-cert absent
	DigitPos       int       `json:"digit_pos"`
	DigitDelta     int       `json:"digit_delta"` // 1..15 added to the hex digit mod 16
	Level          string    `json:"level"`       // session | media-native | moved-to-media | moved-to-session
	VerifyDisabled bool      `json:"verify_disabled"`
	Media          bool      `json:"media"` // the attacker also sends an audio track
}

// vfC14MakeCert materialises a certificate description.
func vfC14MakeCert(c vfC14Cert) (certs []Certificate, noCert bool, err error) {
	switch c.Kind {
	case "pool":
		return []Certificate{vfFamDCert(c.Index)}, false, nil
	case "two":
		return []Certificate{vfFamDCert(c.Index), vfFamDCert(c.Index + 1)}, false, nil
	case "list":
		if len(c.List) == 0 {
			return nil, false, fmt.Errorf("empty certificate list")
		}
		var out []Certificate
		for _, i := range c.List {
			out = append(out, vfFamDCert(i))
		}
		return out, false, nil
	case "generated":
		return nil, true, nil
	case "custom":
		base := vfFamDCertEC(c.Index)
		sk, ok := base.privateKey.(*ecdsa.PrivateKey)
		if !ok {
			return nil, false, fmt.Errorf("pool key is not ECDSA")
		}
		days := c.DaysLeft
		if days < 1 {
			days = 1
		}
		tpl := &x509.Certificate{
			SerialNumber: big.NewInt(c.Serial),
			Subject:      pkix.Name{CommonName: c.CN},
			Issuer:       pkix.Name{CommonName: c.CN},
			NotBefore:    time.Now().Add(-time.Hour),
			NotAfter:     time.Now().AddDate(0, 0, days),
		}
		der, cerr := x509.CreateCertificate(rand.Reader, tpl, tpl, sk.Public(), sk)
		if cerr != nil {
			return nil, false, cerr
		}
		xc, cerr := x509.ParseCertificate(der)
		if cerr != nil {
			return nil, false, cerr
		}
		return []Certificate{CertificateFromX509(sk, xc)}, false, nil
	}
	return nil, false, fmt.Errorf("unknown certificate kind %q", c.Kind)
}

func vfC14Hex(sum []byte) string {
	h := strings.ToUpper(hex.EncodeToString(sum))
	var b strings.Builder
	for i := 0; i < len(h); i += 2 {
		if i > 0 {
			b.WriteByte(':')
		}
		b.WriteString(h[i : i+2])
	}
	return b.String()
}

func vfC14SHA256(der []byte) string { s := sha256.Sum256(der); return vfC14Hex(s[:]) }
func vfC14SHA1(der []byte) string   { s := sha1.Sum(der); return vfC14Hex(s[:]) } //nolint:gosec

// vfC14Fingerprints returns (algorithm, value) of every a=fingerprint line.
func vfC14Fingerprints(sdpText string) [][2]string {
	var out [][2]string
	for _, l := range vfFamDLines(sdpText) {
		if !strings.HasPrefix(l, "a=fingerprint:") {
			continue
		}
		parts := strings.SplitN(strings.TrimPrefix(l, "a=fingerprint:"), " ", 2)
		if len(parts) == 2 {
			out = append(out, [2]string{parts[0], parts[1]})
		} else {
			out = append(out, [2]string{parts[0], ""})
		}
	}
	return out
}

// vfC14Edit rewrites the description: every fingerprint line is replaced by newLine ("" =
// dropped) and the result is stated at the requested level.
func vfC14Edit(sdpText string, rewrite func(algo, value string) string, level string) string {
	lines := vfFamDLines(sdpText)
	var kept []string
	var fps []string
	for _, l := range lines {
		if strings.HasPrefix(l, "a=fingerprint:") {
			parts := strings.SplitN(strings.TrimPrefix(l, "a=fingerprint:"), " ", 2)
			val := ""
			if len(parts) == 2 {
				val = parts[1]
			}
			nl := rewrite(parts[0], val)
			switch level {
			case "moved-to-media", "moved-to-session":
				if nl != "" && (len(fps) == 0 || fps[len(fps)-1] != nl) {
					dup := false
					for _, f := range fps {
						dup = dup || f == nl
					}
					if !dup {
						fps = append(fps, nl)
					}
				}
			default:
				if nl != "" {
					kept = append(kept, nl)
				}
			}
			continue
		}
		kept = append(kept, l)
	}
	switch level {
	case "moved-to-session":
		// before the first m= line
		var out []string
		done := false
		for _, l := range kept {
			if !done && strings.HasPrefix(l, "m=") {
				out = append(out, fps...)
				done = true
			}
			out = append(out, l)
		}
		kept = out
	case "moved-to-media":
		// in every m-section, in front of its first attribute
		var out []string
		inMedia, placed := false, false
		for _, l := range kept {
			if strings.HasPrefix(l, "m=") {
				inMedia, placed = true, false
			} else if inMedia && !placed && strings.HasPrefix(l, "a=") {
				out = append(out, fps...)
				placed = true
			}
			out = append(out, l)
		}
		kept = out
	}
	return strings.Join(kept, "\r\n") + "\r\n"
}

// vfC14Level reports where the fingerprint lines of a description sit.
func vfC14Level(sdpText string) (session, mediaLevel int) {
	inMedia := false
	for _, l := range vfFamDLines(sdpText) {
		if strings.HasPrefix(l, "m=") {
			inMedia = true
		}
		if strings.HasPrefix(l, "a=fingerprint:") {
			if inMedia {
				mediaLevel++
			} else {
				session++
			}
		}
	}
	return
}

const (
	vfC14ConnectWatchdog = 8 * time.Second
	vfC14RejectWatchdog  = 6 * time.Second
)

type vfC14Obs struct {
	mu         sync.Mutex
	dtlsStates []DTLSTransportState
	pcStates   []PeerConnectionState
	chanOpen   bool
	message    bool
	track      bool
}

func (o *vfC14Obs) snapshot() (dtlsConnected, dtlsDead, pcConnected, pcDead, open, msg, track bool) {
	o.mu.Lock()
	defer o.mu.Unlock()
	for _, s := range o.dtlsStates {
		dtlsConnected = dtlsConnected || s == DTLSTransportStateConnected
		dtlsDead = dtlsDead || s == DTLSTransportStateFailed || s == DTLSTransportStateClosed
	}
	for _, s := range o.pcStates {
		pcConnected = pcConnected || s == PeerConnectionStateConnected
		pcDead = pcDead || s == PeerConnectionStateFailed || s == PeerConnectionStateClosed
	}
	return dtlsConnected, dtlsDead, pcConnected, pcDead, o.chanOpen, o.message, o.track
}

func vfC14Run(v *vfT, c vfC14Case) {
	offCerts, offNo, err := vfC14MakeCert(c.OffCert)
	if err != nil {
		v.Skip("offerer certificate: " + err.Error())
	}
	ansCerts, ansNo, err := vfC14MakeCert(c.AnsCert)
	if err != nil {
		v.Skip("answerer certificate: " + err.Error())
	}
	victimIsAnswerer := c.Victim == "answerer"
	if !victimIsAnswerer && c.Victim != "offerer" {
		v.Skip("bad victim")
	}
	nativeMedia := c.Level == "media-native" || c.Level == "moved-to-session"
	switch c.Level {
	case "session", "media-native", "moved-to-media", "moved-to-session":
	default:
		v.Skip("bad level")
	}
	off := vfFamDPeer{NoCert: offNo, Config: Configuration{Certificates: offCerts}, SE: func(se *SettingEngine) {
		if victimIsAnswerer {
			se.SetSDPMediaLevelFingerprints(nativeMedia) // the offerer is the attacker
		} else {
			se.DisableCertificateFingerprintVerification(c.VerifyDisabled)
		}
	}}
	ans := vfFamDPeer{NoCert: ansNo, Config: Configuration{Certificates: ansCerts}, SE: func(se *SettingEngine) {
		switch c.AnsRole {
		case "client":
			_ = se.SetAnsweringDTLSRole(DTLSRoleClient)
		case "server":
			_ = se.SetAnsweringDTLSRole(DTLSRoleServer)
		}
		if victimIsAnswerer {
			se.DisableCertificateFingerprintVerification(c.VerifyDisabled)
		} else {
			se.SetSDPMediaLevelFingerprints(nativeMedia)
		}
	}}
	pair, err := vfFamDNewPair(off, ans, 0)
	if err != nil {
		v.Skip("pair construction failed: " + err.Error())
	}
	defer pair.Close()
	victim, attacker := pair.Ans, pair.Off
	if !victimIsAnswerer {
		victim, attacker = pair.Off, pair.Ans
	}

	// ---- observers on the victim --------------------------------------------------------
	obs := &vfC14Obs{}
	victim.SCTP().Transport().OnStateChange(func(s DTLSTransportState) {
		obs.mu.Lock()
		obs.dtlsStates = append(obs.dtlsStates, s)
		obs.mu.Unlock()
	})
	victim.OnConnectionStateChange(func(s PeerConnectionState) {
		obs.mu.Lock()
		obs.pcStates = append(obs.pcStates, s)
		obs.mu.Unlock()
	})
	watchVictimChannel := func(d *DataChannel) {
		d.OnOpen(func() { obs.mu.Lock(); obs.chanOpen = true; obs.mu.Unlock() })
		d.OnMessage(func(DataChannelMessage) { obs.mu.Lock(); obs.message = true; obs.mu.Unlock() })
	}
	attackerSends := func(d *DataChannel) {
		d.OnOpen(func() { _ = d.SendText("from the peer whose fingerprint was edited") })
	}
	victim.OnTrack(func(*TrackRemote, *RTPReceiver) { obs.mu.Lock(); obs.track = true; obs.mu.Unlock() })

	dc, err := pair.Off.CreateDataChannel("c14", nil)
	if err != nil {
		v.Skip("CreateDataChannel: " + err.Error())
	}
	if victimIsAnswerer {
		attackerSends(dc)
		victim.OnDataChannel(watchVictimChannel)
	} else {
		watchVictimChannel(dc)
		attacker.OnDataChannel(attackerSends)
	}
	stopMedia := make(chan struct{})
	var mediaWG sync.WaitGroup
	defer func() { close(stopMedia); mediaWG.Wait() }()
	if c.Media {
		tr, terr := NewTrackLocalStaticSample(RTPCodecCapability{MimeType: MimeTypeOpus, ClockRate: 48000, Channels: 2}, "audio", "c14")
		if terr != nil {
			v.Skip("NewTrackLocalStaticSample: " + terr.Error())
		}
		if !victimIsAnswerer {
			if _, terr = victim.AddTransceiverFromKind(RTPCodecTypeAudio, RTPTransceiverInit{Direction: RTPTransceiverDirectionRecvonly}); terr != nil {
				v.Skip("AddTransceiverFromKind: " + terr.Error())
			}
		}
		if _, terr = attacker.AddTrack(tr); terr != nil {
			v.Skip("AddTrack: " + terr.Error())
		}
		mediaWG.Add(1)
		go func() {
			defer mediaWG.Done()
			tick := time.NewTicker(4 * time.Millisecond)
			defer tick.Stop()
			for {
				select {
				case <-stopMedia:
					return
				case <-tick.C:
					_ = tr.WriteSample(media.Sample{Data: []byte{0xf8, 0xff, 0xfe}, Duration: 20 * time.Millisecond})
				}
			}
		}()
	}

	// ---- the edit ------------------------------------------------------------------------
	attackerDER := attacker.configuration.Certificates[0].x509Cert.Raw
	genuine256 := vfC14SHA256(attackerDER)
	rewrite := func(algo, value string) string {
		switch c.Mut {
		case "none":
			return "a=fingerprint:" + algo + " " + value
		case "digit":
			// the k-th hex digit (colons not counted)
			b := []byte(value)
			k := -1
			for i := range b {
				if b[i] == ':' {
					continue
				}
				k++
				if k == c.DigitPos {
					const hexd = "0123456789ABCDEF"
					cur := strings.IndexByte(hexd, strings.ToUpper(string(b[i]))[0])
					if cur < 0 {
						return "a=fingerprint:" + algo + " " + value
					}
					b[i] = hexd[(cur+c.DigitDelta)%16]
				}
			}
			return "a=fingerprint:" + algo + " " + string(b)
		case "case":
			return "a=fingerprint:" + algo + " " + strings.ToLower(value)
		case "label-upper":
			return "a=fingerprint:" + strings.ToUpper(algo) + " " + value
		case "label-sha1-wrong-value":
			return "a=fingerprint:sha-1 " + value
		case "label-sha1-genuine":
			return "a=fingerprint:sha-1 " + vfC14SHA1(attackerDER)
		case "label-unknown":
			return "a=fingerprint:sha-999 " + value
		case "other-cert":
			for i := 0; i < vfFamDNumEC; i++ {
				if o := vfC14SHA256(vfFamDCertEC(i).x509Cert.Raw); o != genuine256 {
					return "a=fingerprint:sha-256 " + o
				}
			}
			return ""
		case "absent":
			return ""
		}
		return "a=fingerprint:" + algo + " " + value
	}
	var edited, original string
	edit := func(s string) string {
		original = s
		edited = vfC14Edit(s, rewrite, c.Level)
		return edited
	}
	var sigErr error
	if victimIsAnswerer {
		sigErr = pair.Signal(edit, nil)
	} else {
		sigErr = pair.Signal(nil, edit)
	}

	// ---- classify what the victim was given ------------------------------------------------
	// matches = some fingerprint of the applied description is a genuine digest of the
	// attacker's certificate under the hash the line names (decided here, independently).
	matches := false
	appliedFPs := vfC14Fingerprints(edited)
	for _, fp := range appliedFPs {
		val := strings.ToUpper(fp[1])
		switch strings.ToLower(fp[0]) {
		case "sha-256":
			matches = matches || val == genuine256
		case "sha-1":
			matches = matches || val == vfC14SHA1(attackerDER)
		}
	}
	if original == "" {
		// signalling failed before the edited description existed
		v.Label("inconclusive:signal-error-before-edit")
		v.Logf("C14 %+v: %v", c, sigErr)
		return
	}
	// domain self-checks of the edit
	origFPs := vfC14Fingerprints(original)
	if len(origFPs) == 0 {
		v.Skip("pion description without fingerprint")
	}
	ses, med := vfC14Level(edited)
	switch {
	case c.Mut == "absent" || (c.Mut == "other-cert" && len(appliedFPs) == 0):
		if len(appliedFPs) != 0 {
			v.Skip("edit left a fingerprint")
		}
	case c.Level == "session" || c.Level == "moved-to-session":
		if ses == 0 || med != 0 {
			v.Skip(fmt.Sprintf("level %s: %d session / %d media fingerprints", c.Level, ses, med))
		}
	default:
		if med == 0 || ses != 0 {
			v.Skip(fmt.Sprintf("level %s: %d session / %d media fingerprints", c.Level, ses, med))
		}
	}
	wantMatch := map[string]bool{"none": true, "case": true, "label-upper": true, "label-sha1-genuine": true}[c.Mut]
	origMatches := false
	for _, fp := range origFPs {
		origMatches = origMatches || (strings.ToLower(fp[0]) == "sha-256" && strings.ToUpper(fp[1]) == genuine256)
	}
	if !origMatches {
		// pion itself advertised something else than the digest of Certificates[0]; part (i)
		// decides once the presented certificate has been seen by the peer
		v.Label("advertised-differs-from-configured-certificate")
	} else if matches != wantMatch {
		v.Skip(fmt.Sprintf("edit %s produced matches=%v", c.Mut, matches))
	}
	v.Label("mut=" + c.Mut)
	for _, cc := range []vfC14Cert{c.OffCert, c.AnsCert} {
		if cc.Kind == "list" {
			v.Label(fmt.Sprintf("cert:list-len=%d", len(cc.List)))
			if len(cc.List) > 1 && cc.List[0] >= vfFamDNumEC {
				for _, i := range cc.List[1:] {
					if i < vfFamDNumEC {
						v.Label("cert:list-rsa-first-ecdsa-later")
						break
					}
				}
			}
		}
	}
	v.Label("level=" + c.Level)
	v.Label("victim=" + c.Victim)
	if c.VerifyDisabled {
		v.Label("verify-disabled")
	}
	class := func(what string) string { return "C14/" + what + "/mut=" + c.Mut }

	// ---- part (i): advertised == presented, on every side observed connected ----------------
	checkAdvertised := func() {
		for _, side := range []struct {
			name      string
			self, oth *PeerConnection
		}{{"offerer", pair.Off, pair.Ans}, {"answerer", pair.Ans, pair.Off}} {
			// the certificate is recorded when it arrives in the handshake, before it is verified
			presented := side.oth.dtlsTransport.GetRemoteCertificate()
			if len(presented) == 0 {
				if side.oth.dtlsTransport.State() == DTLSTransportStateConnected {
					v.Violation("C14/no-remote-certificate-after-connected", "%s's peer is DTLS connected but GetRemoteCertificate() is empty", side.name)
				}
				continue
			}
			ld := side.self.LocalDescription()
			if ld == nil {
				continue
			}
			want := vfC14SHA256(presented)
			n := 0
			for _, fp := range vfC14Fingerprints(ld.SDP) {
				if strings.ToLower(fp[0]) != "sha-256" {
					v.Label("advertised-non-sha256")
					continue
				}
				n++
				if !strings.EqualFold(fp[1], want) {
					v.Violation("C14/advertised-fingerprint-differs-from-presented-certificate",
						"%s advertises sha-256 %s but presented a certificate whose SHA-256 is %s (certificate kind %s/%s)", side.name, fp[1], want, c.OffCert.Kind, c.AnsCert.Kind)
				}
			}
			if n == 0 {
				v.Violation("C14/no-sha256-fingerprint-advertised", "%s's local description has no sha-256 fingerprint", side.name)
			}
			v.Label("advertised-checked:" + side.name)
		}
	}

	if matches || c.VerifyDisabled {
		// expected to connect (not asserted)
		if sigErr != nil {
			v.Label("inconclusive:signal-error/matching-or-unverified")
			v.Logf("C14 %+v: %v", c, sigErr)
			return
		}
		// bounded, and ended at once by a failed/closed DTLS transport on either side: a pair that
		// is not going to connect must not cost the whole watchdog (rapid re-runs it while shrinking)
		dtlsDead := func() bool {
			for _, pc := range []*PeerConnection{pair.Off, pair.Ans} {
				if st := pc.dtlsTransport.State(); st == DTLSTransportStateFailed || st == DTLSTransportStateClosed {
					return true
				}
			}
			return false
		}
		vfFamDWaitFor(vfC14ConnectWatchdog, func() bool {
			return dtlsDead() || (pair.Off.ConnectionState() == PeerConnectionStateConnected && pair.Ans.ConnectionState() == PeerConnectionStateConnected)
		})
		if !dtlsDead() && pair.WaitConnected(0) {
			if matches {
				v.Label("match:connected")
			} else {
				v.Label("mismatch-unverified:connected")
			}
			checkAdvertised()
			if matches {
				v.NonTrivial()
			}
			if vfFamDWaitFor(3*time.Second, func() bool { _, _, _, _, _, m, _ := obs.snapshot(); return m }) {
				v.Label("message-delivered")
			}
		} else {
			_, dead, _, pcDead, _, _, _ := obs.snapshot()
			dead = dead || dtlsDead()
			checkAdvertised()
			switch {
			case matches && (dead || pcDead):
				v.Label("match:failed-observed(not asserted)")
			case matches:
				v.Label("inconclusive:match-not-connected")
			default:
				v.Label("mismatch-unverified:not-connected")
			}
		}
		return
	}

	// ---- part (ii): verification enabled, nothing matches ------------------------------------
	conclusive := ""
	if sigErr != nil {
		if se, ok := sigErr.(*vfFamDStepError); ok && strings.HasPrefix(se.Step, "SetRemoteDescription") {
			conclusive = "rejected-by-SetRemoteDescription"
		} else {
			v.Label("inconclusive:signal-error")
			v.Logf("C14 %+v: %v", c, sigErr)
			return
		}
	}
	bad := func() (string, bool) {
		dc, _, pcc, _, open, msg, track := obs.snapshot()
		switch {
		case dc || victim.dtlsTransport.State() == DTLSTransportStateConnected:
			return "dtls-connected-despite-mismatch", true
		case pcc || victim.ConnectionState() == PeerConnectionStateConnected:
			return "peerconnection-connected-despite-mismatch", true
		case open:
			return "channel-open-despite-mismatch", true
		case msg:
			return "message-delivered-despite-mismatch", true
		case track:
			return "media-delivered-despite-mismatch", true
		}
		return "", false
	}
	report := func(what string) {
		obs.mu.Lock()
		ds, ps := append([]DTLSTransportState{}, obs.dtlsStates...), append([]PeerConnectionState{}, obs.pcStates...)
		obs.mu.Unlock()
		v.Violation(class(what), "victim=%s verification enabled, applied fingerprints %v, genuine sha-256 %s: observed %s (victim DTLS states %v, PeerConnection states %v, level %s)",
			c.Victim, appliedFPs, genuine256, what, ds, ps, c.Level)
	}
	if conclusive == "" {
		vfFamDWaitFor(vfC14RejectWatchdog, func() bool {
			if _, isBad := bad(); isBad {
				return true
			}
			_, dead, _, pcDead, _, _, _ := obs.snapshot()
			return dead || pcDead
		})
		if what, isBad := bad(); isBad {
			report(what)
		}
		_, dead, _, pcDead, _, _, _ := obs.snapshot()
		switch {
		case dead:
			conclusive = "dtls-failed-observed"
		case pcDead:
			conclusive = "peerconnection-failed-observed"
		}
	}
	// a short settle: nothing may trickle in after the rejection either
	time.Sleep(20 * time.Millisecond)
	if what, isBad := bad(); isBad {
		report(what)
	}
	checkAdvertised()
	if conclusive == "" {
		v.Label("inconclusive:mismatch-no-outcome-within-watchdog")
		return
	}
	v.Label("mismatch:" + conclusive)
	v.NonTrivial()
}

// ---- generators ---------------------------------------------------------------------------

func vfC14GenCert(v *vfT, name string) vfC14Cert {
	switch rapid.SampledFrom([]string{"pool", "pool", "custom", "generated", "two", "list", "list", "list"}).Draw(v.R, name+"_kind") {
	case "list":
		// Configuration.Certificates of length 1..3, ECDSA and RSA keys in a drawn order
		perm := rapid.Permutation([]int{0, 1, 2, 3, 4, 5}).Draw(v.R, name+"_list")
		n := rapid.IntRange(1, 3).Draw(v.R, name+"_list_len")
		if rapid.Bool().Draw(v.R, name+"_rsa_first") && perm[0] < vfFamDNumEC {
			for k, idx := range perm {
				if idx >= vfFamDNumEC {
					perm[0], perm[k] = perm[k], perm[0]
					break
				}
			}
		}
		return vfC14Cert{Kind: "list", List: append([]int{}, perm[:n]...)}
	case "pool":
		return vfC14Cert{Kind: "pool", Index: rapid.IntRange(0, vfFamDNumEC+vfFamDNumRSA-1).Draw(v.R, name+"_idx")}
	case "two":
		return vfC14Cert{Kind: "two", Index: rapid.IntRange(0, vfFamDNumEC+vfFamDNumRSA-1).Draw(v.R, name+"_idx")}
	case "generated":
		return vfC14Cert{Kind: "generated"}
	default:
		return vfC14Cert{
			Kind:     "custom",
			Index:    rapid.IntRange(0, vfFamDNumEC-1).Draw(v.R, name+"_key"),
			Serial:   rapid.Int64Range(1, 1<<62).Draw(v.R, name+"_serial"),
			CN:       rapid.StringMatching(`[A-Za-z0-9 ._-]{0,24}`).Draw(v.R, name+"_cn"),
			DaysLeft: rapid.IntRange(1, 4000).Draw(v.R, name+"_days"),
		}
	}
}

var vfC14Muts = []string{
	"none", "none",
	"digit", "digit", "digit", "digit", "digit", "digit",
	"case", "label-upper", "label-sha1-genuine",
	"label-sha1-wrong-value", "label-unknown", "label-unknown", "other-cert", "other-cert", "absent",
}

func TestVerif_C14_Random(t *testing.T) {
	vfProperty(t, "C14", vfOpts{
		Rule: "random certificates (pool ECDSA/RSA, CertificateFromX509 with drawn serial/CN/validity, pion-generated, two-certificate configurations) x victim side x answering role x fingerprint edit x level x verification on/off; non-trivial = a matching description observed connected with advertised==presented compared, or a non-matching one with the conclusive rejection observed",
		Assumptions: []string{
			"a fingerprint line whose hash name is unknown cannot match any certificate",
			"the edit changes all fingerprint lines of the description alike, so 'matches no fingerprint of the applied description' is decided by the harness with crypto/sha256 and crypto/sha1",
			"connection of matching descriptions and failure of non-matching ones are bounded eventualities: watchdog expiry is counted inconclusive, never a violation",
		},
	}, func(v *vfT) vfC14Case {
		c := vfC14Case{
			OffCert:        vfC14GenCert(v, "off"),
			AnsCert:        vfC14GenCert(v, "ans"),
			Victim:         rapid.SampledFrom([]string{"answerer", "offerer"}).Draw(v.R, "victim"),
			AnsRole:        rapid.SampledFrom([]string{"", "", "client", "server"}).Draw(v.R, "ans_role"),
			Mut:            rapid.SampledFrom(vfC14Muts).Draw(v.R, "mut"),
			Level:          rapid.SampledFrom([]string{"session", "session", "media-native", "moved-to-media", "moved-to-session"}).Draw(v.R, "level"),
			VerifyDisabled: rapid.IntRange(0, 5).Draw(v.R, "verify_disabled") == 0,
			Media:          rapid.IntRange(0, 2).Draw(v.R, "media") == 0,
		}
		if c.Mut == "digit" {
			c.DigitPos = rapid.IntRange(0, 63).Draw(v.R, "digit_pos")
			c.DigitDelta = rapid.IntRange(1, 15).Draw(v.R, "digit_delta")
		}
		return c
	}, vfC14Run)
}

// Every hex digit position of the fingerprint (8 spread positions in the quick tier, all 64 in
// the thorough tier), both victim sides.
func TestVerif_C14_DigitPositions(t *testing.T) {
	positions := []int{0, 1, 15, 31, 32, 46, 62, 63}
	deltas := []int{1}
	if vfTier() == "thorough" {
		positions = positions[:0]
		for i := 0; i < 64; i++ {
			positions = append(positions, i)
		}
		deltas = []int{1, 8, 15}
	}
	var cases []vfC14Case
	for _, victim := range []string{"answerer", "offerer"} {
		for _, p := range positions {
			for _, d := range deltas {
				cases = append(cases, vfC14Case{
					OffCert: vfC14Cert{Kind: "pool", Index: p % 4}, AnsCert: vfC14Cert{Kind: "pool", Index: 4 + p%2},
					Victim: victim, Mut: "digit", DigitPos: p, DigitDelta: d, Level: "session",
				})
			}
		}
	}
	if sh, n := vfShard(); n > 1 { // the shards split the enumeration between them
		var mine []vfC14Case
		for i, c := range cases {
			if i%n == sh {
				mine = append(mine, c)
			}
		}
		cases = mine
	}
	s := vfOpen(t, "C14", vfOpts{
		Rule: "one altered hex digit at each listed position of the 64-digit sha-256 fingerprint x both victim sides (all 64 positions x 3 deltas in the thorough tier); non-trivial = conclusive rejection observed",
	}, vfC14Run)
	defer s.Close()
	s.SetSampleEvery(len(cases)/5 + 1)
	if s.Replay() {
		return
	}
	s.SetExhaustive(vfTier() == "thorough")
	s.Extra("digit_positions", len(positions))
	vfFamDParallel(len(cases), 4, func(i int) bool { return s.One(cases[i]) })
}

// ---- a foreign DTLS endpoint that presents a certificate LIST ---------------------------------
//
// pion itself always sends exactly one certificate, so a pion-vs-pion pair never shows what the
// victim does with the rest of a peer's Certificate message.  Here the victim is an ordinary
// ICE + DTLS transport (ORTC API) started with remote parameters that carry the fingerprints
// of certificate G, of A, of both or of a third one; the peer is a raw pion/dtls endpoint on
// the ICE mux that holds key A and presents [A], [A,G], [A,X,G], [A,G,X] or [A,G,G].  DTLS
// proves possession of the key of the FIRST certificate only, certificates are public, so the
// peer's certificate is A.  Oracle = part (ii): verification enabled and A's fingerprint not
// signalled => the victim is never observed DTLS connected; the conclusive good outcome is
// Start returning an error / state failed; a watchdog expiry is inconclusive.

type vfC14ChainCase struct {
	Signalled      string `json:"signalled"`     // G | A | both | neither
	Chain          string `json:"chain"`         // A | A,G | A,X,G | A,G,X | A,G,G
	VictimServer   bool   `json:"victim_server"` // victim is the DTLS server (peer = raw client) or the client
	A              int    `json:"a"`             // pool index of the peer's own certificate (0..5, 4..5 RSA)
	G              int    `json:"g"`             // pool index of the honest certificate (ECDSA 0..3)
	VerifyDisabled bool   `json:"verify_disabled,omitempty"`
}

type vfC14Half struct {
	api      *API
	gatherer *ICEGatherer
	ice      *ICETransport
	cands    []ICECandidate
	params   ICEParameters
}

func vfC14NewHalf(se func(*SettingEngine)) (*vfC14Half, error) {
	api, err := vfFamDBuildAPI(vfFamDPeer{SE: se}, nil)
	if err != nil {
		return nil, err
	}
	g, err := api.NewICEGatherer(ICEGatherOptions{})
	if err != nil {
		return nil, err
	}
	h := &vfC14Half{api: api, gatherer: g}
	done := make(chan struct{})
	var once sync.Once
	g.OnLocalCandidate(func(c *ICECandidate) {
		if c == nil {
			once.Do(func() { close(done) })
		}
	})
	if err = g.Gather(); err != nil {
		_ = g.Close()
		return nil, err
	}
	select {
	case <-done:
	case <-time.After(vfFamDGatherWatchdog):
		_ = g.Close()
		return nil, errVfFamDGatherTimeout
	}
	if h.cands, err = g.GetLocalCandidates(); err != nil {
		_ = g.Close()
		return nil, err
	}
	if h.params, err = g.GetLocalParameters(); err != nil {
		_ = g.Close()
		return nil, err
	}
	h.ice = api.NewICETransport(g)
	return h, nil
}

func vfC14ChainRun(v *vfT, c vfC14ChainCase) {
	certA := vfFamDCert(c.A)
	certG := vfFamDCertEC(c.G)
	// a third, unrelated certificate; all three distinct
	var certX Certificate
	found := 0
	for i := 0; i < vfFamDNumEC; i++ {
		cand := vfFamDCertEC(i)
		if !bytes.Equal(cand.x509Cert.Raw, certA.x509Cert.Raw) && !bytes.Equal(cand.x509Cert.Raw, certG.x509Cert.Raw) {
			certX = cand
			found++
			break
		}
	}
	if found == 0 || bytes.Equal(certA.x509Cert.Raw, certG.x509Cert.Raw) {
		v.Skip("certificates not distinct")
	}
	var chain [][]byte
	for _, n := range strings.Split(c.Chain, ",") {
		switch n {
		case "A":
			chain = append(chain, certA.x509Cert.Raw)
		case "G":
			chain = append(chain, certG.x509Cert.Raw)
		case "X":
			chain = append(chain, certX.x509Cert.Raw)
		default:
			v.Skip("bad chain")
		}
	}
	if len(chain) == 0 || !bytes.Equal(chain[0], certA.x509Cert.Raw) {
		v.Skip("the peer can only lead with the certificate whose key it holds")
	}
	fp := func(der []byte) DTLSFingerprint { return DTLSFingerprint{Algorithm: "sha-256", Value: vfC14SHA256(der)} }
	var signalled []DTLSFingerprint
	switch c.Signalled {
	case "G":
		signalled = []DTLSFingerprint{fp(certG.x509Cert.Raw)}
	case "A":
		signalled = []DTLSFingerprint{fp(certA.x509Cert.Raw)}
	case "both":
		signalled = []DTLSFingerprint{fp(certG.x509Cert.Raw), fp(certA.x509Cert.Raw)}
	case "neither":
		signalled = []DTLSFingerprint{fp(certX.x509Cert.Raw)}
	default:
		v.Skip("bad signalled")
	}
	leafMatches := c.Signalled == "A" || c.Signalled == "both"
	v.Label("chain=" + c.Chain)
	v.Label("signalled=" + c.Signalled)
	if c.VictimServer {
		v.Label("victim=dtls-server")
	} else {
		v.Label("victim=dtls-client")
	}

	victim, err := vfC14NewHalf(func(se *SettingEngine) { se.DisableCertificateFingerprintVerification(c.VerifyDisabled) })
	if err != nil {
		v.Label("inconclusive:chain/gather")
		return
	}
	peer, err := vfC14NewHalf(nil)
	if err != nil {
		_ = victim.gatherer.Close()
		v.Label("inconclusive:chain/gather")
		return
	}
	vdtls, err := victim.api.NewDTLSTransport(victim.ice, []Certificate{vfFamDCertEC(c.G + 1)})
	if err != nil {
		v.Skip("NewDTLSTransport: " + err.Error())
	}
	var smu sync.Mutex
	var states []DTLSTransportState
	vdtls.OnStateChange(func(s DTLSTransportState) {
		smu.Lock()
		states = append(states, s)
		smu.Unlock()
	})
	ctx, cancel := context.WithTimeout(context.Background(), vfC14ConnectWatchdog)
	var peerConn *dtls.Conn
	var pmu sync.Mutex
	defer func() {
		cancel()
		pmu.Lock()
		if peerConn != nil {
			_ = peerConn.Close()
		}
		pmu.Unlock()
		_ = vdtls.Stop()
		_ = victim.ice.Stop()
		_ = peer.ice.Stop()
	}()

	type res struct {
		stage string
		err   error
	}
	victimRes := make(chan res, 1)
	go func() {
		role := ICERoleControlling
		if e := victim.ice.SetRemoteCandidates(peer.cands); e != nil {
			victimRes <- res{"ice", e}
			return
		}
		if e := victim.ice.Start(nil, peer.params, &role); e != nil {
			victimRes <- res{"ice", e}
			return
		}
		remoteRole := DTLSRoleClient // the remote is client => the victim is the server
		if !c.VictimServer {
			remoteRole = DTLSRoleServer
		}
		victimRes <- res{"dtls", vdtls.Start(DTLSParameters{Role: remoteRole, Fingerprints: signalled})}
	}()
	peerRes := make(chan res, 1)
	go func() {
		role := ICERoleControlled
		if e := peer.ice.SetRemoteCandidates(victim.cands); e != nil {
			peerRes <- res{"ice", e}
			return
		}
		if e := peer.ice.Start(nil, victim.params, &role); e != nil {
			peerRes <- res{"ice", e}
			return
		}
		ep := peer.ice.newEndpoint(mux.MatchDTLS)
		presented := tls.Certificate{Certificate: chain, PrivateKey: certA.privateKey}
		shared := []dtls.Option{
			dtls.WithCertificates(presented),
			dtls.WithInsecureSkipVerify(true),
			dtls.WithSRTPProtectionProfiles(defaultSrtpProtectionProfiles()...),
		}
		var conn *dtls.Conn
		var e error
		if c.VictimServer {
			opts := make([]dtls.ClientOption, 0, len(shared))
			for _, o := range shared {
				opts = append(opts, o)
			}
			conn, e = dtls.ClientWithOptions(ep, ep.RemoteAddr(), opts...)
		} else {
			opts := make([]dtls.ServerOption, 0, len(shared))
			for _, o := range shared {
				opts = append(opts, o)
			}
			conn, e = dtls.ServerWithOptions(ep, ep.RemoteAddr(), opts...)
		}
		if e != nil {
			peerRes <- res{"dtls-config", e}
			return
		}
		pmu.Lock()
		peerConn = conn
		pmu.Unlock()
		peerRes <- res{"dtls", conn.HandshakeContext(ctx)}
	}()

	var vr res
	gotVictim := false
	select {
	case vr = <-victimRes:
		gotVictim = true
	case <-time.After(vfC14ConnectWatchdog):
	}
	time.Sleep(10 * time.Millisecond)
	smu.Lock()
	seen := append([]DTLSTransportState{}, states...)
	smu.Unlock()
	connected := vdtls.State() == DTLSTransportStateConnected
	failed := false
	for _, s := range seen {
		connected = connected || s == DTLSTransportStateConnected
		failed = failed || s == DTLSTransportStateFailed || s == DTLSTransportStateClosed
	}
	if gotVictim && vr.stage == "ice" {
		v.Label("inconclusive:chain/ice-start-error")
		return
	}
	if leafMatches || c.VerifyDisabled {
		switch {
		case connected && leafMatches:
			v.Label("chain:leaf-matches:connected")
			v.NonTrivial()
		case connected:
			v.Label("chain:unverified:connected")
		case failed:
			v.Label("chain:leaf-matches-or-unverified:failed(not asserted)")
			v.Logf("C14 chain %+v: victim start: %v", c, vr.err)
		default:
			v.Label("inconclusive:chain/no-outcome")
		}
		return
	}
	if connected || (gotVictim && vr.stage == "dtls" && vr.err == nil) {
		v.Violation("C14/dtls-connected-despite-mismatch/foreign-chain="+c.Chain,
			"the peer holds the key of certificate A only and presented the list [%s]; the remote parameters carry the fingerprint(s) of %s, not A's (A sha-256 %s, signalled %v); victim (DTLS %s) Start returned %v, states %v, state now %s",
			c.Chain, c.Signalled, vfC14SHA256(certA.x509Cert.Raw), signalled,
			map[bool]string{true: "server", false: "client"}[c.VictimServer], vr.err, seen, vdtls.State())
	}
	if failed || (gotVictim && vr.err != nil) {
		v.Label("chain:leaf-mismatch:rejected")
		v.NonTrivial()
		return
	}
	v.Label("inconclusive:chain/no-outcome")
}

func TestVerif_C14_ForeignChain(t *testing.T) {
	var cases []vfC14ChainCase
	k := 0
	for _, vs := range []bool{true, false} {
		for _, sig := range []string{"G", "A", "both", "neither"} {
			for _, ch := range []string{"A", "A,G", "A,X,G", "A,G,X", "A,G,G"} {
				k++
				c := vfC14ChainCase{Signalled: sig, Chain: ch, VictimServer: vs, A: k % 4, G: (k + 1 + k/4%2) % 4}
				if c.A == c.G {
					c.G = (c.G + 1) % 4
				}
				cases = append(cases, c)
				if vfTier() == "thorough" {
					rsa := c
					rsa.A = 4 + k%2
					cases = append(cases, rsa)
					un := c
					un.VerifyDisabled = true
					cases = append(cases, un)
				}
			}
		}
	}
	if vfTier() != "thorough" {
		// one RSA-keyed peer and one unverified victim in the quick tier as well
		cases = append(cases, vfC14ChainCase{Signalled: "G", Chain: "A,G", VictimServer: true, A: 4, G: 1},
			vfC14ChainCase{Signalled: "G", Chain: "A,G", VictimServer: false, A: 0, G: 1, VerifyDisabled: true})
	}
	if sh, n := vfShard(); n > 1 {
		var mine []vfC14ChainCase
		for i, c := range cases {
			if i%n == sh {
				mine = append(mine, c)
			}
		}
		cases = mine
	}
	s := vfOpen(t, "C14", vfOpts{
		Rule: "foreign DTLS endpoint (raw pion/dtls on the ICE mux, key of certificate A) presenting the list [A] | [A,G] | [A,X,G] | [A,G,X] | [A,G,G] x remote parameters carrying the fingerprint of G | A | both | a third certificate x victim = DTLS server | client (thorough: x RSA-keyed peer, x verification disabled); non-trivial = leaf matches and the victim connected, or leaf does not match and the rejection was observed",
		Assumptions: []string{
			"the certificate of a DTLS peer is the first one of its Certificate message (the only one whose key the handshake proves); further certificates are public data anybody can append",
		},
	}, vfC14ChainRun)
	defer s.Close()
	s.SetSampleEvery(len(cases)/5 + 1)
	if s.Replay() {
		return
	}
	s.SetExhaustive(true)
	s.Extra("foreign_chain_cases", len(cases))
	vfFamDParallel(len(cases), 4, func(i int) bool { return s.One(cases[i]) })
}
