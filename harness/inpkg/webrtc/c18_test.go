package webrtc

// C18 — Data channel stream ids are unique and follow the DTLS-role parity rule.
//
// Part 1 (live pair histories): channels are created on either side before and after SCTP is
// connected, with allocator-assigned ids, with explicit ids 0..12 (in-band or negotiated on
// both sides), closed, and created by 2..6 goroutines at once; both answering DTLS roles.
// The history is settled after every step (the new channel is open on its creator and
// announced on the other side) so that "the ids in use on this connection when pion assigned
// one" is well defined; only the bursts are concurrent (implicit ids only).
//
// Oracle, evaluated per PeerConnection after every step: for every id the PeerConnection
// assigned itself (channel created locally without explicit id): even iff the local DTLS role
// is client; != 65535; different from the id of every other live channel of that
// PeerConnection (explicit, negotiated, remote-created, allocator-assigned); and every
// channel's ID(), once non-nil, never changes.
//
// Part 2 (allocator model, in package): generateAndSetDataChannelID on an SCTPTransport whose
// used-set is pre-filled up to the top of the range; every id it returns must have the role's
// parity, be != 65535, be unused before, and never be returned twice.
//
// Domain restrictions (kept so that a duplicate can only be pion's doing): an explicit id is
// never one that any channel of the case already uses; an explicit in-band id of the *other*
// side's parity is only created after connect (settled), because before connect the other
// side cannot know it yet.

import (
	"fmt"
	"runtime"
	"sort"
	"sync"
	"sync/atomic"
	"testing"
	"time"

	"pgregory.net/rapid"
)

type vfC18Op struct {
	Kind       string `json:"kind"`                 // create | close | burst
	Side       int    `json:"side"`                 // 0 offerer, 1 answerer (creator / closer)
	Explicit   int    `json:"explicit"`             // create: -1 = allocator, else the explicit id
	Negotiated bool   `json:"negotiated,omitempty"` // create with explicit id on both sides, negotiated
	Target     int    `json:"target,omitempty"`     // close: index modulo the live channels
	N          int    `json:"n,omitempty"`          // burst: goroutines on Side (BothSides: on each side)
	BothSides  bool   `json:"both_sides,omitempty"`
}

type vfC18Case struct {
	AnsRole string    `json:"ans_role"` // "", client, server
	Pre     []vfC18Op `json:"pre"`      // creates before signalling
	Post    []vfC18Op `json:"post"`     // after SCTP is connected, settled one by one
}

// one logical channel = its end on each PeerConnection
type vfC18Chan struct {
	ends     [2]*DataChannel
	creator  int
	implicit bool // id assigned by the creator's allocator
	inband   bool
	closed   bool
	label    string
	firstID  [2]*uint16 // first non-nil ID() seen per end
}

type vfC18World struct {
	v     *vfT
	pair  *vfFamDPair
	pcs   [2]*PeerConnection
	roles [2]DTLSRole

	mu      sync.Mutex
	arrived [2][]*DataChannel // remote-created channels per side (OnDataChannel)
	chans   []*vfC18Chan
	seenIDs map[uint16]bool // every id any channel of the case has had (explicit ids avoid them)
	nlabel  int
}

const vfC18Watchdog = 15 * time.Second

func (w *vfC18World) parityOf(side int) uint16 {
	if w.roles[side] == DTLSRoleClient {
		return 0
	}
	return 1
}

// adopt matches arrived remote channels to the logical channels that miss their far end.
func (w *vfC18World) adopt() {
	w.mu.Lock()
	defer w.mu.Unlock()
	for _, ch := range w.chans {
		if !ch.inband {
			continue
		}
		far := 1 - ch.creator
		if ch.ends[far] != nil {
			continue
		}
		id := ch.ends[ch.creator].ID()
		if id == nil {
			continue
		}
		for _, d := range w.arrived[far] {
			if did := d.ID(); did != nil && *did == *id && d.Label() == ch.label {
				ch.ends[far] = d
				break
			}
		}
	}
}

// settled: every live channel is open on both ends (in-band: announced on the far side).
func (w *vfC18World) settled() bool {
	w.adopt()
	w.mu.Lock()
	defer w.mu.Unlock()
	for _, ch := range w.chans {
		if ch.closed {
			continue
		}
		for s := 0; s < 2; s++ {
			if ch.ends[s] == nil || ch.ends[s].ID() == nil || ch.ends[s].ReadyState() != DataChannelStateOpen {
				return false
			}
		}
	}
	return true
}

// check evaluates the oracle on the current state and reports. Runs on the case goroutine.
func (w *vfC18World) check(step string) {
	if class, msg := w.find(step); class != "" {
		w.v.Violation(class, "%s", msg)
	}
}

// settledOrBroken is the wait condition of every step: stop waiting as soon as the oracle
// is already broken (a duplicate id usually keeps the channels from ever opening).
func (w *vfC18World) settledOrBroken() bool {
	if w.settled() {
		return true
	}
	class, _ := w.find("probe")
	return class != ""
}

// find evaluates the oracle and returns the first broken clause ("" = none).
func (w *vfC18World) find(step string) (string, string) {
	w.adopt()
	w.mu.Lock()
	chans := append([]*vfC18Chan{}, w.chans...)
	w.mu.Unlock()
	// id stability
	for _, ch := range chans {
		for s := 0; s < 2; s++ {
			if ch.ends[s] == nil {
				continue
			}
			id := ch.ends[s].ID()
			switch {
			case ch.firstID[s] == nil && id != nil:
				cp := *id
				ch.firstID[s] = &cp
				w.mu.Lock()
				w.seenIDs[cp] = true
				w.mu.Unlock()
			case ch.firstID[s] != nil && id == nil:
				return "C18/id-changed", fmt.Sprintf("%s: channel %q end %d had id %d, ID() is nil now", step, ch.label, s, *ch.firstID[s])
			case ch.firstID[s] != nil && *id != *ch.firstID[s]:
				return "C18/id-changed", fmt.Sprintf("%s: channel %q end %d had id %d, ID() is %d now", step, ch.label, s, *ch.firstID[s], *id)
			}
		}
	}
	if w.roles[0] == DTLSRoleUnknown {
		return "", "" // roles not known yet (before connect): ids are not assigned yet either
	}
	for side := 0; side < 2; side++ {
		for _, ch := range chans {
			if !ch.implicit || ch.creator != side || ch.ends[side] == nil {
				continue
			}
			idp := ch.ends[side].ID()
			if idp == nil {
				continue
			}
			id := *idp
			if id%2 != w.parityOf(side) {
				return fmt.Sprintf("C18/parity/role=%s", w.roles[side]), fmt.Sprintf("%s: side %d (DTLS %s) assigned id %d to channel %q", step, side, w.roles[side], id, ch.label)
			}
			if id == 65535 {
				return "C18/id-65535", fmt.Sprintf("%s: side %d assigned id 65535 to channel %q", step, side, ch.label)
			}
			if ch.closed {
				continue
			}
			for _, other := range chans {
				if other == ch || other.closed || other.ends[side] == nil {
					continue
				}
				oid := other.ends[side].ID()
				if oid == nil || *oid != id {
					continue
				}
				origin := "remote-created"
				switch {
				case other.creator == side && other.implicit:
					origin = "allocator-assigned"
				case other.creator == side || !other.inband:
					origin = "explicit"
				}
				return "C18/duplicate-id/other=" + origin, fmt.Sprintf("%s: side %d (DTLS %s) assigned id %d to channel %q although %s channel %q of the same PeerConnection has it",
					step, side, w.roles[side], id, ch.label, origin, other.label)
			}
		}
	}
	return "", ""
}

func (w *vfC18World) newLabel(prefix string) string {
	w.mu.Lock()
	defer w.mu.Unlock()
	w.nlabel++
	return fmt.Sprintf("%s%d", prefix, w.nlabel)
}

// create performs one create step; returns false when the step is outside the domain (skipped).
func (w *vfC18World) create(op vfC18Op, preConnect bool) bool {
	v := w.v
	side := op.Side & 1
	label := w.newLabel("ch")
	if op.Explicit < 0 {
		d, err := w.pcs[side].CreateDataChannel(label, nil)
		if err != nil {
			v.Label("create-error:implicit")
			v.Logf("C18 CreateDataChannel: %v", err)
			return false
		}
		w.mu.Lock()
		ch := &vfC18Chan{creator: side, implicit: true, inband: true, label: label}
		ch.ends[side] = d
		w.chans = append(w.chans, ch)
		w.mu.Unlock()
		return true
	}
	id := uint16(op.Explicit)
	w.mu.Lock()
	used := w.seenIDs[id]
	w.mu.Unlock()
	if used {
		v.Label("skipped-op:explicit-id-already-used")
		return false
	}
	if op.Negotiated {
		neg := true
		var ends [2]*DataChannel
		for s := 0; s < 2; s++ {
			idc := id
			d, err := w.pcs[s].CreateDataChannel(label, &DataChannelInit{ID: &idc, Negotiated: &neg})
			if err != nil {
				v.Label("create-error:negotiated")
				return false
			}
			ends[s] = d
		}
		w.mu.Lock()
		w.chans = append(w.chans, &vfC18Chan{ends: ends, creator: side, label: label})
		w.seenIDs[id] = true
		w.mu.Unlock()
		v.Label("explicit-negotiated")
		return true
	}
	// explicit in-band
	if preConnect {
		// the far side cannot know this id before connect: keep it in the creator's own parity
		ansParity := uint16(0) // answerer is DTLS client unless configured server
		if w.ansRoleServer() {
			ansParity = 1
		}
		own := ansParity
		if side == 0 {
			own = 1 - ansParity
		}
		if id%2 != own {
			v.Label("skipped-op:pre-connect-explicit-id-of-far-parity")
			return false
		}
	}
	idc := id
	d, err := w.pcs[side].CreateDataChannel(label, &DataChannelInit{ID: &idc})
	if err != nil {
		v.Label("create-error:explicit")
		return false
	}
	w.mu.Lock()
	ch := &vfC18Chan{creator: side, inband: true, label: label}
	ch.ends[side] = d
	w.chans = append(w.chans, ch)
	w.seenIDs[id] = true
	w.mu.Unlock()
	v.Label("explicit-inband")
	return true
}

func (w *vfC18World) ansRoleServer() bool {
	return w.pair.Ans.api.settingEngine.answeringDTLSRole == DTLSRoleServer
}

func vfC18Run(v *vfT, c vfC18Case) {
	ans := vfFamDPeer{SE: func(se *SettingEngine) {
		switch c.AnsRole {
		case "client":
			_ = se.SetAnsweringDTLSRole(DTLSRoleClient)
		case "server":
			_ = se.SetAnsweringDTLSRole(DTLSRoleServer)
		}
	}}
	pair, err := vfFamDNewPair(vfFamDPeer{}, ans, 0)
	if err != nil {
		v.Skip("pair construction failed: " + err.Error())
	}
	defer pair.Close()
	w := &vfC18World{v: v, pair: pair, pcs: [2]*PeerConnection{pair.Off, pair.Ans}, seenIDs: map[uint16]bool{}}
	for s := 0; s < 2; s++ {
		s := s
		w.pcs[s].OnDataChannel(func(d *DataChannel) {
			w.mu.Lock()
			w.arrived[s] = append(w.arrived[s], d)
			w.mu.Unlock()
		})
	}
	// the offer needs a data section: one allocator-assigned channel on the offerer first
	if !w.create(vfC18Op{Kind: "create", Side: 0, Explicit: -1}, true) {
		v.Skip("base channel could not be created")
	}
	for _, op := range c.Pre {
		if op.Kind == "create" {
			w.create(op, true)
			w.check("pre-connect")
		}
	}
	if err = pair.Signal(nil, nil); err != nil {
		v.Label("inconclusive:signal-error")
		v.Logf("C18: %v", err)
		return
	}
	if !pair.WaitConnected(vfC18Watchdog) {
		v.Label("inconclusive:not-connected")
		return
	}
	w.roles[0], w.roles[1] = vfFamDDTLSRole(pair.Off), vfFamDDTLSRole(pair.Ans)
	if w.roles[0] == w.roles[1] || (w.roles[0] != DTLSRoleClient && w.roles[0] != DTLSRoleServer) {
		v.Label("inconclusive:dtls-roles-" + w.roles[0].String() + "-" + w.roles[1].String())
		return
	}
	if (w.roles[1] == DTLSRoleServer) != w.ansRoleServer() {
		// the pre-connect parity restriction was computed for the other role (C13 owns that question)
		v.Label("inconclusive:answerer-role-not-as-configured")
		return
	}
	v.Label("answerer-dtls-" + w.roles[1].String())
	if !vfFamDWaitFor(vfC18Watchdog, w.settledOrBroken) {
		w.check("after-connect(unsettled)")
		v.Label("inconclusive:pre-connect-channels-not-all-open")
		return
	}
	w.check("after-connect")

	bursts := 0
	for i, op := range c.Post {
		step := fmt.Sprintf("post[%d]=%s", i, op.Kind)
		switch op.Kind {
		case "create":
			if !w.create(op, false) {
				continue
			}
		case "close":
			w.mu.Lock()
			var live []*vfC18Chan
			for _, ch := range w.chans {
				if !ch.closed {
					live = append(live, ch)
				}
			}
			w.mu.Unlock()
			if len(live) <= 1 {
				v.Label("skipped-op:close-with-one-live-channel")
				continue
			}
			t := op.Target
			if t < 0 {
				t = -t
			}
			ch := live[t%len(live)]
			_ = ch.ends[op.Side&1].Close()
			if !ch.inband {
				_ = ch.ends[1-op.Side&1].Close()
			}
			ok := vfFamDWaitFor(vfC18Watchdog, func() bool {
				return ch.ends[0].ReadyState() == DataChannelStateClosed && ch.ends[1].ReadyState() == DataChannelStateClosed
			})
			ch.closed = true
			if !ok {
				w.check(step)
				v.Label("inconclusive:close-not-completed")
				return
			}
			v.Label("closed-a-channel")
		case "burst":
			n := op.N
			if n < 2 {
				n = 2
			}
			if n > 6 {
				n = 6
			}
			sides := []int{op.Side & 1}
			if op.BothSides {
				sides = []int{0, 1}
			}
			var wg sync.WaitGroup
			start := make(chan struct{})
			for _, s := range sides {
				for k := 0; k < n; k++ {
					label := w.newLabel(fmt.Sprintf("burst%d-", s))
					wg.Add(1)
					go func(s int, label string) {
						defer wg.Done()
						<-start
						d, cerr := w.pcs[s].CreateDataChannel(label, nil)
						if cerr != nil {
							return
						}
						w.mu.Lock()
						ch := &vfC18Chan{creator: s, implicit: true, inband: true, label: label}
						ch.ends[s] = d
						w.chans = append(w.chans, ch)
						w.mu.Unlock()
					}(s, label)
				}
			}
			close(start)
			wg.Wait()
			bursts++
			v.Label("burst")
		default:
			continue
		}
		if !vfFamDWaitFor(vfC18Watchdog, w.settledOrBroken) {
			w.check(step + "(unsettled)")
			v.Label("inconclusive:step-not-settled")
			return
		}
		w.check(step)
	}

	// non-triviality: the allocator of some side had to step over an id in use, or raced
	stepped := false
	for side := 0; side < 2; side++ {
		var foreign, own []int
		for _, ch := range w.chans {
			if ch.ends[side] == nil || ch.ends[side].ID() == nil {
				continue
			}
			id := int(*ch.ends[side].ID())
			if ch.implicit && ch.creator == side {
				own = append(own, id)
			} else if uint16(id)%2 == w.parityOf(side) {
				foreign = append(foreign, id)
			}
		}
		sort.Ints(own)
		for _, f := range foreign {
			if len(own) > 0 && own[len(own)-1] > f {
				stepped = true
			}
		}
	}
	if stepped {
		v.Label("allocator-stepped-over-used-id")
	}
	if stepped || bursts > 0 {
		v.NonTrivial()
	}
	v.Label(fmt.Sprintf("channels=%d", (len(w.chans)+3)/4*4))
}

func vfC18GenCreate(v *vfT, name string) vfC18Op {
	op := vfC18Op{Kind: "create", Side: rapid.IntRange(0, 1).Draw(v.R, name+"_side"), Explicit: -1}
	switch rapid.IntRange(0, 9).Draw(v.R, name+"_how") {
	case 0, 1, 2:
		op.Explicit = rapid.IntRange(0, 12).Draw(v.R, name+"_id")
	case 3:
		op.Explicit = rapid.IntRange(0, 12).Draw(v.R, name+"_id")
		op.Negotiated = true
	}
	return op
}

func TestVerif_C18_Histories(t *testing.T) {
	vfProperty(t, "C18", vfOpts{
		Rule: "pair histories: 0..4 creates before connect, 1..8 settled steps after connect (create with allocator id / explicit id 0..12 in-band or negotiated, close, burst of 2..6 concurrent creates on one or both sides), answering DTLS role unset/client/server; non-trivial = some allocator had to step over an id already in use on its PeerConnection (explicit or remote-created, same parity) or a concurrent burst ran",
		Assumptions: []string{
			"an explicit id never repeats an id any channel of the case has had (a duplicate caused by the caller is not pion's assignment)",
			"before connect an explicit in-band id has its creator's parity (the far side cannot know it before SCTP is up)",
			"uniqueness is evaluated among live channels of one PeerConnection; closed channels are not compared",
			"steps are settled (open on both ends) with 15 s watchdogs; expiry ends the case as inconclusive",
		},
	}, func(v *vfT) vfC18Case {
		c := vfC18Case{AnsRole: rapid.SampledFrom([]string{"", "client", "server", "server"}).Draw(v.R, "ans_role")}
		for i, n := 0, rapid.IntRange(0, 4).Draw(v.R, "npre"); i < n; i++ {
			c.Pre = append(c.Pre, vfC18GenCreate(v, "pre"))
		}
		for i, n := 0, rapid.IntRange(1, 8).Draw(v.R, "npost"); i < n; i++ {
			switch rapid.IntRange(0, 9).Draw(v.R, "post_kind") {
			case 0, 1:
				c.Post = append(c.Post, vfC18Op{Kind: "close", Side: rapid.IntRange(0, 1).Draw(v.R, "close_side"), Target: rapid.IntRange(0, 15).Draw(v.R, "close_target"), Explicit: -1})
			case 2, 3:
				c.Post = append(c.Post, vfC18Op{Kind: "burst", Side: rapid.IntRange(0, 1).Draw(v.R, "burst_side"), N: rapid.IntRange(2, 6).Draw(v.R, "burst_n"),
					BothSides: rapid.Bool().Draw(v.R, "burst_both"), Explicit: -1})
			default:
				c.Post = append(c.Post, vfC18GenCreate(v, "post"))
			}
		}
		return c
	}, vfC18Run)
}

// ---- Part 2: allocator model near the top of the id range -----------------------------------

type vfC18AllocCase struct {
	Server   bool  `json:"server"`     // DTLS role passed to the allocator
	FillTo   int   `json:"fill_to"`    // every id < FillTo is in use
	ExtraUse []int `json:"extra_used"` // additional used ids (offsets added to FillTo, clipped to 65535)
	Calls    int   `json:"calls"`
}

func vfC18AllocRun(v *vfT, c vfC18AllocCase) {
	api := NewAPI()
	r := api.NewSCTPTransport(nil)
	used := map[uint16]bool{}
	for id := 0; id < c.FillTo && id <= 65535; id++ {
		used[uint16(id)] = true
	}
	for _, off := range c.ExtraUse {
		if id := c.FillTo + off; id >= 0 && id <= 65535 {
			used[uint16(id)] = true
		}
	}
	r.lock.Lock()
	for id := range used {
		r.dataChannelIDsUsed[id] = struct{}{}
	}
	r.lock.Unlock()
	role := DTLSRoleClient
	wantParity := uint16(0)
	if c.Server {
		role, wantParity = DTLSRoleServer, 1
	}
	got := map[uint16]bool{}
	failed := false
	for k := 0; k < c.Calls; k++ {
		type res struct {
			id  *uint16
			err error
		}
		done := make(chan res, 1)
		go func() {
			var id *uint16
			err := r.generateAndSetDataChannelID(role, &id)
			done <- res{id, err}
		}()
		var out res
		select {
		case out = <-done:
		case <-time.After(20 * time.Second):
			// a pure in-memory loop over at most 32768 candidates; not decided here
			v.Label("inconclusive:allocator-did-not-return")
			return
		}
		if out.err != nil {
			failed = true
			// is a valid id still free? (not asserted: the statement does not promise exhaustion)
			free := false
			for id := int(wantParity); id < 65535; id += 2 {
				if !used[uint16(id)] && !got[uint16(id)] {
					free = true
				}
			}
			if free {
				v.Label("alloc-failed-with-free-id(not asserted)")
			} else {
				v.Label("alloc-failed-range-exhausted")
			}
			continue
		}
		if failed {
			v.Label("alloc-succeeded-after-failure")
		}
		if out.id == nil {
			v.Violation("C18/alloc/nil-id-without-error", "call %d returned neither an id nor an error", k)
		}
		id := *out.id
		if id == 65535 {
			v.Violation("C18/alloc/id-65535", "call %d (role %s, ids < %d used) returned 65535", k, role, c.FillTo)
		}
		if id%2 != wantParity {
			v.Violation(fmt.Sprintf("C18/alloc/parity/role=%s", role), "call %d returned id %d for DTLS role %s", k, id, role)
		}
		if used[id] {
			v.Violation("C18/alloc/returned-used-id", "call %d returned id %d which was already in use (pre-filled)", k, id)
		}
		if got[id] {
			v.Violation("C18/alloc/returned-id-twice", "call %d returned id %d a second time", k, id)
		}
		got[id] = true
		if id >= 65500 {
			v.Label("alloc-top-of-range")
		}
	}
	if len(got) > 0 && failed {
		v.NonTrivial() // walked into the end of the range
	}
	if len(got) > 1 {
		v.Label("alloc-multi")
	}
}

func TestVerif_C18_AllocatorModel(t *testing.T) {
	vfProperty(t, "C18", vfOpts{
		Rule: "allocator model: used-set pre-filled below a point in 65400..65535 plus up to 12 scattered ids above it, 1..80 consecutive allocations for one role; non-trivial = at least one id was handed out and the end of the range was reached",
	}, func(v *vfT) vfC18AllocCase {
		c := vfC18AllocCase{
			Server: rapid.Bool().Draw(v.R, "server"),
			FillTo: rapid.IntRange(65400, 65535).Draw(v.R, "fill_to"),
			Calls:  rapid.IntRange(1, 80).Draw(v.R, "calls"),
		}
		for i, n := 0, rapid.IntRange(0, 12).Draw(v.R, "nextra"); i < n; i++ {
			c.ExtraUse = append(c.ExtraUse, rapid.IntRange(0, 140).Draw(v.R, "extra"))
		}
		return c
	}, vfC18AllocRun)
}

// ---- Part 3: one id-less channel opened from both library paths at once ----------------------
//
// The library opens a locally created channel from two places: PeerConnection.CreateDataChannel
// (opens it itself when SCTP is already connected) and SCTPTransport.Start (opens every
// registered channel that is still connecting).  An application that creates a channel at the
// moment SCTP comes up has both run on the same channel.  The harness owns that schedule: on a
// connected pair it registers an id-less channel exactly as CreateDataChannel does, holds the
// transport's read lock while it starts the two openers (so that the first is parked at the id
// allocation and the second right behind it), releases, and samples the public ID() all the
// time.  Plain and explicit-id creations are mixed in; a few channels are also created from the
// OnConnectionStateChange(connected) callback (the natural, low-hit-rate form of the race).
//
// Oracle (statement): once ID() has returned a value it never returns another one; the stream
// id the far side is told for the channel (DCEP open) is the id ID() reports.  The number of ids
// the transport reserved per channel and the number of channels announced remotely are counted.

type vfC18RaceOp struct {
	Kind       string `json:"kind"`        // race | plain | explicit
	StartFirst bool   `json:"start_first"` // race: the SCTPTransport.Start path is launched first
	GapUs      int    `json:"gap_us"`      // race: pause between launching the two openers
	Explicit   int    `json:"explicit"`    // explicit: the id (skipped when already in use)
}

type vfC18RaceCase struct {
	AnsRole   string        `json:"ans_role"`
	Side      int           `json:"side"`       // PeerConnection on which the channels are created
	AtConnect int           `json:"at_connect"` // channels created from OnConnectionStateChange(connected) on that side
	Ops       []vfC18RaceOp `json:"ops"`
}

type vfC18Sampler struct {
	dc   *DataChannel
	seen []uint16
	stop atomic.Bool
	done chan struct{}
}

func vfC18StartSampler(dc *DataChannel) *vfC18Sampler {
	sm := &vfC18Sampler{dc: dc, done: make(chan struct{})}
	go func() {
		defer close(sm.done)
		for {
			if id := dc.ID(); id != nil && (len(sm.seen) == 0 || sm.seen[len(sm.seen)-1] != *id) {
				sm.seen = append(sm.seen, *id)
			}
			if sm.stop.Load() {
				return
			}
			runtime.Gosched()
		}
	}()
	return sm
}

func (sm *vfC18Sampler) finish() []uint16 {
	sm.stop.Store(true)
	<-sm.done
	if id := sm.dc.ID(); id != nil && (len(sm.seen) == 0 || sm.seen[len(sm.seen)-1] != *id) {
		sm.seen = append(sm.seen, *id)
	}
	return sm.seen
}

func vfC18RaceRun(v *vfT, c vfC18RaceCase) {
	ans := vfFamDPeer{SE: func(se *SettingEngine) {
		switch c.AnsRole {
		case "client":
			_ = se.SetAnsweringDTLSRole(DTLSRoleClient)
		case "server":
			_ = se.SetAnsweringDTLSRole(DTLSRoleServer)
		}
	}}
	pair, err := vfFamDNewPair(vfFamDPeer{}, ans, 0)
	if err != nil {
		v.Skip("pair construction failed: " + err.Error())
	}
	// A channel that was opened twice has two read loops; closing it can crash the process from
	// a background goroutine.  When the oracle is broken the pair is deliberately left alone.
	leak := false
	defer func() {
		if !leak {
			pair.Close()
		}
	}()
	side := c.Side & 1
	pcs := [2]*PeerConnection{pair.Off, pair.Ans}
	pc, far := pcs[side], pcs[1-side]
	tr := pc.sctpTransport

	var amu sync.Mutex
	var arrived []*DataChannel
	far.OnDataChannel(func(d *DataChannel) {
		amu.Lock()
		arrived = append(arrived, d)
		amu.Unlock()
	})
	type tracked struct {
		dc      *DataChannel
		label   string
		sampler *vfC18Sampler
		kind    string
	}
	var tmu sync.Mutex
	var all []*tracked
	fail := func(class, format string, args ...any) {
		leak = true
		v.Violation(class, format, args...)
	}

	// the natural form: create from the connected callback
	if c.AtConnect > 0 {
		var once sync.Once
		pc.OnConnectionStateChange(func(s PeerConnectionState) {
			if s != PeerConnectionStateConnected {
				return
			}
			once.Do(func() {
				for k := 0; k < c.AtConnect && k < 4; k++ {
					label := fmt.Sprintf("atconnect-%d", k)
					d, cerr := pc.CreateDataChannel(label, nil)
					if cerr != nil {
						continue
					}
					t := &tracked{dc: d, label: label, kind: "at-connect", sampler: vfC18StartSampler(d)}
					tmu.Lock()
					all = append(all, t)
					tmu.Unlock()
				}
			})
		})
		v.Label("race:create-from-connected-callback")
	}
	if _, err = pair.Off.CreateDataChannel("vf-base", nil); err != nil {
		v.Skip("CreateDataChannel(base): " + err.Error())
	}
	if err = pair.Signal(nil, nil); err != nil {
		v.Label("inconclusive:race/signal-error")
		return
	}
	if !pair.WaitConnected(vfC18Watchdog) || !vfFamDWaitFor(vfC18Watchdog, func() bool { return tr.State() == SCTPTransportStateConnected }) {
		v.Label("inconclusive:race/not-connected")
		return
	}
	reserved := func() int {
		tr.lock.RLock()
		defer tr.lock.RUnlock()
		return len(tr.dataChannelIDsUsed)
	}
	inUse := func(id uint16) bool {
		tr.lock.RLock()
		defer tr.lock.RUnlock()
		_, ok := tr.dataChannelIDsUsed[id]
		return ok
	}

	for i, op := range c.Ops {
		label := fmt.Sprintf("%s-%d", op.Kind, i)
		before := reserved()
		var t *tracked
		switch op.Kind {
		case "plain":
			d, cerr := pc.CreateDataChannel(label, nil)
			if cerr != nil {
				v.Label("race:create-error")
				continue
			}
			t = &tracked{dc: d, label: label, kind: "plain", sampler: vfC18StartSampler(d)}
		case "explicit":
			id := uint16(op.Explicit)
			if inUse(id) {
				v.Label("skipped-op:explicit-id-already-used")
				continue
			}
			d, cerr := pc.CreateDataChannel(label, &DataChannelInit{ID: &id})
			if cerr != nil {
				v.Label("race:create-error")
				continue
			}
			t = &tracked{dc: d, label: label, kind: "explicit", sampler: vfC18StartSampler(d)}
		case "race":
			// the steps of CreateDataChannel up to, not including, its open call
			d, cerr := pc.api.newDataChannel(&DataChannelParameters{Label: label, Ordered: true}, nil, pc.log)
			if cerr != nil {
				v.Skip("newDataChannel: " + cerr.Error())
			}
			tr.lock.Lock()
			tr.dataChannels = append(tr.dataChannels, d)
			tr.dataChannelsRequested++
			tr.lock.Unlock()
			t = &tracked{dc: d, label: label, kind: "race", sampler: vfC18StartSampler(d)}
			createPath := func() { _ = d.open(tr) }
			startPath := func() {
				if d.ReadyState() == DataChannelStateConnecting {
					_ = d.open(tr)
				}
			}
			first, second := createPath, startPath
			if op.StartFirst {
				first, second = startPath, createPath
			}
			gap := time.Duration(op.GapUs) * time.Microsecond
			var wg sync.WaitGroup
			wg.Add(2)
			tr.lock.RLock() // shapes the interleaving only: id allocation needs the write lock
			go func() { defer wg.Done(); first() }()
			time.Sleep(gap)
			go func() { defer wg.Done(); second() }()
			time.Sleep(gap)
			tr.lock.RUnlock()
			wg.Wait()
			v.Label("race:two-openers")
		default:
			continue
		}
		tmu.Lock()
		all = append(all, t)
		tmu.Unlock()
		opened := vfFamDWaitFor(vfC18Watchdog, func() bool {
			return t.dc.ID() != nil && t.dc.ReadyState() == DataChannelStateOpen
		})
		if !opened {
			v.Label("inconclusive:race/channel-not-open")
			break
		}
		if grew := reserved() - before; grew != 1 {
			v.Label(fmt.Sprintf("note:transport-reserved-%d-ids-for-one-channel", grew))
		}
	}

	// settle: every tracked channel announced on the far side (bounded), then evaluate
	tmu.Lock()
	chans := append([]*tracked{}, all...)
	tmu.Unlock()
	vfFamDWaitFor(2*time.Second, func() bool {
		amu.Lock()
		defer amu.Unlock()
		for _, t := range chans {
			found := false
			for _, d := range arrived {
				found = found || d.Label() == t.label
			}
			if !found {
				return false
			}
		}
		return true
	})
	for _, t := range chans {
		seen := t.sampler.finish()
		if len(seen) > 1 {
			fail("C18/id-changed", "%s channel %q on side %d: ID() returned %v in this order (DTLS role %s)", t.kind, t.label, side, seen, vfFamDDTLSRole(pc))
		}
		idp := t.dc.ID()
		if idp == nil {
			v.Label("inconclusive:race/id-never-set")
			continue
		}
		amu.Lock()
		var farIDs []uint16
		for _, d := range arrived {
			if d.Label() == t.label {
				if fid := d.ID(); fid != nil {
					farIDs = append(farIDs, *fid)
				}
			}
		}
		amu.Unlock()
		for _, fid := range farIDs {
			if fid != *idp {
				// the channel was dialed on stream fid (that is what the far side was told), so ID() was fid then
				fail("C18/id-changed", "%s channel %q on side %d: the far side was told stream id(s) %v for it, ID() now reports %d", t.kind, t.label, side, farIDs, *idp)
			}
		}
		if len(farIDs) > 1 {
			v.Label("note:far-side-saw-several-channels-for-one")
		}
		if len(farIDs) == 1 {
			v.Label("race:id-stable-and-equal-to-announced")
		}
	}
	if len(chans) >= 2 {
		v.NonTrivial()
	}
}

func TestVerif_C18_RacingOpen(t *testing.T) {
	vfProperty(t, "C18", vfOpts{
		Rule: "connected pair; 2..8 channel creations on one side: id-less channel registered as CreateDataChannel does and opened from the CreateDataChannel path and the SCTPTransport.Start path at once (order and gap drawn, transport read lock held while both are launched), mixed with plain and explicit-id CreateDataChannel calls, plus 0..3 channels created from OnConnectionStateChange(connected); ID() sampled continuously; non-trivial = at least two channels tracked to the end",
		Assumptions: []string{
			"both openers are the library's own call sites for a locally created channel (CreateDataChannel when SCTP is connected, SCTPTransport.Start for channels still connecting); holding the transport's read lock only shapes their interleaving",
			"the stream id the far side is told for a channel is the value ID() had when the channel was dialed",
		},
	}, func(v *vfT) vfC18RaceCase {
		c := vfC18RaceCase{
			AnsRole:   rapid.SampledFrom([]string{"", "client", "server"}).Draw(v.R, "ans_role"),
			Side:      rapid.IntRange(0, 1).Draw(v.R, "side"),
			AtConnect: rapid.SampledFrom([]int{0, 0, 1, 3}).Draw(v.R, "at_connect"),
		}
		for i, n := 0, rapid.IntRange(2, 8).Draw(v.R, "nops"); i < n; i++ {
			switch rapid.IntRange(0, 5).Draw(v.R, "op") {
			case 0:
				c.Ops = append(c.Ops, vfC18RaceOp{Kind: "plain"})
			case 1:
				c.Ops = append(c.Ops, vfC18RaceOp{Kind: "explicit", Explicit: rapid.IntRange(0, 40).Draw(v.R, "explicit")})
			default:
				c.Ops = append(c.Ops, vfC18RaceOp{Kind: "race", StartFirst: rapid.Bool().Draw(v.R, "start_first"),
					GapUs: rapid.SampledFrom([]int{200, 1000, 3000}).Draw(v.R, "gap_us")})
			}
		}
		return c
	}, vfC18RaceRun)
}
