package webrtc

// Connected-pair helper shared by the schedule / close / crash checks (C20, C21, C30, C40).
// Identifiers are prefixed vfPair.

import (
	"fmt"
	"time"
)

// vfPairAPI returns an API restricted to UDP4 host candidates (loopback included, mDNS off)
// so that a pair connects in milliseconds on this machine.
func vfPairAPI(mod func(*SettingEngine), me *MediaEngine) *API {
	se := SettingEngine{}
	se.SetIncludeLoopbackCandidate(true)
	se.SetNetworkTypes([]NetworkType{NetworkTypeUDP4})
	se.SetICEMulticastDNSMode(0) // ice.MulticastDNSModeDisabled
	if mod != nil {
		mod(&se)
	}
	opts := []func(*API){WithSettingEngine(se)}
	if me != nil {
		opts = append(opts, WithMediaEngine(me))
	}
	return NewAPI(opts...)
}

// vfPairSignal performs one non-trickle offer/answer exchange (offerer -> answerer).
func vfPairSignal(offerer, answerer *PeerConnection, munge func(sdp string, isOffer bool) string) error {
	offer, err := offerer.CreateOffer(nil)
	if err != nil {
		return fmt.Errorf("CreateOffer: %w", err)
	}
	done := GatheringCompletePromise(offerer)
	if err = offerer.SetLocalDescription(offer); err != nil {
		return fmt.Errorf("SetLocalDescription(offer): %w", err)
	}
	select {
	case <-done:
	case <-time.After(10 * time.Second):
		return fmt.Errorf("offerer gathering did not complete")
	}
	o := *offerer.LocalDescription()
	if munge != nil {
		o.SDP = munge(o.SDP, true)
	}
	if err = answerer.SetRemoteDescription(o); err != nil {
		return fmt.Errorf("SetRemoteDescription(offer): %w", err)
	}
	answer, err := answerer.CreateAnswer(nil)
	if err != nil {
		return fmt.Errorf("CreateAnswer: %w", err)
	}
	done = GatheringCompletePromise(answerer)
	if err = answerer.SetLocalDescription(answer); err != nil {
		return fmt.Errorf("SetLocalDescription(answer): %w", err)
	}
	select {
	case <-done:
	case <-time.After(10 * time.Second):
		return fmt.Errorf("answerer gathering did not complete")
	}
	a := *answerer.LocalDescription()
	if munge != nil {
		a.SDP = munge(a.SDP, false)
	}
	if err = offerer.SetRemoteDescription(a); err != nil {
		return fmt.Errorf("SetRemoteDescription(answer): %w", err)
	}
	return nil
}

// vfPairWait polls cond until it holds or the timeout expires.
func vfPairWait(timeout time.Duration, cond func() bool) bool {
	deadline := time.Now().Add(timeout)
	for {
		if cond() {
			return true
		}
		if time.Now().After(deadline) {
			return false
		}
		time.Sleep(200 * time.Microsecond)
	}
}
