package webrtc

// C25 — ICE candidates round-trip through their signalling form.
//
// A case describes one candidate (type, transport, address, port, component, priority,
// foundation, related address, TCP type, extension list). It is built with pion/ice's own
// constructors (so it is a candidate pion can represent), converted with
// newICECandidateFromICE and serialised with ToJSON().
//
// Oracle 1 (differential against the trusted dependency): ice.UnmarshalCandidate applied to
// the signalled string (minus "candidate:") yields the same foundation, component,
// transport, priority, address, port, type, related address/port, TCP type and the same
// extension list in order as the candidate the case was built from.
// Oracle 2: AddICECandidate(ToJSON()) on a PeerConnection with an applied remote description
// returns nil; when the candidate carries a ufrag extension that names no ufrag of that
// description it returns nil and the candidate never reaches the ICE agent (a sentinel
// candidate added afterwards does).

import (
	"fmt"
	"strings"
	"sync"
	"testing"
	"time"

	"github.com/pion/ice/v4"
	"github.com/pion/logging"
	"github.com/pion/transport/v4/vnet"
	"pgregory.net/rapid"
)

type vfC25Ext struct {
	K string `json:"k"`
	V string `json:"v"`
}

type vfC25Case struct {
	Typ     string     `json:"typ"` // host | srflx | prflx | relay
	Net     string     `json:"net"` // udp | tcp
	Addr    string     `json:"addr"`
	Port    int        `json:"port"`
	Comp    uint16     `json:"comp"`
	Prio    uint32     `json:"prio"`
	Found   string     `json:"found"`
	RelAddr string     `json:"rel_addr"`
	RelPort int        `json:"rel_port"`
	TCPType string     `json:"tcp_type"` // "" | active | passive | so (tcp only)
	Exts    []vfC25Ext `json:"exts"`
	Mid     string     `json:"mid"`
	MLine   uint16     `json:"mline"`
	// AddICECandidate part: 0 = no ufrag extension, 1 = the remote description's ufrag,
	// 2 = a foreign ufrag, 3 = an empty ufrag value
	// 4 = the ufrag of the previous generation (the CURRENT remote description while an
	// ICE-restart offer is pending; simply foreign when there is no history)
	Ufrag      int  `json:"ufrag"`
	UfragMedia bool `json:"ufrag_media"` // remote description carries its ufrag at media level
	// History: 0 = fresh PeerConnection with one applied remote offer; 1 = a first exchange
	// (offer with the old credentials, answer created and applied) completed, then an
	// ICE-restart offer with new ufrag/pwd applied and not yet answered (have-remote-offer:
	// pending and current remote descriptions differ)
	History int `json:"history,omitempty"`
}

const (
	vfC25RemoteUfrag = "vfCtwentyfiveUfrag"    // ufrag of the remote description in force
	vfC25OldUfrag    = "vfCtwentyfiveOldGen"   // ufrag of the previous generation (history 1)
	vfC25Sentinel    = "candidate:4077567720 1 udp 2130706431 192.0.2.77 47777 typ host"
)

func vfC25Offer(mediaLevel bool, ufrag, pwd string, version int) string {
	creds := "a=ice-ufrag:" + ufrag + "\r\na=ice-pwd:" + pwd + "\r\n"
	s := fmt.Sprintf("v=0\r\no=- 4596489990601351948 %d IN IP4 127.0.0.1\r\ns=-\r\nt=0 0\r\n", version) +
		"a=fingerprint:sha-256 0F:74:31:25:CB:A2:13:EC:28:6F:6D:2C:61:FF:5D:C2:BC:B9:DB:3D:98:14:8D:1A:BB:EA:33:0C:A4:60:A8:8E\r\n" +
		"a=group:BUNDLE 0\r\n"
	if !mediaLevel {
		s += creds
	}
	s += "m=application 9 UDP/DTLS/SCTP webrtc-datachannel\r\nc=IN IP4 0.0.0.0\r\na=setup:actpass\r\na=mid:0\r\na=sctp-port:5000\r\n"
	if mediaLevel {
		s += creds
	}
	return s
}

// vfC25Build constructs the ice.Candidate the case denotes; ok=false when pion/ice's
// constructor refuses the description (not a candidate pion can represent).
func vfC25Build(c vfC25Case, withUfrag bool) (ice.Candidate, error) {
	var cand ice.Candidate
	var err error
	switch c.Typ {
	case "host":
		cand, err = ice.NewCandidateHost(&ice.CandidateHostConfig{Network: c.Net, Address: c.Addr, Port: c.Port, Component: c.Comp,
			Priority: c.Prio, Foundation: c.Found, TCPType: ice.NewTCPType(c.TCPType)})
	case "srflx":
		cand, err = ice.NewCandidateServerReflexive(&ice.CandidateServerReflexiveConfig{Network: c.Net, Address: c.Addr, Port: c.Port, Component: c.Comp,
			Priority: c.Prio, Foundation: c.Found, RelAddr: c.RelAddr, RelPort: c.RelPort})
	case "prflx":
		cand, err = ice.NewCandidatePeerReflexive(&ice.CandidatePeerReflexiveConfig{Network: c.Net, Address: c.Addr, Port: c.Port, Component: c.Comp,
			Priority: c.Prio, Foundation: c.Found, RelAddr: c.RelAddr, RelPort: c.RelPort})
	case "relay":
		cand, err = ice.NewCandidateRelay(&ice.CandidateRelayConfig{Network: c.Net, Address: c.Addr, Port: c.Port, Component: c.Comp,
			Priority: c.Prio, Foundation: c.Found, RelAddr: c.RelAddr, RelPort: c.RelPort})
	default:
		return nil, fmt.Errorf("unknown type %q", c.Typ)
	}
	if err != nil {
		return nil, err
	}
	if c.Typ != "host" && c.TCPType != "" {
		return nil, fmt.Errorf("tcptype on a non-host candidate is outside the domain (pion/ice's parser drops it)")
	}
	for _, e := range c.Exts {
		if e.K == "ufrag" && withUfrag {
			continue // the ufrag mode decides
		}
		if err := cand.AddExtension(ice.CandidateExtension{Key: e.K, Value: e.V}); err != nil {
			return nil, err
		}
	}
	if withUfrag {
		switch c.Ufrag {
		case 1:
			err = cand.AddExtension(ice.CandidateExtension{Key: "ufrag", Value: vfC25RemoteUfrag})
		case 2:
			err = cand.AddExtension(ice.CandidateExtension{Key: "ufrag", Value: "someOtherUfrag"})
		case 3:
			err = cand.AddExtension(ice.CandidateExtension{Key: "ufrag", Value: ""})
		case 4:
			err = cand.AddExtension(ice.CandidateExtension{Key: "ufrag", Value: vfC25OldUfrag})
		}
	}
	return cand, err
}

func vfC25Rel(c ice.Candidate) (string, int) {
	if r := c.RelatedAddress(); r != nil {
		return r.Address, r.Port
	}
	return "", 0
}

// vfC25Compare is oracle 1.
func vfC25Compare(v *vfT, orig ice.Candidate, signalled string) {
	if !strings.HasPrefix(signalled, "candidate:") {
		v.Violation("C25/tojson/no-prefix", "ToJSON().Candidate = %q lacks the candidate: prefix", signalled)
	}
	raw := strings.TrimPrefix(signalled, "candidate:")
	if raw == "" {
		v.Violation("C25/tojson/empty", "ToJSON().Candidate is empty for %s (ToICE failed)", orig.Marshal())
	}
	back, err := ice.UnmarshalCandidate(raw)
	if err != nil {
		v.Violation("C25/roundtrip/unparsable", "ice.UnmarshalCandidate(%q): %v; built from %q", raw, err, orig.Marshal())
	}
	diff := func(field string, a, b any) {
		if a != b {
			v.Violation("C25/roundtrip/"+field, "%s: built %v, signalled form parses to %v; signalled %q, built from %q", field, a, b, raw, orig.Marshal())
		}
	}
	diff("foundation", orig.Foundation(), back.Foundation())
	diff("component", orig.Component(), back.Component())
	diff("protocol", orig.NetworkType().NetworkShort(), back.NetworkType().NetworkShort())
	diff("priority", orig.Priority(), back.Priority())
	diff("address", orig.Address(), back.Address())
	diff("port", orig.Port(), back.Port())
	diff("type", orig.Type(), back.Type())
	oa, op := vfC25Rel(orig)
	ba, bp := vfC25Rel(back)
	diff("related-address", oa, ba)
	diff("related-port", op, bp)
	diff("tcptype", orig.TCPType(), back.TCPType())
	oe, be := orig.Extensions(), back.Extensions()
	if len(oe) != len(be) {
		v.Violation("C25/roundtrip/extensions", "extension list %q became %q; signalled %q", oe, be, raw)
	}
	for i := range oe {
		if oe[i] != be[i] {
			v.Violation("C25/roundtrip/extensions", "extension %d: %q became %q; signalled %q", i, oe[i], be[i], raw)
		}
	}
}

func vfC25Labels(v *vfT, c vfC25Case) {
	v.Label("typ=" + c.Typ)
	v.Label("net=" + c.Net)
	switch {
	case strings.HasSuffix(c.Addr, ".local"):
		v.Label("addr=mdns")
	case strings.Contains(c.Addr, ":"):
		v.Label("addr=ipv6")
	default:
		v.Label("addr=ipv4")
	}
	if c.TCPType != "" {
		v.Label("tcptype=" + c.TCPType)
	}
	if c.RelAddr != "" {
		v.Label("with-related-address")
	}
	if c.Prio == 0 {
		v.Label("priority=computed")
	}
	if c.Found == "" {
		v.Label("foundation=computed")
	}
	if c.Found == " " {
		// pion/ice's representation of an EMPTY foundation ("seen in the wild"): it marshals to
		// nothing, so the signalled form is "candidate: 1 udp ..." with a leading space
		v.Label("foundation=empty(leading-space-in-signalled-form)")
	}
	if len(c.Found) == 32 {
		v.Label("foundation=32-chars")
	}
	v.Label(fmt.Sprintf("exts=%d", len(c.Exts)))
	for i, e := range c.Exts {
		if e.V == "" {
			if i == len(c.Exts)-1 {
				v.Label("ext-empty-value-last")
			} else {
				v.Label("ext-empty-value-inner")
			}
		}
	}
}

func vfC25RunRoundTrip(v *vfT, c vfC25Case) {
	orig, err := vfC25Build(c, false)
	if err != nil {
		v.Label("constructor-refused")
		return
	}
	vfC25Labels(v, c)
	if len(c.Exts) > 0 || c.TCPType != "" {
		v.NonTrivial()
	}
	conv, err := newICECandidateFromICE(orig, c.Mid, c.MLine)
	if err != nil {
		v.Violation("C25/from-ice/error", "newICECandidateFromICE(%q): %v", orig.Marshal(), err)
	}
	init := conv.ToJSON()
	vfC25Compare(v, orig, init.Candidate)
}

// ---- generator ----

var (
	vfC25V4   = []string{"192.0.2.1", "10.0.0.1", "127.0.0.1", "0.0.0.0", "255.255.255.255", "198.51.100.200", "1.2.3.4"}
	vfC25V6   = []string{"2001:db8::1", "::1", "fe80::1", "::", "2001:db8:0:1:2:3:4:5", "fd00::abcd", "::ffff:192.0.2.1", "2001:DB8::A"}
	vfC25MDNS = []string{"3c5a1b2e-1f7a-4c11-9d2a-0e7d1c2b3a4f.local", "a.local", "host-1.local"}
	vfC25Keys = []string{"ufrag", "generation", "network-cost", "network-id", "x", "foo-bar", "a", "generation"}
	vfC25Vals = []string{"", "", "0", "1", "999", "abcd", "a/b+c=", "é", "EsAw", "x-y_z", "typ", "raddr", "tcptype"}
)

func vfC25Gen(v *vfT) vfC25Case {
	t := v.R
	var c vfC25Case
	c.Typ = rapid.SampledFrom([]string{"host", "srflx", "prflx", "relay"}).Draw(t, "typ")
	c.Net = rapid.SampledFrom([]string{"udp", "udp", "tcp"}).Draw(t, "net")
	switch k := rapid.IntRange(0, 9).Draw(t, "addrKind"); {
	case k < 5:
		c.Addr = rapid.SampledFrom(vfC25V4).Draw(t, "v4")
	case k < 8 || c.Typ != "host":
		c.Addr = rapid.SampledFrom(vfC25V6).Draw(t, "v6")
	default:
		c.Addr = rapid.SampledFrom(vfC25MDNS).Draw(t, "mdns")
	}
	c.Port = rapid.OneOf(rapid.SampledFrom([]int{0, 1, 9, 65535, 3478}), rapid.IntRange(0, 65535)).Draw(t, "port")
	c.Comp = rapid.OneOf(rapid.SampledFrom([]uint16{1, 2, 1, 0, 256, 65535}), rapid.Uint16()).Draw(t, "comp")
	c.Prio = rapid.OneOf(rapid.SampledFrom([]uint32{0, 1, 4294967295, 2130706431, 1<<31 - 1}), rapid.Uint32()).Draw(t, "prio")
	c.Found = rapid.OneOf(rapid.SampledFrom([]string{"", "1", "4077567720", "abcDEF+/09", " ", " ", "z", "abcdefghijklmnopqrstuvwxyzABCDEF"}), rapid.StringMatching(`[A-Za-z0-9+/]{1,32}`)).Draw(t, "found")
	if c.Typ != "host" && rapid.Bool().Draw(t, "rel") {
		if rapid.Bool().Draw(t, "rel6") {
			c.RelAddr = rapid.SampledFrom(vfC25V6).Draw(t, "relv6")
		} else {
			c.RelAddr = rapid.SampledFrom(vfC25V4).Draw(t, "relv4")
		}
		c.RelPort = rapid.OneOf(rapid.SampledFrom([]int{1, 9, 65535}), rapid.IntRange(1, 65535)).Draw(t, "relport")
	}
	// TCP type only on host candidates: pion/ice's UnmarshalCandidate (the trusted side of the
	// differential) has no TCP type on srflx/prflx/relay candidates and drops it there.
	if c.Typ == "host" && c.Net == "tcp" && !strings.HasSuffix(c.Addr, ".local") {
		c.TCPType = rapid.SampledFrom([]string{"", "active", "passive", "so"}).Draw(t, "tcptype")
	}
	n := rapid.IntRange(0, 4).Draw(t, "nexts")
	for i := 0; i < n; i++ {
		var e vfC25Ext
		e.K = rapid.OneOf(rapid.SampledFrom(vfC25Keys), rapid.StringMatching(`[a-z][a-z0-9-]{0,8}`)).Draw(t, "key")
		if e.K == "tcptype" {
			e.K = "tcptypex"
		}
		e.V = rapid.OneOf(rapid.SampledFrom(vfC25Vals), rapid.StringMatching(`[!-~]{0,10}`)).Draw(t, "val")
		c.Exts = append(c.Exts, e)
	}
	c.Mid = rapid.SampledFrom([]string{"0", "", "audio", "1"}).Draw(t, "mid")
	c.MLine = uint16(rapid.IntRange(0, 3).Draw(t, "mline"))
	c.Ufrag = rapid.IntRange(0, 4).Draw(t, "ufrag")
	c.UfragMedia = rapid.Bool().Draw(t, "ufragMedia")
	c.History = rapid.IntRange(0, 1).Draw(t, "history")
	return c
}

func TestVerif_C25_RoundTrip(t *testing.T) {
	vfProperty(t, "C25", vfOpts{
		Rule: "one candidate built with pion/ice's constructors (4 types x udp/tcp x IPv4/IPv6/mDNS, boundary ports/priorities/components, ice-char foundations or computed, related address present/absent, tcptype, 0..4 extensions with empty values in inner and last position) -> newICECandidateFromICE -> ToJSON -> ice.UnmarshalCandidate; non-trivial = the candidate has at least one extension or a TCP type",
		Assumptions: []string{"pion/ice (constructors, Marshal, UnmarshalCandidate) is the trusted dependency",
			"foundations are 1..32 ice-chars, computed, or empty (pion/ice keeps an empty foundation as \" \" and signals it as nothing); extension keys/values are byte-strings without SP, NUL, CR, LF and without runes above U+00FF (pion/ice's own parser rejects those); a related address is either absent or has a port >= 1 (pion/ice's Marshal omits it otherwise); extension keys are unique after AddExtension's replace-on-duplicate"},
	}, vfC25Gen, vfC25RunRoundTrip)
}

// ---- AddICECandidate ----

var (
	vfC25APIOnce sync.Once
	vfC25API     *API
	vfC25Certs   []Certificate
)

func vfC25NewPC() (*PeerConnection, error) {
	vfC25APIOnce.Do(func() {
		se := SettingEngine{}
		se.SetICEMulticastDNSMode(ice.MulticastDNSModeDisabled) // no sockets: remote mDNS names are ignored by the agent
		se.DisableActiveTCP(true)                               // never dial a generated address
		// history cases apply a local answer, which starts gathering and the transports: keep all
		// of it on a virtual network without a router, and keep pion's log quiet
		if nw, err := vnet.NewNet(&vnet.NetConfig{}); err == nil {
			se.SetNet(nw)
		}
		lf := logging.NewDefaultLoggerFactory()
		lf.DefaultLogLevel = logging.LogLevelDisabled
		se.LoggerFactory = lf
		vfC25API = NewAPI(WithSettingEngine(se))
	})
	return vfC25API.NewPeerConnection(Configuration{})
}

func vfC25RemoteCount(pc *PeerConnection) (int, bool, error) {
	agent := pc.iceTransport.gatherer.getAgent()
	if agent == nil {
		return 0, false, nil
	}
	cs, err := agent.GetRemoteCandidates()
	if err != nil {
		return 0, false, err
	}
	sentinel := false
	for _, c := range cs {
		if c.Address() == "192.0.2.77" && c.Port() == 47777 {
			sentinel = true
		}
	}
	return len(cs), sentinel, nil
}

func vfC25RunAdd(v *vfT, c vfC25Case) {
	orig, err := vfC25Build(c, true)
	if err != nil {
		v.Label("constructor-refused")
		return
	}
	v.Label(fmt.Sprintf("ufrag-mode=%d", c.Ufrag))
	v.Label("typ=" + c.Typ)
	conv, err := newICECandidateFromICE(orig, c.Mid, c.MLine)
	if err != nil {
		v.Violation("C25/from-ice/error", "newICECandidateFromICE(%q): %v", orig.Marshal(), err)
	}
	init := conv.ToJSON()
	vfC25Compare(v, orig, init.Candidate)

	pc, err := vfC25NewPC()
	if err != nil {
		v.Skip("NewPeerConnection: " + err.Error())
	}
	defer func() { _ = pc.Close() }()
	const newPwd, oldPwd = "vfCtwentyfivePasswordOf32chars00", "vfCtwentyfiveOldPasswordOf32char"
	if c.History == 1 {
		// first generation: offer with the old credentials, answered, answer applied (stable)
		if err := pc.SetRemoteDescription(SessionDescription{Type: SDPTypeOffer, SDP: vfC25Offer(c.UfragMedia, vfC25OldUfrag, oldPwd, 1)}); err != nil {
			v.Skip("SetRemoteDescription(first offer): " + err.Error())
		}
		ans, err := pc.CreateAnswer(nil)
		if err != nil {
			v.Skip("CreateAnswer: " + err.Error())
		}
		if err := pc.SetLocalDescription(ans); err != nil {
			v.Skip("SetLocalDescription(answer): " + err.Error())
		}
		// ICE restart by the remote: new ufrag/pwd, applied, not answered
		if err := pc.SetRemoteDescription(SessionDescription{Type: SDPTypeOffer, SDP: vfC25Offer(c.UfragMedia, vfC25RemoteUfrag, newPwd, 2)}); err != nil {
			v.Skip("SetRemoteDescription(ICE-restart offer): " + err.Error())
		}
		if pc.SignalingState() != SignalingStateHaveRemoteOffer || pc.PendingRemoteDescription() == nil || pc.CurrentRemoteDescription() == nil {
			v.Skip("history did not reach have-remote-offer with a current and a pending remote description")
		}
		v.Label("history=restart-offer-pending")
	} else {
		if err := pc.SetRemoteDescription(SessionDescription{Type: SDPTypeOffer, SDP: vfC25Offer(c.UfragMedia, vfC25RemoteUfrag, newPwd, 1)}); err != nil {
			v.Skip("SetRemoteDescription(harness offer): " + err.Error())
		}
		v.Label("history=first-offer")
	}
	v.NonTrivial()
	// the remote description in force (pending if there is one, W3C addIceCandidate / RFC 8839:
	// candidates belong to the most recently applied description) carries vfC25RemoteUfrag only
	foreign := c.Ufrag == 2 || c.Ufrag == 3 || c.Ufrag == 4
	inForce := c.Ufrag == 1
	agentKeeps := c.TCPType != "active" && !strings.HasSuffix(c.Addr, ".local")
	if err := pc.AddICECandidate(init); err != nil {
		if foreign {
			v.Violation("C25/add/foreign-ufrag-error", "AddICECandidate(%q) with a ufrag that is not in the remote description in force returned %v, want nil (dropped silently)", init.Candidate, err)
		}
		v.Violation("C25/add/rejected", "AddICECandidate(%q) = %v; the string is pion's own ToJSON() of %q", init.Candidate, err, orig.Marshal())
	}
	if !foreign && !(inForce && agentKeeps) {
		// Not part of the statement (only counted): does a candidate the agent keeps become visible?
		if agentKeeps {
			landed := false
			for deadline := time.Now().Add(20 * time.Millisecond); !landed && time.Now().Before(deadline); {
				n, _, err := vfC25RemoteCount(pc)
				landed = err == nil && n >= 1
				if !landed {
					time.Sleep(100 * time.Microsecond)
				}
			}
			if landed {
				v.Label("accepted-candidate-visible-in-agent")
			} else {
				v.Label(fmt.Sprintf("accepted-candidate-NOT-visible-in-agent(unasserted,ufrag-mode=%d,net=%s,tcptype=%s,typ=%s)", c.Ufrag, c.Net, c.TCPType, c.Typ))
			}
		}
		return
	}
	// Adding is asynchronous inside pion/ice, so push a sentinel behind the candidate, wait until
	// the sentinel is visible, settle, then count.
	if err := pc.AddICECandidate(ICECandidateInit{Candidate: vfC25Sentinel}); err != nil {
		v.Skip("sentinel candidate rejected: " + err.Error())
	}
	deadline := time.Now().Add(3 * time.Second)
	seen := false
	for !seen && time.Now().Before(deadline) {
		_, s, err := vfC25RemoteCount(pc)
		if err != nil {
			v.Skip("GetRemoteCandidates: " + err.Error())
		}
		seen = s
		if !seen {
			time.Sleep(100 * time.Microsecond)
		}
	}
	if !seen {
		v.Label("sentinel-not-seen(no verdict)")
		return
	}
	time.Sleep(500 * time.Microsecond)
	n, _, err := vfC25RemoteCount(pc)
	if err != nil {
		v.Skip("GetRemoteCandidates: " + err.Error())
	}
	if foreign {
		if n != 1 {
			class := "C25/add/foreign-ufrag-added"
			if c.Ufrag == 4 && c.History == 1 {
				class = "C25/add/old-generation-ufrag-added"
			}
			v.Violation(class, "candidate %q names a ufrag that is not in the remote description in force (%s) but the agent now holds %d remote candidates (want only the sentinel)", init.Candidate, vfC25RemoteUfrag, n)
		}
		v.Label(fmt.Sprintf("foreign-ufrag-dropped(mode=%d,history=%d)", c.Ufrag, c.History))
		return
	}
	// in-force ufrag, a candidate the agent keeps: it must be there (the sentinel, added later,
	// already is). Before calling it missing, two more sentinels are pushed and awaited, so the
	// candidate's add had three later adds overtake it, plus a 250 ms grace (about 1000x the usual
	// latency; kept short because every failing attempt during shrinking pays it in full).
	for round := 1; n < 2 && round <= 2; round++ {
		extra := fmt.Sprintf("candidate:4077567720 1 udp 2130706431 192.0.2.78 %d typ host", 47777+round)
		if err := pc.AddICECandidate(ICECandidateInit{Candidate: extra}); err != nil {
			v.Skip("sentinel candidate rejected: " + err.Error())
		}
		want := 1 + round // sentinels only
		for deadline := time.Now().Add(3 * time.Second); time.Now().Before(deadline); {
			time.Sleep(200 * time.Microsecond)
			if n, _, err = vfC25RemoteCount(pc); err != nil {
				v.Skip("GetRemoteCandidates: " + err.Error())
			}
			if n >= want {
				break
			}
		}
		if n < want {
			v.Label("sentinel-not-seen(no verdict)")
			return
		}
		if n > want {
			n = 2 // the candidate is there
			break
		}
		n = 1
	}
	for deadline := time.Now().Add(250 * time.Millisecond); n < 2 && time.Now().Before(deadline); {
		time.Sleep(200 * time.Microsecond)
		m, _, err := vfC25RemoteCount(pc)
		if err != nil {
			v.Skip("GetRemoteCandidates: " + err.Error())
		}
		if m > 3 {
			n = 2
		}
	}
	if n < 2 {
		v.Violation("C25/add/in-force-ufrag-dropped", "candidate %q names the ufrag of the remote description in force (%s) but never reached the agent (the sentinel added after it did); history=%d", init.Candidate, vfC25RemoteUfrag, c.History)
	}
	v.Label(fmt.Sprintf("in-force-ufrag-added(history=%d)", c.History))
}

func TestVerif_C25_AddICECandidate(t *testing.T) {
	vfProperty(t, "C25", vfOpts{
		Rule: "the same candidate space, with ufrag extension absent / equal to the ufrag of the remote description in force (session- or media-level) / foreign / empty / of the previous generation, passed through ToJSON into AddICECandidate on a PeerConnection that either has one applied remote offer or has completed a first exchange and has an ICE-restart offer with new credentials pending (have-remote-offer); non-trivial = every case that reaches AddICECandidate",
		Assumptions: []string{"mDNS and active TCP are disabled in the SettingEngine so no socket is opened for a generated address",
			"'not added' is observed through ice.Agent.GetRemoteCandidates after a sentinel candidate added later became visible (adds are asynchronous in pion/ice); if the sentinel never shows the case gives no verdict",
			"the remote description in force is the pending one when there is one (W3C addIceCandidate, pion's RemoteDescription()); a candidate naming its ufrag must reach the agent unless the agent ignores that candidate kind (active TCP, mDNS disabled) - observed after the sentinel, with a 250 ms grace",
			"history cases run on an isolated vnet: applying the local answer starts gathering and the transports without touching a real socket"},
	}, func(v *vfT) vfC25Case {
		_ = rapid.Uint32().Draw(v.R, "salt") // decorrelate from the round-trip property, which shares the seed
		return vfC25Gen(v)
	}, vfC25RunAdd)
}
