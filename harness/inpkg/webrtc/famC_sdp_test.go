package webrtc

// Family helper for C15 / C16: structured local MediaEngine configurations, structured
// foreign offers rendered by the harness's own text writer (not pion/sdp's marshaller),
// rapid generators for both, and a PeerConnection factory on an isolated virtual network.
//
// Offers are "sound" in the sense of RFC 8843 / RFC 3264: a payload type denotes one codec
// (name, clock, channels, fmtp) across all sections and across re-offers; every format has
// an rtpmap; apt values are small integers.

import (
	"fmt"
	"sort"
	"strings"
	"sync"

	"github.com/pion/ice/v4"
	"github.com/pion/interceptor"
	"github.com/pion/logging"
	"github.com/pion/transport/v4/vnet"
	"pgregory.net/rapid"
)

type vfFamCCodec struct {
	Name  string   `json:"name"` // encoding name without the kind ("VP8")
	Clock uint32   `json:"clock"`
	Ch    uint16   `json:"ch,omitempty"` // 0 = omitted in the rtpmap
	Fmtp  string   `json:"fmtp,omitempty"`
	FB    []string `json:"fb,omitempty"` // "nack", "nack pli", ...
	PT    uint8    `json:"pt"`
}

type vfFamCSection struct {
	Kind   string        `json:"kind"` // audio | video
	Mid    string        `json:"mid"`
	Dir    string        `json:"dir"`
	Codecs []vfFamCCodec `json:"codecs"`
	// Port0: "" = ordinary section (port 9); "bundle-only" = live section with port 0 and
	// a=bundle-only, listed in the BUNDLE group (RFC 8843 §7.2.1 / JSEP max-bundle; never the
	// first bundled section); "rejected" = port 0, not in the BUNDLE group (a retired section,
	// its contents are to be ignored).
	Port0 string `json:"port0,omitempty"`
}

type vfFamCOffer struct {
	Sections []vfFamCSection `json:"sections"`
	Data     bool            `json:"data,omitempty"` // trailing m=application section
}

type vfFamCLocal struct {
	Audio []vfFamCCodec `json:"audio"`
	Video []vfFamCCodec `json:"video"`
}

func (c vfFamCCodec) ident() string {
	return strings.ToLower(c.Name) + "|" + fmt.Sprint(c.Clock) + "|" + fmt.Sprint(c.Ch) + "|" + c.Fmtp
}

func (c vfFamCCodec) isRTX() bool { return strings.EqualFold(c.Name, "rtx") }

// ---- rendering ----

func vfFamCOfferSDP(o vfFamCOffer, sessionVersion int) string {
	var b strings.Builder
	w := func(f string, a ...any) { fmt.Fprintf(&b, f+"\r\n", a...) }
	w("v=0")
	w("o=- 7000000000000000001 %d IN IP4 127.0.0.1", sessionVersion)
	w("s=-")
	w("t=0 0")
	mids := []string{}
	for _, s := range o.Sections {
		if s.Port0 != "rejected" {
			mids = append(mids, s.Mid)
		}
	}
	if o.Data {
		mids = append(mids, "data")
	}
	w("a=group:BUNDLE %s", strings.Join(mids, " "))
	w("a=ice-ufrag:vfFamCufrag")
	w("a=ice-pwd:vfFamCpasswordvfFamCpassword0")
	w("a=fingerprint:sha-256 0F:74:31:25:CB:A2:13:EC:28:6F:6D:2C:61:FF:5D:C2:BC:B9:DB:3D:98:14:8D:1A:BB:EA:33:0C:A4:60:A8:8E")
	for _, s := range o.Sections {
		pts := []string{}
		for _, c := range s.Codecs {
			pts = append(pts, fmt.Sprint(c.PT))
		}
		port := 9
		if s.Port0 != "" {
			port = 0
		}
		w("m=%s %d UDP/TLS/RTP/SAVPF %s", s.Kind, port, strings.Join(pts, " "))
		w("c=IN IP4 0.0.0.0")
		w("a=rtcp:9 IN IP4 0.0.0.0")
		w("a=mid:%s", s.Mid)
		if s.Port0 == "bundle-only" {
			w("a=bundle-only")
		}
		w("a=%s", s.Dir)
		w("a=rtcp-mux")
		w("a=setup:actpass")
		for _, c := range s.Codecs {
			if c.Ch > 0 {
				w("a=rtpmap:%d %s/%d/%d", c.PT, c.Name, c.Clock, c.Ch)
			} else {
				w("a=rtpmap:%d %s/%d", c.PT, c.Name, c.Clock)
			}
			for _, fb := range c.FB {
				w("a=rtcp-fb:%d %s", c.PT, fb)
			}
			if c.Fmtp != "" {
				w("a=fmtp:%d %s", c.PT, c.Fmtp)
			}
		}
	}
	if o.Data {
		w("m=application 9 UDP/DTLS/SCTP webrtc-datachannel")
		w("c=IN IP4 0.0.0.0")
		w("a=mid:data")
		w("a=setup:actpass")
		w("a=sctp-port:5000")
	}
	return b.String()
}

func vfFamCFeedback(fb []string) []RTCPFeedback {
	var out []RTCPFeedback
	for _, f := range fb {
		parts := strings.SplitN(f, " ", 2)
		e := RTCPFeedback{Type: parts[0]}
		if len(parts) == 2 {
			e.Parameter = parts[1]
		}
		out = append(out, e)
	}
	return out
}

func (c vfFamCCodec) params(kind string) RTPCodecParameters {
	return RTPCodecParameters{
		RTPCodecCapability: RTPCodecCapability{MimeType: kind + "/" + c.Name, ClockRate: c.Clock, Channels: c.Ch, SDPFmtpLine: c.Fmtp, RTCPFeedback: vfFamCFeedback(c.FB)},
		PayloadType:        PayloadType(c.PT),
	}
}

func vfFamCMediaEngine(l vfFamCLocal) (*MediaEngine, error) {
	me := &MediaEngine{}
	for _, c := range l.Audio {
		if err := me.RegisterCodec(c.params("audio"), RTPCodecTypeAudio); err != nil {
			return nil, err
		}
	}
	for _, c := range l.Video {
		if err := me.RegisterCodec(c.params("video"), RTPCodecTypeVideo); err != nil {
			return nil, err
		}
	}
	return me, nil
}

var (
	vfFamCOnce sync.Once
	vfFamCSE   SettingEngine
	vfFamCErr  error
)

// vfFamCNewPC creates a PeerConnection with the given MediaEngine on a virtual network
// that has no router: nothing the case does can reach a real socket.
func vfFamCNewPC(me *MediaEngine) (*PeerConnection, error) {
	vfFamCOnce.Do(func() {
		nw, err := vnet.NewNet(&vnet.NetConfig{})
		if err != nil {
			vfFamCErr = err
			return
		}
		vfFamCSE.SetNet(nw)
		vfFamCSE.SetICEMulticastDNSMode(ice.MulticastDNSModeDisabled)
		lf := logging.NewDefaultLoggerFactory()
		lf.DefaultLogLevel = logging.LogLevelDisabled
		vfFamCSE.LoggerFactory = lf
	})
	if vfFamCErr != nil {
		return nil, vfFamCErr
	}
	// An explicit empty interceptor registry: without one NewAPI registers the default
	// interceptors, which add nack / nack pli / transport-cc feedback and header extensions to
	// the MediaEngine, and the "local side" would no longer be what the case says.
	return NewAPI(WithMediaEngine(me), WithSettingEngine(vfFamCSE), WithInterceptorRegistry(&interceptor.Registry{})).NewPeerConnection(Configuration{})
}

// ---- palette ----

var vfFamCAudioPalette = []vfFamCCodec{
	{Name: "opus", Clock: 48000, Ch: 2, Fmtp: "minptime=10;useinbandfec=1", PT: 111},
	{Name: "G722", Clock: 8000, PT: 9},
	{Name: "PCMU", Clock: 8000, PT: 0},
	{Name: "PCMA", Clock: 8000, PT: 8},
	{Name: "opus", Clock: 48000, Ch: 2, Fmtp: "", PT: 109},
	{Name: "red", Clock: 48000, Ch: 2, Fmtp: "111/111", PT: 63},
}

var vfFamCVideoPalette = []vfFamCCodec{
	{Name: "VP8", Clock: 90000, PT: 96},
	{Name: "VP9", Clock: 90000, Fmtp: "profile-id=0", PT: 98},
	{Name: "VP9", Clock: 90000, Fmtp: "profile-id=2", PT: 100},
	{Name: "H264", Clock: 90000, Fmtp: "level-asymmetry-allowed=1;packetization-mode=1;profile-level-id=42001f", PT: 102},
	{Name: "H264", Clock: 90000, Fmtp: "level-asymmetry-allowed=1;packetization-mode=0;profile-level-id=42001f", PT: 104},
	{Name: "H264", Clock: 90000, Fmtp: "level-asymmetry-allowed=1;packetization-mode=1;profile-level-id=42e01f", PT: 106},
	{Name: "H264", Clock: 90000, Fmtp: "level-asymmetry-allowed=1;packetization-mode=1;profile-level-id=640032", PT: 112},
	{Name: "AV1", Clock: 90000, Fmtp: "level-idx=5;profile=0;tier=0", PT: 45},
	{Name: "H265", Clock: 90000, PT: 116},
	{Name: "flexfec-03", Clock: 90000, Fmtp: "repair-window=10000000", PT: 118},
	{Name: "ulpfec", Clock: 90000, PT: 120},
}

var vfFamCVideoFB = []string{"goog-remb", "ccm fir", "nack", "nack pli", "transport-cc"}
var vfFamCRemoteFB = []string{"goog-remb", "ccm fir", "nack", "nack pli", "transport-cc", "ccm tmmbr", "nack sli"}

func vfFamCSubset(t *rapid.T, label string, pool []string) []string {
	var out []string
	mask := rapid.IntRange(0, 1<<uint(len(pool))-1).Draw(t, label)
	for i, s := range pool {
		if mask&(1<<uint(i)) != 0 {
			out = append(out, s)
		}
	}
	return out
}

type vfFamCPTs struct {
	used map[uint8]string // pt -> codec identity
}

func (p *vfFamCPTs) free(t *rapid.T, label string) uint8 {
	start := rapid.IntRange(0, 63).Draw(t, label)
	for i := 0; i < 64; i++ {
		pt := uint8(96 + (start+i)%32)
		if i >= 32 {
			pt = uint8(35 + (start+i)%30)
		}
		if _, ok := p.used[pt]; !ok {
			return pt
		}
	}
	for pt := uint8(1); pt < 128; pt++ {
		if _, ok := p.used[pt]; !ok {
			return pt
		}
	}
	return 127
}

// vfFamCStaticOK: payload types below 35 are RFC 3551 static assignments; a sound remote
// uses them only for their owner (pion/sdp, too, ignores an rtpmap that rebinds them).
func vfFamCStaticOK(pt uint8, c vfFamCCodec) bool {
	if pt >= 35 {
		return true
	}
	owner := map[uint8]string{0: "pcmu", 8: "pcma", 9: "g722"}[pt]
	return owner != "" && strings.ToLower(c.Name) == owner && c.Clock == 8000 && c.Ch <= 1
}

// take reserves pt for codec identity id; false if it already denotes another codec.
func (p *vfFamCPTs) take(pt uint8, id string) bool {
	if cur, ok := p.used[pt]; ok && cur != id {
		return false
	}
	p.used[pt] = id
	return true
}

func vfFamCGenLocal(t *rapid.T) vfFamCLocal {
	var l vfFamCLocal
	pts := &vfFamCPTs{used: map[uint8]string{}}
	pick := func(kind string, palette []vfFamCCodec, lo, hi int) []vfFamCCodec {
		n := rapid.IntRange(lo, hi).Draw(t, kind+"N")
		perm := rapid.Permutation(palette).Draw(t, kind+"Perm")
		var out []vfFamCCodec
		for _, c := range perm[:n] {
			if kind == "video" {
				c.FB = vfFamCSubset(t, "localFB", vfFamCVideoFB)
			}
			if rapid.IntRange(0, 3).Draw(t, "remapLocalPT") == 0 || !pts.take(c.PT, kind+c.ident()) {
				c.PT = pts.free(t, "localPT")
				pts.take(c.PT, kind+c.ident())
			}
			// "Lots of users use formats without setting clock rate or channels" (internal/fmtp):
			// a registration that leaves them 0 means the documented default (opus 48000/2,
			// PCMU/PCMA 8000, everything else 90000). Only codecs covered by that table.
			reg := c
			if _, ok := vfFamCDefaultClock(kind, c.Name); ok && rapid.IntRange(0, 4).Draw(t, "localShortForm") == 0 {
				switch rapid.IntRange(0, 2).Draw(t, "shortFormWhat") {
				case 0:
					reg.Clock = 0
				case 1:
					reg.Ch = 0
				default:
					reg.Clock, reg.Ch = 0, 0
				}
			}
			out = append(out, reg)
			if kind == "video" && !strings.Contains(c.Name, "fec") && rapid.IntRange(0, 2).Draw(t, "localRTX") == 0 {
				r := vfFamCCodec{Name: "rtx", Clock: 90000, Fmtp: fmt.Sprintf("apt=%d", c.PT)}
				r.PT = c.PT + 1
				if !pts.take(r.PT, kind+r.ident()) {
					r.PT = pts.free(t, "localRTXPT")
					pts.take(r.PT, kind+r.ident())
				}
				out = append(out, r)
			}
		}
		return out
	}
	l.Audio = pick("audio", vfFamCAudioPalette, 1, 4)
	l.Video = pick("video", vfFamCVideoPalette, 1, 6)
	return l
}

// vfFamCDefaultClock is the documented default table for registrations without a clock rate
// (comment and table in internal/fmtp/fmtp.go); ok=false for codecs whose real clock rate the
// table would get wrong (G722, red), which therefore are never registered the short way.
func vfFamCDefaultClock(kind, name string) (uint32, bool) {
	switch strings.ToLower(kind + "/" + name) {
	case "audio/opus":
		return 48000, true
	case "audio/pcmu", "audio/pcma":
		return 8000, true
	case "audio/g722", "audio/red":
		return 0, false
	}
	if kind == "video" && !strings.EqualFold(name, "rtx") {
		return 90000, true
	}
	return 0, false
}

// vfFamCDefaultChannels: opus defaults to 2 channels, everything else to "omitted" (= 1).
func vfFamCDefaultChannels(kind, name string) uint16 {
	if strings.EqualFold(kind+"/"+name, "audio/opus") {
		return 2
	}
	return 0
}

// vfFamCLongForm fills a short-form local registration in from the documented defaults.
func vfFamCLongForm(kind string, c vfFamCCodec) vfFamCCodec {
	if c.Clock == 0 {
		if d, ok := vfFamCDefaultClock(kind, c.Name); ok {
			c.Clock = d
		}
	}
	if c.Ch == 0 {
		c.Ch = vfFamCDefaultChannels(kind, c.Name)
	}
	return c
}

func vfFamCRecase(t *rapid.T, s string) string {
	switch rapid.IntRange(0, 5).Draw(t, "case") {
	case 0:
		return strings.ToLower(s)
	case 1:
		return strings.ToUpper(s)
	}
	return s
}

// vfFamCMutateFmtp returns a variant of a codec's fmtp line that a real remote could send.
func vfFamCMutateFmtp(t *rapid.T, name, f string) string {
	params := []string{}
	if f != "" {
		params = strings.Split(f, ";")
	}
	set := func(key, val string) {
		for i, p := range params {
			if strings.HasPrefix(p, key+"=") {
				params[i] = key + "=" + val
				return
			}
		}
		params = append(params, key+"="+val)
	}
	drop := func(key string) {
		for i, p := range params {
			if strings.HasPrefix(p, key+"=") {
				params = append(params[:i:i], params[i+1:]...)
				return
			}
		}
	}
	k := rapid.IntRange(0, 9).Draw(t, "fmtpMut")
	lname := strings.ToLower(name)
	switch {
	case k <= 2: // identical
	case k == 3: // reordered
		for i, j := 0, len(params)-1; i < j; i, j = i+1, j-1 {
			params[i], params[j] = params[j], params[i]
		}
	case k == 4: // extra key
		params = append(params, "x-google-start-bitrate=800")
	case lname == "h264":
		switch k {
		case 5: // other level, same profile
			for i, p := range params {
				if strings.HasPrefix(p, "profile-level-id=") && len(p) == len("profile-level-id=")+6 {
					params[i] = p[:len(p)-2] + rapid.SampledFrom([]string{"0d", "28", "33"}).Draw(t, "level")
				}
			}
		case 6:
			set("profile-level-id", rapid.SampledFrom([]string{"42001f", "42e01f", "4d001f", "640032", "64001f"}).Draw(t, "plid"))
		case 7:
			set("packetization-mode", rapid.SampledFrom([]string{"0", "1"}).Draw(t, "pmode"))
		case 8:
			drop("packetization-mode")
		case 9:
			drop("profile-level-id")
		}
	case lname == "vp9":
		switch k {
		case 5, 6:
			drop("profile-id")
		default:
			set("profile-id", rapid.SampledFrom([]string{"0", "1", "2"}).Draw(t, "vp9profile"))
		}
	case lname == "av1":
		switch k {
		case 5, 6:
			drop("profile")
		case 7:
			params = nil
		default:
			set("profile", rapid.SampledFrom([]string{"0", "1"}).Draw(t, "av1profile"))
		}
	case lname == "opus":
		switch k {
		case 5:
			set("minptime", "20")
		case 6:
			drop("minptime")
		case 7:
			set("stereo", "1")
		case 8:
			set("useinbandfec", "0")
		default:
			params = nil
		}
	default:
		switch k {
		case 5, 6:
			params = append(params, "foo=bar")
		case 7:
			params = nil
		}
	}
	return strings.Join(params, ";")
}

type vfFamCOfferGen struct {
	t     *rapid.T
	local vfFamCLocal
	pts   *vfFamCPTs
	// keepCodecSpecificClock: never give H264/VP9/AV1 a clock rate other than 90000 (their
	// payload formats mandate it; C15 owns what pion does with such an offer)
	keepCodecSpecificClock bool
}

func (g *vfFamCOfferGen) localOf(kind string) []vfFamCCodec {
	if kind == "audio" {
		return g.local.Audio
	}
	return g.local.Video
}

// one remote primary codec for kind (never rtx)
func (g *vfFamCOfferGen) codec(kind string) vfFamCCodec {
	t := g.t
	var c vfFamCCodec
	fromLocal := false
	loc := []vfFamCCodec{}
	for _, l := range g.localOf(kind) {
		if !l.isRTX() {
			loc = append(loc, l)
		}
	}
	if len(loc) > 0 && rapid.IntRange(0, 9).Draw(t, "fromLocal") < 7 {
		c = vfFamCLongForm(kind, rapid.SampledFrom(loc).Draw(t, "localCodec")) // a remote always writes the full rtpmap
		fromLocal = true
	} else if kind == "audio" {
		c = rapid.SampledFrom(vfFamCAudioPalette).Draw(t, "paletteA")
	} else {
		c = rapid.SampledFrom(vfFamCVideoPalette).Draw(t, "paletteV")
	}
	localPT := c.PT
	c.FB = nil
	c.Name = vfFamCRecase(t, c.Name)
	if rapid.IntRange(0, 11).Draw(t, "clockMut") == 0 {
		ln := strings.ToLower(c.Name)
		if !(g.keepCodecSpecificClock && (ln == "h264" || ln == "vp9" || ln == "av1")) {
			c.Clock = rapid.SampledFrom([]uint32{8000, 16000, 44100, 48000, 90000}).Draw(t, "clock")
		}
	}
	if kind == "audio" && rapid.IntRange(0, 11).Draw(t, "chMut") == 0 {
		c.Ch = rapid.SampledFrom([]uint16{0, 1, 2}).Draw(t, "ch")
		if strings.EqualFold(c.Name, "opus") && c.Ch == 0 {
			c.Ch = 1 // an rtpmap "opus/48000" is not something a sound remote sends (RFC 7587)
		}
	}
	c.Fmtp = vfFamCMutateFmtp(t, c.Name, c.Fmtp)
	if kind == "video" {
		c.FB = vfFamCSubset(t, "remoteFB", vfFamCRemoteFB)
	} else if rapid.IntRange(0, 3).Draw(t, "audioFB") == 0 {
		c.FB = []string{"transport-cc"}
	}
	// payload type
	id := kind + c.ident()
	switch m := rapid.IntRange(0, 9).Draw(t, "ptMode"); {
	case m < 4 && fromLocal && vfFamCStaticOK(localPT, c) && g.pts.take(localPT, id):
		c.PT = localPT
	case m < 6:
		// collide with the payload type of some local codec (either kind)
		all := append(append([]vfFamCCodec{}, g.local.Audio...), g.local.Video...)
		cand := rapid.SampledFrom(all).Draw(t, "collideWith")
		if vfFamCStaticOK(cand.PT, c) && g.pts.take(cand.PT, id) {
			c.PT = cand.PT
			break
		}
		fallthrough
	default:
		// an identical codec already in the offer may keep its number
		c.PT = g.reuseOrFree(id)
	}
	return c
}

func (g *vfFamCOfferGen) reuseOrFree(id string) uint8 {
	pts := []int{}
	for pt, cur := range g.pts.used {
		if cur == id {
			pts = append(pts, int(pt))
		}
	}
	sort.Ints(pts)
	if len(pts) > 0 && rapid.Bool().Draw(g.t, "reusePT") {
		return uint8(pts[0])
	}
	pt := g.pts.free(g.t, "freshPT")
	g.pts.take(pt, id)
	return pt
}

func (g *vfFamCOfferGen) rtxFor(kind string, primary vfFamCCodec) vfFamCCodec {
	r := vfFamCCodec{Name: vfFamCRecase(g.t, "rtx"), Clock: primary.Clock, Fmtp: fmt.Sprintf("apt=%d", primary.PT)}
	id := kind + r.ident()
	// prefer the number the local side uses for the rtx of the matching primary, sometimes
	if rapid.Bool().Draw(g.t, "rtxLocalPT") {
		for _, l := range g.localOf(kind) {
			if l.isRTX() && g.pts.take(l.PT, id) {
				r.PT = l.PT
				return r
			}
		}
	}
	r.PT = g.reuseOrFree(id)
	return r
}

func (g *vfFamCOfferGen) section(kind, mid string) vfFamCSection {
	t := g.t
	s := vfFamCSection{Kind: kind, Mid: mid}
	s.Dir = rapid.SampledFrom([]string{"sendrecv", "sendrecv", "sendonly", "recvonly"}).Draw(t, "dir")
	n := rapid.IntRange(1, 5).Draw(t, "ncodecs")
	seen := map[uint8]bool{}
	seenIdent := map[string]bool{} // no endpoint lists one and the same format twice in a section
	for i := 0; i < n; i++ {
		c := g.codec(kind)
		if seen[c.PT] || seenIdent[c.ident()] {
			continue
		}
		seen[c.PT] = true
		seenIdent[c.ident()] = true
		s.Codecs = append(s.Codecs, c)
	}
	if kind == "video" {
		prim := append([]vfFamCCodec{}, s.Codecs...)
		for _, p := range prim {
			if strings.Contains(strings.ToLower(p.Name), "fec") {
				continue
			}
			if rapid.IntRange(0, 2).Draw(t, "withRTX") == 0 {
				r := g.rtxFor(kind, p)
				if !seen[r.PT] {
					seen[r.PT] = true
					// an rtx may precede its primary (second matching pass)
					if rapid.IntRange(0, 4).Draw(t, "rtxFirst") == 0 {
						s.Codecs = append([]vfFamCCodec{r}, s.Codecs...)
					} else {
						s.Codecs = append(s.Codecs, r)
					}
				}
			}
		}
		if rapid.IntRange(0, 9).Draw(t, "danglingRTX") == 0 {
			// apt names a payload type that is not in the offer at all
			target := g.pts.free(t, "danglingTarget")
			r := vfFamCCodec{Name: "rtx", Clock: 90000, Fmtp: fmt.Sprintf("apt=%d", target)}
			g.pts.take(target, "reserved-dangling")
			r.PT = g.reuseOrFree(kind + r.ident())
			if !seen[r.PT] {
				seen[r.PT] = true
				s.Codecs = append(s.Codecs, r)
			}
		}
	}
	return s
}

// vfFamCSoundSubset repairs a narrowed codec list: an RTX entry whose apt target was dropped
// goes too (RFC 4588: apt names a payload type of the same media description), and at least
// one primary codec of the original list stays.
func vfFamCSoundSubset(kept, original []vfFamCCodec) []vfFamCCodec {
	have := map[uint8]bool{}
	for _, c := range kept {
		if !c.isRTX() {
			have[c.PT] = true
		}
	}
	if len(have) == 0 {
		for _, c := range original {
			if !c.isRTX() {
				kept = append([]vfFamCCodec{c}, kept...)
				have[c.PT] = true
				break
			}
		}
	}
	origHas := map[uint8]bool{}
	for _, c := range original {
		origHas[c.PT] = true
	}
	var out []vfFamCCodec
	for _, c := range kept {
		if c.isRTX() {
			var apt uint8
			if _, err := fmt.Sscanf(c.Fmtp, "apt=%d", &apt); err == nil && origHas[apt] && !have[apt] {
				continue // its primary was dropped by the narrowing
			}
		}
		out = append(out, c)
	}
	return out
}

// derive builds a later section of the same kind from an earlier one.
func (g *vfFamCOfferGen) derive(first vfFamCSection, mid string) vfFamCSection {
	t := g.t
	s := vfFamCSection{Kind: first.Kind, Mid: mid}
	s.Dir = rapid.SampledFrom([]string{"sendrecv", "sendonly", "recvonly"}).Draw(t, "dir2")
	switch rapid.IntRange(0, 3).Draw(t, "deriveMode") {
	case 0: // a subset with the same numbers
		for _, c := range first.Codecs {
			if rapid.Bool().Draw(t, "keep") {
				s.Codecs = append(s.Codecs, c)
			}
		}
		s.Codecs = vfFamCSoundSubset(s.Codecs, first.Codecs)
	case 1: // the same codecs under new numbers
		remap := map[uint8]uint8{}
		for _, c := range first.Codecs {
			if c.isRTX() {
				continue
			}
			pt := g.pts.free(t, "renumber")
			g.pts.take(pt, first.Kind+c.ident())
			remap[c.PT] = pt
			c.PT = pt
			s.Codecs = append(s.Codecs, c)
		}
		for _, c := range first.Codecs {
			var apt uint8
			if !c.isRTX() {
				continue
			}
			if _, err := fmt.Sscanf(c.Fmtp, "apt=%d", &apt); err != nil {
				continue
			}
			if np, ok := remap[apt]; ok {
				r := vfFamCCodec{Name: c.Name, Clock: c.Clock, Fmtp: fmt.Sprintf("apt=%d", np)}
				r.PT = g.pts.free(t, "renumberRTX")
				g.pts.take(r.PT, first.Kind+r.ident())
				s.Codecs = append(s.Codecs, r)
			}
		}
		if len(s.Codecs) == 0 {
			return g.section(first.Kind, mid)
		}
	case 2: // reversed order, same numbers
		for i := len(first.Codecs) - 1; i >= 0; i-- {
			s.Codecs = append(s.Codecs, first.Codecs[i])
		}
	default:
		return g.section(first.Kind, mid)
	}
	return s
}

// vfFamCGenOffer draws a sound offer. multi allows a second section of a kind.
// rejected additionally allows retired (port 0, un-bundled) sections behind the first one.
func vfFamCGenOffer(t *rapid.T, local vfFamCLocal, multi bool, keepCodecSpecificClock bool, rejected bool) (vfFamCOffer, *vfFamCOfferGen) {
	g := &vfFamCOfferGen{t: t, local: local, pts: &vfFamCPTs{used: map[uint8]string{}}, keepCodecSpecificClock: keepCodecSpecificClock}
	var o vfFamCOffer
	layouts := [][]string{{"audio"}, {"video"}, {"audio", "video"}, {"video", "audio"}}
	if multi {
		layouts = [][]string{{"video", "video"}, {"audio", "audio"}, {"audio", "video", "video"}, {"video", "audio", "video"},
			{"audio", "video"}, {"video"}, {"video", "video", "video"}, {"audio", "video", "audio"}}
	}
	kinds := rapid.SampledFrom(layouts).Draw(t, "layout")
	firstOf := map[string]int{}
	for i, k := range kinds {
		mid := fmt.Sprint(i)
		if j, ok := firstOf[k]; ok {
			o.Sections = append(o.Sections, g.derive(o.Sections[j], mid))
		} else {
			firstOf[k] = i
			o.Sections = append(o.Sections, g.section(k, mid))
		}
	}
	o.Data = rapid.IntRange(0, 3).Draw(t, "data") == 0
	// port-0 sections behind the first one: JSEP max-bundle (all bundle-only), some bundle-only,
	// some retired
	switch rapid.IntRange(0, 9).Draw(t, "port0Mode") {
	case 0, 1, 2: // max-bundle offer
		for i := 1; i < len(o.Sections); i++ {
			o.Sections[i].Port0 = "bundle-only"
		}
	case 3, 4:
		for i := 1; i < len(o.Sections); i++ {
			switch k := rapid.IntRange(0, 5).Draw(t, "port0"); {
			case k < 3:
				o.Sections[i].Port0 = "bundle-only"
			case k == 3 && rejected:
				o.Sections[i].Port0 = "rejected"
			}
		}
	}
	return o, g
}
