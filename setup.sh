#!/bin/bash
# Offline setup: warm the Go build cache for the repo's packages (plain and -tags verif test builds)
# so the first ./check does not pay the cold compile.  Nothing is fetched.
set -u
cd "$(dirname "$0")"
export GOFLAGS=-mod=mod GOPROXY=off
unset GOSUMDB
GO=/root/go/pkg/mod/golang.org/toolchain@v0.0.1-go1.24.0.linux-amd64/bin/go
if [ -x "$GO" ]; then export GOTOOLCHAIN=local PATH="$(dirname $GO):$PATH"; else GO=go; export GOTOOLCHAIN=auto; fi
mkdir -p build evidence replay
# warm: build one cheap check's binary (compiles pion/webrtc + deps + rapid) and throw it away
VERIF_WARM=1 ./check C22 --tier quick >/dev/null 2>build/setup.log || true
echo "setup done"
exit 0
